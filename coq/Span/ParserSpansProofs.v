(* C05, parser level: proofs about the span-tracking parser model (Span/ParserSpans.v).
   Part A: erasing the spans gives Parse/Model.v function by function (so C06's grammar theorem applies).
   Part B: layout -- every parser function builds its node over the lexemes it consumed (`covers`, `lay`).
   Part C: a laid-out tree over monotone in-file lexeme spans is numerically well formed (`wf`). *)
From Coq Require Import ZArith NArith List String Bool Lia.
From SV Require Import Parse.Tokens Parse.Ast Parse.Model Span.Model Span.Proofs Span.ParserSpans.
Import ListNotations.
Open Scope list_scope.

(* ---------------------------------------------------------------------------------------------- *)
(* Part A: erasure *)

Definition er_p {SA A} (g : SA -> A) : res (SA * st) -> res (A * toks) :=
  rmap (fun p => (g (fst p), toks_of (snd p))).
Notation er_e := (er_p erase).

Ltac useH H ts le := let E := fresh "E" in pose proof (H ts le) as E; cbn [map fst snd toks_of erase] in E; rewrite E; clear E.
Ltac red1 := cbn [bind rmap er_p fst snd map toks_of erase erase_arg erase_param erase_clause option_map].

Section EPratt.
  Variable c : cfg.
  Variable SP : st -> spres.
  Variable P : toks -> pres.
  Hypothesis HP : forall ts le, P (map fst ts) = er_e (SP (ts, le)).

  Definition prefix0 (j : nat) (m : Z) (ts : toks) : pres :=
    match ts with
    | t :: rest => if tok_is_not t && (m <=? c_not_max c)%Z
                   then '(e, r) <- parse_expr c P j (c_not_rbp c) rest ;; Ok (ENot e, r) else P ts
    | [] => P ts
    end.
  Lemma parse_expr_S0 : forall n m ts,
    parse_expr c P (S n) m ts = '(lhs, r0) <- prefix0 n m ts ;; infix_loop c P n (c_ni_l c) (c_ni_r c) m lhs r0.
  Proof. reflexivity. Qed.
  Definition loop_body0 (j : nat) (nl nr m : Z) (lhs : expr) (ts : toks) : pres :=
    match ts with
    | [] => Ok (lhs, ts)
    | t :: rest =>
      if tok_is_not t then
        if (nl <? m)%Z then Ok (lhs, ts)
        else match rest with
             | t2 :: rest' =>
               if tok_is_in t2 then
                 '(rhs, r) <- parse_expr c P j nr rest' ;;
                 if reject_chained c r then Err 2 else infix_loop c P j nl nr m (EOp lhs NotIn rhs) r
               else Err 1
             | [] => Err 1
             end
      else
        match lookup (c_tbl c) t with
        | None => Ok (lhs, ts)
        | Some (op, lb, rb) =>
          if (lb <? m)%Z then Ok (lhs, ts)
          else '(rhs, r) <- parse_expr c P j rb rest ;;
               if is_cmp c op && reject_chained c r then Err 2 else infix_loop c P j nl nr m (EOp lhs op rhs) r
        end
    end.
  Lemma infix_loop_S0 : forall n nl nr m lhs ts,
    infix_loop c P (S n) nl nr m lhs ts = loop_body0 n nl nr m lhs ts.
  Proof. reflexivity. Qed.

  Definition sprefix (j : nat) (m : Z) (s : st) : spres :=
    match fst s with
    | (t, (l, r)) :: rest =>
      if tok_is_not t && (m <=? c_not_max c)%Z
      then '(e, s1) <- sparse_expr c SP j (c_not_rbp c) (rest, r) ;; Ok (XNot (l, snd s1) e, s1)
      else SP s
    | [] => SP s
    end.
  Lemma sparse_expr_S : forall n m s,
    sparse_expr c SP (S n) m s = '(lhs, s0) <- sprefix n m s ;; sinfix_loop c SP n (c_ni_l c) (c_ni_r c) m lhs s0.
  Proof. reflexivity. Qed.
  Definition sloop_body (j : nat) (nl nr m : Z) (lhs : sexpr) (s : st) : spres :=
    match fst s with
    | [] => Ok (lhs, s)
    | (t, (_, r)) :: rest =>
      if tok_is_not t then
        if (nl <? m)%Z then Ok (lhs, s)
        else match rest with
             | (t2, (_, r2)) :: rest' =>
               if tok_is_in t2 then
                 '(rhs, s1) <- sparse_expr c SP j nr (rest', r2) ;;
                 if reject_chained c (toks_of s1) then Err 2
                 else sinfix_loop c SP j nl nr m (XOp (fst (sspan lhs), snd (sspan rhs)) lhs NotIn rhs) s1
               else Err 1
             | [] => Err 1
             end
      else
        match lookup (c_tbl c) t with
        | None => Ok (lhs, s)
        | Some (op, lb, rb) =>
          if (lb <? m)%Z then Ok (lhs, s)
          else '(rhs, s1) <- sparse_expr c SP j rb (rest, r) ;;
               if is_cmp c op && reject_chained c (toks_of s1) then Err 2
               else sinfix_loop c SP j nl nr m (XOp (fst (sspan lhs), snd (sspan rhs)) lhs op rhs) s1
        end
    end.
  Lemma sinfix_loop_S : forall n nl nr m lhs s,
    sinfix_loop c SP (S n) nl nr m lhs s = sloop_body n nl nr m lhs s.
  Proof. reflexivity. Qed.

  Lemma pratt_erase : forall n,
    (forall m ts le, parse_expr c P n m (map fst ts) = er_e (sparse_expr c SP n m (ts, le))) /\
    (forall nl nr m lhs ts le, infix_loop c P n nl nr m (erase lhs) (map fst ts) = er_e (sinfix_loop c SP n nl nr m lhs (ts, le))).
  Proof.
    induction n as [|n [IH1 IH2]]; [split; reflexivity|]. split.
    - intros m ts le. rewrite parse_expr_S0, sparse_expr_S. unfold prefix0, sprefix.
      destruct ts as [|[t [l r]] rest]; red1.
      + useH HP (@nil stok) le. destruct (SP _) as [[e [ts' le']]| | |]; red1; try reflexivity. apply IH2.
      + destruct (tok_is_not t && (m <=? c_not_max c))%Z.
        * useH (IH1 (c_not_rbp c)) rest r. destruct (sparse_expr c SP n (c_not_rbp c) (rest, r)) as [[e [ts' le']]| | |]; red1; try reflexivity.
          apply (IH2 _ _ _ (XNot (l, le') e)).
        * useH HP ((t, (l, r)) :: rest) le. destruct (SP _) as [[e [ts' le']]| | |]; red1; try reflexivity. apply IH2.
    - intros nl nr m lhs ts le. rewrite infix_loop_S0, sinfix_loop_S. unfold loop_body0, sloop_body.
      destruct ts as [|[t [l r]] rest]; red1; [reflexivity|].
      destruct (tok_is_not t).
      + destruct (nl <? m)%Z; [reflexivity|]. destruct rest as [|[t2 [l2 r2]] rest']; red1; [reflexivity|].
        destruct (tok_is_in t2); [|reflexivity]. useH (IH1 nr) rest' r2.
        destruct (sparse_expr c SP n nr (rest', r2)) as [[e [ts' le']]| | |]; red1; try reflexivity.
        destruct (reject_chained c (map fst ts')); [reflexivity|]. apply (IH2 _ _ _ (XOp _ lhs NotIn e)).
      + destruct (lookup (c_tbl c) t) as [[[op lb] rb]|]; [|reflexivity].
        destruct (lb <? m)%Z; [reflexivity|]. useH (IH1 rb) rest r.
        destruct (sparse_expr c SP n rb (rest, r)) as [[e [ts' le']]| | |]; red1; try reflexivity.
        destruct (is_cmp c op && reject_chained c (map fst ts')); [reflexivity|]. apply (IH2 _ _ _ (XOp _ lhs op e)).
  Qed.
End EPratt.

Lemma erase_snorm : forall e, erase (snorm_target e) = norm_target (erase e).
Proof.
  fix IH 1. destruct e; cbn [snorm_target erase norm_target]; try reflexivity; f_equal;
    induction l as [|a l IHl]; cbn [map]; try reflexivity; (f_equal; [apply IH | apply IHl]).
Qed.

Lemma sctor_erase : forall k,
  match sctor_of_code k, ctor_of_code k with
  | Some g, Some f => forall sp e, erase (g sp e) = f (erase e)
  | None, None => True
  | _, _ => False
  end.
Proof.
  intros [|p]; [exact I|]. destruct p as [[p|p|]|[p|[p|p|]|]|]; cbn; try exact I; intros; reflexivity.
Qed.

Ltac call_ H ts le e ts' le' :=
  let E := fresh "E" in pose proof (H ts le) as E; cbn [map fst snd toks_of] in E; rewrite E;
  match type of E with _ = rmap _ ?m => clear E; destruct m as [[e [ts' le']]| | |]
                     | _ = er_p _ ?m => clear E; destruct m as [[e [ts' le']]| | |] end; red1; try reflexivity.
Tactic Notation "call" constr(H) constr(ts) constr(le) "as" ident(e) ident(ts') ident(le') := call_ H ts le e ts' le'.
(* abstract the default branch (= the [] branch) of a token match on both sides; D : its erasure equation *)
Ltac absd D :=
  lazymatch goal with
  | |- (match ?l with nil => ?B | cons _ _ => _ end) = ?f (match ?l' with nil => ?B' | cons _ _ => _ end) =>
      assert (D : B = f B');
      [ | let bx := fresh "bx" in let by_ := fresh "by_" in
          set (bx := B) in *; set (by_ := B') in *; clearbody bx by_ ]
  end.
Ltac dtk ts l r rest D := destruct ts as [|[[] [l r]] rest]; cbn [map fst snd]; try exact D.
Ltac fin := red1; rewrite ?map_rev, ?map_length; reflexivity.
Ltac dts ts l r rest := destruct ts as [|[[] [l r]] rest]; red1; try reflexivity.

Lemma bind_er : forall {SA A SB B} (g : SA -> A) (h : SB -> B) (m' : res (A * toks)) (m : res (SA * st))
    (k' : A * toks -> res (B * toks)) (k : SA * st -> res (SB * st)),
  m' = er_p g m -> (forall a (ts : stoks) le, k' (g a, map fst ts) = er_p h (k (a, (ts, le)))) ->
  bind m' k' = er_p h (bind m k).
Proof.
  intros SA A SB B g h m' m k' k E H. subst m'. destruct m as [[a [ts le]]| | |]; red1; try reflexivity. apply H.
Qed.

Section EBody.
  Variable c : cfg.
  Variable SR : srecs.
  Variable R : recs.
  Hypothesis HT : forall (ts : stoks) le, r_test R (map fst ts) = er_e (sr_test SR (ts, le)).
  Hypothesis HO : forall (ts : stoks) le, r_ortest R (map fst ts) = er_e (sr_ortest SR (ts, le)).
  Hypothesis HE : forall (ts : stoks) le, r_exprlist R (map fst ts) = er_e (sr_exprlist SR (ts, le)).
  Hypothesis HA : forall (ts : stoks) le, r_args R (map fst ts) = er_p (map erase_arg) (sr_args SR (ts, le)).
  Local Notation I := (pratt_impl c).

  Lemma expect_erase : forall t (ts : stoks) le, expect t (map fst ts) = rmap toks_of (sexpect t (ts, le)).
  Proof.
    intros t ts le. unfold expect, sexpect. destruct ts as [|[t' [l r]] rest]; red1; [reflexivity|].
    destruct (token_eqb t t'); reflexivity.
  Qed.
  Ltac ex_ t ts le ts' le' :=
    let E := fresh "E" in pose proof (expect_erase t ts le) as E; cbn [map fst snd toks_of] in E; rewrite E;
    match type of E with _ = rmap _ ?m => clear E; destruct m as [[ts' le']| | |] end; red1; try reflexivity.
  Tactic Notation "ex" constr(t) constr(ts) constr(le) "as" ident(ts') ident(le') := ex_ t ts le ts' le'.

  Definition er_cl : res (list sexpr * bool * st) -> res (list expr * bool * toks) :=
    rmap (fun p => (map erase (fst (fst p)), snd (fst p), toks_of (snd p))).

  Lemma comma_loop_erase : forall ST T start,
    (forall (ts : stoks) le, T (map fst ts) = er_e (ST (ts, le))) ->
    forall n acc (ts : stoks) le,
      comma_loop n T start (map erase acc) (map fst ts) = er_cl (scomma_loop n ST start acc (ts, le)).
  Proof.
    intros ST T start H. unfold er_cl. induction n as [|n IH]; intros acc ts le; [reflexivity|].
    cbn [comma_loop scomma_loop]. dts ts l0 r0 rest; try fin.
    destruct rest as [|[t [l r]] rest']; red1; [fin|].
    destruct (start t); [|fin].
    call H ((t, (l, r)) :: rest') r0 as e1 ts1 le1. apply (IH (_ :: acc)).
  Qed.

  Lemma test_list_tail_erase : forall ST T allow l first (ts : stoks) le,
    (forall (ts : stoks) le, T (map fst ts) = er_e (ST (ts, le))) ->
    test_list_tail c T allow (erase first) (map fst ts) = er_e (stest_list_tail c ST allow l first (ts, le)).
  Proof.
    intros ST T allow l first ts le H. unfold test_list_tail, stest_list_tail. red1. rewrite map_length.
    pose proof (comma_loop_erase ST T (is_test_start c) H (S (List.length ts)) [first] ts le) as E. cbn [map] in E.
    rewrite E. unfold er_cl. destruct (scomma_loop _ _ _ _ _) as [[[items tr] [ts' le']]| | |]; red1; try reflexivity.
    destruct items as [|x [|y items]]; cbn [map]; destruct tr; cbn [andb]; try reflexivity; destruct (negb allow); reflexivity.
  Qed.

  Lemma test_list_erase : forall ST T allow (ts : stoks) le,
    (forall (ts : stoks) le, T (map fst ts) = er_e (ST (ts, le))) ->
    test_list c T allow (map fst ts) = er_e (stest_list c ST allow (ts, le)).
  Proof.
    intros ST T allow ts le H. unfold test_list, stest_list. call H ts le as e1 ts1 le1.
    dts ts1 l1 r1 rest1. apply (test_list_tail_erase ST T allow _ e1 ((TComma, (l1, r1)) :: rest1) le1 H).
  Qed.

  Lemma slice_rest_erase : forall l e start (ts : stoks) le,
    slice_rest R (erase e) (option_map erase start) (map fst ts) = er_e (sslice_rest SR l e start (ts, le)).
  Proof.
    intros l e start ts le. unfold slice_rest, sslice_rest.
    eapply (bind_er (option_map erase) erase).
    { absd D. { call HT ts le as e1 ts1 le1. } dtk ts l0 r0 rest0 D; reflexivity. }
    intros stop ts1 le1. red1. eapply (bind_er (option_map erase) erase).
    { absd D. { reflexivity. } dtk ts1 l1 r1 rest1 D.
      absd D1. { call HT rest1 r1 as e2 ts2 le2. } dtk rest1 l2 r2 rest2 D1. reflexivity. }
    intros step ts2 le2. red1. ex TClosingSquare ts2 le2 as ts3 le3.
  Qed.

  Lemma index_or_slice_erase : forall l e (ts : stoks) le,
    index_or_slice R (erase e) (map fst ts) = er_e (sindex_or_slice SR l e (ts, le)).
  Proof.
    intros l e ts le. unfold index_or_slice, sindex_or_slice. absd D.
    { call HT ts le as e1 ts1 le1. absd D1. { ex TClosingSquare ts1 le1 as ts2 le2. }
      dtk ts1 l1 r1 rest1 D1.
      - call HT rest1 r1 as e2 ts2 le2. ex TClosingSquare ts2 le2 as ts3 le3.
      - apply (slice_rest_erase l e (Some e1)). }
    dtk ts l0 r0 rest0 D. apply (slice_rest_erase l e None).
  Qed.

  Lemma suffix_loop_erase : forall n lhs (ts : stoks) le,
    suffix_loop R n (erase lhs) (map fst ts) = er_e (ssuffix_loop SR n lhs (ts, le)).
  Proof.
    induction n as [|n IH]; intros lhs ts le; [reflexivity|]. cbn [suffix_loop ssuffix_loop].
    destruct ts as [|[[] [l0 r0]] rest0]; try reflexivity; red1.
    - destruct rest0 as [|[[] [l1 r1]] rest1]; try reflexivity. red1. apply (IH (XDot _ lhs _ _)).
    - call HA rest0 r0 as args ts1 le1. ex TClosingRound ts1 le1 as ts2 le2.
      destruct (check_args 0 [] (map erase_arg args)); [|reflexivity]. apply (IH (XCall _ lhs args)).
    - useH (index_or_slice_erase (fst (sspan lhs)) lhs) rest0 r0.
      destruct (sindex_or_slice SR (fst (sspan lhs)) lhs (rest0, r0)) as [[e1 [ts1 le1]]| | |]; red1; try reflexivity. apply IH.
  Qed.

  Lemma continue_primary_erase : forall lhs (ts : stoks) le,
    continue_primary R (erase lhs) (map fst ts) = er_e (scontinue_primary SR lhs (ts, le)).
  Proof. intros. unfold continue_primary, scontinue_primary. red1. rewrite map_length. apply suffix_loop_erase. Qed.

  Lemma for_clause_erase : forall (ts : stoks) le,
    for_clause R (map fst ts) = er_p erase_clause (sfor_clause SR (ts, le)).
  Proof.
    intros ts le. unfold for_clause, sfor_clause. ex TFor ts le as ts0 le0. call HE ts0 le0 as var ts1 le1.
    ex TIn ts1 le1 as ts2 le2. call HO ts2 le2 as over ts3 le3.
    destruct (check_assign (erase var)); [|reflexivity]. red1. rewrite erase_snorm. reflexivity.
  Qed.

  Lemma clause_loop_erase : forall n acc (ts : stoks) le,
    clause_loop R n (map erase_clause acc) (map fst ts) = er_p (map erase_clause) (sclause_loop SR n acc (ts, le)).
  Proof.
    induction n as [|n IH]; intros acc ts le; [reflexivity|]. cbn [clause_loop sclause_loop].
    destruct ts as [|[[] [l0 r0]] rest0]; try fin; red1.
    - call HO rest0 r0 as e1 ts1 le1. apply (IH (WIf e1 :: acc)).
    - useH for_clause_erase ((TFor, (l0, r0)) :: rest0) le.
      destruct (sfor_clause SR ((TFor, (l0, r0)) :: rest0, le)) as [[cl [ts1 le1]]| | |]; red1; try reflexivity. apply (IH (cl :: acc)).
  Qed.

  Lemma comp_clauses_erase : forall (ts : stoks) le,
    comp_clauses R (map fst ts) = er_p (map erase_clause) (scomp_clauses SR (ts, le)).
  Proof.
    intros ts le. unfold comp_clauses, scomp_clauses. useH for_clause_erase ts le.
    destruct (sfor_clause SR (ts, le)) as [[cl [ts1 le1]]| | |]; red1; try reflexivity. rewrite map_length. apply (clause_loop_erase _ [cl]).
  Qed.

  Lemma items_loop_erase : forall {SA A} (g : SA -> A) sitem item close,
    (forall (ts : stoks) le, item (map fst ts) = er_p g (sitem (ts, le))) ->
    forall n acc (ts : stoks) le,
      items_loop n item close (map g acc) (map fst ts) = er_p (map g) (sitems_loop n sitem close acc (ts, le)).
  Proof.
    intros SA A g sitem item close H. induction n as [|n IH]; intros acc ts le; [reflexivity|]. cbn [items_loop sitems_loop].
    destruct ts as [|[[] [l0 r0]] rest0]; try fin; red1.
    destruct rest0 as [|[t [l1 r1]] rest1]; red1.
    - call H (@nil stok) r0 as x ts1 le1. apply (IH (x :: acc)).
    - destruct (token_eqb t close); [fin|]. call H ((t, (l1, r1)) :: rest1) r0 as x ts1 le1. apply (IH (x :: acc)).
  Qed.

  Lemma list_or_comp_erase : forall l (ts : stoks) le,
    list_or_comp R (map fst ts) = er_e (slist_or_comp SR l (ts, le)).
  Proof.
    intros l ts le. unfold list_or_comp, slist_or_comp. absd D.
    { call HT ts le as first ts1 le1. absd D1.
      { rewrite map_length. useH (items_loop_erase erase (sr_test SR) (r_test R) TClosingSquare HT (S (List.length ts1)) [first]) ts1 le1.
        destruct (sitems_loop _ _ _ _ _) as [[items [ts2 le2]]| | |]; red1; try reflexivity. ex TClosingSquare ts2 le2 as ts3 le3. }
      dtk ts1 l1 r1 rest1 D1.
      useH comp_clauses_erase ((TFor, (l1, r1)) :: rest1) le1.
      destruct (scomp_clauses SR _) as [[cs [ts2 le2]]| | |]; red1; try reflexivity. ex TClosingSquare ts2 le2 as ts3 le3. }
    dtk ts l0 r0 rest0 D. reflexivity.
  Qed.

  Definition er_kv : res (sexpr * sexpr * st) -> res (expr * expr * toks) :=
    er_p (fun kv : sexpr * sexpr => (erase (fst kv), erase (snd kv))).

  Lemma dict_entry_erase : forall (ts : stoks) le, dict_entry R (map fst ts) = er_kv (sdict_entry SR (ts, le)).
  Proof.
    intros ts le. unfold dict_entry, sdict_entry, er_kv. call HT ts le as k ts1 le1. ex TColon ts1 le1 as ts2 le2.
    call HT ts2 le2 as v ts3 le3.
  Qed.

  Lemma dict_or_comp_erase : forall l (ts : stoks) le,
    dict_or_comp R (map fst ts) = er_e (sdict_or_comp SR l (ts, le)).
  Proof.
    intros l ts le. unfold dict_or_comp, sdict_or_comp. absd D.
    { useH dict_entry_erase ts le. unfold er_kv. destruct (sdict_entry SR (ts, le)) as [[[k v] [ts1 le1]]| | |]; red1; try reflexivity.
      absd D1.
      { rewrite map_length.
        pose proof (items_loop_erase (fun kv : sexpr * sexpr => (erase (fst kv), erase (snd kv))) (sdict_entry SR) (dict_entry R)
                      TClosingCurly dict_entry_erase (S (List.length ts1)) [(k, v)] ts1 le1) as E.
        cbn [map fst snd] in E. rewrite E. clear E.
        destruct (sitems_loop _ _ _ _ _) as [[items [ts2 le2]]| | |]; red1; try reflexivity. ex TClosingCurly ts2 le2 as ts3 le3. }
      dtk ts1 l1 r1 rest1 D1.
      useH comp_clauses_erase ((TFor, (l1, r1)) :: rest1) le1.
      destruct (scomp_clauses SR _) as [[cs [ts2 le2]]| | |]; red1; try reflexivity. ex TClosingCurly ts2 le2 as ts3 le3. }
    dtk ts l0 r0 rest0 D. reflexivity.
  Qed.

  Lemma parse_atom_erase : forall (ts : stoks) le, parse_atom c R (map fst ts) = er_e (sparse_atom c SR (ts, le)).
  Proof.
    intros ts le. unfold parse_atom, sparse_atom. absd D. { reflexivity. } dtk ts l0 r0 rest0 D; try reflexivity.
    - absd D1.
      { useH (test_list_erase (sr_test SR) (r_test R) true) rest0 r0; [|exact HT].
        destruct (stest_list c (sr_test SR) true (rest0, r0)) as [[e1 [ts1 le1]]| | |]; red1; try reflexivity.
        ex TClosingRound ts1 le1 as ts2 le2. }
      dtk rest0 l1 r1 rest1 D1. reflexivity.
    - apply list_or_comp_erase.
    - apply dict_or_comp_erase.
  Qed.

  Lemma parse_primary_erase : forall (ts : stoks) le, parse_primary c R (map fst ts) = er_e (sparse_primary c SR (ts, le)).
  Proof.
    intros ts le. unfold parse_primary, sparse_primary. call parse_atom_erase ts le as a ts1 le1. apply continue_primary_erase.
  Qed.

  Lemma unary_loop_erase : forall n (ts : stoks) le, unary_loop c R n (map fst ts) = er_e (sunary_loop c SR n (ts, le)).
  Proof.
    induction n as [|n IH]; intros ts le; [reflexivity|]. cbn [unary_loop sunary_loop].
    destruct ts as [|[t [l r]] rest]; cbn [map fst snd]; [apply (parse_primary_erase [])|].
    unfold unary_ctor, sunary_ctor. pose proof (sctor_erase (unary_code c t)) as K.
    destruct (sctor_of_code (unary_code c t)) as [g|], (ctor_of_code (unary_code c t)) as [f|]; try contradiction.
    - call IH rest r as e1 ts1 le1. rewrite K. reflexivity.
    - apply (parse_primary_erase ((t, (l, r)) :: rest)).
  Qed.

  Lemma parse_unary_erase : forall (ts : stoks) le, parse_unary c R (map fst ts) = er_e (sparse_unary c SR (ts, le)).
  Proof.
    intros ts le. unfold parse_unary, sparse_unary. cbn [fst]. rewrite map_length.
    useH (unary_loop_erase (S (List.length ts))) ts le. destruct (sunary_loop _ _ _ _) as [[e1 [ts1 le1]]| | |]; red1; try reflexivity.
    unfold guard, sguard. red1. rewrite !map_length. destruct (Nat.ltb _ _); reflexivity.
  Qed.

  Lemma continue_ternary_erase : forall e (ts : stoks) le,
    continue_ternary R (erase e) (map fst ts) = er_e (scontinue_ternary SR e (ts, le)).
  Proof.
    intros e ts le. unfold continue_ternary, scontinue_ternary. absd D. { reflexivity. } dtk ts l0 r0 rest0 D.
    call HO rest0 r0 as cond ts1 le1. ex TElse ts1 le1 as ts2 le2. call HT ts2 le2 as f ts3 le3.
  Qed.

  Lemma lambda_param_erase : forall (ts : stoks) le,
    lambda_param R (map fst ts) = er_p erase_param (slambda_param SR (ts, le)).
  Proof.
    intros ts le. unfold lambda_param, slambda_param. absd D. { reflexivity. } dtk ts l0 r0 rest0 D.
    - absd D1. { reflexivity. } dtk rest0 l1 r1 rest1 D1. call HT rest1 r1 as d ts2 le2.
    - absd D1. { reflexivity. } dtk rest0 l1 r1 rest1 D1. reflexivity.
    - reflexivity.
    - dtk rest0 l1 r1 rest1 D. reflexivity.
  Qed.

  Lemma params_loop_erase : forall n acc (ts : stoks) le,
    params_loop R n (map erase_param acc) (map fst ts) = er_p (map erase_param) (sparams_loop SR n acc (ts, le)).
  Proof.
    induction n as [|n IH]; intros acc ts le; [reflexivity|]. cbn [params_loop sparams_loop].
    call lambda_param_erase ts le as p ts1 le1. absd D. { fin. } dtk ts1 l1 r1 rest1 D.
    absd D1. { apply (IH (p :: acc)). } dtk rest1 l2 r2 rest2 D1. fin.
  Qed.

  Lemma lambda_params_erase : forall (ts : stoks) le,
    lambda_params R (map fst ts) = er_p (map erase_param) (slambda_params SR (ts, le)).
  Proof.
    intros ts le. unfold lambda_params, slambda_params. absd D. { cbn [fst]. rewrite map_length. apply (params_loop_erase _ []). }
    dtk ts l0 r0 rest0 D. reflexivity.
  Qed.

  Lemma parse_lambda_erase : forall l (ts : stoks) le, parse_lambda R (map fst ts) = er_e (sparse_lambda SR l (ts, le)).
  Proof.
    intros l ts le. unfold parse_lambda, sparse_lambda. call lambda_params_erase ts le as ps ts1 le1.
    ex TColon ts1 le1 as ts2 le2. call HT ts2 le2 as body ts3 le3. destruct (check_params _); reflexivity.
  Qed.

  Lemma pe_top_erase : forall m (ts : stoks) le,
    parse_expr_top c (parse_unary c R) m (map fst ts) = er_e (sparse_expr_top c (sparse_unary c SR) m (ts, le)).
  Proof.
    intros. unfold parse_expr_top, sparse_expr_top. cbn [fst]. rewrite map_length.
    apply (pratt_erase c (sparse_unary c SR) (parse_unary c R) parse_unary_erase).
  Qed.

  Lemma cont_infix_erase : forall m lhs (ts : stoks) le,
    continue_infix c (parse_unary c R) m (erase lhs) (map fst ts) = er_e (scontinue_infix c (sparse_unary c SR) m lhs (ts, le)).
  Proof.
    intros. unfold continue_infix, scontinue_infix. cbn [fst]. rewrite map_length.
    apply (pratt_erase c (sparse_unary c SR) (parse_unary c R) parse_unary_erase).
  Qed.

  Lemma bitor_erase : forall (ts : stoks) le,
    parse_bitor_expr c (parse_unary c R) (map fst ts) = er_e (sparse_bitor_expr c (sparse_unary c SR) (ts, le)).
  Proof.
    intros. unfold parse_bitor_expr, sparse_bitor_expr. call parse_unary_erase ts le as e1 ts1 le1. apply cont_infix_erase.
  Qed.

  Lemma parse_test_erase : forall (ts : stoks) le, parse_test c I R (map fst ts) = er_e (sparse_test c SR (ts, le)).
  Proof.
    intros ts le. unfold parse_test, sparse_test. cbn [i_test pratt_impl]. absd D.
    { call (pe_top_erase (c_test c)) ts le as e1 ts1 le1. apply continue_ternary_erase. }
    dtk ts l0 r0 rest0 D. apply parse_lambda_erase.
  Qed.

  Lemma parse_or_test_erase : forall (ts : stoks) le, parse_or_test c I R (map fst ts) = er_e (sparse_or_test c SR (ts, le)).
  Proof. intros. unfold parse_or_test, sparse_or_test. cbn [i_ortest pratt_impl]. apply pe_top_erase. Qed.

  Lemma parse_expr_list_erase : forall (ts : stoks) le,
    parse_expr_list c I R (map fst ts) = er_e (sparse_expr_list c SR (ts, le)).
  Proof.
    intros ts le. unfold parse_expr_list, sparse_expr_list. cbn [i_bitor pratt_impl].
    call bitor_erase ts le as first ts1 le1. absd D. { reflexivity. } dtk ts1 l1 r1 rest1 D.
    pose proof (comma_loop_erase _ _ (is_expr_start c) bitor_erase (S (List.length ((TComma, (l1, r1)) :: rest1))) [first]
                  ((TComma, (l1, r1)) :: rest1) le1) as E.
    cbn [List.length map fst] in *. rewrite map_length. rewrite E. clear E. unfold er_cl.
    destruct (scomma_loop _ _ _ _ _) as [[[items tr] [ts' le']]| | |]; red1; try reflexivity.
    destruct items as [|x [|y items]]; cbn [map]; destruct tr; reflexivity.
  Qed.

  Lemma parse_argument_erase : forall (ts : stoks) le,
    parse_argument c I R (map fst ts) = er_p erase_arg (sparse_argument c SR (ts, le)).
  Proof.
    intros ts le. unfold parse_argument, sparse_argument. cbn [i_reentry pratt_impl]. absd D.
    { call parse_test_erase ts le as e1 ts1 le1. }
    dtk ts l0 r0 rest0 D.
    - absd D1.
      { useH (continue_primary_erase (XId (l0, r0) n)) rest0 r0.
        destruct (scontinue_primary SR (XId (l0, r0) n) (rest0, r0)) as [[e1 [ts1 le1]]| | |]; red1; try reflexivity.
        rewrite !map_length. destruct (Nat.leb _ _); [|reflexivity].
        call (cont_infix_erase (c_arg c) e1) ts1 le1 as e2 ts2 le2.
        call (continue_ternary_erase e2) ts2 le2 as e3 ts3 le3. }
      dtk rest0 l1 r1 rest1 D1. call parse_test_erase rest1 r1 as e1 ts1 le1.
    - call parse_test_erase rest0 r0 as e1 ts1 le1.
    - call parse_test_erase rest0 r0 as e1 ts1 le1.
  Qed.

  Lemma args_loop_erase : forall n acc (ts : stoks) le,
    args_loop c I R n (map erase_arg acc) (map fst ts) = er_p (map erase_arg) (sargs_loop c SR n acc (ts, le)).
  Proof.
    induction n as [|n IH]; intros acc ts le; [reflexivity|]. cbn [args_loop sargs_loop].
    call parse_argument_erase ts le as a ts1 le1. absd D. { fin. } dtk ts1 l1 r1 rest1 D.
    absd D1. { apply (IH (a :: acc)). } dtk rest1 l2 r2 rest2 D1. fin.
  Qed.

  Lemma parse_args_erase : forall (ts : stoks) le,
    parse_args c I R (map fst ts) = er_p (map erase_arg) (sparse_args c SR (ts, le)).
  Proof.
    intros ts le. unfold parse_args, sparse_args. absd D. { cbn [fst]. rewrite map_length. apply (args_loop_erase _ []). }
    dtk ts l0 r0 rest0 D. reflexivity.
  Qed.

  Lemma parse_top_erase : forall strict (ts : stoks) le,
    parse_top c I R strict (map fst ts) = rmap erase_stmt (sparse_top c SR strict (ts, le)).
  Proof.
    intros strict ts le. unfold parse_top, sparse_top.
    useH parse_test_erase ts le. destruct (sparse_test c SR (ts, le)) as [[first [ts0 le0]]| | |]; red1; try reflexivity.
    assert (EL : (match map fst ts0 with TComma :: _ => true | _ => false end) =
                 (match ts0 with (TComma, _) :: _ => true | _ => false end)).
    { destruct ts0 as [|[[] [? ?]] ?]; reflexivity. }
    rewrite EL. clear EL. set (is_list := match ts0 with (TComma, _) :: _ => true | _ => false end). clearbody is_list.
    assert (K : forall b lhs (ts1 : stoks) le1,
      match map fst ts1 with
      | [] => if b && strict then Err 15 else Ok (SExpr (erase lhs))
      | TColon :: _ => Unmodelled
      | TOther _ :: _ => Unmodelled
      | TEqual :: r' =>
        '(rhs, r'') <- test_list c (parse_test c I R) false r' ;;
        match r'' with
        | [] => if check_assign (erase lhs) then Ok (SAssign (norm_target (erase lhs)) rhs) else Err 13
        | _ => Err 14
        end
      | _ => Err 14
      end = rmap erase_stmt
      match fst (ts1, le1) with
      | [] => if b && strict then Err 15 else Ok (TExpr (pos (ts, le), snd (ts1, le1)) lhs)
      | (TColon, _) :: _ => Unmodelled
      | (TOther _, _) :: _ => Unmodelled
      | (TEqual, (_, r)) :: rest =>
        '(rhs, s2) <- stest_list c (sparse_test c SR) false (rest, r) ;;
        match fst s2 with
        | [] => if check_assign (erase lhs) then Ok (TAssign (pos (ts, le), snd s2) (snorm_target lhs) rhs) else Err 13
        | _ => Err 14
        end
      | _ => Err 14
      end).
    { intros b lhs ts1 le1. destruct ts1 as [|[[] [l1 r1]] rest1]; cbn [map fst snd]; try reflexivity.
      - destruct (b && strict); reflexivity.
      - useH (test_list_erase (sparse_test c SR) (parse_test c I R) false) rest1 r1; [|exact parse_test_erase].
        destruct (stest_list c (sparse_test c SR) false (rest1, r1)) as [[rhs [ts2 le2]]| | |]; red1; try reflexivity.
        destruct ts2 as [|? ?]; cbn [map]; [|reflexivity]. destruct (check_assign (erase lhs)); [|reflexivity].
        cbn [rmap erase_stmt]. rewrite erase_snorm. reflexivity. }
    destruct is_list.
    - useH (test_list_tail_erase (sparse_test c SR) (parse_test c I R) false (pos (ts, le)) first) ts0 le0; [|exact parse_test_erase].
      destruct (stest_list_tail _ _ _ _ _ _) as [[lhs [ts1 le1]]| | |]; red1; try reflexivity. apply (K true).
    - red1. apply (K false).
  Qed.
End EBody.

Lemma go_erase : forall c fuel,
  (forall (ts : stoks) le, r_test (go c (pratt_impl c) fuel) (map fst ts) = er_e (sr_test (sgo c fuel) (ts, le))) /\
  (forall (ts : stoks) le, r_ortest (go c (pratt_impl c) fuel) (map fst ts) = er_e (sr_ortest (sgo c fuel) (ts, le))) /\
  (forall (ts : stoks) le, r_exprlist (go c (pratt_impl c) fuel) (map fst ts) = er_e (sr_exprlist (sgo c fuel) (ts, le))) /\
  (forall (ts : stoks) le, r_args (go c (pratt_impl c) fuel) (map fst ts) = er_p (map erase_arg) (sr_args (sgo c fuel) (ts, le))).
Proof.
  intros c. induction fuel as [|f (HT & HO & HE & HA)]; [repeat split; reflexivity|].
  cbn [go sgo level slevel r_test r_ortest r_exprlist r_args sr_test sr_ortest sr_exprlist sr_args].
  split; [|split; [|split]]; intros ts le.
  - apply parse_test_erase; assumption.
  - apply parse_or_test_erase; assumption.
  - apply parse_expr_list_erase; assumption.
  - apply parse_args_erase; assumption.
Qed.

(* (a) erasing the spans of the span-tracking parser's result gives exactly Parse.Model.parse *)
Theorem parser_erase_spans : forall c fuel (ts : stoks),
  rmap erase_stmt (sparse c fuel ts) = Parse.Model.parse c fuel (map fst ts).
Proof.
  intros c fuel ts. unfold sparse, Parse.Model.parse. symmetry.
  destruct (go_erase c fuel) as (HT & HO & HE & HA). apply parse_top_erase; assumption.
Qed.

Theorem parser_erase_spans_test : forall c fuel (ts : stoks) le,
  er_e (sparse_test_m c fuel (ts, le)) = parse_test_m c fuel (map fst ts).
Proof. intros c fuel ts le. symmetry. apply (go_erase c fuel). Qed.

(* ---------------------------------------------------------------------------------------------- *)
(* Part B: layout *)
Open Scope N_scope.

Lemma end_last_app : forall a b p, end_last p (a ++ b) = end_last (end_last p a) b.
Proof. induction a as [|[t [l r]] a IH]; intros b p; cbn [app end_last]; [reflexivity | apply IH]. Qed.
Lemma end_last_ne : forall a p q, a <> [] -> end_last p a = end_last q a.
Proof. intros [|[t [l r]] a] p q H; [congruence | reflexivity]. Qed.
Lemma first_begin_app : forall a b, a <> [] -> first_begin (a ++ b) = first_begin a.
Proof. intros [|[t [l r]] a] b H; [congruence | reflexivity]. Qed.
Lemma app_ne_l : forall {A} (a b : list A), a <> [] -> a ++ b <> [].
Proof. intros A [|x a] b H; [congruence | discriminate]. Qed.
Lemma app_ne_r : forall {A} (a b : list A), b <> [] -> a ++ b <> [].
Proof. intros A [|x a] b H; [exact H | discriminate]. Qed.

Lemma lay_ne : forall c t, lay c t -> c <> [].
Proof. intros c t H. destruct H; [discriminate | assumption]. Qed.
Lemma lay_span : forall c t, lay c t -> rsp t = seg_span c.
Proof. intros c t H. destruct H; [destruct sp; reflexivity | reflexivity]. Qed.
Lemma covers_ne : forall c t, covers c t -> c <> [].
Proof. intros c t (pre & core & post & E & _ & _ & L). subst. apply app_ne_r, app_ne_l. eapply lay_ne; eauto. Qed.

Lemma kl_pre : forall x r ks, kids_lay r ks -> kids_lay (x ++ r) ks.
Proof.
  intros x r ks H. destruct H as [c|a c rest k ks L K]; [constructor|]. rewrite app_assoc. constructor; assumption.
Qed.
Lemma kl_skip : forall t r ks, kids_lay r ks -> kids_lay (t :: r) ks.
Proof. intros t r ks H. apply (kl_pre [t]), H. Qed.
Lemma kl_cov : forall c k rest ks, covers c k -> kids_lay rest ks -> kids_lay (c ++ rest) (k :: ks).
Proof.
  intros c k rest ks (pre & core & post & E & _ & _ & L) K. subst. rewrite <- !app_assoc.
  constructor; [assumption | apply kl_pre, K].
Qed.
Lemma kl_leaf : forall tok sp rest ks, kids_lay rest ks -> kids_lay ((tok, sp) :: rest) (rleaf tok sp :: ks).
Proof. intros tok sp rest ks K. apply (kl_cons [] [(tok, sp)] rest). apply lay_leaf. exact K. Qed.
Lemma kl_app : forall c1 ks1, kids_lay c1 ks1 -> forall c2 ks2, kids_lay c2 ks2 -> kids_lay (c1 ++ c2) (ks1 ++ ks2).
Proof.
  fix IH 3. intros c1 ks1 H c2 ks2 K. destruct H as [c|a c rest k ks L K1].
  - cbn [app]. apply kl_pre, K.
  - rewrite <- !app_assoc. cbn [app]. constructor; [exact L | apply IH; assumption].
Qed.

(* the three span shapes of parser_rd.rs *)
Lemma cov_full : forall cons kids sp p, cons <> [] -> kids_lay cons kids -> sp = (first_begin cons, end_last p cons) ->
  covers cons (RT sp None kids).
Proof.
  intros cons kids sp p NE K ->. exists [], cons, []. rewrite app_nil_r. repeat split; try constructor.
  rewrite (end_last_ne cons p 0 NE). apply lay_node; assumption.
Qed.

Lemma cov_left : forall c1 k1 rest ks sp p, covers c1 k1 -> kids_lay rest ks -> rest <> [] ->
  sp = (fst (rsp k1), end_last p (c1 ++ rest)) -> covers (c1 ++ rest) (RT sp None (k1 :: ks)).
Proof.
  intros c1 k1 rest ks sp p (pre & core & post & E & O & C & L) K NE ->. subst c1.
  exists pre, (core ++ post ++ rest), []. rewrite app_nil_r, <- !app_assoc. repeat split; try assumption; try constructor.
  pose proof (lay_ne _ _ L) as NC. rewrite (lay_span _ _ L).
  replace (fst (seg_span core), end_last p (pre ++ core ++ post ++ rest)) with (seg_span (core ++ post ++ rest)).
  - apply lay_node; [apply app_ne_l, NC|]. apply (kl_cons [] core (post ++ rest)); [exact L | apply kl_pre, K].
  - unfold seg_span. cbn [fst]. rewrite (first_begin_app core _ NC). f_equal.
    rewrite !end_last_app. apply end_last_ne, NE.
Qed.

Lemma cov_op : forall c1 k1 mid c2 k2, covers c1 k1 -> covers c2 k2 ->
  covers (c1 ++ mid ++ c2) (RT (fst (rsp k1), snd (rsp k2)) None [k1; k2]).
Proof.
  intros c1 k1 mid c2 k2 (pre & core & post & E & O & C & L) (pre2 & core2 & post2 & E2 & O2 & C2 & L2). subst.
  exists pre, (core ++ post ++ mid ++ pre2 ++ core2), post2. rewrite <- !app_assoc. repeat split; try assumption.
  pose proof (lay_ne _ _ L) as NC. pose proof (lay_ne _ _ L2) as NC2. rewrite (lay_span _ _ L), (lay_span _ _ L2).
  replace (fst (seg_span core), snd (seg_span core2)) with (seg_span (core ++ post ++ mid ++ pre2 ++ core2)).
  - apply lay_node; [apply app_ne_l, NC|]. apply (kl_cons [] core); [exact L|].
    rewrite !app_assoc. rewrite <- (app_nil_r core2) at 1. rewrite <- !app_assoc. rewrite !app_assoc.
    rewrite <- (app_assoc _ core2 []). constructor; [exact L2 | constructor].
  - unfold seg_span. cbn [fst snd]. rewrite (first_begin_app core _ NC). f_equal.
    rewrite !end_last_app. apply end_last_ne, NC2.
Qed.

Lemma cov_paren : forall c t s1 s2, covers c t -> covers ((TOpeningRound, s1) :: c ++ [(TClosingRound, s2)]) t.
Proof.
  intros c t s1 s2 (pre & core & post & E & O & C & L). subst.
  exists ((TOpeningRound, s1) :: pre), core, (post ++ [(TClosingRound, s2)]). rewrite <- !app_assoc. repeat split.
  - constructor; [reflexivity | exact O].
  - apply Forall_app. split; [exact C | constructor; [reflexivity | constructor]].
  - exact L.
Qed.

Lemma cov_leaf : forall tok sp, covers [(tok, sp)] (rleaf tok sp).
Proof. intros. exists [], [(tok, sp)], []. repeat split; try constructor. Qed.

Lemma rsp_tree_of : forall e, rsp (tree_of e) = sspan e.
Proof. destruct e; reflexivity. Qed.

(* the Hoare triple: if m succeeds from s, it consumed a run `cons` of lexemes, last_end is the end of the last of
   them, and Q holds of the run and the result *)
Definition sat {A} (s : st) (m : res (A * st)) (Q : stoks -> A -> Prop) : Prop :=
  match m with
  | Ok (a, s') => exists cons, fst s = cons ++ fst s' /\ snd s' = end_last (snd s) cons /\ Q cons a
  | _ => True
  end.

Lemma sat_ret : forall {A} (s : st) (a : A) (Q : stoks -> A -> Prop), Q [] a -> sat s (Ok (a, s)) Q.
Proof. intros A s a Q H. exists []. repeat split; assumption. Qed.

Lemma sat_bind : forall {A B} (s : st) (m : res (A * st)) (k : A * st -> res (B * st)) Q1 (Q2 : stoks -> B -> Prop),
  sat s m Q1 ->
  (forall c1 a (ts1 : stoks), Q1 c1 a -> fst s = c1 ++ ts1 ->
     sat (ts1, end_last (snd s) c1) (k (a, (ts1, end_last (snd s) c1))) (fun c2 b => Q2 (c1 ++ c2) b)) ->
  sat s (bind m k) Q2.
Proof.
  intros A B s m k Q1 Q2 H K. destruct m as [[a [ts1 le1]]| | |]; cbn [bind]; try exact I.
  destruct H as (c1 & E1 & E2 & q1). cbn [fst snd] in *. subst le1. specialize (K c1 a ts1 q1 E1).
  unfold sat in *. destruct (k _) as [[b [ts2 le2]]| | |]; try exact I.
  destruct K as (c2 & F1 & F2 & q2). cbn [fst snd] in *. exists (c1 ++ c2). repeat split.
  - rewrite E1, F1, app_assoc. reflexivity.
  - rewrite F2, end_last_app. reflexivity.
  - exact q2.
Qed.

Lemma sat_tok : forall {B} t l r (rest : stoks) le (m : res (B * st)) (Q : stoks -> B -> Prop),
  sat (rest, r) m (fun c b => Q ((t, (l, r)) :: c) b) -> sat ((t, (l, r)) :: rest, le) m Q.
Proof.
  intros B t l r rest le m Q H. unfold sat in *. destruct m as [[b [ts2 le2]]| | |]; try exact I.
  destruct H as (c & F1 & F2 & q). cbn [fst snd] in *. exists ((t, (l, r)) :: c). repeat split.
  - rewrite F1. reflexivity.
  - exact F2.
  - exact q.
Qed.

Lemma sat_weaken : forall {A} (s : st) (m : res (A * st)) (Q Q' : stoks -> A -> Prop),
  sat s m Q -> (forall c a, Q c a -> Q' c a) -> sat s m Q'.
Proof.
  intros A s m Q Q' H W. unfold sat in *. destruct m as [[a s']| | |]; try exact I.
  destruct H as (c & E1 & E2 & q). exists c. repeat split; auto.
Qed.

Lemma token_eqb_close : forall t, token_eqb TClosingRound t = true -> t = TClosingRound.
Proof. destruct t; cbn; congruence. Qed.

(* expect: one lexeme is consumed (which one matters only for the closing parenthesis) *)
Lemma sat_expect : forall {B} t (s : st) (k : st -> res (B * st)) (Q : stoks -> B -> Prop),
  (forall t' l r (rest : stoks), fst s = (t', (l, r)) :: rest -> token_eqb t t' = true ->
     sat (rest, r) (k (rest, r)) (fun c b => Q ((t', (l, r)) :: c) b)) ->
  sat s (bind (sexpect t s) k) Q.
Proof.
  intros B t [ts le] k Q H. unfold sexpect. cbn [fst snd] in *. destruct ts as [|[t' [l r]] rest]; [exact I|].
  destruct (token_eqb t t') eqn:E; [|exact I]. cbn [bind]. apply sat_tok. apply (H t' l r rest eq_refl E).
Qed.

Notation GoodE := (fun (c : stoks) (e : sexpr) => covers c (tree_of e)).

Ltac sbi := let c := fresh "c" in let a := fresh "a" in let ts := fresh "ts" in
            let q := fresh "q" in let E := fresh "E" in
            intros c a ts q E; cbv beta in q; cbn [fst snd] in E; cbn beta iota; cbn [fst snd].
Ltac sb tac := eapply sat_bind; [ tac | sbi ].
Ltac sbindq Q := eapply sat_bind with (Q1 := Q); [ | sbi ].
Lemma kl_cov1 : forall c k, covers c k -> kids_lay c [k].
Proof. intros c k H. rewrite <- (app_nil_r c). apply kl_cov; [exact H | constructor]. Qed.
Ltac kl := repeat first [ apply kl_nil | apply kl_leaf | (eapply kl_cov; [eassumption|]) | (apply kl_cov1; assumption) | apply kl_skip ].
Ltac spn := cbn [first_begin end_last app fst snd]; repeat (first [rewrite end_last_app | progress cbn [end_last app]]); reflexivity.
Ltac ret := apply sat_ret; rewrite ?app_nil_r.
Ltac wk := let c' := fresh "c" in let a' := fresh "a" in let H := fresh "H" in
           intros c' a' H; cbv beta in *;
           repeat (first [rewrite <- app_assoc in H | progress cbn [app] in H]);
           repeat (first [rewrite <- app_assoc | progress cbn [app]]); exact H.

Section LPratt.
  Variable c : cfg.
  Variable SP : st -> spres.
  Hypothesis GP : forall s, sat s (SP s) GoodE.

  Lemma pratt_lay : forall n,
    (forall m s, sat s (sparse_expr c SP n m s) GoodE) /\
    (forall nl nr m c0 lhs s, covers c0 (tree_of lhs) ->
       sat s (sinfix_loop c SP n nl nr m lhs s) (fun c e => covers (c0 ++ c) (tree_of e))).
  Proof.
    induction n as [|n [IH1 IH2]]; [split; intros; exact I|]. split.
    - intros m [ts le]. rewrite sparse_expr_S. unfold sprefix. cbn [fst snd].
      sbindq (fun (c : stoks) (e : sexpr) => covers c (tree_of e)).
      + destruct ts as [|[t [l r]] rest]; [apply GP|].
        destruct (tok_is_not t && _)%Z; [|apply GP].
        apply sat_tok. sb ltac:(apply IH1). apply sat_ret. cbn [tree_of].
        eapply cov_full with (p := le); [discriminate | kl | spn].
      + eapply sat_weaken; [apply (IH2 _ _ _ c0 a); exact q|]. wk.
    - intros nl nr m c0 lhs [ts le] G. rewrite sinfix_loop_S. unfold sloop_body. cbn [fst snd].
      destruct ts as [|[t [l r]] rest]; [apply sat_ret; rewrite app_nil_r; exact G|].
      destruct (tok_is_not t).
      + destruct (nl <? m)%Z; [apply sat_ret; rewrite app_nil_r; exact G|].
        destruct rest as [|[t2 [l2 r2]] rest']; [exact I|]. destruct (tok_is_in t2); [|exact I].
        apply sat_tok, sat_tok. sb ltac:(apply IH1). destruct (reject_chained _ _); [exact I|].
        eapply sat_weaken; [apply (IH2 _ _ _ (c0 ++ [(t, (l, r)); (t2, (l2, r2))] ++ c1))|wk].
        cbn [tree_of]. rewrite <- !rsp_tree_of. apply cov_op; assumption.
      + destruct (lookup (c_tbl c) t) as [[[op lb] rb]|]; [|apply sat_ret; rewrite app_nil_r; exact G].
        destruct (lb <? m)%Z; [apply sat_ret; rewrite app_nil_r; exact G|].
        apply sat_tok. sb ltac:(apply IH1). destruct (_ && _); [exact I|].
        eapply sat_weaken; [apply (IH2 _ _ _ (c0 ++ [(t, (l, r))] ++ c1))|wk].
        cbn [tree_of]. rewrite <- !rsp_tree_of. apply cov_op; assumption.
  Qed.
End LPratt.

Lemma kl_post : forall c ks x, kids_lay c ks -> kids_lay (c ++ x) ks.
Proof. intros c ks x H. rewrite <- (app_nil_r ks). apply kl_app; [exact H | constructor]. Qed.

Lemma tree_of_snorm : forall e, tree_of (snorm_target e) = tree_of e.
Proof.
  fix IH 1. destruct e; cbn [snorm_target tree_of]; try reflexivity; f_equal;
    induction l as [|a l IHl]; cbn [map]; try reflexivity; (f_equal; [apply IH | apply IHl]).
Qed.

Lemma sctor_tree : forall k g, sctor_of_code k = Some g -> forall sp e, tree_of (g sp e) = RT sp None [tree_of e].
Proof.
  intros [|p] g H; [discriminate|]. destruct p as [[p|p|]|[p|[p|p|]|]|]; cbn in H; try discriminate; inversion H; reflexivity.
Qed.

Lemma pos_first : forall (s : st) c1 (ts1 : stoks), fst s = c1 ++ ts1 -> c1 <> [] -> pos s = first_begin c1.
Proof. intros [ts le] [|[t [l r]] c1] ts1 E NE; [congruence|]. cbn [fst] in E. subst ts. reflexivity. Qed.

Lemma flat_map_single : forall {A B} (f : A -> B) l, flat_map (fun x => [f x]) l = map f l.
Proof. induction l as [|a l IH]; cbn; [reflexivity | rewrite IH; reflexivity]. Qed.

Lemma sat_guard : forall (s : st) (m : spres) Q, sat s m Q -> sat s (sguard s m) Q.
Proof. intros s m Q H. unfold sguard. destruct m as [[e s']| | |]; try exact I. destruct (Nat.ltb _ _); [exact H | exact I]. Qed.

Section LBody.
  Variable c : cfg.
  Variable SR : srecs.
  Hypothesis GT : forall s, sat s (sr_test SR s) GoodE.
  Hypothesis GO : forall s, sat s (sr_ortest SR s) GoodE.
  Hypothesis GE : forall s, sat s (sr_exprlist SR s) GoodE.
  Hypothesis GA : forall s, sat s (sr_args SR s) (fun c args => kids_lay c (map tree_of_arg args)).

  Lemma comma_loop_lay : forall T start, (forall s, sat s (T s) GoodE) -> forall n acc s,
    sat s (scomma_loop n T start acc s)
        (fun c r => exists new, fst r = rev acc ++ new /\ kids_lay c (map tree_of new) /\ (new = [] -> snd r = false -> c = [])).
  Proof.
    intros T start HT. induction n as [|n IH]; intros acc [ts le]; [exact I|]. cbn [scomma_loop fst snd].
    assert (D : sat (ts, le) (Ok (rev acc, false, (ts, le)))
                  (fun c r => exists new, fst r = rev acc ++ new /\ kids_lay c (map tree_of new) /\ (new = [] -> snd r = false -> c = []))).
    { ret. exists []. rewrite app_nil_r. repeat split; constructor. }
    destruct ts as [|[[] [l r]] rest]; try exact D. clear D.
    assert (D : sat ((TComma, (l, r)) :: rest, le) (Ok (rev acc, true, (rest, r)))
                  (fun c r => exists new, fst r = rev acc ++ new /\ kids_lay c (map tree_of new) /\ (new = [] -> snd r = false -> c = []))).
    { apply sat_tok. ret. exists []. rewrite app_nil_r. repeat split; try constructor. discriminate. }
    destruct rest as [|[t [l1 r1]] rest1]; [exact D|]. destruct (start t); [|exact D]. clear D.
    apply sat_tok. sb ltac:(apply HT). eapply sat_weaken; [apply IH|].
    intros c' [items tr] (new & E1 & K & _). cbn [fst snd] in *. exists (a :: new). repeat split.
    - rewrite E1. cbn [rev]. rewrite <- app_assoc. reflexivity.
    - cbn [map]. kl. exact K.
    - discriminate.
  Qed.

  Lemma test_list_tail_lay : forall T allow, (forall s, sat s (T s) GoodE) -> forall c0 p0 first l s,
    covers c0 (tree_of first) -> l = first_begin c0 -> snd s = end_last p0 c0 ->
    sat s (stest_list_tail c T allow l first s) (fun c e => covers (c0 ++ c) (tree_of e)).
  Proof.
    intros T allow HT c0 p0 first l [ts le] G -> EL. cbn [snd] in EL. unfold stest_list_tail.
    sb ltac:(apply (comma_loop_lay T (is_test_start c) HT)). destruct a as [items tr]. destruct q as (new & E1 & K & Z).
    cbn [fst snd rev app] in *. subst items.
    assert (D : sat (ts0, end_last le c1) (Ok (XTuple (first_begin c0, end_last le c1) (first :: new), (ts0, end_last le c1)))
                  (fun c2 b => covers (c0 ++ c1 ++ c2) (tree_of b))).
    { ret. cbn [tree_of map]. eapply cov_full with (p := p0); [apply app_ne_l; eapply covers_ne; eauto| |].
      - apply kl_cov; assumption.
      - rewrite first_begin_app by (eapply covers_ne; eauto). rewrite end_last_app, <- EL. reflexivity. }
    destruct new as [|y new]; destruct tr; cbn [andb]; try (destruct (negb allow); [exact I|]); try exact D.
    rewrite (Z eq_refl eq_refl). ret. exact G.
  Qed.

  Lemma test_list_lay : forall T allow, (forall s, sat s (T s) GoodE) -> forall s, sat s (stest_list c T allow s) GoodE.
  Proof.
    intros T allow HT s. unfold stest_list. sb ltac:(apply HT).
    assert (D : sat (ts, end_last (snd s) c0) (Ok (a, (ts, end_last (snd s) c0))) (fun c2 b => covers (c0 ++ c2) (tree_of b))).
    { ret. exact q. }
    destruct ts as [|[[] [l r]] rest]; try exact D. clear D.
    apply (test_list_tail_lay T allow HT c0 (snd s)); [exact q | | reflexivity].
    apply (pos_first s c0 _ E). eapply covers_ne; eauto.
  Qed.

  Lemma slice_rest_lay : forall l cE e mid start s,
    covers cE (tree_of e) -> kids_lay mid (okid tree_of start) -> mid <> [] -> l = fst (sspan e) ->
    sat s (sslice_rest SR l e start s) (fun c r => covers (cE ++ mid ++ c) (tree_of r)).
  Proof.
    intros l cE e mid start [ts le] G KM NM ->. unfold sslice_rest. cbn [fst snd].
    sbindq (fun (c : stoks) (o : option sexpr) => kids_lay c (okid tree_of o)).
    { assert (D : sat (ts, le) ('(x, s') <- sr_test SR (ts, le) ;; Ok (Some x, s')) (fun (c : stoks) (o : option sexpr) => kids_lay c (okid tree_of o))).
      { sb ltac:(apply GT). ret. cbn [okid]. rewrite <- (app_nil_r c0). kl. }
      destruct ts as [|[[] [l0 r0]] rest0]; try exact D; ret; constructor. }
    sbindq (fun (c : stoks) (o : option sexpr) => kids_lay c (okid tree_of o)).
    { destruct ts0 as [|[[] [l0 r0]] rest0]; try (ret; constructor).
      assert (D : sat ((TColon, (l0, r0)) :: rest0, end_last le c0) ('(x, s') <- sr_test SR (rest0, r0) ;; Ok (Some x, s'))
                      (fun (c : stoks) (o : option sexpr) => kids_lay c (okid tree_of o))).
      { apply sat_tok. sb ltac:(apply GT). ret. cbn [okid]. apply kl_skip. rewrite <- (app_nil_r c1). kl. }
      destruct rest0 as [|[[] [l1 r1]] rest1]; try exact D. apply sat_tok. ret. constructor. }
    apply sat_expect. intros t' l2 r2 rest2 _ _. ret. cbn [tree_of]. rewrite <- rsp_tree_of.
    eapply cov_left with (p := 0); [exact G | | apply app_ne_l; exact NM | ].
    - apply kl_app; [exact KM|]. apply kl_app; [exact q|]. apply kl_post. exact q0.
    - f_equal. rewrite !end_last_app. reflexivity.
  Qed.

  Lemma index_or_slice_lay : forall l cE e t0 lb0 rb0 s, covers cE (tree_of e) -> l = fst (sspan e) ->
    sat s (sindex_or_slice SR l e s) (fun c r => covers (cE ++ (t0, (lb0, rb0)) :: c) (tree_of r)).
  Proof.
    intros l cE e t0 lb0 rb0 [ts le] G ->. unfold sindex_or_slice. cbn [fst snd].
    assert (D : sat (ts, le)
      ('(first, s1) <- sr_test SR (ts, le) ;;
       match fst s1 with
       | (TColon, (_, r)) :: rest => sslice_rest SR (fst (sspan e)) e (Some first) (rest, r)
       | (TComma, (_, r)) :: rest =>
         '(second, s2) <- sr_test SR (rest, r) ;;
         s3 <- sexpect TClosingSquare s2 ;; Ok (XIndex2 (fst (sspan e), snd s3) e first second, s3)
       | _ => s2 <- sexpect TClosingSquare s1 ;; Ok (XIndex (fst (sspan e), snd s2) e first, s2)
       end) (fun c r => covers (cE ++ (t0, (lb0, rb0)) :: c) (tree_of r))).
    { sb ltac:(apply GT).
      assert (D2 : sat (ts0, end_last le c0) (s2 <- sexpect TClosingSquare (ts0, end_last le c0) ;; Ok (XIndex (fst (sspan e), snd s2) e a, s2))
                       (fun c2 b => covers (cE ++ (t0, (lb0, rb0)) :: c0 ++ c2) (tree_of b))).
      { apply sat_expect. intros t' l2 r2 rest2 _ _. ret. cbn [tree_of snd]. rewrite <- rsp_tree_of.
        eapply cov_left with (p := 0%N); [exact G | | discriminate | f_equal; spn]. apply kl_skip. kl. }
      destruct ts0 as [|[[] [l1 r1]] rest1]; try exact D2; clear D2.
      - apply sat_tok. sb ltac:(apply GT). apply sat_expect. intros t' l2 r2 rest2 _ _. ret. cbn [tree_of snd]. rewrite <- rsp_tree_of.
        eapply cov_left with (p := 0%N); [exact G | | discriminate | f_equal; spn]. apply kl_skip. kl.
      - apply sat_tok. eapply sat_weaken; [apply (slice_rest_lay _ cE e ((t0, (lb0, rb0)) :: c0 ++ [(TColon, (l1, r1))]) (Some a)); try assumption; try reflexivity|].
        + cbn [okid]. apply kl_skip. kl.
        + discriminate.
        + wk. }
    destruct ts as [|[[] [l0 r0]] rest0]; try exact D; clear D.
    apply sat_tok. eapply sat_weaken; [apply (slice_rest_lay _ cE e [(t0, (lb0, rb0)); (TColon, (l0, r0))] None); try assumption; try reflexivity|].
    - constructor.
    - discriminate.
    - wk.
  Qed.

  Lemma suffix_loop_lay : forall n c0 lhs s, covers c0 (tree_of lhs) ->
    sat s (ssuffix_loop SR n lhs s) (fun c e => covers (c0 ++ c) (tree_of e)).
  Proof.
    induction n as [|n IH]; intros c0 lhs [ts le] G; [exact I|]. cbn [ssuffix_loop fst snd].
    assert (D : sat (ts, le) (Ok (lhs, (ts, le))) (fun c e => covers (c0 ++ c) (tree_of e))). { ret. exact G. }
    destruct ts as [|[[] [l0 r0]] rest0]; try exact D.
    - (* . name *)
      destruct rest0 as [|[[] [l1 r1]] rest1]; try exact I. apply sat_tok, sat_tok.
      eapply sat_weaken; [apply (IH (c0 ++ [(TDot, (l0, r0)); (TIdentifier n0, (l1, r1))]))|wk].
      cbn [tree_of]. rewrite <- rsp_tree_of. eapply cov_left with (p := 0%N); [exact G | | discriminate | f_equal; spn]. kl.
    - (* call *)
      apply sat_tok. sb ltac:(apply GA). apply sat_expect. intros t' l2 r2 rest2 _ _. destruct (check_args _ _ _); [|exact I].
      eapply sat_weaken; [apply (IH (c0 ++ (TOpeningRound, (l0, r0)) :: c1 ++ [(t', (l2, r2))]))|wk].
      cbn [tree_of snd]. rewrite <- rsp_tree_of. eapply cov_left with (p := 0%N); [exact G | | discriminate | f_equal; spn].
      apply kl_skip, kl_post. exact q.
    - (* index / slice *)
      apply sat_tok. sb ltac:(apply (index_or_slice_lay _ c0 lhs TOpeningSquare l0 r0); [exact G | reflexivity]).
      eapply sat_weaken; [apply (IH _ a _ q)|wk].
  Qed.

  Lemma continue_primary_lay : forall c0 lhs s, covers c0 (tree_of lhs) ->
    sat s (scontinue_primary SR lhs s) (fun c e => covers (c0 ++ c) (tree_of e)).
  Proof. intros. apply suffix_loop_lay. assumption. Qed.

  Lemma for_clause_lay : forall s, sat s (sfor_clause SR s) (fun c cl => kids_lay c (kids_of_clause cl)).
  Proof.
    intros s. unfold sfor_clause. apply sat_expect. intros t0 l0 r0 rest0 _ _. sb ltac:(apply GE).
    apply sat_expect. intros t1 l1 r1 rest1 _ _. sb ltac:(apply GO). destruct (check_assign _); [|exact I]. ret.
    cbn [kids_of_clause]. rewrite tree_of_snorm. kl.
  Qed.

  Lemma clause_loop_lay : forall n acc s,
    sat s (sclause_loop SR n acc s) (fun c cs => exists new, cs = rev acc ++ new /\ kids_lay c (flat_map kids_of_clause new)).
  Proof.
    induction n as [|n IH]; intros acc [ts le]; [exact I|]. cbn [sclause_loop fst snd].
    assert (D : sat (ts, le) (Ok (rev acc, (ts, le))) (fun c cs => exists new, cs = rev acc ++ new /\ kids_lay c (flat_map kids_of_clause new))).
    { ret. exists []. rewrite app_nil_r. split; constructor. }
    destruct ts as [|[[] [l0 r0]] rest0]; try exact D; clear D.
    - apply sat_tok. sb ltac:(apply GO). eapply sat_weaken; [apply IH|]. intros c' cs (new & E1 & K). exists (WIf a :: new). split.
      + rewrite E1. cbn [rev]. rewrite <- app_assoc. reflexivity.
      + cbn [flat_map kids_of_clause app]. apply kl_skip. kl. exact K.
    - sb ltac:(apply for_clause_lay). eapply sat_weaken; [apply IH|]. intros c' cs (new & E1 & K). exists (a :: new). split.
      + rewrite E1. cbn [rev]. rewrite <- app_assoc. reflexivity.
      + cbn [flat_map]. apply kl_app; assumption.
  Qed.

  Lemma comp_clauses_lay : forall s, sat s (scomp_clauses SR s) (fun c cs => kids_lay c (flat_map kids_of_clause cs)).
  Proof.
    intros s. unfold scomp_clauses. sb ltac:(apply for_clause_lay). eapply sat_weaken; [apply clause_loop_lay|].
    intros c' cs (new & E1 & K). subst cs. cbn [rev app flat_map]. apply kl_app; assumption.
  Qed.

  Lemma items_loop_lay : forall {A} (K : A -> list rt) sitem close,
    (forall s, sat s (sitem s) (fun c x => kids_lay c (K x))) -> forall n acc s,
    sat s (sitems_loop n sitem close acc s) (fun c items => exists new, items = rev acc ++ new /\ kids_lay c (flat_map K new)).
  Proof.
    intros A K sitem close H. induction n as [|n IH]; intros acc [ts le]; [exact I|]. cbn [sitems_loop fst snd].
    assert (D : sat (ts, le) (Ok (rev acc, (ts, le))) (fun c items => exists new, items = rev acc ++ new /\ kids_lay c (flat_map K new))).
    { ret. exists []. rewrite app_nil_r. split; constructor. }
    destruct ts as [|[[] [l0 r0]] rest0]; try exact D; clear D.
    assert (D : sat ((TComma, (l0, r0)) :: rest0, le) ('(x, s') <- sitem (rest0, r0) ;; sitems_loop n sitem close (x :: acc) s')
                    (fun c items => exists new, items = rev acc ++ new /\ kids_lay c (flat_map K new))).
    { apply sat_tok. sb ltac:(apply H). eapply sat_weaken; [apply IH|]. intros c' cs (new & E1 & K1). exists (a :: new). split.
      - rewrite E1. cbn [rev]. rewrite <- app_assoc. reflexivity.
      - cbn [flat_map]. apply kl_skip, kl_app; assumption. }
    destruct rest0 as [|[t [l1 r1]] rest1]; [exact D|]. destruct (token_eqb t close); [|exact D].
    apply sat_tok. ret. exists []. rewrite app_nil_r. split; constructor.
  Qed.

  Lemma test_item_lay : forall s, sat s (sr_test SR s) (fun c x => kids_lay c [tree_of x]).
  Proof. intros s. eapply sat_weaken; [apply GT|]. intros c' a H. cbv beta in H. rewrite <- (app_nil_r c'). kl. Qed.

  Lemma list_or_comp_lay : forall l t0 r0 s,
    sat s (slist_or_comp SR l s) (fun c e => covers ((t0, (l, r0)) :: c) (tree_of e)).
  Proof.
    intros l t0 r0 [ts le]. unfold slist_or_comp. cbn [fst snd].
    assert (D : sat (ts, le)
      ('(first, s1) <- sr_test SR (ts, le) ;;
       match fst s1 with
       | (TFor, _) :: _ =>
         '(cs, s2) <- scomp_clauses SR s1 ;; s3 <- sexpect TClosingSquare s2 ;; Ok (XListComp (l, snd s3) first cs, s3)
       | _ =>
         '(items, s2) <- sitems_loop (S (List.length (fst s1))) (sr_test SR) TClosingSquare [first] s1 ;;
         s3 <- sexpect TClosingSquare s2 ;; Ok (XList (l, snd s3) items, s3)
       end) (fun c e => covers ((t0, (l, r0)) :: c) (tree_of e))).
    { sb ltac:(apply GT).
      assert (D2 : sat (ts0, end_last le c0)
        ('(items, s2) <- sitems_loop (S (List.length ts0)) (sr_test SR) TClosingSquare [a] (ts0, end_last le c0) ;;
         s3 <- sexpect TClosingSquare s2 ;; Ok (XList (l, snd s3) items, s3))
        (fun c2 e => covers ((t0, (l, r0)) :: c0 ++ c2) (tree_of e))).
      { sb ltac:(apply (items_loop_lay (fun x => [tree_of x]) (sr_test SR) TClosingSquare test_item_lay)).
        destruct q0 as (new & E1 & K1). cbn [rev app] in E1. subst a0.
        apply sat_expect. intros t' l2 r2 rest2 _ _. ret. cbn [tree_of map snd].
        eapply cov_full with (p := 0%N); [discriminate | | spn]. apply kl_skip. kl. apply kl_post.
        rewrite <- flat_map_single. exact K1. }
      destruct ts0 as [|[[] [l1 r1]] rest1]; try exact D2; clear D2.
      sb ltac:(apply comp_clauses_lay). apply sat_expect. intros t' l2 r2 rest2 _ _. ret. cbn [tree_of snd].
      eapply cov_full with (p := 0%N); [discriminate | | spn]. apply kl_skip. kl. apply kl_post. exact q0. }
    destruct ts as [|[[] [l1 r1]] rest1]; try exact D; clear D.
    apply sat_tok. ret. cbn [tree_of map]. eapply cov_full with (p := 0%N); [discriminate | constructor | spn].
  Qed.

  Lemma dict_entry_lay : forall s, sat s (sdict_entry SR s) (fun c kv => kids_lay c [tree_of (fst kv); tree_of (snd kv)]).
  Proof.
    intros s. unfold sdict_entry. sb ltac:(apply GT). apply sat_expect. intros t' l2 r2 rest2 _ _. sb ltac:(apply GT). ret.
    cbn [fst snd]. kl.
  Qed.

  Lemma dict_or_comp_lay : forall l t0 r0 s,
    sat s (sdict_or_comp SR l s) (fun c e => covers ((t0, (l, r0)) :: c) (tree_of e)).
  Proof.
    intros l t0 r0 [ts le]. unfold sdict_or_comp. cbn [fst snd].
    assert (D : sat (ts, le)
      ('(kv, s1) <- sdict_entry SR (ts, le) ;;
       match fst s1 with
       | (TFor, _) :: _ =>
         '(cs, s2) <- scomp_clauses SR s1 ;; s3 <- sexpect TClosingCurly s2 ;;
         Ok (XDictComp (l, snd s3) (fst kv) (snd kv) cs, s3)
       | _ =>
         '(items, s2) <- sitems_loop (S (List.length (fst s1))) (sdict_entry SR) TClosingCurly [kv] s1 ;;
         s3 <- sexpect TClosingCurly s2 ;; Ok (XDict (l, snd s3) items, s3)
       end) (fun c e => covers ((t0, (l, r0)) :: c) (tree_of e))).
    { sb ltac:(apply dict_entry_lay).
      assert (D2 : sat (ts0, end_last le c0)
        ('(items, s2) <- sitems_loop (S (List.length ts0)) (sdict_entry SR) TClosingCurly [a] (ts0, end_last le c0) ;;
         s3 <- sexpect TClosingCurly s2 ;; Ok (XDict (l, snd s3) items, s3))
        (fun c2 e => covers ((t0, (l, r0)) :: c0 ++ c2) (tree_of e))).
      { sb ltac:(apply (items_loop_lay (fun kv : sexpr * sexpr => [tree_of (fst kv); tree_of (snd kv)]) (sdict_entry SR) TClosingCurly dict_entry_lay)).
        destruct q0 as (new & E1 & K1). cbn [rev app] in E1. subst a0.
        apply sat_expect. intros t' l2 r2 rest2 _ _. ret. cbn [tree_of flat_map snd].
        eapply cov_full with (p := 0%N); [discriminate | | spn]. apply kl_skip. apply kl_app; [exact q|]. apply kl_post. exact K1. }
      destruct ts0 as [|[[] [l1 r1]] rest1]; try exact D2; clear D2.
      sb ltac:(apply comp_clauses_lay). apply sat_expect. intros t' l2 r2 rest2 _ _. ret. cbn [tree_of snd].
      eapply cov_full with (p := 0%N); [discriminate | | spn]. apply kl_skip.
      change (tree_of (fst a) :: tree_of (snd a) :: flat_map kids_of_clause a0) with ([tree_of (fst a); tree_of (snd a)] ++ flat_map kids_of_clause a0).
      apply kl_app; [exact q|]. apply kl_post. exact q0. }
    destruct ts as [|[[] [l1 r1]] rest1]; try exact D; clear D.
    apply sat_tok. ret. cbn [tree_of flat_map]. eapply cov_full with (p := 0%N); [discriminate | constructor | spn].
  Qed.

  Lemma parse_atom_lay : forall s, sat s (sparse_atom c SR s) GoodE.
  Proof.
    intros [ts le]. unfold sparse_atom. cbn [fst snd].
    destruct ts as [|[[] [l0 r0]] rest0]; try exact I; try (apply sat_tok; ret; cbn [tree_of]; apply cov_leaf).
    - (* ( *)
      assert (D : sat ((TOpeningRound, (l0, r0)) :: rest0, le)
        ('(e, s1) <- stest_list c (sr_test SR) true (rest0, r0) ;; s2 <- sexpect TClosingRound s1 ;; Ok (e, s2)) GoodE).
      { apply sat_tok. sb ltac:(apply (test_list_lay (sr_test SR) true GT)). apply sat_expect. intros t' l2 r2 rest2 _ EQ.
        apply token_eqb_close in EQ. subst t'. ret. apply cov_paren. exact q. }
      destruct rest0 as [|[[] [l1 r1]] rest1]; try exact D; clear D.
      apply sat_tok, sat_tok. ret. cbn [tree_of map]. eapply cov_full with (p := 0%N); [discriminate | constructor | spn].
    - apply sat_tok. apply list_or_comp_lay.
    - apply sat_tok. apply dict_or_comp_lay.
  Qed.

  Lemma parse_primary_lay : forall s, sat s (sparse_primary c SR s) GoodE.
  Proof.
    intros s. unfold sparse_primary. sb ltac:(apply parse_atom_lay). eapply sat_weaken; [apply (continue_primary_lay c0 a _ q)|wk].
  Qed.

  Lemma unary_loop_lay : forall n s, sat s (sunary_loop c SR n s) GoodE.
  Proof.
    induction n as [|n IH]; intros [ts le]; [exact I|]. cbn [sunary_loop fst snd].
    destruct ts as [|[t [l r]] rest]; [apply parse_primary_lay|]. unfold sunary_ctor.
    destruct (sctor_of_code (unary_code c t)) as [g|] eqn:EG; [|apply parse_primary_lay].
    apply sat_tok. sb ltac:(apply IH). ret. rewrite (sctor_tree _ _ EG). eapply cov_full with (p := le); [discriminate | kl | spn].
  Qed.

  Lemma parse_unary_lay : forall s, sat s (sparse_unary c SR s) GoodE.
  Proof. intros s. unfold sparse_unary. apply sat_guard, unary_loop_lay. Qed.

  Lemma continue_ternary_lay : forall c0 e s, covers c0 (tree_of e) ->
    sat s (scontinue_ternary SR e s) (fun c r => covers (c0 ++ c) (tree_of r)).
  Proof.
    intros c0 e [ts le] G. unfold scontinue_ternary. cbn [fst snd].
    assert (D : sat (ts, le) (Ok (e, (ts, le))) (fun c r => covers (c0 ++ c) (tree_of r))). { ret. exact G. }
    destruct ts as [|[[] [l0 r0]] rest0]; try exact D; clear D.
    apply sat_tok. sb ltac:(apply GO). apply sat_expect. intros t' l2 r2 rest2 _ _. sb ltac:(apply GT). ret.
    cbn [tree_of snd]. rewrite <- rsp_tree_of. eapply cov_left with (p := 0%N); [exact G | | discriminate | f_equal; spn].
    apply kl_skip. kl.
  Qed.

  Lemma lambda_param_lay : forall s, sat s (slambda_param SR s) (fun c p => covers c (tree_of_param p)).
  Proof.
    intros [ts le]. unfold slambda_param. cbn [fst snd].
    destruct ts as [|[[] [l0 r0]] rest0]; try exact I.
    - (* name [= default] *)
      assert (D : sat ((TIdentifier n, (l0, r0)) :: rest0, le) (Ok (ZNormal (l0, r0) (l0, r0) n None, (rest0, r0)))
                      (fun c p => covers c (tree_of_param p))).
      { apply sat_tok. ret. cbn [tree_of_param okid]. eapply cov_full with (p := 0%N); [discriminate | kl | spn]. }
      destruct rest0 as [|[[] [l1 r1]] rest1]; try exact D; clear D.
      apply sat_tok, sat_tok. sb ltac:(apply GT). ret. cbn [tree_of_param okid snd].
      eapply cov_full with (p := 0%N); [discriminate | kl | spn].
    - (* * [name] *)
      assert (D : sat ((TStar, (l0, r0)) :: rest0, le) (Ok (ZNoArgs (l0, r0), (rest0, r0))) (fun c p => covers c (tree_of_param p))).
      { apply sat_tok. ret. cbn [tree_of_param]. eapply cov_full with (p := 0%N); [discriminate | kl | spn]. }
      destruct rest0 as [|[[] [l1 r1]] rest1]; try exact D; clear D.
      apply sat_tok, sat_tok. ret. cbn [tree_of_param]. eapply cov_full with (p := 0%N); [discriminate | kl | spn].
    - apply sat_tok. ret. cbn [tree_of_param]. eapply cov_full with (p := 0%N); [discriminate | kl | spn].
    - destruct rest0 as [|[[] [l1 r1]] rest1]; try exact I.
      apply sat_tok, sat_tok. ret. cbn [tree_of_param]. eapply cov_full with (p := 0%N); [discriminate | kl | spn].
  Qed.

  Lemma params_loop_lay : forall n acc s,
    sat s (sparams_loop SR n acc s) (fun c ps => exists new, ps = rev acc ++ new /\ kids_lay c (map tree_of_param new)).
  Proof.
    induction n as [|n IH]; intros acc s; [exact I|]. cbn [sparams_loop]. sb ltac:(apply lambda_param_lay).
    assert (D : sat (ts, end_last (snd s) c0) (Ok (rev (a :: acc), (ts, end_last (snd s) c0)))
                    (fun c2 ps => exists new, ps = rev acc ++ new /\ kids_lay (c0 ++ c2) (map tree_of_param new))).
    { ret. exists [a]. split; [reflexivity|]. cbn [map]. kl. }
    destruct ts as [|[[] [l1 r1]] rest1]; try exact D; clear D.
    assert (D : sat ((TComma, (l1, r1)) :: rest1, end_last (snd s) c0) (sparams_loop SR n (a :: acc) (rest1, r1))
                    (fun c2 ps => exists new, ps = rev acc ++ new /\ kids_lay (c0 ++ c2) (map tree_of_param new))).
    { apply sat_tok. eapply sat_weaken; [apply IH|]. intros c' ps (new & E1 & K). exists (a :: new). split.
      - rewrite E1. cbn [rev]. rewrite <- app_assoc. reflexivity.
      - cbn [map]. apply kl_cov; [exact q|]. apply kl_skip. exact K. }
    destruct rest1 as [|[[] [l2 r2]] rest2]; try exact D; clear D.
    apply sat_tok. ret. exists [a]. split; [reflexivity|]. cbn [map]. apply kl_cov; [exact q | constructor].
  Qed.

  Lemma lambda_params_lay : forall s, sat s (slambda_params SR s) (fun c ps => kids_lay c (map tree_of_param ps)).
  Proof.
    intros [ts le]. unfold slambda_params. cbn [fst snd].
    assert (D : sat (ts, le) (sparams_loop SR (S (List.length ts)) [] (ts, le)) (fun c ps => kids_lay c (map tree_of_param ps))).
    { eapply sat_weaken; [apply params_loop_lay|]. intros c' ps (new & E1 & K). subst ps. exact K. }
    destruct ts as [|[[] [l1 r1]] rest1]; try exact D; clear D. ret. constructor.
  Qed.

  Lemma parse_lambda_lay : forall l t0 r0 s, sat s (sparse_lambda SR l s) (fun c e => covers ((t0, (l, r0)) :: c) (tree_of e)).
  Proof.
    intros l t0 r0 s. unfold sparse_lambda. sb ltac:(apply lambda_params_lay). apply sat_expect. intros t' l2 r2 rest2 _ _.
    sb ltac:(apply GT). destruct (check_params _); [|exact I]. ret. cbn [tree_of snd].
    eapply cov_full with (p := 0%N); [discriminate | | spn]. apply kl_skip. apply kl_app; [exact q|]. apply kl_skip. kl.
  Qed.

  Lemma pe_top_lay : forall m s, sat s (sparse_expr_top c (sparse_unary c SR) m s) GoodE.
  Proof. intros. unfold sparse_expr_top. apply (pratt_lay c _ parse_unary_lay). Qed.

  Lemma cont_infix_lay : forall m c0 lhs s, covers c0 (tree_of lhs) ->
    sat s (scontinue_infix c (sparse_unary c SR) m lhs s) (fun c e => covers (c0 ++ c) (tree_of e)).
  Proof. intros. unfold scontinue_infix. apply (pratt_lay c _ parse_unary_lay). assumption. Qed.

  Lemma bitor_lay : forall s, sat s (sparse_bitor_expr c (sparse_unary c SR) s) GoodE.
  Proof.
    intros s. unfold sparse_bitor_expr. sb ltac:(apply parse_unary_lay). eapply sat_weaken; [apply (cont_infix_lay _ c0 a _ q)|wk].
  Qed.

  Lemma parse_test_lay : forall s, sat s (sparse_test c SR s) GoodE.
  Proof.
    intros [ts le]. unfold sparse_test. cbn [fst snd].
    assert (D : sat (ts, le) ('(e, s1) <- sparse_expr_top c (sparse_unary c SR) (c_test c) (ts, le) ;; scontinue_ternary SR e s1) GoodE).
    { sb ltac:(apply pe_top_lay). eapply sat_weaken; [apply (continue_ternary_lay c0 a _ q)|wk]. }
    destruct ts as [|[[] [l0 r0]] rest0]; try exact D; clear D. apply sat_tok. apply parse_lambda_lay.
  Qed.

  Lemma parse_or_test_lay : forall s, sat s (sparse_or_test c SR s) GoodE.
  Proof. intros. apply pe_top_lay. Qed.

  Lemma parse_expr_list_lay : forall s, sat s (sparse_expr_list c SR s) GoodE.
  Proof.
    intros s. unfold sparse_expr_list. sb ltac:(apply bitor_lay).
    assert (D : sat (ts, end_last (snd s) c0) (Ok (a, (ts, end_last (snd s) c0))) (fun c2 b => covers (c0 ++ c2) (tree_of b))).
    { ret. exact q. }
    destruct ts as [|[[] [l r]] rest]; try exact D. clear D.
    sb ltac:(apply (comma_loop_lay _ (is_expr_start c) bitor_lay)). destruct a0 as [items tr]. destruct q0 as (new & E1 & K & Z).
    cbn [fst snd rev app] in *. subst items. pose proof (covers_ne _ _ q) as NE.
    assert (D : sat (ts, end_last (end_last (snd s) c0) c1)
                    (Ok (XTuple (pos s, end_last (end_last (snd s) c0) c1) (a :: new), (ts, end_last (end_last (snd s) c0) c1)))
                    (fun c2 b => covers (c0 ++ c1 ++ c2) (tree_of b))).
    { ret. cbn [tree_of map]. eapply cov_full with (p := snd s); [apply app_ne_l; exact NE| |].
      - apply kl_cov; assumption.
      - rewrite first_begin_app by exact NE. rewrite end_last_app. rewrite (pos_first s c0 _ E NE). reflexivity. }
    destruct new as [|y new]; destruct tr; try exact I; try exact D.
    rewrite (Z eq_refl eq_refl). ret. exact q.
  Qed.

  Lemma parse_argument_lay : forall s, sat s (sparse_argument c SR s) (fun c a => covers c (tree_of_arg a)).
  Proof.
    intros [ts le]. unfold sparse_argument. cbn [fst snd].
    assert (D : sat (ts, le) ('(e, s1) <- sparse_test c SR (ts, le) ;; Ok (YPos (pos (ts, le), snd s1) e, s1))
                    (fun c a => covers c (tree_of_arg a))).
    { sb ltac:(apply parse_test_lay). ret. cbn [tree_of_arg snd]. pose proof (covers_ne _ _ q) as NE.
      eapply cov_full with (p := le); [exact NE | kl | ]. rewrite (pos_first (ts, le) c0 _ E NE). reflexivity. }
    destruct ts as [|[[] [l0 r0]] rest0]; try exact D; clear D.
    - assert (D : sat ((TIdentifier n, (l0, r0)) :: rest0, le)
        ('(e1, s1) <- scontinue_primary SR (XId (l0, r0) n) (rest0, r0) ;;
         if Nat.leb (List.length (fst s1)) (List.length rest0) then
           '(e2, s2) <- scontinue_infix c (sparse_unary c SR) (c_arg c) e1 s1 ;;
           '(e3, s3) <- scontinue_ternary SR e2 s2 ;;
           Ok (YPos (l0, snd s3) e3, s3)
         else Err 99) (fun c a => covers c (tree_of_arg a))).
      { apply sat_tok. sb ltac:(apply (continue_primary_lay [(TIdentifier n, (l0, r0))] (XId (l0, r0) n)); apply cov_leaf).
        destruct (Nat.leb _ _); [|exact I]. sb ltac:(apply (cont_infix_lay _ _ a _ q)).
        sb ltac:(apply (continue_ternary_lay _ a0 _ q0)). ret. cbn [tree_of_arg snd app] in *.
        eapply cov_full with (p := 0%N); [discriminate | | spn].
        rewrite <- (app_nil_r (_ :: _)). apply (kl_cov _ _ [] []); [|constructor].
        repeat (first [rewrite <- app_assoc in q1 | progress cbn [app] in q1]). exact q1. }
      destruct rest0 as [|[[] [l1 r1]] rest1]; try exact D; clear D.
      apply sat_tok, sat_tok. sb ltac:(apply parse_test_lay). ret. cbn [tree_of_arg snd].
      eapply cov_full with (p := 0%N); [discriminate | kl | spn].
    - apply sat_tok. sb ltac:(apply parse_test_lay). ret. cbn [tree_of_arg snd]. eapply cov_full with (p := 0%N); [discriminate | kl | spn].
    - apply sat_tok. sb ltac:(apply parse_test_lay). ret. cbn [tree_of_arg snd]. eapply cov_full with (p := 0%N); [discriminate | kl | spn].
  Qed.

  Lemma args_loop_lay : forall n acc s,
    sat s (sargs_loop c SR n acc s) (fun c args => exists new, args = rev acc ++ new /\ kids_lay c (map tree_of_arg new)).
  Proof.
    induction n as [|n IH]; intros acc s; [exact I|]. cbn [sargs_loop]. sb ltac:(apply parse_argument_lay).
    assert (D : sat (ts, end_last (snd s) c0) (Ok (rev (a :: acc), (ts, end_last (snd s) c0)))
                    (fun c2 ps => exists new, ps = rev acc ++ new /\ kids_lay (c0 ++ c2) (map tree_of_arg new))).
    { ret. exists [a]. split; [reflexivity|]. cbn [map]. kl. }
    destruct ts as [|[[] [l1 r1]] rest1]; try exact D; clear D.
    assert (D : sat ((TComma, (l1, r1)) :: rest1, end_last (snd s) c0) (sargs_loop c SR n (a :: acc) (rest1, r1))
                    (fun c2 ps => exists new, ps = rev acc ++ new /\ kids_lay (c0 ++ c2) (map tree_of_arg new))).
    { apply sat_tok. eapply sat_weaken; [apply IH|]. intros c' ps (new & E1 & K). exists (a :: new). split.
      - rewrite E1. cbn [rev]. rewrite <- app_assoc. reflexivity.
      - cbn [map]. apply kl_cov; [exact q|]. apply kl_skip. exact K. }
    destruct rest1 as [|[[] [l2 r2]] rest2]; try exact D; clear D.
    apply sat_tok. ret. exists [a]. split; [reflexivity|]. cbn [map]. apply kl_cov; [exact q | constructor].
  Qed.

  Lemma parse_args_lay : forall s, sat s (sparse_args c SR s) (fun c args => kids_lay c (map tree_of_arg args)).
  Proof.
    intros [ts le]. unfold sparse_args. cbn [fst snd].
    assert (D : sat (ts, le) (sargs_loop c SR (S (List.length ts)) [] (ts, le)) (fun c args => kids_lay c (map tree_of_arg args))).
    { eapply sat_weaken; [apply args_loop_lay|]. intros c' ps (new & E1 & K). subst ps. exact K. }
    destruct ts as [|[[] [l1 r1]] rest1]; try exact D; clear D. ret. constructor.
  Qed.
End LBody.

Lemma go_lay : forall c fuel,
  (forall s, sat s (sr_test (sgo c fuel) s) GoodE) /\ (forall s, sat s (sr_ortest (sgo c fuel) s) GoodE) /\
  (forall s, sat s (sr_exprlist (sgo c fuel) s) GoodE) /\
  (forall s, sat s (sr_args (sgo c fuel) s) (fun c args => kids_lay c (map tree_of_arg args))).
Proof.
  intros c. induction fuel as [|f (GT & GO & GE & GA)]; [repeat split; intros; exact I|].
  cbn [sgo slevel sr_test sr_ortest sr_exprlist sr_args]. split; [|split; [|split]]; intros s.
  - apply parse_test_lay; assumption.
  - apply parse_or_test_lay; assumption.
  - apply parse_expr_list_lay; assumption.
  - apply parse_args_lay; assumption.
Qed.

(* (c) for statements: the whole one-line module is laid out over ALL its lexemes *)
Theorem parser_layout : forall c fuel (ts : stoks) t, sparse c fuel ts = Ok t -> lay ts (tree_of_stmt t).
Proof.
  intros c fuel ts t H. unfold sparse, sparse_top in H. destruct (go_lay c fuel) as (GT & GO & GE & GA).
  set (R := sgo c fuel) in *.
  pose proof (parse_test_lay c R GT GO GE GA (ts, 0)) as H1.
  destruct (sparse_test c R (ts, 0)) as [[first [ts0 le0]]| | |]; cbn [bind] in H; try discriminate.
  destruct H1 as (c1 & E1 & L1 & G1). cbn [fst snd] in *. pose proof (covers_ne _ _ G1) as NE1.
  pose proof (pos_first (ts, 0) c1 ts0 E1 NE1) as P. set (l := pos (ts, 0)) in *. clearbody l.
  set (is_list := match ts0 with (TComma, _) :: _ => true | _ => false end) in *.
  assert (HL : match (if is_list then stest_list_tail c (sparse_test c R) false l first (ts0, le0) else Ok (first, (ts0, le0))) with
               | Ok (lhs, (ts1, le1)) => exists cL, ts = cL ++ ts1 /\ le1 = end_last 0 cL /\ covers cL (tree_of lhs) /\ first_begin cL = l
               | _ => True end).
  { destruct is_list.
    - pose proof (test_list_tail_lay c (sparse_test c R) false (parse_test_lay c R GT GO GE GA) c1 0 first l (ts0, le0) G1 P L1) as H2.
      destruct (stest_list_tail _ _ _ _ _ _) as [[lhs [ts1 le1]]| | |]; try exact I.
      destruct H2 as (c2 & E2 & L2 & G2). cbn [fst snd] in *. exists (c1 ++ c2). repeat split.
      + rewrite E1, E2, app_assoc. reflexivity.
      + rewrite L2, L1, end_last_app. reflexivity.
      + exact G2.
      + rewrite first_begin_app by exact NE1. symmetry. exact P.
    - exists c1. repeat split; auto. }
  clear E1. destruct (if is_list then _ else _) as [[lhs [ts1 le1]]| | |]; cbn [bind] in H; try discriminate.
  destruct HL as (cL & EL & LL & GL & PL). cbn [fst snd] in H. pose proof (covers_ne _ _ GL) as NEL.
  destruct ts1 as [|[[] [l1 r1]] rest1]; try discriminate.
  - destruct (is_list && true); [discriminate|]. inversion H; subst t. clear H. rewrite app_nil_r in EL. subst ts.
    cbn [tree_of_stmt]. rewrite <- PL, LL. apply (lay_node cL [tree_of lhs] NEL). apply kl_cov1. exact GL.
  - pose proof (test_list_lay c (sparse_test c R) false (parse_test_lay c R GT GO GE GA) (rest1, r1)) as H3.
    destruct (stest_list c (sparse_test c R) false (rest1, r1)) as [[rhs [ts2 le2]]| | |]; cbn [bind] in H; try discriminate.
    destruct H3 as (c3 & E3 & L3 & G3). cbn [fst snd] in *. destruct ts2 as [|? ?]; [|discriminate].
    destruct (check_assign _); [|discriminate]. inversion H; subst t. clear H. rewrite app_nil_r in E3. subst rest1 ts.
    cbn [tree_of_stmt]. rewrite tree_of_snorm.
    replace (l, le2) with (seg_span (cL ++ (TEqual, (l1, r1)) :: c3)).
    + apply lay_node; [apply app_ne_l; exact NEL|]. apply kl_cov; [exact GL|]. apply kl_skip, kl_cov1. exact G3.
    + unfold seg_span. rewrite first_begin_app by exact NEL. rewrite end_last_app. cbn [end_last]. rewrite PL, L3. reflexivity.
Qed.

(* (c) for expressions: what parse_test consumed is, up to enclosing parentheses, the run its node is laid out over *)
Theorem parser_layout_test : forall c fuel (ts : stoks) le e ts' le',
  sparse_test_m c fuel (ts, le) = Ok (e, (ts', le')) ->
  exists cons, ts = cons ++ ts' /\ le' = end_last le cons /\ covers cons (tree_of e).
Proof.
  intros c fuel ts le e ts' le' H. destruct (go_lay c fuel) as (GT & _). specialize (GT (ts, le)).
  unfold sparse_test_m in H. rewrite H in GT. exact GT.
Qed.

(* ---------------------------------------------------------------------------------------------- *)
(* Part C: a laid-out tree over monotone in-file lexeme spans is numerically well formed *)

Lemma mono_cons_all : forall l r t, mono ((l, r) :: t) -> l <= r /\ forall y, List.In y t -> r <= fst y /\ fst y <= snd y.
Proof.
  intros l r t H. cbn [mono] in H. destruct H as (A & B & C). split; [exact A|]. intros y Hy.
  destruct t as [|[l2 r2] t']; [destruct Hy|]. destruct (mono_first_le t' l2 r2 y C Hy). lia.
Qed.

Lemma mono_sep : forall a b x y, mono (a ++ b) -> List.In x a -> List.In y b -> fst x <= snd x /\ snd x <= fst y /\ fst y <= snd y.
Proof.
  induction a as [|[l r] a IH]; intros b x y M Hx Hy; [destruct Hx|]. cbn [app] in M.
  destruct (mono_cons_all _ _ _ M) as (A & B). destruct Hx as [<-|Hx].
  - cbn [fst snd]. destruct (B y) as (B1 & B2); [apply in_or_app; right; exact Hy|]. lia.
  - apply (IH b x y); try assumption. cbn [mono] in M. tauto.
Qed.

Lemma mono_self : forall a x, mono a -> List.In x a -> fst x <= snd x.
Proof.
  induction a as [|[l r] a IH]; intros x M Hx; [destruct Hx|]. destruct (mono_cons_all _ _ _ M) as (A & B).
  destruct Hx as [<-|Hx]; [exact A|]. destruct (B x Hx). assumption.
Qed.

Lemma fb_in : forall c : stoks, c <> [] -> exists r, List.In (first_begin c, r) (spans_of c).
Proof. intros [|[t [l r]] c] H; [congruence|]. exists r. left. reflexivity. Qed.
Lemma el_in : forall (c : stoks) p, c <> [] -> exists l, List.In (l, end_last p c) (spans_of c).
Proof.
  induction c as [|[t [l r]] c IH]; intros p H; [congruence|]. destruct c as [|x c'].
  - exists l. left. reflexivity.
  - destruct (IH r) as (l' & Hl); [discriminate|]. exists l'. right. exact Hl.
Qed.
Lemma spans_app : forall a b : stoks, spans_of (a ++ b) = spans_of a ++ spans_of b.
Proof. intros. apply map_app. Qed.

Lemma seg_ordered : forall c : stoks, c <> [] -> mono (spans_of c) -> first_begin c <= end_last 0 c.
Proof.
  intros [|[t [l r]] c] NE M; [congruence|]. cbn [first_begin end_last]. destruct c as [|x c'].
  - cbn in *. lia.
  - destruct (el_in (x :: c') r) as (l' & Hl); [discriminate|]. cbn [spans_of map] in M.
    destruct (mono_cons_all _ _ _ M) as (A & B). destruct (B _ Hl). cbn [fst snd] in *. lia.
Qed.

Lemma seg_le : forall a b : stoks, a <> [] -> b <> [] -> mono (spans_of (a ++ b)) -> end_last 0 a <= first_begin b.
Proof.
  intros a b NA NB M. rewrite spans_app in M. destruct (el_in a 0 NA) as (l & Hl). destruct (fb_in b NB) as (r & Hr).
  destruct (mono_sep _ _ _ _ M Hl Hr) as (_ & X & _). exact X.
Qed.

Lemma seg_begin_le : forall a c : stoks, c <> [] -> mono (spans_of (a ++ c)) -> first_begin (a ++ c) <= first_begin c.
Proof.
  intros a c NC M. destruct a as [|x a]; [cbn [app]; lia|]. rewrite first_begin_app by discriminate.
  rewrite spans_app in M. destruct (fb_in (x :: a)) as (r & Hr); [discriminate|]. destruct (fb_in c NC) as (r' & Hr').
  destruct (mono_sep _ _ _ _ M Hr Hr') as (X & Y & _). cbn [fst snd] in *. lia.
Qed.

Lemma seg_end_le : forall c b : stoks, c <> [] -> mono (spans_of (c ++ b)) -> end_last 0 c <= end_last 0 (c ++ b).
Proof.
  intros c b NC M. destruct b as [|x b]; [rewrite app_nil_r; lia|]. rewrite end_last_app.
  rewrite (end_last_ne (x :: b) _ 0) by discriminate.
  rewrite spans_app in M. destruct (el_in c 0 NC) as (l & Hl). destruct (el_in (x :: b) 0) as (l' & Hl'); [discriminate|].
  destruct (mono_sep _ _ _ _ M Hl Hl') as (_ & Y & Z). cbn [fst snd] in *. lia.
Qed.

Lemma mono_spans_r : forall a b : stoks, mono (spans_of (a ++ b)) -> mono (spans_of b).
Proof. intros a b M. rewrite spans_app in M. eapply mono_app_r; eauto. Qed.
Lemma mono_spans_l : forall a b : stoks, mono (spans_of (a ++ b)) -> mono (spans_of a).
Proof. intros a b M. rewrite spans_app in M. eapply mono_app_l; eauto. Qed.

Scheme lay_mind := Minimality for lay Sort Prop
  with kids_lay_mind := Minimality for kids_lay Sort Prop.
Combined Scheme lay_kids_mind from lay_mind, kids_lay_mind.

Lemma lay_wf_gen : forall len (ts : stoks),
  (forall x, List.In x (spans_of ts) -> snd x <= len) ->
  (forall core t, lay core t -> incl core ts -> mono (spans_of core) -> wf len ts t) /\
  (forall c ks, kids_lay c ks -> incl c ts -> mono (spans_of c) ->
     Forall (wf len ts) ks /\ kids_ordered ks /\
     Forall (fun k => first_begin c <= fst (rsp k) /\ snd (rsp k) <= end_last 0 c) ks /\
     (ks <> [] -> c <> [])).
Proof.
  intros len ts BD. apply lay_kids_mind.
  - (* leaf *) intros tok [l r] IN M. cbn [spans_of map mono snd] in M. constructor.
    + tauto.
    + apply (BD (l, r)). apply (in_map snd ts (tok, (l, r))). apply IN. left. reflexivity.
    + intros tok' E. inversion E; subst. split; [apply IN; left; reflexivity | reflexivity].
    + constructor.
    + exact I.
    + constructor.
  - (* node *) intros core kids NE K IH IN M. destruct (IH IN M) as (W & O & B & _). unfold seg_span. constructor.
    + apply seg_ordered; assumption.
    + destruct (el_in core 0 NE) as (l & Hl). apply (BD _ (incl_map snd IN _ Hl)).
    + discriminate.
    + exact B.
    + exact O.
    + exact W.
  - intros c _ _. repeat split; try constructor. congruence.
  - intros a c rest k ks L IHL K IHK IN M.
    assert (INc : incl c ts). { intros x Hx. apply IN. apply in_or_app. right. apply in_or_app. left. exact Hx. }
    assert (INr : incl rest ts). { intros x Hx. apply IN. apply in_or_app. right. apply in_or_app. right. exact Hx. }
    pose proof (mono_spans_r _ _ M) as Mcr. pose proof (mono_spans_l _ _ Mcr) as Mc. pose proof (mono_spans_r _ _ Mcr) as Mr.
    specialize (IHL INc Mc). destruct (IHK INr Mr) as (W & O & B & NEr).
    pose proof (lay_ne _ _ L) as NC. pose proof (lay_span _ _ L) as SP.
    assert (Bk : first_begin (a ++ c ++ rest) <= fst (rsp k) /\ snd (rsp k) <= end_last 0 (a ++ c ++ rest)).
    { rewrite SP. unfold seg_span. cbn [fst snd]. split.
      - rewrite <- (first_begin_app c rest NC). apply seg_begin_le; [apply app_ne_l; exact NC | exact M].
      - rewrite end_last_app. rewrite (end_last_ne (c ++ rest) _ 0) by (apply app_ne_l; exact NC). apply seg_end_le; assumption. }
    repeat split.
    + constructor; assumption.
    + destruct ks as [|k2 ks']; [exact I|]. split; [|exact O]. pose proof (NEr ltac:(discriminate)) as NR.
      inversion B as [|? ? (B1 & _) _]; subst. rewrite SP. unfold seg_span. cbn [snd].
      pose proof (seg_le c rest NC NR Mcr). lia.
    + constructor; [exact Bk|]. destruct ks as [|k2 ks']; [constructor|]. pose proof (NEr ltac:(discriminate)) as NR.
      eapply Forall_impl; [|exact B]. intros k' (X & Y). cbn beta. split.
      * assert (first_begin (a ++ c ++ rest) <= first_begin rest); [|lia].
        rewrite app_assoc. apply seg_begin_le; [exact NR | rewrite <- app_assoc; exact M].
      * rewrite app_assoc, end_last_app. rewrite (end_last_ne rest _ 0 NR). exact Y.
    + intros _. apply app_ne_r, app_ne_l. exact NC.
Qed.

(* (b) *)
Theorem lay_wf : forall len (ts : stoks) t,
  mono (spans_of ts) -> (forall x, List.In x (spans_of ts) -> snd x <= len) -> lay ts t -> wf len ts t.
Proof. intros len ts t M BD L. apply (proj1 (lay_wf_gen len ts BD) ts t L); [apply incl_refl | exact M]. Qed.

Theorem parser_span_nesting : forall c fuel (ts : stoks) len t,
  mono (spans_of ts) -> (forall x, List.In x (spans_of ts) -> snd x <= len) ->
  sparse c fuel ts = Ok t -> wf len ts (tree_of_stmt t).
Proof. intros c fuel ts len t M BD H. apply lay_wf; try assumption. eapply parser_layout; eauto. Qed.
