(* C05, parser level: proofs about the span-tracking parser model (Span/ParserSpans.v).
   Part A: erasing the spans gives Parse/Model.v function by function (so C06's grammar theorem applies).
   Part B: layout -- every parser function builds its node over the lexemes it consumed (`covers`, `lay`).
   Part C: a laid-out tree over monotone in-file lexeme spans is numerically well formed (`wf`). *)
From Coq Require Import ZArith NArith List String Bool Lia.
From SV Require Import Parse.Tokens Parse.Ast Parse.Model Span.Model Span.ParserSpans.
Import ListNotations.
Open Scope list_scope.

(* ---------------------------------------------------------------------------------------------- *)
(* Part A: erasure *)

Definition er_p {SA A} (g : SA -> A) : res (SA * st) -> res (A * toks) :=
  rmap (fun p => (g (fst p), toks_of (snd p))).
Notation er_e := (er_p erase).

Ltac useH H ts le := let E := fresh "E" in pose proof (H ts le) as E; cbn [map fst snd toks_of erase] in E; rewrite E; clear E.
Ltac red1 := cbn [bind rmap er_p fst snd map toks_of erase erase_arg erase_param erase_clause option_map].

Section EPratt.
  Variable c : cfg.
  Variable SP : st -> spres.
  Variable P : toks -> pres.
  Hypothesis HP : forall ts le, P (map fst ts) = er_e (SP (ts, le)).

  Definition prefix0 (j : nat) (m : Z) (ts : toks) : pres :=
    match ts with
    | t :: rest => if tok_is_not t && (m <=? c_not_max c)%Z
                   then '(e, r) <- parse_expr c P j (c_not_rbp c) rest ;; Ok (ENot e, r) else P ts
    | [] => P ts
    end.
  Lemma parse_expr_S0 : forall n m ts,
    parse_expr c P (S n) m ts = '(lhs, r0) <- prefix0 n m ts ;; infix_loop c P n (c_ni_l c) (c_ni_r c) m lhs r0.
  Proof. reflexivity. Qed.
  Definition loop_body0 (j : nat) (nl nr m : Z) (lhs : expr) (ts : toks) : pres :=
    match ts with
    | [] => Ok (lhs, ts)
    | t :: rest =>
      if tok_is_not t then
        if (nl <? m)%Z then Ok (lhs, ts)
        else match rest with
             | t2 :: rest' =>
               if tok_is_in t2 then
                 '(rhs, r) <- parse_expr c P j nr rest' ;;
                 if reject_chained c r then Err 2 else infix_loop c P j nl nr m (EOp lhs NotIn rhs) r
               else Err 1
             | [] => Err 1
             end
      else
        match lookup (c_tbl c) t with
        | None => Ok (lhs, ts)
        | Some (op, lb, rb) =>
          if (lb <? m)%Z then Ok (lhs, ts)
          else '(rhs, r) <- parse_expr c P j rb rest ;;
               if is_cmp c op && reject_chained c r then Err 2 else infix_loop c P j nl nr m (EOp lhs op rhs) r
        end
    end.
  Lemma infix_loop_S0 : forall n nl nr m lhs ts,
    infix_loop c P (S n) nl nr m lhs ts = loop_body0 n nl nr m lhs ts.
  Proof. reflexivity. Qed.

  Definition sprefix (j : nat) (m : Z) (s : st) : spres :=
    match fst s with
    | (t, (l, r)) :: rest =>
      if tok_is_not t && (m <=? c_not_max c)%Z
      then '(e, s1) <- sparse_expr c SP j (c_not_rbp c) (rest, r) ;; Ok (XNot (l, snd s1) e, s1)
      else SP s
    | [] => SP s
    end.
  Lemma sparse_expr_S : forall n m s,
    sparse_expr c SP (S n) m s = '(lhs, s0) <- sprefix n m s ;; sinfix_loop c SP n (c_ni_l c) (c_ni_r c) m lhs s0.
  Proof. reflexivity. Qed.
  Definition sloop_body (j : nat) (nl nr m : Z) (lhs : sexpr) (s : st) : spres :=
    match fst s with
    | [] => Ok (lhs, s)
    | (t, (_, r)) :: rest =>
      if tok_is_not t then
        if (nl <? m)%Z then Ok (lhs, s)
        else match rest with
             | (t2, (_, r2)) :: rest' =>
               if tok_is_in t2 then
                 '(rhs, s1) <- sparse_expr c SP j nr (rest', r2) ;;
                 if reject_chained c (toks_of s1) then Err 2
                 else sinfix_loop c SP j nl nr m (XOp (fst (sspan lhs), snd (sspan rhs)) lhs NotIn rhs) s1
               else Err 1
             | [] => Err 1
             end
      else
        match lookup (c_tbl c) t with
        | None => Ok (lhs, s)
        | Some (op, lb, rb) =>
          if (lb <? m)%Z then Ok (lhs, s)
          else '(rhs, s1) <- sparse_expr c SP j rb (rest, r) ;;
               if is_cmp c op && reject_chained c (toks_of s1) then Err 2
               else sinfix_loop c SP j nl nr m (XOp (fst (sspan lhs), snd (sspan rhs)) lhs op rhs) s1
        end
    end.
  Lemma sinfix_loop_S : forall n nl nr m lhs s,
    sinfix_loop c SP (S n) nl nr m lhs s = sloop_body n nl nr m lhs s.
  Proof. reflexivity. Qed.

  Lemma pratt_erase : forall n,
    (forall m ts le, parse_expr c P n m (map fst ts) = er_e (sparse_expr c SP n m (ts, le))) /\
    (forall nl nr m lhs ts le, infix_loop c P n nl nr m (erase lhs) (map fst ts) = er_e (sinfix_loop c SP n nl nr m lhs (ts, le))).
  Proof.
    induction n as [|n [IH1 IH2]]; [split; reflexivity|]. split.
    - intros m ts le. rewrite parse_expr_S0, sparse_expr_S. unfold prefix0, sprefix.
      destruct ts as [|[t [l r]] rest]; red1.
      + useH HP (@nil stok) le. destruct (SP _) as [[e [ts' le']]| | |]; red1; try reflexivity. apply IH2.
      + destruct (tok_is_not t && (m <=? c_not_max c))%Z.
        * useH (IH1 (c_not_rbp c)) rest r. destruct (sparse_expr c SP n (c_not_rbp c) (rest, r)) as [[e [ts' le']]| | |]; red1; try reflexivity.
          apply (IH2 _ _ _ (XNot (l, le') e)).
        * useH HP ((t, (l, r)) :: rest) le. destruct (SP _) as [[e [ts' le']]| | |]; red1; try reflexivity. apply IH2.
    - intros nl nr m lhs ts le. rewrite infix_loop_S0, sinfix_loop_S. unfold loop_body0, sloop_body.
      destruct ts as [|[t [l r]] rest]; red1; [reflexivity|].
      destruct (tok_is_not t).
      + destruct (nl <? m)%Z; [reflexivity|]. destruct rest as [|[t2 [l2 r2]] rest']; red1; [reflexivity|].
        destruct (tok_is_in t2); [|reflexivity]. useH (IH1 nr) rest' r2.
        destruct (sparse_expr c SP n nr (rest', r2)) as [[e [ts' le']]| | |]; red1; try reflexivity.
        destruct (reject_chained c (map fst ts')); [reflexivity|]. apply (IH2 _ _ _ (XOp _ lhs NotIn e)).
      + destruct (lookup (c_tbl c) t) as [[[op lb] rb]|]; [|reflexivity].
        destruct (lb <? m)%Z; [reflexivity|]. useH (IH1 rb) rest r.
        destruct (sparse_expr c SP n rb (rest, r)) as [[e [ts' le']]| | |]; red1; try reflexivity.
        destruct (is_cmp c op && reject_chained c (map fst ts')); [reflexivity|]. apply (IH2 _ _ _ (XOp _ lhs op e)).
  Qed.
End EPratt.

Lemma erase_snorm : forall e, erase (snorm_target e) = norm_target (erase e).
Proof.
  fix IH 1. destruct e; cbn [snorm_target erase norm_target]; try reflexivity; f_equal;
    induction l as [|a l IHl]; cbn [map]; try reflexivity; (f_equal; [apply IH | apply IHl]).
Qed.

Lemma sctor_erase : forall k,
  match sctor_of_code k, ctor_of_code k with
  | Some g, Some f => forall sp e, erase (g sp e) = f (erase e)
  | None, None => True
  | _, _ => False
  end.
Proof.
  intros [|p]; [exact I|]. destruct p as [[p|p|]|[p|[p|p|]|]|]; cbn; try exact I; intros; reflexivity.
Qed.

Ltac call_ H ts le e ts' le' :=
  let E := fresh "E" in pose proof (H ts le) as E; cbn [map fst snd toks_of] in E; rewrite E;
  match type of E with _ = rmap _ ?m => clear E; destruct m as [[e [ts' le']]| | |]
                     | _ = er_p _ ?m => clear E; destruct m as [[e [ts' le']]| | |] end; red1; try reflexivity.
Tactic Notation "call" constr(H) constr(ts) constr(le) "as" ident(e) ident(ts') ident(le') := call_ H ts le e ts' le'.
(* abstract the default branch (= the [] branch) of a token match on both sides; D : its erasure equation *)
Ltac absd D :=
  lazymatch goal with
  | |- (match ?l with nil => ?B | cons _ _ => _ end) = ?f (match ?l' with nil => ?B' | cons _ _ => _ end) =>
      assert (D : B = f B');
      [ | let bx := fresh "bx" in let by_ := fresh "by_" in
          set (bx := B) in *; set (by_ := B') in *; clearbody bx by_ ]
  end.
Ltac dtk ts l r rest D := destruct ts as [|[[] [l r]] rest]; cbn [map fst snd]; try exact D.
Ltac fin := red1; rewrite ?map_rev, ?map_length; reflexivity.
Ltac dts ts l r rest := destruct ts as [|[[] [l r]] rest]; red1; try reflexivity.

Lemma bind_er : forall {SA A SB B} (g : SA -> A) (h : SB -> B) (m' : res (A * toks)) (m : res (SA * st))
    (k' : A * toks -> res (B * toks)) (k : SA * st -> res (SB * st)),
  m' = er_p g m -> (forall a (ts : stoks) le, k' (g a, map fst ts) = er_p h (k (a, (ts, le)))) ->
  bind m' k' = er_p h (bind m k).
Proof.
  intros SA A SB B g h m' m k' k E H. subst m'. destruct m as [[a [ts le]]| | |]; red1; try reflexivity. apply H.
Qed.

Section EBody.
  Variable c : cfg.
  Variable SR : srecs.
  Variable R : recs.
  Hypothesis HT : forall (ts : stoks) le, r_test R (map fst ts) = er_e (sr_test SR (ts, le)).
  Hypothesis HO : forall (ts : stoks) le, r_ortest R (map fst ts) = er_e (sr_ortest SR (ts, le)).
  Hypothesis HE : forall (ts : stoks) le, r_exprlist R (map fst ts) = er_e (sr_exprlist SR (ts, le)).
  Hypothesis HA : forall (ts : stoks) le, r_args R (map fst ts) = er_p (map erase_arg) (sr_args SR (ts, le)).
  Local Notation I := (pratt_impl c).

  Lemma expect_erase : forall t (ts : stoks) le, expect t (map fst ts) = rmap toks_of (sexpect t (ts, le)).
  Proof.
    intros t ts le. unfold expect, sexpect. destruct ts as [|[t' [l r]] rest]; red1; [reflexivity|].
    destruct (token_eqb t t'); reflexivity.
  Qed.
  Ltac ex_ t ts le ts' le' :=
    let E := fresh "E" in pose proof (expect_erase t ts le) as E; cbn [map fst snd toks_of] in E; rewrite E;
    match type of E with _ = rmap _ ?m => clear E; destruct m as [[ts' le']| | |] end; red1; try reflexivity.
  Tactic Notation "ex" constr(t) constr(ts) constr(le) "as" ident(ts') ident(le') := ex_ t ts le ts' le'.

  Definition er_cl : res (list sexpr * bool * st) -> res (list expr * bool * toks) :=
    rmap (fun p => (map erase (fst (fst p)), snd (fst p), toks_of (snd p))).

  Lemma comma_loop_erase : forall ST T start,
    (forall (ts : stoks) le, T (map fst ts) = er_e (ST (ts, le))) ->
    forall n acc (ts : stoks) le,
      comma_loop n T start (map erase acc) (map fst ts) = er_cl (scomma_loop n ST start acc (ts, le)).
  Proof.
    intros ST T start H. unfold er_cl. induction n as [|n IH]; intros acc ts le; [reflexivity|].
    cbn [comma_loop scomma_loop]. dts ts l0 r0 rest; try fin.
    destruct rest as [|[t [l r]] rest']; red1; [fin|].
    destruct (start t); [|fin].
    call H ((t, (l, r)) :: rest') r0 as e1 ts1 le1. apply (IH (_ :: acc)).
  Qed.

  Lemma test_list_tail_erase : forall ST T allow l first (ts : stoks) le,
    (forall (ts : stoks) le, T (map fst ts) = er_e (ST (ts, le))) ->
    test_list_tail c T allow (erase first) (map fst ts) = er_e (stest_list_tail c ST allow l first (ts, le)).
  Proof.
    intros ST T allow l first ts le H. unfold test_list_tail, stest_list_tail. red1. rewrite map_length.
    pose proof (comma_loop_erase ST T (is_test_start c) H (S (List.length ts)) [first] ts le) as E. cbn [map] in E.
    rewrite E. unfold er_cl. destruct (scomma_loop _ _ _ _ _) as [[[items tr] [ts' le']]| | |]; red1; try reflexivity.
    destruct items as [|x [|y items]]; cbn [map]; destruct tr; cbn [andb]; try reflexivity; destruct (negb allow); reflexivity.
  Qed.

  Lemma test_list_erase : forall ST T allow (ts : stoks) le,
    (forall (ts : stoks) le, T (map fst ts) = er_e (ST (ts, le))) ->
    test_list c T allow (map fst ts) = er_e (stest_list c ST allow (ts, le)).
  Proof.
    intros ST T allow ts le H. unfold test_list, stest_list. call H ts le as e1 ts1 le1.
    dts ts1 l1 r1 rest1. apply (test_list_tail_erase ST T allow _ e1 ((TComma, (l1, r1)) :: rest1) le1 H).
  Qed.

  Lemma slice_rest_erase : forall l e start (ts : stoks) le,
    slice_rest R (erase e) (option_map erase start) (map fst ts) = er_e (sslice_rest SR l e start (ts, le)).
  Proof.
    intros l e start ts le. unfold slice_rest, sslice_rest.
    eapply (bind_er (option_map erase) erase).
    { absd D. { call HT ts le as e1 ts1 le1. } dtk ts l0 r0 rest0 D; reflexivity. }
    intros stop ts1 le1. red1. eapply (bind_er (option_map erase) erase).
    { absd D. { reflexivity. } dtk ts1 l1 r1 rest1 D.
      absd D1. { call HT rest1 r1 as e2 ts2 le2. } dtk rest1 l2 r2 rest2 D1. reflexivity. }
    intros step ts2 le2. red1. ex TClosingSquare ts2 le2 as ts3 le3.
  Qed.

  Lemma index_or_slice_erase : forall l e (ts : stoks) le,
    index_or_slice R (erase e) (map fst ts) = er_e (sindex_or_slice SR l e (ts, le)).
  Proof.
    intros l e ts le. unfold index_or_slice, sindex_or_slice. absd D.
    { call HT ts le as e1 ts1 le1. absd D1. { ex TClosingSquare ts1 le1 as ts2 le2. }
      dtk ts1 l1 r1 rest1 D1.
      - call HT rest1 r1 as e2 ts2 le2. ex TClosingSquare ts2 le2 as ts3 le3.
      - apply (slice_rest_erase l e (Some e1)). }
    dtk ts l0 r0 rest0 D. apply (slice_rest_erase l e None).
  Qed.

  Lemma suffix_loop_erase : forall n lhs (ts : stoks) le,
    suffix_loop R n (erase lhs) (map fst ts) = er_e (ssuffix_loop SR n lhs (ts, le)).
  Proof.
    induction n as [|n IH]; intros lhs ts le; [reflexivity|]. cbn [suffix_loop ssuffix_loop].
    destruct ts as [|[[] [l0 r0]] rest0]; try reflexivity; red1.
    - destruct rest0 as [|[[] [l1 r1]] rest1]; try reflexivity. red1. apply (IH (XDot _ lhs _ _)).
    - call HA rest0 r0 as args ts1 le1. ex TClosingRound ts1 le1 as ts2 le2.
      destruct (check_args 0 [] (map erase_arg args)); [|reflexivity]. apply (IH (XCall _ lhs args)).
    - useH (index_or_slice_erase (fst (sspan lhs)) lhs) rest0 r0.
      destruct (sindex_or_slice SR (fst (sspan lhs)) lhs (rest0, r0)) as [[e1 [ts1 le1]]| | |]; red1; try reflexivity. apply IH.
  Qed.

  Lemma continue_primary_erase : forall lhs (ts : stoks) le,
    continue_primary R (erase lhs) (map fst ts) = er_e (scontinue_primary SR lhs (ts, le)).
  Proof. intros. unfold continue_primary, scontinue_primary. red1. rewrite map_length. apply suffix_loop_erase. Qed.

  Lemma for_clause_erase : forall (ts : stoks) le,
    for_clause R (map fst ts) = er_p erase_clause (sfor_clause SR (ts, le)).
  Proof.
    intros ts le. unfold for_clause, sfor_clause. ex TFor ts le as ts0 le0. call HE ts0 le0 as var ts1 le1.
    ex TIn ts1 le1 as ts2 le2. call HO ts2 le2 as over ts3 le3.
    destruct (check_assign (erase var)); [|reflexivity]. red1. rewrite erase_snorm. reflexivity.
  Qed.

  Lemma clause_loop_erase : forall n acc (ts : stoks) le,
    clause_loop R n (map erase_clause acc) (map fst ts) = er_p (map erase_clause) (sclause_loop SR n acc (ts, le)).
  Proof.
    induction n as [|n IH]; intros acc ts le; [reflexivity|]. cbn [clause_loop sclause_loop].
    destruct ts as [|[[] [l0 r0]] rest0]; try fin; red1.
    - call HO rest0 r0 as e1 ts1 le1. apply (IH (WIf e1 :: acc)).
    - useH for_clause_erase ((TFor, (l0, r0)) :: rest0) le.
      destruct (sfor_clause SR ((TFor, (l0, r0)) :: rest0, le)) as [[cl [ts1 le1]]| | |]; red1; try reflexivity. apply (IH (cl :: acc)).
  Qed.

  Lemma comp_clauses_erase : forall (ts : stoks) le,
    comp_clauses R (map fst ts) = er_p (map erase_clause) (scomp_clauses SR (ts, le)).
  Proof.
    intros ts le. unfold comp_clauses, scomp_clauses. useH for_clause_erase ts le.
    destruct (sfor_clause SR (ts, le)) as [[cl [ts1 le1]]| | |]; red1; try reflexivity. rewrite map_length. apply (clause_loop_erase _ [cl]).
  Qed.

  Lemma items_loop_erase : forall {SA A} (g : SA -> A) sitem item close,
    (forall (ts : stoks) le, item (map fst ts) = er_p g (sitem (ts, le))) ->
    forall n acc (ts : stoks) le,
      items_loop n item close (map g acc) (map fst ts) = er_p (map g) (sitems_loop n sitem close acc (ts, le)).
  Proof.
    intros SA A g sitem item close H. induction n as [|n IH]; intros acc ts le; [reflexivity|]. cbn [items_loop sitems_loop].
    destruct ts as [|[[] [l0 r0]] rest0]; try fin; red1.
    destruct rest0 as [|[t [l1 r1]] rest1]; red1.
    - call H (@nil stok) r0 as x ts1 le1. apply (IH (x :: acc)).
    - destruct (token_eqb t close); [fin|]. call H ((t, (l1, r1)) :: rest1) r0 as x ts1 le1. apply (IH (x :: acc)).
  Qed.

  Lemma list_or_comp_erase : forall l (ts : stoks) le,
    list_or_comp R (map fst ts) = er_e (slist_or_comp SR l (ts, le)).
  Proof.
    intros l ts le. unfold list_or_comp, slist_or_comp. absd D.
    { call HT ts le as first ts1 le1. absd D1.
      { rewrite map_length. useH (items_loop_erase erase (sr_test SR) (r_test R) TClosingSquare HT (S (List.length ts1)) [first]) ts1 le1.
        destruct (sitems_loop _ _ _ _ _) as [[items [ts2 le2]]| | |]; red1; try reflexivity. ex TClosingSquare ts2 le2 as ts3 le3. }
      dtk ts1 l1 r1 rest1 D1.
      useH comp_clauses_erase ((TFor, (l1, r1)) :: rest1) le1.
      destruct (scomp_clauses SR _) as [[cs [ts2 le2]]| | |]; red1; try reflexivity. ex TClosingSquare ts2 le2 as ts3 le3. }
    dtk ts l0 r0 rest0 D. reflexivity.
  Qed.

  Definition er_kv : res (sexpr * sexpr * st) -> res (expr * expr * toks) :=
    er_p (fun kv : sexpr * sexpr => (erase (fst kv), erase (snd kv))).

  Lemma dict_entry_erase : forall (ts : stoks) le, dict_entry R (map fst ts) = er_kv (sdict_entry SR (ts, le)).
  Proof.
    intros ts le. unfold dict_entry, sdict_entry, er_kv. call HT ts le as k ts1 le1. ex TColon ts1 le1 as ts2 le2.
    call HT ts2 le2 as v ts3 le3.
  Qed.

  Lemma dict_or_comp_erase : forall l (ts : stoks) le,
    dict_or_comp R (map fst ts) = er_e (sdict_or_comp SR l (ts, le)).
  Proof.
    intros l ts le. unfold dict_or_comp, sdict_or_comp. absd D.
    { useH dict_entry_erase ts le. unfold er_kv. destruct (sdict_entry SR (ts, le)) as [[[k v] [ts1 le1]]| | |]; red1; try reflexivity.
      absd D1.
      { rewrite map_length.
        pose proof (items_loop_erase (fun kv : sexpr * sexpr => (erase (fst kv), erase (snd kv))) (sdict_entry SR) (dict_entry R)
                      TClosingCurly dict_entry_erase (S (List.length ts1)) [(k, v)] ts1 le1) as E.
        cbn [map fst snd] in E. rewrite E. clear E.
        destruct (sitems_loop _ _ _ _ _) as [[items [ts2 le2]]| | |]; red1; try reflexivity. ex TClosingCurly ts2 le2 as ts3 le3. }
      dtk ts1 l1 r1 rest1 D1.
      useH comp_clauses_erase ((TFor, (l1, r1)) :: rest1) le1.
      destruct (scomp_clauses SR _) as [[cs [ts2 le2]]| | |]; red1; try reflexivity. ex TClosingCurly ts2 le2 as ts3 le3. }
    dtk ts l0 r0 rest0 D. reflexivity.
  Qed.

  Lemma parse_atom_erase : forall (ts : stoks) le, parse_atom c R (map fst ts) = er_e (sparse_atom c SR (ts, le)).
  Proof.
    intros ts le. unfold parse_atom, sparse_atom. absd D. { reflexivity. } dtk ts l0 r0 rest0 D; try reflexivity.
    - absd D1.
      { useH (test_list_erase (sr_test SR) (r_test R) true) rest0 r0; [|exact HT].
        destruct (stest_list c (sr_test SR) true (rest0, r0)) as [[e1 [ts1 le1]]| | |]; red1; try reflexivity.
        ex TClosingRound ts1 le1 as ts2 le2. }
      dtk rest0 l1 r1 rest1 D1. reflexivity.
    - apply list_or_comp_erase.
    - apply dict_or_comp_erase.
  Qed.

  Lemma parse_primary_erase : forall (ts : stoks) le, parse_primary c R (map fst ts) = er_e (sparse_primary c SR (ts, le)).
  Proof.
    intros ts le. unfold parse_primary, sparse_primary. call parse_atom_erase ts le as a ts1 le1. apply continue_primary_erase.
  Qed.

  Lemma unary_loop_erase : forall n (ts : stoks) le, unary_loop c R n (map fst ts) = er_e (sunary_loop c SR n (ts, le)).
  Proof.
    induction n as [|n IH]; intros ts le; [reflexivity|]. cbn [unary_loop sunary_loop].
    destruct ts as [|[t [l r]] rest]; cbn [map fst snd]; [apply (parse_primary_erase [])|].
    unfold unary_ctor, sunary_ctor. pose proof (sctor_erase (unary_code c t)) as K.
    destruct (sctor_of_code (unary_code c t)) as [g|], (ctor_of_code (unary_code c t)) as [f|]; try contradiction.
    - call IH rest r as e1 ts1 le1. rewrite K. reflexivity.
    - apply (parse_primary_erase ((t, (l, r)) :: rest)).
  Qed.

  Lemma parse_unary_erase : forall (ts : stoks) le, parse_unary c R (map fst ts) = er_e (sparse_unary c SR (ts, le)).
  Proof.
    intros ts le. unfold parse_unary, sparse_unary. cbn [fst]. rewrite map_length.
    useH (unary_loop_erase (S (List.length ts))) ts le. destruct (sunary_loop _ _ _ _) as [[e1 [ts1 le1]]| | |]; red1; try reflexivity.
    unfold guard, sguard. red1. rewrite !map_length. destruct (Nat.ltb _ _); reflexivity.
  Qed.

  Lemma continue_ternary_erase : forall e (ts : stoks) le,
    continue_ternary R (erase e) (map fst ts) = er_e (scontinue_ternary SR e (ts, le)).
  Proof.
    intros e ts le. unfold continue_ternary, scontinue_ternary. absd D. { reflexivity. } dtk ts l0 r0 rest0 D.
    call HO rest0 r0 as cond ts1 le1. ex TElse ts1 le1 as ts2 le2. call HT ts2 le2 as f ts3 le3.
  Qed.

  Lemma lambda_param_erase : forall (ts : stoks) le,
    lambda_param R (map fst ts) = er_p erase_param (slambda_param SR (ts, le)).
  Proof.
    intros ts le. unfold lambda_param, slambda_param. absd D. { reflexivity. } dtk ts l0 r0 rest0 D.
    - absd D1. { reflexivity. } dtk rest0 l1 r1 rest1 D1. call HT rest1 r1 as d ts2 le2.
    - absd D1. { reflexivity. } dtk rest0 l1 r1 rest1 D1. reflexivity.
    - reflexivity.
    - dtk rest0 l1 r1 rest1 D. reflexivity.
  Qed.

  Lemma params_loop_erase : forall n acc (ts : stoks) le,
    params_loop R n (map erase_param acc) (map fst ts) = er_p (map erase_param) (sparams_loop SR n acc (ts, le)).
  Proof.
    induction n as [|n IH]; intros acc ts le; [reflexivity|]. cbn [params_loop sparams_loop].
    call lambda_param_erase ts le as p ts1 le1. absd D. { fin. } dtk ts1 l1 r1 rest1 D.
    absd D1. { apply (IH (p :: acc)). } dtk rest1 l2 r2 rest2 D1. fin.
  Qed.

  Lemma lambda_params_erase : forall (ts : stoks) le,
    lambda_params R (map fst ts) = er_p (map erase_param) (slambda_params SR (ts, le)).
  Proof.
    intros ts le. unfold lambda_params, slambda_params. absd D. { cbn [fst]. rewrite map_length. apply (params_loop_erase _ []). }
    dtk ts l0 r0 rest0 D. reflexivity.
  Qed.

  Lemma parse_lambda_erase : forall l (ts : stoks) le, parse_lambda R (map fst ts) = er_e (sparse_lambda SR l (ts, le)).
  Proof.
    intros l ts le. unfold parse_lambda, sparse_lambda. call lambda_params_erase ts le as ps ts1 le1.
    ex TColon ts1 le1 as ts2 le2. call HT ts2 le2 as body ts3 le3. destruct (check_params _); reflexivity.
  Qed.

  Lemma pe_top_erase : forall m (ts : stoks) le,
    parse_expr_top c (parse_unary c R) m (map fst ts) = er_e (sparse_expr_top c (sparse_unary c SR) m (ts, le)).
  Proof.
    intros. unfold parse_expr_top, sparse_expr_top. cbn [fst]. rewrite map_length.
    apply (pratt_erase c (sparse_unary c SR) (parse_unary c R) parse_unary_erase).
  Qed.

  Lemma cont_infix_erase : forall m lhs (ts : stoks) le,
    continue_infix c (parse_unary c R) m (erase lhs) (map fst ts) = er_e (scontinue_infix c (sparse_unary c SR) m lhs (ts, le)).
  Proof.
    intros. unfold continue_infix, scontinue_infix. cbn [fst]. rewrite map_length.
    apply (pratt_erase c (sparse_unary c SR) (parse_unary c R) parse_unary_erase).
  Qed.

  Lemma bitor_erase : forall (ts : stoks) le,
    parse_bitor_expr c (parse_unary c R) (map fst ts) = er_e (sparse_bitor_expr c (sparse_unary c SR) (ts, le)).
  Proof.
    intros. unfold parse_bitor_expr, sparse_bitor_expr. call parse_unary_erase ts le as e1 ts1 le1. apply cont_infix_erase.
  Qed.

  Lemma parse_test_erase : forall (ts : stoks) le, parse_test c I R (map fst ts) = er_e (sparse_test c SR (ts, le)).
  Proof.
    intros ts le. unfold parse_test, sparse_test. cbn [i_test pratt_impl]. absd D.
    { call (pe_top_erase (c_test c)) ts le as e1 ts1 le1. apply continue_ternary_erase. }
    dtk ts l0 r0 rest0 D. apply parse_lambda_erase.
  Qed.

  Lemma parse_or_test_erase : forall (ts : stoks) le, parse_or_test c I R (map fst ts) = er_e (sparse_or_test c SR (ts, le)).
  Proof. intros. unfold parse_or_test, sparse_or_test. cbn [i_ortest pratt_impl]. apply pe_top_erase. Qed.

  Lemma parse_expr_list_erase : forall (ts : stoks) le,
    parse_expr_list c I R (map fst ts) = er_e (sparse_expr_list c SR (ts, le)).
  Proof.
    intros ts le. unfold parse_expr_list, sparse_expr_list. cbn [i_bitor pratt_impl].
    call bitor_erase ts le as first ts1 le1. absd D. { reflexivity. } dtk ts1 l1 r1 rest1 D.
    pose proof (comma_loop_erase _ _ (is_expr_start c) bitor_erase (S (List.length ((TComma, (l1, r1)) :: rest1))) [first]
                  ((TComma, (l1, r1)) :: rest1) le1) as E.
    cbn [List.length map fst] in *. rewrite map_length. rewrite E. clear E. unfold er_cl.
    destruct (scomma_loop _ _ _ _ _) as [[[items tr] [ts' le']]| | |]; red1; try reflexivity.
    destruct items as [|x [|y items]]; cbn [map]; destruct tr; reflexivity.
  Qed.

  Lemma parse_argument_erase : forall (ts : stoks) le,
    parse_argument c I R (map fst ts) = er_p erase_arg (sparse_argument c SR (ts, le)).
  Proof.
    intros ts le. unfold parse_argument, sparse_argument. cbn [i_reentry pratt_impl]. absd D.
    { call parse_test_erase ts le as e1 ts1 le1. }
    dtk ts l0 r0 rest0 D.
    - absd D1.
      { useH (continue_primary_erase (XId (l0, r0) n)) rest0 r0.
        destruct (scontinue_primary SR (XId (l0, r0) n) (rest0, r0)) as [[e1 [ts1 le1]]| | |]; red1; try reflexivity.
        rewrite !map_length. destruct (Nat.leb _ _); [|reflexivity].
        call (cont_infix_erase (c_arg c) e1) ts1 le1 as e2 ts2 le2.
        call (continue_ternary_erase e2) ts2 le2 as e3 ts3 le3. }
      dtk rest0 l1 r1 rest1 D1. call parse_test_erase rest1 r1 as e1 ts1 le1.
    - call parse_test_erase rest0 r0 as e1 ts1 le1.
    - call parse_test_erase rest0 r0 as e1 ts1 le1.
  Qed.

  Lemma args_loop_erase : forall n acc (ts : stoks) le,
    args_loop c I R n (map erase_arg acc) (map fst ts) = er_p (map erase_arg) (sargs_loop c SR n acc (ts, le)).
  Proof.
    induction n as [|n IH]; intros acc ts le; [reflexivity|]. cbn [args_loop sargs_loop].
    call parse_argument_erase ts le as a ts1 le1. absd D. { fin. } dtk ts1 l1 r1 rest1 D.
    absd D1. { apply (IH (a :: acc)). } dtk rest1 l2 r2 rest2 D1. fin.
  Qed.

  Lemma parse_args_erase : forall (ts : stoks) le,
    parse_args c I R (map fst ts) = er_p (map erase_arg) (sparse_args c SR (ts, le)).
  Proof.
    intros ts le. unfold parse_args, sparse_args. absd D. { cbn [fst]. rewrite map_length. apply (args_loop_erase _ []). }
    dtk ts l0 r0 rest0 D. reflexivity.
  Qed.

  Lemma parse_top_erase : forall strict (ts : stoks) le,
    parse_top c I R strict (map fst ts) = rmap erase_stmt (sparse_top c SR strict (ts, le)).
  Proof.
    intros strict ts le. unfold parse_top, sparse_top.
    useH parse_test_erase ts le. destruct (sparse_test c SR (ts, le)) as [[first [ts0 le0]]| | |]; red1; try reflexivity.
    assert (EL : (match map fst ts0 with TComma :: _ => true | _ => false end) =
                 (match ts0 with (TComma, _) :: _ => true | _ => false end)).
    { destruct ts0 as [|[[] [? ?]] ?]; reflexivity. }
    rewrite EL. clear EL. set (is_list := match ts0 with (TComma, _) :: _ => true | _ => false end). clearbody is_list.
    assert (K : forall b lhs (ts1 : stoks) le1,
      match map fst ts1 with
      | [] => if b && strict then Err 15 else Ok (SExpr (erase lhs))
      | TColon :: _ => Unmodelled
      | TOther _ :: _ => Unmodelled
      | TEqual :: r' =>
        '(rhs, r'') <- test_list c (parse_test c I R) false r' ;;
        match r'' with
        | [] => if check_assign (erase lhs) then Ok (SAssign (norm_target (erase lhs)) rhs) else Err 13
        | _ => Err 14
        end
      | _ => Err 14
      end = rmap erase_stmt
      match fst (ts1, le1) with
      | [] => if b && strict then Err 15 else Ok (TExpr (pos (ts, le), snd (ts1, le1)) lhs)
      | (TColon, _) :: _ => Unmodelled
      | (TOther _, _) :: _ => Unmodelled
      | (TEqual, (_, r)) :: rest =>
        '(rhs, s2) <- stest_list c (sparse_test c SR) false (rest, r) ;;
        match fst s2 with
        | [] => if check_assign (erase lhs) then Ok (TAssign (pos (ts, le), snd s2) (snorm_target lhs) rhs) else Err 13
        | _ => Err 14
        end
      | _ => Err 14
      end).
    { intros b lhs ts1 le1. destruct ts1 as [|[[] [l1 r1]] rest1]; cbn [map fst snd]; try reflexivity.
      - destruct (b && strict); reflexivity.
      - useH (test_list_erase (sparse_test c SR) (parse_test c I R) false) rest1 r1; [|exact parse_test_erase].
        destruct (stest_list c (sparse_test c SR) false (rest1, r1)) as [[rhs [ts2 le2]]| | |]; red1; try reflexivity.
        destruct ts2 as [|? ?]; cbn [map]; [|reflexivity]. destruct (check_assign (erase lhs)); [|reflexivity].
        cbn [rmap erase_stmt]. rewrite erase_snorm. reflexivity. }
    destruct is_list.
    - useH (test_list_tail_erase (sparse_test c SR) (parse_test c I R) false (pos (ts, le)) first) ts0 le0; [|exact parse_test_erase].
      destruct (stest_list_tail _ _ _ _ _ _) as [[lhs [ts1 le1]]| | |]; red1; try reflexivity. apply (K true).
    - red1. apply (K false).
  Qed.
End EBody.

Lemma go_erase : forall c fuel,
  (forall (ts : stoks) le, r_test (go c (pratt_impl c) fuel) (map fst ts) = er_e (sr_test (sgo c fuel) (ts, le))) /\
  (forall (ts : stoks) le, r_ortest (go c (pratt_impl c) fuel) (map fst ts) = er_e (sr_ortest (sgo c fuel) (ts, le))) /\
  (forall (ts : stoks) le, r_exprlist (go c (pratt_impl c) fuel) (map fst ts) = er_e (sr_exprlist (sgo c fuel) (ts, le))) /\
  (forall (ts : stoks) le, r_args (go c (pratt_impl c) fuel) (map fst ts) = er_p (map erase_arg) (sr_args (sgo c fuel) (ts, le))).
Proof.
  intros c. induction fuel as [|f (HT & HO & HE & HA)]; [repeat split; reflexivity|].
  cbn [go sgo level slevel r_test r_ortest r_exprlist r_args sr_test sr_ortest sr_exprlist sr_args].
  split; [|split; [|split]]; intros ts le.
  - apply parse_test_erase; assumption.
  - apply parse_or_test_erase; assumption.
  - apply parse_expr_list_erase; assumption.
  - apply parse_args_erase; assumption.
Qed.

(* (a) erasing the spans of the span-tracking parser's result gives exactly Parse.Model.parse *)
Theorem parser_erase_spans : forall c fuel (ts : stoks),
  rmap erase_stmt (sparse c fuel ts) = Parse.Model.parse c fuel (map fst ts).
Proof.
  intros c fuel ts. unfold sparse, Parse.Model.parse. symmetry.
  destruct (go_erase c fuel) as (HT & HO & HE & HA). apply parse_top_erase; assumption.
Qed.

Theorem parser_erase_spans_test : forall c fuel (ts : stoks) le,
  er_e (sparse_test_m c fuel (ts, le)) = parse_test_m c fuel (map fst ts).
Proof. intros c fuel ts le. symmetry. apply (go_erase c fuel). Qed.

(* ---------------------------------------------------------------------------------------------- *)
(* Part B: layout *)
Open Scope N_scope.

Lemma end_last_app : forall a b p, end_last p (a ++ b) = end_last (end_last p a) b.
Proof. induction a as [|[t [l r]] a IH]; intros b p; cbn [app end_last]; [reflexivity | apply IH]. Qed.
Lemma end_last_ne : forall a p q, a <> [] -> end_last p a = end_last q a.
Proof. intros [|[t [l r]] a] p q H; [congruence | reflexivity]. Qed.
Lemma first_begin_app : forall a b, a <> [] -> first_begin (a ++ b) = first_begin a.
Proof. intros [|[t [l r]] a] b H; [congruence | reflexivity]. Qed.
Lemma app_ne_l : forall {A} (a b : list A), a <> [] -> a ++ b <> [].
Proof. intros A [|x a] b H; [congruence | discriminate]. Qed.
Lemma app_ne_r : forall {A} (a b : list A), b <> [] -> a ++ b <> [].
Proof. intros A [|x a] b H; [exact H | discriminate]. Qed.

Lemma lay_ne : forall c t, lay c t -> c <> [].
Proof. intros c t H. destruct H; [discriminate | assumption]. Qed.
Lemma lay_span : forall c t, lay c t -> rsp t = seg_span c.
Proof. intros c t H. destruct H; [destruct sp; reflexivity | reflexivity]. Qed.
Lemma covers_ne : forall c t, covers c t -> c <> [].
Proof. intros c t (pre & core & post & E & _ & _ & L). subst. apply app_ne_r, app_ne_l. eapply lay_ne; eauto. Qed.

Lemma kl_pre : forall x r ks, kids_lay r ks -> kids_lay (x ++ r) ks.
Proof.
  intros x r ks H. destruct H as [c|a c rest k ks L K]; [constructor|]. rewrite app_assoc. constructor; assumption.
Qed.
Lemma kl_skip : forall t r ks, kids_lay r ks -> kids_lay (t :: r) ks.
Proof. intros t r ks H. apply (kl_pre [t]), H. Qed.
Lemma kl_cov : forall c k rest ks, covers c k -> kids_lay rest ks -> kids_lay (c ++ rest) (k :: ks).
Proof.
  intros c k rest ks (pre & core & post & E & _ & _ & L) K. subst. rewrite <- !app_assoc.
  constructor; [assumption | apply kl_pre, K].
Qed.
Lemma kl_leaf : forall tok sp rest ks, kids_lay rest ks -> kids_lay ((tok, sp) :: rest) (rleaf tok sp :: ks).
Proof. intros tok sp rest ks K. apply (kl_cons [] [(tok, sp)] rest). apply lay_leaf. exact K. Qed.
Lemma kl_app : forall c1 ks1, kids_lay c1 ks1 -> forall c2 ks2, kids_lay c2 ks2 -> kids_lay (c1 ++ c2) (ks1 ++ ks2).
Proof.
  fix IH 3. intros c1 ks1 H c2 ks2 K. destruct H as [c|a c rest k ks L K1].
  - cbn [app]. apply kl_pre, K.
  - rewrite <- !app_assoc. cbn [app]. constructor; [exact L | apply IH; assumption].
Qed.

(* the three span shapes of parser_rd.rs *)
Lemma cov_full : forall cons kids sp p, cons <> [] -> kids_lay cons kids -> sp = (first_begin cons, end_last p cons) ->
  covers cons (RT sp None kids).
Proof.
  intros cons kids sp p NE K ->. exists [], cons, []. rewrite app_nil_r. repeat split; try constructor.
  rewrite (end_last_ne cons p 0 NE). apply lay_node; assumption.
Qed.

Lemma cov_left : forall c1 k1 rest ks sp p, covers c1 k1 -> kids_lay rest ks -> rest <> [] ->
  sp = (fst (rsp k1), end_last p (c1 ++ rest)) -> covers (c1 ++ rest) (RT sp None (k1 :: ks)).
Proof.
  intros c1 k1 rest ks sp p (pre & core & post & E & O & C & L) K NE ->. subst c1.
  exists pre, (core ++ post ++ rest), []. rewrite app_nil_r, <- !app_assoc. repeat split; try assumption; try constructor.
  pose proof (lay_ne _ _ L) as NC. rewrite (lay_span _ _ L).
  replace (fst (seg_span core), end_last p (pre ++ core ++ post ++ rest)) with (seg_span (core ++ post ++ rest)).
  - apply lay_node; [apply app_ne_l, NC|]. apply (kl_cons [] core (post ++ rest)); [exact L | apply kl_pre, K].
  - unfold seg_span. cbn [fst]. rewrite (first_begin_app core _ NC). f_equal.
    rewrite !end_last_app. apply end_last_ne, NE.
Qed.

Lemma cov_op : forall c1 k1 mid c2 k2, covers c1 k1 -> covers c2 k2 ->
  covers (c1 ++ mid ++ c2) (RT (fst (rsp k1), snd (rsp k2)) None [k1; k2]).
Proof.
  intros c1 k1 mid c2 k2 (pre & core & post & E & O & C & L) (pre2 & core2 & post2 & E2 & O2 & C2 & L2). subst.
  exists pre, (core ++ post ++ mid ++ pre2 ++ core2), post2. rewrite <- !app_assoc. repeat split; try assumption.
  pose proof (lay_ne _ _ L) as NC. pose proof (lay_ne _ _ L2) as NC2. rewrite (lay_span _ _ L), (lay_span _ _ L2).
  replace (fst (seg_span core), snd (seg_span core2)) with (seg_span (core ++ post ++ mid ++ pre2 ++ core2)).
  - apply lay_node; [apply app_ne_l, NC|]. apply (kl_cons [] core); [exact L|].
    rewrite !app_assoc. rewrite <- (app_nil_r core2) at 1. rewrite <- !app_assoc. rewrite !app_assoc.
    rewrite <- (app_assoc _ core2 []). constructor; [exact L2 | constructor].
  - unfold seg_span. cbn [fst snd]. rewrite (first_begin_app core _ NC). f_equal.
    rewrite !end_last_app. apply end_last_ne, NC2.
Qed.

Lemma cov_paren : forall c t s1 s2, covers c t -> covers ((TOpeningRound, s1) :: c ++ [(TClosingRound, s2)]) t.
Proof.
  intros c t s1 s2 (pre & core & post & E & O & C & L). subst.
  exists ((TOpeningRound, s1) :: pre), core, (post ++ [(TClosingRound, s2)]). rewrite <- !app_assoc. repeat split.
  - constructor; [reflexivity | exact O].
  - apply Forall_app. split; [exact C | constructor; [reflexivity | constructor]].
  - exact L.
Qed.

Lemma cov_leaf : forall tok sp, covers [(tok, sp)] (rleaf tok sp).
Proof. intros. exists [], [(tok, sp)], []. repeat split; try constructor. Qed.

Lemma rsp_tree_of : forall e, rsp (tree_of e) = sspan e.
Proof. destruct e; reflexivity. Qed.

(* the Hoare triple: if m succeeds from s, it consumed a run `cons` of lexemes, last_end is the end of the last of
   them, and Q holds of the run and the result *)
Definition sat {A} (s : st) (m : res (A * st)) (Q : stoks -> A -> Prop) : Prop :=
  match m with
  | Ok (a, s') => exists cons, fst s = cons ++ fst s' /\ snd s' = end_last (snd s) cons /\ Q cons a
  | _ => True
  end.

Lemma sat_ret : forall {A} (s : st) (a : A) (Q : stoks -> A -> Prop), Q [] a -> sat s (Ok (a, s)) Q.
Proof. intros A s a Q H. exists []. repeat split; assumption. Qed.

Lemma sat_bind : forall {A B} (s : st) (m : res (A * st)) (k : A * st -> res (B * st)) Q1 (Q2 : stoks -> B -> Prop),
  sat s m Q1 ->
  (forall c1 a (ts1 : stoks), Q1 c1 a -> fst s = c1 ++ ts1 ->
     sat (ts1, end_last (snd s) c1) (k (a, (ts1, end_last (snd s) c1))) (fun c2 b => Q2 (c1 ++ c2) b)) ->
  sat s (bind m k) Q2.
Proof.
  intros A B s m k Q1 Q2 H K. destruct m as [[a [ts1 le1]]| | |]; cbn [bind]; try exact I.
  destruct H as (c1 & E1 & E2 & q1). cbn [fst snd] in *. subst le1. specialize (K c1 a ts1 q1 E1).
  unfold sat in *. destruct (k _) as [[b [ts2 le2]]| | |]; try exact I.
  destruct K as (c2 & F1 & F2 & q2). cbn [fst snd] in *. exists (c1 ++ c2). repeat split.
  - rewrite E1, F1, app_assoc. reflexivity.
  - rewrite F2, end_last_app. reflexivity.
  - exact q2.
Qed.

Lemma sat_tok : forall {B} t l r (rest : stoks) le (m : res (B * st)) (Q : stoks -> B -> Prop),
  sat (rest, r) m (fun c b => Q ((t, (l, r)) :: c) b) -> sat ((t, (l, r)) :: rest, le) m Q.
Proof.
  intros B t l r rest le m Q H. unfold sat in *. destruct m as [[b [ts2 le2]]| | |]; try exact I.
  destruct H as (c & F1 & F2 & q). cbn [fst snd] in *. exists ((t, (l, r)) :: c). repeat split.
  - rewrite F1. reflexivity.
  - exact F2.
  - exact q.
Qed.

Lemma sat_weaken : forall {A} (s : st) (m : res (A * st)) (Q Q' : stoks -> A -> Prop),
  sat s m Q -> (forall c a, Q c a -> Q' c a) -> sat s m Q'.
Proof.
  intros A s m Q Q' H W. unfold sat in *. destruct m as [[a s']| | |]; try exact I.
  destruct H as (c & E1 & E2 & q). exists c. repeat split; auto.
Qed.

Lemma token_eqb_close : forall t, token_eqb TClosingRound t = true -> t = TClosingRound.
Proof. destruct t; cbn; congruence. Qed.

(* expect: one lexeme is consumed (which one matters only for the closing parenthesis) *)
Lemma sat_expect : forall {B} t (s : st) (k : st -> res (B * st)) (Q : stoks -> B -> Prop),
  (forall t' l r (rest : stoks), fst s = (t', (l, r)) :: rest -> token_eqb t t' = true ->
     sat (rest, r) (k (rest, r)) (fun c b => Q ((t', (l, r)) :: c) b)) ->
  sat s (bind (sexpect t s) k) Q.
Proof.
  intros B t [ts le] k Q H. unfold sexpect. cbn [fst snd] in *. destruct ts as [|[t' [l r]] rest]; [exact I|].
  destruct (token_eqb t t') eqn:E; [|exact I]. cbn [bind]. apply sat_tok. apply (H t' l r rest eq_refl E).
Qed.

Notation GoodE := (fun (c : stoks) (e : sexpr) => covers c (tree_of e)).

Ltac sbind := eapply sat_bind; [ | let c := fresh "c" in let a := fresh "a" in let ts := fresh "ts" in
                                    let q := fresh "q" in let E := fresh "E" in
                                    intros c a ts q E; cbn [fst snd] in E; cbn beta iota ].
