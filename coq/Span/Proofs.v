(* C05, tree level: span nesting and dialect monotonicity. *)
From Coq Require Import NArith ZArith List Bool Lia.
From SV Require Import Extracted.LexC Span.Model.
Import ListNotations.
Open Scope N_scope.

(* ---------- span nesting ---------- *)

Lemma mono_app_r : forall a b, mono (a ++ b) -> mono b.
Proof.
  induction a as [|[l r] t]; intros b H; [exact H|]. cbn [app mono] in H. destruct H as (_ & _ & H). now apply IHt.
Qed.

Lemma mono_app_l : forall a b, mono (a ++ b) -> mono a.
Proof.
  induction a as [|[l r] t]; intros b H; [exact I|]. cbn [app mono] in *. destruct H as (A & B & C).
  split; [assumption|]. split; [|eapply IHt; eauto].
  destruct t as [|[l2 r2] t2]; [exact I | exact B].
Qed.

(* in a monotone token list every token starts at or after the start of the first one *)
Lemma mono_first_le : forall ts l r x, mono ((l, r) :: ts) -> In x ((l, r) :: ts) -> l <= fst x /\ fst x <= snd x.
Proof.
  induction ts as [|[l2 r2] t]; intros l r x H HI.
  - destruct HI as [<-|[]]. cbn in *. lia.
  - cbn [mono] in H. destruct H as (A & B & C). destruct HI as [<-|HI]; [cbn; lia|].
    destruct (IHt l2 r2 x C HI). lia.
Qed.

(* ... and ends at or before the end of the last one *)
Lemma mono_last_ge : forall ts x d, mono ts -> In x ts -> snd x <= snd (last ts d).
Proof.
  induction ts as [|[l r] t]; intros x d H HI; [destruct HI|].
  destruct t as [|[l2 r2] t2].
  - destruct HI as [<-|[]]. cbn. lia.
  - cbn [mono] in H. destruct H as (A & B & C). change (last ((l, r) :: (l2, r2) :: t2) d) with (last ((l2, r2) :: t2) d).
    destruct HI as [<-|HI].
    + cbn [snd]. pose proof (IHt (l2, r2) d C (or_introl eq_refl)) as X. cbn [snd] in X.
      cbn [mono] in C. lia.
    + now apply IHt.
Qed.

Lemma in_split_flat : forall items k, In k items -> exists a c, flat (PNode items) = a ++ flat k ++ c.
Proof.
  induction items as [|x r]; intros k H; [destruct H|]. cbn [flat flat_map]. destruct H as [->|H].
  - exists [], (flat_map flat r). reflexivity.
  - destruct (IHr k H) as [a [c E]]. cbn [flat] in E. exists (flat x ++ a), c. rewrite E, <- app_assoc. reflexivity.
Qed.

Lemma sp_cons : forall t l r ts, flat t = (l, r) :: ts -> sp t = (l, snd (last ((l, r) :: ts) (0, 0))).
Proof. intros t l r ts E. unfold sp. rewrite E. reflexivity. Qed.

Lemma last_in : forall (ls : list (N * N)) d, ls <> [] -> In (last ls d) ls.
Proof. induction ls as [|x [|b ls']]; intros d NE; [congruence | now left | right; apply IHls; discriminate]. Qed.

(* a non-empty child lies inside its parent; the child's own tokens are monotone again *)
Theorem span_nesting : forall items k,
  mono (flat (PNode items)) -> In k items -> flat k <> [] ->
  fst (sp (PNode items)) <= fst (sp k) /\ fst (sp k) <= snd (sp k) /\ snd (sp k) <= snd (sp (PNode items)) /\ mono (flat k).
Proof.
  intros items k M HI NE. destruct (in_split_flat _ _ HI) as [a [c E]].
  assert (MK : mono (flat k)) by (rewrite E in M; apply mono_app_r in M; now apply mono_app_l in M).
  assert (SUB : forall x, In x (flat k) -> In x (flat (PNode items))).
  { intros x Hx. rewrite E. apply in_or_app. right. apply in_or_app. now left. }
  assert (NEP : flat (PNode items) <> []) by (rewrite E; destruct (flat k); [congruence | destruct a; discriminate]).
  destruct (flat (PNode items)) as [|[pl pr] pts] eqn:EP; [congruence|].
  destruct (flat k) as [|[kl kr] kts] eqn:EK; [congruence|].
  rewrite (sp_cons _ _ _ _ EP), (sp_cons _ _ _ _ EK). cbn [fst snd].
  split; [|split; [|split; [|assumption]]].
  - destruct (mono_first_le _ _ _ (kl, kr) M (SUB _ (or_introl eq_refl))). cbn in *. lia.
  - pose proof (mono_last_ge _ (kl, kr) (0, 0) MK (or_introl eq_refl)) as X.
    cbn [mono] in MK. cbn [snd] in X. lia.
  - apply (mono_last_ge _ (last ((kl, kr) :: kts) (0, 0)) (0, 0) M). apply SUB. apply last_in. discriminate.
Qed.

(* every span lies inside the file when the tokens do *)
Theorem node_span_in_file : forall t len, mono (flat t) -> (forall x, In x (flat t) -> snd x <= len) -> flat t <> [] ->
  fst (sp t) <= snd (sp t) /\ snd (sp t) <= len.
Proof.
  intros t len M H NE. destruct (flat t) as [|[l r] ts] eqn:E; [congruence|].
  rewrite (sp_cons _ _ _ _ E). cbn [fst snd]. split.
  - pose proof (mono_last_ge _ (l, r) (0, 0) M (or_introl eq_refl)) as X. cbn [mono] in M. cbn [snd] in X. lia.
  - apply H. apply last_in. discriminate.
Qed.

Lemma sub_flat : forall n t, sub n t -> exists a c, flat t = a ++ flat n ++ c.
Proof.
  induction 1 as [t|n k items HI S [a [c E]]].
  - exists [], []. now rewrite app_nil_r.
  - destruct (in_split_flat _ _ HI) as [a' [c' E']]. exists (a' ++ a), (c ++ c').
    rewrite E', E, <- !app_assoc. reflexivity.
Qed.

(* at any depth: a non-empty node lies inside every node it occurs in (in particular inside the root), is
   well-ordered, and its tokens are monotone *)
Theorem span_nesting_deep : forall n t, sub n t -> mono (flat t) -> flat n <> [] ->
  fst (sp t) <= fst (sp n) /\ fst (sp n) <= snd (sp n) /\ snd (sp n) <= snd (sp t) /\ mono (flat n).
Proof.
  induction 1 as [t|n k items HI S IH]; intros M NE.
  - destruct (flat t) as [|[l r] ts] eqn:E; [congruence|].
    rewrite (sp_cons _ _ _ _ E). cbn [fst snd]. split; [lia|]. split; [|split; [lia | assumption]].
    pose proof (mono_last_ge _ (l, r) (0, 0) M (or_introl eq_refl)) as X. cbn [mono] in M. cbn [snd] in X. lia.
  - assert (NK : flat k <> []).
    { destruct (sub_flat _ _ S) as [a [c E]]. rewrite E. destruct (flat n); [congruence | destruct a; discriminate]. }
    destruct (span_nesting _ _ M HI NK) as (A & B & C & MK). destruct (IH MK NE) as (A' & B' & C' & MN).
    repeat split; try assumption; lia.
Qed.

(* ---------- dialect monotonicity ---------- *)

Lemma presets_chain : dle Standard Extended /\ dle Extended AllOptionsInternal.
Proof. split; unfold dle; cbn; repeat split; try (intro; reflexivity); try discriminate; try lia; auto. Qed.

Lemma ok_params_mono : forall a b n s, dle a b -> ok_params a n s = true -> ok_params b n s = true.
Proof.
  intros a b n s (_ & _ & _ & K & P & _) H. unfold ok_params in *.
  apply andb_true_iff in H. destruct H as [H1 H2]. apply andb_true_iff. split.
  - destruct (d_kwonly a); [rewrite K; reflexivity|]. cbn in H1. rewrite H1. apply orb_true_r.
  - destruct (d_posonly a); [rewrite P; reflexivity|]. cbn in H2. rewrite H2. apply orb_true_r.
Qed.

Lemma ok_stmt_mono : forall a b, dle a b -> forall s top infor indef, ok_stmt a top infor indef s = true -> ok_stmt b top infor indef s = true.
Proof.
  intros a b L. pose proof L as (D & _ & LD & _ & _ & _ & _ & T & _).
  induction s; intros top infor indef H; cbn [ok_stmt] in *.
  - apply andb_true_iff in H. destruct H as [H H3]. apply andb_true_iff in H. destruct H as [H1 H2].
    rewrite (D H1), (ok_params_mono _ _ _ _ L H2), (IHs _ _ _ H3). reflexivity.
  - destruct top; cbn [andb] in *; [|now apply IHs]. destruct (d_toplevel a); [|discriminate]. rewrite (T eq_refl). cbn. now apply IHs.
  - assert (X : ok_stmt b false infor indef s1 && ok_stmt b false infor indef s2 = true -> (if top && negb (d_toplevel b) then false else ok_stmt b false infor indef s1 && ok_stmt b false infor indef s2) = true).
    { intro Y. destruct top; cbn [andb]; [|exact Y]. destruct (d_toplevel a) eqn:TA; [rewrite (T eq_refl); exact Y|]. cbn in H. discriminate. }
    apply X. destruct (top && negb (d_toplevel a)); [discriminate|]. apply andb_true_iff in H. destruct H as [H1 H2].
    rewrite (IHs1 _ _ _ H1), (IHs2 _ _ _ H2). reflexivity.
  - exact H.
  - exact H.
  - exact H.
  - apply andb_true_iff in H. destruct H as [H1 H2]. rewrite H1, (LD H2). reflexivity.
  - apply andb_true_iff in H. destruct H as [H1 H2]. rewrite (IHs1 _ _ _ H1), (IHs2 _ _ _ H2). reflexivity.
  - reflexivity.
Qed.

Lemma ok_feat_mono : forall a b f, dle a b -> ok_feat a f = true -> ok_feat b f = true.
Proof.
  intros a b f L H. pose proof L as (_ & LA & _ & _ & _ & TY & _ & _ & FS). destruct f; cbn [ok_feat] in *.
  - apply negb_true_iff, N.eqb_neq in H. apply negb_true_iff, N.eqb_neq. lia.
  - apply andb_true_iff in H. destruct H as [H1 H2]. rewrite (LA H1), (ok_params_mono _ _ _ _ L H2). reflexivity.
  - apply negb_true_iff, N.eqb_neq in H. apply negb_true_iff, N.eqb_neq. lia.
  - now apply FS.
  - discriminate.
Qed.

Theorem dialect_monotone : forall d1 d2 m, dle d1 d2 -> accepts d1 m = true -> accepts d2 m = true.
Proof.
  intros d1 d2 [s fs] L H. unfold accepts in *. cbn [fst snd] in *. apply andb_true_iff in H. destruct H as [H1 H2].
  rewrite (ok_stmt_mono _ _ L _ _ _ _ H1). cbn. rewrite forallb_forall in *. intros f Hf. eapply ok_feat_mono; eauto.
Qed.

(* validation never rewrites: the larger dialect returns the very same tree *)
Theorem validate_monotone : forall d1 d2 m m', dle d1 d2 -> validate d1 m = Some m' -> validate d2 m = Some m' /\ m' = m.
Proof.
  intros d1 d2 m m' L H. unfold validate in *. destruct (accepts d1 m) eqn:A; [|discriminate]. inversion H; subst.
  rewrite (dialect_monotone _ _ _ L A). split; reflexivity.
Qed.
