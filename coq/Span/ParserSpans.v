(* C05, parser level: the SPAN-TRACKING version of the parser model of C06 (coq/Parse/Model.v).  NO proofs in this file.

   Parse/Model.v is the Gallina mirror of starlark_syntax/src/syntax/parser_rd.rs over bare tokens (spans erased; C06
   proves it equal to the reference grammar).  Here every lexeme carries its `(begin, end)` byte offsets, the parser state
   is what `ParserRd` keeps -- the remaining lexemes and `last_end` (the end of the last consumed lexeme) -- and every node
   of the result carries the span the real parser gives it:

       let l = self.pos();  ...sub-parsers...;  let r = self.last_end;  node.ast(l, r)

   with the exceptions of parser_rd.rs kept as they are:
   * binary operators (parse_expr / continue_infix):  l = lhs.span.begin(), r = rhs.span.end()  (NOT last_end);
   * postfix forms `.name`, call, index, slice (parse_primary / continue_primary) and the conditional expression
     (continue_ternary):  l = lhs.span.begin(), r = last_end;
   * a parenthesised expression `( e )` is returned as `e` with its own span: the parentheses are NOT part of it
     (parse_atom), so `(a).b` has the span from `a` to `b`; the empty tuple `()` includes its parentheses, a
     parenthesised tuple `(a, b)` does not (parse_test_list_tail: l = pos() before the first item, r = last_end after
     the last item or the trailing comma);
   * lambda parameter with default (parse_lambda_param): r = last_end AFTER the default has been parsed.
   ForClause / Clause carry no span of their own (ast.rs), identifiers after `.`, parameter names and the name of a
   named argument are spanned leaves (AstString / AstAssignIdent).  `Expr::Identifier(ident.ast(l, r)).ast(l, r)` and
   `Literal(Int(i.ast(l, r))).ast(l, r)` are two nodes with the same span in ast.rs: one leaf here.

   The control flow is, function by function, that of Parse/Model.v (Section Pratt / Section Body / go) specialised to the
   real operator layer `pratt_impl`; ParserSpansProofs.v proves that erasing the spans gives exactly `Parse.Model.parse`.

   Second half of the file: the vocabulary of the span theorems (generic span tree `rt`, `tree_of`, `lay`, `wf`). *)
From Coq Require Import ZArith NArith List String Bool.
From SV Require Import Parse.Tokens Parse.Ast Parse.Model.
Import ListNotations.
Open Scope Z_scope.

(* (notations, so that every occurrence is the same term) *)
Notation span := (N * N)%type.
Notation stok := (token * (N * N))%type.                     (* a lexeme: (begin, Token, end) of lexer.rs *)
Notation stoks := (list (token * (N * N))).
Notation st := (list (token * (N * N)) * N)%type.            (* ParserRd: the remaining lexemes (current :: tokens), last_end *)

Definition toks_of (s : st) : toks := map fst (fst s).

(* ParserRd::pos *)
Definition pos (s : st) : N := match fst s with (_, (l, _)) :: _ => l | [] => snd s end.

(* ---------- the spanned tree ---------- *)
Inductive sexpr :=
| XId (sp : span) (n : N) | XInt (sp : span) (n : N) | XFloat (sp : span) (n : N) | XStr (sp : span) (n : N)
| XTuple (sp : span) (l : list sexpr)
| XList (sp : span) (l : list sexpr)
| XDict (sp : span) (l : list (sexpr * sexpr))
| XDot (sp : span) (e : sexpr) (nsp : span) (name : N)
| XCall (sp : span) (f : sexpr) (args : list sarg)
| XIndex (sp : span) (e i : sexpr)
| XIndex2 (sp : span) (e i j : sexpr)
| XSlice (sp : span) (e : sexpr) (a b c : option sexpr)
| XLambda (sp : span) (ps : list sparam) (body : sexpr)
| XNot (sp : span) (e : sexpr) | XMinus (sp : span) (e : sexpr) | XPlus (sp : span) (e : sexpr) | XBitNot (sp : span) (e : sexpr)
| XOp (sp : span) (l : sexpr) (op : binop) (r : sexpr)
| XIf (sp : span) (c t f : sexpr)
| XListComp (sp : span) (e : sexpr) (cs : list sclause)
| XDictComp (sp : span) (k v : sexpr) (cs : list sclause)
with sarg :=
| YPos (sp : span) (e : sexpr) | YNamed (sp : span) (nsp : span) (n : N) (e : sexpr)
| YArgs (sp : span) (e : sexpr) | YKwArgs (sp : span) (e : sexpr)
with sparam :=
| ZNormal (sp : span) (nsp : span) (n : N) (d : option sexpr) | ZNoArgs (sp : span) | ZSlash (sp : span)
| ZArgs (sp : span) (nsp : span) (n : N) | ZKwArgs (sp : span) (nsp : span) (n : N)
with sclause := WFor (target over : sexpr) | WIf (e : sexpr).

Inductive sstmt := TExpr (sp : span) (e : sexpr) | TAssign (sp : span) (lhs rhs : sexpr).

Definition sspan (e : sexpr) : span :=
  match e with
  | XId sp _ | XInt sp _ | XFloat sp _ | XStr sp _ | XTuple sp _ | XList sp _ | XDict sp _ | XDot sp _ _ _
  | XCall sp _ _ | XIndex sp _ _ | XIndex2 sp _ _ _ | XSlice sp _ _ _ _ | XLambda sp _ _ | XNot sp _ | XMinus sp _
  | XPlus sp _ | XBitNot sp _ | XOp sp _ _ _ | XIf sp _ _ _ | XListComp sp _ _ | XDictComp sp _ _ _ => sp
  end.

(* erasing the spans: the tree of Parse/Ast.v *)
Fixpoint erase (e : sexpr) : expr :=
  match e with
  | XId _ n => EId n | XInt _ n => EInt n | XFloat _ n => EFloat n | XStr _ n => EStr n
  | XTuple _ l => ETuple (map erase l)
  | XList _ l => EList (map erase l)
  | XDict _ l => EDict (map (fun kv => (erase (fst kv), erase (snd kv))) l)
  | XDot _ e _ n => EDot (erase e) n
  | XCall _ f args => ECall (erase f) (map erase_arg args)
  | XIndex _ e i => EIndex (erase e) (erase i)
  | XIndex2 _ e i j => EIndex2 (erase e) (erase i) (erase j)
  | XSlice _ e a b c => ESlice (erase e) (option_map erase a) (option_map erase b) (option_map erase c)
  | XLambda _ ps body => ELambda (map erase_param ps) (erase body)
  | XNot _ e => ENot (erase e) | XMinus _ e => EMinus (erase e) | XPlus _ e => EPlus (erase e)
  | XBitNot _ e => EBitNot (erase e)
  | XOp _ l op r => EOp (erase l) op (erase r)
  | XIf _ c t f => EIf (erase c) (erase t) (erase f)
  | XListComp _ e cs => EListComp (erase e) (map erase_clause cs)
  | XDictComp _ k v cs => EDictComp (erase k) (erase v) (map erase_clause cs)
  end
with erase_arg (a : sarg) : arg :=
  match a with
  | YPos _ e => APos (erase e) | YNamed _ _ n e => ANamed n (erase e)
  | YArgs _ e => AArgs (erase e) | YKwArgs _ e => AKwArgs (erase e)
  end
with erase_param (p : sparam) : param :=
  match p with
  | ZNormal _ _ n d => PNormal n (option_map erase d) | ZNoArgs _ => PNoArgs | ZSlash _ => PSlash
  | ZArgs _ _ n => PArgs n | ZKwArgs _ _ n => PKwArgs n
  end
with erase_clause (c : sclause) : clause :=
  match c with WFor t o => CFor (erase t) (erase o) | WIf e => CIf (erase e) end.

Definition erase_stmt (s : sstmt) : stmt :=
  match s with TExpr _ e => SExpr (erase e) | TAssign _ l r => SAssign (erase l) (erase r) end.

(* grammar_util.rs check_assign: `Spanned { span: x.span, node: ... }` -- list and tuple patterns become
   AssignTarget::Tuple, every span is kept *)
Fixpoint snorm_target (e : sexpr) : sexpr :=
  match e with
  | XTuple sp l | XList sp l => XTuple sp (map snorm_target l)
  | e => e
  end.

Definition rmap {A B} (g : A -> B) (r : res A) : res B :=
  match r with Ok a => Ok (g a) | Err c => Err c | Oof => Oof | Unmodelled => Unmodelled end.

Definition spres := res (sexpr * st).

Definition sguard (s : st) (r : spres) : spres :=
  match r with
  | Ok (e, s') => if Nat.ltb (List.length (fst s')) (List.length (fst s)) then Ok (e, s') else Err 99
  | r => r
  end.

(* ------------------------------------------------------------------------------------------- *)
Section SPratt.
  Variable c : cfg.
  Variable P : st -> spres.          (* parse_unary *)

  (* parse_expr(min_bp) and the operator loop (parse_expr / continue_infix) *)
  Fixpoint sparse_expr (n : nat) (min_bp : Z) (s : st) : spres :=
    match n with
    | O => Oof
    | S n' =>
      '(lhs, s0) <- (match fst s with
                     | (t, (l, r)) :: rest =>
                       if tok_is_not t && (min_bp <=? c_not_max c)
                       then (* let l = self.pos(); self.advance(); let e = self.parse_expr(5)?; let r = self.last_end; *)
                            '(e, s1) <- sparse_expr n' (c_not_rbp c) (rest, r) ;; Ok (XNot (l, snd s1) e, s1)
                       else P s
                     | [] => P s
                     end) ;;
      sinfix_loop n' (c_ni_l c) (c_ni_r c) min_bp lhs s0
    end
  with sinfix_loop (n : nat) (nl nr : Z) (min_bp : Z) (lhs : sexpr) (s : st) : spres :=
    match n with
    | O => Oof
    | S n' =>
      match fst s with
      | [] => Ok (lhs, s)
      | (t, (_, r)) :: rest =>
        if tok_is_not t then
          if nl <? min_bp then Ok (lhs, s)
          else match rest with
               | (t2, (_, r2)) :: rest' =>
                 if tok_is_in t2 then
                   '(rhs, s1) <- sparse_expr n' nr (rest', r2) ;;
                   if reject_chained c (toks_of s1) then Err 2
                   else (* let l = lhs.span.begin(); let r = rhs.span.end(); *)
                        sinfix_loop n' nl nr min_bp (XOp (fst (sspan lhs), snd (sspan rhs)) lhs NotIn rhs) s1
                 else Err 1
               | [] => Err 1
               end
        else
          match lookup (c_tbl c) t with
          | None => Ok (lhs, s)
          | Some (op, lb, rb) =>
            if lb <? min_bp then Ok (lhs, s)
            else '(rhs, s1) <- sparse_expr n' rb (rest, r) ;;
                 if is_cmp c op && reject_chained c (toks_of s1) then Err 2
                 else sinfix_loop n' nl nr min_bp (XOp (fst (sspan lhs), snd (sspan rhs)) lhs op rhs) s1
          end
      end
    end.

  Definition sparse_expr_top (min_bp : Z) (s : st) : spres := sparse_expr (S (List.length (fst s))) min_bp s.
  Definition scontinue_infix (min_bp : Z) (lhs : sexpr) (s : st) : spres :=
    sinfix_loop (S (List.length (fst s))) (c_nic_l c) (c_nic_r c) min_bp lhs s.
  Definition sparse_bitor_expr (s : st) : spres :=
    '(lhs, s1) <- P s ;; scontinue_infix (c_bitor c) lhs s1.
End SPratt.

(* ------------------------------------------------------------------------------------------- *)
Record srecs := {
  sr_test : st -> spres;
  sr_ortest : st -> spres;
  sr_exprlist : st -> spres;
  sr_args : st -> res (list sarg * st)
}.

Definition sctor_of_code (k : N) : option (span -> sexpr -> sexpr) :=
  match k with
  | 1%N => Some XPlus | 2%N => Some XMinus | 3%N => Some XBitNot | 4%N => Some XNot | _ => None
  end.

Section SBody.
  Variable c : cfg.
  Variable R : srecs.

  (* ParserRd::expect: the token is consumed, last_end := its end *)
  Definition sexpect (t : token) (s : st) : res st :=
    match fst s with
    | (t', (_, r)) :: rest => if token_eqb t t' then Ok (rest, r) else Err 3
    | [] => Err 3
    end.

  Fixpoint scomma_loop (n : nat) (T : st -> spres) (start : token -> bool) (acc : list sexpr) (s : st)
    : res (list sexpr * bool * st) :=
    match n with
    | O => Oof
    | S n' =>
      match fst s with
      | (TComma, (_, r)) :: rest =>
        match rest with
        | (t, _) :: _ => if start t then '(e, s') <- T (rest, r) ;; scomma_loop n' T start (e :: acc) s'
                         else Ok (rev acc, true, (rest, r))
        | [] => Ok (rev acc, true, (rest, r))
        end
      | _ => Ok (rev acc, false, s)
      end
    end.

  (* parse_test_list_tail(l, first, allow_trailing_comma): `let r = self.last_end; Expr::Tuple(items).ast(l, r)` *)
  Definition stest_list_tail (T : st -> spres) (allow : bool) (l : N) (first : sexpr) (s : st) : spres :=
    '(it, s1) <- scomma_loop (S (List.length (fst s))) T (is_test_start c) [first] s ;;
    let '(items, trailing) := it in
    match items, trailing with
    | [x], false => Ok (x, s1)
    | _, _ => if trailing && negb allow then Err 4
              else Ok (XTuple (l, snd s1) items, s1)
    end.

  (* parse_test_list: `let l = self.pos();` *)
  Definition stest_list (T : st -> spres) (allow : bool) (s : st) : spres :=
    let l := pos s in
    '(first, s1) <- T s ;;
    match fst s1 with
    | (TComma, _) :: _ => stest_list_tail T allow l first s1
    | _ => Ok (first, s1)
    end.

  (* parse_index_or_slice(expr, l): every form ends with `self.expect(ClosingSquare)?; let r = self.last_end;` *)
  Definition sslice_rest (l : N) (e : sexpr) (start : option sexpr) (s : st) : spres :=
    '(stop, s1) <- (match fst s with
                    | (TClosingSquare, _) :: _ | (TColon, _) :: _ => Ok (None, s)
                    | _ => '(x, s') <- sr_test R s ;; Ok (Some x, s')
                    end) ;;
    '(step, s2) <- (match fst s1 with
                    | (TColon, (_, r)) :: rest =>
                      match rest with
                      | (TClosingSquare, _) :: _ => Ok (None, (rest, r))
                      | _ => '(x, s') <- sr_test R (rest, r) ;; Ok (Some x, s')
                      end
                    | _ => Ok (None, s1)
                    end) ;;
    s3 <- sexpect TClosingSquare s2 ;;
    Ok (XSlice (l, snd s3) e start stop step, s3).

  Definition sindex_or_slice (l : N) (e : sexpr) (s : st) : spres :=
    match fst s with
    | (TColon, (_, r)) :: rest => sslice_rest l e None (rest, r)
    | _ =>
      '(first, s1) <- sr_test R s ;;
      match fst s1 with
      | (TColon, (_, r)) :: rest => sslice_rest l e (Some first) (rest, r)
      | (TComma, (_, r)) :: rest =>
        '(second, s2) <- sr_test R (rest, r) ;;
        s3 <- sexpect TClosingSquare s2 ;; Ok (XIndex2 (l, snd s3) e first second, s3)
      | _ => s2 <- sexpect TClosingSquare s1 ;; Ok (XIndex (l, snd s2) e first, s2)
      end
    end.

  (* the suffix loop of parse_primary = continue_primary: `let l = lhs.span.begin(); ...; let r = self.last_end;` *)
  Fixpoint ssuffix_loop (n : nat) (lhs : sexpr) (s : st) : spres :=
    match n with
    | O => Oof
    | S n' =>
      match fst s with
      | (TDot, (_, r)) :: rest =>
        match rest with
        | (TIdentifier k, (il, ir)) :: rest' =>      (* parse_identifier_string: s.ast(l, r) of the token *)
          ssuffix_loop n' (XDot (fst (sspan lhs), ir) lhs (il, ir) k) (rest', ir)
        | _ => Err 5
        end
      | (TOpeningRound, (_, r)) :: rest =>
        '(args, s1) <- sr_args R (rest, r) ;;
        s2 <- sexpect TClosingRound s1 ;;
        if check_args 0 [] (map erase_arg args)
        then ssuffix_loop n' (XCall (fst (sspan lhs), snd s2) lhs args) s2 else Err 6
      | (TOpeningSquare, (_, r)) :: rest =>
        '(e, s1) <- sindex_or_slice (fst (sspan lhs)) lhs (rest, r) ;; ssuffix_loop n' e s1
      | _ => Ok (lhs, s)
      end
    end.
  Definition scontinue_primary (lhs : sexpr) (s : st) : spres := ssuffix_loop (S (List.length (fst s))) lhs s.

  (* parse_for_clause / parse_comp_clauses (ForClause { var, over }: no span of its own) *)
  Definition sfor_clause (s : st) : res (sclause * st) :=
    s0 <- sexpect TFor s ;;
    '(var, s1) <- sr_exprlist R s0 ;;
    s2 <- sexpect TIn s1 ;;
    '(over, s3) <- sr_ortest R s2 ;;
    if check_assign (erase var) then Ok (WFor (snorm_target var) over, s3) else Err 7.

  Fixpoint sclause_loop (n : nat) (acc : list sclause) (s : st) : res (list sclause * st) :=
    match n with
    | O => Oof
    | S n' =>
      match fst s with
      | (TFor, _) :: _ => '(cl, s1) <- sfor_clause s ;; sclause_loop n' (cl :: acc) s1
      | (TIf, (_, r)) :: rest => '(e, s1) <- sr_ortest R (rest, r) ;; sclause_loop n' (WIf e :: acc) s1
      | _ => Ok (rev acc, s)
      end
    end.
  Definition scomp_clauses (s : st) : res (list sclause * st) :=
    '(f, s1) <- sfor_clause s ;; sclause_loop (S (List.length (fst s1))) [f] s1.

  Fixpoint sitems_loop {A} (n : nat) (item : st -> res (A * st)) (close : token) (acc : list A) (s : st)
    : res (list A * st) :=
    match n with
    | O => Oof
    | S n' =>
      match fst s with
      | (TComma, (_, r)) :: rest =>
        match rest with
        | (t, _) :: _ => if token_eqb t close then Ok (rev acc, (rest, r))
                         else '(x, s') <- item (rest, r) ;; sitems_loop n' item close (x :: acc) s'
        | [] => '(x, s') <- item (rest, r) ;; sitems_loop n' item close (x :: acc) s'
        end
      | _ => Ok (rev acc, s)
      end
    end.

  (* parse_list_or_comprehension; s follows `[`, l = pos() at the `[` *)
  Definition slist_or_comp (l : N) (s : st) : spres :=
    match fst s with
    | (TClosingSquare, (_, r)) :: rest => Ok (XList (l, r) [], (rest, r))
    | _ =>
      '(first, s1) <- sr_test R s ;;
      match fst s1 with
      | (TFor, _) :: _ =>
        '(cs, s2) <- scomp_clauses s1 ;; s3 <- sexpect TClosingSquare s2 ;; Ok (XListComp (l, snd s3) first cs, s3)
      | _ =>
        '(items, s2) <- sitems_loop (S (List.length (fst s1))) (sr_test R) TClosingSquare [first] s1 ;;
        s3 <- sexpect TClosingSquare s2 ;; Ok (XList (l, snd s3) items, s3)
      end
    end.

  Definition sdict_entry (s : st) : res (sexpr * sexpr * st) :=
    '(k, s1) <- sr_test R s ;; s2 <- sexpect TColon s1 ;; '(v, s3) <- sr_test R s2 ;; Ok (k, v, s3).

  (* parse_dict_or_comprehension; s follows `{` *)
  Definition sdict_or_comp (l : N) (s : st) : spres :=
    match fst s with
    | (TClosingCurly, (_, r)) :: rest => Ok (XDict (l, r) [], (rest, r))
    | _ =>
      '(kv, s1) <- sdict_entry s ;;
      match fst s1 with
      | (TFor, _) :: _ =>
        '(cs, s2) <- scomp_clauses s1 ;; s3 <- sexpect TClosingCurly s2 ;;
        Ok (XDictComp (l, snd s3) (fst kv) (snd kv) cs, s3)
      | _ =>
        '(items, s2) <- sitems_loop (S (List.length (fst s1))) sdict_entry TClosingCurly [kv] s1 ;;
        s3 <- sexpect TClosingCurly s2 ;; Ok (XDict (l, snd s3) items, s3)
      end
    end.

  (* parse_atom *)
  Definition sparse_atom (s : st) : spres :=
    match fst s with
    | (TIdentifier n, (l, r)) :: rest => Ok (XId (l, r) n, (rest, r))
    | (TInt n, (l, r)) :: rest => Ok (XInt (l, r) n, (rest, r))
    | (TFloat n, (l, r)) :: rest => Ok (XFloat (l, r) n, (rest, r))
    | (TString n, (l, r)) :: rest => Ok (XStr (l, r) n, (rest, r))
    | (TOpeningRound, (l, r)) :: rest =>
      match rest with
      | (TClosingRound, (_, r')) :: rest' => Ok (XTuple (l, r') [], (rest', r'))
      | _ => (* `let expr = self.parse_test_list(true)?; self.expect(ClosingRound)?; Ok(expr)`: the span of expr *)
             '(e, s1) <- stest_list (sr_test R) true (rest, r) ;; s2 <- sexpect TClosingRound s1 ;; Ok (e, s2)
      end
    | (TOpeningSquare, (l, r)) :: rest => slist_or_comp l (rest, r)
    | (TOpeningCurly, (l, r)) :: rest => sdict_or_comp l (rest, r)
    | _ => Err 10
    end.

  Definition sparse_primary (s : st) : spres :=
    '(a, s1) <- sparse_atom s ;; scontinue_primary a s1.

  (* parse_unary: `let l = self.pos(); self.advance(); let e = self.parse_unary()?; let r = self.last_end;` *)
  Definition sunary_ctor (t : token) : option (span -> sexpr -> sexpr) := sctor_of_code (unary_code c t).
  Fixpoint sunary_loop (n : nat) (s : st) : spres :=
    match n with
    | O => Oof
    | S n' =>
      match fst s with
      | (t, (l, r)) :: rest =>
        match sunary_ctor t with
        | Some k => '(e, s1) <- sunary_loop n' (rest, r) ;; Ok (k (l, snd s1) e, s1)
        | None => sparse_primary s
        end
      | [] => sparse_primary s
      end
    end.
  Definition sparse_unary (s : st) : spres := sguard s (sunary_loop (S (List.length (fst s))) s).

  (* continue_ternary: `let l = expr.span.begin(); ...; let r = self.last_end;` *)
  Definition scontinue_ternary (e : sexpr) (s : st) : spres :=
    match fst s with
    | (TIf, (_, r)) :: rest =>
      '(cond, s1) <- sr_ortest R (rest, r) ;;
      s2 <- sexpect TElse s1 ;;
      '(f, s3) <- sr_test R s2 ;;
      Ok (XIf (fst (sspan e), snd s3) cond e f, s3)
    | _ => Ok (e, s)
    end.

  (* parse_lambda_param: `let l = self.pos(); ...; let r = self.last_end;` (after the default, when there is one) *)
  Definition slambda_param (s : st) : res (sparam * st) :=
    match fst s with
    | (TSlash, (l, r)) :: rest => Ok (ZSlash (l, r), (rest, r))
    | (TStarStar, (l, r)) :: rest =>
      match rest with (TIdentifier n, (il, ir)) :: rest' => Ok (ZKwArgs (l, ir) (il, ir) n, (rest', ir)) | _ => Err 11 end
    | (TStar, (l, r)) :: rest =>
      match rest with
      | (TIdentifier n, (il, ir)) :: rest' => Ok (ZArgs (l, ir) (il, ir) n, (rest', ir))
      | _ => Ok (ZNoArgs (l, r), (rest, r))
      end
    | (TIdentifier n, (l, r)) :: rest =>
      match rest with
      | (TEqual, (_, er)) :: rest' =>
        '(d, s1) <- sr_test R (rest', er) ;; Ok (ZNormal (l, snd s1) (l, r) n (Some d), s1)
      | _ => Ok (ZNormal (l, r) (l, r) n None, (rest, r))
      end
    | _ => Err 11
    end.
  Fixpoint sparams_loop (n : nat) (acc : list sparam) (s : st) : res (list sparam * st) :=
    match n with
    | O => Oof
    | S n' =>
      '(p, s1) <- slambda_param s ;;
      match fst s1 with
      | (TComma, (_, r)) :: rest =>
        match rest with
        | (TColon, _) :: _ => Ok (rev (p :: acc), (rest, r))
        | _ => sparams_loop n' (p :: acc) (rest, r)
        end
      | _ => Ok (rev (p :: acc), s1)
      end
    end.
  Definition slambda_params (s : st) : res (list sparam * st) :=
    match fst s with
    | (TColon, _) :: _ => Ok ([], s)
    | _ => sparams_loop (S (List.length (fst s))) [] s
    end.
  (* parse_lambda; s follows `lambda`, l = pos() at the `lambda` *)
  Definition sparse_lambda (l : N) (s : st) : spres :=
    '(ps, s1) <- slambda_params s ;;
    s2 <- sexpect TColon s1 ;;
    '(body, s3) <- sr_test R s2 ;;
    if check_params (map erase_param ps) then Ok (XLambda (l, snd s3) ps body, s3) else Err 12.

  Definition sparse_test (s : st) : spres :=
    match fst s with
    | (TLambda, (l, r)) :: rest => sparse_lambda l (rest, r)
    | _ => '(e, s1) <- sparse_expr_top c sparse_unary (c_test c) s ;; scontinue_ternary e s1
    end.
  Definition sparse_or_test (s : st) : spres := sparse_expr_top c sparse_unary (c_ortest c) s.

  (* parse_expr_list: `let l = self.pos(); ...; let r = self.last_end; Expr::Tuple(items).ast(l, r)` *)
  Definition sparse_expr_list (s : st) : spres :=
    let l := pos s in
    '(first, s1) <- sparse_bitor_expr c sparse_unary s ;;
    match fst s1 with
    | (TComma, _) :: _ =>
      '(it, s2) <- scomma_loop (S (List.length (fst s1))) (sparse_bitor_expr c sparse_unary) (is_expr_start c) [first] s1 ;;
      let '(items, trailing) := it in
      match items, trailing with
      | [x], false => Ok (x, s2)
      | _, _ => if trailing then Err 4 else Ok (XTuple (l, snd s2) items, s2)
      end
    | _ => Ok (first, s1)
    end.

  (* parse_argument: `let l = self.pos(); ...; let r = self.last_end;` *)
  Definition sparse_argument (s : st) : res (sarg * st) :=
    match fst s with
    | (TStarStar, (l, r)) :: rest => '(e, s1) <- sparse_test (rest, r) ;; Ok (YKwArgs (l, snd s1) e, s1)
    | (TStar, (l, r)) :: rest => '(e, s1) <- sparse_test (rest, r) ;; Ok (YArgs (l, snd s1) e, s1)
    | (TIdentifier k, (l, r)) :: rest =>
      match rest with
      | (TEqual, (_, er)) :: rest' => '(e, s1) <- sparse_test (rest', er) ;; Ok (YNamed (l, snd s1) (l, r) k e, s1)
      | _ =>
        (* the identifier is already consumed: continue_primary, continue_infix(0), continue_ternary *)
        '(e1, s1) <- scontinue_primary (XId (l, r) k) (rest, r) ;;
        if Nat.leb (List.length (fst s1)) (List.length rest) then
          '(e2, s2) <- scontinue_infix c sparse_unary (c_arg c) e1 s1 ;;
          '(e3, s3) <- scontinue_ternary e2 s2 ;;
          Ok (YPos (l, snd s3) e3, s3)
        else Err 99
      end
    | _ => let l := pos s in '(e, s1) <- sparse_test s ;; Ok (YPos (l, snd s1) e, s1)
    end.

  Fixpoint sargs_loop (n : nat) (acc : list sarg) (s : st) : res (list sarg * st) :=
    match n with
    | O => Oof
    | S n' =>
      '(a, s1) <- sparse_argument s ;;
      match fst s1 with
      | (TComma, (_, r)) :: rest =>
        match rest with
        | (TClosingRound, _) :: _ => Ok (rev (a :: acc), (rest, r))
        | _ => sargs_loop n' (a :: acc) (rest, r)
        end
      | _ => Ok (rev (a :: acc), s1)
      end
    end.
  Definition sparse_args (s : st) : res (list sarg * st) :=
    match fst s with
    | (TClosingRound, _) :: _ => Ok ([], s)
    | _ => sargs_loop (S (List.length (fst s))) [] s
    end.

  (* parse_assign_or_expr_stmt on a one-line module: `let l = self.pos(); ...; let r = self.last_end; stmt.ast(l, r)` *)
  Definition sparse_top (strict : bool) (s : st) : res sstmt :=
    let l := pos s in
    '(first, s0) <- sparse_test s ;;
    let is_list := match fst s0 with (TComma, _) :: _ => true | _ => false end in
    '(lhs, s1) <- (if is_list then stest_list_tail sparse_test false l first s0 else Ok (first, s0)) ;;
    match fst s1 with
    | [] => if is_list && strict then Err 15 else Ok (TExpr (l, snd s1) lhs)
    | (TColon, _) :: _ => Unmodelled
    | (TOther _, _) :: _ => Unmodelled
    | (TEqual, (_, r)) :: rest =>
      '(rhs, s2) <- stest_list sparse_test false (rest, r) ;;
      match fst s2 with
      | [] => if check_assign (erase lhs) then Ok (TAssign (l, snd s2) (snorm_target lhs) rhs) else Err 13
      | _ => Err 14
      end
    | _ => Err 14
    end.

  Definition slevel : srecs :=
    {| sr_test := sparse_test; sr_ortest := sparse_or_test; sr_exprlist := sparse_expr_list; sr_args := sparse_args |}.
End SBody.

Definition soof_recs : srecs :=
  {| sr_test := fun _ => Oof; sr_ortest := fun _ => Oof; sr_exprlist := fun _ => Oof; sr_args := fun _ => Oof |}.

Fixpoint sgo (c : cfg) (fuel : nat) : srecs :=
  match fuel with
  | O => soof_recs
  | S f => slevel c (sgo c f)
  end.

(* the span-tracking model of the real parser; `ParserRd::new`: last_end = 0 *)
Definition sparse_test_m (c : cfg) (fuel : nat) : st -> spres := sr_test (sgo c fuel).
Definition sparse (c : cfg) (fuel : nat) (ts : stoks) : res sstmt := sparse_top c (sgo c fuel) true (ts, 0%N).

(* ------------------------------------------------------------------------------------------- *)
(* vocabulary of the span theorems *)

(* the spanned tree as a generic tree of spans: one node per spanned AST node, children in SOURCE order; a leaf
   (identifier / literal, also the identifier after `.`, a parameter name, the name of a named argument) remembers its
   token *)
Inductive rt := RT (sp : span) (leaf : option token) (kids : list rt).
Definition rsp (t : rt) : span := match t with RT sp _ _ => sp end.
Definition rleaf (t : token) (sp : span) : rt := RT sp (Some t) [].
Definition okid {A} (f : A -> rt) (o : option A) : list rt := match o with Some e => [f e] | None => [] end.

Fixpoint tree_of (e : sexpr) : rt :=
  match e with
  | XId sp n => rleaf (TIdentifier n) sp
  | XInt sp n => rleaf (TInt n) sp
  | XFloat sp n => rleaf (TFloat n) sp
  | XStr sp n => rleaf (TString n) sp
  | XTuple sp l => RT sp None (map tree_of l)
  | XList sp l => RT sp None (map tree_of l)
  | XDict sp l => RT sp None (flat_map (fun kv => [tree_of (fst kv); tree_of (snd kv)]) l)
  | XDot sp e nsp n => RT sp None [tree_of e; rleaf (TIdentifier n) nsp]
  | XCall sp f args => RT sp None (tree_of f :: map tree_of_arg args)
  | XIndex sp e i => RT sp None [tree_of e; tree_of i]
  | XIndex2 sp e i j => RT sp None [tree_of e; tree_of i; tree_of j]
  | XSlice sp e a b c => RT sp None (tree_of e :: okid tree_of a ++ okid tree_of b ++ okid tree_of c)
  | XLambda sp ps body => RT sp None (map tree_of_param ps ++ [tree_of body])
  | XNot sp e | XMinus sp e | XPlus sp e | XBitNot sp e => RT sp None [tree_of e]
  | XOp sp l _ r => RT sp None [tree_of l; tree_of r]
  | XIf sp c t f => RT sp None [tree_of t; tree_of c; tree_of f]
  | XListComp sp e cs => RT sp None (tree_of e :: flat_map kids_of_clause cs)
  | XDictComp sp k v cs => RT sp None (tree_of k :: tree_of v :: flat_map kids_of_clause cs)
  end
with tree_of_arg (a : sarg) : rt :=
  match a with
  | YPos sp e | YArgs sp e | YKwArgs sp e => RT sp None [tree_of e]
  | YNamed sp nsp n e => RT sp None [rleaf (TIdentifier n) nsp; tree_of e]
  end
with tree_of_param (p : sparam) : rt :=
  match p with
  | ZNormal sp nsp n d => RT sp None (rleaf (TIdentifier n) nsp :: okid tree_of d)
  | ZNoArgs sp | ZSlash sp => RT sp None []
  | ZArgs sp nsp n | ZKwArgs sp nsp n => RT sp None [rleaf (TIdentifier n) nsp]
  end
with kids_of_clause (c : sclause) : list rt :=
  match c with WFor t o => [tree_of t; tree_of o] | WIf e => [tree_of e] end.

Definition tree_of_stmt (s : sstmt) : rt :=
  match s with
  | TExpr sp e => RT sp None [tree_of e]
  | TAssign sp l r => RT sp None [tree_of l; tree_of r]
  end.

Open Scope N_scope.
Open Scope list_scope.

(* (begin of the first lexeme, end of the last lexeme) of a run of lexemes *)
Definition first_begin (ts : stoks) : N := match ts with (_, (l, _)) :: _ => l | [] => 0 end.
Fixpoint end_last (p : N) (ts : stoks) : N := match ts with [] => p | (_, (_, r)) :: t => end_last r t end.
Definition seg_span (ts : stoks) : span := (first_begin ts, end_last 0 ts).

Definition is_open (t : stok) : Prop := fst t = TOpeningRound.
Definition is_close (t : stok) : Prop := fst t = TClosingRound.

(* `lay core t`: the node t was built over the run of lexemes `core`:
   - a leaf is exactly one lexeme: its token, and the span of that lexeme;
   - an inner node has the span (begin of the first lexeme of core, end of the last lexeme of core), and its children
     were built, in order, over disjoint consecutive sub-runs of core. *)
Inductive lay : stoks -> rt -> Prop :=
| lay_leaf : forall tok sp, lay [(tok, sp)] (RT sp (Some tok) [])
| lay_node : forall core kids, core <> [] -> kids_lay core kids -> lay core (RT (seg_span core) None kids)
with kids_lay : stoks -> list rt -> Prop :=
| kl_nil : forall c, kids_lay c []
| kl_cons : forall a c rest k ks, lay c k -> kids_lay rest ks -> kids_lay (a ++ c ++ rest) (k :: ks).

(* what a parser function that consumed the lexemes `cons` and returned the node t guarantees: up to enclosing
   parentheses (which parse_atom drops from the span), t is laid out over everything consumed *)
Definition covers (cons : stoks) (t : rt) : Prop :=
  exists pre core post, cons = pre ++ core ++ post /\ Forall is_open pre /\ Forall is_close post /\ lay core t.

(* lexeme spans as C05_lexer_tokens_mono provides them (Span/Model.v: mono) *)
Definition spans_of (ts : stoks) : list (N * N) := map snd ts.

(* numeric well-formedness of a span tree against the file length and the lexemes: every node is ordered and inside
   the file, every child lies inside its parent, consecutive children do not overlap, a leaf has exactly the span of
   a lexeme carrying its token *)
Fixpoint kids_ordered (ks : list rt) : Prop :=
  match ks with
  | k1 :: ((k2 :: _) as r) => snd (rsp k1) <= fst (rsp k2) /\ kids_ordered r
  | _ => True
  end.

Inductive wf (len : N) (ts : stoks) : rt -> Prop :=
| wf_node : forall l r leaf kids,
    l <= r -> r <= len ->
    (forall tok, leaf = Some tok -> List.In (tok, (l, r)) ts /\ kids = []) ->
    Forall (fun k => l <= fst (rsp k) /\ snd (rsp k) <= r) kids ->
    kids_ordered kids ->
    Forall (wf len ts) kids ->
    wf len ts (RT (l, r) leaf kids).
