(* The function bodies translated from /repo's sources on this run (Extracted/Rs*.v) are equal, for all inputs, to
   the hand-written models the property theorems are stated about (DESIGN 10.6).  One proof file per property so
   that a source file the translator can no longer read concerns only the property stated about it. *)
From Coq Require Import ZArith Bool List Lia.
From SV Require Import Extracted.IntC Int.Model Rs.Prelude Rs.Common.
From SV Require Import Extracted.RsSpan.
Open Scope Z_scope.

(* ---- starlark_syntax/src/codemap.rs: the span algebra the parser builds every node span with ---------------- *)
Definition span_wf (s : span) : Prop := f_begin s <= f_end s.

Lemma contains_iff s p : rs_span_contains s p = true <-> f_begin s <= p <= f_end s.
Proof. unfold rs_span_contains. normZ. rewrite andb_true_iff, !Z.leb_le. tauto. Qed.

Theorem span_merge_spec a b :
  f_begin (rs_span_merge a b) = Z.min (f_begin a) (f_begin b) /\
  f_end (rs_span_merge a b) = Z.max (f_end a) (f_end b) /\
  (span_wf a -> span_wf b -> span_wf (rs_span_merge a b)) /\
  (forall p, rs_span_contains a p = true \/ rs_span_contains b p = true -> rs_span_contains (rs_span_merge a b) p = true).
Proof.
  unfold rs_span_merge, cmp_min, cmp_max, span_wf. cbn [f_begin f_end]. repeat split; try lia.
  intros p H. rewrite contains_iff. cbn [f_begin f_end]. rewrite !contains_iff in H. lia.
Qed.

Theorem span_merge_algebra a b c :
  rs_span_merge a b = rs_span_merge b a /\
  rs_span_merge (rs_span_merge a b) c = rs_span_merge a (rs_span_merge b c) /\
  rs_span_merge a a = a.
Proof.
  unfold rs_span_merge, cmp_min, cmp_max. cbn [f_begin f_end]. destruct a as [a1 a2]. cbn [f_begin f_end]. repeat split.
  - f_equal; lia.
  - f_equal; lia.
  - f_equal; lia.
Qed.

Theorem span_intersects_spec a b : span_wf a -> span_wf b ->
  (rs_span_intersects a b = true <-> exists p, rs_span_contains a p = true /\ rs_span_contains b p = true) /\
  rs_span_intersects a b = rs_span_intersects b a.
Proof.
  unfold span_wf. intros Wa Wb.
  assert (E : forall x y, span_wf x -> span_wf y ->
    (rs_span_intersects x y = true <-> f_begin x <= f_end y /\ f_begin y <= f_end x)).
  { intros x y Wx Wy. unfold span_wf in *. unfold rs_span_intersects. rewrite !orb_true_iff, !contains_iff. lia. }
  split.
  - rewrite (E a b Wa Wb). split.
    + intros [H1 H2]. exists (Z.max (f_begin a) (f_begin b)). rewrite !contains_iff. lia.
    + intros [p [H1 H2]]. rewrite contains_iff in H1, H2. lia.
  - destruct (rs_span_intersects a b) eqn:X, (rs_span_intersects b a) eqn:Y; try reflexivity.
    + apply (E a b Wa Wb) in X. assert (rs_span_intersects b a = true) by (apply (E b a Wb Wa); lia). congruence.
    + apply (E b a Wb Wa) in Y. assert (rs_span_intersects a b = true) by (apply (E a b Wa Wb); lia). congruence.
Qed.

Theorem span_end_span_spec a : span_wf a ->
  span_wf (rs_span_end_span a) /\ rs_span_contains a (f_begin (rs_span_end_span a)) = true /\
  f_begin (rs_span_end_span a) = f_end a /\ f_end (rs_span_end_span a) = f_end a.
Proof. unfold span_wf, rs_span_end_span. cbn [f_begin f_end]. intros W. rewrite contains_iff. repeat split; lia. Qed.

