(* The function bodies translated from /repo's sources on this run (Extracted/Rs*.v) are equal, for all inputs, to
   the hand-written models the property theorems are stated about (DESIGN 10.6).  One proof file per property so
   that a source file the translator can no longer read concerns only the property stated about it. *)
From Coq Require Import ZArith Bool List Lia.
From SV Require Import Rs.Prelude.
From SV Require Eq.Model.
From SV Require Import Extracted.RsMix Extracted.RsHash.
Open Scope Z_scope.

(* ---- starlark_map: hash_value.rs, mix_u32.rs ------------------------------------------------------ *)
Theorem rs_hash_64_eq h : rs_hash_64 h = SV.Eq.Model.fmix64_32 h.
Proof. reflexivity. Qed.

Theorem rs_mix_u32_eq n : 0 <= n < 2 ^ 32 -> rs_mix_u32 n = (n * 11400714819323198485) mod 2 ^ 64.
Proof.
  intros H. unfold rs_mix_u32, m_wrapping_mul, cast_u64, wrap_unsigned.
  rewrite (Z.mod_small n) by (change (2 ^ 64) with 18446744073709551616; change (2 ^ 32) with 4294967296 in H; lia).
  reflexivity.
Qed.

Theorem rs_promote_eq h : rs_promote h = rs_mix_u32 h.
Proof. reflexivity. Qed.

