(* The function bodies translated from /repo's sources on this run (Extracted/Rs*.v) are equal, for all
   inputs, to the hand-written models the property theorems are stated about.  A source change that alters
   what one of these functions computes breaks the corresponding proof here (a broken proof obligation);
   a harmless rewrite that the translator still understands either keeps these proofs or needs them redone. *)
From Coq Require Import ZArith Bool List Lia Setoid Morphisms.
Import ListNotations.
From SV Require Import Extracted.IntC Int.Model Int.Proofs Rs.Prelude.
From SV Require Core.Slice Eq.Model.
From SV Require Import Extracted.RsInline Extracted.RsBig Extracted.RsInt Extracted.RsIndex Extracted.RsConv Extracted.RsMix
  Extracted.RsHash Extracted.RsRange Extracted.RsSpan.
From SV Require Core.Values.
Open Scope Z_scope.

Lemma in_inline_i32 z : in_inline z = true -> in_i32 z = true.
Proof. unfold in_inline. intros H. apply andb_true_iff in H. tauto. Qed.

Lemma checked_alt z : checked z = if in_i32 z then (if in_inline z then Some z else None) else None.
Proof. unfold checked. destruct (in_i32 z); reflexivity. Qed.

Lemma try_ok z : m_ok (InlineInt_try_from z) = if in_inline z then Some z else None.
Proof. unfold InlineInt_try_from. destruct (in_inline z); reflexivity. Qed.

Ltac chk := unfold m_and_then, chk32; rewrite ?checked_alt;
  repeat match goal with |- context [in_i32 ?z] => destruct (in_i32 z) eqn:? end; rewrite ?try_ok; try reflexivity.

(* ---- inline_int.rs ------------------------------------------------------------------------------ *)
Theorem rs_checked_add_eq a b : rs_II_checked_add a b = checked (a + b).
Proof. unfold rs_II_checked_add, m_checked_add. chk. Qed.
Theorem rs_checked_sub_eq a b : rs_II_checked_sub a b = checked (a - b).
Proof. unfold rs_II_checked_sub, rs_II_checked_sub_i32, m_checked_sub. chk. Qed.
Theorem rs_checked_sub_i32_eq a b : rs_II_checked_sub_i32 a b = checked (a - b).
Proof. unfold rs_II_checked_sub_i32, m_checked_sub. chk. Qed.
Theorem rs_checked_neg_eq a : rs_II_checked_neg a = checked (- a).
Proof. unfold rs_II_checked_neg, m_checked_neg. chk. Qed.
Theorem rs_checked_mul_i32_eq a b : rs_II_checked_mul_i32 a b = checked (a * b).
Proof. unfold rs_II_checked_mul_i32, m_checked_mul. chk. Qed.
Theorem rs_checked_div_eq a b : rs_II_checked_div a b = checked_div a b.
Proof. unfold rs_II_checked_div, m_checked_div, checked_div. destruct (b =? 0); [reflexivity|]. chk. Qed.
Theorem rs_checked_shr_eq a n : rs_II_checked_shr a n = checked_shr a n.
Proof.
  unfold rs_II_checked_shr, m_checked_shr, checked_shr. destruct (32 <=? n); [reflexivity|].
  unfold m_and_then. rewrite try_ok, checked_alt.
  destruct (in_inline (Z.shiftr a n)) eqn:E.
  - rewrite (in_inline_i32 _ E). reflexivity.
  - destruct (in_i32 _); reflexivity.
Qed.

Lemma cast_i64_id a : in_i32 a = true -> cast_i64 a = a.
Proof.
  unfold in_i32, i32min, i32max, cast_i64, wrap_signed. intros H.
  apply andb_true_iff in H. destruct H as [H1 H2]. apply Z.leb_le in H1. apply Z.leb_le in H2.
  change (2 ^ (64 - 1)) with 9223372036854775808. change (2 ^ 64) with 18446744073709551616.
  rewrite Z.mod_small by lia. lia.
Qed.

Theorem rs_checked_shl_eq a n : in_i32 a = true -> rs_II_checked_shl a n = checked_shl a n.
Proof.
  intros Ha. unfold rs_II_checked_shl, checked_shl, rs_geb, rs_cmpz, rsord_Z, rs_shl.
  rewrite (cast_i64_id _ Ha), try_ok.
  destruct (Z.leb_spec 32 n) as [H|H]; destruct (Z.compare_spec n 32); try lia; reflexivity.
Qed.

Theorem rs_min_max_for_bits_eq : rs_II_min_max_for_bits InlineInt_BITS = (imin, imax).
Proof. vm_compute. reflexivity. Qed.

Theorem rs_II_abs_eq a : rs_II_abs a = abs (Small a).
Proof. unfold rs_II_abs, m_checked_abs, chk32, abs, StarlarkInt_from, m_abs, rs_II_to_bigint, BigInt_from.
  destruct (in_i32 (Z.abs a)); reflexivity. Qed.

Theorem rs_II_signum_eq a : rs_II_signum a = Z.sgn a.
Proof. reflexivity. Qed.

(* ---- int_or_big.rs ------------------------------------------------------------------------------- *)
Definition err_kind (e : rerr) : err :=
  match e with
  | E_FloorDivisionByZero _ _ => FloorDivisionByZero
  | E_ModuloByZero _ _ => ModuloByZero
  | E_LeftShiftOverflow => LeftShiftOverflow
  | E_LeftShiftNegative => LeftShiftNegative
  | E_RightShiftNegative => RightShiftNegative
  | _ => Unreachable
  end.
Definition to_res (r : rres rep) : res := match r with ROk a => Ok a | RErr e => Err (err_kind e) end.

Lemma sgn_sign a : rs_signum_big a = Z.sgn a.
Proof. destruct a; reflexivity. Qed.

Lemma sign_neb a b : rs_neb (m_sign a) (m_sign b) = negb (Z.sgn a =? Z.sgn b).
Proof. destruct a, b; reflexivity. Qed.

Lemma ltb0 (z : Z) : rs_ltb z 0 = (z <? 0).
Proof. unfold rs_ltb, rs_cmpz, rsord_Z, Z.ltb. destruct (z ?= 0); reflexivity. Qed.

Theorem rs_floor_div_big_eq a b : to_res (rs_floor_div_big_big a b) = floor_div_big a b.
Proof.
  unfold rs_floor_div_big_big, floor_div_big, m_is_zero, m_not, rs_mul, rsmul_Z, rs_rem, rs_div, rs_sub, m_into,
    StarlarkInt_from. rewrite !sgn_sign, ltb0.
  destruct (b =? 0); reflexivity.
Qed.

Theorem rs_floor_div_small_eq a b : to_res (rs_floor_div_small_small a b) = floor_div_small a b.
Proof.
  unfold rs_floor_div_small_small, floor_div_small. unfold rs_eqb at 1. unfold rseq_Z.
  destruct (b =? 0); [reflexivity|].
  rewrite rs_checked_div_eq. unfold rs_II_signum, m_signum, rs_mul, rsmul_Z, rs_rem, rs_neb, rs_eqb, rseq_Z.
  rewrite ltb0. destruct (checked_div a b) as [d|].
  - rewrite rs_checked_sub_i32_eq. unfold m_ok_or_else. destruct (checked _); reflexivity.
  - unfold rs_II_to_bigint, BigInt_from. apply rs_floor_div_big_eq.
Qed.

Theorem rs_floor_div_eq a b : to_res (rs_floor_div a b) = floor_div a b.
Proof.
  destruct a as [x|x], b as [y|y]; unfold rs_floor_div, floor_div, m_get, rs_II_to_bigint, BigInt_from;
    cbn [den]; first [apply rs_floor_div_small_eq | apply rs_floor_div_big_eq].
Qed.

Definition to_res_z (r : rres Z) : res := match r with ROk a => Ok (Small a) | RErr e => Err (err_kind e) end.

Theorem rs_percent_small_eq a b : to_res_z (rs_percent_small a b) = percent_small a b.
Proof.
  unfold rs_percent_small, percent_small, rs_neb, rs_eqb, rseq_Z, rs_rem, rs_neg, rs_II_signum, m_signum,
    InlineInt_ZERO, i32_MIN, i32min.
  destruct (b =? 0); [reflexivity|].
  change (- (1)) with (-1).
  destruct ((a =? -2147483648) && (b =? -1)); [reflexivity|].
  destruct (Z.rem a b =? 0); [reflexivity|].
  destruct (negb (Z.sgn b =? Z.sgn (Z.rem a b))); [|reflexivity].
  rewrite rs_checked_add_eq. unfold m_ok_or_else. destruct (checked _); reflexivity.
Qed.

Theorem rs_percent_big_eq a b : to_res (rs_percent_big a b) = percent_big a b.
Proof.
  unfold rs_percent_big, percent_big, m_is_zero, rs_rem, rs_add, StarlarkInt_from, InlineInt_ZERO.
  destruct (b =? 0); [reflexivity|]. destruct (Z.rem a b =? 0); [reflexivity|].
  rewrite sign_neb. reflexivity.
Qed.

Theorem rs_percent_eq a b : to_res (rs_percent a b) = percent a b.
Proof.
  destruct a as [x|x], b as [y|y]; unfold rs_percent, percent, m_get, rs_II_to_bigint, BigInt_from; cbn [den];
    try apply rs_percent_big_eq.
  rewrite <- rs_percent_small_eq. destruct (rs_percent_small x y); reflexivity.
Qed.

Lemma rs_is_negative_eq a : rs_is_negative a = is_negative a.
Proof. destruct a; unfold rs_is_negative, is_negative, m_is_negative, m_get; cbn [den]; [apply ltb0|reflexivity]. Qed.
Lemma rs_is_zero_eq a : rs_is_zero a = is_zero a.
Proof. destruct a; reflexivity. Qed.
Lemma rs_to_owned_eq a : rs_SIR_to_owned a = a.
Proof. destruct a; reflexivity. Qed.
Lemma rs_to_big_eq a : rs_SIR_to_big a = den a.
Proof. destruct a; reflexivity. Qed.
Lemma rs_to_u32_eq b : rs_II_to_u32 b = if 0 <=? b then Some b else None.
Proof. unfold rs_II_to_u32, u32_try_from. destruct (0 <=? b); reflexivity. Qed.
Lemma rs_to_u64_eq b : rs_II_to_u64 b = if 0 <=? b then Some b else None.
Proof. unfold rs_II_to_u64, u64_try_from. destruct (0 <=? b); reflexivity. Qed.

Lemma gtb_rep (a : rep) z : rs_gtb a z = (z <? den a).
Proof. unfold rs_gtb, rs_cmpz, rsord_rep. rewrite Z.ltb_antisym, Z.leb_compare. destruct (den a ?= z); reflexivity. Qed.

Theorem rs_left_shift_eq a b : wf a -> wf b -> to_res (rs_left_shift a b) = left_shift a b.
Proof.
  intros Wa Wb. unfold rs_left_shift, left_shift.
  rewrite rs_is_negative_eq, !rs_is_zero_eq, rs_to_owned_eq, rs_to_big_eq, gtb_rep.
  change 100000 with shl_cap.
  assert (Tail : to_res
    (if is_negative b then RErr (m_into E_LeftShiftNegative)
     else if is_zero a || is_zero b then ROk a
     else if shl_cap <? den b then RErr (m_into E_LeftShiftOverflow)
     else match b with
          | Big _ => RErr (m_into E_LeftShiftOverflow)
          | Small b0 => rbind (m_unwrap (rs_II_to_u64 b0)) (fun q => ROk (StarlarkInt_from (rs_shl (den a) q)))
          end) =
    (if is_negative b then Err LeftShiftNegative
     else if is_zero a || is_zero b then Ok a
     else if shl_cap <? den b then Err LeftShiftOverflow
     else match b with Big _ => Err LeftShiftOverflow | Small y => Ok (canon (Z.shiftl (den a) y)) end)).
  { unfold is_negative. destruct (Z.ltb_spec (den b) 0) as [Hn|Hn]; [reflexivity|].
    destruct (is_zero a || is_zero b); [reflexivity|]. destruct (shl_cap <? den b); [reflexivity|].
    destruct b as [y|y]; [|reflexivity]. cbn [den] in Hn. rewrite rs_to_u64_eq.
    destruct (Z.leb_spec 0 y); [reflexivity|lia]. }
  destruct a as [x|x], b as [y|y]; try exact Tail.
  rewrite rs_to_u32_eq. destruct (0 <=? y); [|exact Tail].
  rewrite rs_checked_shl_eq by (apply in_inline_i32; exact Wa).
  destruct (checked_shl x y); [reflexivity|exact Tail].
Qed.

Theorem rs_right_shift_eq a b : wf a -> wf b -> to_res (rs_right_shift a b) = right_shift a b.
Proof.
  intros Wa Wb. unfold rs_right_shift, right_shift.
  rewrite !rs_is_negative_eq, !rs_is_zero_eq, rs_to_owned_eq.
  assert (Tail : to_res
    (if is_negative b then RErr (m_into E_RightShiftNegative)
     else if is_zero a || is_zero b then ROk a
     else match rs_SIR_to_u64 b with
          | Some other => match a with
                          | Small a0 => if rs_ltb a0 0 then ROk (Small InlineInt_MINUS_ONE) else ROk (Small InlineInt_ZERO)
                          | Big a0 => ROk (StarlarkInt_from (rs_shr (m_get a0) other))
                          end
          | None => if is_negative a then ROk (Small InlineInt_MINUS_ONE) else ROk (Small InlineInt_ZERO)
          end) =
    (if is_negative b then Err RightShiftNegative
     else if is_zero a || is_zero b then Ok a
     else if u64max <? den b then Ok (Small (if is_negative a then -1 else 0))
     else match a with
          | Small x => Ok (Small (if x <? 0 then -1 else 0))
          | Big x => Ok (canon (shiftr_fast x (den b)))
          end)).
  { unfold is_negative at 1 3. destruct (Z.ltb_spec (den b) 0) as [Hn|Hn]; [reflexivity|].
    destruct (is_zero a || is_zero b); [reflexivity|].
    assert (Hu : rs_SIR_to_u64 b = if u64max <? den b then None else Some (den b)).
    { destruct b as [y|y]; unfold rs_SIR_to_u64; cbn [den] in *.
      - rewrite rs_to_u64_eq. destruct (Z.leb_spec 0 y); [|lia].
        destruct (Z.ltb_spec u64max y) as [H1|H1]; [|reflexivity].
        exfalso. unfold wf in Wb. apply in_inline_i32 in Wb. unfold in_i32, i32max in Wb.
        apply andb_true_iff in Wb. destruct Wb as [_ W2]. apply Z.leb_le in W2. unfold u64max in H1. lia.
      - unfold m_to_u64, m_get, u64max. destruct (Z.leb_spec 0 y); [|lia]. cbn [andb].
        destruct (Z.leb_spec y 18446744073709551615); destruct (Z.ltb_spec 18446744073709551615 y); try lia; reflexivity. }
    rewrite Hu. destruct (u64max <? den b).
    - unfold is_negative. destruct (den a <? 0); reflexivity.
    - destruct a as [x|x].
      + rewrite ltb0. destruct (x <? 0); reflexivity.
      + unfold StarlarkInt_from, rs_shr, m_get. rewrite shiftr_fast_eq by assumption. reflexivity. }
  destruct a as [x|x], b as [y|y]; try exact Tail.
  rewrite rs_to_u32_eq. destruct (0 <=? y); [|exact Tail].
  rewrite rs_checked_shr_eq. destruct (checked_shr x y); [reflexivity|exact Tail].
Qed.

Theorem rs_abs_eq a : rs_abs a = abs a.
Proof. destruct a as [x|x]; unfold rs_abs; [apply rs_II_abs_eq|reflexivity]. Qed.

(* operators: + - * unary - & | ^ ~ and the ordering *)
Theorem rs_add_eq a b : rs_add_sir a b = add a b.
Proof. destruct a as [x|x], b as [y|y]; unfold rs_add_sir, add; cbv beta zeta; rewrite ?rs_to_big_eq; try reflexivity.
  rewrite rs_checked_add_eq. destruct (checked (x + y)); reflexivity. Qed.
Theorem rs_sub_eq a b : rs_sub_sir a b = sub a b.
Proof. destruct a as [x|x], b as [y|y]; unfold rs_sub_sir, sub; cbv beta zeta; rewrite ?rs_to_big_eq; try reflexivity.
  rewrite rs_checked_sub_eq. destruct (checked (x - y)); reflexivity. Qed.
Theorem rs_neg_eq a : rs_neg_sir a = neg a.
Proof. destruct a as [x|x]; unfold rs_neg_sir, neg; cbv beta zeta; rewrite ?rs_to_big_eq; try reflexivity.
  rewrite rs_checked_neg_eq. destruct (checked (- x)); reflexivity. Qed.
Theorem rs_mul_i32_eq a r : rs_mul_i32_sir a r = mul_i32 a r.
Proof. destruct a as [x|x]; unfold rs_mul_i32_sir, mul_i32; cbv beta zeta; try reflexivity.
  rewrite rs_checked_mul_i32_eq. destruct (checked (x * r)); reflexivity. Qed.
Theorem rs_mul_eq a b : rs_mul_sir a b = mul a b.
Proof. destruct a as [x|x], b as [y|y]; unfold rs_mul_sir, mul, rs_mul, rsmul_Z_rep, rsmul_rep_Z, rs_II_to_i32;
  rewrite ?rs_mul_i32_eq; reflexivity. Qed.
Theorem rs_bitand_eq a b : rs_bitand a b = bit_and a b.
Proof. destruct a, b; reflexivity. Qed.
Theorem rs_bitor_eq a b : rs_bitor a b = bit_or a b.
Proof. destruct a, b; reflexivity. Qed.
Theorem rs_bitxor_eq a b : rs_bitxor a b = bit_xor a b.
Proof. destruct a, b; reflexivity. Qed.
Theorem rs_bitnot_eq a : rs_bitnot a = bit_not a.
Proof. destruct a; reflexivity. Qed.
Theorem rs_cmp_eq a b : rs_cmp_sir a b = compare a b.
Proof.
  destruct a as [x|x], b as [y|y]; unfold rs_cmp_sir, compare, rs_cmp_big_small, rs_cmp_small_big, cmp_small_big,
    m_cmp, m_reverse, f_value, rs_II_signum, m_signum; try reflexivity.
  - destruct y; reflexivity.
  - destruct x; reflexivity.
Qed.

(* `.unwrap()` in left_shift never panics and the "unreachable" anyhow! errors are unreachable *)
Theorem rs_left_shift_no_panic a b : wf a -> wf b -> rs_left_shift a b <> RErr E_Panic.
Proof.
  intros Wa Wb H. pose proof (rs_left_shift_eq a b Wa Wb) as E. rewrite H in E. cbn in E.
  pose proof (shl_exact a b Wa Wb) as X. rewrite <- E in X. exact X.
Qed.

(* the `anyhow!("unreachable")` errors of floor_div_small_small / percent_small are unreachable *)
Theorem rs_floor_div_no_unreachable a b : wf a -> wf b -> rs_floor_div a b <> RErr E_anyhow.
Proof.
  intros Wa Wb H. pose proof (rs_floor_div_eq a b) as E. rewrite H in E. cbn in E.
  pose proof (floor_div_exact a b Wa Wb) as X. rewrite <- E in X. exact X.
Qed.
Theorem rs_percent_no_unreachable a b : wf a -> wf b -> rs_percent a b <> RErr E_anyhow.
Proof.
  intros Wa Wb H. pose proof (rs_percent_eq a b) as E. rewrite H in E. cbn in E.
  pose proof (percent_exact a b Wa Wb) as X. rewrite <- E in X. exact X.
Qed.

(* ---- values/index.rs ------------------------------------------------------------------------------ *)
Definition clamp32 (z : Z) : Z := if z <? i32_MIN then i32_MIN else if i32_MAX <? z then i32_MAX else z.
(* what a slice bound denotes: absent / None, an integer, or something that is not an integer *)
Definition bnd (v : option value) : option (option Z) :=
  match v with
  | None | Some VNone => Some None
  | Some (VInt r) => Some (Some (clamp32 (den r)))
  | Some VOther => None
  end.
Definition wfv (v : option value) : Prop := match v with Some (VInt r) => wf r | _ => True end.

Lemma wf_small_i32 x : wf (Small x) -> i32_MIN <= x <= i32_MAX.
Proof.
  unfold wf. intros H. apply in_inline_i32 in H. unfold in_i32, i32min, i32max in H.
  apply andb_true_iff in H. destruct H as [H1 H2]. apply Z.leb_le in H1. apply Z.leb_le in H2.
  unfold i32_MIN, i32_MAX. lia.
Qed.
Lemma wf_big_out x : wf (Big x) -> x < i32_MIN \/ i32_MAX < x.
Proof.
  unfold wf, in_inline, in_i32, i32min, i32max, imin, imax. rewrite andb_false_iff, !andb_false_iff.
  change inline_bits with 32. change (2 ^ (32 - 1)) with 2147483648. unfold i32_MIN, i32_MAX.
  rewrite !Z.leb_gt. lia.
Qed.

Theorem rs_unpack_slice_bound_eq r : wf r -> rs_unpack_slice_bound (VInt r) = ROk (clamp32 (den r)).
Proof.
  intros W. unfold rs_unpack_slice_bound, StarlarkIntRef_unpack, i32_unpack_value_err, clamp32.
  destruct r as [x|x]; cbn [den].
  - pose proof (wf_small_i32 x W) as [H1 H2]. cbn.
    destruct (Z.ltb_spec x i32_MIN); [lia|]. destruct (Z.ltb_spec i32_MAX x); [lia|]. reflexivity.
  - pose proof (wf_big_out x W) as H. unfold rs_SIR_to_i32, m_to_i32, chk32, in_i32, i32min, i32max.
    unfold i32_MIN, i32_MAX in *. unfold m_is_none, isnone_option.
    destruct (Z.leb_spec (-2147483648) x); destruct (Z.leb_spec x 2147483647); cbn [andb]; try lia.
    + unfold rs_ltb, rs_cmpz, rsord_rep. cbn [den]. destruct (Z.compare_spec x 0); try lia.
      destruct (Z.ltb_spec x (-2147483648)); [lia|]. destruct (Z.ltb_spec 2147483647 x); [reflexivity|lia].
    + unfold rs_ltb, rs_cmpz, rsord_rep. cbn [den]. destruct (Z.compare_spec x 0); try lia.
      destruct (Z.ltb_spec x (-2147483648)); [reflexivity|lia].
Qed.

Definition aux_res (len : Z) (b : option (option Z)) (d mn mx : Z) : rres Z :=
  match b with
  | None => RErr E_IncorrectType
  | Some o => ROk (SV.Core.Slice.convert_index_aux len o d mn mx)
  end.

Theorem rs_convert_index_aux_eq len v d mn mx :
  wfv v -> rs_convert_index_aux len v d mn mx = aux_res len (bnd v) d mn mx.
Proof.
  intros W. unfold rs_convert_index_aux. destruct v as [[|r|]|]; [reflexivity| |reflexivity|reflexivity].
  cbn [m_is_none isnone_value bnd aux_res]. rewrite (rs_unpack_slice_bound_eq r W). cbn [rbind]. cbv zeta.
  unfold rs_add, SV.Core.Slice.convert_index_aux. rewrite ltb0.
  set (i := if clamp32 (den r) <? 0 then len + clamp32 (den r) else clamp32 (den r)).
  unfold rs_ltb, rs_gtb, rs_cmpz, rsord_Z.
  destruct (Z.ltb_spec i mn); destruct (Z.compare_spec i mn); try lia; try reflexivity;
    destruct (Z.ltb_spec mx i); destruct (Z.compare_spec i mx); try lia; reflexivity.
Qed.

(* the model is stated over unbounded bounds; for a sequence that fits i32 clamping a bound first changes nothing *)
Theorem convert_index_aux_clamp len x d mn mx :
  0 <= len <= i32_MAX -> -1 <= mn <= mx -> mx <= len ->
  SV.Core.Slice.convert_index_aux len (Some (clamp32 x)) d mn mx = SV.Core.Slice.convert_index_aux len (Some x) d mn mx.
Proof.
  unfold SV.Core.Slice.convert_index_aux, clamp32, i32_MIN, i32_MAX. intros Hl Hmn Hmx. cbv zeta.
  destruct (Z.ltb_spec x (-2147483648)); [|destruct (Z.ltb_spec 2147483647 x)];
    destruct (Z.ltb_spec x 0); try lia;
    try change (-2147483648 <? 0) with true; try change (2147483647 <? 0) with false; cbv iota;
    repeat match goal with |- context [?a <? ?b] => destruct (Z.ltb_spec a b); try lia end; lia.
Qed.

Definition slice_res (len : Z) (s e st : option (option Z)) : rres (Z * Z * Z) :=
  match st with
  | None => RErr E_IncorrectType
  | Some st' =>
    match SV.Core.Slice.convert_slice_indices len (Some 0) (Some 0) st' with
    | None => RErr (E_IndexOutOfBound 0)
    | Some _ =>
      match s, e with
      | Some s', Some e' => match SV.Core.Slice.convert_slice_indices len s' e' st' with
                            | Some r => ROk r | None => RErr (E_IndexOutOfBound 0) end
      | _, _ => RErr E_IncorrectType
      end
    end
  end.

Theorem rs_convert_slice_indices_eq len s e st :
  wfv s -> wfv e -> wfv st ->
  rs_convert_slice_indices len s e st = slice_res len (bnd s) (bnd e) (bnd st).
Proof.
  intros Ws We Wst. unfold rs_convert_slice_indices, slice_res, SV.Core.Slice.convert_slice_indices.
  cbv beta zeta.
  destruct st as [[|r|]|]; cbn [bnd m_is_none isnone_value];
    rewrite ?(rs_unpack_slice_bound_eq _ Wst); cbn [rbind]; cbv beta zeta;
    unfold rs_eqb, rseq_Z;
    rewrite ?ltb0, ?(rs_convert_index_aux_eq _ _ _ _ _ Ws), ?(rs_convert_index_aux_eq _ _ _ _ _ We);
    unfold rs_sub, rs_neg, rs_add, aux_res, m_into; change (- (1)) with (-1);
    try (destruct (clamp32 (den r) =? 0); [reflexivity|]);
    try change (1 =? 0) with false; try change (1 <? 0) with false; cbv iota;
    destruct (bnd s), (bnd e); reflexivity.
Qed.


(* index of at/set_at: no IntegerOverflow for a sequence length, and the model's answer otherwise *)
Theorem rs_convert_index_eq x len :
  0 <= len <= i32_MAX -> wf (Small x) ->
  m_ok (rs_convert_index (VInt (Small x)) len) = SV.Core.Slice.convert_index x len.
Proof.
  intros Hl W. pose proof (wf_small_i32 x W) as Hx. unfold i32_MIN, i32_MAX in *.
  unfold rs_convert_index, i32_unpack_value_err, unpack_i32, SV.Core.Slice.convert_index. cbn [rbind]. cbv zeta.
  rewrite ltb0. destruct (Z.ltb_spec x 0) as [Hn|Hn].
  - unfold m_checked_add, chk32, in_i32, i32min, i32max.
    destruct (Z.leb_spec (-2147483648) (len + x)); [|lia]. destruct (Z.leb_spec (len + x) 2147483647); [|lia].
    cbn [andb m_ok_or rbind]. rewrite ltb0. unfold rs_geb, rs_cmpz, rsord_Z.
    destruct (Z.ltb_spec (len + x) 0); destruct (Z.leb_spec len (len + x)); destruct (Z.compare_spec (len + x) len);
      try lia; reflexivity.
  - rewrite ?ltb0. unfold rs_geb, rs_cmpz, rsord_Z.
    destruct (Z.ltb_spec x 0); destruct (Z.leb_spec len x); destruct (Z.compare_spec x len); try lia; reflexivity.
Qed.

(* ---- starlark_syntax/src/convert_indices.rs ------------------------------------------------------ *)
Definition bound_spec (v limit : Z) : Z := Z.max 0 (Z.min v limit).

Lemma cast_usize_id z : 0 <= z <= i32_MAX -> cast_usize z = z.
Proof. unfold cast_usize, wrap_unsigned, i32_MAX. intros H. change (2 ^ 64) with 18446744073709551616.
  apply Z.mod_small. lia. Qed.

Theorem rs_bound_eq v limit : 0 <= limit <= i32_MAX -> v <= i32_MAX -> rs_bound v limit = bound_spec v limit.
Proof.
  intros Hl Hv. unfold rs_bound, bound_spec, rs_leb, rs_geb, rs_cmpz, rsord_Z.
  destruct (Z.compare_spec v 0); destruct (Z.compare_spec v limit); rewrite ?cast_usize_id by lia; lia.
Qed.

(* both results are inside the string and, when both indices are given, this is Python's clamping rule *)
Theorem rs_convert_indices_spec len s e :
  0 <= len <= i32_MAX ->
  match s with Some x => i32_MIN <= x <= i32_MAX | None => True end ->
  match e with Some x => i32_MIN <= x <= i32_MAX | None => True end ->
  let norm := fun (o : option Z) d => let x := match o with Some x => x | None => d end in if x <? 0 then x + len else x in
  rs_convert_indices len s e = (bound_spec (norm s 0) len, bound_spec (norm e len) len).
Proof.
  intros Hl Hs He. cbv zeta. unfold rs_convert_indices, m_unwrap_or, rs_add. rewrite !ltb0.
  unfold i32_MIN, i32_MAX in *.
  destruct s as [xs|], e as [xe|]; cbv beta iota in Hs, He |- *;
    rewrite !rs_bound_eq; try reflexivity; unfold i32_MAX; rewrite ?ltb0; try lia;
    repeat match goal with |- context [?a <? ?b] => destruct (Z.ltb_spec a b); try lia end; lia.
Qed.

(* ---- starlark_map: hash_value.rs, mix_u32.rs ------------------------------------------------------ *)
Theorem rs_hash_64_eq h : rs_hash_64 h = SV.Eq.Model.fmix64_32 h.
Proof. reflexivity. Qed.

Theorem rs_mix_u32_eq n : 0 <= n < 2 ^ 32 -> rs_mix_u32 n = (n * 11400714819323198485) mod 2 ^ 64.
Proof.
  intros H. unfold rs_mix_u32, m_wrapping_mul, cast_u64, wrap_unsigned.
  rewrite (Z.mod_small n) by (change (2 ^ 64) with 18446744073709551616; change (2 ^ 32) with 4294967296 in H; lia).
  reflexivity.
Qed.

Theorem rs_promote_eq h : rs_promote h = rs_mix_u32 h.
Proof. reflexivity. Qed.

(* ---- values/types/range/range_type.rs ------------------------------------------------------------ *)
Lemma ltbZ (a b : Z) : rs_ltb a b = (a <? b).
Proof. unfold rs_ltb, rs_cmpz, rsord_Z, Z.ltb. destruct (a ?= b); reflexivity. Qed.
Lemma gtbZ (a b : Z) : rs_gtb a b = (b <? a).
Proof. unfold rs_gtb, rs_cmpz, rsord_Z. rewrite Z.ltb_antisym, Z.leb_compare. destruct (a ?= b); reflexivity. Qed.
Lemma gebZ (a b : Z) : rs_geb a b = (b <=? a).
Proof. unfold rs_geb, rs_cmpz, rsord_Z. rewrite Z.leb_antisym. unfold Z.ltb. destruct (a ?= b); reflexivity. Qed.
Lemma lebZ (a b : Z) : rs_leb a b = (a <=? b).
Proof. unfold rs_leb, rs_cmpz, rsord_Z, Z.leb. destruct (a ?= b); reflexivity. Qed.

Ltac normZ := repeat match goal with
  | |- context [@rs_ltb Z _ ?a ?b] => rewrite (ltbZ a b)
  | |- context [@rs_gtb Z _ ?a ?b] => rewrite (gtbZ a b)
  | |- context [@rs_geb Z _ ?a ?b] => rewrite (gebZ a b)
  | |- context [@rs_leb Z _ ?a ?b] => rewrite (lebZ a b)
  end.

Definition i32b (z : Z) : Prop := -2147483648 <= z <= 2147483647.

Lemma cast_i64_small z : i32b z -> cast_i64 z = z.
Proof. unfold i32b, cast_i64, wrap_signed. intros H.
  change (2 ^ (64 - 1)) with 9223372036854775808. change (2 ^ 64) with 18446744073709551616.
  rewrite Z.mod_small by lia. lia. Qed.
Lemma cast_u64_small z : 0 <= z < 4294967296 -> cast_u64 z = z.
Proof. unfold cast_u64, wrap_unsigned. intros H. change (2 ^ 64) with 18446744073709551616.
  apply Z.mod_small. lia. Qed.

Lemma range_len_core d s :
  0 < d < 4294967296 -> 0 < s < 4294967296 ->
  (if 0 <=? cast_i32 (Z.quot (d - 1) s + 1)
   then ROk (cast_i32 (Z.quot (d - 1) s + 1)) else RErr E_IntegerOverflow) =
  (if (d + s - 1) / s <=? 2147483647 then ROk ((d + s - 1) / s) else RErr E_IntegerOverflow).
Proof.
  intros Hd Hs.
  rewrite Z.quot_div_nonneg by lia.
  assert (E : (d + s - 1) / s = (d - 1) / s + 1).
  { replace (d + s - 1) with (d - 1 + 1 * s) by lia. rewrite Z.div_add by lia. reflexivity. }
  rewrite E. set (n := (d - 1) / s + 1).
  assert (Hn : 1 <= n < 4294967296).
  { unfold n. assert (0 <= (d - 1) / s) by (apply Z.div_pos; lia).
    assert ((d - 1) / s <= d - 1) by (apply Z.div_le_upper_bound; nia). lia. }
  unfold cast_i32, wrap_signed. change (2 ^ (32 - 1)) with 2147483648. change (2 ^ 32) with 4294967296.
  destruct (Z.leb_spec n 2147483647) as [H|H].
  - rewrite Z.mod_small by lia. replace (n + 2147483648 - 2147483648) with n by lia.
    destruct (Z.leb_spec 0 n); [reflexivity|lia].
  - replace (n + 2147483648) with (n - 2147483648 + 1 * 4294967296) by lia.
    rewrite Z.mod_add by lia. rewrite Z.mod_small by lia.
    destruct (Z.leb_spec 0 (n - 2147483648 - 2147483648)); [lia|reflexivity].
Qed.

Theorem rs_range_length_eq lo hi st :
  i32b lo -> i32b hi -> i32b st -> st <> 0 ->
  rs_range_length {| f_start := lo; f_stop := hi; f_step := st |} =
  (let n := SV.Core.Values.range_len lo hi st in if n <=? 2147483647 then ROk n else RErr E_IntegerOverflow).
Proof.
  unfold i32b. intros Hlo Hhi Hst Hnz. unfold rs_range_length, SV.Core.Values.range_len. cbv beta zeta.
  cbn [f_start f_stop f_step]. unfold m_get, rs_neb, rs_eqb, rseq_Z, rseq_bool, m_unsigned_abs.
  normZ. rewrite !cast_i64_small by (unfold i32b; lia).
  destruct (Z.eqb_spec lo hi) as [->|Hne].
  - rewrite !Z.ltb_irrefl. destruct (0 <? st); reflexivity.
  - destruct (Z.ltb_spec 0 st) as [Hp|Hp].
    + destruct (Z.leb_spec lo hi) as [H1|H1]; cbn [Bool.eqb negb].
      * destruct (Z.ltb_spec lo hi); [|lia]. destruct (Z.leb_spec 0 st); [|lia]. cbv beta iota.
        unfold rs_sub, rs_add, rs_div, m_into. rewrite !cast_u64_small by lia.
        normZ. rewrite (range_len_core (hi - lo) st) by lia. reflexivity.
      * destruct (Z.ltb_spec lo hi); [lia|]. reflexivity.
    + destruct (Z.leb_spec lo hi) as [H1|H1]; cbn [Bool.eqb negb].
      * destruct (Z.ltb_spec hi lo); [lia|]. reflexivity.
      * destruct (Z.ltb_spec hi lo); [|lia]. destruct (Z.leb_spec 0 st); [lia|]. cbv beta iota.
        unfold rs_sub, rs_add, rs_div, m_into. rewrite !cast_u64_small by lia. rewrite Z.abs_neq by lia.
        normZ. rewrite (range_len_core (lo - hi) (- st)) by lia.
        replace (lo - hi + - st - 1) with (lo - hi - st - 1) by lia. reflexivity.
Qed.

Theorem rs_range_to_bool_eq lo hi st :
  st <> 0 -> rs_range_to_bool {| f_start := lo; f_stop := hi; f_step := st |} = (0 <? SV.Core.Values.range_len lo hi st).
Proof.
  intros Hnz. unfold rs_range_to_bool, SV.Core.Values.range_len, m_get. cbn [f_start f_stop f_step].
  normZ.
  destruct (Z.ltb_spec 0 st), (Z.ltb_spec st 0), (Z.ltb_spec lo hi), (Z.ltb_spec hi lo); try lia;
    cbn [andb orb]; try reflexivity; symmetry; apply Z.ltb_lt; apply Z.div_str_pos; lia.
Qed.

(* `x in range(..)`: for an i32 candidate, exactly the members start + k*step, 0 <= k < len *)
Theorem rs_range_is_in_spec lo hi st x :
  i32b lo -> i32b hi -> i32b st -> st <> 0 -> wf (Small x) ->
  rs_range_is_in {| f_start := lo; f_stop := hi; f_step := st |} (VInt (Small x)) =
  ROk (if 0 <? st then (lo <=? x) && (x <? hi) && ((x - lo) mod st =? 0)
       else (hi <? x) && (x <=? lo) && ((lo - x) mod (- st) =? 0)).
Proof.
  unfold i32b. intros Hlo Hhi Hst Hnz Wx. pose proof (wf_small_i32 x Wx) as Hx. unfold i32_MIN, i32_MAX in Hx.
  unfold rs_range_is_in. cbv beta zeta. cbn [m_unpack_num StarlarkIntRef_unpack m_and_then m_as_int unpack_i32].
  unfold rs_range_to_bool, rs_not, m_get, rs_eqb, rseq_Z, m_unsigned_abs, m_is_multiple_of, rs_sub.
  cbn [f_start f_stop f_step]. normZ. rewrite !cast_i64_small by (unfold i32b; lia).
  destruct (Z.ltb_spec 0 st) as [Hp|Hp].
  - destruct (Z.ltb_spec st 0); [lia|]. rewrite andb_false_r, orb_false_r, andb_true_r.
    destruct (Z.ltb_spec lo hi) as [H1|H1]; cbn [negb].
    + destruct (Z.eqb_spec lo x) as [->|Hne].
      * destruct (Z.leb_spec x x); [|lia]. destruct (Z.ltb_spec x hi); [|lia].
        replace (x - x) with 0 by lia. rewrite Z.mod_0_l by lia. reflexivity.
      * destruct (Z.ltb_spec x lo); destruct (Z.leb_spec hi x); destruct (Z.leb_spec lo x); destruct (Z.ltb_spec x hi);
          try lia; cbn [orb andb]; try reflexivity.
        rewrite !cast_u64_small by lia. destruct (Z.eqb_spec st 0); [lia|]. reflexivity.
    + destruct (Z.leb_spec lo x); destruct (Z.ltb_spec x hi); try lia; reflexivity.
  - destruct (Z.ltb_spec st 0); [|lia]. rewrite andb_false_r, andb_true_r. cbn [orb].
    destruct (Z.ltb_spec hi lo) as [H1|H1]; cbn [negb].
    + destruct (Z.eqb_spec lo x) as [->|Hne].
      * destruct (Z.ltb_spec hi x); [|lia]. destruct (Z.leb_spec x x); [|lia].
        replace (x - x) with 0 by lia. rewrite Z.mod_0_l by lia. reflexivity.
      * destruct (Z.ltb_spec lo x); destruct (Z.leb_spec x hi); destruct (Z.ltb_spec hi x); destruct (Z.leb_spec x lo);
          try lia; cbn [orb andb]; try reflexivity.
        rewrite !cast_u64_small by lia. rewrite Z.abs_neq by lia. destruct (Z.eqb_spec (- st) 0); [lia|]. reflexivity.
    + destruct (Z.ltb_spec hi x); destruct (Z.leb_spec x lo); try lia; reflexivity.
Qed.

(* range == range: decides equality of the two arithmetic progressions *)
Definition range_seq (lo st : Z) (n : nat) : list Z := map (fun k => lo + Z.of_nat k * st) (seq 0 n).

Lemma range_seq_eq lo1 st1 lo2 st2 n1 n2 :
  range_seq lo1 st1 n1 = range_seq lo2 st2 n2 <->
  n1 = n2 /\ (n1 = O \/ (lo1 = lo2 /\ (n1 = 1%nat \/ st1 = st2))).
Proof.
  unfold range_seq. split.
  - intros H. assert (L : n1 = n2).
    { apply (f_equal (@length Z)) in H. rewrite !map_length, !seq_length in H. exact H. }
    subst n2. split; [reflexivity|]. destruct n1 as [|[|n]]; [left; reflexivity| |].
    + right. change (seq 0 1) with [0%nat] in H. cbn [map] in H. injection H as H. change (Z.of_nat 0) with 0 in H.
      split; [lia|left; reflexivity].
    + right. change (seq 0 (S (S n))) with (0%nat :: 1%nat :: seq 2 n) in H. rewrite !map_cons in H.
      pose proof (f_equal (@hd Z 0) H) as H0. pose proof (f_equal (fun l => hd 0 (tl l)) H) as H1.
      cbn [hd tl] in H0, H1. change (Z.of_nat 0) with 0 in H0. change (Z.of_nat 1) with 1 in H1.
      split; [lia|right; lia].
  - intros [-> [->|[-> [->| ->]]]]; reflexivity.
Qed.

Theorem rs_range_equals_spec lo1 hi1 st1 lo2 hi2 st2 :
  i32b lo1 -> i32b hi1 -> i32b st1 -> st1 <> 0 -> i32b lo2 -> i32b hi2 -> i32b st2 -> st2 <> 0 ->
  let n1 := SV.Core.Values.range_len lo1 hi1 st1 in
  let n2 := SV.Core.Values.range_len lo2 hi2 st2 in
  n1 <= 2147483647 -> n2 <= 2147483647 ->
  exists b, rs_range_equals_range {| f_start := lo1; f_stop := hi1; f_step := st1 |}
                                  {| f_start := lo2; f_stop := hi2; f_step := st2 |} = ROk b /\
            (b = true <-> range_seq lo1 st1 (Z.to_nat n1) = range_seq lo2 st2 (Z.to_nat n2)).
Proof.
  intros A1 A2 A3 A4 B1 B2 B3 B4 n1 n2 L1 L2.
  assert (P1 : 0 <= n1).
  { unfold n1, SV.Core.Values.range_len. repeat match goal with |- context [?a <? ?b] => destruct (Z.ltb_spec a b) end;
      try lia; apply Z.div_pos; lia. }
  assert (P2 : 0 <= n2).
  { unfold n2, SV.Core.Values.range_len. repeat match goal with |- context [?a <? ?b] => destruct (Z.ltb_spec a b) end;
      try lia; apply Z.div_pos; lia. }
  unfold rs_range_equals_range. rewrite (rs_range_length_eq _ _ _ A1 A2 A3 A4), (rs_range_length_eq _ _ _ B1 B2 B3 B4).
  cbv zeta. fold n1 n2. destruct (Z.leb_spec n1 2147483647) as [_|Hx]; [|lia]. destruct (Z.leb_spec n2 2147483647) as [_|Hx]; [|lia].
  cbn [rbind f_start f_step]. unfold rs_neb, rs_eqb, rseq_Z, m_get. setoid_rewrite range_seq_eq.
  destruct (Z.eqb_spec n1 0) as [E1|E1]; [|destruct (Z.eqb_spec n2 0) as [E2|E2]]; cbn [orb].
  - eexists; split; [reflexivity|]. rewrite E1. destruct (Z.eqb_spec 0 n2) as [E|E].
    + rewrite <- E. cbn. split; [intros _; split; [reflexivity|left; reflexivity]|reflexivity].
    + split; [discriminate|]. intros [H _]. cbn in H. lia.
  - eexists; split; [reflexivity|]. rewrite E2. destruct (Z.eqb_spec n1 0); [lia|].
    split; [discriminate|]. intros [H _]. cbn in H. lia.
  - destruct (Z.eqb_spec lo1 lo2) as [El|El]; cbn [negb].
    + destruct (Z.eqb_spec n1 1) as [F1|F1]; [|destruct (Z.eqb_spec n2 1) as [F2|F2]]; cbn [orb].
      * eexists; split; [reflexivity|]. rewrite F1. destruct (Z.eqb_spec 1 n2) as [E|E].
        -- rewrite <- E. split; [intros _|reflexivity]. split; [reflexivity|right; split; [exact El|left; reflexivity]].
        -- split; [discriminate|]. intros [H _]. change (Z.to_nat 1) with 1%nat in H. lia.
      * eexists; split; [reflexivity|]. rewrite F2. destruct (Z.eqb_spec n1 1); [lia|].
        split; [discriminate|]. intros [H _]. change (Z.to_nat 1) with 1%nat in H. lia.
      * destruct (Z.eqb_spec st1 st2) as [Es|Es].
        -- eexists; split; [reflexivity|]. destruct (Z.eqb_spec n1 n2) as [E|E].
           ++ split; [intros _|reflexivity]. split; [rewrite E; reflexivity|right; split; [exact El|right; exact Es]].
           ++ split; [discriminate|]. intros [H _]. lia.
        -- eexists; split; [reflexivity|]. split; [discriminate|].
           intros [_ [H|[_ [H|H]]]]; [lia| |contradiction]. change 1%nat with (Z.to_nat 1) in H. lia.
    + eexists; split; [reflexivity|]. split; [discriminate|]. intros [_ [H|[H _]]]; [lia|contradiction].
Qed.

(* ---- starlark_syntax/src/codemap.rs: the span algebra the parser builds every node span with ---------------- *)
Definition span_wf (s : span) : Prop := f_begin s <= f_end s.

Lemma contains_iff s p : rs_span_contains s p = true <-> f_begin s <= p <= f_end s.
Proof. unfold rs_span_contains. normZ. rewrite andb_true_iff, !Z.leb_le. tauto. Qed.

Theorem span_merge_spec a b :
  f_begin (rs_span_merge a b) = Z.min (f_begin a) (f_begin b) /\
  f_end (rs_span_merge a b) = Z.max (f_end a) (f_end b) /\
  (span_wf a -> span_wf b -> span_wf (rs_span_merge a b)) /\
  (forall p, rs_span_contains a p = true \/ rs_span_contains b p = true -> rs_span_contains (rs_span_merge a b) p = true).
Proof.
  unfold rs_span_merge, cmp_min, cmp_max, span_wf. cbn [f_begin f_end]. repeat split; try lia.
  intros p H. rewrite contains_iff. cbn [f_begin f_end]. rewrite !contains_iff in H. lia.
Qed.

Theorem span_merge_algebra a b c :
  rs_span_merge a b = rs_span_merge b a /\
  rs_span_merge (rs_span_merge a b) c = rs_span_merge a (rs_span_merge b c) /\
  rs_span_merge a a = a.
Proof.
  unfold rs_span_merge, cmp_min, cmp_max. cbn [f_begin f_end]. destruct a as [a1 a2]. cbn [f_begin f_end]. repeat split.
  - f_equal; lia.
  - f_equal; lia.
  - f_equal; lia.
Qed.

Theorem span_intersects_spec a b : span_wf a -> span_wf b ->
  (rs_span_intersects a b = true <-> exists p, rs_span_contains a p = true /\ rs_span_contains b p = true) /\
  rs_span_intersects a b = rs_span_intersects b a.
Proof.
  unfold span_wf. intros Wa Wb.
  assert (E : forall x y, span_wf x -> span_wf y ->
    (rs_span_intersects x y = true <-> f_begin x <= f_end y /\ f_begin y <= f_end x)).
  { intros x y Wx Wy. unfold span_wf in *. unfold rs_span_intersects. rewrite !orb_true_iff, !contains_iff. lia. }
  split.
  - rewrite (E a b Wa Wb). split.
    + intros [H1 H2]. exists (Z.max (f_begin a) (f_begin b)). rewrite !contains_iff. lia.
    + intros [p [H1 H2]]. rewrite contains_iff in H1, H2. lia.
  - destruct (rs_span_intersects a b) eqn:X, (rs_span_intersects b a) eqn:Y; try reflexivity.
    + apply (E a b Wa Wb) in X. assert (rs_span_intersects b a = true) by (apply (E b a Wb Wa); lia). congruence.
    + apply (E b a Wb Wa) in Y. assert (rs_span_intersects a b = true) by (apply (E a b Wa Wb); lia). congruence.
Qed.

Theorem span_end_span_spec a : span_wf a ->
  span_wf (rs_span_end_span a) /\ rs_span_contains a (f_begin (rs_span_end_span a)) = true /\
  f_begin (rs_span_end_span a) = f_end a /\ f_end (rs_span_end_span a) = f_end a.
Proof. unfold span_wf, rs_span_end_span. cbn [f_begin f_end]. intros W. rewrite contains_iff. repeat split; lia. Qed.

(* ---- the property statements of C10, about the functions as translated from the source ---------- *)
Theorem source_floor_div_exact a b : wf a -> wf b -> div_post (den a) (den b) (to_res (rs_floor_div a b)).
Proof. intros. rewrite rs_floor_div_eq. apply floor_div_exact; assumption. Qed.
Theorem source_percent_exact a b : wf a -> wf b -> mod_post (den a) (den b) (to_res (rs_percent a b)).
Proof. intros. rewrite rs_percent_eq. apply percent_exact; assumption. Qed.
Theorem source_shl_exact a b : wf a -> wf b -> shl_post (den a) (den b) (to_res (rs_left_shift a b)).
Proof. intros. rewrite rs_left_shift_eq by assumption. apply shl_exact; assumption. Qed.
Theorem source_shr_exact a b : wf a -> wf b -> - 2 ^ Int.Model.u64max <= den a < 2 ^ Int.Model.u64max ->
  shr_post (den a) (den b) (to_res (rs_right_shift a b)).
Proof. intros. rewrite rs_right_shift_eq by assumption. apply shr_exact; assumption. Qed.
Theorem source_abs_exact a : wf a -> wf (rs_abs a) /\ den (rs_abs a) = Z.abs (den a).
Proof. intros. rewrite rs_abs_eq. apply abs_exact; assumption. Qed.
Theorem source_arith_exact a b : wf a -> wf b ->
  (wf (rs_add_sir a b) /\ den (rs_add_sir a b) = den a + den b) /\
  (wf (rs_sub_sir a b) /\ den (rs_sub_sir a b) = den a - den b) /\
  (wf (rs_mul_sir a b) /\ den (rs_mul_sir a b) = den a * den b) /\
  (wf (rs_neg_sir a) /\ den (rs_neg_sir a) = - den a) /\
  (wf (rs_bitand a b) /\ den (rs_bitand a b) = Z.land (den a) (den b)) /\
  (wf (rs_bitor a b) /\ den (rs_bitor a b) = Z.lor (den a) (den b)) /\
  (wf (rs_bitxor a b) /\ den (rs_bitxor a b) = Z.lxor (den a) (den b)) /\
  (wf (rs_bitnot a) /\ den (rs_bitnot a) = Z.lnot (den a)) /\
  rs_cmp_sir a b = Z.compare (den a) (den b).
Proof.
  intros Wa Wb. rewrite rs_add_eq, rs_sub_eq, rs_mul_eq, rs_neg_eq, rs_bitand_eq, rs_bitor_eq, rs_bitxor_eq,
    rs_bitnot_eq, rs_cmp_eq.
  repeat split; first [ apply add_exact | apply sub_exact | apply mul_exact | apply neg_exact | apply and_exact
                      | apply or_exact | apply xor_exact | apply not_exact | apply compare_exact ]; assumption.
Qed.
(* the checked_* fast paths of InlineInt answer exactly when the exact result is an InlineInt *)
Theorem source_checked_ops a b :
  rs_II_checked_add a b = (if in_inline (a + b) then Some (a + b) else None) /\
  rs_II_checked_sub a b = (if in_inline (a - b) then Some (a - b) else None) /\
  rs_II_checked_mul_i32 a b = (if in_inline (a * b) then Some (a * b) else None) /\
  rs_II_checked_neg a = (if in_inline (- a) then Some (- a) else None).
Proof.
  rewrite rs_checked_add_eq, rs_checked_sub_eq, rs_checked_mul_i32_eq, rs_checked_neg_eq. unfold checked.
  repeat split; match goal with |- context [in_inline ?z] => destruct (in_inline z) eqn:E end;
    rewrite ?(in_inline_i32 _ E); try reflexivity; destruct (in_i32 _); reflexivity.
Qed.

Example source_nonvacuous :
  to_res (rs_floor_div (Small (-2147483648)) (Small (-1))) = Ok (Big 2147483648) /\
  to_res (rs_percent (Big (- 2 ^ 70 - 1)) (Small 7)) = Ok (Small 4) /\
  to_res (rs_left_shift (Small 1) (Small 40)) = Ok (Big (2 ^ 40)) /\
  to_res (rs_right_shift (Big (2 ^ 40)) (Small 39)) = Ok (Small 2) /\
  rs_convert_slice_indices 5 (Some (VInt (Big (- 2 ^ 40)))) None (Some (VInt (Small (-1)))) = ROk (-1, -1, -1) /\
  rs_convert_slice_indices 5 None None (Some (VInt (Small 0))) = RErr (E_IndexOutOfBound 0) /\
  rs_convert_indices 3 (Some (-5)) (Some (-100)) = (0, 0).
Proof. repeat split; vm_compute; reflexivity. Qed.
