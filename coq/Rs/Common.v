(* Lemmas about coq/Rs/Prelude.v shared by the per-source-file proof files. *)
From Coq Require Import ZArith Bool List Lia.
From SV Require Import Extracted.IntC Int.Model Rs.Prelude.
Open Scope Z_scope.

Lemma ltbZ (a b : Z) : rs_ltb a b = (a <? b).
Proof. unfold rs_ltb, rs_cmpz, rsord_Z, Z.ltb. destruct (a ?= b); reflexivity. Qed.
Lemma gtbZ (a b : Z) : rs_gtb a b = (b <? a).
Proof. unfold rs_gtb, rs_cmpz, rsord_Z. rewrite Z.ltb_antisym, Z.leb_compare. destruct (a ?= b); reflexivity. Qed.
Lemma gebZ (a b : Z) : rs_geb a b = (b <=? a).
Proof. unfold rs_geb, rs_cmpz, rsord_Z. rewrite Z.leb_antisym. unfold Z.ltb. destruct (a ?= b); reflexivity. Qed.
Lemma lebZ (a b : Z) : rs_leb a b = (a <=? b).
Proof. unfold rs_leb, rs_cmpz, rsord_Z, Z.leb. destruct (a ?= b); reflexivity. Qed.

Ltac normZ := repeat match goal with
  | |- context [@rs_ltb Z _ ?a ?b] => rewrite (ltbZ a b)
  | |- context [@rs_gtb Z _ ?a ?b] => rewrite (gtbZ a b)
  | |- context [@rs_geb Z _ ?a ?b] => rewrite (gebZ a b)
  | |- context [@rs_leb Z _ ?a ?b] => rewrite (lebZ a b)
  end.

