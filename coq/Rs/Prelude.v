(* Semantics of the Rust primitives that tools/rs2v.py leaves uninterpreted when it translates function
   bodies of /repo to Gallina (coq/Extracted/Rs*.v, regenerated on every run).  Hand-written and trusted:
   this file says what `i32::checked_add`, `Option::and_then`, `as u32`, `BigInt % BigInt`, ... mean.
   Machine integers are Z; plain `+ - *` and `<<` are the operations of Z (the translation assumes they do
   not overflow; Rs/Proofs.v proves that for index.rs, where it matters); `/` and `%` truncate.
   BigInt (num-bigint) is Z, as in Int/Model.v; `&`, `*`, `.clone()`, `.get()`, `.into()` are identities. *)
From Coq Require Import ZArith Bool List.
From SV Require Import Extracted.IntC Int.Model.
Open Scope Z_scope.

(* ---- results -------------------------------------------------------------------------------- *)
Inductive rerr :=
| E_FloorDivisionByZero (a b : rep) | E_ModuloByZero (a b : rep)
| E_LeftShiftOverflow | E_LeftShiftNegative | E_RightShiftNegative
| E_IndexOutOfBound (i : Z) | E_IntegerOverflow
| E_IncorrectType          (* i32::unpack_value_err on a value that is not an i32 *)
| E_InlineIntOverflow | E_TryFromInt
| E_anyhow                 (* anyhow::anyhow!(..) *)
| E_Panic                  (* .unwrap() on None *)
| E_MatchFailure.          (* unreachable arm the sequential match translation cannot rule out *)

Inductive rres (A : Type) := ROk (a : A) | RErr (e : rerr).
Arguments ROk {A} a.
Arguments RErr {A} e.

Definition rbind {A B} (r : rres A) (f : A -> rres B) : rres B :=
  match r with ROk a => f a | RErr e => RErr e end.

Class Dflt (A : Type) := match_failure : A.
#[global] Instance dflt_rres {A} : Dflt (rres A) := RErr E_MatchFailure.

Definition MACRO_anyhow_anyhow : rerr := E_anyhow.

(* ---- overloaded comparisons ----------------------------------------------------------------- *)
Inductive sign := Minus | NoSign | Plus.

Class RsEq (A : Type) := rs_eqb : A -> A -> bool.
#[global] Instance rseq_Z : RsEq Z := Z.eqb.
#[global] Instance rseq_sign : RsEq sign :=
  fun a b => match a, b with Minus, Minus | NoSign, NoSign | Plus, Plus => true | _, _ => false end.
#[global] Instance rseq_bool : RsEq bool := Bool.eqb.
Definition rs_neb {A} `{RsEq A} (a b : A) : bool := negb (rs_eqb a b).

(* PartialOrd<i32> for i32-like integers and for StarlarkIntRef (compares the mathematical value) *)
Class RsOrdZ (A : Type) := rs_cmpz : A -> Z -> comparison.
#[global] Instance rsord_Z : RsOrdZ Z := Z.compare.
#[global] Instance rsord_rep : RsOrdZ rep := fun a z => Z.compare (den a) z.
Definition rs_ltb {A} `{RsOrdZ A} (a : A) (b : Z) : bool := match rs_cmpz a b with Lt => true | _ => false end.
Definition rs_leb {A} `{RsOrdZ A} (a : A) (b : Z) : bool := match rs_cmpz a b with Gt => false | _ => true end.
Definition rs_gtb {A} `{RsOrdZ A} (a : A) (b : Z) : bool := match rs_cmpz a b with Gt => true | _ => false end.
Definition rs_geb {A} `{RsOrdZ A} (a : A) (b : Z) : bool := match rs_cmpz a b with Lt => false | _ => true end.

(* ---- arithmetic ------------------------------------------------------------------------------ *)
Definition rs_add := Z.add.
Definition rs_sub := Z.sub.
Class RsMul (A B C : Type) := rs_mul : A -> B -> C.
#[global] Instance rsmul_Z : RsMul Z Z Z := Z.mul.
Definition rs_div := Z.quot.
Definition rs_rem := Z.rem.
Definition rs_neg := Z.opp.
Class RsNot (A : Type) := rs_not : A -> A.
#[global] Instance rsnot_bool : RsNot bool := negb.
#[global] Instance rsnot_Z : RsNot Z := Z.lnot.
Definition rs_shl := Z.shiftl.
Definition rs_shr := Z.shiftr.
Definition rs_xor := Z.lxor.
Definition rs_and := Z.land.
Definition rs_or := Z.lor.

Definition i32_MIN : Z := -2147483648.
Definition i32_MAX : Z := 2147483647.
Definition wrap_unsigned (bits x : Z) : Z := x mod 2 ^ bits.
Definition wrap_signed (bits x : Z) : Z := (x + 2 ^ (bits - 1)) mod 2 ^ bits - 2 ^ (bits - 1).
Definition cast_i32 := wrap_signed 32.
Definition cast_i64 := wrap_signed 64.
Definition cast_u32 := wrap_unsigned 32.
Definition cast_u64 := wrap_unsigned 64.
Definition cast_usize := wrap_unsigned 64.

Definition chk32 (z : Z) : option Z := if in_i32 z then Some z else None.
Definition m_checked_add (a b : Z) := chk32 (a + b).
Definition m_checked_sub (a b : Z) := chk32 (a - b).
Definition m_checked_mul (a b : Z) := chk32 (a * b).
Definition m_checked_neg (a : Z) := chk32 (- a).
Definition m_checked_abs (a : Z) := chk32 (Z.abs a).
Definition m_checked_div (a b : Z) := if b =? 0 then None else chk32 (Z.quot a b).
(* i32::checked_shr(rhs: u32): None when rhs >= 32; arithmetic shift otherwise *)
Definition m_checked_shr (a n : Z) := if 32 <=? n then None else Some (Z.shiftr a n).
Definition m_wrapping_mul (a b : Z) := wrap_unsigned 64 (a * b).
Definition m_signum := Z.sgn.
Definition m_abs := Z.abs.
Definition m_is_zero (a : Z) := a =? 0.
Definition m_is_negative (a : Z) := a <? 0.
Definition m_not := negb.
Definition m_sign (a : Z) : sign := match a with Z0 => NoSign | Zpos _ => Plus | Zneg _ => Minus end.
Definition m_get {A} (a : A) := a.
Definition f_value {A} (a : A) := a.          (* StarlarkBigInt { value: BigInt } *)
Definition m_cmp (a b : Z) : comparison := Z.compare a b.
Definition m_reverse := CompOpp.
Definition m_clone {A} (a : A) := a.
Definition m_into {A} (a : A) := a.
(* num_traits::ToPrimitive on BigInt *)
Definition m_to_i32 (a : Z) : option Z := chk32 a.
Definition m_to_u64 (a : Z) : option Z := if (0 <=? a) && (a <=? 18446744073709551615) then Some a else None.

(* ---- Option / Result combinators ------------------------------------------------------------ *)
Definition m_ok {A} (r : rres A) : option A := match r with ROk a => Some a | RErr _ => None end.
Definition m_ok_or {A} (o : option A) (e : rerr) : rres A := match o with Some a => ROk a | None => RErr e end.
Definition m_ok_or_else {A} (o : option A) (f : unit -> rerr) : rres A :=
  match o with Some a => ROk a | None => RErr (f tt) end.
Definition m_and_then {A B} (o : option A) (f : A -> option B) : option B :=
  match o with Some a => f a | None => None end.
Definition m_unwrap {A} (o : option A) : rres A := match o with Some a => ROk a | None => RErr E_Panic end.
Definition m_unwrap_or {A} (o : option A) (d : A) : A := match o with Some a => a | None => d end.

(* ---- conversions ------------------------------------------------------------------------------ *)
Definition InlineInt_BITS : Z := inline_bits.
Definition InlineInt_ZERO : Z := 0.
Definition InlineInt_MINUS_ONE : Z := -1.
(* InlineInt::try_from(i32 | i64): i32::try_from, then the MIN..=MAX check (try_from_impl) *)
Definition InlineInt_try_from (i : Z) : rres Z := if in_inline i then ROk i else RErr E_InlineIntOverflow.
Definition u64_try_from (i : Z) : rres Z := if 0 <=? i then ROk i else RErr E_TryFromInt.
Definition u32_try_from (i : Z) : rres Z := if 0 <=? i then ROk i else RErr E_TryFromInt.
Definition BigInt_from (i : Z) : Z := i.
(* StarlarkInt::from(i32 | BigInt | ..) = from_impl: InlineInt when it fits, BigInt otherwise *)
Definition StarlarkInt_from (z : Z) : rep := canon z.
Definition StarlarkHashValue_new_unchecked (h : Z) : Z := h.

(* ---- values, as far as index.rs looks at them --------------------------------------------------- *)
Inductive value := VNone | VInt (r : rep) | VOther.
Class RsIsNone (A : Type) := m_is_none : A -> bool.
#[global] Instance isnone_option {A} : RsIsNone (option A) := fun o => match o with None => true | Some _ => false end.
#[global] Instance isnone_value : RsIsNone value := fun v => match v with VNone => true | _ => false end.
Definition StarlarkIntRef_unpack (v : value) : option rep := match v with VInt r => Some r | _ => None end.
(* i32::unpack_value_err: an inline int that is an i32, else an error (a BigInt never fits: 64-bit target) *)
Definition i32_unpack_value_err (v : value) : rres Z :=
  match v with
  | VInt r => match unpack_i32 r with Some x => ROk x | None => RErr E_IncorrectType end
  | _ => RErr E_IncorrectType
  end.

(* ---- range_type.rs ------------------------------------------------------------------------------- *)
Record range := { f_start : Z; f_stop : Z; f_step : Z }.     (* step: NonZeroI32, `.get()` is the identity *)
Definition m_unsigned_abs := Z.abs.
Definition m_is_multiple_of (a b : Z) : bool := if b =? 0 then a =? 0 else a mod b =? 0.
(* Value::unpack_num().and_then(NumRef::as_int): an integer value that is an i32 (floats are `VOther` here) *)
Definition m_unpack_num (v : value) : option rep := StarlarkIntRef_unpack v.
Definition m_as_int (r : rep) : option Z := unpack_i32 r.

(* ---- codemap.rs: Span { begin: Pos, end: Pos }, Pos(u32) ------------------------------------------------ *)
Record span := { f_begin : Z; f_end : Z }.
Definition cmp_min := Z.min.
Definition cmp_max := Z.max.
