(* The function bodies translated from /repo's sources on this run (Extracted/Rs*.v) are equal, for all inputs, to
   the hand-written models the property theorems are stated about (DESIGN 10.6).  One proof file per property so
   that a source file the translator can no longer read concerns only the property stated about it. *)
From Coq Require Import ZArith Bool List Lia Setoid Morphisms.
Import ListNotations.
From SV Require Import Extracted.IntC Int.Model Int.Proofs Rs.Prelude Rs.Common Rs.ProofsInt.
From SV Require Core.Slice Core.Values.
From SV Require Import Extracted.RsInline Extracted.RsBig Extracted.RsInt Extracted.RsIndex Extracted.RsConv Extracted.RsRange.
Open Scope Z_scope.

(* ---- values/index.rs ------------------------------------------------------------------------------ *)
Definition clamp32 (z : Z) : Z := if z <? i32_MIN then i32_MIN else if i32_MAX <? z then i32_MAX else z.
(* what a slice bound denotes: absent / None, an integer, or something that is not an integer *)
Definition bnd (v : option value) : option (option Z) :=
  match v with
  | None | Some VNone => Some None
  | Some (VInt r) => Some (Some (clamp32 (den r)))
  | Some VOther => None
  end.
Definition wfv (v : option value) : Prop := match v with Some (VInt r) => wf r | _ => True end.

Lemma wf_small_i32 x : wf (Small x) -> i32_MIN <= x <= i32_MAX.
Proof.
  unfold wf. intros H. apply in_inline_i32 in H. unfold in_i32, i32min, i32max in H.
  apply andb_true_iff in H. destruct H as [H1 H2]. apply Z.leb_le in H1. apply Z.leb_le in H2.
  unfold i32_MIN, i32_MAX. lia.
Qed.
Lemma wf_big_out x : wf (Big x) -> x < i32_MIN \/ i32_MAX < x.
Proof.
  unfold wf, in_inline, in_i32, i32min, i32max, imin, imax. rewrite andb_false_iff, !andb_false_iff.
  change inline_bits with 32. change (2 ^ (32 - 1)) with 2147483648. unfold i32_MIN, i32_MAX.
  rewrite !Z.leb_gt. lia.
Qed.

Theorem rs_unpack_slice_bound_eq r : wf r -> rs_unpack_slice_bound (VInt r) = ROk (clamp32 (den r)).
Proof.
  intros W. unfold rs_unpack_slice_bound, StarlarkIntRef_unpack, i32_unpack_value_err, clamp32.
  destruct r as [x|x]; cbn [den].
  - pose proof (wf_small_i32 x W) as [H1 H2]. cbn.
    destruct (Z.ltb_spec x i32_MIN); [lia|]. destruct (Z.ltb_spec i32_MAX x); [lia|]. reflexivity.
  - pose proof (wf_big_out x W) as H. unfold rs_SIR_to_i32, m_to_i32, chk32, in_i32, i32min, i32max.
    unfold i32_MIN, i32_MAX in *. unfold m_is_none, isnone_option.
    destruct (Z.leb_spec (-2147483648) x); destruct (Z.leb_spec x 2147483647); cbn [andb]; try lia.
    + unfold rs_ltb, rs_cmpz, rsord_rep. cbn [den]. destruct (Z.compare_spec x 0); try lia.
      destruct (Z.ltb_spec x (-2147483648)); [lia|]. destruct (Z.ltb_spec 2147483647 x); [reflexivity|lia].
    + unfold rs_ltb, rs_cmpz, rsord_rep. cbn [den]. destruct (Z.compare_spec x 0); try lia.
      destruct (Z.ltb_spec x (-2147483648)); [reflexivity|lia].
Qed.

Definition aux_res (len : Z) (b : option (option Z)) (d mn mx : Z) : rres Z :=
  match b with
  | None => RErr E_IncorrectType
  | Some o => ROk (SV.Core.Slice.convert_index_aux len o d mn mx)
  end.

Theorem rs_convert_index_aux_eq len v d mn mx :
  wfv v -> rs_convert_index_aux len v d mn mx = aux_res len (bnd v) d mn mx.
Proof.
  intros W. unfold rs_convert_index_aux. destruct v as [[|r|]|]; [reflexivity| |reflexivity|reflexivity].
  cbn [m_is_none isnone_value bnd aux_res]. rewrite (rs_unpack_slice_bound_eq r W). cbn [rbind]. cbv zeta.
  unfold rs_add, SV.Core.Slice.convert_index_aux. rewrite ltb0.
  set (i := if clamp32 (den r) <? 0 then len + clamp32 (den r) else clamp32 (den r)).
  unfold rs_ltb, rs_gtb, rs_cmpz, rsord_Z.
  destruct (Z.ltb_spec i mn); destruct (Z.compare_spec i mn); try lia; try reflexivity;
    destruct (Z.ltb_spec mx i); destruct (Z.compare_spec i mx); try lia; reflexivity.
Qed.

(* the model is stated over unbounded bounds; for a sequence that fits i32 clamping a bound first changes nothing *)
Theorem convert_index_aux_clamp len x d mn mx :
  0 <= len <= i32_MAX -> -1 <= mn <= mx -> mx <= len ->
  SV.Core.Slice.convert_index_aux len (Some (clamp32 x)) d mn mx = SV.Core.Slice.convert_index_aux len (Some x) d mn mx.
Proof.
  unfold SV.Core.Slice.convert_index_aux, clamp32, i32_MIN, i32_MAX. intros Hl Hmn Hmx. cbv zeta.
  destruct (Z.ltb_spec x (-2147483648)); [|destruct (Z.ltb_spec 2147483647 x)];
    destruct (Z.ltb_spec x 0); try lia;
    try change (-2147483648 <? 0) with true; try change (2147483647 <? 0) with false; cbv iota;
    repeat match goal with |- context [?a <? ?b] => destruct (Z.ltb_spec a b); try lia end; lia.
Qed.

Definition slice_res (len : Z) (s e st : option (option Z)) : rres (Z * Z * Z) :=
  match st with
  | None => RErr E_IncorrectType
  | Some st' =>
    match SV.Core.Slice.convert_slice_indices len (Some 0) (Some 0) st' with
    | None => RErr (E_IndexOutOfBound 0)
    | Some _ =>
      match s, e with
      | Some s', Some e' => match SV.Core.Slice.convert_slice_indices len s' e' st' with
                            | Some r => ROk r | None => RErr (E_IndexOutOfBound 0) end
      | _, _ => RErr E_IncorrectType
      end
    end
  end.

Theorem rs_convert_slice_indices_eq len s e st :
  wfv s -> wfv e -> wfv st ->
  rs_convert_slice_indices len s e st = slice_res len (bnd s) (bnd e) (bnd st).
Proof.
  intros Ws We Wst. unfold rs_convert_slice_indices, slice_res, SV.Core.Slice.convert_slice_indices.
  cbv beta zeta.
  destruct st as [[|r|]|]; cbn [bnd m_is_none isnone_value];
    rewrite ?(rs_unpack_slice_bound_eq _ Wst); cbn [rbind]; cbv beta zeta;
    unfold rs_eqb, rseq_Z;
    rewrite ?ltb0, ?(rs_convert_index_aux_eq _ _ _ _ _ Ws), ?(rs_convert_index_aux_eq _ _ _ _ _ We);
    unfold rs_sub, rs_neg, rs_add, aux_res, m_into; change (- (1)) with (-1);
    try (destruct (clamp32 (den r) =? 0); [reflexivity|]);
    try change (1 =? 0) with false; try change (1 <? 0) with false; cbv iota;
    destruct (bnd s), (bnd e); reflexivity.
Qed.


(* index of at/set_at: no IntegerOverflow for a sequence length, and the model's answer otherwise *)
Theorem rs_convert_index_eq x len :
  0 <= len <= i32_MAX -> wf (Small x) ->
  m_ok (rs_convert_index (VInt (Small x)) len) = SV.Core.Slice.convert_index x len.
Proof.
  intros Hl W. pose proof (wf_small_i32 x W) as Hx. unfold i32_MIN, i32_MAX in *.
  unfold rs_convert_index, i32_unpack_value_err, unpack_i32, SV.Core.Slice.convert_index. cbn [rbind]. cbv zeta.
  rewrite ltb0. destruct (Z.ltb_spec x 0) as [Hn|Hn].
  - unfold m_checked_add, chk32, in_i32, i32min, i32max.
    destruct (Z.leb_spec (-2147483648) (len + x)); [|lia]. destruct (Z.leb_spec (len + x) 2147483647); [|lia].
    cbn [andb m_ok_or rbind]. rewrite ltb0. unfold rs_geb, rs_cmpz, rsord_Z.
    destruct (Z.ltb_spec (len + x) 0); destruct (Z.leb_spec len (len + x)); destruct (Z.compare_spec (len + x) len);
      try lia; reflexivity.
  - rewrite ?ltb0. unfold rs_geb, rs_cmpz, rsord_Z.
    destruct (Z.ltb_spec x 0); destruct (Z.leb_spec len x); destruct (Z.compare_spec x len); try lia; reflexivity.
Qed.

(* ---- starlark_syntax/src/convert_indices.rs ------------------------------------------------------ *)
Definition bound_spec (v limit : Z) : Z := Z.max 0 (Z.min v limit).

Lemma cast_usize_id z : 0 <= z <= i32_MAX -> cast_usize z = z.
Proof. unfold cast_usize, wrap_unsigned, i32_MAX. intros H. change (2 ^ 64) with 18446744073709551616.
  apply Z.mod_small. lia. Qed.

Theorem rs_bound_eq v limit : 0 <= limit <= i32_MAX -> v <= i32_MAX -> rs_bound v limit = bound_spec v limit.
Proof.
  intros Hl Hv. unfold rs_bound, bound_spec, rs_leb, rs_geb, rs_cmpz, rsord_Z.
  destruct (Z.compare_spec v 0); destruct (Z.compare_spec v limit); rewrite ?cast_usize_id by lia; lia.
Qed.

(* both results are inside the string and, when both indices are given, this is Python's clamping rule *)
Theorem rs_convert_indices_spec len s e :
  0 <= len <= i32_MAX ->
  match s with Some x => i32_MIN <= x <= i32_MAX | None => True end ->
  match e with Some x => i32_MIN <= x <= i32_MAX | None => True end ->
  let norm := fun (o : option Z) d => let x := match o with Some x => x | None => d end in if x <? 0 then x + len else x in
  rs_convert_indices len s e = (bound_spec (norm s 0) len, bound_spec (norm e len) len).
Proof.
  intros Hl Hs He. cbv zeta. unfold rs_convert_indices, m_unwrap_or, rs_add. rewrite !ltb0.
  unfold i32_MIN, i32_MAX in *.
  destruct s as [xs|], e as [xe|]; cbv beta iota in Hs, He |- *;
    rewrite !rs_bound_eq; try reflexivity; unfold i32_MAX; rewrite ?ltb0; try lia;
    repeat match goal with |- context [?a <? ?b] => destruct (Z.ltb_spec a b); try lia end; lia.
Qed.

(* ---- values/types/range/range_type.rs ---- *)
Definition i32b (z : Z) : Prop := -2147483648 <= z <= 2147483647.

Lemma cast_i64_small z : i32b z -> cast_i64 z = z.
Proof. unfold i32b, cast_i64, wrap_signed. intros H.
  change (2 ^ (64 - 1)) with 9223372036854775808. change (2 ^ 64) with 18446744073709551616.
  rewrite Z.mod_small by lia. lia. Qed.
Lemma cast_u64_small z : 0 <= z < 4294967296 -> cast_u64 z = z.
Proof. unfold cast_u64, wrap_unsigned. intros H. change (2 ^ 64) with 18446744073709551616.
  apply Z.mod_small. lia. Qed.

Lemma range_len_core d s :
  0 < d < 4294967296 -> 0 < s < 4294967296 ->
  (if 0 <=? cast_i32 (Z.quot (d - 1) s + 1)
   then ROk (cast_i32 (Z.quot (d - 1) s + 1)) else RErr E_IntegerOverflow) =
  (if (d + s - 1) / s <=? 2147483647 then ROk ((d + s - 1) / s) else RErr E_IntegerOverflow).
Proof.
  intros Hd Hs.
  rewrite Z.quot_div_nonneg by lia.
  assert (E : (d + s - 1) / s = (d - 1) / s + 1).
  { replace (d + s - 1) with (d - 1 + 1 * s) by lia. rewrite Z.div_add by lia. reflexivity. }
  rewrite E. set (n := (d - 1) / s + 1).
  assert (Hn : 1 <= n < 4294967296).
  { unfold n. assert (0 <= (d - 1) / s) by (apply Z.div_pos; lia).
    assert ((d - 1) / s <= d - 1) by (apply Z.div_le_upper_bound; nia). lia. }
  unfold cast_i32, wrap_signed. change (2 ^ (32 - 1)) with 2147483648. change (2 ^ 32) with 4294967296.
  destruct (Z.leb_spec n 2147483647) as [H|H].
  - rewrite Z.mod_small by lia. replace (n + 2147483648 - 2147483648) with n by lia.
    destruct (Z.leb_spec 0 n); [reflexivity|lia].
  - replace (n + 2147483648) with (n - 2147483648 + 1 * 4294967296) by lia.
    rewrite Z.mod_add by lia. rewrite Z.mod_small by lia.
    destruct (Z.leb_spec 0 (n - 2147483648 - 2147483648)); [lia|reflexivity].
Qed.

Theorem rs_range_length_eq lo hi st :
  i32b lo -> i32b hi -> i32b st -> st <> 0 ->
  rs_range_length {| f_start := lo; f_stop := hi; f_step := st |} =
  (let n := SV.Core.Values.range_len lo hi st in if n <=? 2147483647 then ROk n else RErr E_IntegerOverflow).
Proof.
  unfold i32b. intros Hlo Hhi Hst Hnz. unfold rs_range_length, SV.Core.Values.range_len. cbv beta zeta.
  cbn [f_start f_stop f_step]. unfold m_get, rs_neb, rs_eqb, rseq_Z, rseq_bool, m_unsigned_abs.
  normZ. rewrite !cast_i64_small by (unfold i32b; lia).
  destruct (Z.eqb_spec lo hi) as [->|Hne].
  - rewrite !Z.ltb_irrefl. destruct (0 <? st); reflexivity.
  - destruct (Z.ltb_spec 0 st) as [Hp|Hp].
    + destruct (Z.leb_spec lo hi) as [H1|H1]; cbn [Bool.eqb negb].
      * destruct (Z.ltb_spec lo hi); [|lia]. destruct (Z.leb_spec 0 st); [|lia]. cbv beta iota.
        unfold rs_sub, rs_add, rs_div, m_into. rewrite !cast_u64_small by lia.
        normZ. rewrite (range_len_core (hi - lo) st) by lia. reflexivity.
      * destruct (Z.ltb_spec lo hi); [lia|]. reflexivity.
    + destruct (Z.leb_spec lo hi) as [H1|H1]; cbn [Bool.eqb negb].
      * destruct (Z.ltb_spec hi lo); [lia|]. reflexivity.
      * destruct (Z.ltb_spec hi lo); [|lia]. destruct (Z.leb_spec 0 st); [lia|]. cbv beta iota.
        unfold rs_sub, rs_add, rs_div, m_into. rewrite !cast_u64_small by lia. rewrite Z.abs_neq by lia.
        normZ. rewrite (range_len_core (lo - hi) (- st)) by lia.
        replace (lo - hi + - st - 1) with (lo - hi - st - 1) by lia. reflexivity.
Qed.

Theorem rs_range_to_bool_eq lo hi st :
  st <> 0 -> rs_range_to_bool {| f_start := lo; f_stop := hi; f_step := st |} = (0 <? SV.Core.Values.range_len lo hi st).
Proof.
  intros Hnz. unfold rs_range_to_bool, SV.Core.Values.range_len, m_get. cbn [f_start f_stop f_step].
  normZ.
  destruct (Z.ltb_spec 0 st), (Z.ltb_spec st 0), (Z.ltb_spec lo hi), (Z.ltb_spec hi lo); try lia;
    cbn [andb orb]; try reflexivity; symmetry; apply Z.ltb_lt; apply Z.div_str_pos; lia.
Qed.

(* `x in range(..)`: for an i32 candidate, exactly the members start + k*step, 0 <= k < len *)
Theorem rs_range_is_in_spec lo hi st x :
  i32b lo -> i32b hi -> i32b st -> st <> 0 -> wf (Small x) ->
  rs_range_is_in {| f_start := lo; f_stop := hi; f_step := st |} (VInt (Small x)) =
  ROk (if 0 <? st then (lo <=? x) && (x <? hi) && ((x - lo) mod st =? 0)
       else (hi <? x) && (x <=? lo) && ((lo - x) mod (- st) =? 0)).
Proof.
  unfold i32b. intros Hlo Hhi Hst Hnz Wx. pose proof (wf_small_i32 x Wx) as Hx. unfold i32_MIN, i32_MAX in Hx.
  unfold rs_range_is_in. cbv beta zeta. cbn [m_unpack_num StarlarkIntRef_unpack m_and_then m_as_int unpack_i32].
  unfold rs_range_to_bool, rs_not, m_get, rs_eqb, rseq_Z, m_unsigned_abs, m_is_multiple_of, rs_sub.
  cbn [f_start f_stop f_step]. normZ. rewrite !cast_i64_small by (unfold i32b; lia).
  destruct (Z.ltb_spec 0 st) as [Hp|Hp].
  - destruct (Z.ltb_spec st 0); [lia|]. rewrite andb_false_r, orb_false_r, andb_true_r.
    destruct (Z.ltb_spec lo hi) as [H1|H1]; cbn [negb].
    + destruct (Z.eqb_spec lo x) as [->|Hne].
      * destruct (Z.leb_spec x x); [|lia]. destruct (Z.ltb_spec x hi); [|lia].
        replace (x - x) with 0 by lia. rewrite Z.mod_0_l by lia. reflexivity.
      * destruct (Z.ltb_spec x lo); destruct (Z.leb_spec hi x); destruct (Z.leb_spec lo x); destruct (Z.ltb_spec x hi);
          try lia; cbn [orb andb]; try reflexivity.
        rewrite !cast_u64_small by lia. destruct (Z.eqb_spec st 0); [lia|]. reflexivity.
    + destruct (Z.leb_spec lo x); destruct (Z.ltb_spec x hi); try lia; reflexivity.
  - destruct (Z.ltb_spec st 0); [|lia]. rewrite andb_false_r, andb_true_r. cbn [orb].
    destruct (Z.ltb_spec hi lo) as [H1|H1]; cbn [negb].
    + destruct (Z.eqb_spec lo x) as [->|Hne].
      * destruct (Z.ltb_spec hi x); [|lia]. destruct (Z.leb_spec x x); [|lia].
        replace (x - x) with 0 by lia. rewrite Z.mod_0_l by lia. reflexivity.
      * destruct (Z.ltb_spec lo x); destruct (Z.leb_spec x hi); destruct (Z.ltb_spec hi x); destruct (Z.leb_spec x lo);
          try lia; cbn [orb andb]; try reflexivity.
        rewrite !cast_u64_small by lia. rewrite Z.abs_neq by lia. destruct (Z.eqb_spec (- st) 0); [lia|]. reflexivity.
    + destruct (Z.ltb_spec hi x); destruct (Z.leb_spec x lo); try lia; reflexivity.
Qed.

(* range == range: decides equality of the two arithmetic progressions *)
Definition range_seq (lo st : Z) (n : nat) : list Z := map (fun k => lo + Z.of_nat k * st) (seq 0 n).

Lemma range_seq_eq lo1 st1 lo2 st2 n1 n2 :
  range_seq lo1 st1 n1 = range_seq lo2 st2 n2 <->
  n1 = n2 /\ (n1 = O \/ (lo1 = lo2 /\ (n1 = 1%nat \/ st1 = st2))).
Proof.
  unfold range_seq. split.
  - intros H. assert (L : n1 = n2).
    { apply (f_equal (@length Z)) in H. rewrite !map_length, !seq_length in H. exact H. }
    subst n2. split; [reflexivity|]. destruct n1 as [|[|n]]; [left; reflexivity| |].
    + right. change (seq 0 1) with [0%nat] in H. cbn [map] in H. injection H as H. change (Z.of_nat 0) with 0 in H.
      split; [lia|left; reflexivity].
    + right. change (seq 0 (S (S n))) with (0%nat :: 1%nat :: seq 2 n) in H. rewrite !map_cons in H.
      pose proof (f_equal (@hd Z 0) H) as H0. pose proof (f_equal (fun l => hd 0 (tl l)) H) as H1.
      cbn [hd tl] in H0, H1. change (Z.of_nat 0) with 0 in H0. change (Z.of_nat 1) with 1 in H1.
      split; [lia|right; lia].
  - intros [-> [->|[-> [->| ->]]]]; reflexivity.
Qed.

Theorem rs_range_equals_spec lo1 hi1 st1 lo2 hi2 st2 :
  i32b lo1 -> i32b hi1 -> i32b st1 -> st1 <> 0 -> i32b lo2 -> i32b hi2 -> i32b st2 -> st2 <> 0 ->
  let n1 := SV.Core.Values.range_len lo1 hi1 st1 in
  let n2 := SV.Core.Values.range_len lo2 hi2 st2 in
  n1 <= 2147483647 -> n2 <= 2147483647 ->
  exists b, rs_range_equals_range {| f_start := lo1; f_stop := hi1; f_step := st1 |}
                                  {| f_start := lo2; f_stop := hi2; f_step := st2 |} = ROk b /\
            (b = true <-> range_seq lo1 st1 (Z.to_nat n1) = range_seq lo2 st2 (Z.to_nat n2)).
Proof.
  intros A1 A2 A3 A4 B1 B2 B3 B4 n1 n2 L1 L2.
  assert (P1 : 0 <= n1).
  { unfold n1, SV.Core.Values.range_len. repeat match goal with |- context [?a <? ?b] => destruct (Z.ltb_spec a b) end;
      try lia; apply Z.div_pos; lia. }
  assert (P2 : 0 <= n2).
  { unfold n2, SV.Core.Values.range_len. repeat match goal with |- context [?a <? ?b] => destruct (Z.ltb_spec a b) end;
      try lia; apply Z.div_pos; lia. }
  unfold rs_range_equals_range. rewrite (rs_range_length_eq _ _ _ A1 A2 A3 A4), (rs_range_length_eq _ _ _ B1 B2 B3 B4).
  cbv zeta. fold n1 n2. destruct (Z.leb_spec n1 2147483647) as [_|Hx]; [|lia]. destruct (Z.leb_spec n2 2147483647) as [_|Hx]; [|lia].
  cbn [rbind f_start f_step]. unfold rs_neb, rs_eqb, rseq_Z, m_get. setoid_rewrite range_seq_eq.
  destruct (Z.eqb_spec n1 0) as [E1|E1]; [|destruct (Z.eqb_spec n2 0) as [E2|E2]]; cbn [orb].
  - eexists; split; [reflexivity|]. rewrite E1. destruct (Z.eqb_spec 0 n2) as [E|E].
    + rewrite <- E. cbn. split; [intros _; split; [reflexivity|left; reflexivity]|reflexivity].
    + split; [discriminate|]. intros [H _]. cbn in H. lia.
  - eexists; split; [reflexivity|]. rewrite E2. destruct (Z.eqb_spec n1 0); [lia|].
    split; [discriminate|]. intros [H _]. cbn in H. lia.
  - destruct (Z.eqb_spec lo1 lo2) as [El|El]; cbn [negb].
    + destruct (Z.eqb_spec n1 1) as [F1|F1]; [|destruct (Z.eqb_spec n2 1) as [F2|F2]]; cbn [orb].
      * eexists; split; [reflexivity|]. rewrite F1. destruct (Z.eqb_spec 1 n2) as [E|E].
        -- rewrite <- E. split; [intros _|reflexivity]. split; [reflexivity|right; split; [exact El|left; reflexivity]].
        -- split; [discriminate|]. intros [H _]. change (Z.to_nat 1) with 1%nat in H. lia.
      * eexists; split; [reflexivity|]. rewrite F2. destruct (Z.eqb_spec n1 1); [lia|].
        split; [discriminate|]. intros [H _]. change (Z.to_nat 1) with 1%nat in H. lia.
      * destruct (Z.eqb_spec st1 st2) as [Es|Es].
        -- eexists; split; [reflexivity|]. destruct (Z.eqb_spec n1 n2) as [E|E].
           ++ split; [intros _|reflexivity]. split; [rewrite E; reflexivity|right; split; [exact El|right; exact Es]].
           ++ split; [discriminate|]. intros [H _]. lia.
        -- eexists; split; [reflexivity|]. split; [discriminate|].
           intros [_ [H|[_ [H|H]]]]; [lia| |contradiction]. change 1%nat with (Z.to_nat 1) in H. lia.
    + eexists; split; [reflexivity|]. split; [discriminate|]. intros [_ [H|[H _]]]; [lia|contradiction].
Qed.

Example source_index_nonvacuous :
  rs_convert_slice_indices 5 (Some (VInt (Big (- 2 ^ 40)))) None (Some (VInt (Small (-1)))) = ROk (-1, -1, -1) /\
  rs_convert_slice_indices 5 None None (Some (VInt (Small 0))) = RErr (E_IndexOutOfBound 0) /\
  rs_convert_indices 3 (Some (-5)) (Some (-100)) = (0, 0).
Proof. repeat split; vm_compute; reflexivity. Qed.
