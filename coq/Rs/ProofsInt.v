(* The function bodies translated from /repo's sources on this run (Extracted/Rs*.v) are equal, for all inputs, to
   the hand-written models the property theorems are stated about (DESIGN 10.6).  One proof file per property so
   that a source file the translator can no longer read concerns only the property stated about it. *)
From Coq Require Import ZArith Bool List Lia.
Import ListNotations.
From SV Require Import Extracted.IntC Int.Model Int.Proofs Rs.Prelude Rs.Common.
From SV Require Import Extracted.RsInline Extracted.RsBig Extracted.RsInt.
Open Scope Z_scope.

Lemma in_inline_i32 z : in_inline z = true -> in_i32 z = true.
Proof. unfold in_inline. intros H. apply andb_true_iff in H. tauto. Qed.

Lemma checked_alt z : checked z = if in_i32 z then (if in_inline z then Some z else None) else None.
Proof. unfold checked. destruct (in_i32 z); reflexivity. Qed.

Lemma try_ok z : m_ok (InlineInt_try_from z) = if in_inline z then Some z else None.
Proof. unfold InlineInt_try_from. destruct (in_inline z); reflexivity. Qed.

Ltac chk := unfold m_and_then, chk32; rewrite ?checked_alt;
  repeat match goal with |- context [in_i32 ?z] => destruct (in_i32 z) eqn:? end; rewrite ?try_ok; try reflexivity.

(* ---- inline_int.rs ------------------------------------------------------------------------------ *)
Theorem rs_checked_add_eq a b : rs_II_checked_add a b = checked (a + b).
Proof. unfold rs_II_checked_add, m_checked_add. chk. Qed.
Theorem rs_checked_sub_eq a b : rs_II_checked_sub a b = checked (a - b).
Proof. unfold rs_II_checked_sub, rs_II_checked_sub_i32, m_checked_sub. chk. Qed.
Theorem rs_checked_sub_i32_eq a b : rs_II_checked_sub_i32 a b = checked (a - b).
Proof. unfold rs_II_checked_sub_i32, m_checked_sub. chk. Qed.
Theorem rs_checked_neg_eq a : rs_II_checked_neg a = checked (- a).
Proof. unfold rs_II_checked_neg, m_checked_neg. chk. Qed.
Theorem rs_checked_mul_i32_eq a b : rs_II_checked_mul_i32 a b = checked (a * b).
Proof. unfold rs_II_checked_mul_i32, m_checked_mul. chk. Qed.
Theorem rs_checked_div_eq a b : rs_II_checked_div a b = checked_div a b.
Proof. unfold rs_II_checked_div, m_checked_div, checked_div. destruct (b =? 0); [reflexivity|]. chk. Qed.
Theorem rs_checked_shr_eq a n : rs_II_checked_shr a n = checked_shr a n.
Proof.
  unfold rs_II_checked_shr, m_checked_shr, checked_shr. destruct (32 <=? n); [reflexivity|].
  unfold m_and_then. rewrite try_ok, checked_alt.
  destruct (in_inline (Z.shiftr a n)) eqn:E.
  - rewrite (in_inline_i32 _ E). reflexivity.
  - destruct (in_i32 _); reflexivity.
Qed.

Lemma cast_i64_id a : in_i32 a = true -> cast_i64 a = a.
Proof.
  unfold in_i32, i32min, i32max, cast_i64, wrap_signed. intros H.
  apply andb_true_iff in H. destruct H as [H1 H2]. apply Z.leb_le in H1. apply Z.leb_le in H2.
  change (2 ^ (64 - 1)) with 9223372036854775808. change (2 ^ 64) with 18446744073709551616.
  rewrite Z.mod_small by lia. lia.
Qed.

Theorem rs_checked_shl_eq a n : in_i32 a = true -> rs_II_checked_shl a n = checked_shl a n.
Proof.
  intros Ha. unfold rs_II_checked_shl, checked_shl, rs_geb, rs_cmpz, rsord_Z, rs_shl.
  rewrite (cast_i64_id _ Ha), try_ok.
  destruct (Z.leb_spec 32 n) as [H|H]; destruct (Z.compare_spec n 32); try lia; reflexivity.
Qed.

Theorem rs_min_max_for_bits_eq : rs_II_min_max_for_bits InlineInt_BITS = (imin, imax).
Proof. vm_compute. reflexivity. Qed.

Theorem rs_II_abs_eq a : rs_II_abs a = abs (Small a).
Proof. unfold rs_II_abs, m_checked_abs, chk32, abs, StarlarkInt_from, m_abs, rs_II_to_bigint, BigInt_from.
  destruct (in_i32 (Z.abs a)); reflexivity. Qed.

Theorem rs_II_signum_eq a : rs_II_signum a = Z.sgn a.
Proof. reflexivity. Qed.

(* ---- int_or_big.rs ------------------------------------------------------------------------------- *)
Definition err_kind (e : rerr) : err :=
  match e with
  | E_FloorDivisionByZero _ _ => FloorDivisionByZero
  | E_ModuloByZero _ _ => ModuloByZero
  | E_LeftShiftOverflow => LeftShiftOverflow
  | E_LeftShiftNegative => LeftShiftNegative
  | E_RightShiftNegative => RightShiftNegative
  | _ => Unreachable
  end.
Definition to_res (r : rres rep) : res := match r with ROk a => Ok a | RErr e => Err (err_kind e) end.

Lemma sgn_sign a : rs_signum_big a = Z.sgn a.
Proof. destruct a; reflexivity. Qed.

Lemma sign_neb a b : rs_neb (m_sign a) (m_sign b) = negb (Z.sgn a =? Z.sgn b).
Proof. destruct a, b; reflexivity. Qed.

Lemma ltb0 (z : Z) : rs_ltb z 0 = (z <? 0).
Proof. unfold rs_ltb, rs_cmpz, rsord_Z, Z.ltb. destruct (z ?= 0); reflexivity. Qed.

Theorem rs_floor_div_big_eq a b : to_res (rs_floor_div_big_big a b) = floor_div_big a b.
Proof.
  unfold rs_floor_div_big_big, floor_div_big, m_is_zero, m_not, rs_mul, rsmul_Z, rs_rem, rs_div, rs_sub, m_into,
    StarlarkInt_from. rewrite !sgn_sign, ltb0.
  destruct (b =? 0); reflexivity.
Qed.

Theorem rs_floor_div_small_eq a b : to_res (rs_floor_div_small_small a b) = floor_div_small a b.
Proof.
  unfold rs_floor_div_small_small, floor_div_small. unfold rs_eqb at 1. unfold rseq_Z.
  destruct (b =? 0); [reflexivity|].
  rewrite rs_checked_div_eq. unfold rs_II_signum, m_signum, rs_mul, rsmul_Z, rs_rem, rs_neb, rs_eqb, rseq_Z.
  rewrite ltb0. destruct (checked_div a b) as [d|].
  - rewrite rs_checked_sub_i32_eq. unfold m_ok_or_else. destruct (checked _); reflexivity.
  - unfold rs_II_to_bigint, BigInt_from. apply rs_floor_div_big_eq.
Qed.

Theorem rs_floor_div_eq a b : to_res (rs_floor_div a b) = floor_div a b.
Proof.
  destruct a as [x|x], b as [y|y]; unfold rs_floor_div, floor_div, m_get, rs_II_to_bigint, BigInt_from;
    cbn [den]; first [apply rs_floor_div_small_eq | apply rs_floor_div_big_eq].
Qed.

Definition to_res_z (r : rres Z) : res := match r with ROk a => Ok (Small a) | RErr e => Err (err_kind e) end.

Theorem rs_percent_small_eq a b : to_res_z (rs_percent_small a b) = percent_small a b.
Proof.
  unfold rs_percent_small, percent_small, rs_neb, rs_eqb, rseq_Z, rs_rem, rs_neg, rs_II_signum, m_signum,
    InlineInt_ZERO, i32_MIN, i32min.
  destruct (b =? 0); [reflexivity|].
  change (- (1)) with (-1).
  destruct ((a =? -2147483648) && (b =? -1)); [reflexivity|].
  destruct (Z.rem a b =? 0); [reflexivity|].
  destruct (negb (Z.sgn b =? Z.sgn (Z.rem a b))); [|reflexivity].
  rewrite rs_checked_add_eq. unfold m_ok_or_else. destruct (checked _); reflexivity.
Qed.

Theorem rs_percent_big_eq a b : to_res (rs_percent_big a b) = percent_big a b.
Proof.
  unfold rs_percent_big, percent_big, m_is_zero, rs_rem, rs_add, StarlarkInt_from, InlineInt_ZERO.
  destruct (b =? 0); [reflexivity|]. destruct (Z.rem a b =? 0); [reflexivity|].
  rewrite sign_neb. reflexivity.
Qed.

Theorem rs_percent_eq a b : to_res (rs_percent a b) = percent a b.
Proof.
  destruct a as [x|x], b as [y|y]; unfold rs_percent, percent, m_get, rs_II_to_bigint, BigInt_from; cbn [den];
    try apply rs_percent_big_eq.
  rewrite <- rs_percent_small_eq. destruct (rs_percent_small x y); reflexivity.
Qed.

Lemma rs_is_negative_eq a : rs_is_negative a = is_negative a.
Proof. destruct a; unfold rs_is_negative, is_negative, m_is_negative, m_get; cbn [den]; [apply ltb0|reflexivity]. Qed.
Lemma rs_is_zero_eq a : rs_is_zero a = is_zero a.
Proof. destruct a; reflexivity. Qed.
Lemma rs_to_owned_eq a : rs_SIR_to_owned a = a.
Proof. destruct a; reflexivity. Qed.
Lemma rs_to_big_eq a : rs_SIR_to_big a = den a.
Proof. destruct a; reflexivity. Qed.
Lemma rs_to_u32_eq b : rs_II_to_u32 b = if 0 <=? b then Some b else None.
Proof. unfold rs_II_to_u32, u32_try_from. destruct (0 <=? b); reflexivity. Qed.
Lemma rs_to_u64_eq b : rs_II_to_u64 b = if 0 <=? b then Some b else None.
Proof. unfold rs_II_to_u64, u64_try_from. destruct (0 <=? b); reflexivity. Qed.

Lemma gtb_rep (a : rep) z : rs_gtb a z = (z <? den a).
Proof. unfold rs_gtb, rs_cmpz, rsord_rep. rewrite Z.ltb_antisym, Z.leb_compare. destruct (den a ?= z); reflexivity. Qed.

Theorem rs_left_shift_eq a b : wf a -> wf b -> to_res (rs_left_shift a b) = left_shift a b.
Proof.
  intros Wa Wb. unfold rs_left_shift, left_shift.
  rewrite rs_is_negative_eq, !rs_is_zero_eq, rs_to_owned_eq, rs_to_big_eq, gtb_rep.
  change 100000 with shl_cap.
  assert (Tail : to_res
    (if is_negative b then RErr (m_into E_LeftShiftNegative)
     else if is_zero a || is_zero b then ROk a
     else if shl_cap <? den b then RErr (m_into E_LeftShiftOverflow)
     else match b with
          | Big _ => RErr (m_into E_LeftShiftOverflow)
          | Small b0 => rbind (m_unwrap (rs_II_to_u64 b0)) (fun q => ROk (StarlarkInt_from (rs_shl (den a) q)))
          end) =
    (if is_negative b then Err LeftShiftNegative
     else if is_zero a || is_zero b then Ok a
     else if shl_cap <? den b then Err LeftShiftOverflow
     else match b with Big _ => Err LeftShiftOverflow | Small y => Ok (canon (Z.shiftl (den a) y)) end)).
  { unfold is_negative. destruct (Z.ltb_spec (den b) 0) as [Hn|Hn]; [reflexivity|].
    destruct (is_zero a || is_zero b); [reflexivity|]. destruct (shl_cap <? den b); [reflexivity|].
    destruct b as [y|y]; [|reflexivity]. cbn [den] in Hn. rewrite rs_to_u64_eq.
    destruct (Z.leb_spec 0 y); [reflexivity|lia]. }
  destruct a as [x|x], b as [y|y]; try exact Tail.
  rewrite rs_to_u32_eq. destruct (0 <=? y); [|exact Tail].
  rewrite rs_checked_shl_eq by (apply in_inline_i32; exact Wa).
  destruct (checked_shl x y); [reflexivity|exact Tail].
Qed.

Theorem rs_right_shift_eq a b : wf a -> wf b -> to_res (rs_right_shift a b) = right_shift a b.
Proof.
  intros Wa Wb. unfold rs_right_shift, right_shift.
  rewrite !rs_is_negative_eq, !rs_is_zero_eq, rs_to_owned_eq.
  assert (Tail : to_res
    (if is_negative b then RErr (m_into E_RightShiftNegative)
     else if is_zero a || is_zero b then ROk a
     else match rs_SIR_to_u64 b with
          | Some other => match a with
                          | Small a0 => if rs_ltb a0 0 then ROk (Small InlineInt_MINUS_ONE) else ROk (Small InlineInt_ZERO)
                          | Big a0 => ROk (StarlarkInt_from (rs_shr (m_get a0) other))
                          end
          | None => if is_negative a then ROk (Small InlineInt_MINUS_ONE) else ROk (Small InlineInt_ZERO)
          end) =
    (if is_negative b then Err RightShiftNegative
     else if is_zero a || is_zero b then Ok a
     else if u64max <? den b then Ok (Small (if is_negative a then -1 else 0))
     else match a with
          | Small x => Ok (Small (if x <? 0 then -1 else 0))
          | Big x => Ok (canon (shiftr_fast x (den b)))
          end)).
  { unfold is_negative at 1 3. destruct (Z.ltb_spec (den b) 0) as [Hn|Hn]; [reflexivity|].
    destruct (is_zero a || is_zero b); [reflexivity|].
    assert (Hu : rs_SIR_to_u64 b = if u64max <? den b then None else Some (den b)).
    { destruct b as [y|y]; unfold rs_SIR_to_u64; cbn [den] in *.
      - rewrite rs_to_u64_eq. destruct (Z.leb_spec 0 y); [|lia].
        destruct (Z.ltb_spec u64max y) as [H1|H1]; [|reflexivity].
        exfalso. unfold wf in Wb. apply in_inline_i32 in Wb. unfold in_i32, i32max in Wb.
        apply andb_true_iff in Wb. destruct Wb as [_ W2]. apply Z.leb_le in W2. unfold u64max in H1. lia.
      - unfold m_to_u64, m_get, u64max. destruct (Z.leb_spec 0 y); [|lia]. cbn [andb].
        destruct (Z.leb_spec y 18446744073709551615); destruct (Z.ltb_spec 18446744073709551615 y); try lia; reflexivity. }
    rewrite Hu. destruct (u64max <? den b).
    - unfold is_negative. destruct (den a <? 0); reflexivity.
    - destruct a as [x|x].
      + rewrite ltb0. destruct (x <? 0); reflexivity.
      + unfold StarlarkInt_from, rs_shr, m_get. rewrite shiftr_fast_eq by assumption. reflexivity. }
  destruct a as [x|x], b as [y|y]; try exact Tail.
  rewrite rs_to_u32_eq. destruct (0 <=? y); [|exact Tail].
  rewrite rs_checked_shr_eq. destruct (checked_shr x y); [reflexivity|exact Tail].
Qed.

Theorem rs_abs_eq a : rs_abs a = abs a.
Proof. destruct a as [x|x]; unfold rs_abs; [apply rs_II_abs_eq|reflexivity]. Qed.

(* operators: + - * unary - & | ^ ~ and the ordering *)
Theorem rs_add_eq a b : rs_add_sir a b = add a b.
Proof. destruct a as [x|x], b as [y|y]; unfold rs_add_sir, add; cbv beta zeta; rewrite ?rs_to_big_eq; try reflexivity.
  rewrite rs_checked_add_eq. destruct (checked (x + y)); reflexivity. Qed.
Theorem rs_sub_eq a b : rs_sub_sir a b = sub a b.
Proof. destruct a as [x|x], b as [y|y]; unfold rs_sub_sir, sub; cbv beta zeta; rewrite ?rs_to_big_eq; try reflexivity.
  rewrite rs_checked_sub_eq. destruct (checked (x - y)); reflexivity. Qed.
Theorem rs_neg_eq a : rs_neg_sir a = neg a.
Proof. destruct a as [x|x]; unfold rs_neg_sir, neg; cbv beta zeta; rewrite ?rs_to_big_eq; try reflexivity.
  rewrite rs_checked_neg_eq. destruct (checked (- x)); reflexivity. Qed.
Theorem rs_mul_i32_eq a r : rs_mul_i32_sir a r = mul_i32 a r.
Proof. destruct a as [x|x]; unfold rs_mul_i32_sir, mul_i32; cbv beta zeta; try reflexivity.
  rewrite rs_checked_mul_i32_eq. destruct (checked (x * r)); reflexivity. Qed.
Theorem rs_mul_eq a b : rs_mul_sir a b = mul a b.
Proof. destruct a as [x|x], b as [y|y]; unfold rs_mul_sir, mul, rs_mul, rsmul_Z_rep, rsmul_rep_Z, rs_II_to_i32;
  rewrite ?rs_mul_i32_eq; reflexivity. Qed.
Theorem rs_bitand_eq a b : rs_bitand a b = bit_and a b.
Proof. destruct a, b; reflexivity. Qed.
Theorem rs_bitor_eq a b : rs_bitor a b = bit_or a b.
Proof. destruct a, b; reflexivity. Qed.
Theorem rs_bitxor_eq a b : rs_bitxor a b = bit_xor a b.
Proof. destruct a, b; reflexivity. Qed.
Theorem rs_bitnot_eq a : rs_bitnot a = bit_not a.
Proof. destruct a; reflexivity. Qed.
Theorem rs_cmp_eq a b : rs_cmp_sir a b = compare a b.
Proof.
  destruct a as [x|x], b as [y|y]; unfold rs_cmp_sir, compare, rs_cmp_big_small, rs_cmp_small_big, cmp_small_big,
    m_cmp, m_reverse, f_value, rs_II_signum, m_signum; try reflexivity.
  - destruct y; reflexivity.
  - destruct x; reflexivity.
Qed.

(* `.unwrap()` in left_shift never panics and the "unreachable" anyhow! errors are unreachable *)
Theorem rs_left_shift_no_panic a b : wf a -> wf b -> rs_left_shift a b <> RErr E_Panic.
Proof.
  intros Wa Wb H. pose proof (rs_left_shift_eq a b Wa Wb) as E. rewrite H in E. cbn in E.
  pose proof (shl_exact a b Wa Wb) as X. rewrite <- E in X. exact X.
Qed.

(* the `anyhow!("unreachable")` errors of floor_div_small_small / percent_small are unreachable *)
Theorem rs_floor_div_no_unreachable a b : wf a -> wf b -> rs_floor_div a b <> RErr E_anyhow.
Proof.
  intros Wa Wb H. pose proof (rs_floor_div_eq a b) as E. rewrite H in E. cbn in E.
  pose proof (floor_div_exact a b Wa Wb) as X. rewrite <- E in X. exact X.
Qed.
Theorem rs_percent_no_unreachable a b : wf a -> wf b -> rs_percent a b <> RErr E_anyhow.
Proof.
  intros Wa Wb H. pose proof (rs_percent_eq a b) as E. rewrite H in E. cbn in E.
  pose proof (percent_exact a b Wa Wb) as X. rewrite <- E in X. exact X.
Qed.

(* ---- the property statements of C10, about the functions as translated from the source ---------- *)
Theorem source_floor_div_exact a b : wf a -> wf b -> div_post (den a) (den b) (to_res (rs_floor_div a b)).
Proof. intros. rewrite rs_floor_div_eq. apply floor_div_exact; assumption. Qed.
Theorem source_percent_exact a b : wf a -> wf b -> mod_post (den a) (den b) (to_res (rs_percent a b)).
Proof. intros. rewrite rs_percent_eq. apply percent_exact; assumption. Qed.
Theorem source_shl_exact a b : wf a -> wf b -> shl_post (den a) (den b) (to_res (rs_left_shift a b)).
Proof. intros. rewrite rs_left_shift_eq by assumption. apply shl_exact; assumption. Qed.
Theorem source_shr_exact a b : wf a -> wf b -> - 2 ^ Int.Model.u64max <= den a < 2 ^ Int.Model.u64max ->
  shr_post (den a) (den b) (to_res (rs_right_shift a b)).
Proof. intros. rewrite rs_right_shift_eq by assumption. apply shr_exact; assumption. Qed.
Theorem source_abs_exact a : wf a -> wf (rs_abs a) /\ den (rs_abs a) = Z.abs (den a).
Proof. intros. rewrite rs_abs_eq. apply abs_exact; assumption. Qed.
Theorem source_arith_exact a b : wf a -> wf b ->
  (wf (rs_add_sir a b) /\ den (rs_add_sir a b) = den a + den b) /\
  (wf (rs_sub_sir a b) /\ den (rs_sub_sir a b) = den a - den b) /\
  (wf (rs_mul_sir a b) /\ den (rs_mul_sir a b) = den a * den b) /\
  (wf (rs_neg_sir a) /\ den (rs_neg_sir a) = - den a) /\
  (wf (rs_bitand a b) /\ den (rs_bitand a b) = Z.land (den a) (den b)) /\
  (wf (rs_bitor a b) /\ den (rs_bitor a b) = Z.lor (den a) (den b)) /\
  (wf (rs_bitxor a b) /\ den (rs_bitxor a b) = Z.lxor (den a) (den b)) /\
  (wf (rs_bitnot a) /\ den (rs_bitnot a) = Z.lnot (den a)) /\
  rs_cmp_sir a b = Z.compare (den a) (den b).
Proof.
  intros Wa Wb. rewrite rs_add_eq, rs_sub_eq, rs_mul_eq, rs_neg_eq, rs_bitand_eq, rs_bitor_eq, rs_bitxor_eq,
    rs_bitnot_eq, rs_cmp_eq.
  repeat split; first [ apply add_exact | apply sub_exact | apply mul_exact | apply neg_exact | apply and_exact
                      | apply or_exact | apply xor_exact | apply not_exact | apply compare_exact ]; assumption.
Qed.
(* the checked_* fast paths of InlineInt answer exactly when the exact result is an InlineInt *)
Theorem source_checked_ops a b :
  rs_II_checked_add a b = (if in_inline (a + b) then Some (a + b) else None) /\
  rs_II_checked_sub a b = (if in_inline (a - b) then Some (a - b) else None) /\
  rs_II_checked_mul_i32 a b = (if in_inline (a * b) then Some (a * b) else None) /\
  rs_II_checked_neg a = (if in_inline (- a) then Some (- a) else None).
Proof.
  rewrite rs_checked_add_eq, rs_checked_sub_eq, rs_checked_mul_i32_eq, rs_checked_neg_eq. unfold checked.
  repeat split; match goal with |- context [in_inline ?z] => destruct (in_inline z) eqn:E end;
    rewrite ?(in_inline_i32 _ E); try reflexivity; destruct (in_i32 _); reflexivity.
Qed.

Example source_nonvacuous :
  to_res (rs_floor_div (Small (-2147483648)) (Small (-1))) = Ok (Big 2147483648) /\
  to_res (rs_percent (Big (- 2 ^ 70 - 1)) (Small 7)) = Ok (Small 4) /\
  to_res (rs_left_shift (Small 1) (Small 40)) = Ok (Big (2 ^ 40)) /\
  to_res (rs_right_shift (Big (2 ^ 40)) (Small 39)) = Ok (Small 2).
Proof. repeat split; vm_compute; reflexivity. Qed.
