(* C12 - the lock is a COUNTER: overlapping iterations of one container, and the two ways of weakening iter_stop that a
   counter rules out.

   Rust anchors (starlark/src):
   - values/types/array.rs   Array::inc_iter_count / dec_iter_count : `iter_count += 1` / `iter_count -= 1`
   - values/types/dict/value.rs, set/value.rs   iter_start = leak one shared RefCell borrow ; iter_stop = unleak ONE borrow
   - values/iter.rs          StarlarkIterator::next : iter_stop only when iter_next returned None (i.e. AFTER the consumer has
                             handled the last element) ; Drop : iter_stop if not yet stopped

   Iterations are seen here as a trace of events on one container: an iteration starts (iterate), an iteration stops (iter_stop),
   somebody attempts a mutation.  [replay] is parametrised by the implementation of iter_stop so that the weakened variants
   (stop resets the counter; a native consumer stops before the body of the last element) can be run and refuted next to the
   real one - the same treatment as the flag [fx] of Lock/Bc.v for the error exit. *)
From Coq Require Import ZArith List Bool Arith Lia.
From SV Require Import Lock.Model Lock.Bc Lock.Proofs.
Import ListNotations.
Open Scope nat_scope.

(* ---- n iterations of a start, m of them stop ---- *)
Fixpoint lock_n (n : nat) (st : store) (a : addr) : store :=
  match n with
  | O => st
  | S k => match lock st a with Some st1 => lock_n k st1 a | None => st end
  end.
Fixpoint unlock_n (m : nat) (st : store) (a : addr) : store :=
  match m with O => st | S k => unlock_n k (unlock st a) a end.

Lemma lock_defined : forall st a c, st a = Some c -> exists st1, lock st a = Some st1 /\ st1 a = Some (mkCell (c_val c) (S (c_iters c))).
Proof.
  intros st a c E; unfold lock; rewrite E; eexists; split; [reflexivity|].
  unfold upd; rewrite Nat.eqb_refl; reflexivity.
Qed.

Lemma cnt_lock_n : forall n st a c, st a = Some c -> iter_count (lock_n n st a) a = c_iters c + n.
Proof.
  induction n as [|n IH]; intros st a c E; simpl.
  - unfold iter_count; rewrite E; lia.
  - destruct (lock_defined st a c E) as [st1 [L E1]]; rewrite L, (IH st1 a _ E1); simpl; lia.
Qed.

Lemma cnt_unlock_n : forall m st a, iter_count (unlock_n m st a) a = iter_count st a - m.
Proof.
  induction m as [|m IH]; intros st a; simpl; [lia|].
  rewrite IH, cnt_unlock, d_self; lia.
Qed.

(* after n starts and m stops the count is exactly what it was plus n - m: no stop releases more than its own unit *)
Lemma nested_count : forall st a c n m, st a = Some c ->
  iter_count (unlock_n m (lock_n n st a) a) a = c_iters c + n - m.
Proof. intros st a c n m E; rewrite cnt_unlock_n, (cnt_lock_n n st a c E); reflexivity. Qed.

(* ... hence while fewer iterations have stopped than have started, every well-formed mutation request is refused *)
Lemma nested_keeps_locked : forall st a c n m o, st a = Some c -> m < n ->
  pre_ok o (unlock_n m (lock_n n st a) a) a = true ->
  mutate o (unlock_n m (lock_n n st a) a) a = (Err MutateWhileIter, unlock_n m (lock_n n st a) a).
Proof.
  intros st a c n m o E L P; apply mutation_blocked; [|exact P].
  rewrite (nested_count st a c n m E); lia.
Qed.

(* ---- traces ---- *)
Inductive ev := EStart | EStop | ETry (o : op).

(* the outcomes of the attempts of a trace on container a, with [stop] as implementation of iter_stop *)
Fixpoint replay (stop : store -> addr -> store) (a : addr) (evs : list ev) (st : store) : list res * store :=
  match evs with
  | [] => ([], st)
  | EStart :: t => match lock st a with Some st1 => replay stop a t st1 | None => ([], st) end
  | EStop :: t => replay stop a t (stop st a)
  | ETry o :: t =>
      let '(r, st1) := mutate o st a in
      let '(rs, st2) := replay stop a t st1 in (r :: rs, st2)
  end.

(* [live] iterations are in progress; a stop needs one of them; every attempt happens while at least one is in progress *)
Fixpoint guarded (live : nat) (evs : list ev) : Prop :=
  match evs with
  | [] => True
  | EStart :: t => guarded (S live) t
  | EStop :: t => 0 < live /\ guarded (pred live) t
  | ETry _ :: t => 0 < live /\ guarded live t
  end.

Definition refused (r : res) : Prop := r <> Ok.

(* the real iter_stop (one unit): however the iterations overlap, every attempt made while one is in progress is refused
   and the content of every container is what it was *)
Lemma trace_blocked : forall evs st a live, live <= iter_count st a -> guarded live evs ->
  Forall refused (fst (replay unlock a evs st)) /\ forall b, content (snd (replay unlock a evs st)) b = content st b.
Proof.
  induction evs as [|e t IH]; intros st a live Hl G; simpl.
  - split; [constructor|reflexivity].
  - destruct e as [| |o]; simpl in G.
    + destruct (lock st a) as [st1|] eqn:L; simpl; [|split; [constructor|reflexivity]].
      destruct (IH st1 a (S live)) as [F C]; [rewrite (cnt_lock _ _ _ L), d_self; lia|exact G|].
      split; [exact F|intro b; rewrite C; apply (content_lock _ _ _ L)].
    + destruct G as [Pos G].
      destruct (IH (unlock st a) a (pred live)) as [F C]; [rewrite cnt_unlock, d_self; lia|exact G|].
      split; [exact F|intro b; rewrite C; apply content_unlock].
    + destruct G as [Pos G].
      destruct (mutation_blocked_intact st a o) as [e M]; [lia|]; rewrite M.
      destruct (IH st a live Hl G) as [F C].
      destruct (replay unlock a t st) as [rs st2]; simpl in *.
      split; [constructor; [unfold refused; discriminate|exact F]|exact C].
Qed.

(* ---- weakened variant 1: iter_stop RESETS the counter (the counter degenerates into a flag) ---- *)
Definition unlock_reset (st : store) (a : addr) : store :=
  match st a with
  | Some c => upd st a (mkCell (c_val c) 0)
  | None => st
  end.

(* an outer iteration, an inner one that starts and stops, then an attempt while the outer one is still in progress *)
Definition overlap_trace (o : op) : list ev := [EStart; EStart; EStop; ETry o; EStop].

Lemma overlap_trace_guarded : forall o, guarded 0 (overlap_trace o).
Proof. intro o; simpl; repeat split; lia. Qed.

Definition nested_store : store := of_list [mkCell (VList [1; 2; 3]%Z) 0].

Lemma reset_variant_refuted : exists st a o, guarded 0 (overlap_trace o) /\
  fst (replay unlock a (overlap_trace o) st) = [Err MutateWhileIter] /\
  fst (replay unlock_reset a (overlap_trace o) st) = [Ok] /\
  content (snd (replay unlock_reset a (overlap_trace o) st)) a <> content st a.
Proof.
  exists nested_store, 0, (LAppend 7%Z); split; [apply overlap_trace_guarded|].
  vm_compute; repeat split; discriminate.
Qed.

(* ---- weakened variant 2: a native consumer stops BEFORE the body of the last element ---- *)
(* per element: does the callback attempt the mutation? *)
Definition elem_ev (o : op) (t : bool) : list ev := if t then [ETry o] else [].
(* StarlarkIterator as it is: start; one callback per element; stop when iter_next has returned None *)
Definition consume (o : op) (tries : list bool) : list ev :=
  EStart :: flat_map (elem_ev o) tries ++ [EStop].
(* the weakened one: the stop comes as soon as the last element has been FETCHED, its callback runs afterwards *)
Definition consume_early (o : op) (tries : list bool) : list ev :=
  EStart :: flat_map (elem_ev o) (removelast tries) ++ EStop :: elem_ev o (last tries false).

Lemma consume_guarded : forall o tries live, guarded live (consume o tries).
Proof.
  intros o tries live; unfold consume; simpl.
  generalize (S live) (Nat.lt_0_succ live); intros l Pos.
  induction tries as [|t ts IH]; simpl; [split; [exact Pos|exact I]|].
  destruct t; simpl; [split; [exact Pos|exact IH]|exact IH].
Qed.

(* at whatever elements the callback tries (first, middle, last, the only one): always refused, content intact *)
Lemma consumer_callback_blocked : forall o tries st a,
  Forall refused (fst (replay unlock a (consume o tries) st)) /\
  forall b, content (snd (replay unlock a (consume o tries) st)) b = content st b.
Proof. intros o tries st a; apply (trace_blocked _ st a 0); [lia|apply consume_guarded]. Qed.

(* and the count is back where it was: the container is mutable again afterwards (on a defined container) *)
Lemma consumer_releases : forall o tries st a c, st a = Some c ->
  iter_count (snd (replay unlock a (consume o tries) st)) a = c_iters c.
Proof.
  intros o tries st a c E; unfold consume; simpl.
  destruct (lock_defined st a c E) as [st1 [L E1]]; rewrite L.
  assert (H : forall ts s, iter_count s a = S (c_iters c) ->
            iter_count (snd (replay unlock a (flat_map (elem_ev o) ts ++ [EStop]) s)) a = c_iters c).
  { induction ts as [|t ts IH]; intros s Hs; simpl.
    - rewrite cnt_unlock, d_self, Hs; lia.
    - destruct t; simpl; [|apply IH; exact Hs].
      destruct (mutation_blocked_intact s a o) as [e M]; [lia|]; rewrite M.
      specialize (IH s Hs); destruct (replay unlock a (flat_map (elem_ev o) ts ++ [EStop]) s); exact IH. }
  apply H; unfold iter_count; rewrite E1; reflexivity.
Qed.

Lemma early_stop_variant_refuted : exists st a o tries,
  fst (replay unlock a (consume o tries) st) = [Err MutateWhileIter] /\
  fst (replay unlock a (consume_early o tries) st) = [Ok] /\
  content (snd (replay unlock a (consume_early o tries) st)) a <> content st a.
Proof.
  exists nested_store, 0, (LAppend 7%Z), [false; false; true].
  vm_compute; repeat split; discriminate.
Qed.
