(* C12 - comparison driver used by the tie: the model is run on the programs that were run on the implementation.
   One case = (initial containers, program, the mutation attempted after the program).  Address 0 is the container under test.
   Observations (all as Z / lists of Z): outcome of the program, content of container 0 after it, outcome of the later
   mutation, content after that, and the iteration count left on container 0 - for the interpreter as the code is
   (fx = false) and for the repaired one (fx = true). *)
From Coq Require Import ZArith List Bool Arith.
From SV Require Import Lock.Model Lock.Bc.
Import ListNotations.
Open Scope Z_scope.

Definition ecode (e : err) : Z :=
  match e with
  | MutateWhileIter => 1 | Failed => 2 | IndexOutOfBound => 3 | NotFound => 4 | KeyNotFound => 5 | EmptyPop => 6
  | WrongKind => 7 | NotIterable => 8 | ControlOutsideLoop => 9 | Internal => 10 | TypeMismatch => 11
  end.
Definition scode (r : sig) : Z :=
  match r with Next | Ret => 0 | RetErr => 11 | Error e => ecode e | NoFuel => 99 | Brk | Cont => 98 end.
Definition rcode (r : res) : Z := match r with Ok => 0 | Err e => ecode e end.

Definition enc_val (v : cval) : list Z :=
  match v with
  | VList l => l
  | VDict d => flat_map (fun kv => [fst kv; snd kv]) d
  | VSet s => s
  end.
Definition enc_at (st : store) (a : addr) : list Z :=
  match st a with Some c => enc_val (c_val c) | None => [] end.

Definition fuel0 : nat := 400.

Definition run_case (fx : bool) (init : list cval) (p : block) (after : op) : Z * list Z * Z * list Z * Z :=
  let st0 := of_list (map (fun v => mkCell v 0) init) in
  let '(r, st1) := exec fuel0 fx p st0 in
  let '(r2, st2) := mutate after st1 0%nat in
  (scode r, enc_at st1 0%nat, rcode r2, enc_at st2 0%nat, Z.of_nat (iter_count st1 0%nat)).

Definition run_cases (l : list (list cval * block * op)) :=
  map (fun c => match c with (i, p, o) => (run_case false i p o, run_case true i p o) end) l.

(* one run of the program, all observations (the later mutation of the enclosing loops' list, address 1, included):
   [[r0; r2; count; r_outer]; content1; content3] *)
Definition obs_case (fx : bool) (init : list cval) (p : block) (after : op) : list (list Z) :=
  let st0 := of_list (map (fun v => mkCell v 0) init) in
  let '(r, st1) := exec fuel0 fx p st0 in
  let '(r2, st2) := mutate after st1 0%nat in
  [[scode r; rcode r2; Z.of_nat (iter_count st1 0%nat); rcode (fst (mutate (LAppend 0) st1 1%nat))]; enc_at st1 0%nat; enc_at st2 0%nat].

(* for the interpreter as-is, then for the repaired one *)
Definition run_cases_flat (l : list (list cval * block * op)) : list (list (list Z)) :=
  map (fun c => match c with (i, p, o) => obs_case false i p o ++ obs_case true i p o end) l.
