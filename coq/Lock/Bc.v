(* C12 - loops: a structured loop language, compiled to the instruction skeleton that the bytecode writer emits,
   and interpreted with lock/unlock at exactly the instructions where the code calls iterate / iter_stop.  NO proofs here.

   Rust anchors (starlark/src/eval/bc):
   - writer.rs    write_for      = InstrIter ; body ; InstrContinue   (for_loops stack of the writer = [ls] below)
                  write_break    = InstrBreak(iter of the innermost loop)
                  write_continue = InstrContinue(innermost loop)
                  write_iter_stop = InstrIterStop for EVERY enclosing loop, innermost first (before `return`)
   - compiler/stmt.rs  write_return = write_iter_stop ; InstrReturn | InstrReturnConst | (def with a declared return type:)
                       InstrReturnCheckType  -- the InstrIterStop sequence comes FIRST on all three paths
                       ([SReturnT ok]: the typed path; ok = the returned value has the declared type)
   - compiler/compr.rs  a comprehension clause = write_for whose body starts with `if not c: continue` for each `if`
                        (see [compr] below: comprehensions are the same instructions as nested for statements)
   - instr_impl.rs  InstrIter: iterate (lock); iter_next(0) = None -> iter_stop, jump to end
                    InstrContinue: iter_next(i) = Some -> jump to begin | None -> iter_stop, jump to end
                    InstrBreak: iter_stop, jump to end ;  InstrIterStop: iter_stop ;  InstrReturn: InstrControl::Return
                    InstrReturnCheckType: check_return_type(v)? ; InstrControl::Return  (a failed check is an error raised
                    AFTER the frame's loops have been stopped: signal [RetErr], which a loop passes on untouched)
   - bytecode.rs  run_block: InstrControl::Err(e) => return Err(..)   -- NO iter_stop on this path (faithful, fx = false)
   - values/iter.rs  StarlarkIterator (used by every native consumer): next() = None -> iter_stop ; Drop -> iter_stop

   The interpreter takes a flag [fx]: false = the code as it is; true = a repaired interpreter that stops the
   active iterators of the frame when an error leaves run_block. *)
From Coq Require Import ZArith List Bool Arith.
From SV Require Import Lock.Model.
Import ListNotations.
Open Scope nat_scope.

(* ---------- source: structured programs ---------- *)
Inductive builtin :=
| BSorted | BMin | BMax | BMap | BFilter          (* call a callback for every element while iterating *)
| BAny | BAll | BEnumerate | BZip | BListOf | BTupleOf | BDictOf | BSetOf | BReversed
| BExtend | BUpdate.                              (* list.extend(x) / dict.update(x) / set.update(x) consuming x *)

Inductive stmt :=
| SMutate (o : op) (a : addr)               (* an expression/assignment statement that mutates container a *)
| SFail                                     (* fail("...") or any other failing statement *)
| SFor (a : addr) (body : block)            (* for _ in <a>: body *)
| SBreak | SContinue | SReturn
| SReturnT (ok : bool)                      (* `return e` in a def that declares a return type (InstrReturnCheckType);
                                               ok = e has that type *)
| SIf (n : nat) (t e : block)               (* if <the element of the innermost loop is the n-th one>: t else: e *)
| SCall (body : block)                      (* call of a def whose body is [body] (argument: the current element) *)
| SBuiltin (b : builtin) (early : option nat) (a : addr) (cb : block)
                                            (* b(a, cb): consumes a through StarlarkIterator, calling the def [cb] per element;
                                               [early = Some n]: the native code stops consuming after n elements (any/all/zip) *)
with block := BNil | BCons (s : stmt) (b : block).

Fixpoint blk (l : list stmt) : block :=
  match l with [] => BNil | s :: t => BCons s (blk t) end.

(* A comprehension `[e for _ in a1 if c1 for _ in a2 ...]` is compiled by compr.rs as nested write_for with
   `if not c: continue` prefixes; [skip = Some n] stands for a clause condition that is false exactly on the n-th element. *)
Fixpoint compr (clauses : list (addr * option nat)) (elem : block) : block :=
  match clauses with
  | [] => elem
  | (a, skip) :: rest =>
      BCons (SFor a (match skip with
                     | Some n => BCons (SIf n (BCons SContinue BNil) BNil) (compr rest elem)
                     | None => compr rest elem
                     end)) BNil
  end.

(* ---------- target: instruction skeleton (tree shaped: a loop carries its body) ---------- *)
Inductive instr :=
| IMutate (o : op) (a : addr)
| IFail
| IErrStatic                         (* break/continue outside a loop: rejected by the real compiler *)
| IIf (n : nat) (t e : list instr)
| IFor (a : addr) (body : list instr)     (* InstrIter a ... body ... InstrContinue a *)
| IContinue (a : addr)               (* InstrContinue of the innermost loop *)
| IBreak (a : addr)                  (* InstrBreak: iter_stop(a); jump to end *)
| IIterStop (a : addr)               (* InstrIterStop *)
| IReturn                            (* InstrReturn / InstrReturnConst *)
| IReturnCheck (ok : bool)           (* InstrReturnCheckType *)
| ICall (body : list instr)
| IBuiltin (early : option nat) (a : addr) (cb : list instr).

Definition stops (ls : list addr) (k : list instr) : list instr :=
  fold_right (fun a c => IIterStop a :: c) k ls.

Definition has_callback (b : builtin) : bool :=
  match b with BSorted | BMin | BMax | BMap | BFilter => true | _ => false end.

(* [ls] = the writer's stack of enclosing loops (innermost first); code is prepended to the continuation [k] *)
Fixpoint compile_stmt (ls : list addr) (s : stmt) (k : list instr) {struct s} : list instr :=
  match s with
  | SMutate o a => IMutate o a :: k
  | SFail => IFail :: k
  | SFor a body => IFor a (compile (a :: ls) body) :: k
  | SBreak => match ls with a :: _ => IBreak a :: k | [] => IErrStatic :: k end
  | SContinue => match ls with a :: _ => IContinue a :: k | [] => IErrStatic :: k end
  | SReturn => stops ls (IReturn :: k)
  | SReturnT ok => stops ls (IReturnCheck ok :: k)
  | SIf n t e => IIf n (compile ls t) (compile ls e) :: k
  | SCall body => ICall (compile [] body) :: k
  | SBuiltin b early a cb => IBuiltin early a (if has_callback b then compile [] cb else []) :: k
  end
with compile (ls : list addr) (b : block) {struct b} : list instr :=
  match b with
  | BNil => []
  | BCons s b' => compile_stmt ls s (compile ls b')
  end.

(* ---------- interpreter ---------- *)
(* RetErr: the return-type check of InstrReturnCheckType failed (all loops of the frame already stopped) *)
Inductive sig := Next | Brk | Cont | Ret | RetErr | Error (e : err) | NoFuel.

Definition stop_here (early : option nat) (i : nat) : bool :=
  match early with Some n => Nat.eqb i n | None => false end.

(* [idx]: index of the current element of the innermost loop of the frame (BcFrame iter_index) *)
Fixpoint run (fuel : nat) (fx : bool) (idx : nat) (c : list instr) (st : store) {struct fuel} : sig * store :=
  match fuel with
  | O => (NoFuel, st)
  | S f =>
    match c with
    | [] => (Next, st)
    | i :: k =>
      match i with
      | IMutate o a =>
          match mutate o st a with
          | (Ok, st1) => run f fx idx k st1
          | (Err e, st1) => (Error e, st1)               (* InstrControl::Err *)
          end
      | IFail => (Error Failed, st)
      | IErrStatic => (Error ControlOutsideLoop, st)
      | IIf n t e =>
          match run f fx idx (if Nat.eqb idx n then t else e) st with
          | (Next, st1) => run f fx idx k st1
          | other => other
          end
      | IFor a body =>
          match lock st a with                            (* InstrIter: over.iterate() *)
          | None => (Error NotIterable, st)
          | Some st1 =>
              match loop f fx a body 0 st1 with
              | (Next, st2) => run f fx idx k st2
              | other => other
              end
          end
      | IContinue _ => (Cont, st)                         (* the loop driver performs InstrContinue *)
      | IBreak a => (Brk, unlock st a)                    (* InstrBreak: iter_stop; jump to end *)
      | IIterStop a => run f fx idx k (unlock st a)       (* InstrIterStop: iter_stop *)
      | IReturn => (Ret, st)                              (* InstrControl::Return: nothing else happens *)
      | IReturnCheck ok => (if ok then Ret else RetErr, st)   (* check_return_type(v)?; InstrControl::Return *)
      | ICall body =>
          match run f fx idx body st with                 (* a new frame, its own run_block *)
          | (Next, st1) | (Ret, st1) => run f fx idx k st1
          | (RetErr, st1) => (Error TypeMismatch, st1)    (* the callee's error, seen by the caller like any other *)
          | (Error e, st1) => (Error e, st1)
          | (NoFuel, st1) => (NoFuel, st1)
          | (_, st1) => (Error Internal, st1)
          end
      | IBuiltin early a cb =>
          match lock st a with                            (* x.iterate(heap)? -> StarlarkIterator *)
          | None => (Error NotIterable, st)
          | Some st1 =>
              match bloop f fx early a cb 0 st1 with
              | (Next, st2) => run f fx idx k st2
              | other => other
              end
          end
      end
    end
  end

(* the loop of InstrIter/InstrContinue: container [a] is locked by this loop; iter_next(i) comes next *)
with loop (fuel : nat) (fx : bool) (a : addr) (body : list instr) (i : nat) (st : store) {struct fuel} : sig * store :=
  match fuel with
  | O => (NoFuel, st)
  | S f =>
    if has_elem st a i then
      match run f fx i body st with
      | (Next, st1) | (Cont, st1) => loop f fx a body (S i) st1     (* InstrContinue: iter_next(i+1) *)
      | (Brk, st1) => (Next, st1)                  (* InstrBreak has already called iter_stop *)
      | (Ret, st1) => (Ret, st1)                   (* the InstrIterStop's written before InstrReturn have already run *)
      | (RetErr, st1) => (RetErr, st1)             (* ... and before InstrReturnCheckType: nothing is active any more *)
      | (Error e, st1) =>                          (* run_block returns Err: faithful = no iter_stop at all *)
          (Error e, if fx then unlock st1 a else st1)
      | (NoFuel, st1) => (NoFuel, st1)
      end
    else (Next, unlock st a)                       (* iter_next = None: iter_stop; jump to end *)
  end

(* a native consumer driving a StarlarkIterator (RAII) over [a] *)
with bloop (fuel : nat) (fx : bool) (early : option nat) (a : addr) (cb : list instr) (i : nat) (st : store)
     {struct fuel} : sig * store :=
  match fuel with
  | O => (NoFuel, st)
  | S f =>
    if stop_here early i then (Next, unlock st a)  (* iterator dropped before exhaustion: Drop -> iter_stop *)
    else if has_elem st a i then
      match run f fx i cb st with                  (* key.invoke_pos(..)? / func.invoke_pos(..)? *)
      | (Next, st1) | (Ret, st1) => bloop f fx early a cb (S i) st1
      | (RetErr, st1) => (Error TypeMismatch, unlock st1 a)
      | (Error e, st1) => (Error e, unlock st1 a)  (* `?` leaves the native function: Drop -> iter_stop *)
      | (NoFuel, st1) => (NoFuel, st1)
      | (_, st1) => (Error Internal, unlock st1 a)
      end
    else (Next, unlock st a)                       (* next() = None -> iter_stop *)
  end.

(* run a whole function body / module *)
Definition exec (fuel : nat) (fx : bool) (p : block) (st : store) : sig * store :=
  run fuel fx 0 (compile [] p) st.

Definition is_err (r : sig) : bool := match r with Error _ | RetErr => true | _ => false end.
