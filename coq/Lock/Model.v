(* C12 - iteration locks of list / dict / set: executable mirror of the mechanism.  NO proofs here.

   Rust anchors (starlark/src):
   - values/types/array.rs        Array.iter_count : inc_iter_count / dec_iter_count / iter_count_is_non_zero
   - values/types/list/value.rs   ListData::new_iter (iterate) = inc_iter_count ; Array::iter_stop = dec_iter_count ;
                                  ListData::check_can_mutate (called by from_value_mut and by ListLike::set_at)
   - values/types/dict/value.rs   DictLike for RefCell<Dict>: iter_start = mem::forget(self.borrow()) ; iter_stop = unleak_borrow ;
                                  set_at = try_borrow_mut  (Err -> MutationDuringIteration)
   - values/types/dict/refs.rs    DictMut::from_value = try_borrow_mut (Err -> MutationDuringIteration)
   - values/types/set/value.rs, set/refs.rs   same scheme (SetMut::from_value)
   - eval/compiler/stmt.rs        add_assign (list +=) -> ListData::from_value_mut ; bit_or_assign (dict |=) -> DictMut::from_value

   Abstraction: one counter per container.  For a list the counter is Array.iter_count of the backing array (the
   array cannot be replaced while it is non-zero because every path that replaces it goes through check_can_mutate);
   for dict/set it is the number of leaked shared borrows of the RefCell (try_borrow_mut fails iff it is non-zero).
   The statically allocated empty array (VALUE_EMPTY_ARRAY, capacity 0) is exempt from counting in the code; a list
   backed by it has no elements, so InstrIter / StarlarkIterator::next call iter_stop immediately after iter_next(0) = None
   with no user code in between: the exemption is not observable and the model counts uniformly (the tie runs empty lists). *)
From Coq Require Import ZArith List Bool Arith.
Import ListNotations.
Open Scope Z_scope.

Definition addr := nat.
Bind Scope nat_scope with addr.

Inductive cval :=
| VList (l : list Z)
| VDict (d : list (Z * Z))        (* insertion ordered *)
| VSet (s : list Z).              (* insertion ordered, no duplicates *)

Record cell := mkCell { c_val : cval; c_iters : nat }.

(* the heap of containers: address -> cell; two names for the same value (aliases) are the same address *)
Definition store := addr -> option cell.

Definition upd (st : store) (a : addr) (c : cell) : store :=
  fun b => if Nat.eqb b a then Some c else st b.

Definition of_list (l : list cell) : store := fun a => nth_error l a.

Inductive err :=
| MutateWhileIter        (* ValueError::MutationDuringIteration *)
| IndexOutOfBound | NotFound | KeyNotFound | EmptyPop
| WrongKind | NotIterable | Failed (* fail() *) | ControlOutsideLoop | Internal
| TypeMismatch.          (* InstrReturnCheckType: the returned value does not have the declared return type *)

Inductive res := Ok | Err (e : err).

(* iteration count ("the lock") *)
Definition iter_count (st : store) (a : addr) : nat :=
  match st a with Some c => c_iters c | None => 0%nat end.

(* StarlarkValue::iterate for list/dict/set: acquire *)
Definition lock (st : store) (a : addr) : option store :=
  match st a with
  | Some c => Some (upd st a (mkCell (c_val c) (S (c_iters c))))
  | None => None
  end.

(* StarlarkValue::iter_stop: release (dec_iter_count / unleak_borrow) *)
Definition unlock (st : store) (a : addr) : store :=
  match st a with
  | Some c => upd st a (mkCell (c_val c) (pred (c_iters c)))
  | None => st
  end.

Definition size (v : cval) : nat :=
  match v with VList l => length l | VDict d => length d | VSet s => length s end.

(* iter_next(i) is Some _ *)
Definition has_elem (st : store) (a : addr) (i : nat) : bool :=
  match st a with Some c => Nat.ltb i (size (c_val c)) | None => false end.

(* ---- the catalogue of mutating operations ---- *)
Inductive op :=
(* list/methods.rs (each starts with ListData::from_value_mut) *)
| LAppend (v : Z) | LClear | LExtend (l : list Z) | LInsert (i : nat) (v : Z) | LPop
| LRemove (v : Z)                      (* searches first (read only), then from_value_mut *)
(* list/value.rs set_at: convert_index first, then check_can_mutate *)
| LSetAt (i : nat) (v : Z)
| LSetAtAug (i : nat) (dv : Z)         (* x[i] += dv : at(i) then set_at *)
| LAddAssign (l : list Z)              (* x += l : add_assign -> from_value_mut *)
(* dict/methods.rs (each starts with DictMut::from_value) *)
| DClear | DPop (k : Z) | DPopitem | DSetdefault (k v : Z) | DUpdate (kvs : list (Z * Z))
| DSetAt (k v : Z)                     (* dict/value.rs set_at: try_borrow_mut *)
| DSetAtAug (k dv : Z)                 (* x[k] += dv : at(k) then set_at *)
| DBitOrAssign (kvs : list (Z * Z))    (* x |= {..} : bit_or_assign -> DictMut::from_value *)
(* set/methods.rs (each starts with SetMut::from_value) *)
| SAdd (v : Z) | SClear | SDiscard (v : Z) | SPop | SRemove (v : Z) | SUpdate (l : list Z).

Definition zmem (x : Z) (l : list Z) : bool := existsb (Z.eqb x) l.
Fixpoint remove_first (x : Z) (l : list Z) : list Z :=
  match l with [] => [] | y :: t => if Z.eqb x y then t else y :: remove_first x t end.
Fixpoint set_nth (i : nat) (v : Z) (l : list Z) : list Z :=
  match l, i with
  | [], _ => []
  | _ :: t, O => v :: t
  | y :: t, S j => y :: set_nth j v t
  end.
Definition kmem (k : Z) (d : list (Z * Z)) : bool := existsb (fun kv => Z.eqb k (fst kv)) d.
Fixpoint kget (k : Z) (d : list (Z * Z)) : Z :=
  match d with [] => 0 | (k', v) :: t => if Z.eqb k k' then v else kget k t end.
Fixpoint kremove (k : Z) (d : list (Z * Z)) : list (Z * Z) :=
  match d with [] => [] | (k', v) :: t => if Z.eqb k k' then t else (k', v) :: kremove k t end.
Fixpoint kinsert (k v : Z) (d : list (Z * Z)) : list (Z * Z) :=
  match d with
  | [] => [(k, v)]
  | (k', v') :: t => if Z.eqb k k' then (k', v) :: t else (k', v') :: kinsert k v t
  end.
Definition sadd (x : Z) (s : list Z) : list Z := if zmem x s then s else s ++ [x].

(* checks the code performs BEFORE it asks for mutable access (kind of the receiver, read-only look-ups) *)
Definition pre_check (o : op) (v : cval) : option err :=
  match o, v with
  | LRemove x, VList l => if zmem x l then None else Some NotFound
  | LSetAt i _, VList l | LSetAtAug i _, VList l => if Nat.ltb i (length l) then None else Some IndexOutOfBound
  | (LAppend _ | LClear | LExtend _ | LInsert _ _ | LPop | LAddAssign _), VList _ => None
  | DSetAtAug k _, VDict d => if kmem k d then None else Some KeyNotFound
  | (DClear | DPop _ | DPopitem | DSetdefault _ _ | DUpdate _ | DSetAt _ _ | DBitOrAssign _), VDict _ => None
  | (SAdd _ | SClear | SDiscard _ | SPop | SRemove _ | SUpdate _), VSet _ => None
  | _, _ => Some WrongKind
  end.

(* the mutation proper, once mutable access has been granted *)
Definition apply_op (o : op) (v : cval) : cval + err :=
  match o, v with
  | LAppend x, VList l => inl (VList (l ++ [x]))
  | LClear, VList _ => inl (VList [])
  | LExtend l2, VList l | LAddAssign l2, VList l => inl (VList (l ++ l2))
  | LInsert i x, VList l => inl (VList (firstn i l ++ x :: skipn i l))
  | LPop, VList l => match l with [] => inr IndexOutOfBound | _ => inl (VList (removelast l)) end
  | LRemove x, VList l => inl (VList (remove_first x l))
  | LSetAt i x, VList l => inl (VList (set_nth i x l))
  | LSetAtAug i dv, VList l => inl (VList (set_nth i (nth i l 0 + dv) l))
  | DClear, VDict _ => inl (VDict [])
  | DPop k, VDict d => if kmem k d then inl (VDict (kremove k d)) else inr KeyNotFound
  | DPopitem, VDict d => match d with [] => inr EmptyPop | _ :: t => inl (VDict t) end
  | DSetdefault k x, VDict d => if kmem k d then inl (VDict d) else inl (VDict (d ++ [(k, x)]))
  | DUpdate kvs, VDict d | DBitOrAssign kvs, VDict d =>
      inl (VDict (fold_left (fun acc kv => kinsert (fst kv) (snd kv) acc) kvs d))
  | DSetAt k x, VDict d => inl (VDict (kinsert k x d))
  | DSetAtAug k dv, VDict d => inl (VDict (kinsert k (kget k d + dv) d))
  | SAdd x, VSet s => inl (VSet (sadd x s))
  | SClear, VSet _ => inl (VSet [])
  | SDiscard x, VSet s => inl (VSet (remove_first x s))
  | SPop, VSet s => match s with [] => inr EmptyPop | _ => inl (VSet (removelast s)) end
  | SRemove x, VSet s => if zmem x s then inl (VSet (remove_first x s)) else inr NotFound
  | SUpdate l, VSet s => inl (VSet (fold_left (fun acc x => sadd x acc) l s))
  | _, _ => inr WrongKind
  end.

(* Every mutator, guard first:  check_can_mutate (list) / try_borrow_mut (dict, set) refuse while the
   iteration count is non-zero, and nothing has been written before the refusal. *)
Definition mutate (o : op) (st : store) (a : addr) : res * store :=
  match st a with
  | None => (Err WrongKind, st)
  | Some c =>
    match pre_check o (c_val c) with
    | Some e => (Err e, st)
    | None =>
      if Nat.ltb 0 (c_iters c) then (Err MutateWhileIter, st)
      else match apply_op o (c_val c) with
           | inr e => (Err e, st)
           | inl v' => (Ok, upd st a (mkCell v' (c_iters c)))
           end
    end
  end.

(* the receiver exists, has the kind the operation is for, and the read-only checks made before the guard pass *)
Definition pre_ok (o : op) (st : store) (a : addr) : bool :=
  match st a with
  | Some c => match pre_check o (c_val c) with None => true | Some _ => false end
  | None => false
  end.
