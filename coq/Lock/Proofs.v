(* C12 - proofs about Lock/Model.v and Lock/Bc.v *)
From Coq Require Import ZArith List Bool Arith Lia.
From SV Require Import Lock.Model Lock.Bc.
Import ListNotations.
Open Scope nat_scope.

(* ------------------------------------------------------------------ counters *)
Definition d (a b : addr) : nat := if Nat.eqb b a then 1 else 0.
Fixpoint occ (b : addr) (ls : list addr) : nat :=
  match ls with [] => 0 | a :: t => d a b + occ b t end.
(* every loop of the stack holds one unit of its container's count *)
Definition held (ls : list addr) (st : store) : Prop := forall b, occ b ls <= iter_count st b.
Definition same (st st' : store) : Prop := forall b, iter_count st' b = iter_count st b.
(* st' = st with one unit of a released *)
Definition rel (a : addr) (st st' : store) : Prop := forall b, iter_count st' b + d a b = iter_count st b.

Lemma cnt_upd : forall st a c b,
  iter_count (upd st a c) b = if Nat.eqb b a then c_iters c else iter_count st b.
Proof. intros; unfold iter_count, upd; destruct (Nat.eqb b a); reflexivity. Qed.

Lemma cnt_lock : forall st a st1, lock st a = Some st1 ->
  forall b, iter_count st1 b = iter_count st b + d a b.
Proof.
  unfold lock; intros st a st1 H; destruct (st a) as [c|] eqn:E; [|discriminate].
  inversion H; subst; clear H; intro b; rewrite cnt_upd; unfold d.
  destruct (Nat.eqb b a) eqn:Eb; [|lia].
  apply Nat.eqb_eq in Eb; subst; unfold iter_count; rewrite E; simpl; lia.
Qed.

Lemma cnt_unlock : forall st a b, iter_count (unlock st a) b = iter_count st b - d a b.
Proof.
  unfold unlock; intros st a b; destruct (st a) as [c|] eqn:E.
  - rewrite cnt_upd; unfold d; destruct (Nat.eqb b a) eqn:Eb; [|lia].
    apply Nat.eqb_eq in Eb; subst; unfold iter_count; rewrite E; simpl; lia.
  - unfold d; destruct (Nat.eqb b a) eqn:Eb; [|lia].
    apply Nat.eqb_eq in Eb; subst; unfold iter_count; rewrite E; lia.
Qed.

Lemma unlock_rel : forall st a, (forall b, d a b <= iter_count st b) -> rel a st (unlock st a).
Proof. intros st a H b; rewrite cnt_unlock; specialize (H b); lia. Qed.

Lemma held_top : forall a ls st, held (a :: ls) st -> forall b, d a b <= iter_count st b.
Proof. intros a ls st H b; specialize (H b); simpl in H; lia. Qed.

Lemma one_top : forall a st, 1 <= iter_count st a -> forall b, d a b <= iter_count st b.
Proof.
  intros a st H b; unfold d; destruct (Nat.eqb b a) eqn:E; [|lia].
  apply Nat.eqb_eq in E; subst; lia.
Qed.

Lemma d_self : forall a, d a a = 1.
Proof. intro a; unfold d; rewrite Nat.eqb_refl; reflexivity. Qed.

Lemma held_same : forall ls st st', held ls st -> same st st' -> held ls st'.
Proof. intros ls st st' H S b; rewrite S; apply H. Qed.

Lemma held_lock : forall ls st a st1, held ls st -> lock st a = Some st1 -> held (a :: ls) st1.
Proof. intros ls st a st1 H L b; simpl; rewrite (cnt_lock _ _ _ L); specialize (H b); lia. Qed.

Fixpoint unlock_all (ls : list addr) (st : store) : store :=
  match ls with [] => st | a :: t => unlock_all t (unlock st a) end.

Lemma cnt_unlock_all : forall ls st, held ls st ->
  forall b, iter_count (unlock_all ls st) b + occ b ls = iter_count st b.
Proof.
  induction ls as [|a t IH]; intros st H b; simpl; [lia|].
  assert (Ht : held t (unlock st a)).
  { intro x; rewrite cnt_unlock; specialize (H x); simpl in H; lia. }
  rewrite (IH _ Ht b) || (specialize (IH _ Ht b)).
  all: try (rewrite cnt_unlock in *; specialize (H b); simpl in H; lia).
Qed.

(* ------------------------------------------------------------------ mutators *)
Lemma mutate_cnt : forall o st a r st1, mutate o st a = (r, st1) -> same st st1.
Proof.
  unfold mutate; intros o st a r st1 H.
  destruct (st a) as [c|] eqn:E; [|inversion H; subst; intro; reflexivity].
  destruct (pre_check o (c_val c)); [inversion H; subst; intro; reflexivity|].
  destruct (Nat.ltb 0 (c_iters c)); [inversion H; subst; intro; reflexivity|].
  destruct (apply_op o (c_val c)); inversion H; subst; intro b; [|reflexivity].
  rewrite cnt_upd; destruct (Nat.eqb b a) eqn:Eb; [|reflexivity].
  apply Nat.eqb_eq in Eb; subst; unfold iter_count; rewrite E; reflexivity.
Qed.

Lemma mutate_err_intact : forall o st a e st1, mutate o st a = (Err e, st1) -> st1 = st.
Proof.
  unfold mutate; intros o st a e st1 H.
  destruct (st a) as [c|]; [|inversion H; reflexivity].
  destruct (pre_check o (c_val c)); [inversion H; reflexivity|].
  destruct (Nat.ltb 0 (c_iters c)); [inversion H; reflexivity|].
  destruct (apply_op o (c_val c)); inversion H; reflexivity.
Qed.

Lemma mutation_blocked : forall st a o, 0 < iter_count st a -> pre_ok o st a = true ->
  mutate o st a = (Err MutateWhileIter, st).
Proof.
  unfold iter_count, pre_ok, mutate; intros st a o H P.
  destruct (st a) as [c|]; [|discriminate].
  destruct (pre_check o (c_val c)); [discriminate|].
  apply Nat.ltb_lt in H; rewrite H; reflexivity.
Qed.

Lemma mutation_blocked_intact : forall st a o, 0 < iter_count st a ->
  exists e, mutate o st a = (Err e, st).
Proof.
  unfold iter_count, mutate; intros st a o H.
  destruct (st a) as [c|]; [|lia].
  destruct (pre_check o (c_val c)) as [e|]; [exists e; reflexivity|].
  apply Nat.ltb_lt in H; rewrite H; exists MutateWhileIter; reflexivity.
Qed.

Lemma mutation_blocked_in_loop : forall ls st a o, held ls st -> In a ls -> pre_ok o st a = true ->
  mutate o st a = (Err MutateWhileIter, st).
Proof.
  intros ls st a o H I P; apply mutation_blocked; [|exact P].
  specialize (H a). enough (1 <= occ a ls) by lia. clear -I.
  induction ls as [|x t IH]; [contradiction|]; simpl.
  destruct I as [->|I]; [rewrite d_self; lia|specialize (IH I); lia].
Qed.

(* the guard is the only thing that stands between a well-formed request and the mutation: with a zero count the
   outcome does not depend on the count of any other container and is decided by pre_check/apply_op alone *)
Lemma mutation_allowed_when_released : forall st a o c v', st a = Some c -> c_iters c = 0 ->
  pre_check o (c_val c) = None -> apply_op o (c_val c) = inl v' ->
  mutate o st a = (Ok, upd st a (mkCell v' 0)).
Proof.
  unfold mutate; intros st a o c v' E Z P A; rewrite E, P, Z, A; reflexivity.
Qed.

(* lock / unlock never touch contents *)
Definition content (st : store) (a : addr) : option cval := option_map c_val (st a).

Lemma content_lock : forall st a st1, lock st a = Some st1 -> forall b, content st1 b = content st b.
Proof.
  unfold lock, content; intros st a st1 H b; destruct (st a) as [c|] eqn:E; [|discriminate].
  inversion H; subst; unfold upd; destruct (Nat.eqb b a) eqn:Eb; [|reflexivity].
  apply Nat.eqb_eq in Eb; subst; rewrite E; reflexivity.
Qed.

Lemma content_unlock : forall st a b, content (unlock st a) b = content st b.
Proof.
  unfold unlock, content; intros st a b; destruct (st a) as [c|] eqn:E; [|reflexivity].
  unfold upd; destruct (Nat.eqb b a) eqn:Eb; [|reflexivity].
  apply Nat.eqb_eq in Eb; subst; rewrite E; reflexivity.
Qed.

(* ------------------------------------------------------------------ one-step equations of the interpreter *)
Section Eqs.
Variables (f : nat) (fx : bool) (idx : nat) (k : list instr) (st : store).

Lemma run_nil : run (S f) fx idx [] st = (Next, st).
Proof. reflexivity. Qed.
Lemma run_mutate : forall o a, run (S f) fx idx (IMutate o a :: k) st =
  match mutate o st a with (Ok, st1) => run f fx idx k st1 | (Err e, st1) => (Error e, st1) end.
Proof. reflexivity. Qed.
Lemma run_fail : run (S f) fx idx (IFail :: k) st = (Error Failed, st).
Proof. reflexivity. Qed.
Lemma run_errstatic : run (S f) fx idx (IErrStatic :: k) st = (Error ControlOutsideLoop, st).
Proof. reflexivity. Qed.
Lemma run_if : forall n t e, run (S f) fx idx (IIf n t e :: k) st =
  match run f fx idx (if Nat.eqb idx n then t else e) st with
  | (Next, st1) => run f fx idx k st1 | other => other end.
Proof. reflexivity. Qed.
Lemma run_for : forall a body, run (S f) fx idx (IFor a body :: k) st =
  match lock st a with
  | None => (Error NotIterable, st)
  | Some st1 => match loop f fx a body 0 st1 with
                | (Next, st2) => run f fx idx k st2 | other => other end
  end.
Proof. reflexivity. Qed.
Lemma run_continue : forall a, run (S f) fx idx (IContinue a :: k) st = (Cont, st).
Proof. reflexivity. Qed.
Lemma run_break : forall a, run (S f) fx idx (IBreak a :: k) st = (Brk, unlock st a).
Proof. reflexivity. Qed.
Lemma run_iterstop : forall a, run (S f) fx idx (IIterStop a :: k) st = run f fx idx k (unlock st a).
Proof. reflexivity. Qed.
Lemma run_return : run (S f) fx idx (IReturn :: k) st = (Ret, st).
Proof. reflexivity. Qed.
Lemma run_returncheck : forall ok, run (S f) fx idx (IReturnCheck ok :: k) st = (if ok then Ret else RetErr, st).
Proof. reflexivity. Qed.
Lemma run_call : forall body, run (S f) fx idx (ICall body :: k) st =
  match run f fx idx body st with
  | (Next, st1) | (Ret, st1) => run f fx idx k st1
  | (RetErr, st1) => (Error TypeMismatch, st1)
  | (Error e, st1) => (Error e, st1)
  | (NoFuel, st1) => (NoFuel, st1)
  | (_, st1) => (Error Internal, st1)
  end.
Proof. reflexivity. Qed.
Lemma run_builtin : forall early a cb, run (S f) fx idx (IBuiltin early a cb :: k) st =
  match lock st a with
  | None => (Error NotIterable, st)
  | Some st1 => match bloop f fx early a cb 0 st1 with
                | (Next, st2) => run f fx idx k st2 | other => other end
  end.
Proof. reflexivity. Qed.
Lemma loop_S : forall a body i, loop (S f) fx a body i st =
  if has_elem st a i then
    match run f fx i body st with
    | (Next, st1) | (Cont, st1) => loop f fx a body (S i) st1
    | (Brk, st1) => (Next, st1)
    | (Ret, st1) => (Ret, st1)
    | (RetErr, st1) => (RetErr, st1)
    | (Error e, st1) => (Error e, if fx then unlock st1 a else st1)
    | (NoFuel, st1) => (NoFuel, st1)
    end
  else (Next, unlock st a).
Proof. reflexivity. Qed.
Lemma bloop_S : forall early a cb i, bloop (S f) fx early a cb i st =
  if stop_here early i then (Next, unlock st a)
  else if has_elem st a i then
    match run f fx i cb st with
    | (Next, st1) | (Ret, st1) => bloop f fx early a cb (S i) st1
    | (RetErr, st1) => (Error TypeMismatch, unlock st1 a)
    | (Error e, st1) => (Error e, unlock st1 a)
    | (NoFuel, st1) => (NoFuel, st1)
    | (_, st1) => (Error Internal, unlock st1 a)
    end
  else (Next, unlock st a).
Proof. reflexivity. Qed.
End Eqs.

Lemma run_0 : forall fx idx c st, run 0 fx idx c st = (NoFuel, st).
Proof. reflexivity. Qed.
Lemma loop_0 : forall fx a body i st, loop 0 fx a body i st = (NoFuel, st).
Proof. reflexivity. Qed.
Lemma bloop_0 : forall fx early a cb i st, bloop 0 fx early a cb i st = (NoFuel, st).
Proof. reflexivity. Qed.

(* the InstrIterStop sequence written before a return *)
Lemma run_stops : forall fx idx k ls fuel st r st',
  run fuel fx idx (stops ls (IReturn :: k)) st = (r, st') ->
  r = NoFuel \/ (r = Ret /\ st' = unlock_all ls st).
Proof.
  induction ls as [|a t IH]; intros fuel st r st' H; destruct fuel as [|f];
    try (rewrite run_0 in H; inversion H; left; reflexivity).
  - cbn [stops fold_right] in H. rewrite run_return in H. inversion H; right; split; reflexivity.
  - cbn [stops fold_right] in H. fold (stops t (IReturn :: k)) in H. rewrite run_iterstop in H. apply IH in H. simpl. exact H.
Qed.

(* ... and before the return of a def with a declared return type (InstrReturnCheckType) *)
Lemma run_stops_chk : forall fx idx k ok ls fuel st r st',
  run fuel fx idx (stops ls (IReturnCheck ok :: k)) st = (r, st') ->
  r = NoFuel \/ (r = (if ok then Ret else RetErr) /\ st' = unlock_all ls st).
Proof.
  induction ls as [|a t IH]; intros fuel st r st' H; destruct fuel as [|f];
    try (rewrite run_0 in H; inversion H; left; reflexivity).
  - cbn [stops fold_right] in H. rewrite run_returncheck in H. inversion H; right; split; reflexivity.
  - cbn [stops fold_right] in H. fold (stops t (IReturnCheck ok :: k)) in H. rewrite run_iterstop in H. apply IH in H. simpl. exact H.
Qed.

(* ------------------------------------------------------------------ the main invariant *)
Section Main.
Variable fx : bool.

Definition post (ls : list addr) (st : store) (r : sig) (st' : store) : Prop :=
  match r with
  | Next | Cont => same st st'
  | Brk => match ls with a :: _ => rel a st st' | [] => False end
  | Ret | RetErr => forall b, iter_count st' b + occ b ls = iter_count st b
  | Error _ => fx = true -> same st st'
  | NoFuel => True
  end.

Definition post_loop (a : addr) (ls : list addr) (st : store) (r : sig) (st' : store) : Prop :=
  match r with
  | Next => rel a st st'
  | Ret | RetErr => forall b, iter_count st' b + occ b (a :: ls) = iter_count st b
  | Error _ => fx = true -> rel a st st'
  | NoFuel => True
  | Brk | Cont => False
  end.

Definition post_bloop (a : addr) (st : store) (r : sig) (st' : store) : Prop :=
  match r with
  | Next => rel a st st'
  | Error _ => fx = true -> rel a st st'
  | NoFuel => True
  | _ => False
  end.

Lemma post_trans : forall ls st st1 r st', same st st1 -> post ls st1 r st' -> post ls st r st'.
Proof.
  intros ls st st1 r st' S P; destruct r; simpl in *.
  - intro b; rewrite P; apply S.
  - destruct ls; [exact P|]. intro b; rewrite P; apply S.
  - intro b; rewrite P; apply S.
  - intro b; rewrite P; apply S.
  - intro b; rewrite P; apply S.
  - intros F b; rewrite (P F); apply S.
  - exact I.
Qed.

Lemma post_loop_trans : forall a ls st st1 r st', same st st1 -> post_loop a ls st1 r st' -> post_loop a ls st r st'.
Proof.
  intros a ls st st1 r st' S P; destruct r; simpl in *; try exact P.
  - intro b; rewrite P; apply S.
  - intro b; rewrite P; apply S.
  - intro b; rewrite P; apply S.
  - intros F b; rewrite (P F); apply S.
Qed.

Lemma post_bloop_trans : forall a st st1 r st', same st st1 -> post_bloop a st1 r st' -> post_bloop a st r st'.
Proof.
  intros a st st1 r st' S P; destruct r; simpl in *; try exact P.
  - intro b; rewrite P; apply S.
  - intros F b; rewrite (P F); apply S.
Qed.

Definition PA (fuel : nat) : Prop := forall ls p idx st r st',
  held ls st -> run fuel fx idx (compile ls p) st = (r, st') -> post ls st r st'.
Definition PB (fuel : nat) : Prop := forall ls a body i st r st',
  held (a :: ls) st -> loop fuel fx a (compile (a :: ls) body) i st = (r, st') -> post_loop a ls st r st'.
Definition PC (fuel : nat) : Prop := forall a cb early i st r st',
  1 <= iter_count st a -> bloop fuel fx early a (compile [] cb) i st = (r, st') -> post_bloop a st r st'.

Lemma held_nil : forall st, held [] st.
Proof. intros st b; simpl; lia. Qed.

Lemma same_refl : forall st, same st st.
Proof. intros st b; reflexivity. Qed.

Lemma stepA : forall f, PA f -> PB f -> PC f -> PA (S f).
Proof.
  intros f IA IB IC ls p idx st r st' H R.
  destruct p as [|s p']; [cbn [compile] in R; rewrite run_nil in R; inversion R; subst; apply same_refl|].
  destruct s; cbn [compile compile_stmt] in R.
  - (* SMutate *)
    rewrite run_mutate in R. destruct (mutate o st a) as [[|e] st1] eqn:M.
    + pose proof (mutate_cnt _ _ _ _ _ M) as S.
      eapply post_trans; [exact S|]. eapply IA; [|exact R]. eapply held_same; eauto.
    + inversion R; subst. apply mutate_err_intact in M; subst. intros _; apply same_refl.
  - (* SFail *)
    rewrite run_fail in R; inversion R; subst. intros _; apply same_refl.
  - (* SFor *)
    rewrite run_for in R. destruct (lock st a) as [s1|] eqn:L.
    2:{ inversion R; subst. intros _; apply same_refl. }
    destruct (loop f fx a (compile (a :: ls) body) 0 s1) as [r1 st2] eqn:Lp.
    pose proof (IB ls a body 0 s1 r1 st2 (held_lock _ _ _ _ H L) Lp) as P.
    pose proof (cnt_lock _ _ _ L) as CL.
    destruct r1; simpl in P; try contradiction.
    + assert (S : same st st2) by (intro b; specialize (P b); specialize (CL b); lia).
      eapply post_trans; [exact S|]. eapply IA; [|exact R]. eapply held_same; eauto.
    + inversion R; subst. intro b; specialize (P b); specialize (CL b); simpl in P; lia.
    + inversion R; subst. intro b; specialize (P b); specialize (CL b); simpl in P; lia.
    + inversion R; subst. intros F b; specialize (P F b); specialize (CL b); lia.
    + inversion R; subst; exact I.
  - (* SBreak *)
    destruct ls as [|a ls].
    + rewrite run_errstatic in R; inversion R; subst. intros _; apply same_refl.
    + rewrite run_break in R; inversion R; subst. simpl. apply unlock_rel. eapply held_top; eauto.
  - (* SContinue *)
    destruct ls as [|a ls].
    + rewrite run_errstatic in R; inversion R; subst. intros _; apply same_refl.
    + rewrite run_continue in R; inversion R; subst. apply same_refl.
  - (* SReturn *)
    apply run_stops in R. destruct R as [->|[-> ->]]; [exact I|].
    simpl. apply cnt_unlock_all; exact H.
  - (* SReturnT *)
    apply run_stops_chk in R. destruct R as [->|[-> ->]]; [exact I|].
    destruct ok; simpl; apply cnt_unlock_all; exact H.
  - (* SIf *)
    rewrite run_if in R.
    assert (E : (if Nat.eqb idx n then compile ls t else compile ls e) = compile ls (if Nat.eqb idx n then t else e))
      by (destruct (Nat.eqb idx n); reflexivity).
    rewrite E in R; clear E.
    destruct (run f fx idx (compile ls (if Nat.eqb idx n then t else e)) st) as [r1 st1] eqn:R1.
    pose proof (IA _ _ _ _ _ _ H R1) as P.
    destruct r1; try (inversion R; subst; exact P).
    simpl in P. eapply post_trans; [exact P|]. eapply IA; [|exact R]. eapply held_same; eauto.
  - (* SCall *)
    rewrite run_call in R.
    destruct (run f fx idx (compile [] body) st) as [r1 st1] eqn:R1.
    pose proof (IA _ _ _ _ _ _ (held_nil st) R1) as P.
    destruct r1; simpl in P; try contradiction.
    + eapply post_trans; [exact P|]. eapply IA; [|exact R]. eapply held_same; eauto.
    + inversion R; subst. intros _; exact P.
    + assert (S : same st st1) by (intro b; specialize (P b); lia).
      eapply post_trans; [exact S|]. eapply IA; [|exact R]. eapply held_same; eauto.
    + inversion R; subst. intros _ b; specialize (P b); lia.
    + inversion R; subst. exact P.
    + inversion R; subst; exact I.
  - (* SBuiltin *)
    assert (E : (if has_callback b then compile [] cb else []) = compile [] (if has_callback b then cb else BNil))
      by (destruct (has_callback b); reflexivity).
    rewrite E in R; clear E.
    rewrite run_builtin in R. destruct (lock st a) as [s1|] eqn:L.
    2:{ inversion R; subst. intros _; apply same_refl. }
    destruct (bloop f fx early a (compile [] (if has_callback b then cb else BNil)) 0 s1) as [r1 st2] eqn:Lp.
    pose proof (cnt_lock _ _ _ L) as CL.
    assert (G : 1 <= iter_count s1 a) by (rewrite CL, d_self; lia).
    pose proof (IC _ _ _ _ _ _ _ G Lp) as P.
    destruct r1; simpl in P; try contradiction.
    + assert (S : same st st2) by (intro x; specialize (P x); specialize (CL x); lia).
      eapply post_trans; [exact S|]. eapply IA; [|exact R]. eapply held_same; eauto.
    + inversion R; subst. intros F x; specialize (P F x); specialize (CL x); lia.
    + inversion R; subst; exact I.
Qed.

Lemma stepB : forall f, PA f -> PB f -> PB (S f).
Proof.
  intros f IA IB ls a body i st r st' H R.
  rewrite loop_S in R. destruct (has_elem st a i).
  2:{ inversion R; subst. simpl. apply unlock_rel. eapply held_top; eauto. }
  destruct (run f fx i (compile (a :: ls) body) st) as [r1 st1] eqn:R1.
  pose proof (IA _ _ _ _ _ _ H R1) as P.
  destruct r1; simpl in P.
  - eapply post_loop_trans; [exact P|]. eapply IB; [|exact R]. eapply held_same; eauto.
  - inversion R; subst. exact P.
  - eapply post_loop_trans; [exact P|]. eapply IB; [|exact R]. eapply held_same; eauto.
  - inversion R; subst. exact P.
  - inversion R; subst. exact P.
  - inversion R; subst. intros F. rewrite F. specialize (P F).
    intro b. rewrite cnt_unlock. rewrite P. pose proof (held_top _ _ _ H b). lia.
  - inversion R; subst; exact I.
Qed.

Lemma stepC : forall f, PA f -> PC f -> PC (S f).
Proof.
  intros f IA IC a cb early i st r st' G R.
  rewrite bloop_S in R. destruct (stop_here early i).
  { inversion R; subst. simpl. apply unlock_rel. apply one_top; exact G. }
  destruct (has_elem st a i).
  2:{ inversion R; subst. simpl. apply unlock_rel. apply one_top; exact G. }
  destruct (run f fx i (compile [] cb) st) as [r1 st1] eqn:R1.
  pose proof (IA _ _ _ _ _ _ (held_nil st) R1) as P.
  destruct r1; simpl in P; try contradiction.
  - eapply post_bloop_trans; [exact P|]. eapply IC; [|exact R]. rewrite P; exact G.
  - inversion R; subst. intros F b. rewrite cnt_unlock, P. pose proof (one_top _ _ G b). lia.
  - assert (S : same st st1) by (intro b; specialize (P b); lia).
    eapply post_bloop_trans; [exact S|]. eapply IC; [|exact R]. rewrite S; exact G.
  - inversion R; subst. intros F b. rewrite cnt_unlock. specialize (P b). pose proof (one_top _ _ G b). lia.
  - inversion R; subst. intros F b. rewrite cnt_unlock, (P F). pose proof (one_top _ _ G b). lia.
  - inversion R; subst; exact I.
Qed.

Lemma main : forall fuel, PA fuel /\ PB fuel /\ PC fuel.
Proof.
  induction fuel as [|f [IA [IB IC]]].
  - repeat split.
    + intros ls p idx st r st' _ R; rewrite run_0 in R; inversion R; exact I.
    + intros ls a body i st r st' _ R; rewrite loop_0 in R; inversion R; exact I.
    + intros a cb early i st r st' _ R; rewrite bloop_0 in R; inversion R; exact I.
  - repeat split; [apply stepA | apply stepB | apply stepC]; assumption.
Qed.
End Main.

(* ------------------------------------------------------------------ headline lemmas *)
Lemma lock_balanced : forall fx fuel p st r st',
  exec fuel fx p st = (r, st') -> r <> NoFuel -> is_err r = false ->
  forall a, iter_count st' a = iter_count st a.
Proof.
  unfold exec; intros fx fuel p st r st' R NF NE a.
  destruct (main fx fuel) as [IA _].
  pose proof (IA [] p 0 st r st' (held_nil st) R) as P.
  destruct r; simpl in *; try contradiction; try discriminate; try (apply P).
  specialize (P a); lia.
Qed.

Lemma lock_released_on_error_repaired : forall fuel p st e st',
  exec fuel true p st = (Error e, st') -> forall a, iter_count st' a = iter_count st a.
Proof.
  unfold exec; intros fuel p st e st' R a.
  destruct (main true fuel) as [IA _].
  exact (IA [] p 0 st _ st' (held_nil st) R eq_refl a).
Qed.

(* a def with a declared return type: `return e` inside any nesting of loops releases every loop of the frame whether or not
   the type check of InstrReturnCheckType passes (the passing case is an instance of lock_balanced: SReturnT true ends
   with Ret); both interpreters *)
Lemma return_check_failure_released : forall fx fuel p st st',
  exec fuel fx p st = (RetErr, st') -> forall a, iter_count st' a = iter_count st a.
Proof.
  unfold exec; intros fx fuel p st st' R a.
  destruct (main fx fuel) as [IA _].
  pose proof (IA [] p 0 st RetErr st' (held_nil st) R) as P.
  simpl in P. specialize (P a); lia.
Qed.

(* typed return from three nested loops (two of them over the same container), check passing / failing, and the failing
   check seen by a caller that is itself inside a loop (the caller's loop is an ordinary error exit: F4) *)
Definition typed_store : store := of_list [mkCell (VList [1; 2; 3]%Z) 0; mkCell (VList [10; 20]%Z) 0].
Definition typed_prog (ok : bool) : block :=
  blk [SFor 1 (blk [SFor 0 (blk [SFor 0 (blk [SIf 1 (blk [SReturnT ok]) BNil])])])].
Lemma typed_return_examples :
  fst (exec 100 false (typed_prog true) typed_store) = Ret
  /\ iter_count (snd (exec 100 false (typed_prog true) typed_store)) 0 = 0
  /\ iter_count (snd (exec 100 false (typed_prog true) typed_store)) 1 = 0
  /\ fst (exec 100 false (typed_prog false) typed_store) = RetErr
  /\ iter_count (snd (exec 100 false (typed_prog false) typed_store)) 0 = 0
  /\ iter_count (snd (exec 100 false (typed_prog false) typed_store)) 1 = 0
  /\ fst (exec 100 false (blk [SFor 1 (blk [SCall (typed_prog false)])]) typed_store) = Error TypeMismatch
  /\ iter_count (snd (exec 100 false (blk [SFor 1 (blk [SCall (typed_prog false)])]) typed_store)) 0 = 0
  /\ iter_count (snd (exec 100 false (blk [SFor 1 (blk [SCall (typed_prog false)])]) typed_store)) 1 = 1
  /\ iter_count (snd (exec 100 true (blk [SFor 1 (blk [SCall (typed_prog false)])]) typed_store)) 1 = 0.
Proof. vm_compute. repeat split. Qed.

(* under the faithful interpreter an error can only leave counts where they were or higher: nothing is
   ever released twice *)
Definition witness_store : store := of_list [mkCell (VList [1; 2; 3]%Z) 0].
Definition witness_prog : block := blk [SFor 0 (blk [SFail])].

Lemma lock_retained_on_error_refuted : exists fuel p st st' e a,
  exec fuel false p st = (Error e, st') /\ iter_count st a < iter_count st' a.
Proof.
  set (x := exec 10 false witness_prog witness_store).
  assert (H1 : fst x = Error Failed) by (vm_compute; reflexivity).
  assert (H2 : iter_count (snd x) 0 = 1) by (vm_compute; reflexivity).
  exists 10, witness_prog, witness_store, (snd x), Failed, 0. split.
  - unfold x in *. destruct (exec 10 false witness_prog witness_store) as [r s]; simpl in *; subst; reflexivity.
  - rewrite H2. vm_compute. lia.
Qed.

(* native consumers (StarlarkIterator is RAII): released on EVERY exit, errors included, already in the code as it is,
   provided the callback itself does not leave a bytecode loop by an error *)
Fixpoint flat (b : block) : bool :=
  match b with
  | BNil => true
  | BCons s b' =>
      (match s with
       | SMutate _ _ | SFail | SReturn => true
       | SIf _ t e => flat t && flat e
       | _ => false
       end) && flat b'
  end.

Lemma flat_run : forall fx fuel cb idx st r st',
  flat cb = true -> run fuel fx idx (compile [] cb) st = (r, st') -> same st st'.
Proof.
  induction fuel as [|f IH]; intros cb idx st r st' F R; [rewrite run_0 in R; inversion R; apply same_refl|].
  destruct cb as [|s cb']; [cbn [compile] in R; rewrite run_nil in R; inversion R; apply same_refl|].
  simpl in F. apply andb_true_iff in F. destruct F as [Fs Fb].
  destruct s; try discriminate; cbn [compile compile_stmt] in R.
  - rewrite run_mutate in R. destruct (mutate o st a) as [[|e] st1] eqn:M.
    + pose proof (mutate_cnt _ _ _ _ _ M) as S. intro b. rewrite (IH _ _ _ _ _ Fb R b). apply S.
    + inversion R; subst. apply mutate_err_intact in M; subst; apply same_refl.
  - rewrite run_fail in R; inversion R; apply same_refl.
  - cbn [stops fold_right] in R. rewrite run_return in R; inversion R; apply same_refl.
  - rewrite run_if in R. apply andb_true_iff in Fs. destruct Fs as [Ft Fe].
    assert (E : (if Nat.eqb idx n then compile [] t else compile [] e) = compile [] (if Nat.eqb idx n then t else e))
      by (destruct (Nat.eqb idx n); reflexivity).
    rewrite E in R; clear E.
    assert (Fi : flat (if Nat.eqb idx n then t else e) = true) by (destruct (Nat.eqb idx n); assumption).
    destruct (run f fx idx (compile [] (if Nat.eqb idx n then t else e)) st) as [r1 st1] eqn:R1.
    pose proof (IH _ _ _ _ _ Fi R1) as S1.
    destruct r1; try (inversion R; subst; exact S1).
    intro b. rewrite (IH _ _ _ _ _ Fb R b). apply S1.
Qed.

Lemma bloop_flat : forall fx fuel early a cb i st r st',
  1 <= iter_count st a -> flat cb = true ->
  bloop fuel fx early a (compile [] cb) i st = (r, st') -> r = NoFuel \/ rel a st st'.
Proof.
  induction fuel as [|f IH]; intros early a cb i st r st' G F R; [rewrite bloop_0 in R; inversion R; left; reflexivity|].
  rewrite bloop_S in R. destruct (stop_here early i).
  { inversion R; subst. right. apply unlock_rel. apply one_top; exact G. }
  destruct (has_elem st a i).
  2:{ inversion R; subst. right. apply unlock_rel. apply one_top; exact G. }
  destruct (run f fx i (compile [] cb) st) as [r1 st1] eqn:R1.
  pose proof (flat_run _ _ _ _ _ _ _ F R1) as S.
  assert (G1 : 1 <= iter_count st1 a) by (rewrite S; exact G).
  assert (U : rel a st (unlock st1 a)).
  { intro b. rewrite cnt_unlock, S. pose proof (one_top _ _ G b). lia. }
  destruct r1; try (inversion R; subst; right; exact U).
  - destruct (IH _ _ _ _ _ _ _ G1 F R) as [->|P]; [left; reflexivity|right]. intro b; rewrite P; apply S.
  - destruct (IH _ _ _ _ _ _ _ G1 F R) as [->|P]; [left; reflexivity|right]. intro b; rewrite P; apply S.
  - inversion R; subst. left; reflexivity.
Qed.

Lemma builtin_consumers_balanced : forall fx fuel b early a cb st r st',
  flat cb = true ->
  exec fuel fx (BCons (SBuiltin b early a cb) BNil) st = (r, st') -> r <> NoFuel ->
  forall x, iter_count st' x = iter_count st x.
Proof.
  unfold exec; intros fx fuel b early a cb st r st' F R NF x.
  destruct fuel as [|f]; [rewrite run_0 in R; inversion R; subst; contradiction|].
  cbn [compile compile_stmt] in R.
  assert (E : (if has_callback b then compile [] cb else []) = compile [] (if has_callback b then cb else BNil))
    by (destruct (has_callback b); reflexivity).
  rewrite E in R; clear E.
  assert (F' : flat (if has_callback b then cb else BNil) = true) by (destruct (has_callback b); [exact F|reflexivity]).
  rewrite run_builtin in R. destruct (lock st a) as [s1|] eqn:L; [|inversion R; reflexivity].
  pose proof (cnt_lock _ _ _ L) as CL.
  assert (G : 1 <= iter_count s1 a) by (rewrite CL, d_self; lia).
  destruct (bloop f fx early a (compile [] (if has_callback b then cb else BNil)) 0 s1) as [r1 st2] eqn:B.
  destruct (bloop_flat _ _ _ _ _ _ _ _ _ G F' B) as [->|P].
  { inversion R; subst; contradiction. }
  assert (S : iter_count st2 x = iter_count st x) by (specialize (P x); specialize (CL x); lia).
  destruct r1; try (inversion R; subst; exact S).
  destruct f as [|f']; [rewrite run_0 in R; inversion R; subst; exact S|].
  cbn [compile] in R. rewrite run_nil in R. inversion R; subst; exact S.
Qed.

(* a mutation attempted in the body of a for loop over the same container fails and nothing is written *)
Lemma mutation_in_for_body_blocked : forall fx fuel a o rest st r st',
  has_elem st a 0 = true -> pre_ok o st a = true ->
  exec (S (S (S fuel))) fx (BCons (SFor a (BCons (SMutate o a) rest)) BNil) st = (r, st') ->
  r = Error MutateWhileIter /\ forall b, content st' b = content st b.
Proof.
  unfold exec; intros fx fuel a o rest st r st' HE PO R.
  cbn [compile compile_stmt] in R. rewrite run_for in R.
  unfold has_elem in HE. destruct (st a) as [c|] eqn:E; [|discriminate].
  unfold lock in R. rewrite E in R.
  set (s1 := upd st a (mkCell (c_val c) (S (c_iters c)))) in *.
  assert (E1 : s1 a = Some (mkCell (c_val c) (S (c_iters c)))) by (unfold s1, upd; rewrite Nat.eqb_refl; reflexivity).
  rewrite loop_S in R. unfold has_elem in R at 1. rewrite E1 in R. simpl c_val in R. rewrite HE in R.
  rewrite run_mutate in R.
  assert (M : mutate o s1 a = (Err MutateWhileIter, s1)).
  { apply mutation_blocked.
    - unfold iter_count; rewrite E1; simpl; lia.
    - unfold pre_ok in *; rewrite E1; rewrite E in PO; exact PO. }
  rewrite M in R. inversion R; subst. split; [reflexivity|].
  assert (C1 : forall b, content s1 b = content st b).
  { intro b. unfold content, s1, upd. destruct (Nat.eqb b a) eqn:Eb; [|reflexivity].
    apply Nat.eqb_eq in Eb; subst; rewrite E; reflexivity. }
  intro b. destruct fx; [rewrite content_unlock|]; apply C1.
Qed.
