(* C16 specification: what a type *means* (docs/types.md, "What does a type mean?").
   Type expressions, a catalogue of run-time values, and `denote : ty -> value -> bool`.
   Nothing here mentions matchers, normalisation or any other mechanism of the implementation. *)
From Coq Require Import NArith Bool List.
Import ListNotations.

(* Types that are "the values produced by the respective functions" (docs): None, bool, float, int,
   range, str.  (Listed in the order of their type names: NoneType bool float int range string.) *)
Inductive base := BNone | BBool | BFloat | BInt | BRange | BStr.

Inductive ty :=
| TAny                       (* typing.Any *)
| TNever                     (* typing.Never *)
| TBase (b : base)           (* None bool float int range str *)
| TIter                      (* typing.Iterable *)
| TCallable                  (* typing.Callable *)
| TList (t : ty)             (* list[T]; bare `list` is list[typing.Any] *)
| TTuple (ts : list ty)      (* (T0, .., Tn-1): tuples of that arity, component-wise *)
| TTupleOf (t : ty)          (* tuple[T, ...]; bare `tuple` is tuple[typing.Any, ...] *)
| TDict (k v : ty)           (* dict[K, V] *)
| TRecord (id : N)           (* the record type made by the id-th record(...) declaration *)
| TEnum (id : N)             (* the enum type made by the id-th enum(...) declaration *)
| TSet (t : ty)              (* set[T] *)
| TUnion (ts : list ty).     (* T0 | T1 | ... *)

(* The value catalogue.  Scalars carry no payload beyond what a type can observe. *)
Inductive value :=
| VNone | VBool | VInt (big : bool) | VFloat | VStr
| VList (vs : list value) | VTuple (vs : list value) | VSet (vs : list value)
| VDict (kvs : list (value * value))
| VRange | VStruct
| VFunc                      (* def, lambda, builtin function, bound method *)
| VRecordType (id : N)       (* the declaration itself: R = record(...) *)
| VEnumType (id : N)         (* E = enum(...) *)
| VTypeVal                   (* a type object such as list[int] *)
| VRecord (id : N)           (* an instance of the id-th record declaration *)
| VEnumVal (id : N).         (* a member of the id-th enum declaration *)

Definition base_eqb (a b : base) : bool :=
  match a, b with
  | BNone, BNone | BBool, BBool | BFloat, BFloat | BInt, BInt | BRange, BRange | BStr, BStr => true
  | _, _ => false
  end.

(* which base type produced this value *)
Definition base_of (v : value) : option base :=
  match v with
  | VNone => Some BNone | VBool => Some BBool | VInt _ => Some BInt | VFloat => Some BFloat
  | VStr => Some BStr | VRange => Some BRange | _ => None
  end.
Definition has_base (b : base) (v : value) : bool :=
  match base_of v with Some b' => base_eqb b b' | None => false end.

(* "something that can be called as a function" *)
Definition callable (v : value) : bool :=
  match v with VFunc | VRecordType _ | VEnumType _ => true | _ => false end.
(* "something that can be iterated on" (strings are not iterable in Starlark) *)
Definition iterable (v : value) : bool :=
  match v with VList _ | VTuple _ | VSet _ | VDict _ | VRange | VEnumType _ => true | _ => false end.

Section Forall2b.
  Context {A B : Type} (f : A -> B -> bool).
  (* same length and pointwise f *)
  Fixpoint forall2b (l : list A) (m : list B) : bool :=
    match l, m with
    | [], [] => true
    | a :: l', b :: m' => f a b && forall2b l' m'
    | _, _ => false
    end.
End Forall2b.

Fixpoint denote (t : ty) (v : value) {struct t} : bool :=
  match t with
  | TAny => true
  | TNever => false
  | TBase b => has_base b v
  | TIter => iterable v
  | TCallable => callable v
  | TList t => match v with VList vs => forallb (denote t) vs | _ => false end
  | TTuple ts => match v with VTuple vs => forall2b denote ts vs | _ => false end
  | TTupleOf t => match v with VTuple vs => forallb (denote t) vs | _ => false end
  | TDict k w => match v with
                 | VDict kvs => forallb (fun kv => denote k (fst kv) && denote w (snd kv)) kvs
                 | _ => false
                 end
  | TRecord id => match v with VRecord id' => N.eqb id id' | _ => false end   (* by declaration, not shape *)
  | TEnum id => match v with VEnumVal id' => N.eqb id id' | _ => false end
  | TSet t => match v with VSet vs => forallb (denote t) vs | _ => false end
  | TUnion ts => existsb (fun t => denote t v) ts                           (* "either an A or a B" *)
  end.

(* The meaning of a type expression as written by the user, before the implementation touches it. *)
Definition denote_raw := denote.
