(* C16 implementation model: what starlark-rust does with a type expression before it answers
   "does this value have this type".  Executable Gallina, no proofs in this file.

   1. `normalize`  : the user's expression is evaluated bottom-up into a `Ty` (starlark/src/typing/ty.rs):
                     every `A | B` goes through `Ty::union2` / `Ty::unions`.
   2. `compile`    : `TypeMatcherAlloc::ty` (values/typing/type_compiled/alloc.rs) picks a specialised
                     matcher struct from the shape of the normalised `Ty` (+ typing/tuple.rs `TyTuple::matcher`,
                     typing/starlark_value.rs `TyStarlarkValue::matcher`).
   3. `matches`    : the `TypeMatcher::matches` impls of values/typing/type_compiled/matchers.rs,
                     values/types/record/matcher.rs, values/types/enumeration/matcher.rs.
   isinstance, parameter/return annotations, annotated assignments and `TypeCompiled::matches` all end in
   `TypeCompiled::matches` on the result of step 2 (compiled.rs `check_type`, def.rs `check_parameter_types`
   / `check_return_type`, instr_impl.rs `InstrCheckType`): `check`. *)
From Coq Require Import NArith Bool List.
From SV Require Import Ty.Spec.
Import ListNotations.

(* ------------------------------------------------------------------------------------------- *)
(* A `Ty` is a slice of alternatives (`Ty::iter_union`).  In this single datatype a normalised type is
   `TNever` (no alternative), a non-union constructor (one alternative) or `TUnion` of >= 2. *)
Definition alts (t : ty) : list ty :=
  match t with TUnion ts => ts | TNever => [] | _ => [t] end.

Definition is_TAny (t : ty) : bool := match t with TAny => true | _ => false end.
(* Ty::is_any : self == Ty::any() *)
Definition is_any (t : ty) : bool := match alts t with [TAny] => true | _ => false end.
(* Ty::is_never : alternatives.is_empty() *)
Definition is_never (t : ty) : bool := match alts t with [] => true | _ => false end.
(* Ty::is_starlark_value : exactly one alternative, a TyBasic::StarlarkValue *)
Definition is_sv (t : ty) : option base := match alts t with [TBase b] => Some b | _ => None end.
(* building a Ty from its alternatives *)
Definition mk_ty (xs : list ty) : ty :=
  match xs with [] => TNever | [b] => b | _ => TUnion xs end.

(* ---- structural equality and the derived `Ord` of TyBasic (variant first, then fields) ---------- *)
Fixpoint ty_eqb (a b : ty) {struct a} : bool :=
  match a, b with
  | TAny, TAny | TNever, TNever | TIter, TIter | TCallable, TCallable => true
  | TBase x, TBase y => base_eqb x y
  | TList x, TList y | TTupleOf x, TTupleOf y | TSet x, TSet y => ty_eqb x y
  | TTuple xs, TTuple ys | TUnion xs, TUnion ys => forall2b ty_eqb xs ys
  | TDict k v, TDict k' v' => ty_eqb k k' && ty_eqb v v'
  | TRecord i, TRecord j | TEnum i, TEnum j => N.eqb i j
  | _, _ => false
  end.

Definition base_rank (b : base) : N :=   (* TyStarlarkValue::cmp compares type names *)
  match b with BNone => 0 | BBool => 1 | BFloat => 2 | BInt => 3 | BRange => 4 | BStr => 5 end.
Definition ctor_rank (t : ty) : N :=     (* declaration order of enum TyBasic *)
  match t with
  | TAny => 0 | TBase _ => 1 | TIter => 2 | TCallable => 3 | TList _ => 5 | TTuple _ | TTupleOf _ => 6
  | TDict _ _ => 7 | TRecord _ | TEnum _ => 8 | TSet _ => 9 | TNever => 10 | TUnion _ => 11
  end.
(* The order inside one variant is an approximation (ArcTy has its own ordering); the only facts the
   rest of the model depends on are that the variant is the primary key, so that after sorting all
   list alternatives are adjacent and all dict alternatives are adjacent, and that equal types are
   adjacent.  The order is not observable through `matches`. *)
Fixpoint ty_cmp (a b : ty) {struct a} : comparison :=
  match a, b with
  | TBase x, TBase y => N.compare (base_rank x) (base_rank y)
  | TList x, TList y | TTupleOf x, TTupleOf y | TSet x, TSet y => ty_cmp x y
  | TTuple xs, TTuple ys | TUnion xs, TUnion ys =>
      (fix lex (xs ys : list ty) : comparison :=
         match xs, ys with
         | [], [] => Eq | [], _ => Lt | _, [] => Gt
         | x :: xs', y :: ys' => match ty_cmp x y with Eq => lex xs' ys' | c => c end
         end) xs ys
  | TTuple _, TTupleOf _ => Lt
  | TTupleOf _, TTuple _ => Gt
  | TDict k v, TDict k' v' => match ty_cmp k k' with Eq => ty_cmp v v' | c => c end
  | TRecord i, TRecord j | TEnum i, TEnum j => N.compare i j
  | TEnum _, TRecord _ => Lt      (* TyUser::cmp compares names first; the harness names enums E*, records R* *)
  | TRecord _, TEnum _ => Gt
  | _, _ => N.compare (ctor_rank a) (ctor_rank b)
  end.
Definition ty_leb (a b : ty) : bool := match ty_cmp a b with Gt => false | _ => true end.

Fixpoint insert (a : ty) (l : list ty) : list ty :=
  match l with
  | [] => [a]
  | b :: l' => if ty_leb a b then a :: l else b :: insert a l'
  end.
Definition sort (l : list ty) : list ty := fold_right insert [] l.        (* xs.sort() *)

Fixpoint dedup (l : list ty) : list ty :=                                 (* xs.dedup(): consecutive repeats *)
  match l with
  | [] => []
  | a :: l' => match l' with
               | b :: _ => if ty_eqb a b then dedup l' else a :: dedup l'
               | [] => [a]
               end
  end.

(* ---- Ty::unions ------------------------------------------------------------------------------ *)
Section Merge.
  Variable union2 : ty -> ty -> ty.
  (* the closure passed to merge_adjacent in Ty::unions: Some = Either::Left (merged) *)
  Definition merge2 (x y : ty) : option ty :=
    match x, y with
    | TList a, TList b => Some (TList (union2 a b))
    | TDict k v, TDict k' v' => Some (TDict (union2 k k') (union2 v v'))
    | TRecord i, TRecord j => if N.eqb i j then Some x else None      (* TyCustom::union2: Ok only when equal *)
    | TEnum i, TEnum j => if N.eqb i j then Some x else None
    | _, _ => None
    end.
  (* fn merge_adjacent, with `last` as the accumulator *)
  Fixpoint merge_adj (last : ty) (xs : list ty) : list ty :=
    match xs with
    | [] => [last]
    | x :: rest => match merge2 last x with
                   | Some m => merge_adj m rest
                   | None => last :: merge_adj x rest
                   end
    end.
  Definition merge_adjacent (xs : list ty) : list ty :=
    match xs with [] => [] | x :: rest => merge_adj x rest end.
End Merge.

Fixpoint skip_never (xs : list ty) : list ty :=                           (* next_skip_never *)
  match xs with
  | [] => []
  | x :: r => if is_never x then skip_never r else xs
  end.

(* pub fn unions(xs: Vec<Ty>) -> Ty, with the recursive use of Ty::union2 inside merged list/dict
   alternatives abstracted as `u2` (None: leave the alternatives unmerged). *)
Definition unions_body (u2 : option (ty -> ty -> ty)) (xs : list ty) : ty :=
  if existsb is_any xs then TAny else
  match skip_never xs with
  | [] => TNever
  | x0 :: r0 =>
      match skip_never r0 with
      | [] => x0
      | x1 :: rest =>
          if (match rest with [] => ty_eqb x0 x1 | _ => false end) then x0 else
          let flat := flat_map alts (x0 :: x1 :: rest) in
          let s := dedup (sort flat) in
          mk_ty (match u2 with
                 | None => s
                 | Some u => merge_adjacent u s
                 end)
      end
  end.

(* `fuel` bounds the nesting of union2 inside merged alternatives (explicit fuel instead of a
   termination proof; when it runs out the alternatives are left unmerged). *)
Fixpoint unions (fuel : nat) (xs : list ty) : ty :=
  unions_body (match fuel with
               | O => None
               | S f => Some (fun a b => unions f [a; b])
               end) xs.

Fixpoint depth (t : ty) : nat :=
  match t with
  | TList t | TTupleOf t | TSet t => S (depth t)
  | TDict k v => S (Nat.max (depth k) (depth v))
  | TTuple ts | TUnion ts => S (fold_right (fun t n => Nat.max (depth t) n) O ts)
  | _ => O
  end.

(* Ty::union2 is a short-cut of Ty::unions(vec![a, b]) with the same result in every branch
   (any -> any, equal -> a, never -> the other). *)
Definition unions_top (xs : list ty) : ty := unions (S (depth (TUnion xs))) xs.

(* evaluation of a type expression to a Ty (eval/compiler/types.rs eval_expr, values/types/function.rs at/at2,
   compiled.rs TypeCompiled::new for tuples) *)
Fixpoint normalize (t : ty) : ty :=
  match t with
  | TList t => TList (normalize t)
  | TTupleOf t => TTupleOf (normalize t)
  | TSet t => TSet (normalize t)
  | TDict k v => TDict (normalize k) (normalize v)
  | TTuple ts => TTuple (map normalize ts)
  | TUnion ts => unions_top (map normalize ts)
  | _ => t
  end.

(* the same without the merge_adjacent step: what normalisation would be if unions stayed unions *)
Definition unions_nomerge (xs : list ty) : ty := unions O xs.
Fixpoint normalize_nomerge (t : ty) : ty :=
  match t with
  | TList t => TList (normalize_nomerge t)
  | TTupleOf t => TTupleOf (normalize_nomerge t)
  | TSet t => TSet (normalize_nomerge t)
  | TDict k v => TDict (normalize_nomerge k) (normalize_nomerge v)
  | TTuple ts => TTuple (map normalize_nomerge ts)
  | TUnion ts => unions_nomerge (map normalize_nomerge ts)
  | _ => t
  end.

(* ------------------------------------------------------------------------------------------- *)
(* matchers.rs *)
Inductive matcher :=
| MAny | MNever | MNone | MBool | MInt | MStr
| MTypeId (b : base)                  (* StarlarkTypeIdMatcher *)
| MIsTuple                            (* StarlarkTypeIdMatcher for Tuple *)
| MIsList | MListOf (m : matcher)
| MIsDict | MDictOf (k v : matcher)
| MIsSet | MSetOf (m : matcher)
| MTupleOf (m : matcher)
| MTupleElems0 | MTupleElems1 (a : matcher) | MTupleElems2 (a b : matcher) | MTupleElems (ms : list matcher)
| MEither (a b : matcher)             (* IsAnyOfTwo *)
| MAnyOf (ms : list matcher)          (* IsAnyOf *)
| MCallable | MIterable
| MRecord (id : N) | MEnum (id : N).  (* RecordTypeMatcher / EnumTypeMatcher: TypeInstanceId *)

(* TypeMatcher::is_wildcard: only IsAny overrides the default `false` (TypeMatcherBox delegates) *)
Definition is_wildcard (m : matcher) : bool := match m with MAny => true | _ => false end.

Section ZipAll.
  Context {A B : Type} (f : A -> B -> bool).
  Fixpoint zip_all (l : list A) (m : list B) : bool :=      (* a.iter().zip(b).all(f) *)
    match l, m with
    | a :: l', b :: m' => f a b && zip_all l' m'
    | _, _ => true
    end.
End ZipAll.

Fixpoint matches (m : matcher) (v : value) {struct m} : bool :=
  match m with
  | MAny => true
  | MNever => false
  | MNone => match v with VNone => true | _ => false end
  | MBool => match v with VBool => true | _ => false end
  | MInt => match v with VInt _ => true | _ => false end      (* StarlarkIntRef::unpack: inline or big *)
  | MStr => match v with VStr => true | _ => false end
  | MTypeId b => has_base b v                                 (* value.starlark_type_id() == ty.starlark_type_id() *)
  | MIsTuple => match v with VTuple _ => true | _ => false end
  | MIsList => match v with VList _ => true | _ => false end
  | MListOf i => match v with VList vs => forallb (matches i) vs | _ => false end
  | MIsDict => match v with VDict _ => true | _ => false end
  | MDictOf k w => match v with
                   | VDict kvs => forallb (fun kv => matches k (fst kv) && matches w (snd kv)) kvs
                   | _ => false
                   end
  | MIsSet => match v with VSet _ => true | _ => false end
  | MSetOf i => match v with VSet vs => forallb (matches i) vs | _ => false end
  | MTupleOf i => match v with VTuple vs => forallb (matches i) vs | _ => false end
  | MTupleElems0 => match v with VTuple [] => true | _ => false end
  | MTupleElems1 a => match v with VTuple [v0] => matches a v0 | _ => false end
  | MTupleElems2 a b => match v with VTuple [v0; v1] => matches a v0 && matches b v1 | _ => false end
  | MTupleElems ms => match v with
                      | VTuple vs => Nat.eqb (length vs) (length ms) && zip_all matches ms vs
                      | _ => false
                      end
  | MEither a b => matches a v || matches b v
  | MAnyOf ms => existsb (fun a => matches a v) ms
  | MCallable => callable v        (* vtable HAS_invoke *)
  | MIterable => iterable v        (* vtable HAS_iterate || HAS_iterate_collect *)
  | MRecord id => match v with VRecord id' => N.eqb id' id | _ => false end
  | MEnum id => match v with VEnumVal id' => N.eqb id' id | _ => false end
  end.

(* ------------------------------------------------------------------------------------------- *)
(* alloc.rs: the factory *)

(* TyStarlarkValue::matcher *)
Definition sv_matcher (b : base) : matcher :=
  match b with
  | BInt => MInt | BBool => MBool | BNone => MNone | BStr => MStr
  | _ => MTypeId b
  end.

(* list_of_matcher / set_of_matcher *)
Definition list_of_matcher (m : matcher) : matcher := if is_wildcard m then MIsList else MListOf m.
Definition set_of_matcher (m : matcher) : matcher := if is_wildcard m then MIsSet else MSetOf m.

(* list_of(item) with m = TypeMatcherBoxAlloc.ty(item); list_of_basic, list_of_starlark_value inlined *)
Definition list_of (item : ty) (m : matcher) : matcher :=
  if is_any item then MIsList else
  match alts item with
  | [TAny] => MIsList
  | [TBase BStr] => list_of_matcher MStr
  | [TBase b] => list_of_matcher (MTypeId b)
  | _ => list_of_matcher m
  end.
Definition set_of (item : ty) (m : matcher) : matcher :=
  if is_any item then MIsSet else
  match alts item with
  | [TAny] => MIsSet
  | [TBase BStr] => set_of_matcher MStr
  | [TBase b] => set_of_matcher (MTypeId b)
  | _ => set_of_matcher m
  end.

(* dict_of_matcher *)
Definition dict_of_matcher (k v : matcher) : matcher :=
  match is_wildcard k, is_wildcard v with
  | true, true => MIsDict
  | true, false => MDictOf MAny v
  | false, true => MDictOf k MAny
  | false, false => MDictOf k v
  end.
(* dict_of(k, v) with mk = ty(k), mv = ty(v) *)
Definition dict_of (k v : ty) (mk mv : matcher) : matcher :=
  if is_any k && is_any v then MIsDict else
  match is_sv k with
  | Some BStr => dict_of_matcher MStr mv
  | Some b => dict_of_matcher (MTypeId b) mv
  | None => dict_of_matcher mk mv
  end.

(* TyTuple::matcher, Of(item) *)
Definition tuple_of (item : ty) (m : matcher) : matcher :=
  if is_any item then MIsTuple else
  match is_sv item with
  | Some b => MTupleOf (MTypeId b)
  | None => MTupleOf m
  end.

(* none_or_basic(ty) with m = ty_basic(ty) *)
Definition none_or_basic (t : ty) (m : matcher) : matcher :=
  match t with
  | TAny => MNone
  | TBase BStr => MEither MNone MStr
  | TBase BInt => MEither MNone MInt
  | TBase b => MEither MNone (MTypeId b)
  | TList i => if is_any i then MEither MNone MIsList else MEither MNone m
  | _ => MEither MNone m
  end.
(* any_of_two_matcher *)
Definition any_of_two_matcher (m0 m1 : matcher) : matcher :=
  if is_wildcard m0 then m1 else if is_wildcard m1 then m0 else MEither m0 m1.
Definition is_none_ty (t : ty) : bool := match t with TBase BNone => true | _ => false end.
(* any_of_two_basic(ty0, ty1) with m0 = ty_basic(ty0), m1 = ty_basic(ty1) *)
Definition any_of_two_basic (t0 t1 : ty) (m0 m1 : matcher) : matcher :=
  if is_TAny t0 then m1
  else if is_TAny t1 then m0
  else if is_none_ty t0 then none_or_basic t1 m1
  else if is_none_ty t1 then none_or_basic t0 m0
  else any_of_two_matcher m0 m1.

(* TypeMatcherAlloc::ty on the alternatives of a Ty; on a single alternative it is ty_basic *)
Fixpoint compile (t : ty) : matcher :=
  match t with
  | TUnion ts =>
      match ts with
      | [] => MNever
      | [a] => compile a
      | [a; b] => any_of_two_basic a b (compile a) (compile b)
      | _ => let ms := map compile ts in
             if existsb is_wildcard ms then MAny else MAnyOf ms
      end
  | TNever => MNever
  | TAny => MAny
  | TBase b => sv_matcher b
  | TIter => MIterable
  | TCallable => MCallable
  | TList item => list_of item (compile item)
  | TSet item => set_of item (compile item)
  | TDict k v => dict_of k v (compile k) (compile v)
  | TTupleOf item => tuple_of item (compile item)
  | TTuple ts =>
      match ts with
      | [] => MTupleElems0
      | [x0] => MTupleElems1 (compile x0)
      | [x0; x1] => match is_sv x0, is_sv x1 with
                    | Some b0, Some b1 => MTupleElems2 (MTypeId b0) (MTypeId b1)
                    | _, _ => MTupleElems2 (compile x0) (compile x1)
                    end
      | _ => MTupleElems (map compile ts)
      end
  | TRecord id => MRecord id       (* TyUser::matcher -> from_type_matcher_factory(RecordTypeMatcher) *)
  | TEnum id => MEnum id
  end.

(* every check path: isinstance / parameter / return / annotated assignment / TypeCompiled::matches *)
Definition check (t : ty) (v : value) : bool := matches (compile (normalize t)) v.

(* the invariant of a Ty produced by `normalize`, as far as `compile` relies on it *)
Definition is_basic_nonany (t : ty) : bool :=
  match t with TAny | TNever | TUnion _ => false | _ => true end.
Fixpoint wf_ty (t : ty) : bool :=
  match t with
  | TUnion ts => Nat.leb 2 (length ts) && forallb (fun a => is_basic_nonany a && wf_ty a) ts
  | TList t | TTupleOf t | TSet t => wf_ty t
  | TDict k v => wf_ty k && wf_ty v
  | TTuple ts => forallb wf_ty ts
  | _ => true
  end.

(* a union node of the expression brings together two different list types or two different dict
   types (these are the only alternatives Ty::unions rewrites beyond flatten/sort/dedup) *)
Definition is_list_ty (t : ty) : bool := match t with TList _ => true | _ => false end.
Definition is_dict_ty (t : ty) : bool := match t with TDict _ _ => true | _ => false end.
Definition count (p : ty -> bool) (l : list ty) : nat := length (filter p l).
Definition no_merge_alts (xs : list ty) : bool :=
  Nat.leb (count is_list_ty xs) 1 && Nat.leb (count is_dict_ty xs) 1.
Fixpoint merge_free (t : ty) : bool :=
  match t with
  | TList t | TTupleOf t | TSet t => merge_free t
  | TDict k v => merge_free k && merge_free v
  | TTuple ts => forallb merge_free ts
  | TUnion ts => forallb merge_free ts
                 && no_merge_alts (dedup (sort (flat_map alts (map normalize_nomerge ts))))
  | _ => true
  end.

(* =========================================================================================== *)
(* THE CHECK PATHS, as the code has them.
   A type expression reaches `TypeMatcher::matches` along one of two evaluators:
     - as an ORDINARY expression evaluated at call time (`eval_rt`): second argument of `isinstance`,
       a value handed to the host API `TypeCompiled::new`;
     - as an ANNOTATION evaluated once, at def/compile time, by the restricted evaluator of
       eval/compiler/types.rs (`eval_ct`): parameter and return annotations, annotated assignment.
   Both build `TypeCompiled` values bottom-up; each node keeps only the `Ty` of its children
   (`as_ty().clone()`), rebuilds a `Ty`, and asks the factory for a fresh matcher (`alloc_ty`). *)

(* Ty::union2 (typing/ty.rs): the fast cases in front of Ty::unions(vec![a, b]) *)
Definition union2 (a b : ty) : ty :=
  if is_any a || is_any b then TAny
  else if ty_eqb a b then a
  else if is_never a then b
  else if is_never b then a
  else unions_top [a; b].

(* TypeCompiledImplAsStarlarkValue { type_compiled_impl, ty } + the heap it lives in (compiled.rs).
   `tc_frozen` is a representation tag: nothing below reads it except `to_frozen`. *)
Record tcomp := mk_tcomp { tc_ty : ty; tc_m : matcher; tc_frozen : bool }.

(* factory.rs: any()/none()/bool()/int()/str() hand out the frozen statics TYPE_COMPILED_* when the
   whole type is that type; every other matcher is allocated in the current (unfrozen) heap. *)
Definition is_static_ty (t : ty) : bool :=
  match t with TAny | TBase BNone | TBase BBool | TBase BInt | TBase BStr => true | _ => false end.
(* TypeCompiledFactory::alloc_ty(ty, heap) = TypeCompiledFactory { heap, ty }.ty(ty) *)
Definition alloc_ty (t : ty) : tcomp := mk_tcomp t (compile t) (is_static_ty t).
(* TypeCompiled::from_ty *)
Definition from_ty (t : ty) : tcomp := alloc_ty t.
(* TypeCompiled::to_frozen: an already frozen value is returned as is, otherwise to_frozen_dyn
   clones the struct (same ty, same matcher) into the frozen heap *)
Definition to_frozen (c : tcomp) : tcomp :=
  if tc_frozen c then c else mk_tcomp (tc_ty c) (tc_m c) true.

(* TypeCompiled::type_list_of / type_set_of / type_dict_of / type_any_of_two / type_any_of (compiled.rs) *)
Definition type_list_of (c : tcomp) : tcomp := alloc_ty (TList (tc_ty c)).
Definition type_set_of (c : tcomp) : tcomp := alloc_ty (TSet (tc_ty c)).
Definition type_dict_of (k v : tcomp) : tcomp := alloc_ty (TDict (tc_ty k) (tc_ty v)).
Definition type_any_of_two (a b : tcomp) : tcomp := alloc_ty (union2 (tc_ty a) (tc_ty b)).
Definition type_any_of (cs : list tcomp) : tcomp := alloc_ty (unions_top (map tc_ty cs)).

(* what a type expression evaluates to as a Starlark value *)
Inductive tvalue :=
| TVRaw (t : ty)                (* not a TypeCompiled, answers eval_type() (or is None): None int str R1 typing.Iterable .. *)
| TVComp (c : tcomp)            (* a TypeCompiled value *)
| TVTuple (vs : list tvalue)    (* a Starlark tuple of type values: (A, B) *)
| TVList (vs : list tvalue).    (* a Starlark list of type values: [A, B, C] (old union syntax) *)

(* TypeCompiled::new(value, heap) (compiled.rs).  Errors (string literal, list of < 2 elements, not a type)
   are raised before any check on every path alike and are outside this model. *)
Fixpoint tc_new (v : tvalue) : tcomp :=
  match v with
  | TVRaw t => from_ty t                                            (* is_none / eval_type() branches *)
  | TVComp c => c                                                   (* the `&dyn TypeCompiledDyn` branch: reused as is *)
  | TVTuple vs => from_ty (TTuple (map (fun x => tc_ty (tc_new x)) vs))   (* Ty::tuple(elems) *)
  | TVList vs => type_any_of (map tc_new vs)                        (* from_list *)
  end.

(* evaluation as an ORDINARY expression (call time): values/types/function.rs `at` / `at2` for
   list[..] set[..] dict[..] tuple[.., ...]; typing/macro_refs.rs starlark_value_bit_or_for_type for `|` *)
Fixpoint eval_rt (t : ty) : tvalue :=
  match t with
  | TList a => TVComp (type_list_of (tc_new (eval_rt a)))
  | TSet a => TVComp (type_set_of (tc_new (eval_rt a)))
  | TDict k v => TVComp (type_dict_of (tc_new (eval_rt k)) (tc_new (eval_rt v)))
  | TTupleOf a => TVComp (from_ty (TTupleOf (tc_ty (tc_new (eval_rt a)))))
  | TTuple ts => TVTuple (map eval_rt ts)
  | TUnion ts =>
      match ts with
      | [a; b] => TVComp (type_any_of_two (tc_new (eval_rt a)) (tc_new (eval_rt b)))    (* a | b *)
      | _ => TVList (map eval_rt ts)                                                    (* [a, b, c] *)
      end
  | _ => TVRaw t
  end.

(* evaluation as an ANNOTATION (def/compile time): eval/compiler/types.rs eval_expr.
   eval_expr_as_type = TypeCompiled::new on the result of eval_expr. *)
Fixpoint eval_ct (t : ty) : tvalue :=
  match t with
  | TList a => let i := tc_new (eval_ct a) in                  (* Index: i = eval_expr_as_type; a.at(i.to_inner()) *)
               TVComp (type_list_of (tc_new (TVComp i)))
  | TSet a => let i := tc_new (eval_ct a) in TVComp (type_set_of (tc_new (TVComp i)))
  | TDict k v => TVComp (type_dict_of (tc_new (eval_ct k)) (tc_new (eval_ct v)))     (* Index2: at2(eval_expr i0, eval_expr i1) *)
  | TTupleOf a => TVComp (from_ty (TTupleOf (tc_ty (tc_new (eval_ct a)))))
  | TTuple ts => TVComp (from_ty (TTuple (map (fun x => tc_ty (tc_new (eval_ct x))) ts)))   (* Tuple: from_ty(Ty::tuple(xs)) *)
  | TUnion ts => TVComp (type_any_of (map (fun x => tc_new (eval_ct x)) ts))           (* Union: type_any_of, also for a | b *)
  | _ => TVRaw t
  end.

(* populate_types_in_type_expr: payload.compiler_ty = eval_expr_as_type(expr).as_ty().clone() *)
Definition compiler_ty (t : ty) : ty := tc_ty (tc_new (eval_ct t)).

(* Compiler::expr_for_type on a populated annotation: from_ty(compiler_ty); a run-time wildcard emits
   no check at all; otherwise the compiled type is moved to the frozen heap. *)
Definition expr_for_type_ty (cty : ty) : option tcomp :=
  let c := from_ty cty in
  if is_wildcard (tc_m c) then None else Some (to_frozen c).
Definition matcher_of_annotation (o : option tcomp) : matcher :=
  match o with None => MAny | Some c => tc_m c end.          (* no check emitted = everything accepted *)

(* the sites *)
(* globals.rs isinstance: TypeCompiled::new(ty.get(), heap)?.matches(value) *)
Definition compile_at_isinstance (t : ty) : matcher := tc_m (tc_new (eval_rt t)).
(* def.rs Compiler::parameter: expr_for_type(x.ty); checked by check_parameter_types -> check_type *)
Definition compile_at_param (t : ty) : matcher := matcher_of_annotation (expr_for_type_ty (compiler_ty t)).
(* def.rs Compiler::function: expr_for_type(return_type); checked by check_return_type -> check_type *)
Definition compile_at_return (t : ty) : matcher := matcher_of_annotation (expr_for_type_ty (compiler_ty t)).
(* stmt.rs StmtP::Assign: expr_for_type(ty); checked by InstrCheckType -> check_type *)
Definition compile_at_assign (t : ty) : matcher := matcher_of_annotation (expr_for_type_ty (compiler_ty t)).
(* host: TypeCompiled::new(value, heap) on a value produced by ordinary evaluation; new_frozen adds to_frozen *)
Definition compile_at_host (t : ty) : matcher := tc_m (tc_new (eval_rt t)).
Definition compile_at_host_frozen (t : ty) : matcher := tc_m (to_frozen (tc_new (eval_rt t))).
(* an annotation that is a name bound to an already compiled (and frozen, when loaded) type: `x: T` *)
Definition compile_at_param_alias (t : ty) : matcher :=
  matcher_of_annotation (expr_for_type_ty (tc_ty (tc_new (TVComp (to_frozen (tc_new (eval_rt t))))))).

Definition check_isinstance (t : ty) (v : value) : bool := matches (compile_at_isinstance t) v.
Definition check_param (t : ty) (v : value) : bool := matches (compile_at_param t) v.
Definition check_return (t : ty) (v : value) : bool := matches (compile_at_return t) v.
Definition check_assign (t : ty) (v : value) : bool := matches (compile_at_assign t) v.
Definition check_host (t : ty) (v : value) : bool := matches (compile_at_host t) v.
Definition check_host_frozen (t : ty) (v : value) : bool := matches (compile_at_host_frozen t) v.
Definition check_param_alias (t : ty) (v : value) : bool := matches (compile_at_param_alias t) v.

(* ---- freezing ------------------------------------------------------------------------------ *)
(* A run-time value with its representation tags: every heap object is either the mutable or the frozen
   variant of its type (ListGen<ListData>/ListGen<FrozenListData>, TupleGen<Value>/TupleGen<FrozenValue>,
   DictGen<RefCell<Dict>>/DictGen<FrozenDict>, Record/FrozenRecord, ...). *)
Inductive hvalue :=
| HLeaf (frozen : bool) (v : value)            (* a non-container of the catalogue *)
| HList (frozen : bool) (vs : list hvalue)
| HTuple (frozen : bool) (vs : list hvalue)
| HSet (frozen : bool) (vs : list hvalue)
| HDict (frozen : bool) (kvs : list (hvalue * hvalue)).

(* what the matchers can see: ListRef::from_value, Tuple::from_value, DictRef::from_value, SetRef::from_value,
   Record::from_value, EnumValue::from_value accept both variants; starlark_type_id() is shared by both *)
Fixpoint view (g : hvalue) : value :=
  match g with
  | HLeaf _ v => v
  | HList _ vs => VList (map view vs)
  | HTuple _ vs => VTuple (map view vs)
  | HSet _ vs => VSet (map view vs)
  | HDict _ kvs => VDict (map (fun kv => let '(k, v) := kv in (view k, view v)) kvs)
  end.
(* Freezer: every reachable object is replaced by its frozen variant *)
Fixpoint freeze_val (g : hvalue) : hvalue :=
  match g with
  | HLeaf _ v => HLeaf true v
  | HList _ vs => HList true (map freeze_val vs)
  | HTuple _ vs => HTuple true (map freeze_val vs)
  | HSet _ vs => HSet true (map freeze_val vs)
  | HDict _ kvs => HDict true (map (fun kv => let '(k, v) := kv in (freeze_val k, freeze_val v)) kvs)
  end.
Definition freeze_ty (c : tcomp) : tcomp := to_frozen c.
(* TypeCompiled::matches -> type_matches_value -> type_compiled_impl.matches(value) *)
Definition check_tc (c : tcomp) (g : hvalue) : bool := matches (tc_m c) (view g).
