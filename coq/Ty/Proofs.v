(* C16 proofs: the matcher chosen by the factory accepts exactly the meaning of the normalised type;
   normalisation keeps the factory's invariant, never loses a value, and is meaning-preserving apart
   from the merge of list/dict alternatives. *)
From Coq Require Import NArith Arith Bool List Lia.
From SV Require Import Ty.Spec Ty.Model.
Import ListNotations.

(* ---- induction principle for the nested datatype --------------------------------------------- *)
Lemma ty_ind' (P : ty -> Prop)
  (HAny : P TAny) (HNever : P TNever) (HBase : forall b, P (TBase b)) (HIter : P TIter) (HCall : P TCallable)
  (HList : forall t, P t -> P (TList t)) (HTuple : forall ts, Forall P ts -> P (TTuple ts))
  (HTupleOf : forall t, P t -> P (TTupleOf t)) (HDict : forall k v, P k -> P v -> P (TDict k v))
  (HRec : forall i, P (TRecord i)) (HEnum : forall i, P (TEnum i)) (HSet : forall t, P t -> P (TSet t))
  (HUnion : forall ts, Forall P ts -> P (TUnion ts)) : forall t, P t.
Proof.
  fix IH 1. intros [ | | b | | | t | ts | t | k v | i | i | t | ts].
  - exact HAny.
  - exact HNever.
  - apply HBase.
  - exact HIter.
  - exact HCall.
  - apply HList, IH.
  - apply HTuple. revert ts. fix IHl 1. intros [|a l]; constructor; [apply IH | apply IHl].
  - apply HTupleOf, IH.
  - apply HDict; apply IH.
  - apply HRec.
  - apply HEnum.
  - apply HSet, IH.
  - apply HUnion. revert ts. fix IHl 1. intros [|a l]; constructor; [apply IH | apply IHl].
Qed.

(* ---- list helpers ---------------------------------------------------------------------------- *)
Lemma forallb_ext {A} (f g : A -> bool) l : (forall x, f x = g x) -> forallb f l = forallb g l.
Proof. intro H. induction l; simpl; [reflexivity | rewrite H, IHl; reflexivity]. Qed.
Lemma forallb_ext_in {A} (f g : A -> bool) l : (forall x, In x l -> f x = g x) -> forallb f l = forallb g l.
Proof.
  induction l; simpl; intro H; [reflexivity|]. rewrite H by (left; reflexivity).
  rewrite IHl; [reflexivity|]. intros; apply H; right; assumption.
Qed.
Lemma existsb_ext_in {A} (f g : A -> bool) l : (forall x, In x l -> f x = g x) -> existsb f l = existsb g l.
Proof.
  induction l; simpl; intro H; [reflexivity|]. rewrite H by (left; reflexivity).
  rewrite IHl; [reflexivity|]. intros; apply H; right; assumption.
Qed.
Lemma forallb_all_true {A} (f : A -> bool) l : (forall x, f x = true) -> forallb f l = true.
Proof. intro H. induction l; simpl; [reflexivity | rewrite H, IHl; reflexivity]. Qed.
Lemma forallb_impl {A} (p q : A -> bool) l :
  (forall x, p x = true -> q x = true) -> forallb p l = true -> forallb q l = true.
Proof.
  intro H. induction l; simpl; [reflexivity|]. intro E. apply andb_prop in E. destruct E as [E1 E2].
  rewrite (H _ E1), (IHl E2). reflexivity.
Qed.
Lemma existsb_map {A B} (f : B -> bool) (g : A -> B) l : existsb f (map g l) = existsb (fun x => f (g x)) l.
Proof. induction l; simpl; [reflexivity | rewrite IHl; reflexivity]. Qed.
Lemma forallb_map {A B} (f : B -> bool) (g : A -> B) l : forallb f (map g l) = forallb (fun x => f (g x)) l.
Proof. induction l; simpl; [reflexivity | rewrite IHl; reflexivity]. Qed.
Lemma existsb_flat_map {A B} (f : B -> bool) (g : A -> list B) l :
  existsb f (flat_map g l) = existsb (fun x => existsb f (g x)) l.
Proof. induction l; simpl; [reflexivity | rewrite existsb_app, IHl; reflexivity]. Qed.
Lemma forallb_flat_map {A B} (f : B -> bool) (g : A -> list B) l :
  forallb f (flat_map g l) = forallb (fun x => forallb f (g x)) l.
Proof. induction l; simpl; [reflexivity | rewrite forallb_app, IHl; reflexivity]. Qed.

(* ---- the meaning of a type is the disjunction of the meanings of its alternatives ------------ *)
Definition dalts (xs : list ty) (v : value) : bool := existsb (fun t => denote t v) xs.

Lemma denote_alts t v : denote t v = dalts (alts t) v.
Proof. unfold dalts. destruct t; simpl; rewrite ?orb_false_r; reflexivity. Qed.

Lemma is_any_denote t v : is_any t = true -> denote t v = true.
Proof.
  unfold is_any. rewrite denote_alts. intro H. destruct (alts t) as [|a l]; [discriminate H|].
  destruct a; try discriminate H. destruct l; [reflexivity | discriminate H].
Qed.
Lemma is_never_denote t v : is_never t = true -> denote t v = false.
Proof. unfold is_never. rewrite denote_alts. intro H. destruct (alts t); [reflexivity | discriminate H]. Qed.
Lemma is_sv_denote t b v : is_sv t = Some b -> denote t v = has_base b v.
Proof.
  unfold is_sv. rewrite denote_alts. intro E. destruct (alts t) as [|a l]; [discriminate E|].
  destruct a; try discriminate E. destruct l; [|discriminate E]. inversion E; subst. simpl. apply orb_false_r.
Qed.

(* ---- matchers --------------------------------------------------------------------------------- *)
Lemma wild_matches m v : is_wildcard m = true -> matches m v = true.
Proof. destruct m; simpl; try discriminate; reflexivity. Qed.
Lemma matches_sv b v : matches (sv_matcher b) v = has_base b v.
Proof. destruct b; destruct v; reflexivity. Qed.
Lemma matches_MStr v : matches MStr v = has_base BStr v.
Proof. destruct v; reflexivity. Qed.
Lemma matches_MInt v : matches MInt v = has_base BInt v.
Proof. destruct v; reflexivity. Qed.
Lemma matches_MNone v : matches MNone v = has_base BNone v.
Proof. destruct v; reflexivity. Qed.
Lemma matches_either a b v : matches (MEither a b) v = matches a v || matches b v.
Proof. reflexivity. Qed.

Section Containers.
  Variables (item : ty) (m : matcher).
  Hypothesis Hm : forall v, matches m v = denote item v.

  Lemma list_of_matcher_correct v : matches (list_of_matcher m) v = denote (TList item) v.
  Proof.
    unfold list_of_matcher. destruct (is_wildcard m) eqn:W; simpl; destruct v; try reflexivity.
    - symmetry. apply forallb_all_true. intro x. rewrite <- Hm. apply wild_matches, W.
    - apply forallb_ext, Hm.
  Qed.
  Lemma set_of_matcher_correct v : matches (set_of_matcher m) v = denote (TSet item) v.
  Proof.
    unfold set_of_matcher. destruct (is_wildcard m) eqn:W; simpl; destruct v; try reflexivity.
    - symmetry. apply forallb_all_true. intro x. rewrite <- Hm. apply wild_matches, W.
    - apply forallb_ext, Hm.
  Qed.
End Containers.

Lemma list_of_correct item m : (forall v, matches m v = denote item v) ->
  forall v, matches (list_of item m) v = denote (TList item) v.
Proof.
  intros Hm v. unfold list_of. destruct (is_any item) eqn:Ha.
  - simpl. destruct v; try reflexivity. symmetry. apply forallb_all_true. intro; apply is_any_denote, Ha.
  - destruct (alts item) as [|a l] eqn:E; [apply list_of_matcher_correct; exact Hm|].
    destruct a; destruct l; try (apply list_of_matcher_correct; exact Hm);
      try (destruct b; apply list_of_matcher_correct; exact Hm).
    + unfold is_any in Ha. rewrite E in Ha. discriminate.
    + assert (Hb : forall x, denote item x = has_base b x).
      { intro x. apply is_sv_denote. unfold is_sv. rewrite E. reflexivity. }
      destruct b; apply list_of_matcher_correct; intro x; rewrite Hb;
        first [reflexivity | apply matches_MStr].
Qed.
Lemma set_of_correct item m : (forall v, matches m v = denote item v) ->
  forall v, matches (set_of item m) v = denote (TSet item) v.
Proof.
  intros Hm v. unfold set_of. destruct (is_any item) eqn:Ha.
  - simpl. destruct v; try reflexivity. symmetry. apply forallb_all_true. intro; apply is_any_denote, Ha.
  - destruct (alts item) as [|a l] eqn:E; [apply set_of_matcher_correct; exact Hm|].
    destruct a; destruct l; try (apply set_of_matcher_correct; exact Hm);
      try (destruct b; apply set_of_matcher_correct; exact Hm).
    + unfold is_any in Ha. rewrite E in Ha. discriminate.
    + assert (Hb : forall x, denote item x = has_base b x).
      { intro x. apply is_sv_denote. unfold is_sv. rewrite E. reflexivity. }
      destruct b; apply set_of_matcher_correct; intro x; rewrite Hb;
        first [reflexivity | apply matches_MStr].
Qed.
Lemma tuple_of_correct item m : (forall v, matches m v = denote item v) ->
  forall v, matches (tuple_of item m) v = denote (TTupleOf item) v.
Proof.
  intros Hm v. unfold tuple_of. destruct (is_any item) eqn:Ha.
  - simpl. destruct v; try reflexivity. symmetry. apply forallb_all_true. intro; apply is_any_denote, Ha.
  - destruct (is_sv item) as [b|] eqn:E; simpl; destruct v; try reflexivity; apply forallb_ext; intro x.
    + symmetry. apply is_sv_denote, E.
    + apply Hm.
Qed.

Lemma dict_of_matcher_correct mk mv k w :
  (forall x, matches mk x = denote k x) -> (forall x, matches mv x = denote w x) ->
  forall v, matches (dict_of_matcher mk mv) v = denote (TDict k w) v.
Proof.
  intros Hk Hv v. unfold dict_of_matcher.
  destruct (is_wildcard mk) eqn:Wk; destruct (is_wildcard mv) eqn:Wv; simpl; destruct v; try reflexivity.
  - symmetry. apply forallb_all_true. intros [a b]. simpl.
    rewrite <- Hk, <- Hv, (wild_matches _ _ Wk), (wild_matches _ _ Wv). reflexivity.
  - apply forallb_ext. intros [a b]. simpl. rewrite <- Hk, (wild_matches _ _ Wk), Hv. reflexivity.
  - apply forallb_ext. intros [a b]. simpl. rewrite <- Hv, (wild_matches _ _ Wv), Hk. reflexivity.
  - apply forallb_ext. intros [a b]. simpl. rewrite Hk, Hv. reflexivity.
Qed.
Lemma dict_of_correct k w mk mv :
  (forall x, matches mk x = denote k x) -> (forall x, matches mv x = denote w x) ->
  forall v, matches (dict_of k w mk mv) v = denote (TDict k w) v.
Proof.
  intros Hk Hv v. unfold dict_of. destruct (is_any k && is_any w) eqn:Ha.
  - apply andb_prop in Ha. destruct Ha as [A1 A2]. simpl. destruct v; try reflexivity.
    symmetry. apply forallb_all_true. intros [a b]. simpl.
    rewrite (is_any_denote _ _ A1), (is_any_denote _ _ A2). reflexivity.
  - destruct (is_sv k) as [b|] eqn:E.
    + assert (Hb : forall x, denote k x = has_base b x) by (intro; apply is_sv_denote, E).
      destruct b; apply dict_of_matcher_correct; try exact Hv; intro x; rewrite Hb;
        first [reflexivity | apply matches_MStr].
    + apply dict_of_matcher_correct; assumption.
Qed.

Lemma tuple_elems_correct ts :
  Forall (fun t => forall v, matches (compile t) v = denote t v) ts ->
  forall vs, Nat.eqb (length vs) (length (map compile ts)) && zip_all matches (map compile ts) vs
             = forall2b denote ts vs.
Proof.
  induction 1 as [|t ts Ht _ IH]; intros [|v vs]; simpl; try reflexivity.
  rewrite <- IH, Ht. destruct (denote t v); simpl; [reflexivity | apply andb_false_r].
Qed.

Lemma none_or_basic_correct t m : is_TAny t = false -> (forall v, matches m v = denote t v) ->
  forall v, matches (none_or_basic t m) v = has_base BNone v || denote t v.
Proof.
  intros Hn Hm v. destruct t as [ | | b | | | t | ts | t | k w | i | i | t | ts]; simpl in Hn; try discriminate;
    try (unfold none_or_basic; rewrite matches_either, matches_MNone, Hm; reflexivity).
  - destruct b; unfold none_or_basic; rewrite matches_either, matches_MNone; try reflexivity.
    + rewrite matches_MInt. reflexivity.
    + rewrite matches_MStr. reflexivity.
  - unfold none_or_basic. destruct (is_any t) eqn:Ha; rewrite matches_either, matches_MNone.
    + f_equal. simpl. destruct v; try reflexivity.
      symmetry. apply forallb_all_true. intro; apply is_any_denote, Ha.
    + rewrite Hm. reflexivity.
Qed.

Lemma any_of_two_basic_correct a b ma mb :
  is_TAny a = false -> is_TAny b = false -> is_wildcard ma = false -> is_wildcard mb = false ->
  (forall v, matches ma v = denote a v) -> (forall v, matches mb v = denote b v) ->
  forall v, matches (any_of_two_basic a b ma mb) v = denote a v || denote b v.
Proof.
  intros Na Nb Wa Wb Ha Hb v. unfold any_of_two_basic. rewrite Na, Nb.
  destruct (is_none_ty a) eqn:Ea.
  - destruct a as [ | | ba | | | | | | | | | | ]; try discriminate. destruct ba; try discriminate.
    rewrite (none_or_basic_correct _ _ Nb Hb). reflexivity.
  - destruct (is_none_ty b) eqn:Eb.
    + destruct b as [ | | bb | | | | | | | | | | ]; try discriminate. destruct bb; try discriminate.
      rewrite (none_or_basic_correct _ _ Na Ha). apply orb_comm.
    + unfold any_of_two_matcher. rewrite Wa, Wb. rewrite matches_either, Ha, Hb. reflexivity.
Qed.

Lemma compile_not_wildcard a : is_basic_nonany a = true -> is_wildcard (compile a) = false.
Proof.
  destruct a; simpl; try discriminate; intros _; try reflexivity.
  - destruct b; reflexivity.
  - unfold list_of, list_of_matcher.
    repeat match goal with |- context [match ?x with _ => _ end] => destruct x end; reflexivity.
  - destruct ts as [|x0 [|x1 [|x2 l]]]; try reflexivity. destruct (is_sv x0), (is_sv x1); reflexivity.
  - unfold tuple_of. destruct (is_any a); [reflexivity|]. destruct (is_sv a); reflexivity.
  - unfold dict_of, dict_of_matcher.
    repeat match goal with |- context [match ?x with _ => _ end] => destruct x end; reflexivity.
  - unfold set_of, set_of_matcher.
    repeat match goal with |- context [match ?x with _ => _ end] => destruct x end; reflexivity.
Qed.

Theorem compile_correct : forall t, wf_ty t = true -> forall v, matches (compile t) v = denote t v.
Proof.
  induction t using ty_ind'; intros Hwf v; try reflexivity.
  - (* base *) apply matches_sv.
  - (* list *) cbn [compile]. apply list_of_correct. apply IHt. exact Hwf.
  - (* fixed tuple *)
    cbn [wf_ty] in Hwf.
    assert (H' : Forall (fun t => forall v, matches (compile t) v = denote t v) ts).
    { rewrite Forall_forall in *. intros t Hin. apply H; [exact Hin|].
      rewrite forallb_forall in Hwf. apply Hwf, Hin. }
    clear H Hwf. destruct ts as [|x0 [|x1 [|x2 l]]]; cbn [compile].
    + simpl. destruct v; try reflexivity; try (destruct vs; reflexivity).
    + inversion H' as [|? ? H0 _]; subst. simpl. destruct v; try reflexivity.
      destruct vs as [|v0 [|v1 vs]]; simpl; rewrite ?H0, ?andb_true_r, ?andb_false_r; reflexivity.
    + inversion H' as [|? ? H0 H1']; subst. inversion H1' as [|? ? H1 _]; subst.
      destruct (is_sv x0) as [b0|] eqn:E0; destruct (is_sv x1) as [b1|] eqn:E1; simpl;
        destruct v; try reflexivity; destruct vs as [|v0 [|v1 [|v2 vs]]]; simpl;
        rewrite ?andb_true_r, ?andb_false_r; try reflexivity;
        rewrite ?H0, ?H1, ?(is_sv_denote _ _ _ E0), ?(is_sv_denote _ _ _ E1); reflexivity.
    + cbn [matches denote]. destruct v; try reflexivity. apply tuple_elems_correct, H'.
  - (* tuple of *) cbn [compile]. apply tuple_of_correct. apply IHt. exact Hwf.
  - (* dict *) cbn [compile]. cbn [wf_ty] in Hwf. apply andb_prop in Hwf. destruct Hwf as [W1 W2].
    apply dict_of_correct; [apply IHt1, W1 | apply IHt2, W2].
  - (* record *) simpl. destruct v; try reflexivity. apply N.eqb_sym.
  - (* enum *) simpl. destruct v; try reflexivity. apply N.eqb_sym.
  - (* set *) cbn [compile]. apply set_of_correct. apply IHt. exact Hwf.
  - (* union *)
    cbn [wf_ty] in Hwf. apply andb_prop in Hwf. destruct Hwf as [Hlen Hall].
    assert (H' : forall t, In t ts -> is_basic_nonany t = true /\ forall v, matches (compile t) v = denote t v).
    { rewrite Forall_forall in H. rewrite forallb_forall in Hall. intros t Hin.
      specialize (Hall t Hin). apply andb_prop in Hall. destruct Hall as [B W]. split; [exact B|].
      apply H; assumption. }
    clear H Hall. destruct ts as [|a [|b [|c l]]]; try discriminate.
    + destruct (H' a (or_introl eq_refl)) as [Ba Ha].
      destruct (H' b (or_intror (or_introl eq_refl))) as [Bb Hb].
      cbn [compile]. rewrite any_of_two_basic_correct; try assumption.
      * simpl. rewrite orb_false_r. reflexivity.
      * destruct a; try discriminate; reflexivity.
      * destruct b; try discriminate; reflexivity.
      * apply compile_not_wildcard, Ba.
      * apply compile_not_wildcard, Bb.
    + cbn [compile]. remember (a :: b :: c :: l) as ts eqn:Ets. clear Ets.
      destruct (existsb is_wildcard (map compile ts)) eqn:W.
      * apply existsb_exists in W. destruct W as [m [Hin Wm]]. apply in_map_iff in Hin.
        destruct Hin as [t [Et Hin]]. subst m. cbn [matches denote]. symmetry. apply existsb_exists.
        exists t. split; [exact Hin|]. destruct (H' t Hin) as [_ Ht]. rewrite <- Ht. apply wild_matches, Wm.
      * cbn [matches denote]. rewrite existsb_map. apply existsb_ext_in. intros t Hin. apply H', Hin.
Qed.

(* ================================================================================================ *)
(* normalisation *)

Lemma forall2b_eq (xs : list ty) :
  Forall (fun a => forall b, ty_eqb a b = true -> a = b) xs ->
  forall ys, forall2b ty_eqb xs ys = true -> xs = ys.
Proof.
  induction 1 as [|x xs Hx _ IH]; intros [|y ys]; simpl; try discriminate; [reflexivity|].
  intro E. apply andb_prop in E. destruct E as [E1 E2]. rewrite (Hx _ E1), (IH _ E2). reflexivity.
Qed.
Lemma base_eqb_eq a b : base_eqb a b = true -> a = b.
Proof. destruct a, b; simpl; intro; try discriminate; reflexivity. Qed.

Lemma ty_eqb_eq : forall a b, ty_eqb a b = true -> a = b.
Proof.
  induction a using ty_ind'; intros [ | | b' | | | t' | ts' | t' | k' v' | i' | i' | t' | ts']; simpl; intro E;
    try discriminate; try reflexivity.
  - f_equal. apply base_eqb_eq, E.
  - f_equal. apply IHa, E.
  - f_equal. apply forall2b_eq; assumption.
  - f_equal. apply IHa, E.
  - apply andb_prop in E. destruct E as [E1 E2]. f_equal; [apply IHa1, E1 | apply IHa2, E2].
  - f_equal. apply N.eqb_eq, E.
  - f_equal. apply N.eqb_eq, E.
  - f_equal. apply IHa, E.
  - f_equal. apply forall2b_eq; assumption.
Qed.

(* sort and dedup: a permutation without repeats, as far as forallb / existsb can see *)
Lemma insert_forallb p a l : forallb p (insert a l) = p a && forallb p l.
Proof.
  induction l as [|b l IH]; simpl; [reflexivity|]. destruct (ty_leb a b); simpl; [reflexivity|].
  rewrite IH. destruct (p a), (p b); reflexivity.
Qed.
Lemma sort_forallb p l : forallb p (sort l) = forallb p l.
Proof. induction l; simpl; [reflexivity | rewrite insert_forallb, IHl; reflexivity]. Qed.
Lemma insert_existsb p a l : existsb p (insert a l) = p a || existsb p l.
Proof.
  induction l as [|b l IH]; simpl; [reflexivity|]. destruct (ty_leb a b); simpl; [reflexivity|].
  rewrite IH. destruct (p a), (p b); reflexivity.
Qed.
Lemma sort_existsb p l : existsb p (sort l) = existsb p l.
Proof. induction l; simpl; [reflexivity | rewrite insert_existsb, IHl; reflexivity]. Qed.

Lemma dedup_cons2 a b l : dedup (a :: b :: l) = if ty_eqb a b then dedup (b :: l) else a :: dedup (b :: l).
Proof. reflexivity. Qed.
Lemma dedup_forallb p l : forallb p l = true -> forallb p (dedup l) = true.
Proof.
  induction l as [|a l IH]; [reflexivity|]. destruct l as [|b l]; [simpl; auto|].
  rewrite dedup_cons2. intro H. change (forallb p (a :: b :: l)) with (p a && forallb p (b :: l)) in H.
  apply andb_prop in H. destruct H as [Ha Hl]. destruct (ty_eqb a b); [apply IH, Hl|].
  change (forallb p (a :: dedup (b :: l))) with (p a && forallb p (dedup (b :: l))).
  rewrite Ha, (IH Hl). reflexivity.
Qed.
Lemma dedup_existsb p l : existsb p (dedup l) = existsb p l.
Proof.
  induction l as [|a l IH]; [reflexivity|]. destruct l as [|b l]; [reflexivity|].
  rewrite dedup_cons2. change (existsb p (a :: b :: l)) with (p a || existsb p (b :: l)).
  destruct (ty_eqb a b) eqn:E.
  - apply ty_eqb_eq in E. subst b. rewrite IH. simpl. destruct (p a); reflexivity.
  - change (existsb p (a :: dedup (b :: l))) with (p a || existsb p (dedup (b :: l))). rewrite IH. reflexivity.
Qed.

Lemma flat_alts_dalts xs v : dalts (flat_map alts xs) v = dalts xs v.
Proof.
  unfold dalts. rewrite existsb_flat_map. apply existsb_ext_in. intros x _. symmetry. apply denote_alts.
Qed.
Lemma mk_ty_denote xs v : denote (mk_ty xs) v = dalts xs v.
Proof. unfold dalts. destruct xs as [|a [|b l]]; simpl; rewrite ?orb_false_r; reflexivity. Qed.

Lemma skip_never_dalts xs v : dalts (skip_never xs) v = dalts xs v.
Proof.
  unfold dalts. induction xs as [|x xs IH]; [reflexivity|]. simpl skip_never.
  destruct (is_never x) eqn:E; [|reflexivity]. rewrite IH. simpl. rewrite (is_never_denote _ _ E). reflexivity.
Qed.
Lemma skip_never_Forall (Q : ty -> Prop) xs : Forall Q xs -> Forall Q (skip_never xs).
Proof.
  induction 1 as [|x xs Hx Hxs IH]; [constructor|]. simpl. destruct (is_never x); [exact IH | constructor; assumption].
Qed.

(* ---- the invariant ---------------------------------------------------------------------------- *)
Definition okalt (a : ty) : bool := is_basic_nonany a && wf_ty a.

Lemma alts_ok t : wf_ty t = true -> is_any t = false -> forallb okalt (alts t) = true.
Proof.
  intros W A. destruct t; try (simpl; unfold okalt; simpl; simpl in W; rewrite ?W; reflexivity).
  - discriminate A.
  - simpl in *. apply andb_prop in W. apply W.
Qed.
Lemma mk_ty_wf xs : forallb okalt xs = true -> wf_ty (mk_ty xs) = true.
Proof.
  destruct xs as [|a [|b l]]; intro H; [reflexivity | |].
  - simpl in *. rewrite andb_true_r in H. apply andb_prop in H. apply H.
  - change (wf_ty (mk_ty (a :: b :: l))) with (Nat.leb 2 (length (a :: b :: l)) && forallb okalt (a :: b :: l)).
    rewrite H. reflexivity.
Qed.

Section MergeFacts.
  Variable u : ty -> ty -> ty.

  Lemma merge2_ok x y m :
    (forall a b, wf_ty a = true -> wf_ty b = true -> wf_ty (u a b) = true) ->
    okalt x = true -> okalt y = true -> merge2 u x y = Some m -> okalt m = true.
  Proof.
    intros Hu Hx Hy. unfold okalt in *.
    destruct x; destruct y; simpl; intro E; try discriminate E; simpl in Hx, Hy.
    - inversion E; subst. simpl. apply Hu; assumption.
    - inversion E; subst. simpl. apply andb_prop in Hx. apply andb_prop in Hy.
      destruct Hx, Hy. rewrite !Hu; auto.
    - destruct (N.eqb id id0); inversion E; subst. reflexivity.
    - destruct (N.eqb id id0); inversion E; subst. reflexivity.
  Qed.
  Lemma merge_adj_ok :
    (forall a b, wf_ty a = true -> wf_ty b = true -> wf_ty (u a b) = true) ->
    forall xs last, okalt last = true -> forallb okalt xs = true -> forallb okalt (merge_adj u last xs) = true.
  Proof.
    intro Hu. induction xs as [|x xs IH]; intros last Hl Hxs; simpl.
    - rewrite Hl. reflexivity.
    - simpl in Hxs. apply andb_prop in Hxs. destruct Hxs as [Hx Hxs].
      destruct (merge2 u last x) as [m|] eqn:E.
      + apply IH; [|exact Hxs]. exact (merge2_ok last x m Hu Hl Hx E).
      + simpl. rewrite Hl. apply IH; assumption.
  Qed.

  Lemma merge2_widen x y m v :
    (forall a b w, denote a w || denote b w = true -> denote (u a b) w = true) ->
    merge2 u x y = Some m -> denote x v || denote y v = true -> denote m v = true.
  Proof.
    intros Hu. destruct x; destruct y; simpl; intro E; try discriminate E.
    - inversion E; subst. simpl. destruct v; simpl; try discriminate. intro H.
      apply orb_prop in H. destruct H as [H|H]; revert H; apply forallb_impl; intros e He; apply Hu; rewrite He;
        [reflexivity | apply orb_true_r].
    - inversion E; subst. simpl. destruct v; simpl; try discriminate. intro H.
      apply orb_prop in H. destruct H as [H|H]; revert H; apply forallb_impl; intros [a b] Hx; simpl in *;
        apply andb_prop in Hx; destruct Hx as [H1 H2]; rewrite !Hu; try reflexivity;
        rewrite ?H1, ?H2, ?orb_true_r; reflexivity.
    - destruct (N.eqb id id0) eqn:Ei; inversion E; subst. apply N.eqb_eq in Ei. subst. simpl.
      destruct v; simpl; try discriminate. rewrite orb_diag. auto.
    - destruct (N.eqb id id0) eqn:Ei; inversion E; subst. apply N.eqb_eq in Ei. subst. simpl.
      destruct v; simpl; try discriminate. rewrite orb_diag. auto.
  Qed.
  Lemma merge_adj_widen v :
    (forall a b w, denote a w || denote b w = true -> denote (u a b) w = true) ->
    forall xs last, denote last v || dalts xs v = true -> dalts (merge_adj u last xs) v = true.
  Proof.
    intro Hu. unfold dalts. induction xs as [|x xs IH]; intros last H; simpl in *.
    - exact H.
    - destruct (merge2 u last x) as [m|] eqn:E.
      + apply IH. destruct (denote last v || denote x v) eqn:D.
        * rewrite (merge2_widen _ _ _ _ Hu E D). reflexivity.
        * apply orb_false_elim in D. destruct D as [D1 D2]. rewrite D1, D2 in H. simpl in H.
          rewrite H. apply orb_true_r.
      + simpl. destruct (denote last v); [reflexivity|]. simpl in *. apply IH. exact H.
  Qed.
End MergeFacts.

Lemma merge_adjacent_ok u xs :
  (forall a b, wf_ty a = true -> wf_ty b = true -> wf_ty (u a b) = true) ->
  forallb okalt xs = true -> forallb okalt (merge_adjacent u xs) = true.
Proof.
  intros Hu H. destruct xs as [|x xs]; [reflexivity|]. simpl in *. apply andb_prop in H. destruct H.
  apply merge_adj_ok; assumption.
Qed.
Lemma merge_adjacent_widen u xs v :
  (forall a b w, denote a w || denote b w = true -> denote (u a b) w = true) ->
  dalts xs v = true -> dalts (merge_adjacent u xs) v = true.
Proof.
  intros Hu H. destruct xs as [|x xs]; [exact H|]. simpl. apply merge_adj_widen; assumption.
Qed.

Lemma existsb_false_all {A} (f : A -> bool) l : existsb f l = false -> Forall (fun x => f x = false) l.
Proof.
  induction l; simpl; intro H; constructor; apply orb_false_elim in H; destruct H; auto.
Qed.

Definition u2_wf (u2 : option (ty -> ty -> ty)) : Prop :=
  forall u, u2 = Some u -> forall a b, wf_ty a = true -> wf_ty b = true -> wf_ty (u a b) = true.
Definition u2_widen (u2 : option (ty -> ty -> ty)) : Prop :=
  forall u, u2 = Some u -> forall a b w, denote a w || denote b w = true -> denote (u a b) w = true.

Lemma unions_body_wf u2 xs : u2_wf u2 -> Forall (fun x => wf_ty x = true) xs -> wf_ty (unions_body u2 xs) = true.
Proof.
  intros Hu Hwf. unfold unions_body. destruct (existsb is_any xs) eqn:A; [reflexivity|].
  apply existsb_false_all in A.
  assert (Q : Forall (fun x => wf_ty x = true /\ is_any x = false) xs).
  { rewrite Forall_forall in *. intros x Hin. split; [apply Hwf | apply A]; exact Hin. }
  clear A Hwf. apply skip_never_Forall in Q. destruct (skip_never xs) as [|x0 r0]; [reflexivity|].
  inversion Q as [|? ? [W0 A0] Q0]; subst. apply skip_never_Forall in Q0.
  destruct (skip_never r0) as [|x1 rest]; [exact W0|].
  match goal with |- wf_ty (if ?c then _ else _) = true => destruct c end; [exact W0|].
  apply mk_ty_wf.
  assert (S : forallb okalt (dedup (sort (flat_map alts (x0 :: x1 :: rest)))) = true).
  { apply dedup_forallb. rewrite sort_forallb, forallb_flat_map. apply forallb_forall. intros x Hin.
    assert (Qx : wf_ty x = true /\ is_any x = false).
    { destruct Hin as [<-|Hin]; [split; assumption|]. rewrite Forall_forall in Q0. apply Q0, Hin. }
    apply alts_ok; apply Qx. }
  destruct u2 as [u|]; [|exact S]. apply merge_adjacent_ok; [|exact S]. apply Hu. reflexivity.
Qed.

Lemma unions_body_widen u2 xs v : u2_widen u2 -> dalts xs v = true -> denote (unions_body u2 xs) v = true.
Proof.
  intros Hu H. unfold unions_body. destruct (existsb is_any xs) eqn:A; [reflexivity|].
  rewrite <- skip_never_dalts in H. destruct (skip_never xs) as [|x0 r0]; [discriminate H|].
  unfold dalts in H. simpl in H. fold (dalts r0 v) in H. rewrite <- skip_never_dalts in H.
  destruct (skip_never r0) as [|x1 rest].
  - simpl in H. rewrite orb_false_r in H. exact H.
  - match goal with |- denote (if ?c then _ else _) v = true => destruct c eqn:C end.
    + destruct rest; [|discriminate C]. apply ty_eqb_eq in C. subst x1. unfold dalts in H. simpl in H.
      rewrite orb_false_r, orb_diag in H. exact H.
    + rewrite mk_ty_denote.
      assert (S : dalts (dedup (sort (flat_map alts (x0 :: x1 :: rest)))) v = true).
      { unfold dalts. rewrite dedup_existsb, sort_existsb. fold (dalts (flat_map alts (x0 :: x1 :: rest)) v).
        rewrite flat_alts_dalts. exact H. }
      destruct u2 as [u|]; [|exact S]. apply merge_adjacent_widen; [|exact S]. apply Hu. reflexivity.
Qed.

(* without the merge step Ty::unions is exactly the disjunction *)
Lemma unions_body_nomerge_denote xs v : denote (unions_body None xs) v = dalts xs v.
Proof.
  unfold unions_body. destruct (existsb is_any xs) eqn:A.
  - symmetry. apply existsb_exists in A. destruct A as [x [Hin Hx]]. apply existsb_exists.
    exists x. split; [exact Hin | apply is_any_denote, Hx].
  - rewrite <- (skip_never_dalts xs). destruct (skip_never xs) as [|x0 r0]; [reflexivity|].
    unfold dalts at 1. simpl existsb. fold (dalts r0 v). rewrite <- (skip_never_dalts r0).
    destruct (skip_never r0) as [|x1 rest].
    + simpl. rewrite orb_false_r. reflexivity.
    + match goal with |- denote (if ?c then _ else _) v = _ => destruct c eqn:C end.
      * destruct rest; [|discriminate C]. apply ty_eqb_eq in C. subst x1. unfold dalts. simpl.
        rewrite orb_false_r, orb_diag. reflexivity.
      * rewrite mk_ty_denote. unfold dalts at 1. rewrite dedup_existsb, sort_existsb.
        fold (dalts (flat_map alts (x0 :: x1 :: rest)) v). rewrite flat_alts_dalts. reflexivity.
Qed.

Lemma unions_wf : forall fuel xs, Forall (fun x => wf_ty x = true) xs -> wf_ty (unions fuel xs) = true.
Proof.
  induction fuel as [|f IH]; intros xs H; simpl; apply unions_body_wf; try exact H; intros u E; inversion E; subst.
  intros a b Wa Wb. apply IH. repeat constructor; assumption.
Qed.
Lemma unions_widen : forall fuel xs v, dalts xs v = true -> denote (unions fuel xs) v = true.
Proof.
  induction fuel as [|f IH]; intros xs v H; simpl; apply unions_body_widen; try exact H; intros u E; inversion E; subst.
  intros a b w D. apply IH. unfold dalts. simpl. rewrite orb_false_r. exact D.
Qed.

Theorem normalize_wf : forall t, wf_ty (normalize t) = true.
Proof.
  induction t using ty_ind'; try reflexivity; cbn [normalize wf_ty]; auto.
  - rewrite forallb_map. apply forallb_forall. rewrite Forall_forall in H. exact H.
  - rewrite IHt1, IHt2. reflexivity.
  - apply unions_wf. rewrite Forall_forall in *. intros x Hin. apply in_map_iff in Hin.
    destruct Hin as [t [<- Hin]]. apply H, Hin.
Qed.

Lemma forall2b_impl (f g : ty -> value -> bool) ts :
  Forall (fun t => forall v, f t v = true -> g t v = true) ts ->
  forall vs, forall2b f ts vs = true -> forall2b g (map (fun t => t) ts) vs = true.
Proof.
  induction 1 as [|t ts Ht _ IH]; intros [|v vs]; simpl; try discriminate; [reflexivity|].
  intro E. apply andb_prop in E. destruct E as [E1 E2]. rewrite (Ht _ E1), (IH _ E2). reflexivity.
Qed.

(* normalisation never loses a value *)
Theorem normalize_widens : forall t v, denote t v = true -> denote (normalize t) v = true.
Proof.
  induction t using ty_ind'; intros v D; try exact D; cbn [normalize].
  - simpl in *. destruct v; try discriminate. revert D. apply forallb_impl. intros; apply IHt; assumption.
  - simpl in *. destruct v; try discriminate. revert vs D.
    induction H as [|t ts Ht _ IH]; intros [|v vs]; simpl; try discriminate; [reflexivity|].
    intro E. apply andb_prop in E. destruct E as [E1 E2]. rewrite (Ht _ E1), (IH _ E2). reflexivity.
  - simpl in *. destruct v; try discriminate. revert D. apply forallb_impl. intros; apply IHt; assumption.
  - simpl in *. destruct v; try discriminate. revert D. apply forallb_impl. intros [a b] E. simpl in *.
    apply andb_prop in E. destruct E as [E1 E2]. rewrite (IHt1 _ E1), (IHt2 _ E2). reflexivity.
  - simpl in *. destruct v; try discriminate. revert D. apply forallb_impl. intros; apply IHt; assumption.
  - apply unions_widen. unfold dalts. rewrite existsb_map. simpl in D. apply existsb_exists in D.
    destruct D as [t [Hin Dt]]. apply existsb_exists. exists t. split; [exact Hin|].
    rewrite Forall_forall in H. apply H; assumption.
Qed.

(* everything Ty::unions does except the merge of list/dict alternatives preserves the meaning *)
Theorem normalize_nomerge_denote : forall t v, denote t v = denote (normalize_nomerge t) v.
Proof.
  induction t using ty_ind'; intro v; try reflexivity; cbn [normalize_nomerge].
  - simpl. destruct v; try reflexivity. apply forallb_ext, IHt.
  - simpl. destruct v; try reflexivity. revert vs.
    induction H as [|t ts Ht _ IH]; intros [|v vs]; simpl; try reflexivity. rewrite Ht, IH. reflexivity.
  - simpl. destruct v; try reflexivity. apply forallb_ext, IHt.
  - simpl. destruct v; try reflexivity. apply forallb_ext. intros [a b]. simpl. rewrite IHt1, IHt2. reflexivity.
  - simpl. destruct v; try reflexivity. apply forallb_ext, IHt.
  - unfold unions_nomerge. simpl unions. rewrite unions_body_nomerge_denote. unfold dalts. rewrite existsb_map.
    simpl. apply existsb_ext_in. intros t Hin. rewrite Forall_forall in H. apply H, Hin.
Qed.

(* every check path: the answer is the meaning of the normalised type *)
Theorem check_normalised : forall t v, check t v = denote (normalize t) v.
Proof. intros. unfold check. apply compile_correct, normalize_wf. Qed.
Theorem check_complete : forall t v, denote_raw t v = true -> check t v = true.
Proof. intros t v H. rewrite check_normalised. apply normalize_widens, H. Qed.

(* the full statement is refuted by the faithful model *)
Definition witness_ty : ty := TUnion [TList (TBase BInt); TList (TBase BStr)].
Definition witness_val : value := VList [VInt false; VStr].
Theorem normalize_denote_refuted : exists t v, denote_raw t v <> denote (normalize t) v.
Proof. exists witness_ty, witness_val. vm_compute. discriminate. Qed.
Theorem check_refuted : exists t v, denote_raw t v = false /\ check t v = true.
Proof. exists witness_ty, witness_val. vm_compute. split; reflexivity. Qed.

(* union laws used by normalisation, under denote *)
Lemma union_idem a v : denote (TUnion [a; a]) v = denote a v.
Proof. simpl. rewrite orb_false_r. apply orb_diag. Qed.
Lemma union_comm a b v : denote (TUnion [a; b]) v = denote (TUnion [b; a]) v.
Proof. simpl. rewrite !orb_false_r. apply orb_comm. Qed.
Lemma union_never_unit a v : denote (TUnion [TNever; a]) v = denote a v.
Proof. simpl. apply orb_false_r. Qed.
Lemma union_any_absorb a v : denote (TUnion [TAny; a]) v = true.
Proof. reflexivity. Qed.
Lemma union_flatten xs v : denote (TUnion (flat_map alts xs)) v = denote (TUnion xs) v.
Proof. apply flat_alts_dalts. Qed.
Lemma union_sort_dedup xs v : denote (TUnion (dedup (sort xs))) v = denote (TUnion xs) v.
Proof. simpl. rewrite dedup_existsb, sort_existsb. reflexivity. Qed.
Lemma union_assoc a b c v : denote (TUnion [TUnion [a; b]; c]) v = denote (TUnion [a; TUnion [b; c]]) v.
Proof. simpl. rewrite !orb_false_r. symmetry. apply orb_assoc. Qed.

(* ================================================================================================ *)
(* normalisation is exactly meaning-preserving on merge-free type expressions *)

Lemma is_never_alts x : is_never x = true -> alts x = [].
Proof. unfold is_never. destruct (alts x); [reflexivity | discriminate]. Qed.
Lemma skip_never_flat xs : flat_map alts (skip_never xs) = flat_map alts xs.
Proof.
  induction xs as [|x xs IH]; [reflexivity|]. cbn [skip_never]. destruct (is_never x) eqn:E; [|reflexivity].
  cbn [flat_map]. rewrite (is_never_alts _ E). exact IH.
Qed.

Fixpoint adj_distinct (l : list ty) : bool :=
  match l with
  | a :: l' => match l' with b :: _ => negb (ty_eqb a b) && adj_distinct l' | [] => true end
  | [] => true
  end.
Lemma dedup_hd : forall l b, exists l', dedup (b :: l) = b :: l'.
Proof.
  induction l as [|c l IH]; intro b; [exists []; reflexivity|]. rewrite dedup_cons2.
  destruct (ty_eqb b c) eqn:E.
  - apply ty_eqb_eq in E. subst c. apply IH.
  - eexists. reflexivity.
Qed.
Lemma dedup_adj_distinct l : adj_distinct (dedup l) = true.
Proof.
  induction l as [|a l IH]; [reflexivity|]. destruct l as [|b l]; [reflexivity|]. rewrite dedup_cons2.
  destruct (ty_eqb a b) eqn:E; [exact IH|]. destruct (dedup_hd l b) as [l' El]. rewrite El in *.
  cbn [adj_distinct]. cbn [adj_distinct] in IH. rewrite E. exact IH.
Qed.

Lemma merge2_none u a b :
  ty_eqb a b = false -> is_list_ty a && is_list_ty b = false -> is_dict_ty a && is_dict_ty b = false ->
  merge2 u a b = None.
Proof.
  destruct a; destruct b; simpl; intros E L D; try reflexivity; try discriminate; rewrite E; reflexivity.
Qed.
Lemma no_merge_cons a l : no_merge_alts (a :: l) = true -> no_merge_alts l = true.
Proof.
  unfold no_merge_alts, count. cbn [filter]. destruct (is_list_ty a), (is_dict_ty a); cbn [length];
    rewrite !andb_true_iff, !Nat.leb_le; intros [? ?]; split; lia.
Qed.
Lemma no_merge_two a b l : no_merge_alts (a :: b :: l) = true ->
  is_list_ty a && is_list_ty b = false /\ is_dict_ty a && is_dict_ty b = false.
Proof.
  unfold no_merge_alts, count. cbn [filter].
  destruct (is_list_ty a), (is_list_ty b), (is_dict_ty a), (is_dict_ty b); cbn [length];
    rewrite !andb_true_iff, !Nat.leb_le; intros [? ?]; split; try reflexivity; lia.
Qed.
Lemma merge_adj_id u : forall xs last,
  adj_distinct (last :: xs) = true -> no_merge_alts (last :: xs) = true -> merge_adj u last xs = last :: xs.
Proof.
  induction xs as [|x xs IH]; intros last A N; [reflexivity|]. cbn [merge_adj].
  cbn [adj_distinct] in A. apply andb_prop in A. destruct A as [A1 A2]. apply negb_true_iff in A1.
  destruct (no_merge_two _ _ _ N) as [L D]. rewrite (merge2_none u _ _ A1 L D).
  f_equal. apply IH; [exact A2 | exact (no_merge_cons _ _ N)].
Qed.
Lemma merge_adjacent_id u s : adj_distinct s = true -> no_merge_alts s = true -> merge_adjacent u s = s.
Proof. destruct s as [|a l]; [reflexivity|]. apply merge_adj_id. Qed.

Lemma unions_merge_free f xs :
  no_merge_alts (dedup (sort (flat_map alts xs))) = true -> unions (S f) xs = unions O xs.
Proof.
  intro N. cbn [unions]. unfold unions_body. destruct (existsb is_any xs); [reflexivity|].
  destruct (skip_never xs) as [|x0 r0] eqn:S1; [reflexivity|].
  destruct (skip_never r0) as [|x1 rest] eqn:S2; [reflexivity|].
  match goal with |- (if ?c then _ else _) = _ => destruct c end; [reflexivity|].
  assert (F : flat_map alts (x0 :: x1 :: rest) = flat_map alts xs).
  { rewrite <- (skip_never_flat xs), S1. cbn [flat_map]. rewrite <- (skip_never_flat r0), S2. reflexivity. }
  rewrite F. f_equal. apply merge_adjacent_id; [apply dedup_adj_distinct | exact N].
Qed.

Lemma map_eq_Forall {A B} (f g : A -> B) (p : A -> bool) l :
  Forall (fun x => p x = true -> f x = g x) l -> forallb p l = true -> map f l = map g l.
Proof.
  induction 1 as [|x l Hx _ IH]; [reflexivity|]. cbn [forallb map]. intro E. apply andb_prop in E.
  destruct E as [E1 E2]. rewrite (Hx E1), (IH E2). reflexivity.
Qed.

Theorem merge_free_normalize : forall t, merge_free t = true -> normalize t = normalize_nomerge t.
Proof.
  induction t using ty_ind'; cbn [merge_free normalize normalize_nomerge]; intro M; try reflexivity.
  - rewrite (IHt M). reflexivity.
  - rewrite (map_eq_Forall _ _ _ _ H M). reflexivity.
  - rewrite (IHt M). reflexivity.
  - apply andb_prop in M. destruct M as [M1 M2]. rewrite (IHt1 M1), (IHt2 M2). reflexivity.
  - rewrite (IHt M). reflexivity.
  - apply andb_prop in M. destruct M as [M1 M2]. rewrite (map_eq_Forall _ _ _ _ H M1).
    unfold unions_top, unions_nomerge. apply unions_merge_free. exact M2.
Qed.
Theorem normalize_denote_merge_free : forall t, merge_free t = true ->
  forall v, denote_raw t v = denote (normalize t) v.
Proof. intros t M v. rewrite (merge_free_normalize t M). apply normalize_nomerge_denote. Qed.
Theorem check_exact_merge_free : forall t, merge_free t = true -> forall v, check t v = denote_raw t v.
Proof. intros t M v. rewrite check_normalised. symmetry. apply normalize_denote_merge_free, M. Qed.

(* ================================================================================================ *)
(* the check paths *)

Lemma ty_eqb_refl : forall a, ty_eqb a a = true.
Proof.
  induction a using ty_ind'; simpl; try reflexivity; auto.
  - destruct b; reflexivity.
  - induction H as [|x xs Hx _ IH]; simpl; [reflexivity | rewrite Hx, IH; reflexivity].
  - rewrite IHa1, IHa2. reflexivity.
  - apply N.eqb_refl.
  - apply N.eqb_refl.
  - induction H as [|x xs Hx _ IH]; simpl; [reflexivity | rewrite Hx, IH; reflexivity].
Qed.
Lemma never_wf a : wf_ty a = true -> is_never a = true -> a = TNever.
Proof.
  destruct a; simpl; intros W Nv; try discriminate; [reflexivity|]. unfold is_never in Nv. simpl in Nv.
  destruct ts; [discriminate W | discriminate Nv].
Qed.

(* Ty::union2 is Ty::unions(vec![a, b]) on types that are themselves results of normalisation *)
Lemma union2_unions_top a b : wf_ty a = true -> wf_ty b = true -> union2 a b = unions_top [a; b].
Proof.
  intros Wa Wb. unfold union2.
  assert (R : unions_top [a; b] = unions_body (Some (fun x y => unions (depth (TUnion [a; b])) [x; y])) [a; b])
    by reflexivity.
  destruct (is_any a || is_any b) eqn:A.
  - rewrite R. unfold unions_body. cbn [existsb]. rewrite orb_false_r, A. reflexivity.
  - destruct (ty_eqb a b) eqn:E.
    + apply ty_eqb_eq in E. subst b. rewrite R. unfold unions_body. cbn [existsb]. rewrite orb_false_r, A.
      cbn [skip_never]. destruct (is_never a) eqn:Na.
      * cbn [skip_never]. rewrite ?Na. apply never_wf; assumption.
      * cbn [skip_never]. rewrite ?Na. rewrite ty_eqb_refl. reflexivity.
    + destruct (is_never a) eqn:Na.
      * rewrite R. unfold unions_body. cbn [existsb]. rewrite orb_false_r, A. cbn [skip_never]. rewrite ?Na.
        cbn [skip_never]. destruct (is_never b) eqn:Nb; [apply never_wf; assumption | reflexivity].
      * destruct (is_never b) eqn:Nb; [|reflexivity].
        rewrite R. unfold unions_body. cbn [existsb]. rewrite orb_false_r, A. cbn [skip_never]. rewrite ?Na.
        cbn [skip_never]. rewrite ?Nb. reflexivity.
Qed.

(* both evaluators produce the factory's matcher for the normalised type *)
Lemma eval_rt_alloc : forall t, tc_new (eval_rt t) = alloc_ty (normalize t).
Proof.
  induction t using ty_ind'; try reflexivity.
  - cbn [eval_rt tc_new normalize]. unfold type_list_of. rewrite IHt. reflexivity.
  - cbn [eval_rt tc_new normalize]. unfold from_ty. f_equal. f_equal. rewrite map_map.
    induction H as [|x xs Hx _ IH]; [reflexivity|]. cbn [map]. rewrite Hx, IH. reflexivity.
  - cbn [eval_rt tc_new normalize]. rewrite IHt. reflexivity.
  - cbn [eval_rt tc_new normalize]. unfold type_dict_of. rewrite IHt1, IHt2. reflexivity.
  - cbn [eval_rt tc_new normalize]. unfold type_set_of. rewrite IHt. reflexivity.
  - assert (G : type_any_of (map tc_new (map eval_rt ts)) = alloc_ty (normalize (TUnion ts))).
    { unfold type_any_of. cbn [normalize]. f_equal. f_equal. rewrite !map_map.
      induction H as [|x xs Hx _ IH]; [reflexivity|]. cbn [map]. rewrite Hx, IH. reflexivity. }
    destruct ts as [|a [|b [|c l]]]; try exact G.
    cbn [eval_rt tc_new]. inversion H as [|? ? Ha Hb']; subst. inversion Hb' as [|? ? Hb _]; subst.
    unfold type_any_of_two. rewrite Ha, Hb. cbn [tc_ty alloc_ty normalize map].
    rewrite union2_unions_top by apply normalize_wf. reflexivity.
Qed.
Lemma eval_ct_alloc : forall t, tc_new (eval_ct t) = alloc_ty (normalize t).
Proof.
  induction t using ty_ind'; try reflexivity.
  - cbn [eval_ct tc_new normalize]. unfold type_list_of. rewrite IHt. reflexivity.
  - cbn [eval_ct tc_new normalize]. unfold from_ty. f_equal. f_equal.
    induction H as [|x xs Hx _ IH]; [reflexivity|]. cbn [map]. rewrite Hx, IH. reflexivity.
  - cbn [eval_ct tc_new normalize]. rewrite IHt. reflexivity.
  - cbn [eval_ct tc_new normalize]. unfold type_dict_of. rewrite IHt1, IHt2. reflexivity.
  - cbn [eval_ct tc_new normalize]. unfold type_set_of. rewrite IHt. reflexivity.
  - cbn [eval_ct tc_new normalize]. unfold type_any_of. f_equal. f_equal. rewrite map_map.
    induction H as [|x xs Hx _ IH]; [reflexivity|]. cbn [map]. rewrite Hx, IH. reflexivity.
Qed.
Lemma compiler_ty_normalize t : compiler_ty t = normalize t.
Proof. unfold compiler_ty. rewrite eval_ct_alloc. reflexivity. Qed.

Lemma to_frozen_m c : tc_m (to_frozen c) = tc_m c.
Proof. unfold to_frozen. destruct (tc_frozen c); reflexivity. Qed.
Lemma to_frozen_ty c : tc_ty (to_frozen c) = tc_ty c.
Proof. unfold to_frozen. destruct (tc_frozen c); reflexivity. Qed.
Lemma to_frozen_frozen c : tc_frozen (to_frozen c) = true.
Proof. unfold to_frozen. destruct (tc_frozen c) eqn:E; [exact E | reflexivity]. Qed.

(* an annotation site: either no check (the matcher is a wildcard) or the factory's matcher *)
Lemma annotation_matches cty v :
  matches (matcher_of_annotation (expr_for_type_ty cty)) v = matches (compile cty) v.
Proof.
  unfold expr_for_type_ty, from_ty. cbn [alloc_ty tc_m]. destruct (is_wildcard (compile cty)) eqn:W.
  - cbn [matcher_of_annotation matches]. symmetry. apply wild_matches, W.
  - cbn [matcher_of_annotation]. rewrite to_frozen_m. reflexivity.
Qed.

Theorem isinstance_matcher t : compile_at_isinstance t = compile (normalize t).
Proof. unfold compile_at_isinstance. rewrite eval_rt_alloc. reflexivity. Qed.
Theorem host_matcher t : compile_at_host t = compile (normalize t).
Proof. unfold compile_at_host. rewrite eval_rt_alloc. reflexivity. Qed.

Theorem check_isinstance_eq t v : check_isinstance t v = check t v.
Proof. unfold check_isinstance, check. rewrite isinstance_matcher. reflexivity. Qed.
Theorem check_param_eq t v : check_param t v = check t v.
Proof. unfold check_param, compile_at_param, check. rewrite annotation_matches, compiler_ty_normalize. reflexivity. Qed.
Theorem check_return_eq t v : check_return t v = check t v.
Proof. unfold check_return, compile_at_return, check. rewrite annotation_matches, compiler_ty_normalize. reflexivity. Qed.
Theorem check_assign_eq t v : check_assign t v = check t v.
Proof. unfold check_assign, compile_at_assign, check. rewrite annotation_matches, compiler_ty_normalize. reflexivity. Qed.
Theorem check_host_eq t v : check_host t v = check t v.
Proof. unfold check_host, check. rewrite host_matcher. reflexivity. Qed.
Theorem check_host_frozen_eq t v : check_host_frozen t v = check t v.
Proof. unfold check_host_frozen, compile_at_host_frozen, check. rewrite to_frozen_m, eval_rt_alloc. reflexivity. Qed.
Theorem check_param_alias_eq t v : check_param_alias t v = check t v.
Proof.
  unfold check_param_alias, compile_at_param_alias, check. rewrite annotation_matches. cbn [tc_new].
  rewrite to_frozen_ty, eval_rt_alloc. reflexivity.
Qed.

Theorem paths_agree t v :
  check_isinstance t v = check_param t v /\ check_param t v = check_return t v /\
  check_return t v = check_assign t v /\ check_assign t v = check_host t v /\ check_host t v = check t v.
Proof.
  rewrite check_isinstance_eq, check_param_eq, check_return_eq, check_assign_eq, check_host_eq.
  repeat split; reflexivity.
Qed.

(* freezing changes representation tags only *)
Lemma view_freeze : forall g, view (freeze_val g) = view g.
Proof.
  fix IH 1. intros [f v | f vs | f vs | f vs | f kvs]; cbn [freeze_val view]; try reflexivity.
  - f_equal. rewrite map_map. induction vs as [|x xs IHl]; [reflexivity|]. cbn [map]. rewrite IH, IHl. reflexivity.
  - f_equal. rewrite map_map. induction vs as [|x xs IHl]; [reflexivity|]. cbn [map]. rewrite IH, IHl. reflexivity.
  - f_equal. rewrite map_map. induction vs as [|x xs IHl]; [reflexivity|]. cbn [map]. rewrite IH, IHl. reflexivity.
  - f_equal. rewrite map_map. induction kvs as [|[k w] xs IHl]; [reflexivity|]. cbn [map]. rewrite !IH, IHl. reflexivity.
Qed.
Theorem freeze_invariant c g : check_tc (freeze_ty c) (freeze_val g) = check_tc c g.
Proof. unfold check_tc, freeze_ty. rewrite to_frozen_m, view_freeze. reflexivity. Qed.
Theorem freeze_ty_tags_only c :
  tc_ty (freeze_ty c) = tc_ty c /\ tc_m (freeze_ty c) = tc_m c /\ tc_frozen (freeze_ty c) = true.
Proof. unfold freeze_ty. rewrite to_frozen_ty, to_frozen_m, to_frozen_frozen. repeat split. Qed.
(* a type compiled on any path, then frozen, applied to a frozen value: the answer of `check` on the live pair *)
Theorem freeze_invariant_sites t g :
  check_tc (freeze_ty (tc_new (eval_rt t))) (freeze_val g) = check t (view g) /\
  check_tc (freeze_ty (tc_new (eval_ct t))) (freeze_val g) = check t (view g) /\
  check_tc (tc_new (eval_rt t)) g = check t (view g).
Proof.
  unfold check_tc, freeze_ty, check. rewrite !to_frozen_m, view_freeze, eval_rt_alloc, eval_ct_alloc.
  repeat split; reflexivity.
Qed.
