(* C16 correspondence driver: the model, the normalised meaning and the specification run on the
   (type, value) pairs the implementation ran on.  Executable only; extracted by Extract/TyX.v. *)
From Coq Require Import NArith Bool List.
From SV Require Import Ty.Spec Ty.Model.
Import ListNotations.

(* (specification on the expression as written, meaning of the normalised type, what every check path answers) *)
Definition run (t : ty) (v : value) : bool * (bool * bool) :=
  (denote_raw t v, (denote (normalize t) v, check t v)).

(* (the normalised type satisfies the invariant compile relies on, no union merges list/dict alternatives,
    normalisation without the merge step gives the specification) *)
Definition info (t : ty) : bool * bool := (wf_ty (normalize t), merge_free t).

Definition run_nomerge (t : ty) (v : value) : bool := matches (compile (normalize_nomerge t)) v.
