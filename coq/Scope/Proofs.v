(* Name resolution: the stateful resolver of scope.rs (Scope/Model.v) computes, for every scope tree and every
   identifier use, exactly the binding given by the lexical rule (Scope/Spec.v). *)
From Coq Require Import String List Bool Arith Lia ZArith.
From SV Require Import Core.Syntax Scope.Tree Scope.Model Scope.Spec.
Import ListNotations.

(* ------------------------------------------------------------------------------------------------ *)
(* basics                                                                                           *)
(* ------------------------------------------------------------------------------------------------ *)

Lemma mem_In : forall x l, mem x l = true <-> In x l.
Proof.
  intros x l. unfold mem. rewrite existsb_exists. split.
  - intros (y & Hy & E). apply String.eqb_eq in E. now subst.
  - intros H. exists x. split; [exact H | apply String.eqb_refl].
Qed.

Lemma mem_false : forall x l, mem x l = false <-> ~ In x l.
Proof.
  intros x l. rewrite <- mem_In. destruct (mem x l); split; congruence.
Qed.

Lemma mem_app : forall x l1 l2, mem x (l1 ++ l2) = mem x l1 || mem x l2.
Proof. intros. unfold mem. apply existsb_app. Qed.

Lemma add_def_In : forall x y acc, In x (add_def y acc) <-> In x acc \/ x = y.
Proof.
  intros x y acc. unfold add_def. destruct (mem y acc) eqn:E.
  - apply mem_In in E. split; [tauto|]. intros [H| ->]; assumption.
  - rewrite in_app_iff. cbn. split; intros [H|H]; auto; try tauto. destruct H; [subst; auto | tauto].
Qed.

Lemma add_def_NoDup : forall y acc, NoDup acc -> NoDup (add_def y acc).
Proof.
  intros y acc H. unfold add_def. destruct (mem y acc) eqn:E; [exact H|].
  apply mem_false in E.
  apply NoDup_rev in H. rewrite <- (rev_involutive (acc ++ [y])). apply NoDup_rev.
  rewrite rev_app_distr. cbn. constructor; [rewrite <- in_rev; exact E | exact H].
Qed.

Lemma fold_add_def_In : forall l acc x,
  In x (fold_left (fun a y => add_def y a) l acc) <-> In x acc \/ In x l.
Proof.
  induction l as [|a l IH]; intros acc x; cbn [fold_left].
  - cbn. tauto.
  - rewrite IH, add_def_In. cbn. split; intros H; intuition.
Qed.

Lemma fold_add_def_NoDup : forall l acc, NoDup acc -> NoDup (fold_left (fun a y => add_def y a) l acc).
Proof.
  induction l as [|a l IH]; intros acc H; cbn [fold_left]; [exact H|].
  apply IH. now apply add_def_NoDup.
Qed.

Lemma dedup_In : forall l x, In x (dedup l) <-> In x l.
Proof. intros. unfold dedup. rewrite fold_add_def_In. cbn. tauto. Qed.

Lemma dedup_NoDup : forall l, NoDup (dedup l).
Proof. intros. apply fold_add_def_NoDup. constructor. Qed.

Lemma mem_dedup : forall l x, mem x (dedup l) = mem x l.
Proof.
  intros l x. destruct (mem x l) eqn:E.
  - apply mem_In. apply dedup_In. now apply mem_In.
  - apply mem_false. rewrite dedup_In. now apply mem_false.
Qed.

Lemma index_of_mem : forall x l, (exists i, index_of x l = Some i) <-> mem x l = true.
Proof.
  intros x l. induction l as [|y l IH]; cbn.
  - split; [intros [i H]; discriminate | discriminate].
  - destruct (String.eqb x y); cbn; [split; eauto|].
    rewrite <- IH. destruct (index_of x l); cbn; split; intros [i H]; eauto; discriminate.
Qed.

(* ------------------------------------------------------------------------------------------------ *)
(* views of the name maps                                                                           *)
(* ------------------------------------------------------------------------------------------------ *)

Definition view := string -> option entry.
Definition view_of (sc : scope_names) : view := fun x => mp_get x (sn_mp sc).
Definition veq (g h : view) : Prop := forall x, g x = h x.
Definition upd (g : view) (x : string) (e : entry) : view :=
  fun y => if String.eqb y x then Some e else g y.

Fixpoint assoc {V : Type} (x : string) (u : list (string * V)) : option V :=
  match u with
  | [] => None
  | (y, v) :: r => if String.eqb x y then Some v else assoc x r
  end.

Definition undo_view (u : unscope) (g : view) : view :=
  fun x => match assoc x u with Some o => o | None => g x end.

Lemma mp_get_remove : forall x y mp,
  mp_get x (mp_remove y mp) = if String.eqb x y then None else mp_get x mp.
Proof.
  intros x y mp. unfold mp_remove. induction mp as [|[z v] mp IH].
  - cbn. now destruct (String.eqb x y).
  - cbn [filter fst]. destruct (String.eqb y z) eqn:Eyz; cbn [negb].
    + rewrite IH. cbn [mp_get]. apply String.eqb_eq in Eyz. subst z.
      destruct (String.eqb x y); reflexivity.
    + cbn [mp_get]. rewrite IH. destruct (String.eqb x z) eqn:Exz; [|reflexivity].
      apply String.eqb_eq in Exz. subst z. rewrite String.eqb_sym, Eyz. reflexivity.
Qed.

Lemma view_unscope : forall u sc, veq (view_of (unscope_apply sc u)) (undo_view u (view_of sc)).
Proof.
  intros u sc x. unfold view_of, undo_view, unscope_apply. cbn [sn_mp].
  induction u as [|[y undo] u IH]; [reflexivity|].
  cbn [unscope_mp assoc].
  destruct undo as [v|].
  - unfold mp_set. cbn [mp_get]. destruct (String.eqb x y); [reflexivity | exact IH].
  - rewrite mp_get_remove. destruct (String.eqb x y); [reflexivity | exact IH].
Qed.

(* ------------------------------------------------------------------------------------------------ *)
(* the invariant relating the scope stack to the lexical context                                    *)
(* ------------------------------------------------------------------------------------------------ *)

(* bound by the current function level: the frames up to and including the innermost def/lambda *)
Fixpoint bound_here (ctx : list frame) (x : string) : bool :=
  match ctx with
  | [] => false
  | f :: outer => mem x (frame_names f) || (if is_fun f then false else bound_here outer x)
  end.

Fixpoint drop_level (ctx : list frame) : list frame :=
  match ctx with
  | [] => []
  | FFun _ :: c => c
  | FComp _ :: c => drop_level c
  end.

Fixpoint drop_us (ctx : list frame) (us : list unscope) : list unscope :=
  match ctx with
  | FComp _ :: c => drop_us c (tl us)
  | _ => us
  end.

(* every entry of the map is the lexically right binding; every name bound at this level has an entry *)
Definition ViewOK (ctx : list frame) (g : view) : Prop :=
  forall x, match g x with
            | Some (v, b) => snd b = x /\ exists c, lookup ctx x = Some (fst b, c)
            | None => bound_here ctx x = false
            end.

Fixpoint InvV (ctx : list frame) (gs : list view) (us : list unscope) : Prop :=
  match ctx with
  | [] => us = [] /\ exists g, gs = [g] /\ ViewOK [] g
  | FFun N :: ctx' =>
      exists g gs', gs = g :: gs' /\ ViewOK (FFun N :: ctx') g /\ InvV ctx' gs' us
  | FComp N :: ctx' =>
      exists g gs' u us', gs = g :: gs' /\ us = u :: us' /\ ViewOK (FComp N :: ctx') g /\
        (forall x, assoc x u <> None -> mem x N = true) /\
        InvV ctx' (undo_view u g :: gs') us'
  end.

Lemma ViewOK_ext : forall ctx g h, veq g h -> ViewOK ctx g -> ViewOK ctx h.
Proof. intros ctx g h E H x. rewrite <- (E x). apply H. Qed.

Lemma undo_view_ext : forall u g h, veq g h -> veq (undo_view u g) (undo_view u h).
Proof. intros u g h E x. unfold undo_view. destruct (assoc x u); [reflexivity | apply E]. Qed.

Lemma InvV_ext_head : forall ctx g h gs us, veq g h -> InvV ctx (g :: gs) us -> InvV ctx (h :: gs) us.
Proof.
  induction ctx as [|[N|N] ctx IH]; intros g h gs us E H; cbn [InvV] in *.
  - destruct H as (Hu & g0 & Hg & Hv). inversion Hg; subst. split; [reflexivity|].
    exists h. split; [reflexivity|]. eapply ViewOK_ext; eauto.
  - destruct H as (g0 & gs' & Hg & Hv & Hi). inversion Hg; subst.
    exists h, gs'. split; [reflexivity|]. split; [eapply ViewOK_ext; eauto | exact Hi].
  - destruct H as (g0 & gs' & u & us' & Hg & Hu & Hv & Hk & Hi). inversion Hg; subst.
    exists h, gs', u, us'. repeat split; auto.
    + eapply ViewOK_ext; eauto.
    + eapply IH; [|exact Hi]. now apply undo_view_ext.
Qed.

Lemma InvV_head : forall ctx gs us, InvV ctx gs us -> exists g gs', gs = g :: gs' /\ ViewOK ctx g.
Proof.
  intros [|[N|N] ctx] gs us H; cbn [InvV] in H.
  - destruct H as (_ & g & -> & Hv). eauto.
  - destruct H as (g & gs' & -> & Hv & _). eauto.
  - destruct H as (g & gs' & u & us' & -> & _ & Hv & _). eauto.
Qed.

Lemma InvV_length : forall ctx gs us, InvV ctx gs us -> length gs + length us = S (length ctx).
Proof.
  induction ctx as [|[N|N] ctx IH]; intros gs us H; cbn [InvV] in H.
  - destruct H as (-> & g & -> & _). reflexivity.
  - destruct H as (g & gs' & -> & _ & Hi). apply IH in Hi. cbn [length]. lia.
  - destruct H as (g & gs' & u & us' & -> & -> & _ & _ & Hi). apply IH in Hi. cbn [length] in *. lia.
Qed.

Lemma InvV_peel : forall ctx g gs' us, InvV ctx (g :: gs') us ->
  if in_function ctx then InvV (drop_level ctx) gs' (drop_us ctx us) else gs' = [].
Proof.
  induction ctx as [|[N|N] ctx IH]; intros g gs' us H; cbn [InvV] in H.
  - destruct H as (_ & g0 & Hg & _). inversion Hg. reflexivity.
  - destruct H as (g0 & gs0 & Hg & _ & Hi). inversion Hg; subst. exact Hi.
  - destruct H as (g0 & gs0 & u & us' & Hg & -> & _ & _ & Hi). inversion Hg; subst.
    apply IH in Hi. unfold in_function in *. cbn [existsb is_fun orb drop_level drop_us tl]. exact Hi.
Qed.

Lemma lookup_not_here : forall ctx x, bound_here ctx x = false ->
  lookup ctx x =
  if in_function ctx
  then match lookup (drop_level ctx) x with Some (d, _) => Some (d, true) | None => None end
  else None.
Proof.
  induction ctx as [|[N|N] ctx IH]; intros x H; cbn [bound_here frame_names is_fun] in H.
  - reflexivity.
  - rewrite orb_false_r in H. unfold in_function. cbn [lookup frame_names existsb is_fun orb drop_level].
    rewrite H. destruct (lookup ctx x) as [[d c]|]; [|reflexivity]. now rewrite orb_true_r.
  - apply orb_false_iff in H. destruct H as [H1 H2].
    unfold in_function in *. cbn [lookup frame_names existsb is_fun orb drop_level].
    rewrite H1, (IH x H2).
    destruct (existsb is_fun ctx); [|reflexivity].
    destruct (lookup (drop_level ctx) x) as [[d c]|]; reflexivity.
Qed.

Lemma InvV_rebuild : forall ctx g gs' gs'' us x s b c,
  InvV ctx (g :: gs') us ->
  bound_here ctx x = false -> in_function ctx = true ->
  InvV (drop_level ctx) gs'' (drop_us ctx us) ->
  snd b = x -> lookup ctx x = Some (fst b, c) ->
  InvV ctx (upd g x (s, b) :: gs'') us.
Proof.
  induction ctx as [|[N|N] ctx IH]; intros g gs' gs'' us x s b c H Hb Hf Ho Hx Hl.
  - discriminate.
  - cbn [InvV] in *. destruct H as (g0 & gs0 & Hg & Hv & _). inversion Hg; subst g0 gs0.
    exists (upd g x (s, b)), gs''. split; [reflexivity|]. split; [|exact Ho].
    intros y. unfold upd. destruct (String.eqb y x) eqn:E.
    + apply String.eqb_eq in E. subst y. split; [exact Hx | eauto].
    + apply Hv.
  - cbn [InvV] in *. destruct H as (g0 & gs0 & u & us' & Hg & -> & Hv & Hk & Hi).
    inversion Hg; subst g0 gs0.
    cbn [bound_here frame_names is_fun] in Hb. apply orb_false_iff in Hb. destruct Hb as [Hb1 Hb2].
    exists (upd g x (s, b)), gs'', u, us'. repeat split; auto.
    + intros y. unfold upd. destruct (String.eqb y x) eqn:E.
      * apply String.eqb_eq in E. subst y. split; [exact Hx | eauto].
      * apply Hv.
    + cbn [lookup frame_names] in Hl. rewrite Hb1 in Hl.
      destruct (lookup ctx x) as [[d c0]|] eqn:El; [|discriminate].
      inversion Hl; subst d.
      eapply InvV_ext_head; [| eapply (IH _ _ gs'' _ x s b c0 Hi Hb2); eauto].
      intros y. unfold upd, undo_view.
      destruct (String.eqb y x) eqn:E; [|reflexivity].
      apply String.eqb_eq in E. subst y.
      destruct (assoc x u) eqn:Ea; [|reflexivity].
      assert (mem x N = true) by (apply Hk; congruence). congruence.
Qed.

(* ------------------------------------------------------------------------------------------------ *)
(* get_name                                                                                         *)
(* ------------------------------------------------------------------------------------------------ *)

Lemma view_copy_parent : forall sc v b x,
  veq (upd (view_of sc) x (length (sn_used sc), b)) (view_of (fst (copy_parent sc v b x))).
Proof.
  intros sc v b x y. unfold upd, view_of, copy_parent, add_name, mp_set. cbn. reflexivity.
Qed.

Lemma find_name_ok : forall x scs ctx us, InvV ctx (map view_of scs) us ->
  match find_name x scs with
  | Some (v, b, scs', top) =>
      InvV ctx (map view_of scs') us /\ snd b = x /\
      exists c, lookup ctx x = Some (fst b, c) /\ (top = false -> c = true)
  | None => lookup ctx x = None
  end.
Proof.
  intros x. induction scs as [|sc scs' IH]; intros ctx us H.
  - apply InvV_head in H. destruct H as (g & gs' & Hg & _). discriminate.
  - cbn [find_name].
    destruct (InvV_head _ _ _ H) as (g & gs' & Hg & Hv). cbn [map] in Hg. inversion Hg; subst g gs'.
    pose proof (Hv x) as Hx. unfold view_of in Hx at 1.
    destruct (mp_get x (sn_mp sc)) as [[v b]|] eqn:E.
    + destruct Hx as [Hx1 [c Hx2]]. split; [exact H|]. split; [exact Hx1|]. exists c. split; [exact Hx2 | discriminate].
    + cbn [map] in H. pose proof (InvV_peel _ _ _ _ H) as Hp.
      pose proof (lookup_not_here _ _ Hx) as Hl.
      destruct (in_function ctx) eqn:F.
      * specialize (IH _ _ Hp).
        destruct (find_name x scs') as [[[[v b] outer'] top']|].
        -- destruct IH as (Ho & Hb & c & Hc & _). rewrite Hc in Hl.
           destruct (copy_parent sc v b x) as [sc1 v1] eqn:Ecp.
           split; [|split; [exact Hb | eauto]].
           cbn [map].
           eapply InvV_ext_head; [| eapply (InvV_rebuild _ _ _ _ _ x (length (sn_used sc)) b true H); eauto].
           pose proof (view_copy_parent sc v b x) as Hvc. rewrite Ecp in Hvc. exact Hvc.
        -- rewrite IH in Hl. exact Hl.
      * destruct scs'; [|discriminate]. cbn [find_name]. exact Hl.
Qed.

(* ------------------------------------------------------------------------------------------------ *)
(* entering scopes                                                                                  *)
(* ------------------------------------------------------------------------------------------------ *)

Lemma fold_add_name_view : forall d l sc x,
  let sc' := fold_left (fun sc y => fst (add_name sc y (d, y))) l sc in
  (mem x l = true -> exists s, view_of sc' x = Some (s, (d, x))) /\
  (mem x l = false -> view_of sc' x = view_of sc x).
Proof.
  intros d. induction l as [|a l IH]; intros sc x; cbn [fold_left].
  - cbn. split; [discriminate | reflexivity].
  - specialize (IH (fst (add_name sc a (d, a))) x). cbv zeta in IH. destruct IH as [IH1 IH2].
    cbv zeta. cbn [mem existsb]. fold (mem x l).
    destruct (mem x l) eqn:El.
    + split; [intros _; apply IH1; reflexivity | rewrite orb_true_r; discriminate].
    + rewrite orb_false_r. rewrite (IH2 eq_refl).
      unfold view_of, add_name, mp_set. cbn [fst sn_mp mp_get].
      destruct (String.eqb x a) eqn:E.
      * apply String.eqb_eq in E. subst a. split; [eauto | discriminate].
      * split; [discriminate | reflexivity].
Qed.

Lemma init_scope_ok : forall ctx ps names,
  ViewOK (FFun names :: ctx) (view_of (init_scope (length ctx) ps names)).
Proof.
  intros ctx ps names x. unfold init_scope.
  destruct (fold_add_name_view (length ctx) (dedup names) (mkScope (length ps) [] [] []) x) as [H1 H2].
  cbv zeta in H1, H2. rewrite mem_dedup in H1, H2.
  destruct (mem x names) eqn:E.
  - destruct (H1 eq_refl) as [s Hs]. rewrite Hs. cbn [fst snd]. split; [reflexivity|].
    exists false. cbn [lookup frame_names]. now rewrite E.
  - rewrite (H2 eq_refl). unfold view_of. cbn [sn_mp mp_get bound_here frame_names is_fun].
    rewrite E. reflexivity.
Qed.

Lemma fold_add_scoped : forall d l sc0 u0 sc' u',
  NoDup l -> (forall y, In y l -> assoc y u0 = None) ->
  fold_left (fun '(sc, u) x => add_scoped sc x (d, x) u) l (sc0, u0) = (sc', u') ->
  (forall x, mem x l = true -> exists s, view_of sc' x = Some (s, (d, x))) /\
  (forall x, mem x l = false -> view_of sc' x = view_of sc0 x) /\
  veq (undo_view u' (view_of sc')) (undo_view u0 (view_of sc0)) /\
  (forall x, assoc x u' <> None -> assoc x u0 <> None \/ mem x l = true).
Proof.
  intros d. induction l as [|a l IH]; intros sc0 u0 sc' u' Hnd Hu Hf; cbn [fold_left] in Hf.
  - inversion Hf; subst. repeat split; try (intros; cbn in *; try discriminate; auto; reflexivity).
  - inversion Hnd as [|? ? Hna Hnd']; subst.
    unfold add_scoped at 2 in Hf.
    apply IH in Hf; [|exact Hnd'|].
    2:{ intros y Hy. cbn [assoc]. destruct (String.eqb y a) eqn:E.
        - apply String.eqb_eq in E. subst y. contradiction.
        - apply Hu. now right. }
    destruct Hf as (F1 & F2 & F3 & F4).
    assert (Hva : forall x, String.eqb x a = false ->
               view_of (mkScope (sn_pcount sc0) (sn_used sc0 ++ [a])
                                (mp_set a (length (sn_used sc0), (d, a)) (sn_mp sc0)) (sn_parent sc0)) x
               = view_of sc0 x).
    { intros x E. unfold view_of, mp_set. cbn [sn_mp mp_get]. now rewrite E. }
    repeat split.
    + intros x Hx. cbn [mem existsb] in Hx. fold (mem x l) in Hx.
      destruct (mem x l) eqn:El; [now apply F1|].
      rewrite orb_false_r in Hx. apply String.eqb_eq in Hx. subst a.
      rewrite (F2 x El). unfold view_of, mp_set. cbn [sn_mp mp_get]. rewrite String.eqb_refl. eauto.
    + intros x Hx. cbn [mem existsb] in Hx. fold (mem x l) in Hx.
      apply orb_false_iff in Hx. destruct Hx as [Hx1 Hx2].
      rewrite (F2 x Hx2). now apply Hva.
    + intros x. rewrite (F3 x). unfold undo_view. cbn [assoc].
      destruct (String.eqb x a) eqn:E.
      * apply String.eqb_eq in E. subst a. rewrite (Hu x (or_introl eq_refl)). reflexivity.
      * destruct (assoc x u0); [reflexivity | now apply Hva].
    + intros x Hx. apply F4 in Hx. cbn [assoc mem existsb] in *. fold (mem x l).
      destruct (String.eqb x a); [right; reflexivity|]. exact Hx.
Qed.

(* ------------------------------------------------------------------------------------------------ *)
(* state invariant and the scope operations                                                         *)
(* ------------------------------------------------------------------------------------------------ *)

Definition Inv (ctx : list frame) (st : state) : Prop :=
  InvV ctx (map view_of (st_locals st)) (st_unscopes st).

Lemma Inv_locals : forall ctx st, Inv ctx st ->
  exists sc outer, st_locals st = sc :: outer /\ ViewOK ctx (view_of sc).
Proof.
  intros ctx st H. destruct (InvV_head _ _ _ H) as (g & gs' & Hg & Hv).
  destruct (st_locals st) as [|sc outer]; [discriminate|]. cbn [map] in Hg. inversion Hg; subst.
  eauto.
Qed.

Lemma Inv_depth : forall ctx st, Inv ctx st -> depth st = length ctx.
Proof.
  intros ctx st H. destruct (Inv_locals _ _ H) as (sc & outer & E & _).
  unfold Inv in H. apply InvV_length in H. rewrite map_length in H. unfold depth.
  rewrite E in *. cbn [length] in *. lia.
Qed.

Lemma Inv_init : Inv [] init_state.
Proof.
  unfold Inv, init_state. cbn. split; [reflexivity|]. eexists. split; [reflexivity|].
  intros x. reflexivity.
Qed.

Lemma enter_def_ok : forall ctx st ps names, Inv ctx st ->
  Inv (FFun names :: ctx) (enter_def st (init_scope (depth st) ps names)).
Proof.
  intros ctx st ps names H. rewrite (Inv_depth _ _ H). unfold Inv, enter_def.
  cbn [st_locals st_unscopes map InvV].
  eexists. eexists. split; [reflexivity|]. split; [apply init_scope_ok | exact H].
Qed.

Lemma exit_def_ok : forall ctx N st, Inv (FFun N :: ctx) st -> Inv ctx (exit_def st).
Proof.
  intros ctx N st H. destruct (Inv_locals _ _ H) as (sc & outer & E & _).
  unfold Inv in *. unfold exit_def. rewrite E in *. cbn [st_locals st_unscopes map InvV] in *.
  destruct H as (g & gs' & Hg & _ & Hi). inversion Hg; subst. exact Hi.
Qed.

Lemma add_compr_ok : forall ctx st names, Inv ctx st -> Inv (FComp names :: ctx) (add_compr st names).
Proof.
  intros ctx st names H. destruct (Inv_locals _ _ H) as (sc & outer & E & Hv).
  pose proof (Inv_depth _ _ H) as Hd.
  unfold Inv in *. unfold add_compr. rewrite E in *.
  cbv zeta.
  match goal with |- context [fold_left ?f ?l ?a] => destruct (fold_left f l a) as [sc' u] eqn:Ef end.
  apply fold_add_scoped in Ef; [|apply dedup_NoDup | reflexivity].
  destruct Ef as (F1 & F2 & F3 & F4).
  cbn [st_locals st_unscopes map InvV] in *.
  exists (view_of sc'), (map view_of outer), u, (st_unscopes st).
  split; [reflexivity|]. split; [reflexivity|]. split; [|split].
  - intros x. destruct (mem x names) eqn:Em.
    + destruct (F1 x) as [s Hs]; [now rewrite mem_dedup|]. rewrite Hs. cbn [fst snd].
      split; [reflexivity|]. exists false. cbn [lookup frame_names]. now rewrite Em, Hd.
    + rewrite (F2 x) by now rewrite mem_dedup.
      pose proof (Hv x) as Hx. destruct (view_of sc x) as [[v b]|].
      * destruct Hx as (Hx1 & c & Hc). split; [exact Hx1|].
        cbn [lookup frame_names]. rewrite Em, Hc. eauto.
      * cbn [bound_here frame_names is_fun]. now rewrite Em, Hx.
  - intros x Hx. apply F4 in Hx. destruct Hx as [Hx|Hx]; [now cbn in Hx|]. now rewrite mem_dedup in Hx.
  - eapply InvV_ext_head; [|exact H]. intros x. symmetry. apply (F3 x).
Qed.

Lemma exit_compr_ok : forall ctx N st, Inv (FComp N :: ctx) st -> Inv ctx (exit_compr st).
Proof.
  intros ctx N st H. destruct (Inv_locals _ _ H) as (sc & outer & E & _).
  unfold Inv in *. unfold exit_compr. rewrite E in *. cbn [map InvV] in H.
  destruct H as (g & gs' & u & us' & Hg & Hu & _ & _ & Hi). inversion Hg; subst g gs'.
  rewrite Hu. cbn [st_locals st_unscopes map].
  eapply InvV_ext_head; [|exact Hi]. intros x. symmetry. apply view_unscope.
Qed.

(* ------------------------------------------------------------------------------------------------ *)
(* what is compared: the binding site (frame depth from the outermost, name) / module / builtin     *)
(* ------------------------------------------------------------------------------------------------ *)

Inductive core := CFrame (d : nat) (x : string) | CModule | CBuiltin | CUnbound.

Definition core_of_resolved (r : resolved) : core :=
  match r with
  | RSlot _ b => CFrame (fst b) (snd b)
  | RModule _ => CModule
  | RBuiltin => CBuiltin
  | RUnbound => CUnbound
  end.

Definition core_of_binding (x : string) (b : binding) : core :=
  match b with
  | BFrame d _ => CFrame d x
  | BModule _ => CModule
  | BBuiltin => CBuiltin
  | BUnbound => CUnbound
  end.

Definition alg_view (o : list (string * resolved)) : list (string * core) :=
  map (fun p => (fst p, core_of_resolved (snd p))) o.
Definition decl_view (o : list (string * binding)) : list (string * core) :=
  map (fun p => (fst p, core_of_binding (fst p) (snd p))) o.

(* nested induction on scope trees *)
Section SkInd.
Variable P : sk -> Prop.
Hypothesis HU : forall x, P (KUse x).
Hypothesis HS : forall l, Forall P l -> P (KSeq l).
Hypothesis HF : forall ps n b, P b -> P (KFun ps n b).
Hypothesis HC : forall n b, P b -> P (KComp n b).
Fixpoint sk_ind2 (t : sk) : P t :=
  match t with
  | KUse x => HU x
  | KSeq l => HS l ((fix G (l : list sk) : Forall P l :=
                       match l with
                       | [] => Forall_nil P
                       | a :: r => Forall_cons a (sk_ind2 a) (G r)
                       end) l)
  | KFun ps n b => HF ps n b (sk_ind2 b)
  | KComp n b => HC n b (sk_ind2 b)
  end.
End SkInd.

Section Main.
Variable mods : list string.
Variable globals : list string.

Lemma get_name_ok : forall ctx st x r st', Inv ctx st ->
  get_name mods globals st x = (r, st') ->
  Inv ctx st' /\ core_of_resolved r = core_of_binding x (resolve_decl mods globals ctx x).
Proof.
  intros ctx st x r st' H. unfold get_name, resolve_decl.
  pose proof (find_name_ok x (st_locals st) ctx (st_unscopes st) H) as Hf.
  destruct (find_name x (st_locals st)) as [[[[v b] scs'] top]|].
  - destruct Hf as (Hi & Hb & c & Hc & _). intros E. inversion E; subst r st'. rewrite Hc.
    split; [exact Hi|]. cbn. now rewrite Hb.
  - rewrite Hf. destruct (index_of x mods) as [slot|] eqn:Ei.
    + assert (Hm : mem x mods = true) by (apply index_of_mem; eauto). rewrite Hm.
      intros E. inversion E; subst r st'. split; [exact H | reflexivity].
    + assert (Hm : mem x mods = false).
      { destruct (mem x mods) eqn:Em; [|reflexivity].
        apply index_of_mem in Em. destruct Em as [i Hi]. congruence. }
      rewrite Hm. intros E. inversion E; subst r st'. split; [exact H|].
      destruct (mem x globals); reflexivity.
Qed.

Lemma seq_run_cons : forall (S O : Type) (f : sk -> S -> list O * S) t r st,
  seq_run f (t :: r) st =
  let '(o1, st1) := f t st in let '(o2, st2) := seq_run f r st1 in (o1 ++ o2, st2).
Proof. reflexivity. Qed.

(* the simulation: in any lexical context, from any state related to it *)
Lemma sim : forall t ctx st o st', Inv ctx st ->
  a_sk mods globals t st = (o, st') ->
  Inv ctx st' /\ alg_view o = decl_view (d_sk mods globals ctx t).
Proof.
  induction t as [x | l IHl | ps n b IHb | n b IHb] using sk_ind2; intros ctx st o st' H E.
  - cbn [a_sk] in E. destruct (get_name mods globals st x) as [r st1] eqn:Eg.
    inversion E; subst o st'. apply get_name_ok with (ctx := ctx) in Eg; [|exact H].
    destruct Eg as [Hi Hc]. split; [exact Hi|]. cbn. now rewrite Hc.
  - cbn [a_sk d_sk] in *. revert st o st' H E.
    induction IHl as [|t l Ht _ IH]; intros st o st' H E.
    + cbn in E. inversion E; subst. split; [exact H | reflexivity].
    + rewrite seq_run_cons in E.
      destruct (a_sk mods globals t st) as [o1 st1] eqn:E1.
      destruct (seq_run (a_sk mods globals) l st1) as [o2 st2] eqn:E2.
      inversion E; subst o st'.
      destruct (Ht _ _ _ _ H E1) as [H1 V1]. destruct (IH _ _ _ H1 E2) as [H2 V2].
      split; [exact H2|]. cbn [flat_map]. unfold alg_view, decl_view in *.
      rewrite !map_app. now rewrite V1, V2.
  - cbn [a_sk d_sk] in *.
    destruct (a_sk mods globals b (enter_def st (init_scope (depth st) ps n))) as [o2 st2] eqn:E2.
    inversion E; subst o st'.
    destruct (IHb _ _ _ _ (enter_def_ok ctx st ps n H) E2) as [H2 V2].
    split; [eapply exit_def_ok; eauto | exact V2].
  - cbn [a_sk d_sk] in *.
    destruct (a_sk mods globals b (add_compr st n)) as [o2 st2] eqn:E2.
    inversion E; subst o st'.
    destruct (IHb _ _ _ _ (add_compr_ok ctx st n H) E2) as [H2 V2].
    split; [eapply exit_compr_ok; eauto | exact V2].
Qed.

Theorem resolve_alg_eq_decl_tree : forall t,
  alg_view (fst (a_sk mods globals t init_state)) = decl_view (d_sk mods globals [] t).
Proof.
  intros t. destruct (a_sk mods globals t init_state) as [o st'] eqn:E.
  exact (proj2 (sim t [] init_state o st' Inv_init E)).
Qed.

End Main.

(* For every program and every identifier use (uses listed in traversal order), the resolver of scope.rs
   returns the binding site the lexical rule gives. *)
Theorem resolve_alg_eq_decl : forall globals prog,
  alg_view (fst (resolve_prog globals prog)) = decl_view (resolve_prog_decl globals prog).
Proof. intros. apply resolve_alg_eq_decl_tree. Qed.

(* ------------------------------------------------------------------------------------------------ *)
(* the first pass: collect_defines = the names the reference semantics makes local (Syntax.body_names) *)
(* ------------------------------------------------------------------------------------------------ *)

Definition collect_ok {A : Type} (f : A -> list string -> list string) (names : A -> list string) (a : A) : Prop :=
  forall acc, (exists e, f a acc = acc ++ e) /\
              (forall x, In x (f a acc) <-> In x acc \/ In x (names a)) /\
              (NoDup acc -> NoDup (f a acc)).

Lemma fold_collect_ok : forall (A : Type) f names (l : list A),
  Forall (collect_ok f names) l ->
  forall acc, (exists e, fold_left (fun a0 a => f a a0) l acc = acc ++ e) /\
              (forall x, In x (fold_left (fun a0 a => f a a0) l acc) <-> In x acc \/ In x (flat_map names l)) /\
              (NoDup acc -> NoDup (fold_left (fun a0 a => f a a0) l acc)).
Proof.
  intros A f names l H. induction H as [|a l Ha _ IH]; intros acc; cbn [fold_left flat_map].
  - split; [exists []; now rewrite app_nil_r|]. split; [cbn; tauto | auto].
  - destruct (Ha acc) as ((e1 & E1) & M1 & N1). destruct (IH (f a acc)) as ((e2 & E2) & M2 & N2).
    split; [exists (e1 ++ e2); rewrite E2, E1; now rewrite app_assoc|].
    split; [|auto].
    intros x. rewrite M2, M1, in_app_iff. tauto.
Qed.

Lemma add_def_ok : forall y, collect_ok (fun (_ : unit) acc => add_def y acc) (fun _ => [y]) tt.
Proof.
  intros y acc. split; [|split].
  - unfold add_def. destruct (mem y acc); [exists []; now rewrite app_nil_r | eauto].
  - intros x. rewrite add_def_In. cbn. intuition.
  - apply add_def_NoDup.
Qed.

Section TargetInd.
Variable P : target -> Prop.
Hypothesis HV : forall x, P (TVar x).
Hypothesis HT : forall ts, Forall P ts -> P (TTuple ts).
Hypothesis HI : forall a i, P (TIndex a i).
Fixpoint target_ind2 (t : target) : P t :=
  match t with
  | TVar x => HV x
  | TTuple ts => HT ts ((fix G (l : list target) : Forall P l :=
                           match l with [] => Forall_nil P | a :: r => Forall_cons a (target_ind2 a) (G r) end) ts)
  | TIndex a i => HI a i
  end.
End TargetInd.

Lemma collect_target_ok : forall t, collect_ok collect_target target_names t.
Proof.
  induction t as [x | ts IH | a i] using target_ind2; intros acc; cbn [collect_target target_names].
  - apply (add_def_ok x acc).
  - apply (fold_collect_ok _ collect_target target_names ts IH acc).
  - split; [exists []; now rewrite app_nil_r|]. split; [cbn; tauto | auto].
Qed.

Section StmtInd.
Variable P : stmt -> Prop.
Hypothesis H_if : forall ln c th el, Forall P th -> Forall P el -> P (SIf ln c th el).
Hypothesis H_for : forall ln t e body, Forall P body -> P (SFor ln t e body).
Hypothesis H_other : forall s,
  match s with SIf _ _ _ _ | SFor _ _ _ _ => False | _ => True end -> P s.
Fixpoint stmt_ind2 (s : stmt) : P s :=
  let G := fix G (l : list stmt) : Forall P l :=
             match l with [] => Forall_nil P | a :: r => Forall_cons a (stmt_ind2 a) (G r) end in
  match s with
  | SIf ln c th el => H_if ln c th el (G th) (G el)
  | SFor ln t e body => H_for ln t e body (G body)
  | SExpr ln e => H_other (SExpr ln e) I
  | SAssign ln t e => H_other (SAssign ln t e) I
  | SAug ln t o e => H_other (SAug ln t o e) I
  | SBreak ln => H_other (SBreak ln) I
  | SContinue ln => H_other (SContinue ln) I
  | SReturn ln e => H_other (SReturn ln e) I
  | SPass ln => H_other (SPass ln) I
  | SDef ln name ps body => H_other (SDef ln name ps body) I
  end.
End StmtInd.

Lemma collect_stmt_ok : forall s, collect_ok collect_stmt stmt_names s.
Proof.
  induction s as [ln c th el IHth IHel | ln t e body IHb | s Hs] using stmt_ind2; intros acc.
  - cbn [collect_stmt stmt_names].
    destruct (fold_collect_ok _ collect_stmt stmt_names th IHth acc) as ((e1 & E1) & M1 & N1).
    destruct (fold_collect_ok _ collect_stmt stmt_names el IHel
                (fold_left (fun a s' => collect_stmt s' a) th acc)) as ((e2 & E2) & M2 & N2).
    split; [exists (e1 ++ e2); rewrite E2, E1; now rewrite app_assoc|]. split; [|auto].
    intros x. rewrite M2, M1, in_app_iff. tauto.
  - cbn [collect_stmt stmt_names].
    destruct (collect_target_ok t acc) as ((e1 & E1) & M1 & N1).
    destruct (fold_collect_ok _ collect_stmt stmt_names body IHb (collect_target t acc))
      as ((e2 & E2) & M2 & N2).
    split; [exists (e1 ++ e2); rewrite E2, E1; now rewrite app_assoc|]. split; [|auto].
    intros x. rewrite M2, M1, in_app_iff. tauto.
  - destruct s; try contradiction; cbn [collect_stmt stmt_names];
      try (split; [exists []; now rewrite app_nil_r|]; split; [cbn; tauto | auto]).
    + apply collect_target_ok.
    + apply collect_target_ok.
    + apply (add_def_ok name acc).
Qed.

Lemma collect_stmts_ok : forall ss acc,
  (exists e, collect_stmts ss acc = acc ++ e) /\
  (forall x, In x (collect_stmts ss acc) <-> In x acc \/ In x (body_names ss)) /\
  (NoDup acc -> NoDup (collect_stmts ss acc)).
Proof.
  intros ss acc. unfold collect_stmts, body_names.
  apply (fold_collect_ok _ collect_stmt stmt_names ss). apply Forall_forall. intros s _. apply collect_stmt_ok.
Qed.

(* the names of a def scope are exactly the parameters and Syntax.body_names of the body (the frame the
   reference semantics allocates in `call`), and the module names are body_names of the program *)
Theorem def_scope_names_spec : forall ps body x,
  In x (def_scope_names ps body) <-> In x (map param_name ps) \/ In x (body_names body).
Proof.
  intros. unfold def_scope_names. destruct (collect_stmts_ok body (dedup (map param_name ps))) as (_ & M & _).
  rewrite M, dedup_In. tauto.
Qed.

Theorem module_names_spec : forall prog x, In x (module_names prog) <-> In x (body_names prog).
Proof.
  intros. unfold module_names. destruct (collect_stmts_ok prog []) as (_ & M & _). rewrite M. cbn. tauto.
Qed.

(* ------------------------------------------------------------------------------------------------ *)
(* parameter slots: the first param_count slots, in order                                           *)
(* ------------------------------------------------------------------------------------------------ *)

Lemma fold_add_def_nodup_id : forall l acc, NoDup (acc ++ l) ->
  fold_left (fun a y => add_def y a) l acc = acc ++ l.
Proof.
  induction l as [|a l IH]; intros acc H; cbn [fold_left]; [now rewrite app_nil_r|].
  assert (Ha : mem a acc = false).
  { apply mem_false. intros Hin. apply NoDup_remove_2 in H. apply H. apply in_or_app. now left. }
  unfold add_def at 2. rewrite Ha. rewrite IH; rewrite <- app_assoc; [reflexivity | exact H].
Qed.

Lemma dedup_nodup_id : forall l, NoDup l -> dedup l = l.
Proof. intros l H. unfold dedup. now rewrite fold_add_def_nodup_id. Qed.

Lemma fold_add_name_used : forall d l sc,
  sn_used (fold_left (fun sc y => fst (add_name sc y (d, y))) l sc) = sn_used sc ++ l /\
  sn_pcount (fold_left (fun sc y => fst (add_name sc y (d, y))) l sc) = sn_pcount sc.
Proof.
  intros d. induction l as [|a l IH]; intros sc; cbn [fold_left]; [now rewrite app_nil_r|].
  destruct (IH (fst (add_name sc a (d, a)))) as [I1 I2]. rewrite I1, I2. cbn. now rewrite <- app_assoc.
Qed.

Definition slots_named (sc : scope_names) : Prop :=
  forall x s b, view_of sc x = Some (s, b) -> nth_error (sn_used sc) s = Some x.

Lemma add_name_slots_named : forall sc y b, slots_named sc -> slots_named (fst (add_name sc y b)).
Proof.
  intros sc y b H x s b0. unfold view_of, add_name, mp_set. cbn [fst sn_mp sn_used mp_get].
  destruct (String.eqb x y) eqn:E.
  - apply String.eqb_eq in E. subst y. intros Hs. inversion Hs; subst.
    rewrite nth_error_app2 by lia. now rewrite Nat.sub_diag.
  - intros Hs. apply H in Hs. rewrite nth_error_app1; [exact Hs|].
    apply nth_error_Some. congruence.
Qed.

Lemma init_scope_slots_named : forall d ps names, slots_named (init_scope d ps names).
Proof.
  intros d ps names. unfold init_scope.
  assert (H0 : slots_named (mkScope (length ps) [] [] [])) by (intros x s b H; discriminate).
  revert H0. generalize (mkScope (length ps) [] [] []). induction (dedup names) as [|a l IH]; intros sc H0.
  - exact H0.
  - cbn [fold_left]. apply IH. now apply add_name_slots_named.
Qed.

(* collect_defines_in_def, "subtle invariant": for a def/lambda whose parameter names are distinct (the parser
   guarantees it), the scope starts with one slot per parameter, in order; parameter i is slot i *)
Theorem param_slots_first : forall d ps body,
  NoDup (map param_name ps) ->
  let sc := init_scope d (map param_name ps) (def_scope_names ps body) in
  sn_pcount sc = length ps /\
  firstn (length ps) (sn_used sc) = map param_name ps /\
  (forall i x, nth_error (map param_name ps) i = Some x -> view_of sc x = Some (i, (d, x))).
Proof.
  intros d ps body Hnd sc.
  destruct (collect_stmts_ok body (dedup (map param_name ps))) as ((e & He) & _ & Hn).
  assert (Hnames : def_scope_names ps body = map param_name ps ++ e).
  { unfold def_scope_names. rewrite He. now rewrite dedup_nodup_id. }
  assert (Hnd2 : NoDup (def_scope_names ps body)).
  { unfold def_scope_names. apply Hn. apply dedup_NoDup. }
  assert (Hused : sn_used sc = map param_name ps ++ e).
  { subst sc. unfold init_scope. rewrite (proj1 (fold_add_name_used _ _ _)). cbn [sn_used app].
    rewrite dedup_nodup_id by exact Hnd2. exact Hnames. }
  split; [|split].
  - subst sc. unfold init_scope. rewrite (proj2 (fold_add_name_used _ _ _)). cbn. apply map_length.
  - rewrite Hused. rewrite <- (map_length param_name ps) at 1.
    rewrite firstn_app, Nat.sub_diag, firstn_all. cbn. apply app_nil_r.
  - intros i x Hi.
    assert (Hm : mem x (dedup (def_scope_names ps body)) = true).
    { rewrite mem_dedup. apply mem_In. rewrite Hnames. apply in_or_app. left. eapply nth_error_In; eauto. }
    destruct (fold_add_name_view d (dedup (def_scope_names ps body))
                (mkScope (length (map param_name ps)) [] [] []) x) as [H1 _].
    destruct (H1 Hm) as [s Hs]. fold (init_scope d (map param_name ps) (def_scope_names ps body)) in Hs.
    fold sc in Hs. rewrite Hs. f_equal. f_equal.
    pose proof (init_scope_slots_named d (map param_name ps) (def_scope_names ps body) x s _ Hs) as Hn1.
    fold sc in Hn1. rewrite Hused in Hn1.
    assert (Hn2 : nth_error (map param_name ps ++ e) i = Some x).
    { rewrite nth_error_app1; [exact Hi|]. apply nth_error_Some. congruence. }
    rewrite <- Hnames in Hn1, Hn2.
    eapply (proj1 (NoDup_nth_error _) Hnd2); [|congruence].
    apply nth_error_Some. congruence.
Qed.

(* ------------------------------------------------------------------------------------------------ *)
(* captured marks                                                                                   *)
(* ------------------------------------------------------------------------------------------------ *)
Section Captured.
Variable mods : list string.
Variable globals : list string.

Lemma get_name_cap : forall ctx st x r st' b, Inv ctx st ->
  get_name mods globals st x = (r, st') ->
  In (CapLocal b) (st_captured st') ->
  In (CapLocal b) (st_captured st) \/ (snd b = x /\ resolve_decl mods globals ctx x = BFrame (fst b) true).
Proof.
  intros ctx st x r st' b H. unfold get_name, resolve_decl.
  pose proof (find_name_ok x (st_locals st) ctx (st_unscopes st) H) as Hf.
  destruct (find_name x (st_locals st)) as [[[[v b0] scs'] top]|].
  - destruct Hf as (_ & Hb & c & Hc & Ht). intros E. inversion E; subst r st'. cbn [st_captured].
    destruct top; [auto|]. rewrite in_app_iff. cbn [In]. intros [Hin|[Hin|[]]]; [auto|].
    inversion Hin; subst b0. right. split; [exact Hb|]. now rewrite Hc, (Ht eq_refl).
  - destruct (index_of x mods).
    + intros E. inversion E; subst r st'. cbn [st_captured].
      destruct (Nat.ltb 1 (length (st_locals st))); [|auto].
      rewrite in_app_iff. cbn [In]. intros [Hin|[Hin|[]]]; [auto | discriminate].
    + intros E. inversion E; subst. auto.
Qed.

Lemma exit_def_captured : forall st, st_captured (exit_def st) = st_captured st.
Proof. intros st. unfold exit_def. destruct (st_locals st); reflexivity. Qed.

Lemma exit_compr_captured : forall st, st_captured (exit_compr st) = st_captured st.
Proof. intros st. unfold exit_compr. destruct (st_locals st); [reflexivity|]. destruct (st_unscopes st); reflexivity. Qed.

Lemma add_compr_captured : forall st n, st_captured (add_compr st n) = st_captured st.
Proof.
  intros st n. unfold add_compr. destruct (st_locals st); [reflexivity|].
  cbv zeta. match goal with |- context [fold_left ?f ?l ?a] => destruct (fold_left f l a) end. reflexivity.
Qed.

(* a binding is marked captured only because of a use, inside a nested def/lambda, that the lexical rule
   resolves to that binding *)
Lemma cap_sound : forall t ctx st o st' b, Inv ctx st ->
  a_sk mods globals t st = (o, st') ->
  In (CapLocal b) (st_captured st') ->
  In (CapLocal b) (st_captured st) \/ In (snd b, BFrame (fst b) true) (d_sk mods globals ctx t).
Proof.
  induction t as [x | l IHl | ps n body IHb | n body IHb] using sk_ind2; intros ctx st o st' b H E Hin.
  - cbn [a_sk] in E. destruct (get_name mods globals st x) as [r st1] eqn:Eg.
    inversion E; subst o st'.
    destruct (get_name_cap _ _ _ _ _ _ H Eg Hin) as [?|[Hx Hr]]; [auto|].
    right. cbn [d_sk]. left. now rewrite Hx, Hr.
  - cbn [a_sk d_sk] in *. revert st o st' H E Hin.
    induction IHl as [|t l Ht _ IH]; intros st o st' H E Hin.
    + cbn in E. inversion E; subst. auto.
    + rewrite seq_run_cons in E.
      destruct (a_sk mods globals t st) as [o1 st1] eqn:E1.
      destruct (seq_run (a_sk mods globals) l st1) as [o2 st2] eqn:E2.
      inversion E; subst o st'.
      destruct (sim mods globals _ _ _ _ _ H E1) as [H1 _].
      cbn [flat_map]. rewrite in_app_iff.
      destruct (IH _ _ _ H1 E2 Hin) as [Hc|Hc]; [|auto].
      destruct (Ht _ _ _ _ _ H E1 Hc); auto.
  - cbn [a_sk d_sk] in *.
    destruct (a_sk mods globals body (enter_def st (init_scope (depth st) ps n))) as [o2 st2] eqn:E2.
    inversion E; subst o st'. rewrite exit_def_captured in Hin.
    exact (IHb _ _ _ _ _ (enter_def_ok ctx st ps n H) E2 Hin).
  - cbn [a_sk d_sk] in *.
    destruct (a_sk mods globals body (add_compr st n)) as [o2 st2] eqn:E2.
    inversion E; subst o st'. rewrite exit_compr_captured in Hin.
    destruct (IHb _ _ _ _ _ (add_compr_ok ctx st n H) E2 Hin) as [Hc|Hc]; [|auto].
    rewrite add_compr_captured in Hc. auto.
Qed.

End Captured.

Theorem captured_only_if_nested_use : forall globals prog b,
  In (CapLocal b) (st_captured (snd (resolve_prog globals prog))) ->
  In (snd b, BFrame (fst b) true) (resolve_prog_decl globals prog).
Proof.
  intros globals prog b Hin. unfold resolve_prog in Hin.
  destruct (a_sk (module_names prog) globals (sk_prog prog) init_state) as [o st'] eqn:E.
  destruct (cap_sound _ _ _ _ _ _ _ b Inv_init E Hin) as [H|H]; [destruct H | exact H].
Qed.

(* ------------------------------------------------------------------------------------------------ *)
(* examples (tests, evaluated by the kernel)                                                        *)
(* ------------------------------------------------------------------------------------------------ *)
Local Open Scope string_scope.

(* def f(xs):
       for i in xs:
           def g(): return i + y        # captures the loop variable i and the later-assigned y
       y = 1
       return [i for i in i]            # first iterable: f's i; element: the comprehension's i
   f(len) *)
Definition ex_prog1 : list stmt :=
  [SDef 1%Z "f" [PNormal "xs" None]
     [SFor 2%Z (TVar "i") (EVar "xs")
        [SDef 3%Z "g" [] [SReturn 4%Z (Some (EBin BAdd (EVar "i") (EVar "y")))]];
      SAssign 5%Z (TVar "y") (EInt 1%Z);
      SReturn 6%Z (Some (EListComp (EVar "i") [CFor (TVar "i") (EVar "i")]))];
   SExpr 7%Z (ECall (EVar "f") [EVar "len"] [] None None)].

Example ex1_alg :
  fst (resolve_prog ["len"] ex_prog1) =
  [("xs", RSlot 0 (0, "xs")); ("i", RSlot 0 (0, "i")); ("y", RSlot 1 (0, "y"));
   ("i", RSlot 1 (0, "i")); ("i", RSlot 4 (1, "i")); ("f", RModule 0); ("len", RBuiltin)]
  /\ st_captured (snd (resolve_prog ["len"] ex_prog1)) = [CapLocal (0, "i"); CapLocal (0, "y")].
Proof. vm_compute. split; reflexivity. Qed.

Example ex1_decl :
  resolve_prog_decl ["len"] ex_prog1 =
  [("xs", BFrame 0 false); ("i", BFrame 0 true); ("y", BFrame 0 true); ("i", BFrame 0 false);
   ("i", BFrame 1 false); ("f", BModule false); ("len", BBuiltin)].
Proof. vm_compute. reflexivity. Qed.

(* def f(x): return [(lambda: x) for x in x] + [x]
   the comprehension variable shadows the parameter inside the comprehension only; the lambda captures the
   comprehension's x (slot 1 of f, copied to slot 0 of the lambda) *)
Definition ex_prog2 : list stmt :=
  [SDef 1%Z "f" [PNormal "x" None]
     [SReturn 2%Z (Some (EBin BAdd (EListComp (ELambda [] (EVar "x")) [CFor (TVar "x") (EVar "x")])
                                 (EList [EVar "x"])))]].

Example ex2_alg :
  let r := resolve_prog [] ex_prog2 in
  fst r = [("x", RSlot 0 (0, "x")); ("x", RSlot 0 (1, "x")); ("x", RSlot 0 (0, "x"))] /\
  st_captured (snd r) = [CapLocal (1, "x")] /\
  map sn_used (st_finished (snd r)) = [["x"]; ["x"; "x"]] /\
  map sn_parent (st_finished (snd r)) = [[(1, 0)]; []].
Proof. vm_compute. repeat split; reflexivity. Qed.

Example ex2_decl :
  resolve_prog_decl [] ex_prog2 = [("x", BFrame 0 false); ("x", BFrame 1 true); ("x", BFrame 0 false)].
Proof. vm_compute. reflexivity. Qed.

(* def g():
       y = 1
       def f(): return lambda: y
   copy_parent chain: y is copied into f's scope and from there into the lambda's scope *)
Definition ex_prog3 : list stmt :=
  [SDef 1%Z "g" [] [SAssign 2%Z (TVar "y") (EInt 1%Z);
                  SDef 3%Z "f" [] [SReturn 4%Z (Some (ELambda [] (EVar "y")))]]].

Example ex3_alg :
  let r := resolve_prog [] ex_prog3 in
  fst r = [("y", RSlot 0 (0, "y"))] /\ st_captured (snd r) = [CapLocal (0, "y")] /\
  map sn_parent (st_finished (snd r)) = [[(0, 0)]; [(0, 0)]; []].
Proof. vm_compute. repeat split; reflexivity. Qed.

(* x = [7]; w = [[1]]; r = [0 for x[0] in [5] for x in w]
   scope.rs resolves the index expression of the FIRST for target before enter_compr: `x` in `x[0]` is the
   module's x (the real evaluator indeed stores 5 into the module's list), whereas Core/Sem.v (and Python)
   evaluate that target inside the comprehension frame, where x is the still unassigned comprehension
   variable.  The scope tree follows scope.rs. *)
Definition ex_prog4 : list stmt :=
  [SAssign 1%Z (TVar "x") (EList [EInt 7%Z]); SAssign 2%Z (TVar "w") (EList [EList [EInt 1%Z]]);
   SAssign 3%Z (TVar "r") (EListComp (EInt 0%Z) [CFor (TIndex (EVar "x") (EInt 0%Z)) (EList [EInt 5%Z]);
                                            CFor (TVar "x") (EVar "w")])].

Example ex4_first_target_outside :
  fst (resolve_prog [] ex_prog4) = [("x", RModule 0); ("w", RModule 1)].
Proof. vm_compute. reflexivity. Qed.
