(* Name resolution: the declarative (lexical) rule used by the reference semantics (Core/Sem.v builds its
   environments exactly this way: `new ++ en` for a call frame with the parameters and body_names, and for a
   comprehension with all its clause variables; the first iterable is evaluated in `en`).

   For an identifier use whose enclosing scope frames are `ctx` (innermost first; a frame is a def/lambda with
   the names it binds - parameters and names assigned in its body - or a comprehension with its variables):
     - the innermost frame that binds the name, identified by its depth counted from the outermost frame,
       with a flag telling whether a def/lambda boundary lies between the use and the binder (the use is then a
       capture from a nested function);
     - otherwise the module, if the module assigns the name;
     - otherwise a builtin, otherwise unbound.
   No state, no slots. *)
From Coq Require Import String List Bool.
From SV Require Import Scope.Tree.
Import ListNotations.

Inductive frame := FFun (names : list string) | FComp (names : list string).
Definition frame_names (f : frame) := match f with FFun n | FComp n => n end.
Definition is_fun (f : frame) := match f with FFun _ => true | FComp _ => false end.

Inductive binding :=
| BFrame (depth : nat) (crossed : bool)
| BModule (crossed : bool)
| BBuiltin
| BUnbound.

Fixpoint lookup (ctx : list frame) (x : string) : option (nat * bool) :=
  match ctx with
  | [] => None
  | f :: outer =>
      if mem x (frame_names f) then Some (length outer, false)
      else match lookup outer x with
           | Some (d, c) => Some (d, c || is_fun f)
           | None => None
           end
  end.

Definition in_function (ctx : list frame) : bool := existsb is_fun ctx.

Section Decl.
Variable mods : list string.
Variable globals : list string.

Definition resolve_decl (ctx : list frame) (x : string) : binding :=
  match lookup ctx x with
  | Some (d, c) => BFrame d c
  | None => if mem x mods then BModule (in_function ctx)
            else if mem x globals then BBuiltin else BUnbound
  end.

Fixpoint d_sk (ctx : list frame) (t : sk) : list (string * binding) :=
  match t with
  | KUse x => [(x, resolve_decl ctx x)]
  | KSeq l => flat_map (d_sk ctx) l
  | KFun _ names body => d_sk (FFun names :: ctx) body
  | KComp names body => d_sk (FComp names :: ctx) body
  end.
End Decl.

Definition resolve_prog_decl (globals : list string) (prog : list Core.Syntax.stmt) : list (string * binding) :=
  d_sk (module_names prog) globals [] (sk_prog prog).
