(* C01, slot resolution (the step between scope.rs and the evaluator): the SLOT-RESOLVED program.
   Every identifier of a MiniStar program is replaced by what the compiler of starlark-rust turns it into
   (eval/compiler/scope.rs `ResolvedIdent`, eval/compiler/expr.rs `ExprCompiled::{Local,LocalCaptured,Module}`,
   eval/runtime/slots.rs `LocalSlotId` / `LocalCapturedSlotId`, environment/slots.rs `ModuleSlotId`):
     SModule j     a slot of the module            (module variables, in definition order)
     SLocal i      a slot of the current frame     (holds the value)
     SCaptured i   a slot of the current frame     (holds a cell, `value_captured.rs`; the variable is read by
                                                    a nested def/lambda)
     SBuiltin x    a global of the `Globals`
   and every def/lambda carries its `DefInfo`: the names of its scope in slot order (parameters first), the
   number of slots, the parameter slots to wrap into cells on entry (`parameter_captures`) and the
   (parent slot, child slot) pairs copied at def time / call time (`ScopeNames::parent`).

   `resolve_prog` is a compositional resolver.  The classification of an identifier follows the lexical rule of
   Scope/Spec.v (innermost binding frame, else module, else builtin, else an error): comprehension variables are
   scoped slots of the enclosing function's frame (`add_scoped`), a fresh slot per comprehension (never reused);
   a variable of an enclosing function is reached through a copied cell.  The resolver VALIDATES what the
   free-variable analysis computed: an identifier that is a local of an enclosing function but was not copied,
   or a copied variable whose parent slot is not a cell slot, makes the resolver return None
   (so every theorem about `resolve_prog p = Some sp` holds without trusting the analysis).
   Slot NUMBERS: own names 0..n-1 in `def_scope_names` order (as scope.rs), then the copied parent variables,
   then the comprehension variables; scope.rs interleaves the last two groups in order of first use - an
   injective renumbering of the same slots.

   With `strict = true` the resolver refuses programs in which a COMPREHENSION variable is captured by a lambda
   (see SlotSem.v: the evaluator keeps one cell per frame slot, so the cell of such a variable is shared by all
   evaluations of the comprehension in one activation - an observable deviation from the reference semantics).
   No proofs in this file. *)
From Coq Require Import ZArith String List Bool Arith.
From SV Require Import Core.Syntax Core.Values Core.Sem Scope.Tree.
Import ListNotations.
Local Open Scope nat_scope.

Inductive svar :=
| SModule (slot : nat) | SLocal (slot : nat) | SCaptured (slot : nat) | SBuiltin (name : string).

(* DefInfo (eval/compiler/def.rs) *)
Record definfo := {
  di_names : list string;            (* `used`: own names of the scope by slot, parameters first *)
  di_nslots : nat;                   (* local_count *)
  di_wrap : list nat;                (* parameter_captures *)
  di_parents : list (nat * nat)      (* parent: (parent slot, child slot) *)
}.

Inductive sexpr :=
| XNone | XBool (b : bool) | XInt (z : Z) | XStr (s : string)
| XVar (v : svar)
| XTuple (es : list sexpr) | XList (es : list sexpr) | XDict (kvs : list (sexpr * sexpr))
| XUn (o : unop) (e : sexpr) | XBin (o : binop) (a b : sexpr)
| XAnd (a b : sexpr) | XOr (a b : sexpr) | XIf (c t f : sexpr)
| XIndex (a i : sexpr) | XSlice (a : sexpr) (lo hi st : option sexpr)
| XCall (f : sexpr) (args : list sexpr) (kwargs : list (string * sexpr)) (star dstar : option sexpr)
| XMeth (recv : sexpr) (m : string) (args : list sexpr) (kwargs : list (string * sexpr))
| XLambda (ps : list sparam) (info : definfo) (body : sexpr)
| XListComp (vars : list (nat * bool)) (e : sexpr) (cls : list sclause)       (* vars: (slot, captured) of its variables *)
| XDictComp (vars : list (nat * bool)) (k v : sexpr) (cls : list sclause)
with sclause := XCFor (t : starget) (e : sexpr) | XCIf (e : sexpr)
with sparam := SPNormal (x : string) (d : option sexpr) | SPArgs (x : string) | SPKwargs (x : string)
with starget := XTVar (v : svar) | XTTuple (ts : list starget) | XTIndex (a i : sexpr).

Inductive sstmt :=
| YExpr (ln : Z) (e : sexpr)
| YAssign (ln : Z) (t : starget) (e : sexpr)
| YAug (ln : Z) (t : starget) (o : binop) (e : sexpr)
| YIf (ln : Z) (c : sexpr) (th el : list sstmt)
| YFor (ln : Z) (t : starget) (e : sexpr) (body : list sstmt)
| YBreak (ln : Z) | YContinue (ln : Z) | YReturn (ln : Z) (e : option sexpr) | YPass (ln : Z)
| YDef (ln : Z) (v : svar) (name : string) (ps : list sparam) (info : definfo) (body : list sstmt).

Definition sstmt_line (s : sstmt) : Z :=
  match s with
  | YExpr l _ | YAssign l _ _ | YAug l _ _ _ | YIf l _ _ _ | YFor l _ _ _ | YBreak l | YContinue l
  | YReturn l _ | YPass l | YDef l _ _ _ _ _ => l
  end.

Inductive sbody := SBStmts (ss : list sstmt) | SBExpr (e : sexpr).

Record slot_prog := {
  sp_mods : list string;             (* module slot -> name *)
  sp_nslots : nat;                   (* slots of the module's own frame (module-level comprehension variables) *)
  sp_body : list sstmt
}.

(* the parameter list as the argument binder sees it (names and kinds; defaults are values of the closure) *)
Definition param_of (p : sparam) : param :=
  match p with SPNormal x _ => PNormal x None | SPArgs x => PArgs x | SPKwargs x => PKwargs x end.

(* ---- small list helpers ------------------------------------------------------------------------------------ *)
Fixpoint sassoc {V : Type} (x : string) (l : list (string * V)) : option V :=
  match l with
  | [] => None
  | (y, v) :: r => if String.eqb x y then Some v else sassoc x r
  end.

Fixpoint sidx (x : string) (l : list string) : option nat :=
  match l with
  | [] => None
  | y :: r => if String.eqb x y then Some 0 else option_map S (sidx x r)
  end.

Definition remove_all (bs l : list string) : list string := filter (fun x => negb (mem x bs)) l.

Definition indexed {A : Type} (k : nat) (l : list A) : list (nat * A) := combine (seq k (length l)) l.

Section OMap.
  Context {A B : Type}.
  Variable f : A -> option B.
  Fixpoint omap (l : list A) : option (list B) :=
    match l with
    | [] => Some []
    | x :: r => match f x with
                | Some y => match omap r with Some ys => Some (y :: ys) | None => None end
                | None => None end
    end.
End OMap.

(* the same, threading the counter of allocated slots *)
Section OMapS.
  Context {A B : Type}.
  Variable f : nat -> A -> option (B * nat).
  Fixpoint omapS (k : nat) (l : list A) : option (list B * nat) :=
    match l with
    | [] => Some ([], k)
    | x :: r => match f k x with
                | Some (y, k1) => match omapS k1 r with Some (ys, k2) => Some (y :: ys, k2) | None => None end
                | None => None end
    end.
End OMapS.

(* ---- free variables (first pass of the compiler: which bindings are read by nested functions) ---------------- *)
(* fvg true e  = names read in e that e does not bind itself (lambda parameters, comprehension variables)
   fvg false e = the same, but only the reads that happen inside a lambda nested in e: the reads that CAPTURE *)
Fixpoint fvg (direct : bool) (e : expr) : list string :=
  match e with
  | ENone | EBool _ | EInt _ | EStr _ => []
  | EVar x => if direct then [x] else []
  | ETuple es | EList es => flat_map (fvg direct) es
  | EDict kvs => flat_map (fun kv => fvg direct (fst kv) ++ fvg direct (snd kv)) kvs
  | EUn _ a => fvg direct a
  | EBin _ a b | EAnd a b | EOr a b | EIndex a b => fvg direct a ++ fvg direct b
  | EIf c t f => fvg direct c ++ fvg direct t ++ fvg direct f
  | ESlice a lo hi st =>
      fvg direct a ++ match lo with Some x => fvg direct x | None => [] end
                   ++ match hi with Some x => fvg direct x | None => [] end
                   ++ match st with Some x => fvg direct x | None => [] end
  | ECall f args kwargs star dstar =>
      fvg direct f ++ flat_map (fvg direct) args ++ flat_map (fun kv => fvg direct (snd kv)) kwargs
        ++ match star with Some x => fvg direct x | None => [] end
        ++ match dstar with Some x => fvg direct x | None => [] end
  | EMeth r _ args kwargs =>
      fvg direct r ++ flat_map (fvg direct) args ++ flat_map (fun kv => fvg direct (snd kv)) kwargs
  | ELambda ps body =>
      flat_map (fvp direct) ps ++ remove_all (map param_name ps) (fvg true body)
  | EListComp e cls =>
      match cls with
      | CFor t0 e0 :: r =>
          fvg direct e0 ++ remove_all (clause_names cls) (fvt direct t0 ++ flat_map (fvc direct) r ++ fvg direct e)
      | _ => remove_all (clause_names cls) (flat_map (fvc direct) cls ++ fvg direct e)
      end
  | EDictComp k v cls =>
      match cls with
      | CFor t0 e0 :: r =>
          fvg direct e0 ++ remove_all (clause_names cls)
                             (fvt direct t0 ++ flat_map (fvc direct) r ++ fvg direct k ++ fvg direct v)
      | _ => remove_all (clause_names cls) (flat_map (fvc direct) cls ++ fvg direct k ++ fvg direct v)
      end
  end
with fvc (direct : bool) (c : clause) : list string :=
  match c with CFor t e => fvg direct e ++ fvt direct t | CIf e => fvg direct e end
with fvp (direct : bool) (p : param) : list string :=
  match p with PNormal _ (Some d) => fvg direct d | _ => [] end
with fvt (direct : bool) (t : target) : list string :=
  match t with
  | TVar _ => []
  | TTuple ts => flat_map (fvt direct) ts
  | TIndex a i => fvg direct a ++ fvg direct i
  end.

Definition fvo (direct : bool) (o : option expr) : list string :=
  match o with Some e => fvg direct e | None => [] end.

Fixpoint fvs (direct : bool) (s : stmt) : list string :=
  match s with
  | SExpr _ e => fvg direct e
  | SAssign _ t e => fvt direct t ++ fvg direct e
  | SAug _ t _ e => (match t with TVar x => if direct then [x] else [] | _ => fvt direct t end) ++ fvg direct e
  | SIf _ c th el => fvg direct c ++ flat_map (fvs direct) th ++ flat_map (fvs direct) el
  | SFor _ t e body => fvt direct t ++ fvg direct e ++ flat_map (fvs direct) body
  | SReturn _ (Some e) => fvg direct e
  | SDef _ _ ps body =>
      flat_map (fvp direct) ps ++ remove_all (def_scope_names ps body) (flat_map (fvs true) body)
  | _ => []
  end.

(* ---- the compile-time scope of one function (or of the module) ----------------------------------------------- *)
Record scope := {
  sc_entries : list (string * (nat * bool));   (* name -> (slot, captured), innermost binding first *)
  sc_hidden : list string                      (* locals of enclosing functions that were NOT copied into this one *)
}.

Definition sc_bound (sc : scope) : nat :=
  fold_right (fun e m => Nat.max (S (fst (snd e))) m) 0 (sc_entries sc).

Definition is_local (sc : scope) (x : string) : bool :=
  match sassoc x (sc_entries sc) with Some _ => true | None => false end.

Section Compile.
Variable strict : bool.
Variable mods : list string.          (* module names by module slot *)

(* resolve_ident: Slot(Local) / Slot(Module) / Global / VariableNotFound *)
Definition cvar (sc : scope) (x : string) : option svar :=
  match sassoc x (sc_entries sc) with
  | Some (i, true) => Some (SCaptured i)
  | Some (i, false) => Some (SLocal i)
  | None =>
      if mem x (sc_hidden sc) then None
      else match sidx x mods with
           | Some j => Some (SModule j)
           | None => if mem x builtin_names then Some (SBuiltin x) else None
           end
  end.

(* the scope of a def/lambda nested in `sc`: own names (slot = index in `slotnames`), then one copied cell per
   free variable that is a local of the enclosing function; returns the scope, `parent` and the slot count *)
Definition fun_scope (sc : scope) (slotnames : list string) (capt : string -> bool) (free : list string)
  : option (scope * list (nat * nat) * nat) :=
  let P := filter (is_local sc) (dedup free) in
  if forallb (fun x => match sassoc x (sc_entries sc) with Some (_, true) => true | _ => false end) P then
    let n := length slotnames in
    let own := map (fun ix => (snd ix, (fst ix, capt (snd ix)))) (indexed 0 slotnames) in
    let cps := map (fun jx => (snd jx, (fst jx, true))) (indexed n P) in
    let parents := map (fun jx => (match sassoc (snd jx) (sc_entries sc) with Some (i, _) => i | None => 0 end, fst jx))
                       (indexed n P) in
    Some ({| sc_entries := own ++ cps; sc_hidden := map fst (sc_entries sc) ++ sc_hidden sc |}, parents, n + length P)
  else None.

Definition wrap_slots (slotnames pnames : list string) (capt : string -> bool) : list nat :=
  flat_map (fun ix => if capt (snd ix) && mem (snd ix) pnames then [fst ix] else []) (indexed 0 slotnames).

Definition nodupb (l : list string) : bool := Nat.eqb (length (dedup l)) (length l).

(* the scope inside a comprehension: one FRESH slot per variable (add_scoped), numbered from `k` *)
Definition compr_scope (sc : scope) (k : nat) (names : list string) (capt : string -> bool)
  : option (scope * list (nat * bool) * nat) :=
  let base := Nat.max k (sc_bound sc) in
  let new := map (fun jx => (snd jx, (fst jx, capt (snd jx)))) (indexed base names) in
  if strict && existsb capt names then None
  else Some ({| sc_entries := new ++ sc_entries sc; sc_hidden := sc_hidden sc |},
             map snd new, base + length names).

Definition copt (f : nat -> expr -> option (sexpr * nat)) (k : nat) (o : option expr) : option (option sexpr * nat) :=
  match o with
  | None => Some (None, k)
  | Some e => match f k e with Some (e', k') => Some (Some e', k') | None => None end
  end.

Fixpoint cexpr (sc : scope) (k : nat) (e : expr) {struct e} : option (sexpr * nat) :=
  match e with
  | ENone => Some (XNone, k) | EBool b => Some (XBool b, k) | EInt z => Some (XInt z, k) | EStr s => Some (XStr s, k)
  | EVar x => match cvar sc x with Some v => Some (XVar v, k) | None => None end
  | ETuple es => match omapS (cexpr sc) k es with Some (es', k') => Some (XTuple es', k') | None => None end
  | EList es => match omapS (cexpr sc) k es with Some (es', k') => Some (XList es', k') | None => None end
  | EDict kvs =>
      match omapS (fun k kv => match cexpr sc k (fst kv) with
                               | Some (a, k1) => match cexpr sc k1 (snd kv) with
                                                 | Some (b, k2) => Some ((a, b), k2) | None => None end
                               | None => None end) k kvs with
      | Some (kvs', k') => Some (XDict kvs', k') | None => None end
  | EUn o a => match cexpr sc k a with Some (a', k') => Some (XUn o a', k') | None => None end
  | EBin o a b =>
      match cexpr sc k a with
      | Some (a', k1) => match cexpr sc k1 b with Some (b', k2) => Some (XBin o a' b', k2) | None => None end
      | None => None end
  | EAnd a b =>
      match cexpr sc k a with
      | Some (a', k1) => match cexpr sc k1 b with Some (b', k2) => Some (XAnd a' b', k2) | None => None end
      | None => None end
  | EOr a b =>
      match cexpr sc k a with
      | Some (a', k1) => match cexpr sc k1 b with Some (b', k2) => Some (XOr a' b', k2) | None => None end
      | None => None end
  | EIf c t f =>
      match cexpr sc k c with
      | Some (c', k1) =>
          match cexpr sc k1 t with
          | Some (t', k2) => match cexpr sc k2 f with Some (f', k3) => Some (XIf c' t' f', k3) | None => None end
          | None => None end
      | None => None end
  | EIndex a b =>
      match cexpr sc k a with
      | Some (a', k1) => match cexpr sc k1 b with Some (b', k2) => Some (XIndex a' b', k2) | None => None end
      | None => None end
  | ESlice a lo hi st =>
      match cexpr sc k a with
      | Some (a', k1) =>
          match copt (cexpr sc) k1 lo with
          | Some (lo', k2) =>
              match copt (cexpr sc) k2 hi with
              | Some (hi', k3) =>
                  match copt (cexpr sc) k3 st with
                  | Some (st', k4) => Some (XSlice a' lo' hi' st', k4) | None => None end
              | None => None end
          | None => None end
      | None => None end
  | ECall f args kwargs star dstar =>
      match cexpr sc k f with
      | Some (f', k1) =>
          match omapS (cexpr sc) k1 args with
          | Some (args', k2) =>
              match omapS (fun k kv => match cexpr sc k (snd kv) with
                                       | Some (v, k') => Some ((fst kv, v), k') | None => None end) k2 kwargs with
              | Some (kwargs', k3) =>
                  match copt (cexpr sc) k3 star with
                  | Some (star', k4) =>
                      match copt (cexpr sc) k4 dstar with
                      | Some (dstar', k5) => Some (XCall f' args' kwargs' star' dstar', k5) | None => None end
                  | None => None end
              | None => None end
          | None => None end
      | None => None end
  | EMeth r m args kwargs =>
      match cexpr sc k r with
      | Some (r', k1) =>
          match omapS (cexpr sc) k1 args with
          | Some (args', k2) =>
              match omapS (fun k kv => match cexpr sc k (snd kv) with
                                       | Some (v, k') => Some ((fst kv, v), k') | None => None end) k2 kwargs with
              | Some (kwargs', k3) => Some (XMeth r' m args' kwargs', k3)
              | None => None end
          | None => None end
      | None => None end
  | ELambda ps body =>
      (* defaults in the enclosing scope; then the new scope *)
      match omapS (cparam sc) k ps with
      | Some (ps', k1) =>
          let pnames := map param_name ps in
          let slotnames := dedup pnames in
          let capt := fun x => mem x (fvg false body) in
          if nodupb pnames then
            match fun_scope sc slotnames capt (remove_all slotnames (fvg true body)) with
            | Some (sc', parents, n) =>
                match cexpr sc' n body with
                | Some (body', kf) =>
                    Some (XLambda ps' {| di_names := slotnames; di_nslots := kf;
                                         di_wrap := wrap_slots slotnames pnames capt; di_parents := parents |} body', k1)
                | None => None end
            | None => None end
          else None
      | None => None end
  | EListComp body cls =>
      match cls with
      | CFor t0 e0 :: r =>
          match cexpr sc k e0 with
          | Some (e0', k1) =>
              let capt := fun x => mem x (fvt false t0 ++ flat_map (fvc false) r ++ fvg false body) in
              match compr_scope sc k1 (Sem.dedup (clause_names cls)) capt with
              | Some (sc', vars, k2) =>
                  match ctarget sc' k2 t0 with
                  | Some (t0', k3) =>
                      match omapS (cclause sc') k3 r with
                      | Some (r', k4) =>
                          match cexpr sc' k4 body with
                          | Some (body', k5) => Some (XListComp vars body' (XCFor t0' e0' :: r'), k5)
                          | None => None end
                      | None => None end
                  | None => None end
              | None => None end
          | None => None end
      | _ => None
      end
  | EDictComp kx vx cls =>
      match cls with
      | CFor t0 e0 :: r =>
          match cexpr sc k e0 with
          | Some (e0', k1) =>
              let capt := fun x => mem x (fvt false t0 ++ flat_map (fvc false) r ++ fvg false kx ++ fvg false vx) in
              match compr_scope sc k1 (Sem.dedup (clause_names cls)) capt with
              | Some (sc', vars, k2) =>
                  match ctarget sc' k2 t0 with
                  | Some (t0', k3) =>
                      match omapS (cclause sc') k3 r with
                      | Some (r', k4) =>
                          match cexpr sc' k4 kx with
                          | Some (kx', k5) =>
                              match cexpr sc' k5 vx with
                              | Some (vx', k6) => Some (XDictComp vars kx' vx' (XCFor t0' e0' :: r'), k6)
                              | None => None end
                          | None => None end
                      | None => None end
                  | None => None end
              | None => None end
          | None => None end
      | _ => None
      end
  end

with cclause (sc : scope) (k : nat) (c : clause) {struct c} : option (sclause * nat) :=
  match c with
  | CFor t e =>
      match cexpr sc k e with
      | Some (e', k1) => match ctarget sc k1 t with Some (t', k2) => Some (XCFor t' e', k2) | None => None end
      | None => None end
  | CIf e => match cexpr sc k e with Some (e', k1) => Some (XCIf e', k1) | None => None end
  end

with cparam (sc : scope) (k : nat) (p : param) {struct p} : option (sparam * nat) :=
  match p with
  | PNormal x (Some d) => match cexpr sc k d with Some (d', k1) => Some (SPNormal x (Some d'), k1) | None => None end
  | PNormal x None => Some (SPNormal x None, k)
  | PArgs x => Some (SPArgs x, k)
  | PKwargs x => Some (SPKwargs x, k)
  end

with ctarget (sc : scope) (k : nat) (t : target) {struct t} : option (starget * nat) :=
  match t with
  | TVar x => match cvar sc x with Some v => Some (XTVar v, k) | None => None end
  | TTuple ts => match omapS (ctarget sc) k ts with Some (ts', k') => Some (XTTuple ts', k') | None => None end
  | TIndex a i =>
      match cexpr sc k a with
      | Some (a', k1) => match cexpr sc k1 i with Some (i', k2) => Some (XTIndex a' i', k2) | None => None end
      | None => None end
  end.

Fixpoint cstmt (sc : scope) (k : nat) (s : stmt) {struct s} : option (sstmt * nat) :=
  match s with
  | SExpr ln e => match cexpr sc k e with Some (e', k1) => Some (YExpr ln e', k1) | None => None end
  | SAssign ln t e =>
      match cexpr sc k e with
      | Some (e', k1) => match ctarget sc k1 t with Some (t', k2) => Some (YAssign ln t' e', k2) | None => None end
      | None => None end
  | SAug ln t o e =>
      match ctarget sc k t with
      | Some (t', k1) => match cexpr sc k1 e with Some (e', k2) => Some (YAug ln t' o e', k2) | None => None end
      | None => None end
  | SIf ln c th el =>
      match cexpr sc k c with
      | Some (c', k1) =>
          match omapS (cstmt sc) k1 th with
          | Some (th', k2) => match omapS (cstmt sc) k2 el with
                              | Some (el', k3) => Some (YIf ln c' th' el', k3) | None => None end
          | None => None end
      | None => None end
  | SFor ln t e body =>
      match cexpr sc k e with
      | Some (e', k1) =>
          match ctarget sc k1 t with
          | Some (t', k2) => match omapS (cstmt sc) k2 body with
                             | Some (body', k3) => Some (YFor ln t' e' body', k3) | None => None end
          | None => None end
      | None => None end
  | SBreak ln => Some (YBreak ln, k)
  | SContinue ln => Some (YContinue ln, k)
  | SReturn ln None => Some (YReturn ln None, k)
  | SReturn ln (Some e) => match cexpr sc k e with Some (e', k1) => Some (YReturn ln (Some e'), k1) | None => None end
  | SPass ln => Some (YPass ln, k)
  | SDef ln name ps body =>
      match omapS (cparam sc) k ps with
      | Some (ps', k1) =>
          let pnames := map param_name ps in
          let slotnames := def_scope_names ps body in
          let capt := fun x => mem x (flat_map (fvs false) body) in
          if nodupb pnames then
            match fun_scope sc slotnames capt (remove_all slotnames (flat_map (fvs true) body)) with
            | Some (sc', parents, n) =>
                match omapS (cstmt sc') n body with
                | Some (body', kf) =>
                    match cvar sc name with
                    | Some v =>
                        Some (YDef ln v name ps' {| di_names := slotnames; di_nslots := kf;
                                                    di_wrap := wrap_slots slotnames pnames capt; di_parents := parents |}
                                   body', k1)
                    | None => None end
                | None => None end
            | None => None end
          else None
      | None => None end
  end.

End Compile.

Definition module_scope : scope := {| sc_entries := []; sc_hidden := [] |}.

Definition resolve_prog_gen (strict : bool) (prog : list stmt) : option slot_prog :=
  let mods := module_names prog in
  match omapS (cstmt strict mods module_scope) 0 prog with
  | Some (body, k) => Some {| sp_mods := mods; sp_nslots := k; sp_body := body |}
  | None => None
  end.

(* the resolver of the compiler: every program whose names resolve *)
Definition resolve_prog : list stmt -> option slot_prog := resolve_prog_gen false.
(* the same, refusing programs in which a lambda captures a comprehension variable *)
Definition resolve_prog_strict : list stmt -> option slot_prog := resolve_prog_gen true.

(* the fragment of the simulation theorem, as a boolean predicate on named programs *)
Definition compr_vars_uncaptured (prog : list stmt) : bool :=
  match resolve_prog_strict prog with Some _ => true | None => false end.
