(* Name resolution: executable model of the second pass of starlark/src/eval/compiler/scope.rs
   (`ModuleScopeBuilder::resolve_idents*`, `get_name`, `ScopeNames::{add_name,copy_parent,add_scoped,unscope}`),
   run over the scope tree of Scope/Tree.v (which fixes the traversal order and where scopes are entered).
   The first pass (`collect_defines*`) is Tree.{collect_stmt,collect_target,def_scope_names,compr_names}.
   NO proofs in this file.

   Modelling of identities:
   * `BindingId(usize)` is a fresh counter in Rust.  Here a binding is named by the pair
     (depth of the scope frame that created it, name): frames are counted from the outermost
     (functions and active comprehensions, module excluded), which is injective on the bindings that are
     alive at the same time.  The id is attached where Rust allocates it (collect_defines_in_def /
     add_compr) and then only travels through the `mp` maps, `copy_parent` and `unscope`.
   * `LocalSlotIdCapturedOrNot(u32)` = index into `used`.
   * module slots (`module.add_name_visibility`) = index in the list of module names in definition order
     (fresh module). *)
From Coq Require Import String List Bool Arith.
From SV Require Import Scope.Tree.
Import ListNotations.

Definition bid := (nat * string)%type.
Definition entry := (nat * bid)%type.                       (* (LocalSlotIdCapturedOrNot, BindingId) *)

Record scope_names := mkScope {
  sn_pcount : nat;                                          (* param_count *)
  sn_used : list string;                                    (* used: slot -> name *)
  sn_mp : list (string * entry);                            (* mp: name -> (slot, binding); first match wins *)
  sn_parent : list (nat * nat)                              (* parent: (parent slot, child slot) *)
}.

(* SmallMap used as a finite map only (it is never iterated in scope.rs except for diagnostics) *)
Fixpoint mp_get (x : string) (mp : list (string * entry)) : option entry :=
  match mp with
  | [] => None
  | (y, v) :: r => if String.eqb x y then Some v else mp_get x r
  end.
Definition mp_set (x : string) (v : entry) (mp : list (string * entry)) := (x, v) :: mp.
Definition mp_remove (x : string) (mp : list (string * entry)) :=
  filter (fun p => negb (String.eqb x (fst p))) mp.

(* ScopeNames::add_name (next_slot + insert) *)
Definition add_name (sc : scope_names) (x : string) (b : bid) : scope_names * nat :=
  let slot := length (sn_used sc) in
  (mkScope (sn_pcount sc) (sn_used sc ++ [x]) (mp_set x (slot, b) (sn_mp sc)) (sn_parent sc), slot).

(* ScopeNames::copy_parent *)
Definition copy_parent (sc : scope_names) (parent_slot : nat) (b : bid) (x : string) : scope_names * nat :=
  let '(sc', slot) := add_name sc x b in
  (mkScope (sn_pcount sc') (sn_used sc') (sn_mp sc') (sn_parent sc' ++ [(parent_slot, slot)]), slot).

(* Unscope: newest entry first; `None` = the name had no mapping *)
Definition unscope := list (string * option entry).

(* ScopeNames::add_scoped *)
Definition add_scoped (sc : scope_names) (x : string) (b : bid) (u : unscope) : scope_names * unscope :=
  let slot := length (sn_used sc) in
  (mkScope (sn_pcount sc) (sn_used sc ++ [x]) (mp_set x (slot, b) (sn_mp sc)) (sn_parent sc),
   (x, mp_get x (sn_mp sc)) :: u).

(* ScopeNames::unscope: entries are applied in insertion order (oldest = last of the list first) *)
Fixpoint unscope_mp (u : unscope) (mp : list (string * entry)) : list (string * entry) :=
  match u with
  | [] => mp
  | (x, undo) :: older =>
      let mp' := unscope_mp older mp in
      match undo with
      | None => mp_remove x mp'
      | Some v => mp_set x v mp'
      end
  end.
Definition unscope_apply (sc : scope_names) (u : unscope) : scope_names :=
  mkScope (sn_pcount sc) (sn_used sc) (unscope_mp u (sn_mp sc)) (sn_parent sc).

(* collect_defines_in_def, last loop: one slot per name in order, parameters first *)
Definition init_scope (depth : nat) (ps : list string) (names : list string) : scope_names :=
  fold_left (fun sc x => fst (add_name sc x (depth, x))) (dedup names) (mkScope (length ps) [] [] []).

Inductive capt := CapLocal (b : bid) | CapModule (x : string).

Record state := mkState {
  st_locals : list scope_names;       (* `locals`, innermost scope FIRST; the last one is the module scope *)
  st_unscopes : list unscope;         (* `unscopes`, innermost first *)
  st_captured : list capt;            (* bindings with `captured = Captured::Yes`, in marking order *)
  st_finished : list scope_names      (* scopes of the defs/lambdas already left (exit_def), in exit order *)
}.

Inductive resolved :=
| RSlot (slot : nat) (b : bid)        (* ResolvedIdent::Slot(Slot::Local(slot), binding) *)
| RModule (slot : nat)                (* ResolvedIdent::Slot(Slot::Module(slot), _) *)
| RBuiltin                            (* ResolvedIdent::Global *)
| RUnbound.                           (* ScopeError::VariableNotFound *)

(* ModuleScopeBuilder::get_name, local part: look outwards for the first scope that knows the name, then
   copy_parent it into every scope on the way back in.  Result: slot in the innermost scope, binding, the
   updated scope stack, and whether it was found in the innermost scope (i + 1 == locals.len()). *)
Fixpoint find_name (x : string) (scs : list scope_names)
  : option (nat * bid * list scope_names * bool) :=
  match scs with
  | [] => None
  | sc :: outer =>
      match mp_get x (sn_mp sc) with
      | Some (v, b) => Some (v, b, scs, true)
      | None =>
          match find_name x outer with
          | None => None
          | Some (v, b, outer', _) =>
              let '(sc', v') := copy_parent sc v b x in
              Some (v', b, sc' :: outer', false)
          end
      end
  end.

Fixpoint index_of (x : string) (l : list string) : option nat :=
  match l with
  | [] => None
  | y :: r => if String.eqb x y then Some 0 else option_map S (index_of x r)
  end.

Section Resolver.
Variable mods : list string.          (* module_bindings: names defined at module level *)
Variable globals : list string.       (* ScopeResolverGlobals *)

(* get_name + resolve_ident *)
Definition get_name (st : state) (x : string) : resolved * state :=
  match find_name x (st_locals st) with
  | Some (v, b, scs', top) =>
      (RSlot v b,
       mkState scs' (st_unscopes st)
               (if top then st_captured st else st_captured st ++ [CapLocal b])
               (st_finished st))
  | None =>
      match index_of x mods with
      | Some slot =>
          (RModule slot,
           mkState (st_locals st) (st_unscopes st)
                   (if Nat.ltb 1 (length (st_locals st)) then st_captured st ++ [CapModule x]
                    else st_captured st)
                   (st_finished st))
      | None => (if mem x globals then RBuiltin else RUnbound, st)
      end
  end.

(* number of scope frames currently open: functions (module excluded) + active comprehensions *)
Definition depth (st : state) : nat := (length (st_locals st) - 1) + length (st_unscopes st).

Definition enter_def (st : state) (sc : scope_names) : state :=
  mkState (sc :: st_locals st) (st_unscopes st) (st_captured st) (st_finished st).

Definition exit_def (st : state) : state :=
  match st_locals st with
  | sc :: outer => mkState outer (st_unscopes st) (st_captured st) (st_finished st ++ [sc])
  | [] => st
  end.

(* enter_compr + add_compr: one fresh slot per (deduplicated) comprehension variable in the top scope *)
Definition add_compr (st : state) (names : list string) : state :=
  match st_locals st with
  | sc :: outer =>
      let d := depth st in
      let '(sc', u) := fold_left (fun '(sc, u) x => add_scoped sc x (d, x) u) (dedup names) (sc, []) in
      mkState (sc' :: outer) (u :: st_unscopes st) (st_captured st) (st_finished st)
  | [] => st
  end.

Definition exit_compr (st : state) : state :=
  match st_locals st, st_unscopes st with
  | sc :: outer, u :: us => mkState (unscope_apply sc u :: outer) us (st_captured st) (st_finished st)
  | _, _ => st
  end.

Definition seq_run {S O : Type} (f : sk -> S -> list O * S) : list sk -> S -> list O * S :=
  fix go (l : list sk) (st : S) : list O * S :=
    match l with
    | [] => ([], st)
    | t :: r => let '(o1, st1) := f t st in let '(o2, st2) := go r st1 in (o1 ++ o2, st2)
    end.

(* resolve_idents / resolve_idents_in_expr_impl / resolve_idents_in_def / resolve_idents_in_compr *)
Fixpoint a_sk (t : sk) (st : state) : list (string * resolved) * state :=
  match t with
  | KUse x => let '(r, st') := get_name st x in ([(x, r)], st')
  | KSeq l => seq_run a_sk l st
  | KFun ps names body =>
      let st1 := enter_def st (init_scope (depth st) ps names) in
      let '(o, st2) := a_sk body st1 in
      (o, exit_def st2)
  | KComp names body =>
      let st1 := add_compr st names in
      let '(o, st2) := a_sk body st1 in
      (o, exit_compr st2)
  end.

End Resolver.

(* enter_module: module scope with param_count 0 and no names in `mp` (module names live in module_bindings) *)
Definition init_state : state := mkState [mkScope 0 [] [] []] [] [] [].

Definition resolve_prog (globals : list string) (prog : list Core.Syntax.stmt)
  : list (string * resolved) * state :=
  a_sk (module_names prog) globals (sk_prog prog) init_state.

(* Classification used by the compiler afterwards: follow the `parent` links of a slot outwards.
   [] = a genuine local of the innermost scope; otherwise the parent slots, nearest enclosing scope first. *)
Fixpoint chain_of (scs : list scope_names) (slot : nat) : list nat :=
  match scs with
  | [] => []
  | sc :: outer =>
      match find (fun pc => Nat.eqb (snd pc) slot) (sn_parent sc) with
      | Some (p, _) => p :: chain_of outer p
      | None => []
      end
  end.
