(* C01: a fuelled interpreter for SLOT-RESOLVED programs (Scope/SlotSyntax.v), organised as the evaluator of
   starlark-rust is:
     * a FRAME is an array of slots (eval/bc/frame.rs `BcFrame::locals`); a slot is empty, holds a value, or - for a
       variable that a nested def/lambda reads - holds a CELL (values/layout/value_captured.rs `ValueCaptured`);
     * `LoadLocal/StoreLocal` read and write the slot; `LoadLocalCaptured/StoreLocalCaptured`
       (eval/runtime/evaluator.rs `get_slot_local_captured`, `set_slot_local_captured`) go through the cell, the
       cell being allocated by the first store (or by the first def that copies it, `clone_slot_capture`);
       a cell once put into a slot STAYS there for the rest of the activation - also in the slot of a
       comprehension variable, which is not cleared when the comprehension is left;
     * a def/lambda evaluates to a closure carrying the cells of the enclosing frame listed in `DefInfo::parent`
       (eval/compiler/def.rs `DefCompiled`/`Def::captured`); a call (`Def::invoke_raw`) allocates a frame of
       `local_count` empty slots, collects the parameters into the first slots, wraps the captured parameters into
       fresh cells (`wrap_local_slot_captured`), copies the closure's cells into the child slots and runs the body;
     * module variables live in the module's slot array (environment/slots.rs `MutableSlots`).
   Values, the store of lists/dicts/cells, the transcript (`obs`) and every value-level operation
   (`binop_eval`, `call_builtin`, `call_method_kw`, `index_eval`, ...) are those of Core/Values.v and Core/Sem.v,
   run on the `base` component of the machine state; only variable access, def, call and comprehension scoping
   differ from the reference interpreter `Sem.eval/call/exec`.  The frame of the model is a list that grows on
   a store beyond its end (the evaluator allocates `local_count` slots up front).
   No proofs in this file except the `Example`s at the end (vm_compute tests). *)
From Coq Require Import ZArith String List Bool Arith.
From SV Require Import Core.Syntax Core.Values Core.Sem Scope.Tree Scope.SlotSyntax.
Import ListNotations.
Local Open Scope nat_scope.

Inductive fslot := FEmpty | FVal (v : value) | FCell (a : nat).
Definition frame := list fslot.

Definition fget (fr : frame) (i : nat) : fslot := nth i fr FEmpty.
Fixpoint fset (fr : frame) (i : nat) (x : fslot) : frame :=
  match i, fr with
  | O, [] => [x]
  | O, _ :: r => x :: r
  | S i, [] => FEmpty :: fset [] i x
  | S i, h :: r => h :: fset r i x
  end.

Record sclosure := {
  sc_name : string; sc_params : list param; sc_defaults : list (string * value);
  sc_info : definfo; sc_body : sbody;
  sc_captured : list nat                       (* Def::captured: the cells of the enclosing frame, in `parent` order *)
}.

Record sstate := {
  base : state;                                (* lists, dicts, cells (the captured cells), transcript; `clos` unused *)
  sclos : list sclosure;
  smods : list (option value);                 (* module slots *)
  cur : frame                                  (* eval.current_frame *)
}.

Inductive sres (A : Type) :=
| SOk (a : A) (t : sstate)
| SFail (e : err) (ln : option Z) (t : sstate)
| SOutOfFuel.
Arguments SOk {A}. Arguments SFail {A}. Arguments SOutOfFuel {A}.

Definition SM (A : Type) := sstate -> sres A.
Definition sret {A} (a : A) : SM A := fun t => SOk a t.
Definition sbind {A B} (m : SM A) (f : A -> SM B) : SM B :=
  fun t => match m t with SOk a t' => f a t' | SFail e l t' => SFail e l t' | SOutOfFuel => SOutOfFuel end.
Definition sfail {A} (e : err) : SM A := fun t => SFail e None t.

Declare Scope slot_scope.
Delimit Scope slot_scope with slot.
Notation "x <~ m ;; f" := (sbind m (fun x => f)) (at level 61, m at next level, right associativity) : slot_scope.
Notation "m ;;~ f" := (sbind m (fun _ => f)) (at level 61, right associativity) : slot_scope.
Local Open Scope slot_scope.

Definition with_base (t : sstate) (b : state) : sstate :=
  {| base := b; sclos := sclos t; smods := smods t; cur := cur t |}.
Definition with_cur (t : sstate) (fr : frame) : sstate :=
  {| base := base t; sclos := sclos t; smods := smods t; cur := fr |}.

(* run a value-level operation of Core on the store of the machine *)
Definition lift {A} (m : M A) : SM A :=
  fun t => match m (base t) with
           | Ok a b => SOk a (with_base t b)
           | Fail e l b => SFail e l (with_base t b)
           | OutOfFuel => SOutOfFuel
           end.

Fixpoint smapM {A B} (f : A -> SM B) (l : list A) : SM (list B) :=
  match l with
  | [] => sret []
  | x :: xs => y <~ f x ;; ys <~ smapM f xs ;; sret (y :: ys)
  end.

Definition get_cur : SM frame := fun t => SOk (cur t) t.
Definition set_cur (fr : frame) : SM unit := fun t => SOk tt (with_cur t fr).
Definition set_slot (i : nat) (x : fslot) : SM unit := fun t => SOk tt (with_cur t (fset (cur t) i x)).

Definition sget_clo (c : nat) : SM sclosure :=
  fun t => match nth_error (sclos t) c with Some x => SOk x t | None => SFail Unsupported None t end.
Definition salloc_clo (c : sclosure) : SM value :=
  fun t => SOk (VClo (length (sclos t)))
               {| base := base t; sclos := sclos t ++ [c]; smods := smods t; cur := cur t |}.

(* ---- variables --------------------------------------------------------------------------------------------- *)
Definition load_var (v : svar) : SM value :=
  match v with
  | SModule j => fun t => match nth_error (smods t) j with
                          | Some (Some x) => SOk x t
                          | _ => SFail Unbound None t end
  | SLocal i => fun t => match fget (cur t) i with
                         | FVal x => SOk x t
                         | FEmpty => SFail Unbound None t
                         | FCell _ => SFail Unsupported None t end
  | SCaptured i => fun t => match fget (cur t) i with
                            | FCell c => lift (get_cell c) t
                            | FEmpty => SFail Unbound None t
                            | FVal _ => SFail Unsupported None t end
  | SBuiltin x => sret (VBuiltin x)
  end.

Definition store_var (v : svar) (x : value) : SM unit :=
  match v with
  | SModule j => fun t => SOk tt {| base := base t; sclos := sclos t; smods := upd (smods t) j (Some x); cur := cur t |}
  | SLocal i => set_slot i (FVal x)
  | SCaptured i => fun t => match fget (cur t) i with
                            | FCell c => lift (set_cell c x) t
                            | FEmpty => (c <~ lift (alloc_cell (Some x)) ;; set_slot i (FCell c)) t
                            | FVal _ => SFail Unsupported None t end
  | SBuiltin _ => sfail Unbound
  end.

(* clone_slot_capture: the cell of a parent slot, allocated (empty) when the variable has not been assigned yet *)
Definition capture_slot (i : nat) : SM nat :=
  fun t => match fget (cur t) i with
           | FCell c => SOk c t
           | FEmpty => (c <~ lift (alloc_cell None) ;; set_slot i (FCell c) ;;~ sret c) t
           | FVal _ => SFail Unsupported None t end.

(* wrap_local_slot_captured *)
Definition wrap_slot (i : nat) : SM unit :=
  fun t => match fget (cur t) i with
           | FVal x => (c <~ lift (alloc_cell (Some x)) ;; set_slot i (FCell c)) t
           | _ => SOk tt t end.

(* ---- the combinators of Sem, on the machine monad ----------------------------------------------------------- *)
Definition sat_line {A} (ln : Z) (m : SM A) : SM A :=
  fun t => match m t with
           | SFail e None t' => SFail e (Some ln) t'
           | r => r
           end.

Definition swith_lock {A} (v : value) (m : SM A) : SM A :=
  fun t => match lift (iter_lock v true) t with
           | SOk _ t1 =>
               match m t1 with
               | SOk a t2 => match lift (iter_lock v false) t2 with SOk _ t3 => SOk a t3 | _ => SFail Unsupported None t2 end
               | SFail e l t2 => match lift (iter_lock v false) t2 with SOk _ t3 => SFail e l t3 | _ => SFail e l t2 end
               | SOutOfFuel => SOutOfFuel
               end
           | SFail e l t' => SFail e l t'
           | SOutOfFuel => SOutOfFuel
           end.

Definition struth (v : value) : SM bool := lift (s <- get_state ;; ret (truth s v)).

Section WithEval.
  Variable ev : sexpr -> SM value.

  Fixpoint sassign (t : starget) (v : value) : SM unit :=
    match t with
    | XTVar x => store_var x v
    | XTTuple ts =>
        vs <~ lift (match v with
                    | VTuple vs => ret vs
                    | VList l => get_list l
                    | _ => fail TypeErr end) ;;
        if Nat.eqb (length ts) (length vs)
        then (fix go (ts : list starget) (vs : list value) : SM unit :=
                match ts, vs with
                | t :: ts', v :: vs' => sassign t v ;;~ go ts' vs'
                | _, _ => sret tt end) ts vs
        else sfail ValueErr
    | XTIndex a i => av <~ ev a ;; iv <~ ev i ;; lift (set_index av iv v)
    end.

  Fixpoint scomp_clauses (cls : list sclause) (first : option (list value)) (k : SM unit) : SM unit :=
    match cls with
    | [] => k
    | XCIf c :: r => cv <~ ev c ;; b <~ struth cv ;; if b then scomp_clauses r None k else sret tt
    | XCFor t e :: r =>
        p <~ match first with
             | Some vs => sret (VNone, vs)
             | None => it <~ ev e ;; vs <~ lift (iter_elems it) ;; sret (it, vs) end ;;
        swith_lock (fst p)
          ((fix go (vs : list value) : SM unit :=
              match vs with
              | [] => sret tt
              | v :: vs' => sassign t v ;;~ scomp_clauses r None k ;;~ go vs'
              end) (snd p))
    end.

  Fixpoint srun_block (ex : sstmt -> SM ctrl) (ss : list sstmt) : SM ctrl :=
    match ss with
    | [] => sret CNormal
    | s :: r => c <~ ex s ;; match c with CNormal => srun_block ex r | _ => sret c end
    end.

  Fixpoint sfor_loop (body : value -> SM ctrl) (vs : list value) : SM ctrl :=
    match vs with
    | [] => sret CNormal
    | v :: r => c <~ body v ;;
                match c with
                | CBreak => sret CNormal
                | CReturn x => sret (CReturn x)
                | _ => sfor_loop body r
                end
    end.
End WithEval.

Definition aug_result (o : binop) (cur rhs : value) : M value :=
  match aug_list_inplace o cur rhs with Some m => m | None => binop_eval o cur rhs end.

(* DefCompiled::eval: copy the cells of the parent slots, build the closure *)
Definition make_closure (name : string) (ps : list sparam) (dflts : list (list (string * value)))
           (info : definfo) (body : sbody) : SM value :=
  cells <~ smapM capture_slot (map fst (di_parents info)) ;;
  salloc_clo {| sc_name := name; sc_params := map param_of ps; sc_defaults := concat dflts;
                sc_info := info; sc_body := body; sc_captured := cells |}.

Fixpoint seval (n : nat) (e : sexpr) {struct n} : SM value :=
  match n with
  | O => fun _ => SOutOfFuel
  | S n =>
    match e with
    | XNone => sret VNone | XBool b => sret (VBool b) | XInt z => sret (VInt z) | XStr x => sret (VStr x)
    | XVar v => load_var v
    | XTuple es => vs <~ smapM (seval n) es ;; sret (VTuple vs)
    | XList es => vs <~ smapM (seval n) es ;; lift (alloc_list vs)
    | XDict kvs =>
        ps <~ smapM (fun kv => k <~ seval n (fst kv) ;; v <~ seval n (snd kv) ;; lift (check_hashable k) ;;~ sret (k, v)) kvs ;;
        lift (s <- get_state ;; alloc_dict (dict_update s [] ps))
    | XUn o a => v <~ seval n a ;; lift (unop_eval o v)
    | XBin o a b => x <~ seval n a ;; y <~ seval n b ;; lift (binop_eval o x y)
    | XAnd a b => x <~ seval n a ;; t <~ struth x ;; if t then seval n b else sret x
    | XOr a b => x <~ seval n a ;; t <~ struth x ;; if t then sret x else seval n b
    | XIf c t f => x <~ seval n c ;; b <~ struth x ;; if b then seval n t else seval n f
    | XIndex a i => x <~ seval n a ;; y <~ seval n i ;; lift (index_eval x y)
    | XSlice a lo hi st =>
        x <~ seval n a ;;
        let opt (o : option sexpr) : SM (option value) :=
          match o with None => sret None | Some e => v <~ seval n e ;; sret (Some v) end in
        l <~ opt lo ;; h <~ opt hi ;; t <~ opt st ;; lift (slice_eval x l h t)
    | XCall f args kwargs star dstar =>
        fv <~ seval n f ;;
        pos <~ smapM (seval n) args ;;
        named <~ smapM (fun kv => v <~ seval n (snd kv) ;; sret (fst kv, v)) kwargs ;;
        extra <~ match star with None => sret [] | Some e => v <~ seval n e ;; lift (iter_elems v) end ;;
        dextra <~ match dstar with
                  | None => sret []
                  | Some e => v <~ seval n e ;;
                              lift (match v with
                                    | VDict d => kvs <- get_dict d ;;
                                                 mapM (fun kv => match fst kv with VStr k => ret (k, snd kv) | _ => fail TypeErr end) kvs
                                    | _ => fail TypeErr end)
                  end ;;
        scall n fv (pos ++ extra) (named ++ dextra)
    | XMeth r m args kwargs =>
        rv <~ seval n r ;; vs <~ smapM (seval n) args ;;
        named <~ smapM (fun kv => v <~ seval n (snd kv) ;; sret (fst kv, v)) kwargs ;;
        lift (call_method_kw rv m vs named)
    | XLambda ps info body =>
        dflts <~ smapM (fun p => match p with
                                 | SPNormal x (Some d) => v <~ seval n d ;; sret [(x, v)]
                                 | _ => sret [] end) ps ;;
        make_closure "lambda" ps dflts info (SBExpr body)
    | XListComp _ body cls =>
        match cls with
        | XCFor t0 e0 :: _ =>
            it <~ seval n e0 ;; vs <~ lift (iter_elems it) ;;
            (* the variables keep the slots the compiler gave them: nothing is allocated or cleared here *)
            acc <~ lift (alloc_list []) ;;
            swith_lock it
              (scomp_clauses (seval n) cls (Some vs)
                 (v <~ seval n body ;;
                  lift (match acc with VList a => xs <- get_list a ;; set_list a (xs ++ [v]) | _ => ret tt end))) ;;~
            sret acc
        | _ => sfail Unsupported
        end
    | XDictComp _ kx vx cls =>
        match cls with
        | XCFor t0 e0 :: _ =>
            it <~ seval n e0 ;; vs <~ lift (iter_elems it) ;;
            acc <~ lift (alloc_dict []) ;;
            swith_lock it
              (scomp_clauses (seval n) cls (Some vs)
                 (k <~ seval n kx ;; v <~ seval n vx ;; lift (check_hashable k) ;;~
                  lift (match acc with
                        | VDict a => d <- get_dict a ;; s <- get_state ;; set_dict a (dict_set s d k v)
                        | _ => ret tt end))) ;;~
            sret acc
        | _ => sfail Unsupported
        end
    end
  end

with scall (n : nat) (f : value) (pos : list value) (named : list (string * value)) {struct n} : SM value :=
  match n with
  | O => fun _ => SOutOfFuel
  | S n =>
    match f with
    | VBuiltin b =>
        if String.eqb b "sorted" && match named with [] => false | _ => true end then
          if forallb (fun kv => String.eqb (fst kv) "key" || String.eqb (fst kv) "reverse") named then
            match pos with
            | [v] =>
                xs <~ lift (iter_elems v) ;;
                ks <~ match assoc_str "key" named with
                      | Some VNone | None => sret xs
                      | Some kf => smapM (fun x => scall n kf [x] []) xs
                      end ;;
                lift (st <- get_state ;;
                      let reverse := match assoc_str "reverse" named with Some r => truth st r | None => false end in
                      match sort_pairs_dir st reverse (combine ks xs) with
                      | Some r => alloc_list (map snd r)
                      | None => fail TypeErr
                      end)
            | _ => sfail Arity
            end
          else sfail Arity
        else lift (call_builtin b pos named)
    | VClo c =>
        cl <~ sget_clo c ;;
        match bind_params (sc_params cl) (sc_defaults cl) pos named false with
        | None => sfail Arity
        | Some (binds, rest_pos, rest_named) =>
            match rest_pos, has_kwargs (sc_params cl), rest_named with
            | _ :: _, _, _ => sfail Arity
            | [], None, _ :: _ => sfail Arity
            | [], kw, _ =>
                kwb <~ match kw with
                       | Some x => d <~ lift (alloc_dict (map (fun kv => (VStr (fst kv), snd kv)) rest_named)) ;; sret [(x, d)]
                       | None => sret [] end ;;
                let info := sc_info cl in
                saved <~ get_cur ;;
                (* alloca_frame + collect the parameters into their slots *)
                set_cur (repeat FEmpty (di_nslots info)) ;;~
                smapM (fun b => match sidx (fst b) (di_names info) with
                                | Some i => set_slot i (FVal (snd b))
                                | None => sret tt end) (binds ++ kwb) ;;~
                (* invoke_raw: wrap the captured parameters, copy over the parent cells *)
                smapM wrap_slot (di_wrap info) ;;~
                smapM (fun pc => set_slot (fst pc) (FCell (snd pc))) (combine (map snd (di_parents info)) (sc_captured cl)) ;;~
                r <~ match sc_body cl with
                     | SBExpr e => seval n e
                     | SBStmts ss =>
                         c <~ srun_block (sexec n) ss ;;
                         match c with CReturn v => sret v | _ => sret VNone end
                     end ;;
                set_cur saved ;;~
                sret r
            end
        end
    | _ => sfail TypeErr
    end
  end

with sexec (n : nat) (st : sstmt) {struct n} : SM ctrl :=
  match n with
  | O => fun _ => SOutOfFuel
  | S n =>
    sat_line (sstmt_line st)
    match st with
    | YExpr _ e => seval n e ;;~ sret CNormal
    | YAssign _ t e => v <~ seval n e ;; sassign (seval n) t v ;;~ sret CNormal
    | YAug _ t o e =>
        match t with
        | XTVar x =>
            cur <~ seval n (XVar x) ;; rhs <~ seval n e ;;
            r <~ lift (aug_result o cur rhs) ;;
            sassign (seval n) t r ;;~ sret CNormal
        | XTIndex a i =>
            av <~ seval n a ;; iv <~ seval n i ;; cur <~ lift (index_eval av iv) ;; rhs <~ seval n e ;;
            r <~ lift (aug_result o cur rhs) ;;
            lift (set_index av iv r) ;;~ sret CNormal
        | XTTuple _ => sfail Unsupported
        end
    | YIf _ c th el =>
        v <~ seval n c ;; b <~ struth v ;;
        if b then srun_block (sexec n) th else srun_block (sexec n) el
    | YFor _ t e body =>
        it <~ seval n e ;; vs <~ lift (iter_elems it) ;;
        swith_lock it (sfor_loop (fun v => sassign (seval n) t v ;;~ srun_block (sexec n) body) vs)
    | YBreak _ => sret CBreak
    | YContinue _ => sret CContinue
    | YReturn _ None => sret (CReturn VNone)
    | YReturn _ (Some e) => v <~ seval n e ;; sret (CReturn v)
    | YPass _ => sret CNormal
    | YDef _ x name ps info body =>
        dflts <~ smapM (fun p => match p with
                                 | SPNormal y (Some d) => v <~ seval n d ;; sret [(y, v)]
                                 | _ => sret [] end) ps ;;
        f <~ make_closure name ps dflts info (SBStmts body) ;;
        store_var x f ;;~ sret CNormal
    end
  end.

(* ---- whole programs ------------------------------------------------------------------------------------------ *)
Definition init_sstate (sp : slot_prog) : sstate :=
  {| base := empty_state; sclos := []; smods := repeat None (length (sp_mods sp)); cur := repeat FEmpty (sp_nslots sp) |}.

Definition run_slot_program (fuel : nat) (sp : slot_prog) : list obs * outcome :=
  match srun_block (sexec fuel) (sp_body sp) (init_sstate sp) with
  | SOk _ t => (rev (out (base t)), Done)
  | SFail e l t => (rev (out (base t)), Failed e l)
  | SOutOfFuel => ([], NoFuel)
  end.

Definition run_resolved (fuel : nat) (prog : list stmt) : option (list obs * outcome) :=
  option_map (run_slot_program fuel) (resolve_prog prog).

(* ================================================================================================================ *)
(* Tests: both interpreters on the same programs *)
Local Open Scope string_scope.
Local Open Scope Z_scope.

Definition call0 (f : string) (args : list expr) : expr := ECall (EVar f) args [] None None.
Definition emit (e : expr) : expr := call0 "emit" [e].

(* def mk(n):
       acc = []
       for i in range(n):
           def add(k): return i + k + n      # captures the loop variable i and the parameter n
           acc.append(add)
       return acc
   fs = mk(3); emit([f(10) for f in fs]); i = 7; emit(fs[0](i)) *)
Definition ex_capture_loop : list stmt :=
  [SDef 1 "mk" [PNormal "n" None]
     [SAssign 2 (TVar "acc") (EList []);
      SFor 3 (TVar "i") (call0 "range" [EVar "n"])
        [SDef 4 "add" [PNormal "k" None] [SReturn 5 (Some (EBin BAdd (EBin BAdd (EVar "i") (EVar "k")) (EVar "n")))];
         SExpr 6 (EMeth (EVar "acc") "append" [EVar "add"] [])];
      SReturn 7 (Some (EVar "acc"))];
   SAssign 8 (TVar "fs") (call0 "mk" [EInt 3]);
   SExpr 9 (emit (EListComp (call0 "f" [EInt 10]) [CFor (TVar "f") (EVar "fs")]));
   SAssign 10 (TVar "i") (EInt 7);
   SExpr 11 (emit (ECall (EIndex (EVar "fs") (EInt 0)) [EVar "i"] [] None None))].

Example ex_capture_loop_ref : run_program 60 ex_capture_loop = ([OList [OInt 15; OInt 15; OInt 15]; OInt 12], Done).
Proof. vm_compute. reflexivity. Qed.
Example ex_capture_loop_slots : run_resolved 60 ex_capture_loop = Some (run_program 60 ex_capture_loop).
Proof. vm_compute. reflexivity. Qed.

(* comprehension shadowing, nested comprehension, the first iterable read in the enclosing scope:
   x = 5
   def f(x, ys):
       r = [x * y for y in ys if y != x for x in [y, x + 1]]    # the inner x shadows the parameter inside
       return (r, x)
   emit(f(2, [1, 2, 3])); emit([x for x in [x, x + 1]]); emit(x) *)
Definition ex_compr_shadow : list stmt :=
  [SAssign 1 (TVar "x") (EInt 5);
   SDef 2 "f" [PNormal "x" None; PNormal "ys" None]
     [SAssign 3 (TVar "r") (EListComp (EBin BMul (EVar "x") (EVar "y"))
                              [CFor (TVar "y") (EVar "ys"); CIf (EBin BNe (EVar "y") (EInt 2));
                               CFor (TVar "x") (EList [EVar "y"; EBin BAdd (EVar "y") (EInt 1)])]);
      SReturn 4 (Some (ETuple [EVar "r"; EVar "x"]))];
   SExpr 5 (emit (call0 "f" [EInt 2; EList [EInt 1; EInt 2; EInt 3]]));
   SExpr 6 (emit (EListComp (EVar "x") [CFor (TVar "x") (EList [EVar "x"; EBin BAdd (EVar "x") (EInt 1)])]));
   SExpr 7 (emit (EVar "x"))].

Example ex_compr_shadow_ref :
  run_program 60 ex_compr_shadow =
  ([OTuple [OList [OInt 1; OInt 2; OInt 9; OInt 12]; OInt 2]; OList [OInt 5; OInt 6]; OInt 5], Done).
Proof. vm_compute. reflexivity. Qed.
Example ex_compr_shadow_slots : run_resolved 60 ex_compr_shadow = Some (run_program 60 ex_compr_shadow).
Proof. vm_compute. reflexivity. Qed.

(* recursion, defaults evaluated at def time, *args/**kwargs, a counter closure that assigns through a list,
   a lambda capturing a parameter, a variable captured BEFORE its first assignment, a failing last statement:
   def fact(n, acc = 1):
       if n <= 1: return acc
       return fact(n - 1, acc * n)
   def outer(a, *rest, **kw):
       def get(): return late + a          # `late` is captured before it is assigned
       late = len(rest) + len(kw)
       g = lambda b: b * a + late
       return (get(), g(10))
   emit(fact(5)); emit(outer(3, 1, 1, z = 0)); emit(undefined_later); undefined_later = 1 *)
Definition ex_recursion : list stmt :=
  [SDef 1 "fact" [PNormal "n" None; PNormal "acc" (Some (EInt 1))]
     [SIf 2 (EBin BLe (EVar "n") (EInt 1)) [SReturn 2 (Some (EVar "acc"))] [];
      SReturn 3 (Some (call0 "fact" [EBin BSub (EVar "n") (EInt 1); EBin BMul (EVar "acc") (EVar "n")]))];
   SDef 4 "outer" [PNormal "a" None; PArgs "rest"; PKwargs "kw"]
     [SDef 5 "get" [] [SReturn 5 (Some (EBin BAdd (EVar "late") (EVar "a")))];
      SAssign 6 (TVar "late") (EBin BAdd (call0 "len" [EVar "rest"]) (call0 "len" [EVar "kw"]));
      SAssign 7 (TVar "g") (ELambda [PNormal "b" None] (EBin BAdd (EBin BMul (EVar "b") (EVar "a")) (EVar "late")));
      SReturn 8 (Some (ETuple [call0 "get" []; call0 "g" [EInt 10]]))];
   SExpr 9 (emit (call0 "fact" [EInt 5]));
   SExpr 10 (emit (ECall (EVar "outer") [EInt 3; EInt 1; EInt 1] [("z", EInt 0)] None None));
   SExpr 11 (emit (EVar "undefined_later"));
   SAssign 12 (TVar "undefined_later") (EInt 1)].

Example ex_recursion_ref :
  run_program 60 ex_recursion = ([OInt 120; OTuple [OInt 6; OInt 33]], Failed Unbound (Some 11)).
Proof. vm_compute. reflexivity. Qed.
Example ex_recursion_slots : run_resolved 60 ex_recursion = Some (run_program 60 ex_recursion).
Proof. vm_compute. reflexivity. Qed.

(* the two places where the evaluator's frame discipline is OBSERVABLY different from the reference semantics
   (both reproduced on the real evaluator, see the final lines of Scope/SlotSim.v):
   def f():
       fs = []
       for i in range(2):
           fs.append([lambda: x for x in [i]])
       emit([g[0]() for g in fs])
   f()
   reference (and Python): [0, 1];  slot machine (and starlark-rust): [1, 1] - one cell per frame slot. *)
Definition ex_compr_cell_shared : list stmt :=
  [SDef 1 "f" []
     [SAssign 2 (TVar "fs") (EList []);
      SFor 3 (TVar "i") (call0 "range" [EInt 2])
        [SExpr 4 (EMeth (EVar "fs") "append" [EListComp (ELambda [] (EVar "x")) [CFor (TVar "x") (EList [EVar "i"])]] [])];
      SExpr 5 (emit (EListComp (ECall (EIndex (EVar "g") (EInt 0)) [] [] None None) [CFor (TVar "g") (EVar "fs")]))];
   SExpr 6 (call0 "f" [])].

Example ex_compr_cell_shared_ref : run_program 60 ex_compr_cell_shared = ([OList [OInt 0; OInt 1]], Done).
Proof. vm_compute. reflexivity. Qed.
Example ex_compr_cell_shared_slots : run_resolved 60 ex_compr_cell_shared = Some ([OList [OInt 1; OInt 1]], Done).
Proof. vm_compute. reflexivity. Qed.
Example ex_compr_cell_shared_not_strict : compr_vars_uncaptured ex_compr_cell_shared = false.
Proof. vm_compute. reflexivity. Qed.

(* def f():
       r = []
       for i in range(2):
           r.append([b for a in [i] if (a == 0 or b) for b in [2]])
       emit(r)
   f()
   reference (and Python): the second evaluation reads the still unassigned b and fails;
   slot machine (and starlark-rust): [[2], [2]] - the slot of b still holds the value of the first evaluation. *)
Definition ex_compr_stale_slot : list stmt :=
  [SDef 1 "f" []
     [SAssign 2 (TVar "r") (EList []);
      SFor 3 (TVar "i") (call0 "range" [EInt 2])
        [SExpr 4 (EMeth (EVar "r") "append"
                    [EListComp (EVar "b") [CFor (TVar "a") (EList [EVar "i"]);
                                           CIf (EOr (EBin BEq (EVar "a") (EInt 0)) (EVar "b"));
                                           CFor (TVar "b") (EList [EInt 2])]] [])];
      SExpr 5 (emit (EVar "r"))];
   SExpr 6 (call0 "f" [])].

Example ex_compr_stale_slot_ref : run_program 60 ex_compr_stale_slot = ([], Failed Unbound (Some 4)).
Proof. vm_compute. reflexivity. Qed.
Example ex_compr_stale_slot_slots :
  run_resolved 60 ex_compr_stale_slot = Some ([OList [OList [OInt 2]; OList [OInt 2]]], Done).
Proof. vm_compute. reflexivity. Qed.
