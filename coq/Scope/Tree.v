(* Name resolution, shared front: the scope tree of a MiniStar program.
   The scope tree records, in the traversal order of `resolve_idents*` of
   starlark/src/eval/compiler/scope.rs, every identifier *use* (`resolve_ident`) and every place where a
   scope is entered/left:
     KFun  = `resolve_idents_in_def`  (enter_def .. exit_def) for a `def` body or a `lambda` body, together
             with the names `collect_defines_in_def` puts into the new scope (parameters first);
     KComp = `resolve_idents_in_compr` between enter_compr/add_compr and exit_compr, with the names
             `add_compr` collects (ALL for-clause targets of the comprehension at once).
   What is outside which scope follows the Rust code: parameter defaults are resolved before enter_def;
   the first `for` clause of a comprehension (its iterable AND the index expressions of its target) is
   resolved before enter_compr; the def name is a definition of the enclosing scope, not a use.
   No proofs in this file. *)
From Coq Require Import String List Bool ZArith.
From SV Require Import Core.Syntax.
Import ListNotations.

Inductive sk :=
| KUse (x : string)
| KSeq (l : list sk)
| KFun (ps : list string) (names : list string) (body : sk)   (* ps = parameter names; names = all names of the scope *)
| KComp (names : list string) (body : sk).

Definition mem (x : string) (l : list string) : bool := existsb (String.eqb x) l.

(* SmallMap insertion: keep the first occurrence, preserve insertion order *)
Definition add_def (x : string) (acc : list string) : list string := if mem x acc then acc else acc ++ [x].

Definition dedup (l : list string) : list string := fold_left (fun acc x => add_def x acc) l [].

(* AssignTarget::collect_defines_lvalue / visit_lvalue: identifiers of a target, not index targets *)
Fixpoint collect_target (t : target) (acc : list string) : list string :=
  match t with
  | TVar x => add_def x acc
  | TTuple ts => fold_left (fun a t' => collect_target t' a) ts acc
  | TIndex _ _ => acc
  end.

(* Stmt::collect_defines: names defined in a scope; does not descend into nested defs *)
Fixpoint collect_stmt (s : stmt) (acc : list string) : list string :=
  match s with
  | SAssign _ t _ | SAug _ t _ _ => collect_target t acc
  | SFor _ t _ body => fold_left (fun a s' => collect_stmt s' a) body (collect_target t acc)
  | SDef _ name _ _ => add_def name acc
  | SIf _ _ th el =>
      fold_left (fun a s' => collect_stmt s' a) el (fold_left (fun a s' => collect_stmt s' a) th acc)
  | _ => acc
  end.

Definition collect_stmts (ss : list stmt) (acc : list string) : list string :=
  fold_left (fun a s' => collect_stmt s' a) ss acc.

(* collect_defines_in_def: the parameters first (in order), then the names defined in the body *)
Definition def_scope_names (ps : list param) (body : list stmt) : list string :=
  collect_stmts body (dedup (map param_name ps)).

(* add_compr: the targets of the first for and of every later for clause *)
Definition compr_names (cls : list clause) : list string :=
  fold_left (fun a c => match c with CFor t _ => collect_target t a | CIf _ => a end) cls [].

Definition sk_opt (f : expr -> sk) (o : option expr) : list sk :=
  match o with Some e => [f e] | None => [] end.

(* resolve_idents_in_compr; `cs` are the trees of the clauses (for: iterable then target; if: condition) *)
Definition compr_tree (cls : list clause) (cs : list sk) (items : list sk) : sk :=
  match cls, cs with
  | CFor _ _ :: _, c0 :: rest => KSeq [c0; KComp (compr_names cls) (KSeq (rest ++ items))]
  | _, _ => (* not produced by the parser (a comprehension starts with a for clause) *)
      KComp (compr_names cls) (KSeq (cs ++ items))
  end.

Fixpoint sk_expr (e : expr) : sk :=
  match e with
  | ENone | EBool _ | EInt _ | EStr _ => KSeq []
  | EVar x => KUse x
  | ETuple es | EList es => KSeq (map sk_expr es)
  | EDict kvs => KSeq (flat_map (fun kv => [sk_expr (fst kv); sk_expr (snd kv)]) kvs)
  | EUn _ a => KSeq [sk_expr a]
  | EBin _ a b | EAnd a b | EOr a b | EIndex a b => KSeq [sk_expr a; sk_expr b]
  | EIf c t f => KSeq [sk_expr c; sk_expr t; sk_expr f]
  | ESlice a lo hi st => KSeq (sk_expr a :: sk_opt sk_expr lo ++ sk_opt sk_expr hi ++ sk_opt sk_expr st)
  | ECall f args kwargs star dstar =>
      KSeq (sk_expr f :: map sk_expr args ++ map (fun kv => sk_expr (snd kv)) kwargs
            ++ sk_opt sk_expr star ++ sk_opt sk_expr dstar)
  | EMeth r _ args kwargs => KSeq (sk_expr r :: map sk_expr args ++ map (fun kv => sk_expr (snd kv)) kwargs)
  | ELambda ps body =>
      (* resolve_idents_in_def: defaults in the current scope, then enter_def, body, exit_def *)
      KSeq (map sk_param ps ++ [KFun (map param_name ps) (dedup (map param_name ps)) (sk_expr body)])
  | EListComp e cls => compr_tree cls (map sk_clause cls) [sk_expr e]
  | EDictComp k v cls => compr_tree cls (map sk_clause cls) [sk_expr k; sk_expr v]
  end

with sk_clause (c : clause) : sk :=
  match c with
  | CFor t e => KSeq [sk_expr e; sk_target t]         (* resolve_idents_in_for_clause: over, then var *)
  | CIf e => sk_expr e
  end

with sk_param (p : param) : sk :=
  match p with
  | PNormal _ (Some d) => sk_expr d
  | _ => KSeq []
  end

with sk_target (t : target) : sk :=                     (* resolve_idents_in_assign: only index expressions *)
  match t with
  | TVar _ => KSeq []
  | TTuple ts => KSeq (map sk_target ts)
  | TIndex a i => KSeq [sk_expr a; sk_expr i]
  end.

Fixpoint sk_stmt (s : stmt) : sk :=
  match s with
  | SExpr _ e => sk_expr e
  | SAssign _ t e => KSeq [sk_target t; sk_expr e]
  | SAug _ t _ e => KSeq [sk_target t; sk_expr e]
  | SIf _ c th el => KSeq (sk_expr c :: map sk_stmt th ++ map sk_stmt el)
  | SFor _ t e body => KSeq (sk_target t :: sk_expr e :: map sk_stmt body)
  | SReturn _ (Some e) => sk_expr e
  | SDef _ _ ps body =>
      KSeq (map sk_param ps ++
            [KFun (map param_name ps) (def_scope_names ps body) (KSeq (map sk_stmt body))])
  | _ => KSeq []
  end.

(* a module: the names `enter_module` collects from the top-level statements, and the tree *)
Definition module_names (prog : list stmt) : list string := collect_stmts prog [].
Definition sk_prog (prog : list stmt) : sk := KSeq (map sk_stmt prog).
