(* C01: the slot machine of Scope/SlotSem.v simulates the reference interpreter Core/Sem.v.
   Part A: every value-level operation of Core reads and writes only lists / dicts / transcript.
   Part B: the state relation and the generic simulation lemmas.
   Part C: variables, targets, comprehension scopes, closures, calls.
   Part D: the simulation by induction on the fuel; whole programs. *)
From Coq Require Import ZArith String List Bool Arith Lia.
From SV Require Import Core.Syntax Core.Values Core.Slice Core.Sem Core.SemProofs Scope.Tree.
From SV Require Scope.Proofs.
From SV Require Import Scope.SlotSyntax Scope.SlotSem.
Import ListNotations.
Local Open Scope nat_scope.
Local Open Scope slot_scope.

(* ================================================================================================================ *)
(* Part A *)
Definition sw (c : list (option value)) (k : list closure) (s : state) : state :=
  {| lists := lists s; dicts := dicts s; cells := c; clos := k; out := out s |}.
Definition rmap {A} (f : state -> state) (r : res A) : res A :=
  match r with Ok a s => Ok a (f s) | Fail e l s => Fail e l (f s) | OutOfFuel => OutOfFuel end.
(* the operation commutes with replacing the cells and the closures *)
Definition pure_op {A} (m : M A) : Prop := forall c k s, m (sw c k s) = rmap (sw c k) (m s).

Lemma sw_id s : sw (cells s) (clos s) s = s.
Proof. destruct s; reflexivity. Qed.
Lemma sw_sw c k c' k' s : sw c k (sw c' k' s) = sw c k s.
Proof. reflexivity. Qed.

Lemma forall2b_ext {A} (f g : A -> A -> bool) l1 l2 : (forall x y, f x y = g x y) -> forall2b f l1 l2 = forall2b g l1 l2.
Proof. intros H. revert l2. induction l1 as [|x xs IH]; intros [|y ys]; cbn; auto. rewrite H, IH. reflexivity. Qed.
Lemma lex_cmp_ext {A} (f g : A -> A -> option comparison) l1 l2 : (forall x y, f x y = g x y) -> lex_cmp f l1 l2 = lex_cmp g l1 l2.
Proof. intros H. revert l2. induction l1 as [|x xs IH]; intros [|y ys]; cbn; auto. rewrite H, IH. reflexivity. Qed.
Lemma forallb_ext' {A} (f g : A -> bool) l : (forall x, f x = g x) -> forallb f l = forallb g l.
Proof. intros H. induction l; cbn; auto. rewrite H, IHl. reflexivity. Qed.
Lemma existsb_ext' {A} (f g : A -> bool) l : (forall x, f x = g x) -> existsb f l = existsb g l.
Proof. intros H. induction l; cbn; auto. rewrite H, IHl. reflexivity. Qed.

Section SwFuns.
  Variables (c : list (option value)) (k : list closure) (s : state).
  Notation s' := (sw c k s).

  Lemma truth_sw v : truth s' v = truth s v.
  Proof. destruct v; reflexivity. Qed.
  Lemma obs_of_sw n v : obs_of n s' v = obs_of n s v.
  Proof.
    revert v. induction n as [|n IH]; intros v; [reflexivity|]. destruct v; cbn [obs_of]; try reflexivity.
    - f_equal. apply map_ext. exact IH.
    - cbn [lists sw]. destruct (nth_error (lists s) a) as [[l ?]|]; [|reflexivity]. f_equal. apply map_ext. exact IH.
    - cbn [dicts sw]. destruct (nth_error (dicts s) a) as [[l ?]|]; [|reflexivity]. f_equal. apply map_ext.
      intros kv. rewrite !IH. reflexivity.
  Qed.
  Lemma veq_sw n a b : veq n s' a b = veq n s a b.
  Proof.
    revert a b. induction n as [|n IH]; intros a b; [reflexivity|]. destruct a, b; cbn [veq]; try reflexivity.
    - apply forall2b_ext. exact IH.
    - cbn [lists sw]. destruct (Nat.eqb a a0); [reflexivity|].
      destruct (nth_error (lists s) a) as [[l1 ?]|], (nth_error (lists s) a0) as [[l2 ?]|]; try reflexivity.
      apply forall2b_ext. exact IH.
    - cbn [dicts sw]. destruct (Nat.eqb a a0); [reflexivity|].
      destruct (nth_error (dicts s) a) as [[l1 ?]|], (nth_error (dicts s) a0) as [[l2 ?]|]; try reflexivity.
      f_equal. apply forallb_ext'. intros kv. apply existsb_ext'. intros kv'. rewrite !IH. reflexivity.
  Qed.
  Lemma vcmp_sw n a b : vcmp n s' a b = vcmp n s a b.
  Proof.
    revert a b. induction n as [|n IH]; intros a b; [reflexivity|]. destruct a, b; cbn [vcmp]; try reflexivity.
    - apply lex_cmp_ext. exact IH.
    - cbn [lists sw]. destruct (nth_error (lists s) a) as [[l1 ?]|], (nth_error (lists s) a0) as [[l2 ?]|]; try reflexivity.
      apply lex_cmp_ext. exact IH.
  Qed.
  Lemma veqd_sw a b : veq depth s' a b = veq depth s a b.
  Proof. apply veq_sw. Qed.
  Lemma vcmpd_sw a b : vcmp depth s' a b = vcmp depth s a b.
  Proof. apply vcmp_sw. Qed.
  Lemma obsd_sw v : obs_of depth s' v = obs_of depth s v.
  Proof. apply obs_of_sw. Qed.
  Lemma memb_sw x l : memb s' x l = memb s x l.
  Proof. induction l as [|y l IH]; cbn [memb]; [reflexivity|]. rewrite (veqd_sw x y), IH. reflexivity. Qed.
  Lemma dict_get_sw d x : dict_get s' d x = dict_get s d x.
  Proof. induction d as [|[k' v] d IH]; cbn [dict_get]; [reflexivity|]. rewrite (veqd_sw x k'), IH. reflexivity. Qed.
  Lemma dict_set_sw d x v : dict_set s' d x v = dict_set s d x v.
  Proof. induction d as [|[k' v'] d IH]; cbn [dict_set]; [reflexivity|]. rewrite (veqd_sw x k'), IH. reflexivity. Qed.
  Lemma dict_del_sw d x : dict_del s' d x = dict_del s d x.
  Proof. induction d as [|[k' v'] d IH]; cbn [dict_del]; [reflexivity|]. rewrite (veqd_sw x k'), IH. reflexivity. Qed.
  Lemma dict_update_sw kvs : forall d, dict_update s' d kvs = dict_update s d kvs.
  Proof. induction kvs as [|[k' v'] kvs IH]; intros d; cbn [dict_update]; [reflexivity|]. rewrite dict_set_sw, IH. reflexivity. Qed.
  Lemma insert_sorted_sw x l : insert_sorted s' x l = insert_sorted s x l.
  Proof. induction l as [|y l IH]; cbn [insert_sorted]; [reflexivity|]. rewrite (vcmpd_sw x y), IH. reflexivity. Qed.
  Lemma sort_values_sw l : sort_values s' l = sort_values s l.
  Proof. induction l as [|y l IH]; cbn [sort_values]; [reflexivity|]. rewrite IH. destruct (sort_values s l); [|reflexivity]. apply insert_sorted_sw. Qed.
  Lemma insert_pair_sw p l : insert_pair s' p l = insert_pair s p l.
  Proof. induction l as [|y l IH]; cbn [insert_pair]; [reflexivity|]. rewrite (vcmpd_sw (fst p) (fst y)), IH. reflexivity. Qed.
  Lemma sort_pairs_sw l : sort_pairs s' l = sort_pairs s l.
  Proof. induction l as [|y l IH]; cbn [sort_pairs]; [reflexivity|]. rewrite IH. destruct (sort_pairs s l); [|reflexivity]. apply insert_pair_sw. Qed.
  Lemma sort_pairs_dir_sw b l : sort_pairs_dir s' b l = sort_pairs_dir s b l.
  Proof. unfold sort_pairs_dir. rewrite !sort_pairs_sw. reflexivity. Qed.
  Lemma extremum_sw w l : forall b, extremum s' w b l = extremum s w b l.
  Proof. induction l as [|y l IH]; intros b; cbn [extremum]; [reflexivity|]. rewrite (vcmpd_sw y b). destruct (vcmp depth s y b); [|reflexivity]. apply IH. Qed.
  Lemma remove_first_sw x l : remove_first s' x l = remove_first s x l.
  Proof. induction l as [|y l IH]; cbn [remove_first]; [reflexivity|]. rewrite (veqd_sw x y), IH. reflexivity. Qed.
  Lemma index_of_sw x l : forall i, Sem.index_of s' x l i = Sem.index_of s x l i.
  Proof. induction l as [|y l IH]; intros i; cbn [Sem.index_of]; [reflexivity|]. rewrite (veqd_sw x y), IH. reflexivity. Qed.
  Lemma map_obs_sw l : map (obs_of depth s') l = map (obs_of depth s) l.
  Proof. apply map_ext. apply obsd_sw. Qed.
  Lemma existsb_truth_sw l : existsb (truth s') l = existsb (truth s) l.
  Proof. apply existsb_ext'. apply truth_sw. Qed.
  Lemma forallb_truth_sw l : forallb (truth s') l = forallb (truth s) l.
  Proof. apply forallb_ext'. apply truth_sw. Qed.
End SwFuns.

Ltac sw_rw :=
  repeat first
    [ rewrite truth_sw | rewrite obsd_sw | rewrite veqd_sw | rewrite vcmpd_sw | rewrite memb_sw
    | rewrite dict_get_sw | rewrite dict_set_sw | rewrite dict_del_sw | rewrite dict_update_sw
    | rewrite sort_values_sw | rewrite sort_pairs_dir_sw | rewrite extremum_sw | rewrite remove_first_sw
    | rewrite index_of_sw | rewrite map_obs_sw | rewrite existsb_truth_sw | rewrite forallb_truth_sw ].

Lemma pure_ret {A} (a : A) : pure_op (ret a).
Proof. intros c k s. reflexivity. Qed.
Lemma pure_fail {A} e : pure_op (@fail A e).
Proof. intros c k s. reflexivity. Qed.
Lemma pure_bind {A B} (m : M A) (f : A -> M B) : pure_op m -> (forall a, pure_op (f a)) -> pure_op (bind m f).
Proof.
  intros Hm Hf c k s. unfold bind. rewrite Hm. destruct (m s) as [a s1|e l s1|]; cbn [rmap]; auto. apply Hf.
Qed.
Lemma pure_get_state {B} (f : state -> M B) :
  (forall s0, pure_op (f s0)) -> (forall c k s0 s1, f (sw c k s0) s1 = f s0 s1) -> pure_op (bind get_state f).
Proof. intros H1 H2 c k s. unfold bind, get_state. rewrite H2. apply H1. Qed.
Lemma pure_mapM {A B} (f : A -> M B) l : (forall x, pure_op (f x)) -> pure_op (mapM f l).
Proof.
  intros H. induction l as [|x xs IH]; cbn [mapM]; [apply pure_ret|].
  apply pure_bind; [apply H|]. intros y. apply pure_bind; [apply IH|]. intros ys. apply pure_ret.
Qed.
Lemma pure_get_list a : pure_op (get_list a).
Proof. intros c k s. unfold get_list. cbn [lists sw]. destruct (nth_error (lists s) a) as [[? ?]|]; reflexivity. Qed.
Lemma pure_get_dict a : pure_op (get_dict a).
Proof. intros c k s. unfold get_dict. cbn [dicts sw]. destruct (nth_error (dicts s) a) as [[? ?]|]; reflexivity. Qed.
Lemma pure_set_list a l : pure_op (set_list a l).
Proof. intros c k s. unfold set_list. cbn [lists sw]. destruct (nth_error (lists s) a) as [[? [|?]]|]; reflexivity. Qed.
Lemma pure_set_dict a l : pure_op (set_dict a l).
Proof. intros c k s. unfold set_dict. cbn [dicts sw]. destruct (nth_error (dicts s) a) as [[? [|?]]|]; reflexivity. Qed.
Lemma pure_set_list_elem a l : pure_op (set_list_elem a l).
Proof. intros c k s. unfold set_list_elem. cbn [lists sw]. destruct (nth_error (lists s) a) as [[? ?]|]; reflexivity. Qed.
Lemma pure_alloc_list l : pure_op (alloc_list l).
Proof. intros c k s. reflexivity. Qed.
Lemma pure_alloc_dict l : pure_op (alloc_dict l).
Proof. intros c k s. reflexivity. Qed.
Lemma pure_emit_obs o : pure_op (emit_obs o).
Proof. intros c k s. reflexivity. Qed.
Lemma pure_iter_lock v d : pure_op (iter_lock v d).
Proof.
  intros c k s. unfold iter_lock. destruct v; try reflexivity.
  - cbn [lists sw]. destruct (nth_error (lists s) a) as [[? ?]|]; reflexivity.
  - cbn [dicts sw]. destruct (nth_error (dicts s) a) as [[? ?]|]; reflexivity.
Qed.
Lemma pure_dict_keep d l : pure_op (fun st => match nth_error (dicts st) d with
                            | Some (_, c) => Ok tt {| lists := lists st; dicts := upd (dicts st) d (l, c);
                                                      cells := cells st; clos := clos st; out := out st |}
                            | None => Fail Unsupported None st end).
Proof. intros c k s. cbn [dicts sw]. destruct (nth_error (dicts s) d) as [[? ?]|]; reflexivity. Qed.

Ltac is_bool_term c := match type of c with bool => idtac end.

(* one structural step; `get_state` continuations are discharged by destructing until the state-dependent calls are
   closed terms, then rewriting with the _sw lemmas *)
Ltac pure_leaf :=
  first [ apply pure_ret | apply pure_fail | apply pure_get_list | apply pure_get_dict | apply pure_set_list
        | apply pure_set_dict | apply pure_set_list_elem | apply pure_alloc_list | apply pure_alloc_dict
        | apply pure_emit_obs | apply pure_iter_lock | apply pure_dict_keep ].
Ltac pure_eq :=
  intros;
  repeat match goal with
         | |- context [match ?x with _ => _ end] => is_var x; destruct x
         | |- context [if ?x then _ else _] => is_var x; destruct x
         end;
  sw_rw; try reflexivity.
Ltac pure_step :=
  match goal with
  | |- pure_op (bind get_state _) => apply pure_get_state; [intro | ]
  | |- pure_op (bind _ _) => apply pure_bind; [|intro]
  | |- pure_op (mapM _ _) => apply pure_mapM; intro
  | |- pure_op (match ?x with _ => _ end) => destruct x
  | |- pure_op (if ?x then _ else _) => destruct x
  | |- pure_op (let '(_, _) := ?x in _) => destruct x
  | |- pure_op _ => pure_leaf
  end.

Lemma pure_iter_elems v : pure_op (iter_elems v).
Proof. unfold iter_elems. repeat pure_step. Qed.
Lemma pure_check_hashable v : pure_op (check_hashable v).
Proof. unfold check_hashable. repeat pure_step. Qed.
Lemma pure_as_int v : pure_op (as_int v).
Proof. unfold as_int. repeat pure_step. Qed.
Lemma pure_veqM a b : pure_op (veqM a b).
Proof. unfold veqM. apply pure_get_state; [intro; apply pure_ret|]. intros. sw_rw. reflexivity. Qed.
Lemma pure_obs_list vs : pure_op (obs_list vs).
Proof. unfold obs_list. apply pure_get_state; [intro; apply pure_ret|]. intros. sw_rw. reflexivity. Qed.
Lemma pure_lift_sres r : pure_op (lift_sres r).
Proof. unfold lift_sres. repeat pure_step. Qed.
Lemma pure_truth v : pure_op (s <- get_state ;; ret (truth s v)).
Proof. apply pure_get_state; [intro; apply pure_ret|]. intros. sw_rw. reflexivity. Qed.

Ltac pure_known :=
  first [ apply pure_iter_elems | apply pure_check_hashable | apply pure_as_int | apply pure_veqM
        | apply pure_obs_list | apply pure_lift_sres | apply pure_truth ].
Ltac pure_tac := repeat first [ pure_known | pure_step ].

Lemma pure_contains a b : pure_op (contains a b).
Proof.
  unfold contains. destruct b; try apply pure_fail.
  - destruct a; pure_tac.
  - apply pure_get_state; [intro; apply pure_ret|]. intros. sw_rw. reflexivity.
  - apply pure_bind; [apply pure_get_list|]. intros xs. apply pure_get_state; [intro; apply pure_ret|]. intros. sw_rw. reflexivity.
  - apply pure_bind; [apply pure_check_hashable|]. intros _. apply pure_bind; [apply pure_get_dict|]. intros kvs.
    apply pure_get_state; [intro; apply pure_ret|]. intros. sw_rw. reflexivity.
  - destruct a; pure_tac.
Qed.

Lemma pure_binop_eval o a b : pure_op (binop_eval o a b).
Proof.
  unfold binop_eval. destruct o;
  try (apply pure_bind; [first [apply pure_veqM | apply pure_contains]|intro; apply pure_ret]);
  try (apply pure_get_state; [intro s0; destruct (vcmp depth s0 a b); pure_tac | intros; sw_rw; reflexivity]);
  destruct a, b; pure_tac.
Qed.

Lemma pure_unop_eval o a : pure_op (unop_eval o a).
Proof.
  unfold unop_eval. destruct o, a; try apply pure_ret; try apply pure_fail;
  (apply pure_get_state; [intro; apply pure_ret|intros; sw_rw; reflexivity]).
Qed.

Lemma pure_index_eval a i : pure_op (index_eval a i).
Proof.
  unfold index_eval. destruct a; try apply pure_fail; pure_tac.
  intros; sw_rw; reflexivity.
Qed.

Lemma pure_opt_int v : pure_op (opt_int v).
Proof. unfold opt_int. pure_tac. Qed.

Lemma pure_slice_eval a lo hi st : pure_op (slice_eval a lo hi st).
Proof.
  unfold slice_eval. apply pure_bind; [apply pure_opt_int|intro]. apply pure_bind; [apply pure_opt_int|intro].
  apply pure_bind; [apply pure_opt_int|intro]. destruct a; pure_tac.
Qed.

Lemma pure_set_index a i v : pure_op (set_index a i v).
Proof.
  unfold set_index. destruct a; try apply pure_fail; pure_tac.
  intros; sw_rw; reflexivity.
Qed.

Ltac pure_auto := repeat first [ pure_known | pure_step ]; try (intros; sw_rw; reflexivity).

Lemma pure_str_of v : pure_op (str_of v).
Proof. unfold str_of. pure_auto. Qed.

Lemma pure_call_builtin b args kwargs : pure_op (call_builtin b args kwargs).
Proof.
  unfold call_builtin. destruct kwargs; [|apply pure_fail].
  repeat match goal with |- pure_op (if ?c then _ else _) => destruct c end;
  try apply pure_fail.
  all: try (apply pure_bind; [apply pure_str_of|intro; apply pure_ret]).
  all: pure_auto.
  all: apply pure_str_of.
Qed.

Lemma pure_call_method recv m args : pure_op (call_method recv m args).
Proof.
  unfold call_method. destruct recv; try apply pure_fail.
  - repeat match goal with |- pure_op (if ?c then _ else _) => destruct c end; pure_auto.
  - apply pure_bind; [apply pure_get_list|intro xs].
    repeat match goal with |- pure_op (if ?c then _ else _) => destruct c end; pure_auto.
  - apply pure_bind; [apply pure_get_dict|intro kvs].
    apply pure_get_state.
    + intro s0. repeat match goal with |- pure_op (if ?c then _ else _) => destruct c end; pure_auto.
    + intros c k s0 s1.
      repeat match goal with |- (if ?c then _ else _) _ = _ => destruct c end;
      repeat match goal with |- (match ?x with _ => _ end) _ = _ => destruct x end;
      sw_rw; try reflexivity.
      unfold bind at 1 3. destruct (get_dict a0 s1); try reflexivity. sw_rw. reflexivity.
Qed.

Lemma pure_call_method_kw recv m args kwargs : pure_op (call_method_kw recv m args kwargs).
Proof.
  unfold call_method_kw. destruct kwargs; [apply pure_call_method|]. destruct recv; pure_auto.
Qed.

Lemma pure_aug_result o a b : pure_op (aug_result o a b).
Proof.
  unfold aug_result, aug_list_inplace. destruct o; try apply pure_binop_eval.
  destruct a; try apply pure_binop_eval. pure_auto.
Qed.

(* ================================================================================================================ *)
(* Part B: the relation between a state of the reference interpreter and a state of the slot machine.
   Values, list and dict addresses, closure addresses and the transcript are EQUAL on both sides; the reference
   has one cell per variable, the machine has frame slots, module slots and (lazily allocated) captured cells.
   `r a c` relates the reference cell `a` of a captured variable to the machine cell `c`. *)
Definition rho := nat -> nat -> Prop.
Definition sub (r r' : rho) : Prop := forall a c, r a c -> r' a c.
Definition dom (r : rho) (a : nat) : Prop := exists c, r a c.
Lemma sub_refl r : sub r r. Proof. intros a c H. exact H. Qed.
Lemma sub_trans r1 r2 r3 : sub r1 r2 -> sub r2 r3 -> sub r1 r3. Proof. intros H1 H2 a c H. auto. Qed.

Definition erase_default (p : param) : param := match p with PNormal x _ => PNormal x None | _ => p end.

Definition locals_of (b : body) : list string := match b with BStmts ss => body_names ss | BExpr _ => [] end.

Definition own (en : env) (sc : scope) (a : nat) : Prop :=
  exists x e, sassoc x (sc_entries sc) = Some e /\ lookup x en = Some a.
Definition vslot (sc : scope) (i : nat) : Prop := exists x k, sassoc x (sc_entries sc) = Some (i, k).

Definition is_unbound (e : err) : bool := match e with Unbound => true | _ => false end.

Section Sim.
Variable genv : env.
Variable mods : list string.
Hypothesis genv_nodup : NoDup (map snd genv).
Hypothesis genv_mods : forall x, sidx x mods = None -> lookup x genv = None.

Notation cexprT := (cexpr true mods).
Notation cstmtT := (cstmt true mods).

Definition body_compiled (sc' : scope) (n : nat) (b : body) (b' : sbody) (kf : nat) : Prop :=
  match b, b' with
  | BStmts ss, SBStmts ss' => omapS (cstmtT sc') n ss = Some (ss', kf)
  | BExpr e, SBExpr e' => cexprT sc' n e = Some (e', kf)
  | _, _ => False
  end.

Inductive clo_rel (r : rho) (N : nat) (cl : closure) (scl : sclosure) : Prop :=
| CloRel (cr_sc cr_sc' : scope) (cr_slotnames : list string) (cr_capt : string -> bool) (cr_free : list string)
    (cr_n : nat)
    (cr_params : sc_params scl = map erase_default (c_params cl))
    (cr_dflts : sc_defaults scl = c_defaults cl)
    (cr_pnd : NoDup (map param_name (c_params cl)))
    (cr_names : forall x, In x cr_slotnames <-> In x (map param_name (c_params cl) ++ locals_of (c_body cl)))
    (cr_snd : NoDup cr_slotnames)
    (cr_scope : fun_scope cr_sc cr_slotnames cr_capt cr_free = Some (cr_sc', di_parents (sc_info scl), cr_n))
    (cr_dnames : di_names (sc_info scl) = cr_slotnames)
    (cr_wrap : di_wrap (sc_info scl) = wrap_slots cr_slotnames (map param_name (c_params cl)) cr_capt)
    (cr_body : body_compiled cr_sc' cr_n (c_body cl) (sc_body scl) (di_nslots (sc_info scl)))
    (cr_end : NoDup (map snd (c_env cl)))
    (cr_ebound : forall a, In a (map snd (c_env cl)) -> a < N)
    (cr_copied : Forall2 (fun x c => exists a, lookup x (c_env cl) = Some a /\ r a c)
                         (filter (is_local cr_sc) (dedup cr_free)) (sc_captured scl))
    (cr_outer : forall x, is_local cr_sc x = false -> mem x (sc_hidden cr_sc) = false ->
                          lookup x (c_env cl) = lookup x genv).

Record GInv (r : rho) (s : state) (t : sstate) : Prop := {
  g_lists : lists s = lists (base t);
  g_dicts : dicts s = dicts (base t);
  g_out : out s = out (base t);
  g_fun : forall a c c', r a c -> r a c' -> c = c';
  g_inj : forall a a' c, r a c -> r a' c -> a = a';
  g_cells : forall a c, r a c -> a < length (cells s) /\ c < length (cells (base t)) /\
                                  nth_error (cells s) a = nth_error (cells (base t)) c /\ ~ In a (map snd genv);
  g_genv : forall a, In a (map snd genv) -> a < length (cells s);
  g_mods : forall x j, sidx x mods = Some j ->
             exists a o, lookup x genv = Some a /\ nth_error (cells s) a = Some o /\ nth_error (smods t) j = Some o;
  g_clen : length (clos s) = length (sclos t);
  g_clos : forall k cl scl, nth_error (clos s) k = Some cl -> nth_error (sclos t) k = Some scl ->
             clo_rel r (length (cells s)) cl scl
}.

Record FrameRel (en : env) (sc : scope) (r : rho) (s : state) (t : sstate) : Prop := {
  f_nodup : NoDup (map snd en);
  f_bound : forall a, In a (map snd en) -> a < length (cells s);
  f_sinj : forall x y i k k', sassoc x (sc_entries sc) = Some (i, k) -> sassoc y (sc_entries sc) = Some (i, k') -> x = y;
  f_vars : forall x,
    match sassoc x (sc_entries sc) with
    | Some (i, false) => exists a, lookup x en = Some a /\ ~ dom r a /\ ~ In a (map snd genv) /\
                                   (forall v, nth_error (cells s) a = Some (Some v) -> fget (cur t) i = FVal v)
    | Some (i, true) => exists a, lookup x en = Some a /\ ~ In a (map snd genv) /\
                                  ((fget (cur t) i = FEmpty /\ nth_error (cells s) a = Some None /\ ~ dom r a) \/
                                   (exists c, fget (cur t) i = FCell c /\ r a c))
    | None => mem x (sc_hidden sc) = false -> lookup x en = lookup x genv
    end
}.

(* what a computation may have done to the reference cells and to the cell relation:
   O = the cells of the variables visible in the current frame *)
Record PostC (O : nat -> Prop) (r r' : rho) (s s' : state) : Prop := {
  p_sub : sub r r';
  p_len : length (cells s) <= length (cells s');
  p_cells : forall a, a < length (cells s) -> ~ O a -> ~ dom r a -> ~ In a (map snd genv) ->
              nth_error (cells s') a = nth_error (cells s) a;
  p_dom : forall a, dom r' a -> dom r a \/ length (cells s) <= a \/ O a
}.

Lemma PostC_refl O r s : PostC O r r s s.
Proof. constructor; auto using sub_refl. Qed.

Lemma PostC_trans O r1 r2 r3 s1 s2 s3 : PostC O r1 r2 s1 s2 -> PostC O r2 r3 s2 s3 -> PostC O r1 r3 s1 s3.
Proof.
  intros [A1 A2 A3 A4] [B1 B2 B3 B4]. constructor.
  - eapply sub_trans; eassumption.
  - lia.
  - intros a Ha HO Hd Hg. rewrite B3; auto; try lia.
    intros Hd2. destruct (A4 a Hd2) as [?|[?|?]]; auto; lia.
  - intros a Hd. destruct (B4 a Hd) as [H|[H|H]]; auto.
    right; left; lia.
Qed.

Lemma PostC_weaken (O O' : nat -> Prop) r r' s s' : (forall a, O a -> O' a) -> PostC O r r' s s' -> PostC O' r r' s s'.
Proof.
  intros H [A1 A2 A3 A4]. constructor; auto.
  intros a Hd. destruct (A4 a Hd) as [?|[?|?]]; auto.
Qed.

Class GenOK (Fi : rho -> state -> sstate -> Prop) (FP : sstate -> sstate -> Prop) : Prop := {
  FP_refl : forall t, FP t t;
  FP_trans : forall t1 t2 t3, FP t1 t2 -> FP t2 t3 -> FP t1 t3;
  FP_base : forall t b, FP t (with_base t b);
  Fi_stable : forall r s t s' b, Fi r s t -> cells s' = cells s -> Fi r s' (with_base t b)
}.

Section Gen.
  (* Fi: the invariant of the current frame; O: its cells; FP: what may have happened to the current frame *)
  Variable Fi : rho -> state -> sstate -> Prop.
  Variable O : nat -> Prop.
  Variable FP : sstate -> sstate -> Prop.
  Context {Hok : GenOK Fi FP}.

  Definition rres {A} (r : rho) (s : state) (t : sstate) (x : res A) (y : sres A) : Prop :=
    match x with
    | Ok a s' => match y with
                 | SOk b t' => a = b /\ exists r', GInv r' s' t' /\ Fi r' s' t' /\ PostC O r r' s s' /\ FP t t'
                 | _ => False end
    | Fail e l s' => if is_unbound e then True
                     else match y with
                          | SFail e' l' t' => e = e' /\ l = l' /\ out s' = out (base t')
                          | _ => False end
    | OutOfFuel => match y with SOutOfFuel => True | _ => False end
    end.

  Definition sim {A} (m : M A) (sm : SM A) : Prop :=
    forall r s t, GInv r s t -> Fi r s t -> rres r s t (m s) (sm t).

  Lemma rres_compose {A} r r1 s s1 t t1 (x : res A) y :
    PostC O r r1 s s1 -> FP t t1 -> rres r1 s1 t1 x y -> rres r s t x y.
  Proof.
    intros HP HF H. unfold rres in *. destruct x as [a s2|e l s2|]; auto.
    destruct y as [b t2|?|]; auto. destruct H as [E (r2 & G & HI & P & F)]. split; [exact E|].
    exists r2. split; [exact G|]. split; [exact HI|]. split; [eapply PostC_trans; eassumption|eapply FP_trans; eassumption].
  Qed.

  Lemma sim_ret {A} (a : A) : sim (ret a) (sret a).
  Proof.
    intros r s t G HI. cbn. split; [reflexivity|]. exists r. split; [exact G|]. split; [exact HI|]. split; [apply PostC_refl|apply FP_refl].
  Qed.

  Lemma sim_fail {A} e : sim (@fail A e) (@sfail A e).
  Proof. intros r s t G HI. cbn. destruct (is_unbound e); auto. repeat split; auto. apply (g_out _ _ _ G). Qed.

  Lemma sim_bind {A B} (m : M A) (sm : SM A) (f : A -> M B) (g : A -> SM B) :
    sim m sm -> (forall a, sim (f a) (g a)) -> sim (bind m f) (sbind sm g).
  Proof.
    intros Hm Hf r s t G HI. specialize (Hm r s t G HI). unfold bind, sbind, rres in *.
    destruct (m s) as [a s1|e l s1|].
    - destruct (sm t) as [b t1|?|]; try contradiction. destruct Hm as [<- (r1 & G1 & I1 & P1 & F1)].
      eapply rres_compose; [exact P1|exact F1|]. apply Hf; assumption.
    - destruct (is_unbound e); auto. destruct (sm t); try (exfalso; exact Hm). exact Hm.
    - destruct (sm t); try (exfalso; exact Hm). exact I.
  Qed.

  Lemma sim_mapM {A B} (f : A -> M B) (g : A -> SM B) l : (forall x, sim (f x) (g x)) -> sim (mapM f l) (smapM g l).
  Proof.
    intros H. induction l as [|x xs IH]; cbn [mapM smapM]; [apply sim_ret|].
    apply sim_bind; [apply H|]. intros y. apply sim_bind; [apply IH|]. intros ys. apply sim_ret.
  Qed.

  (* elementwise, for lists translated by the resolver *)
  Lemma sim_mapM2 {A A' B} (R : A -> A' -> Prop) (f : A -> M B) (g : A' -> SM B) l l' :
    Forall2 R l l' -> (forall x x', R x x' -> sim (f x) (g x')) -> sim (mapM f l) (smapM g l').
  Proof.
    intros F H. induction F as [|x x' l l' Hx _ IH]; cbn [mapM smapM]; [apply sim_ret|].
    apply sim_bind; [apply H; exact Hx|]. intros y. apply sim_bind; [apply IH|]. intros ys. apply sim_ret.
  Qed.

  Lemma core_sw r s t : GInv r s t -> s = sw (cells s) (clos s) (base t).
  Proof. intros G. destruct s. unfold sw. cbn. rewrite <- (g_lists _ _ _ G), <- (g_dicts _ _ _ G), <- (g_out _ _ _ G). reflexivity. Qed.

  Lemma GInv_pure r s t s' b' :
    GInv r s t -> s' = sw (cells s) (clos s) b' -> cells b' = cells (base t) -> GInv r s' (with_base t b').
  Proof.
    intros G -> Hc. destruct G. constructor; cbn [sw with_base base sclos smods cur lists dicts out cells clos]; auto.
    - intros a c H. rewrite Hc. auto.
  Qed.

  (* a value-level operation of Core, run on both sides *)
  Lemma sim_lift {A} (m : M A) : pure_op m -> sim m (lift m).
  Proof.
    intros Hp r s t G HI. unfold lift, rres.
    pose proof (core_sw _ _ _ G) as Es.
    pose proof (Hp (cells s) (clos s) (base t)) as E1. rewrite <- Es in E1.
    pose proof (Hp (cells (base t)) (clos (base t)) (base t)) as E2. rewrite sw_id in E2.
    rewrite E1. destruct (m (base t)) as [a b|e l b|]; cbn [rmap] in *.
    - split; [reflexivity|]. exists r.
      assert (Hc : cells b = cells (base t)) by (inversion E2 as [E3]; rewrite E3 at 1; reflexivity).
      split; [exact (GInv_pure r s t _ b G eq_refl Hc)|]. split; [apply Fi_stable with (s := s); [exact HI|reflexivity]|].
      split; [|apply FP_base]. constructor; auto using sub_refl.
    - destruct (is_unbound e); auto.
    - exact I.
  Qed.

  Lemma sim_at_line {A} ln (m : M A) (sm : SM A) : sim m sm -> sim (at_line ln m) (sat_line ln sm).
  Proof.
    intros H r s t G HI. specialize (H r s t G HI). unfold at_line, sat_line, rres in *.
    destruct (m s) as [a s1|e l s1|].
    - destruct (sm t); try contradiction. exact H.
    - destruct (is_unbound e) eqn:Eu.
      + destruct l; cbn; rewrite Eu; exact I.
      + destruct (sm t) as [|e' l' t1|]; try contradiction. destruct H as (<- & <- & Ho).
        destruct l; cbn; rewrite Eu; auto.
    - destruct (sm t); try contradiction. exact I.
  Qed.

  Lemma out_iter_lock v d s u s' : iter_lock v d s = Ok u s' -> out s' = out s.
  Proof.
    unfold iter_lock. destruct v; try (intros H; inversion H; reflexivity).
    - destruct (nth_error (lists s) a) as [[? ?]|]; intros H; inversion H; reflexivity.
    - destruct (nth_error (dicts s) a) as [[? ?]|]; intros H; inversion H; reflexivity.
  Qed.
  Lemma iter_lock_ok v d s : exists s', iter_lock v d s = Ok tt s'.
  Proof.
    unfold iter_lock. destruct v; eauto.
    - destruct (nth_error (lists s) a) as [[? ?]|]; eauto.
    - destruct (nth_error (dicts s) a) as [[? ?]|]; eauto.
  Qed.

  Lemma sim_with_lock {A} v (m : M A) (sm : SM A) : sim m sm -> sim (with_lock v m) (swith_lock v sm).
  Proof.
    intros H r s t G HI. unfold with_lock, swith_lock.
    pose proof (sim_lift (iter_lock v true) (pure_iter_lock v true) r s t G HI) as L1. unfold rres in L1.
    destruct (iter_lock_ok v true s) as [s1 E1]. rewrite E1 in *.
    destruct (lift (iter_lock v true) t) as [u t1|?|]; try contradiction.
    destruct L1 as [_ (r1 & G1 & I1 & P1 & F1)].
    specialize (H r1 s1 t1 G1 I1). unfold rres in H.
    destruct (m s1) as [a s2|e l s2|].
    - destruct (sm t1) as [b t2|?|]; try contradiction. destruct H as [<- (r2 & G2 & I2 & P2 & F2)].
      pose proof (sim_lift (iter_lock v false) (pure_iter_lock v false) r2 s2 t2 G2 I2) as L2. unfold rres in L2.
      destruct (iter_lock_ok v false s2) as [s3 E3]. rewrite E3 in *.
      destruct (lift (iter_lock v false) t2) as [u' t3|?|]; try contradiction.
      destruct L2 as [_ (r3 & G3 & I3 & P3 & F3)]. cbn. split; [reflexivity|]. exists r3.
      split; [exact G3|]. split; [exact I3|]. split.
      + eapply PostC_trans; [exact P1|]. eapply PostC_trans; eassumption.
      + eapply FP_trans; [exact F1|]. eapply FP_trans; eassumption.
    - unfold rres. destruct (is_unbound e) eqn:Eu.
      + destruct (iter_lock v false s2); cbn; rewrite ?Eu; auto.
      + destruct (sm t1) as [|e' l' t2|]; try contradiction. destruct H as (<- & <- & Ho).
        destruct (iter_lock_ok v false s2) as [s3 E3]. rewrite E3. cbn. rewrite Eu.
        unfold lift. destruct (iter_lock_ok v false (base t2)) as [b3 E4]. rewrite E4. cbn.
        repeat split; auto. rewrite (out_iter_lock _ _ _ _ _ E3), (out_iter_lock _ _ _ _ _ E4). exact Ho.
    - destruct (sm t1); try contradiction. exact I.
  Qed.

  Lemma sim_run_block (ex : stmt -> M ctrl) (sx : sstmt -> SM ctrl) ss ss' :
    Forall2 (fun st st' => sim (ex st) (sx st')) ss ss' -> sim (run_block ex ss) (srun_block sx ss').
  Proof.
    intros F. induction F as [|st st' ss ss' H _ IH]; cbn [run_block srun_block]; [apply sim_ret|].
    apply sim_bind; [exact H|]. intros c. destruct c; try apply sim_ret. exact IH.
  Qed.

  Lemma sim_for_loop (b : value -> M ctrl) (sb : value -> SM ctrl) vs :
    (forall v, sim (b v) (sb v)) -> sim (for_loop b vs) (sfor_loop sb vs).
  Proof.
    intros H. induction vs as [|v vs IH]; cbn [for_loop sfor_loop]; [apply sim_ret|].
    apply sim_bind; [apply H|]. intros c. destruct c; try apply sim_ret; exact IH.
  Qed.

  (* truth of a value: `s <- get_state ;; if truth s x ...` against `b <~ struth x ;; if b ...` *)
  Lemma sim_truth {A} x (f : bool -> M A) (g : bool -> SM A) :
    (forall b, sim (f b) (g b)) -> sim (s <- get_state ;; f (truth s x)) (sbind (struth x) g).
  Proof.
    intros H r s t G HI.
    assert (E : (s0 <- get_state ;; f (truth s0 x)) s = bind (s0 <- get_state ;; ret (truth s0 x)) f s) by reflexivity.
    rewrite E. unfold struth. apply sim_bind; [apply sim_lift, pure_truth|exact H|exact G|exact HI].
  Qed.
End Gen.

(* ================================================================================================================ *)
(* Part C.1: lists, frames, environments *)
Lemma fget_fset_eq fr i x : fget (fset fr i x) i = x.
Proof.
  unfold fget. revert fr. induction i as [|i IH]; intros [|h r]; cbn; auto.
Qed.
Lemma fget_fset_neq fr i j x : i <> j -> fget (fset fr i x) j = fget fr j.
Proof.
  unfold fget. revert fr j. induction i as [|i IH]; intros [|h r] [|j] H; cbn; auto; try congruence.
  - destruct j; reflexivity.
  - rewrite IH by congruence. destruct j; reflexivity.
Qed.
Lemma fget_repeat n i : fget (repeat FEmpty n) i = FEmpty.
Proof. unfold fget. revert i. induction n; intros [|i]; cbn; auto. Qed.

Lemma nth_error_upd_eq {X} (l : list X) a x : a < length l -> nth_error (upd l a x) a = Some x.
Proof. revert a. induction l as [|h t IH]; intros [|a] H; cbn in *; try lia; auto. apply IH. lia. Qed.
Lemma nth_error_upd_neq {X} (l : list X) a a' x : a <> a' -> nth_error (upd l a x) a' = nth_error l a'.
Proof. revert a a'. induction l as [|h t IH]; intros [|a] [|a'] H; cbn; auto; try congruence. Qed.
Lemma length_upd {X} (l : list X) a x : length (upd l a x) = length l.
Proof. revert a. induction l as [|h t IH]; intros [|a]; cbn; auto. Qed.

Lemma lookup_app x e1 e2 : lookup x (e1 ++ e2) = match lookup x e1 with Some a => Some a | None => lookup x e2 end.
Proof. induction e1 as [|[y a] e1 IH]; cbn; auto. destruct (String.eqb x y); auto. Qed.
Lemma lookup_In x en a : lookup x en = Some a -> In a (map snd en).
Proof.
  induction en as [|[y b] en IH]; cbn; [discriminate|]. destruct (String.eqb x y); [intros H; inversion H; auto|auto].
Qed.
Lemma lookup_nodup_inj en x y a : NoDup (map snd en) -> lookup x en = Some a -> lookup y en = Some a -> x = y.
Proof.
  induction en as [|[z b] en IH]; cbn; [discriminate|]. intros ND Hx Hy. inversion ND as [|? ? Hn ND']; subst.
  destruct (String.eqb_spec x z), (String.eqb_spec y z); subst; auto.
  - inversion Hx; subst. exfalso. apply Hn. eapply lookup_In; eauto.
  - inversion Hy; subst. exfalso. apply Hn. eapply lookup_In; eauto.
Qed.
Lemma lookup_none_notin x en : lookup x en = None <-> ~ In x (map fst en).
Proof.
  induction en as [|[y b] en IH]; cbn; [tauto|]. destruct (String.eqb_spec x y); subst.
  - split; [discriminate|]. intros H. exfalso. auto.
  - rewrite IH. split; [intros H [E|E]; auto|tauto].
Qed.

Lemma sassoc_app {V} x (l1 l2 : list (string * V)) :
  sassoc x (l1 ++ l2) = match sassoc x l1 with Some v => Some v | None => sassoc x l2 end.
Proof. induction l1 as [|[y v] l1 IH]; cbn; auto. destruct (String.eqb x y); auto. Qed.
Lemma sassoc_none {V} x (l : list (string * V)) : sassoc x l = None <-> ~ In x (map fst l).
Proof.
  induction l as [|[y b] l IH]; cbn; [tauto|]. destruct (String.eqb_spec x y); subst.
  - split; [discriminate|]. intros H. exfalso. auto.
  - rewrite IH. split; [intros H [E|E]; auto|tauto].
Qed.

Lemma sidx_lt x l i : sidx x l = Some i -> i < length l.
Proof.
  revert i. induction l as [|y l IH]; cbn; [discriminate|]. intros i. destruct (String.eqb x y).
  - intros H; inversion H; lia.
  - destruct (sidx x l); cbn; [|discriminate]. intros H; inversion H. specialize (IH _ eq_refl). lia.
Qed.
Lemma sidx_nth x l i : sidx x l = Some i -> nth_error l i = Some x.
Proof.
  revert i. induction l as [|y l IH]; cbn; [discriminate|]. intros i. destruct (String.eqb_spec x y).
  - intros H; inversion H; subst; reflexivity.
  - destruct (sidx x l); cbn; [|discriminate]. intros H; inversion H. cbn. apply IH. reflexivity.
Qed.
Lemma sidx_inj x y l i : sidx x l = Some i -> sidx y l = Some i -> x = y.
Proof. intros H1 H2. apply sidx_nth in H1. apply sidx_nth in H2. congruence. Qed.
Lemma sidx_none x l : sidx x l = None <-> ~ In x l.
Proof.
  induction l as [|y l IH]; cbn; [tauto|]. destruct (String.eqb_spec x y); subst.
  - split; [discriminate|]. intros H. exfalso. auto.
  - destruct (sidx x l); cbn.
    + split; [discriminate|]. intros H. exfalso. apply H. right. apply Decidable.not_not; [|intros C; apply IH in C; discriminate].
      unfold Decidable.decidable. destruct (in_dec string_dec x l); auto.
    + split; [|reflexivity]. intros _ [E|E]; [congruence|]. apply IH in E; auto.
Qed.
Lemma sidx_some x l : In x l -> exists i, sidx x l = Some i.
Proof. intros H. destruct (sidx x l) eqn:E; eauto. apply sidx_none in E. contradiction. Qed.

(* entries built from an indexed list of names *)
Lemma sassoc_indexed (f : string -> bool) x l k :
  sassoc x (map (fun ix : nat * string => (snd ix, (fst ix, f (snd ix)))) (indexed k l)) =
  option_map (fun i => (k + i, f x)) (sidx x l).
Proof.
  unfold indexed. revert k. induction l as [|y l IH]; intros k; cbn; [reflexivity|].
  destruct (String.eqb_spec x y); subst; cbn.
  - rewrite Nat.add_0_r. reflexivity.
  - rewrite IH. destruct (sidx x l); cbn; [|reflexivity]. do 2 f_equal. lia.
Qed.

Lemma mem_eq x l : mem x l = existsb (String.eqb x) l.
Proof. reflexivity. Qed.

Lemma sc_bound_lt sc x i k : sassoc x (sc_entries sc) = Some (i, k) -> i < sc_bound sc.
Proof.
  unfold sc_bound. induction (sc_entries sc) as [|[y [j b]] l IH]; cbn [sassoc fold_right fst snd]; [discriminate|].
  destruct (String.eqb x y).
  - intros H; inversion H; subst. lia.
  - intros H. specialize (IH H). lia.
Qed.

(* the reference interpreter's dedup keeps the same names *)
Lemma sem_dedup_In l x : In x (Sem.dedup l) <-> In x l.
Proof.
  induction l as [|y l IH]; cbn; [tauto|].
  destruct (existsb (String.eqb y) l) eqn:E.
  - rewrite IH. split; auto. intros [->|H]; auto.
    apply existsb_exists in E. destruct E as (z & Hz & Ez). apply String.eqb_eq in Ez. subst. exact Hz.
  - cbn. rewrite IH. tauto.
Qed.

(* alloc_cells: fresh consecutive cells *)
Lemma alloc_cells_spec names s :
  exists new, alloc_cells names s =
    Ok new {| lists := lists s; dicts := dicts s; cells := cells s ++ repeat None (length names); clos := clos s; out := out s |} /\
    map fst new = names /\ map snd new = seq (length (cells s)) (length names).
Proof.
  revert s. induction names as [|x names IH]; intros s; cbn [alloc_cells].
  - exists []. cbn. rewrite app_nil_r. destruct s; auto.
  - unfold bind at 1. cbn [alloc_cell].
    destruct (IH {| lists := lists s; dicts := dicts s; cells := cells s ++ [None]; clos := clos s; out := out s |})
      as (new & E & Hf & Hs).
    unfold bind. rewrite E. cbn [ret lists dicts cells clos out] in *.
    exists ((x, length (cells s)) :: new). split; [|split].
    + rewrite <- app_assoc. reflexivity.
    + cbn. rewrite Hf. reflexivity.
    + cbn. rewrite Hs. rewrite app_length. cbn. rewrite Nat.add_1_r. reflexivity.
Qed.

(* ================================================================================================================ *)
(* Part C.2: the two instances of the generic simulation: inside a frame, and across a call *)
Definition FPf (sc : scope) (t t' : sstate) : Prop :=
  forall i, i < sc_bound sc -> ~ vslot sc i -> fget (cur t') i = fget (cur t) i.
Definition FPc (t t' : sstate) : Prop := cur t' = cur t.
Definition noframe (r : rho) (s : state) (t : sstate) : Prop := True.
Definition nocells (a : nat) : Prop := False.

Lemma FrameRel_stable en sc r s t s' b : FrameRel en sc r s t -> cells s' = cells s -> FrameRel en sc r s' (with_base t b).
Proof.
  intros [A1 A2 A3 A4] E. constructor; auto.
  - rewrite E. exact A2.
  - intros x. specialize (A4 x). cbn [with_base cur]. rewrite E. exact A4.
Qed.

#[local] Instance okF en sc : GenOK (FrameRel en sc) (FPf sc).
Proof.
  constructor.
  - intros t i _ _. reflexivity.
  - intros t1 t2 t3 H1 H2 i Hb Hv. rewrite H2, H1; auto.
  - intros t b i _ _. reflexivity.
  - intros. apply FrameRel_stable with (s := s); assumption.
Qed.
#[local] Instance okC : GenOK noframe FPc.
Proof.
  constructor; unfold FPc, noframe; auto.
  intros t1 t2 t3 H1 H2. congruence.
Qed.

Notation simF en sc := (sim (FrameRel en sc) (own en sc) (FPf sc)).
Notation csim := (sim noframe nocells FPc).
Notation rresF en sc := (rres (FrameRel en sc) (own en sc) (FPf sc)).

Lemma with_base_id t : with_base t (base t) = t.
Proof. destruct t; reflexivity. Qed.

Lemma rres_ok_refl Fi O FP {Hok : GenOK Fi FP} {A} r s t (a : A) :
  GInv r s t -> Fi r s t -> rres Fi O FP r s t (Ok a s) (SOk a t).
Proof. intros G F. cbn. split; [reflexivity|]. exists r. split; [exact G|]. split; [exact F|]. split; [apply PostC_refl|apply FP_refl]. Qed.

(* the frame of a suspended caller is not disturbed by a call *)
Lemma FrameRel_after_call en sc r r' s s' t t' :
  FrameRel en sc r s t -> PostC nocells r r' s s' -> cur t' = cur t -> FrameRel en sc r' s' t'.
Proof.
  intros [A1 A2 A3 A4] [P1 P2 P3 P4] Ec. constructor; auto.
  - intros a Ha. specialize (A2 a Ha). lia.
  - intros x. specialize (A4 x). rewrite Ec. destruct (sassoc x (sc_entries sc)) as [[i [|]]|]; auto.
    + destruct A4 as (a & La & Hg & Hc). exists a. split; [exact La|]. split; [exact Hg|].
      pose proof (A2 a (lookup_In _ _ _ La)) as Hlt.
      destruct Hc as [(E1 & E2 & E3)|(c & E1 & E2)].
      * left. split; [exact E1|]. split; [rewrite P3; auto|].
        intros Hd. destruct (P4 a Hd) as [?|[?|[]]]; auto. lia.
      * right. exists c. auto.
    + destruct A4 as (a & La & Hd & Hg & Hv). exists a. split; [exact La|].
      pose proof (A2 a (lookup_In _ _ _ La)) as Hlt.
      split; [|split; [exact Hg|]].
      * intros Hd'. destruct (P4 a Hd') as [?|[?|[]]]; auto. lia.
      * intros v Hv'. apply Hv. rewrite <- P3; auto.
Qed.

Lemma csim_simF {A} en sc (m : M A) (sm : SM A) : csim m sm -> simF en sc m sm.
Proof.
  intros H r s t G F. specialize (H r s t G Logic.I). unfold rres in *.
  destruct (m s) as [a s1|e l s1|]; auto.
  destruct (sm t) as [b t1|?|]; auto. destruct H as [E (r1 & G1 & _ & P1 & F1)]. split; [exact E|].
  exists r1. split; [exact G1|]. split; [eapply FrameRel_after_call; eassumption|].
  split; [eapply PostC_weaken; [|exact P1]; intros a0 []|].
  intros i _ _. rewrite F1. reflexivity.
Qed.

(* ---- state changes --------------------------------------------------------------------------------------------- *)
(* s1 is s with cell a set to o *)
Definition cells_upd (s s1 : state) (a : nat) (o : option value) : Prop :=
  lists s1 = lists s /\ dicts s1 = dicts s /\ out s1 = out s /\ clos s1 = clos s /\
  length (cells s1) = length (cells s) /\ nth_error (cells s1) a = Some o /\
  forall a', a' <> a -> nth_error (cells s1) a' = nth_error (cells s) a'.

Lemma cells_upd_set s a v : a < length (cells s) ->
  cells_upd s {| lists := lists s; dicts := dicts s; cells := upd (cells s) a (Some v); clos := clos s; out := out s |} a (Some v).
Proof.
  intros H. unfold cells_upd. cbn. rewrite length_upd. repeat split; auto.
  - apply nth_error_upd_eq. exact H.
  - intros a' Hn. apply nth_error_upd_neq. auto.
Qed.
Lemma cells_upd_same s a o : nth_error (cells s) a = Some o -> cells_upd s s a o.
Proof. intros H. unfold cells_upd. repeat split; auto. Qed.

Lemma Forall2_impl' {X Y} (R R' : X -> Y -> Prop) l1 l2 :
  (forall a b, R a b -> R' a b) -> Forall2 R l1 l2 -> Forall2 R' l1 l2.
Proof. intros H F. induction F; constructor; auto. Qed.

Lemma clo_rel_mono r r' N N' cl scl : sub r r' -> N <= N' -> clo_rel r N cl scl -> clo_rel r' N' cl scl.
Proof.
  intros Hs Hn []. econstructor; eauto.
  - intros a Ha. specialize (cr_ebound a Ha). lia.
  - eapply Forall2_impl'; [|exact cr_copied]. intros x c (a & La & Hr). eauto.
Qed.

(* a write to a cell that is private to a frame: the global invariant does not see it *)
Lemma GInv_priv_write r s s1 t fr a o :
  GInv r s t -> cells_upd s s1 a o -> ~ dom r a -> ~ In a (map snd genv) -> GInv r s1 (with_cur t fr).
Proof.
  intros G (U1 & U2 & U3 & U4 & U5 & U6 & U7) Hd Hg. destruct G.
  constructor; cbn [with_cur base sclos smods cur]; try congruence; auto.
  - intros a' c H. destruct (g_cells0 a' c H) as (B1 & B2 & B3 & B4).
    assert (a' <> a) by (intros ->; apply Hd; exists c; exact H).
    rewrite U5, U7 by assumption. auto.
  - intros a' H. rewrite U5. auto.
  - intros x j H. destruct (g_mods0 x j H) as (a' & o' & L & E1 & E2). exists a', o'.
    assert (a' <> a) by (intros ->; apply Hg; eapply lookup_In; eauto).
    rewrite U7 by assumption. auto.
  - intros k cl scl H1 H2. rewrite U4 in H1. rewrite U5. eauto.
Qed.

(* a write through a shared cell *)
Lemma GInv_shared_write r s s1 t a c o :
  GInv r s t -> cells_upd s s1 a (Some o) -> r a c ->
  GInv r s1 (with_base t {| lists := lists (base t); dicts := dicts (base t); cells := upd (cells (base t)) c (Some o);
                           clos := clos (base t); out := out (base t) |}).
Proof.
  intros G (U1 & U2 & U3 & U4 & U5 & U6 & U7) Hr. destruct G.
  constructor; cbn [with_base base sclos smods cur lists dicts out cells clos]; try congruence; auto.
  - intros a' c' H. destruct (g_cells0 a' c' H) as (B1 & B2 & B3 & B4). rewrite U5, length_upd.
    split; [exact B1|]. split; [exact B2|]. split; [|exact B4].
    destruct (Nat.eq_dec a' a) as [->|Hn].
    + assert (c' = c) by (eapply g_fun0; eauto). subst c'. rewrite U6, nth_error_upd_eq; auto.
    + assert (c' <> c) by (intros ->; apply Hn; eapply g_inj0; eauto).
      rewrite U7, nth_error_upd_neq; auto.
  - intros a' H. rewrite U5. auto.
  - intros x j H. destruct (g_mods0 x j H) as (a' & o' & L & E1 & E2). exists a', o'.
    destruct (g_cells0 a c Hr) as (_ & _ & _ & Hg).
    assert (a' <> a) by (intros ->; apply Hg; eapply lookup_In; eauto).
    rewrite U7 by assumption. auto.
  - intros k cl scl H1 H2. rewrite U4 in H1. rewrite U5. eauto.
Qed.

Definition ext (r : rho) (a c : nat) : rho := fun a' c' => r a' c' \/ (a' = a /\ c' = c).
Lemma sub_ext r a c : sub r (ext r a c).
Proof. intros a' c' H. left. exact H. Qed.

(* a private cell becomes shared: the machine allocates a cell with the same content *)
Lemma GInv_share_new r s s1 t fr a o :
  GInv r s t -> cells_upd s s1 a o -> ~ dom r a -> ~ In a (map snd genv) -> a < length (cells s) ->
  GInv (ext r a (length (cells (base t)))) s1
       (with_cur (with_base t {| lists := lists (base t); dicts := dicts (base t); cells := cells (base t) ++ [o];
                                 clos := clos (base t); out := out (base t) |}) fr).
Proof.
  intros G (U1 & U2 & U3 & U4 & U5 & U6 & U7) Hd Hg Hlt. destruct G.
  constructor; cbn [with_cur with_base base sclos smods cur lists dicts out cells clos]; try congruence; auto.
  - intros a' c c' [H|[-> ->]] [H'|[E ->]]; eauto.
    + subst a'. exfalso. apply Hd. eexists; eauto.
    + exfalso. apply Hd. eexists; eauto.
  - intros a' a'' c [H|[-> ->]] [H'|[-> E]]; eauto.
    + subst c. destruct (g_cells0 _ _ H) as (_ & B & _). lia.
    + destruct (g_cells0 _ _ H') as (_ & B & _). lia.
  - intros a' c [H|[-> ->]].
    + destruct (g_cells0 a' c H) as (B1 & B2 & B3 & B4). rewrite U5, app_length. cbn.
      assert (a' <> a) by (intros ->; apply Hd; exists c; exact H).
      rewrite U7, nth_error_app1 by assumption. repeat split; auto. lia.
    + rewrite U5, app_length, U6, nth_error_app2, Nat.sub_diag by lia. cbn. repeat split; auto. lia.
  - intros a' H. rewrite U5. auto.
  - intros x j H. destruct (g_mods0 x j H) as (a' & o' & L & E1 & E2). exists a', o'.
    assert (a' <> a) by (intros ->; apply Hg; eapply lookup_In; eauto).
    rewrite U7 by assumption. auto.
  - intros k cl scl H1 H2. rewrite U4 in H1. rewrite U5. eapply clo_rel_mono; [apply sub_ext|reflexivity|]. eauto.
Qed.

(* a write to a module variable *)
Lemma GInv_mod_write r s s1 t x j a o :
  GInv r s t -> cells_upd s s1 a (Some o) -> sidx x mods = Some j -> lookup x genv = Some a ->
  GInv r s1 {| base := base t; sclos := sclos t; smods := upd (smods t) j (Some o); cur := cur t |}.
Proof.
  intros G (U1 & U2 & U3 & U4 & U5 & U6 & U7) Hj La. destruct G.
  constructor; cbn [base sclos smods cur]; try congruence; auto.
  - intros a' c H. destruct (g_cells0 a' c H) as (B1 & B2 & B3 & B4).
    assert (a' <> a) by (intros ->; apply B4; eapply lookup_In; eauto).
    rewrite U5, U7 by assumption. auto.
  - intros a' H. rewrite U5. auto.
  - intros y j' H. destruct (g_mods0 y j' H) as (a' & o' & L & E1 & E2).
    destruct (String.eqb_spec y x) as [->|Hn].
    + assert (j' = j) by congruence. assert (a' = a) by congruence. subst. exists a, (Some o).
      split; [exact L|]. split; [exact U6|]. apply nth_error_upd_eq. apply nth_error_Some. congruence.
    + exists a', o'. split; [exact L|].
      assert (a' <> a) by (intros ->; apply Hn; eapply lookup_nodup_inj; eauto).
      assert (j' <> j) by (intros ->; apply Hn; eapply sidx_inj; eauto).
      rewrite U7, nth_error_upd_neq; auto.
  - intros k cl scl H1 H2. rewrite U4 in H1. rewrite U5. eauto.
Qed.

(* a write to the cell of a variable visible in the current frame, mirrored in its slot *)
Lemma write_local en sc r r1 s s1 t t1 x i k a o :
  FrameRel en sc r s t -> sassoc x (sc_entries sc) = Some (i, k) -> lookup x en = Some a ->
  cells_upd s s1 a o -> sub r r1 -> (forall a', dom r1 a' -> dom r a' \/ a' = a) ->
  (forall j, j <> i -> fget (cur t1) j = fget (cur t) j) ->
  (if k then (fget (cur t1) i = FEmpty /\ o = None /\ ~ dom r1 a) \/ (exists c, fget (cur t1) i = FCell c /\ r1 a c)
   else ~ dom r1 a /\ forall v, o = Some v -> fget (cur t1) i = FVal v) ->
  FrameRel en sc r1 s1 t1 /\ PostC (own en sc) r r1 s s1 /\ FPf sc t t1.
Proof.
  intros [A1 A2 A3 A4] Ex La (U1 & U2 & U3 & U4 & U5 & U6 & U7) Hs Hdom Hfr Hslot.
  split; [|split].
  - constructor; auto.
    + intros b Hb. rewrite U5. auto.
    + intros y. pose proof (A4 y) as Hy. destruct (sassoc y (sc_entries sc)) as [[j [|]]|] eqn:Ey; auto.
      * destruct Hy as (b & Lb & Hg & Hc). exists b. split; [exact Lb|]. split; [exact Hg|].
        destruct (Nat.eq_dec b a) as [->|Hn].
        -- assert (y = x) by (eapply lookup_nodup_inj; eauto). subst y. rewrite Ex in Ey. inversion Ey; subst j k.
           destruct Hslot as [(E1 & -> & E3)|Hc']; [left; auto|right; exact Hc'].
        -- assert (j <> i) by (intros ->; apply Hn; assert (y = x) by (eapply A3; eauto); subst y; congruence).
           rewrite Hfr, U7 by assumption.
           destruct Hc as [(E1 & E2 & E3)|(c & E1 & E2)]; [left|right; exists c; auto].
           split; [exact E1|]. split; [exact E2|]. intros Hd. destruct (Hdom b Hd); auto.
      * destruct Hy as (b & Lb & Hd & Hg & Hv). exists b. split; [exact Lb|].
        destruct (Nat.eq_dec b a) as [->|Hn].
        -- assert (y = x) by (eapply lookup_nodup_inj; eauto). subst y. rewrite Ex in Ey. inversion Ey; subst j k.
           destruct Hslot as [Hd' Hv']. split; [exact Hd'|]. split; [exact Hg|].
           intros v Hv2. apply Hv'. congruence.
        -- assert (j <> i) by (intros ->; apply Hn; assert (y = x) by (eapply A3; eauto); subst y; congruence).
           rewrite Hfr, U7 by assumption. split; [|split; [exact Hg|exact Hv]].
           intros Hd'. destruct (Hdom b Hd'); auto.
  - constructor; auto.
    + lia.
    + intros a' Hlt Ho _ _. apply U7. intros ->. apply Ho. exists x, (i, k). auto.
    + intros a' Hd. destruct (Hdom a' Hd) as [?| ->]; auto. right. right. exists x, (i, k). auto.
  - intros j Hb Hv. apply Hfr. intros ->. apply Hv. exists x, k. exact Ex.
Qed.

(* ---- reading a variable ------------------------------------------------------------------------------------------ *)
Lemma sim_load en sc x v n : cvar mods sc x = Some v -> simF en sc (eval (S n) en (EVar x)) (load_var v).
Proof.
  intros Hc r s t G F. cbn [eval]. unfold cvar in Hc. pose proof (f_vars _ _ _ _ _ F x) as Hx.
  destruct (sassoc x (sc_entries sc)) as [[i [|]]|].
  - inversion Hc; subst v. destruct Hx as (a & La & Hg & [(E1 & E2 & E3)|(c & E1 & E2)]); rewrite La; unfold get_cell.
    + rewrite E2. exact Logic.I.
    + destruct (g_cells _ _ _ G a c E2) as (B1 & B2 & B3 & B4). unfold load_var. rewrite E1. unfold lift, get_cell.
      rewrite <- B3. destruct (nth_error (cells s) a) as [[w|]|]; try exact Logic.I.
      rewrite with_base_id. apply rres_ok_refl; [apply okF|exact G|exact F].
  - inversion Hc; subst v. destruct Hx as (a & La & Hd & Hg & Hv). rewrite La. unfold get_cell.
    destruct (nth_error (cells s) a) as [[w|]|] eqn:E; try exact Logic.I.
    unfold load_var. rewrite (Hv w eq_refl). apply rres_ok_refl; [apply okF|exact G|exact F].
  - destruct (mem x (sc_hidden sc)); [discriminate|]. rewrite (Hx eq_refl).
    destruct (sidx x mods) as [j|] eqn:Ej.
    + inversion Hc; subst v. destruct (g_mods _ _ _ G x j Ej) as (a & o & La & E1 & E2). rewrite La. unfold get_cell, load_var.
      rewrite E1, E2. destruct o as [w|]; [|exact Logic.I]. apply rres_ok_refl; [apply okF|exact G|exact F].
    + rewrite (genv_mods x Ej). rewrite <- mem_eq. destruct (mem x builtin_names); [|discriminate].
      inversion Hc; subst v. apply rres_ok_refl; [apply okF|exact G|exact F].
Qed.

(* ---- assigning a variable ---------------------------------------------------------------------------------------- *)
Lemma sim_store en sc x v val : cvar mods sc x = Some v ->
  simF en sc (match lookup x en with Some a => set_cell a val | None => fail Unbound end) (store_var v val).
Proof.
  intros Hc r s t G F. unfold cvar in Hc. pose proof (f_vars _ _ _ _ _ F x) as Hx.
  destruct (sassoc x (sc_entries sc)) as [[i [|]]|] eqn:Ex.
  - (* a captured local *)
    inversion Hc; subst v. destruct Hx as (a & La & Hg & Hcase). rewrite La.
    pose proof (f_bound _ _ _ _ _ F a (lookup_In _ _ _ La)) as Hlt.
    pose proof (cells_upd_set s a val Hlt) as U. unfold set_cell, rres, store_var.
    destruct Hcase as [(E1 & E2 & E3)|(c & E1 & E2)]; rewrite E1.
    + (* first assignment: the machine allocates the cell *)
      unfold sbind, lift, alloc_cell, set_slot. cbn [base with_base cur].
      split; [reflexivity|]. exists (ext r a (length (cells (base t)))).
      split; [eapply GInv_share_new; eauto|].
      eapply write_local; eauto.
      * apply sub_ext.
      * intros a' [c' [H|[-> _]]]; [left; exists c'; exact H|right; reflexivity].
      * intros j Hj. cbn [cur with_cur with_base]. apply fget_fset_neq. auto.
      * right. exists (length (cells (base t))). cbn [cur with_cur with_base]. rewrite fget_fset_eq. split; [reflexivity|]. right. auto.
    + unfold lift, set_cell. split; [reflexivity|]. exists r. split; [eapply GInv_shared_write; eauto|].
      eapply write_local; eauto.
      * apply sub_refl.
      * right. exists c. auto.
  - (* a plain local *)
    inversion Hc; subst v. destruct Hx as (a & La & Hd & Hg & Hv). rewrite La.
    pose proof (f_bound _ _ _ _ _ F a (lookup_In _ _ _ La)) as Hlt.
    pose proof (cells_upd_set s a val Hlt) as U. unfold set_cell, store_var, set_slot, rres.
    split; [reflexivity|]. exists r. split; [eapply GInv_priv_write; eauto|].
    eapply write_local; eauto.
    + apply sub_refl.
    + intros j Hj. cbn [cur with_cur]. apply fget_fset_neq. auto.
    + split; [exact Hd|]. intros w Hw. inversion Hw; subst. cbn [cur with_cur]. apply fget_fset_eq.
  - destruct (mem x (sc_hidden sc)); [discriminate|]. rewrite (Hx eq_refl).
    destruct (sidx x mods) as [j|] eqn:Ej.
    + (* a module variable *)
      inversion Hc; subst v. destruct (g_mods _ _ _ G x j Ej) as (a & o & La & E1 & E2). rewrite La.
      assert (Hlt : a < length (cells s)) by (apply nth_error_Some; congruence).
      pose proof (cells_upd_set s a val Hlt) as U. unfold set_cell, store_var, rres.
      split; [reflexivity|]. exists r. split; [eapply GInv_mod_write; eauto|].
      destruct U as (U1 & U2 & U3 & U4 & U5 & U6 & U7).
      assert (Hna : forall y e b, sassoc y (sc_entries sc) = Some e -> lookup y en = Some b -> b <> a).
      { intros y [i' k'] b Ey Ly ->. pose proof (f_vars _ _ _ _ _ F y) as Hy. rewrite Ey in Hy.
        destruct k'; [destruct Hy as (b & Lb & Hg & _)|destruct Hy as (b & Lb & _ & Hg & _)];
          apply Hg; assert (b = a) by congruence; subst b; eapply lookup_In; eauto. }
      split; [|split].
      * destruct F as [A1 A2 A3 A4]. constructor; auto.
        -- intros b Hb. cbn [cells]. rewrite length_upd. auto.
        -- intros y. specialize (A4 y). cbn [cur cells]. destruct (sassoc y (sc_entries sc)) as [[i' [|]]|] eqn:Ey; auto.
           ++ destruct A4 as (b & Lb & Hg & Hcase). exists b. split; [exact Lb|]. split; [exact Hg|].
              rewrite nth_error_upd_neq; [exact Hcase|]. intros <-. eapply Hna; eauto.
           ++ destruct A4 as (b & Lb & Hd & Hg & Hv). exists b. split; [exact Lb|]. split; [exact Hd|]. split; [exact Hg|].
              rewrite nth_error_upd_neq; [exact Hv|]. intros <-. eapply Hna; eauto.
      * constructor; auto using sub_refl.
        -- cbn [cells]. rewrite length_upd. lia.
        -- intros a' _ _ _ Hg. cbn [cells]. apply nth_error_upd_neq. intros <-. apply Hg. eapply lookup_In; eauto.
      * intros i' _ _. reflexivity.
    + rewrite (genv_mods x Ej). cbn. exact Logic.I.
Qed.

(* ================================================================================================================ *)
(* Part C.3: building a closure *)
Lemma FrameRel_ext en sc r s t s' t' : FrameRel en sc r s t -> cells s' = cells s -> cur t' = cur t -> FrameRel en sc r s' t'.
Proof.
  intros [A1 A2 A3 A4] E Ec. constructor; auto.
  - rewrite E. exact A2.
  - intros x. specialize (A4 x). rewrite Ec, E. exact A4.
Qed.

Definition pslot (sc : scope) (x : string) : nat :=
  match sassoc x (sc_entries sc) with Some (i, _) => i | None => 0 end.

Lemma capture_ok en sc r s t x i :
  GInv r s t -> FrameRel en sc r s t -> sassoc x (sc_entries sc) = Some (i, true) ->
  exists r1 t1 c a, capture_slot i t = SOk c t1 /\ lookup x en = Some a /\ r1 a c /\
    GInv r1 s t1 /\ FrameRel en sc r1 s t1 /\ PostC (own en sc) r r1 s s /\ FPf sc t t1.
Proof.
  intros G F Ex. pose proof (f_vars _ _ _ _ _ F x) as Hx. rewrite Ex in Hx.
  destruct Hx as (a & La & Hg & [(E1 & E2 & E3)|(c & E1 & E2)]).
  - pose proof (f_bound _ _ _ _ _ F a (lookup_In _ _ _ La)) as Hlt.
    pose proof (cells_upd_same s a None E2) as U.
    unfold capture_slot. rewrite E1. unfold sbind, lift, alloc_cell, set_slot, sret. cbn [base with_base cur].
    eexists (ext r a (length (cells (base t)))), _, _, a. split; [reflexivity|]. split; [exact La|].
    split; [right; auto|]. split; [eapply GInv_share_new; eauto|].
    eapply write_local; eauto.
    + apply sub_ext.
    + intros a' [c' [H|[-> _]]]; [left; exists c'; exact H|right; reflexivity].
    + intros j Hj. cbn [cur with_cur with_base]. apply fget_fset_neq. auto.
    + right. exists (length (cells (base t))). cbn [cur with_cur with_base]. rewrite fget_fset_eq. split; [reflexivity|]. right. auto.
  - unfold capture_slot. rewrite E1. exists r, t, c, a. split; [reflexivity|]. split; [exact La|]. split; [exact E2|].
    split; [exact G|]. split; [exact F|]. split; [apply PostC_refl|]. intros j _ _. reflexivity.
Qed.

Lemma capture_all en sc xs : forall r s t,
  GInv r s t -> FrameRel en sc r s t ->
  (forall x, In x xs -> exists i, sassoc x (sc_entries sc) = Some (i, true)) ->
  exists r1 t1 cs, smapM capture_slot (map (pslot sc) xs) t = SOk cs t1 /\
    Forall2 (fun x c => exists a, lookup x en = Some a /\ r1 a c) xs cs /\
    GInv r1 s t1 /\ FrameRel en sc r1 s t1 /\ PostC (own en sc) r r1 s s /\ FPf sc t t1.
Proof.
  induction xs as [|x xs IH]; intros r s t G F Hall.
  - exists r, t, []. cbn. split; [reflexivity|]. split; [constructor|]. split; [exact G|]. split; [exact F|].
    split; [apply PostC_refl|]. intros j _ _. reflexivity.
  - destruct (Hall x (or_introl eq_refl)) as [i Ex].
    destruct (capture_ok en sc r s t x i G F Ex) as (r1 & t1 & c & a & E1 & La & Hr & G1 & F1 & P1 & Q1).
    destruct (IH r1 s t1 G1 F1 (fun y Hy => Hall y (or_intror Hy))) as (r2 & t2 & cs & E2 & Hf & G2 & F2 & P2 & Q2).
    exists r2, t2, (c :: cs). cbn [map smapM]. unfold sbind at 1. unfold pslot at 1. rewrite Ex, E1.
    unfold sbind at 1. rewrite E2. cbn [sret]. split; [reflexivity|].
    split; [constructor; [exists a; split; [exact La|apply (p_sub _ _ _ _ _ P2); exact Hr]|exact Hf]|].
    split; [exact G2|]. split; [exact F2|]. split; [eapply PostC_trans; eassumption|].
    intros j Hb Hv. rewrite Q2, Q1; auto.
Qed.

Lemma indexed_cons {X} k (x : X) l : indexed k (x :: l) = (k, x) :: indexed (S k) l.
Proof. reflexivity. Qed.

Lemma parents_fst sc n P :
  map fst (map (fun jx : nat * string => (match sassoc (snd jx) (sc_entries sc) with Some (i, _) => i | None => 0 end, fst jx))
               (indexed n P)) = map (pslot sc) P.
Proof.
  revert n. induction P as [|x P IH]; intros n; [reflexivity|]. rewrite indexed_cons. cbn [map fst snd]. rewrite IH. reflexivity.
Qed.
Lemma parents_snd sc n P :
  map snd (map (fun jx : nat * string => (match sassoc (snd jx) (sc_entries sc) with Some (i, _) => i | None => 0 end, fst jx))
               (indexed n P)) = seq n (length P).
Proof.
  revert n. induction P as [|x P IH]; intros n; [reflexivity|]. rewrite indexed_cons. cbn [map fst snd length seq]. rewrite IH. reflexivity.
Qed.

Lemma fun_scope_inv sc slotnames capt free sc' parents n P :
  fun_scope sc slotnames capt free = Some (sc', parents, n) ->
  P = filter (is_local sc) (dedup free) ->
  (forall x, In x P -> exists i, sassoc x (sc_entries sc) = Some (i, true)) /\
  map fst parents = map (pslot sc) P /\ map snd parents = seq (length slotnames) (length P) /\
  n = length slotnames + length P /\
  sc' = {| sc_entries := map (fun ix => (snd ix, (fst ix, capt (snd ix)))) (indexed 0 slotnames) ++
                         map (fun jx => (snd jx, (fst jx, true))) (indexed (length slotnames) P);
           sc_hidden := map fst (sc_entries sc) ++ sc_hidden sc |}.
Proof.
  unfold fun_scope. intros H ->.
  destruct (forallb _ (filter (is_local sc) (dedup free))) eqn:Ef; [|discriminate]. inversion H; subst. clear H.
  split; [|split; [apply parents_fst|split; [apply parents_snd|auto]]].
  intros x Hx. rewrite forallb_forall in Ef. specialize (Ef x Hx).
  destruct (sassoc x (sc_entries sc)) as [[i [|]]|]; try discriminate. eauto.
Qed.

Lemma GInv_alloc_clo r s t cl scl :
  GInv r s t -> clo_rel r (length (cells s)) cl scl ->
  GInv r {| lists := lists s; dicts := dicts s; cells := cells s; clos := clos s ++ [cl]; out := out s |}
         {| base := base t; sclos := sclos t ++ [scl]; smods := smods t; cur := cur t |}.
Proof.
  intros G Hc. destruct G. constructor; cbn [lists dicts cells clos out base sclos smods cur]; auto.
  - rewrite !app_length. cbn. lia.
  - intros k cl' scl' H1 H2. destruct (Nat.lt_ge_cases k (length (clos s))) as [Hlt|Hge].
    + rewrite nth_error_app1 in H1 by assumption. rewrite nth_error_app1 in H2 by lia. eauto.
    + rewrite nth_error_app2 in H1 by assumption. rewrite nth_error_app2 in H2 by lia.
      rewrite g_clen0 in H1. destruct (k - length (sclos t)) as [|[|?]]; cbn in H1, H2; try discriminate.
      inversion H1; inversion H2; subst. exact Hc.
Qed.

Lemma erase_param_of sc k ps ps' k' :
  omapS (cparam true mods sc) k ps = Some (ps', k') -> map param_of ps' = map erase_default ps.
Proof.
  revert k ps' k'. induction ps as [|p ps IH]; intros k ps' k' H; cbn [omapS] in H.
  - inversion H. reflexivity.
  - destruct (cparam true mods sc k p) as [[p' k1]|] eqn:Ep; [|discriminate].
    destruct (omapS (cparam true mods sc) k1 ps) as [[ps1 k2]|] eqn:Er; [|discriminate]. inversion H; subst.
    cbn [map]. rewrite (IH _ _ _ Er). f_equal.
    destruct p as [x [d|]|x|x]; cbn [cparam] in Ep.
    + destruct (cexpr true mods sc k d) as [[d' ?]|]; [|discriminate]. inversion Ep. reflexivity.
    + inversion Ep. reflexivity.
    + inversion Ep. reflexivity.
    + inversion Ep. reflexivity.
Qed.

(* the closure built by the machine is related to the closure of the reference interpreter *)
Lemma sim_make_closure en sc name ps ps' dflts info body body' sc' slotnames capt free n :
  map param_of ps' = map erase_default ps ->
  NoDup (map param_name ps) ->
  (forall x, In x slotnames <-> In x (map param_name ps ++ locals_of body)) ->
  NoDup slotnames ->
  fun_scope sc slotnames capt free = Some (sc', di_parents info, n) ->
  di_names info = slotnames ->
  di_wrap info = wrap_slots slotnames (map param_name ps) capt ->
  body_compiled sc' n body body' (di_nslots info) ->
  simF en sc (alloc_clo {| c_name := name; c_params := ps; c_defaults := concat dflts; c_body := body; c_env := en |})
             (make_closure name ps' dflts info body').
Proof.
  intros Hps Hnd Hnames Hsnd Hfs Hdn Hw Hb r s t G F.
  destruct (fun_scope_inv _ _ _ _ _ _ _ _ Hfs eq_refl) as (Hall & Hpf & _ & _ & _).
  destruct (capture_all en sc _ r s t G F Hall) as (r1 & t1 & cs & E1 & Hf & G1 & F1 & P1 & Q1).
  unfold make_closure, sbind. rewrite Hpf, E1. unfold alloc_clo, salloc_clo, rres.
  split; [rewrite (g_clen _ _ _ G1); reflexivity|]. exists r1.
  split; [|split; [|split; [exact P1|exact Q1]]].
  - apply GInv_alloc_clo; [exact G1|].
    econstructor; cbn [c_params c_defaults c_body c_env sc_params sc_defaults sc_info sc_body sc_captured]; eauto.
    + apply (f_nodup _ _ _ _ _ F).
    + apply (f_bound _ _ _ _ _ F).
    + intros x Hl Hh. pose proof (f_vars _ _ _ _ _ F x) as Hx. unfold is_local in Hl.
      destruct (sassoc x (sc_entries sc)); [discriminate|]. auto.
  - eapply FrameRel_ext; [exact F1| |]; reflexivity.
Qed.
