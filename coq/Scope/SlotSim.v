(* C01: the slot machine of Scope/SlotSem.v simulates the reference interpreter Core/Sem.v (DESIGN 4/C01 `slots_sim`).

   PROVED (no axioms):
     slots_sim_partial : forall fuel prog sp,
       resolve_prog prog = Some sp -> compr_vars_uncaptured prog = true ->
       (forall ln, snd (run_program fuel prog) <> Failed Unbound ln) ->
       run_slot_program fuel sp = run_program fuel prog
     (equal transcript and outcome, with the SAME fuel), together with slots_sim_strict (the same with the strict resolver)
     and strict_prog (the strict resolver produces what resolve_prog produces).
   The fragment is every MiniStar program whose names resolve, except that no lambda may capture a COMPREHENSION variable;
   it includes closures capturing locals/parameters/loop variables of any enclosing def (cells shared between the frame and
   the closures, allocated lazily), comprehension scoping, module variables, recursion, *args/**kwargs, defaults.
   FULL statement (slots_sim): forall fuel prog sp, resolve_prog prog = Some sp -> run_slot_program fuel sp = run_program fuel prog.
   It is REFUTED for the faithful machine (slots_sim_refuted, slots_sim_unbound_needed): the evaluator never clears or
   re-allocates the frame slot of a comprehension variable, so (1) the cell of a captured comprehension variable is shared by all
   evaluations of the comprehension in one activation, (2) a comprehension variable read before its assignment sees the value
   left by the previous evaluation.  Both were reproduced on the real evaluator (see the end of this file).

   State relation: values, list/dict/closure addresses and the transcript are EQUAL on both sides; the reference cell of a
   name corresponds to its module slot, to its frame slot (plain local: the slot holds the value whenever the cell is set), or -
   for a captured local - to the machine cell `rho` relates it to (the slot holds that cell, or is still empty while the
   reference cell is unset and unrelated).  Closures are related when the machine closure is the resolution of the reference
   closure's code in a scope whose copied variables are `rho`-related to the cells of the captured environment.
   Part A: every value-level operation of Core reads and writes only lists / dicts / transcript.
   Part B: the state relation and the generic simulation lemmas.
   Part C: variables, targets, comprehension scopes, closures, calls.
   Part D: the simulation by induction on the fuel; whole programs; the strict resolver; the refutation. *)
From Coq Require Import ZArith String List Bool Arith Lia.
From SV Require Import Core.Syntax Core.Values Core.Slice Core.Sem Core.SemProofs Scope.Tree.
From SV Require Scope.Proofs.
From SV Require Import Scope.SlotSyntax Scope.SlotSem.
Import ListNotations.
Local Open Scope nat_scope.
Local Open Scope slot_scope.

(* ================================================================================================================ *)
(* Part A *)
Definition sw (c : list (option value)) (k : list closure) (s : state) : state :=
  {| lists := lists s; dicts := dicts s; cells := c; clos := k; out := out s |}.
Definition rmap {A} (f : state -> state) (r : res A) : res A :=
  match r with Ok a s => Ok a (f s) | Fail e l s => Fail e l (f s) | OutOfFuel => OutOfFuel end.
(* the operation commutes with replacing the cells and the closures *)
Definition pure_op {A} (m : M A) : Prop := forall c k s, m (sw c k s) = rmap (sw c k) (m s).

Lemma sw_id s : sw (cells s) (clos s) s = s.
Proof. destruct s; reflexivity. Qed.
Lemma sw_sw c k c' k' s : sw c k (sw c' k' s) = sw c k s.
Proof. reflexivity. Qed.

Lemma forall2b_ext {A} (f g : A -> A -> bool) l1 l2 : (forall x y, f x y = g x y) -> forall2b f l1 l2 = forall2b g l1 l2.
Proof. intros H. revert l2. induction l1 as [|x xs IH]; intros [|y ys]; cbn; auto. rewrite H, IH. reflexivity. Qed.
Lemma lex_cmp_ext {A} (f g : A -> A -> option comparison) l1 l2 : (forall x y, f x y = g x y) -> lex_cmp f l1 l2 = lex_cmp g l1 l2.
Proof. intros H. revert l2. induction l1 as [|x xs IH]; intros [|y ys]; cbn; auto. rewrite H, IH. reflexivity. Qed.
Lemma forallb_ext' {A} (f g : A -> bool) l : (forall x, f x = g x) -> forallb f l = forallb g l.
Proof. intros H. induction l; cbn; auto. rewrite H, IHl. reflexivity. Qed.
Lemma existsb_ext' {A} (f g : A -> bool) l : (forall x, f x = g x) -> existsb f l = existsb g l.
Proof. intros H. induction l; cbn; auto. rewrite H, IHl. reflexivity. Qed.

Section SwFuns.
  Variables (c : list (option value)) (k : list closure) (s : state).
  Notation s' := (sw c k s).

  Lemma truth_sw v : truth s' v = truth s v.
  Proof. destruct v; reflexivity. Qed.
  Lemma obs_of_sw n v : obs_of n s' v = obs_of n s v.
  Proof.
    revert v. induction n as [|n IH]; intros v; [reflexivity|]. destruct v; cbn [obs_of]; try reflexivity.
    - f_equal. apply map_ext. exact IH.
    - cbn [lists sw]. destruct (nth_error (lists s) a) as [[l ?]|]; [|reflexivity]. f_equal. apply map_ext. exact IH.
    - cbn [dicts sw]. destruct (nth_error (dicts s) a) as [[l ?]|]; [|reflexivity]. f_equal. apply map_ext.
      intros kv. rewrite !IH. reflexivity.
  Qed.
  Lemma veq_sw n a b : veq n s' a b = veq n s a b.
  Proof.
    revert a b. induction n as [|n IH]; intros a b; [reflexivity|]. destruct a, b; cbn [veq]; try reflexivity.
    - apply forall2b_ext. exact IH.
    - cbn [lists sw]. destruct (Nat.eqb a a0); [reflexivity|].
      destruct (nth_error (lists s) a) as [[l1 ?]|], (nth_error (lists s) a0) as [[l2 ?]|]; try reflexivity.
      apply forall2b_ext. exact IH.
    - cbn [dicts sw]. destruct (Nat.eqb a a0); [reflexivity|].
      destruct (nth_error (dicts s) a) as [[l1 ?]|], (nth_error (dicts s) a0) as [[l2 ?]|]; try reflexivity.
      f_equal. apply forallb_ext'. intros kv. apply existsb_ext'. intros kv'. rewrite !IH. reflexivity.
  Qed.
  Lemma vcmp_sw n a b : vcmp n s' a b = vcmp n s a b.
  Proof.
    revert a b. induction n as [|n IH]; intros a b; [reflexivity|]. destruct a, b; cbn [vcmp]; try reflexivity.
    - apply lex_cmp_ext. exact IH.
    - cbn [lists sw]. destruct (nth_error (lists s) a) as [[l1 ?]|], (nth_error (lists s) a0) as [[l2 ?]|]; try reflexivity.
      apply lex_cmp_ext. exact IH.
  Qed.
  Lemma veqd_sw a b : veq depth s' a b = veq depth s a b.
  Proof. apply veq_sw. Qed.
  Lemma vcmpd_sw a b : vcmp depth s' a b = vcmp depth s a b.
  Proof. apply vcmp_sw. Qed.
  Lemma obsd_sw v : obs_of depth s' v = obs_of depth s v.
  Proof. apply obs_of_sw. Qed.
  Lemma memb_sw x l : memb s' x l = memb s x l.
  Proof. induction l as [|y l IH]; cbn [memb]; [reflexivity|]. rewrite (veqd_sw x y), IH. reflexivity. Qed.
  Lemma dict_get_sw d x : dict_get s' d x = dict_get s d x.
  Proof. induction d as [|[k' v] d IH]; cbn [dict_get]; [reflexivity|]. rewrite (veqd_sw x k'), IH. reflexivity. Qed.
  Lemma dict_set_sw d x v : dict_set s' d x v = dict_set s d x v.
  Proof. induction d as [|[k' v'] d IH]; cbn [dict_set]; [reflexivity|]. rewrite (veqd_sw x k'), IH. reflexivity. Qed.
  Lemma dict_del_sw d x : dict_del s' d x = dict_del s d x.
  Proof. induction d as [|[k' v'] d IH]; cbn [dict_del]; [reflexivity|]. rewrite (veqd_sw x k'), IH. reflexivity. Qed.
  Lemma dict_update_sw kvs : forall d, dict_update s' d kvs = dict_update s d kvs.
  Proof. induction kvs as [|[k' v'] kvs IH]; intros d; cbn [dict_update]; [reflexivity|]. rewrite dict_set_sw, IH. reflexivity. Qed.
  Lemma insert_sorted_sw x l : insert_sorted s' x l = insert_sorted s x l.
  Proof. induction l as [|y l IH]; cbn [insert_sorted]; [reflexivity|]. rewrite (vcmpd_sw x y), IH. reflexivity. Qed.
  Lemma sort_values_sw l : sort_values s' l = sort_values s l.
  Proof. induction l as [|y l IH]; cbn [sort_values]; [reflexivity|]. rewrite IH. destruct (sort_values s l); [|reflexivity]. apply insert_sorted_sw. Qed.
  Lemma insert_pair_sw p l : insert_pair s' p l = insert_pair s p l.
  Proof. induction l as [|y l IH]; cbn [insert_pair]; [reflexivity|]. rewrite (vcmpd_sw (fst p) (fst y)), IH. reflexivity. Qed.
  Lemma sort_pairs_sw l : sort_pairs s' l = sort_pairs s l.
  Proof. induction l as [|y l IH]; cbn [sort_pairs]; [reflexivity|]. rewrite IH. destruct (sort_pairs s l); [|reflexivity]. apply insert_pair_sw. Qed.
  Lemma sort_pairs_dir_sw b l : sort_pairs_dir s' b l = sort_pairs_dir s b l.
  Proof. unfold sort_pairs_dir. rewrite !sort_pairs_sw. reflexivity. Qed.
  Lemma extremum_sw w l : forall b, extremum s' w b l = extremum s w b l.
  Proof. induction l as [|y l IH]; intros b; cbn [extremum]; [reflexivity|]. rewrite (vcmpd_sw y b). destruct (vcmp depth s y b); [|reflexivity]. apply IH. Qed.
  Lemma remove_first_sw x l : remove_first s' x l = remove_first s x l.
  Proof. induction l as [|y l IH]; cbn [remove_first]; [reflexivity|]. rewrite (veqd_sw x y), IH. reflexivity. Qed.
  Lemma index_of_sw x l : forall i, Sem.index_of s' x l i = Sem.index_of s x l i.
  Proof. induction l as [|y l IH]; intros i; cbn [Sem.index_of]; [reflexivity|]. rewrite (veqd_sw x y), IH. reflexivity. Qed.
  Lemma map_obs_sw l : map (obs_of depth s') l = map (obs_of depth s) l.
  Proof. apply map_ext. apply obsd_sw. Qed.
  Lemma existsb_truth_sw l : existsb (truth s') l = existsb (truth s) l.
  Proof. apply existsb_ext'. apply truth_sw. Qed.
  Lemma forallb_truth_sw l : forallb (truth s') l = forallb (truth s) l.
  Proof. apply forallb_ext'. apply truth_sw. Qed.
End SwFuns.

Ltac sw_rw :=
  repeat first
    [ rewrite truth_sw | rewrite obsd_sw | rewrite veqd_sw | rewrite vcmpd_sw | rewrite memb_sw
    | rewrite dict_get_sw | rewrite dict_set_sw | rewrite dict_del_sw | rewrite dict_update_sw
    | rewrite sort_values_sw | rewrite sort_pairs_dir_sw | rewrite extremum_sw | rewrite remove_first_sw
    | rewrite index_of_sw | rewrite map_obs_sw | rewrite existsb_truth_sw | rewrite forallb_truth_sw ].

Lemma pure_ret {A} (a : A) : pure_op (ret a).
Proof. intros c k s. reflexivity. Qed.
Lemma pure_fail {A} e : pure_op (@fail A e).
Proof. intros c k s. reflexivity. Qed.
Lemma pure_bind {A B} (m : M A) (f : A -> M B) : pure_op m -> (forall a, pure_op (f a)) -> pure_op (bind m f).
Proof.
  intros Hm Hf c k s. unfold bind. rewrite Hm. destruct (m s) as [a s1|e l s1|]; cbn [rmap]; auto. apply Hf.
Qed.
Lemma pure_get_state {B} (f : state -> M B) :
  (forall s0, pure_op (f s0)) -> (forall c k s0 s1, f (sw c k s0) s1 = f s0 s1) -> pure_op (bind get_state f).
Proof. intros H1 H2 c k s. unfold bind, get_state. rewrite H2. apply H1. Qed.
Lemma pure_mapM {A B} (f : A -> M B) l : (forall x, pure_op (f x)) -> pure_op (mapM f l).
Proof.
  intros H. induction l as [|x xs IH]; cbn [mapM]; [apply pure_ret|].
  apply pure_bind; [apply H|]. intros y. apply pure_bind; [apply IH|]. intros ys. apply pure_ret.
Qed.
Lemma pure_get_list a : pure_op (get_list a).
Proof. intros c k s. unfold get_list. cbn [lists sw]. destruct (nth_error (lists s) a) as [[? ?]|]; reflexivity. Qed.
Lemma pure_get_dict a : pure_op (get_dict a).
Proof. intros c k s. unfold get_dict. cbn [dicts sw]. destruct (nth_error (dicts s) a) as [[? ?]|]; reflexivity. Qed.
Lemma pure_set_list a l : pure_op (set_list a l).
Proof. intros c k s. unfold set_list. cbn [lists sw]. destruct (nth_error (lists s) a) as [[? [|?]]|]; reflexivity. Qed.
Lemma pure_set_dict a l : pure_op (set_dict a l).
Proof. intros c k s. unfold set_dict. cbn [dicts sw]. destruct (nth_error (dicts s) a) as [[? [|?]]|]; reflexivity. Qed.
Lemma pure_set_list_elem a l : pure_op (set_list_elem a l).
Proof. intros c k s. unfold set_list_elem. cbn [lists sw]. destruct (nth_error (lists s) a) as [[? ?]|]; reflexivity. Qed.
Lemma pure_alloc_list l : pure_op (alloc_list l).
Proof. intros c k s. reflexivity. Qed.
Lemma pure_alloc_dict l : pure_op (alloc_dict l).
Proof. intros c k s. reflexivity. Qed.
Lemma pure_emit_obs o : pure_op (emit_obs o).
Proof. intros c k s. reflexivity. Qed.
Lemma pure_iter_lock v d : pure_op (iter_lock v d).
Proof.
  intros c k s. unfold iter_lock. destruct v; try reflexivity.
  - cbn [lists sw]. destruct (nth_error (lists s) a) as [[? ?]|]; reflexivity.
  - cbn [dicts sw]. destruct (nth_error (dicts s) a) as [[? ?]|]; reflexivity.
Qed.
Lemma pure_dict_keep d l : pure_op (fun st => match nth_error (dicts st) d with
                            | Some (_, c) => Ok tt {| lists := lists st; dicts := upd (dicts st) d (l, c);
                                                      cells := cells st; clos := clos st; out := out st |}
                            | None => Fail Unsupported None st end).
Proof. intros c k s. cbn [dicts sw]. destruct (nth_error (dicts s) d) as [[? ?]|]; reflexivity. Qed.

Ltac is_bool_term c := match type of c with bool => idtac end.

(* one structural step; `get_state` continuations are discharged by destructing until the state-dependent calls are
   closed terms, then rewriting with the _sw lemmas *)
Ltac pure_leaf :=
  first [ apply pure_ret | apply pure_fail | apply pure_get_list | apply pure_get_dict | apply pure_set_list
        | apply pure_set_dict | apply pure_set_list_elem | apply pure_alloc_list | apply pure_alloc_dict
        | apply pure_emit_obs | apply pure_iter_lock | apply pure_dict_keep ].
Ltac pure_eq :=
  intros;
  repeat match goal with
         | |- context [match ?x with _ => _ end] => is_var x; destruct x
         | |- context [if ?x then _ else _] => is_var x; destruct x
         end;
  sw_rw; try reflexivity.
Ltac pure_step :=
  match goal with
  | |- pure_op (bind get_state _) => apply pure_get_state; [intro | ]
  | |- pure_op (bind _ _) => apply pure_bind; [|intro]
  | |- pure_op (mapM _ _) => apply pure_mapM; intro
  | |- pure_op (match ?x with _ => _ end) => destruct x
  | |- pure_op (if ?x then _ else _) => destruct x
  | |- pure_op (let '(_, _) := ?x in _) => destruct x
  | |- pure_op _ => pure_leaf
  end.

Lemma pure_iter_elems v : pure_op (iter_elems v).
Proof. unfold iter_elems. repeat pure_step. Qed.
Lemma pure_check_hashable v : pure_op (check_hashable v).
Proof. unfold check_hashable. repeat pure_step. Qed.
Lemma pure_as_int v : pure_op (as_int v).
Proof. unfold as_int. repeat pure_step. Qed.
Lemma pure_veqM a b : pure_op (veqM a b).
Proof. unfold veqM. apply pure_get_state; [intro; apply pure_ret|]. intros. sw_rw. reflexivity. Qed.
Lemma pure_obs_list vs : pure_op (obs_list vs).
Proof. unfold obs_list. apply pure_get_state; [intro; apply pure_ret|]. intros. sw_rw. reflexivity. Qed.
Lemma pure_lift_sres r : pure_op (lift_sres r).
Proof. unfold lift_sres. repeat pure_step. Qed.
Lemma pure_truth v : pure_op (s <- get_state ;; ret (truth s v)).
Proof. apply pure_get_state; [intro; apply pure_ret|]. intros. sw_rw. reflexivity. Qed.

Ltac pure_known :=
  first [ apply pure_iter_elems | apply pure_check_hashable | apply pure_as_int | apply pure_veqM
        | apply pure_obs_list | apply pure_lift_sres | apply pure_truth ].
Ltac pure_tac := repeat first [ pure_known | pure_step ].

Lemma pure_contains a b : pure_op (contains a b).
Proof.
  unfold contains. destruct b; try apply pure_fail.
  - destruct a; pure_tac.
  - apply pure_get_state; [intro; apply pure_ret|]. intros. sw_rw. reflexivity.
  - apply pure_bind; [apply pure_get_list|]. intros xs. apply pure_get_state; [intro; apply pure_ret|]. intros. sw_rw. reflexivity.
  - apply pure_bind; [apply pure_check_hashable|]. intros _. apply pure_bind; [apply pure_get_dict|]. intros kvs.
    apply pure_get_state; [intro; apply pure_ret|]. intros. sw_rw. reflexivity.
  - destruct a; pure_tac.
Qed.

Lemma pure_binop_eval o a b : pure_op (binop_eval o a b).
Proof.
  unfold binop_eval. destruct o;
  try (apply pure_bind; [first [apply pure_veqM | apply pure_contains]|intro; apply pure_ret]);
  try (apply pure_get_state; [intro s0; destruct (vcmp depth s0 a b); pure_tac | intros; sw_rw; reflexivity]);
  destruct a, b; pure_tac.
Qed.

Lemma pure_unop_eval o a : pure_op (unop_eval o a).
Proof.
  unfold unop_eval. destruct o, a; try apply pure_ret; try apply pure_fail;
  (apply pure_get_state; [intro; apply pure_ret|intros; sw_rw; reflexivity]).
Qed.

Lemma pure_index_eval a i : pure_op (index_eval a i).
Proof.
  unfold index_eval. destruct a; try apply pure_fail; pure_tac.
  intros; sw_rw; reflexivity.
Qed.

Lemma pure_opt_int v : pure_op (opt_int v).
Proof. unfold opt_int. pure_tac. Qed.

Lemma pure_slice_eval a lo hi st : pure_op (slice_eval a lo hi st).
Proof.
  unfold slice_eval. apply pure_bind; [apply pure_opt_int|intro]. apply pure_bind; [apply pure_opt_int|intro].
  apply pure_bind; [apply pure_opt_int|intro]. destruct a; pure_tac.
Qed.

Lemma pure_set_index a i v : pure_op (set_index a i v).
Proof.
  unfold set_index. destruct a; try apply pure_fail; pure_tac.
  intros; sw_rw; reflexivity.
Qed.

Ltac pure_auto := repeat first [ pure_known | pure_step ]; try (intros; sw_rw; reflexivity).

Lemma pure_str_of v : pure_op (str_of v).
Proof. unfold str_of. pure_auto. Qed.

Lemma pure_call_builtin b args kwargs : pure_op (call_builtin b args kwargs).
Proof.
  unfold call_builtin. destruct kwargs; [|apply pure_fail].
  repeat match goal with |- pure_op (if ?c then _ else _) => destruct c end;
  try apply pure_fail.
  all: try (apply pure_bind; [apply pure_str_of|intro; apply pure_ret]).
  all: pure_auto.
  all: apply pure_str_of.
Qed.

Lemma pure_call_method recv m args : pure_op (call_method recv m args).
Proof.
  unfold call_method. destruct recv; try apply pure_fail.
  - repeat match goal with |- pure_op (if ?c then _ else _) => destruct c end; pure_auto.
  - apply pure_bind; [apply pure_get_list|intro xs].
    repeat match goal with |- pure_op (if ?c then _ else _) => destruct c end; pure_auto.
  - apply pure_bind; [apply pure_get_dict|intro kvs].
    apply pure_get_state.
    + intro s0. repeat match goal with |- pure_op (if ?c then _ else _) => destruct c end; pure_auto.
    + intros c k s0 s1.
      repeat match goal with |- (if ?c then _ else _) _ = _ => destruct c end;
      repeat match goal with |- (match ?x with _ => _ end) _ = _ => destruct x end;
      sw_rw; try reflexivity.
      unfold bind at 1 3. destruct (get_dict a0 s1); try reflexivity. sw_rw. reflexivity.
Qed.

Lemma pure_call_method_kw recv m args kwargs : pure_op (call_method_kw recv m args kwargs).
Proof.
  unfold call_method_kw. destruct kwargs; [apply pure_call_method|]. destruct recv; pure_auto.
Qed.

Lemma pure_aug_result o a b : pure_op (aug_result o a b).
Proof.
  unfold aug_result, aug_list_inplace. destruct o; try apply pure_binop_eval.
  destruct a; try apply pure_binop_eval. pure_auto.
Qed.

(* ================================================================================================================ *)
(* unfolding equations of the resolver (the mutual fixpoint does not refold under cbn/simpl) *)
Section CompileEq.
  Variable strict : bool.
  Variable mods : list string.
  Notation ce := (cexpr strict mods).
  Notation ct := (ctarget strict mods).
  Notation cc := (cclause strict mods).
  Notation cp := (cparam strict mods).
  Variables (sc : scope) (k : nat).

  Lemma ce_ENone : ce sc k ENone = Some (XNone, k). Proof. reflexivity. Qed.
  Lemma ce_EBool b : ce sc k (EBool b) = Some (XBool b, k). Proof. reflexivity. Qed.
  Lemma ce_EInt z : ce sc k (EInt z) = Some (XInt z, k). Proof. reflexivity. Qed.
  Lemma ce_EStr x : ce sc k (EStr x) = Some (XStr x, k). Proof. reflexivity. Qed.
  Lemma ce_EVar x : ce sc k (EVar x) = match cvar mods sc x with Some v => Some (XVar v, k) | None => None end.
  Proof. reflexivity. Qed.
  Lemma ce_ETuple es : ce sc k (ETuple es) = match omapS (ce sc) k es with Some (es', k') => Some (XTuple es', k') | None => None end.
  Proof. reflexivity. Qed.
  Lemma ce_EList es : ce sc k (EList es) = match omapS (ce sc) k es with Some (es', k') => Some (XList es', k') | None => None end.
  Proof. reflexivity. Qed.
  Lemma ce_EDict kvs : ce sc k (EDict kvs) =
    match omapS (fun k kv => match ce sc k (fst kv) with
                             | Some (a, k1) => match ce sc k1 (snd kv) with
                                               | Some (b, k2) => Some ((a, b), k2) | None => None end
                             | None => None end) k kvs with
    | Some (kvs', k') => Some (XDict kvs', k') | None => None end.
  Proof. reflexivity. Qed.
  Lemma ce_EUn o a : ce sc k (EUn o a) = match ce sc k a with Some (a', k') => Some (XUn o a', k') | None => None end.
  Proof. reflexivity. Qed.
  Lemma ce_EBin o a b : ce sc k (EBin o a b) =
    match ce sc k a with
    | Some (a', k1) => match ce sc k1 b with Some (b', k2) => Some (XBin o a' b', k2) | None => None end
    | None => None end.
  Proof. reflexivity. Qed.
  Lemma ce_EAnd a b : ce sc k (EAnd a b) =
    match ce sc k a with
    | Some (a', k1) => match ce sc k1 b with Some (b', k2) => Some (XAnd a' b', k2) | None => None end
    | None => None end.
  Proof. reflexivity. Qed.
  Lemma ce_EOr a b : ce sc k (EOr a b) =
    match ce sc k a with
    | Some (a', k1) => match ce sc k1 b with Some (b', k2) => Some (XOr a' b', k2) | None => None end
    | None => None end.
  Proof. reflexivity. Qed.
  Lemma ce_EIf c t f : ce sc k (EIf c t f) =
    match ce sc k c with
    | Some (c', k1) =>
        match ce sc k1 t with
        | Some (t', k2) => match ce sc k2 f with Some (f', k3) => Some (XIf c' t' f', k3) | None => None end
        | None => None end
    | None => None end.
  Proof. reflexivity. Qed.
  Lemma ce_EIndex a b : ce sc k (EIndex a b) =
    match ce sc k a with
    | Some (a', k1) => match ce sc k1 b with Some (b', k2) => Some (XIndex a' b', k2) | None => None end
    | None => None end.
  Proof. reflexivity. Qed.
  Lemma ce_ESlice a lo hi st : ce sc k (ESlice a lo hi st) =
    match ce sc k a with
    | Some (a', k1) =>
        match copt (ce sc) k1 lo with
        | Some (lo', k2) =>
            match copt (ce sc) k2 hi with
            | Some (hi', k3) =>
                match copt (ce sc) k3 st with
                | Some (st', k4) => Some (XSlice a' lo' hi' st', k4) | None => None end
            | None => None end
        | None => None end
    | None => None end.
  Proof. reflexivity. Qed.
  Lemma ce_ECall f args kwargs star dstar : ce sc k (ECall f args kwargs star dstar) =
    match ce sc k f with
    | Some (f', k1) =>
        match omapS (ce sc) k1 args with
        | Some (args', k2) =>
            match omapS (fun k kv => match ce sc k (snd kv) with
                                     | Some (v, k') => Some ((fst kv, v), k') | None => None end) k2 kwargs with
            | Some (kwargs', k3) =>
                match copt (ce sc) k3 star with
                | Some (star', k4) =>
                    match copt (ce sc) k4 dstar with
                    | Some (dstar', k5) => Some (XCall f' args' kwargs' star' dstar', k5) | None => None end
                | None => None end
            | None => None end
        | None => None end
    | None => None end.
  Proof. reflexivity. Qed.
  Lemma ce_EMeth r m args kwargs : ce sc k (EMeth r m args kwargs) =
    match ce sc k r with
    | Some (r', k1) =>
        match omapS (ce sc) k1 args with
        | Some (args', k2) =>
            match omapS (fun k kv => match ce sc k (snd kv) with
                                     | Some (v, k') => Some ((fst kv, v), k') | None => None end) k2 kwargs with
            | Some (kwargs', k3) => Some (XMeth r' m args' kwargs', k3)
            | None => None end
        | None => None end
    | None => None end.
  Proof. reflexivity. Qed.
  Lemma ce_ELambda ps body : ce sc k (ELambda ps body) =
    match omapS (cp sc) k ps with
    | Some (ps', k1) =>
        let pnames := map param_name ps in
        let slotnames := dedup pnames in
        let capt := fun x => mem x (fvg false body) in
        if nodupb pnames then
          match fun_scope sc slotnames capt (remove_all slotnames (fvg true body)) with
          | Some (sc', parents, n) =>
              match ce sc' n body with
              | Some (body', kf) =>
                  Some (XLambda ps' {| di_names := slotnames; di_nslots := kf;
                                       di_wrap := wrap_slots slotnames pnames capt; di_parents := parents |} body', k1)
              | None => None end
          | None => None end
        else None
    | None => None end.
  Proof. reflexivity. Qed.
  Lemma ce_EListComp body cls : ce sc k (EListComp body cls) =
    match cls with
    | CFor t0 e0 :: r =>
        match ce sc k e0 with
        | Some (e0', k1) =>
            let capt := fun x => mem x (fvt false t0 ++ flat_map (fvc false) r ++ fvg false body) in
            match compr_scope strict sc k1 (Sem.dedup (clause_names cls)) capt with
            | Some (sc', vars, k2) =>
                match ct sc' k2 t0 with
                | Some (t0', k3) =>
                    match omapS (cc sc') k3 r with
                    | Some (r', k4) =>
                        match ce sc' k4 body with
                        | Some (body', k5) => Some (XListComp vars body' (XCFor t0' e0' :: r'), k5)
                        | None => None end
                    | None => None end
                | None => None end
            | None => None end
        | None => None end
    | _ => None
    end.
  Proof. destruct cls as [|[|] ?]; reflexivity. Qed.
  Lemma ce_EDictComp kx vx cls : ce sc k (EDictComp kx vx cls) =
    match cls with
    | CFor t0 e0 :: r =>
        match ce sc k e0 with
        | Some (e0', k1) =>
            let capt := fun x => mem x (fvt false t0 ++ flat_map (fvc false) r ++ fvg false kx ++ fvg false vx) in
            match compr_scope strict sc k1 (Sem.dedup (clause_names cls)) capt with
            | Some (sc', vars, k2) =>
                match ct sc' k2 t0 with
                | Some (t0', k3) =>
                    match omapS (cc sc') k3 r with
                    | Some (r', k4) =>
                        match ce sc' k4 kx with
                        | Some (kx', k5) =>
                            match ce sc' k5 vx with
                            | Some (vx', k6) => Some (XDictComp vars kx' vx' (XCFor t0' e0' :: r'), k6)
                            | None => None end
                        | None => None end
                    | None => None end
                | None => None end
            | None => None end
        | None => None end
    | _ => None
    end.
  Proof. destruct cls as [|[|] ?]; reflexivity. Qed.

  Lemma cc_CFor t e : cc sc k (CFor t e) =
    match ce sc k e with
    | Some (e', k1) => match ct sc k1 t with Some (t', k2) => Some (XCFor t' e', k2) | None => None end
    | None => None end.
  Proof. reflexivity. Qed.
  Lemma cc_CIf e : cc sc k (CIf e) = match ce sc k e with Some (e', k1) => Some (XCIf e', k1) | None => None end.
  Proof. reflexivity. Qed.

  Lemma cp_eq p : cp sc k p =
    match p with
    | PNormal x (Some d) => match ce sc k d with Some (d', k1) => Some (SPNormal x (Some d'), k1) | None => None end
    | PNormal x None => Some (SPNormal x None, k)
    | PArgs x => Some (SPArgs x, k)
    | PKwargs x => Some (SPKwargs x, k)
    end.
  Proof. destruct p as [x [d|]|x|x]; reflexivity. Qed.

  Lemma ct_TVar x : ct sc k (TVar x) = match cvar mods sc x with Some v => Some (XTVar v, k) | None => None end.
  Proof. reflexivity. Qed.
  Lemma ct_TTuple ts : ct sc k (TTuple ts) = match omapS (ct sc) k ts with Some (ts', k') => Some (XTTuple ts', k') | None => None end.
  Proof. reflexivity. Qed.
  Lemma ct_TIndex a i : ct sc k (TIndex a i) =
    match ce sc k a with
    | Some (a', k1) => match ce sc k1 i with Some (i', k2) => Some (XTIndex a' i', k2) | None => None end
    | None => None end.
  Proof. reflexivity. Qed.
End CompileEq.

(* ================================================================================================================ *)
(* Part B: the relation between a state of the reference interpreter and a state of the slot machine.
   Values, list and dict addresses, closure addresses and the transcript are EQUAL on both sides; the reference
   has one cell per variable, the machine has frame slots, module slots and (lazily allocated) captured cells.
   `r a c` relates the reference cell `a` of a captured variable to the machine cell `c`. *)
Definition rho := nat -> nat -> Prop.
Definition sub (r r' : rho) : Prop := forall a c, r a c -> r' a c.
Definition dom (r : rho) (a : nat) : Prop := exists c, r a c.
Lemma sub_refl r : sub r r. Proof. intros a c H. exact H. Qed.
Lemma sub_trans r1 r2 r3 : sub r1 r2 -> sub r2 r3 -> sub r1 r3. Proof. intros H1 H2 a c H. auto. Qed.

Definition erase_default (p : param) : param := match p with PNormal x _ => PNormal x None | _ => p end.

Definition locals_of (b : body) : list string := match b with BStmts ss => body_names ss | BExpr _ => [] end.

Definition own (en : env) (sc : scope) (a : nat) : Prop :=
  exists x e, sassoc x (sc_entries sc) = Some e /\ lookup x en = Some a.
Definition vslot (sc : scope) (i : nat) : Prop := exists x k, sassoc x (sc_entries sc) = Some (i, k).

Definition is_unbound (e : err) : bool := match e with Unbound => true | _ => false end.

Section Sim.
Variable genv : env.
Variable mods : list string.
Hypothesis genv_nodup : NoDup (map snd genv).
Hypothesis genv_mods : forall x, sidx x mods = None -> lookup x genv = None.

Notation cexprT := (cexpr true mods).
Notation cstmtT := (cstmt true mods).

Definition body_compiled (sc' : scope) (n : nat) (b : body) (b' : sbody) (kf : nat) : Prop :=
  match b, b' with
  | BStmts ss, SBStmts ss' => omapS (cstmtT sc') n ss = Some (ss', kf)
  | BExpr e, SBExpr e' => cexprT sc' n e = Some (e', kf)
  | _, _ => False
  end.

Inductive clo_rel (r : rho) (N : nat) (cl : closure) (scl : sclosure) : Prop :=
| CloRel (cr_sc cr_sc' : scope) (cr_slotnames : list string) (cr_capt : string -> bool) (cr_free : list string)
    (cr_n : nat)
    (cr_params : sc_params scl = map erase_default (c_params cl))
    (cr_dflts : sc_defaults scl = c_defaults cl)
    (cr_pnd : NoDup (map param_name (c_params cl)))
    (cr_names : forall x, In x cr_slotnames <-> In x (map param_name (c_params cl) ++ locals_of (c_body cl)))
    (cr_snd : NoDup cr_slotnames)
    (cr_scope : fun_scope cr_sc cr_slotnames cr_capt cr_free = Some (cr_sc', di_parents (sc_info scl), cr_n))
    (cr_dnames : di_names (sc_info scl) = cr_slotnames)
    (cr_wrap : di_wrap (sc_info scl) = wrap_slots cr_slotnames (map param_name (c_params cl)) cr_capt)
    (cr_body : body_compiled cr_sc' cr_n (c_body cl) (sc_body scl) (di_nslots (sc_info scl)))
    (cr_end : NoDup (map snd (c_env cl)))
    (cr_ebound : forall a, In a (map snd (c_env cl)) -> a < N)
    (cr_copied : Forall2 (fun x c => exists a, lookup x (c_env cl) = Some a /\ r a c)
                         (filter (is_local cr_sc) (dedup cr_free)) (sc_captured scl))
    (cr_outer : forall x, is_local cr_sc x = false -> mem x (sc_hidden cr_sc) = false ->
                          lookup x (c_env cl) = lookup x genv).

Record GInv (r : rho) (s : state) (t : sstate) : Prop := {
  g_lists : lists s = lists (base t);
  g_dicts : dicts s = dicts (base t);
  g_out : out s = out (base t);
  g_fun : forall a c c', r a c -> r a c' -> c = c';
  g_inj : forall a a' c, r a c -> r a' c -> a = a';
  g_cells : forall a c, r a c -> a < length (cells s) /\ c < length (cells (base t)) /\
                                  nth_error (cells s) a = nth_error (cells (base t)) c /\ ~ In a (map snd genv);
  g_genv : forall a, In a (map snd genv) -> a < length (cells s);
  g_mods : forall x j, sidx x mods = Some j ->
             exists a o, lookup x genv = Some a /\ nth_error (cells s) a = Some o /\ nth_error (smods t) j = Some o;
  g_clen : length (clos s) = length (sclos t);
  g_clos : forall k cl scl, nth_error (clos s) k = Some cl -> nth_error (sclos t) k = Some scl ->
             clo_rel r (length (cells s)) cl scl
}.

Record FrameRel (en : env) (sc : scope) (r : rho) (s : state) (t : sstate) : Prop := {
  f_nodup : NoDup (map snd en);
  f_bound : forall a, In a (map snd en) -> a < length (cells s);
  f_sinj : forall x y i k k', sassoc x (sc_entries sc) = Some (i, k) -> sassoc y (sc_entries sc) = Some (i, k') -> x = y;
  f_vars : forall x,
    match sassoc x (sc_entries sc) with
    | Some (i, false) => exists a, lookup x en = Some a /\ ~ dom r a /\ ~ In a (map snd genv) /\
                                   (forall v, nth_error (cells s) a = Some (Some v) -> fget (cur t) i = FVal v)
    | Some (i, true) => exists a, lookup x en = Some a /\ ~ In a (map snd genv) /\
                                  ((fget (cur t) i = FEmpty /\ nth_error (cells s) a = Some None /\ ~ dom r a) \/
                                   (exists c, fget (cur t) i = FCell c /\ r a c))
    | None => mem x (sc_hidden sc) = false -> lookup x en = lookup x genv
    end
}.

(* what a computation may have done to the reference cells and to the cell relation:
   O = the cells of the variables visible in the current frame *)
Record PostC (O : nat -> Prop) (r r' : rho) (s s' : state) : Prop := {
  p_sub : sub r r';
  p_len : length (cells s) <= length (cells s');
  p_cells : forall a, a < length (cells s) -> ~ O a -> ~ dom r a -> ~ In a (map snd genv) ->
              nth_error (cells s') a = nth_error (cells s) a;
  p_dom : forall a, dom r' a -> dom r a \/ length (cells s) <= a \/ O a
}.

Lemma PostC_refl O r s : PostC O r r s s.
Proof. constructor; auto using sub_refl. Qed.

Lemma PostC_trans O r1 r2 r3 s1 s2 s3 : PostC O r1 r2 s1 s2 -> PostC O r2 r3 s2 s3 -> PostC O r1 r3 s1 s3.
Proof.
  intros [A1 A2 A3 A4] [B1 B2 B3 B4]. constructor.
  - eapply sub_trans; eassumption.
  - lia.
  - intros a Ha HO Hd Hg. rewrite B3; auto; try lia.
    intros Hd2. destruct (A4 a Hd2) as [?|[?|?]]; auto; lia.
  - intros a Hd. destruct (B4 a Hd) as [H|[H|H]]; auto.
    right; left; lia.
Qed.

Lemma PostC_ext O r r' s s1 s2 : PostC O r r' s s1 -> cells s2 = cells s1 -> PostC O r r' s s2.
Proof. intros [A1 A2 A3 A4] E. constructor; auto; rewrite E; auto. Qed.

Lemma PostC_weaken (O O' : nat -> Prop) r r' s s' : (forall a, O a -> O' a) -> PostC O r r' s s' -> PostC O' r r' s s'.
Proof.
  intros H [A1 A2 A3 A4]. constructor; auto.
  intros a Hd. destruct (A4 a Hd) as [?|[?|?]]; auto.
Qed.

Class GenOK (Fi : rho -> state -> sstate -> Prop) (FP : sstate -> sstate -> Prop) : Prop := {
  FP_refl : forall t, FP t t;
  FP_trans : forall t1 t2 t3, FP t1 t2 -> FP t2 t3 -> FP t1 t3;
  FP_base : forall t b, FP t (with_base t b);
  Fi_stable : forall r s t s' b, Fi r s t -> cells s' = cells s -> Fi r s' (with_base t b)
}.

Section Gen.
  (* Fi: the invariant of the current frame; O: its cells; FP: what may have happened to the current frame *)
  Variable Fi : rho -> state -> sstate -> Prop.
  Variable O : nat -> Prop.
  Variable FP : sstate -> sstate -> Prop.
  Context {Hok : GenOK Fi FP}.

  Definition rres {A} (r : rho) (s : state) (t : sstate) (x : res A) (y : sres A) : Prop :=
    match x with
    | Ok a s' => match y with
                 | SOk b t' => a = b /\ exists r', GInv r' s' t' /\ Fi r' s' t' /\ PostC O r r' s s' /\ FP t t'
                 | _ => False end
    | Fail e l s' => if is_unbound e then True
                     else match y with
                          | SFail e' l' t' => e = e' /\ l = l' /\ out s' = out (base t')
                          | _ => False end
    | OutOfFuel => match y with SOutOfFuel => True | _ => False end
    end.

  Definition sim {A} (m : M A) (sm : SM A) : Prop :=
    forall r s t, GInv r s t -> Fi r s t -> rres r s t (m s) (sm t).

  Lemma rres_compose {A} r r1 s s1 t t1 (x : res A) y :
    PostC O r r1 s s1 -> FP t t1 -> rres r1 s1 t1 x y -> rres r s t x y.
  Proof.
    intros HP HF H. unfold rres in *. destruct x as [a s2|e l s2|]; auto.
    destruct y as [b t2|?|]; auto. destruct H as [E (r2 & G & HI & P & F)]. split; [exact E|].
    exists r2. split; [exact G|]. split; [exact HI|]. split; [eapply PostC_trans; eassumption|eapply FP_trans; eassumption].
  Qed.

  Lemma sim_ret {A} (a : A) : sim (ret a) (sret a).
  Proof.
    intros r s t G HI. cbn. split; [reflexivity|]. exists r. split; [exact G|]. split; [exact HI|]. split; [apply PostC_refl|apply FP_refl].
  Qed.

  Lemma sim_fail {A} e : sim (@fail A e) (@sfail A e).
  Proof. intros r s t G HI. cbn. destruct (is_unbound e); auto. repeat split; auto. apply (g_out _ _ _ G). Qed.

  Lemma sim_bind {A B} (m : M A) (sm : SM A) (f : A -> M B) (g : A -> SM B) :
    sim m sm -> (forall a, sim (f a) (g a)) -> sim (bind m f) (sbind sm g).
  Proof.
    intros Hm Hf r s t G HI. specialize (Hm r s t G HI). unfold bind, sbind, rres in *.
    destruct (m s) as [a s1|e l s1|].
    - destruct (sm t) as [b t1|?|]; try contradiction. destruct Hm as [<- (r1 & G1 & I1 & P1 & F1)].
      eapply rres_compose; [exact P1|exact F1|]. apply Hf; assumption.
    - destruct (is_unbound e); auto. destruct (sm t); try (exfalso; exact Hm). exact Hm.
    - destruct (sm t); try (exfalso; exact Hm). exact I.
  Qed.

  Lemma sim_mapM {A B} (f : A -> M B) (g : A -> SM B) l : (forall x, sim (f x) (g x)) -> sim (mapM f l) (smapM g l).
  Proof.
    intros H. induction l as [|x xs IH]; cbn [mapM smapM]; [apply sim_ret|].
    apply sim_bind; [apply H|]. intros y. apply sim_bind; [apply IH|]. intros ys. apply sim_ret.
  Qed.

  (* elementwise, for lists translated by the resolver *)
  Lemma sim_mapM2 {A A' B} (R : A -> A' -> Prop) (f : A -> M B) (g : A' -> SM B) l l' :
    Forall2 R l l' -> (forall x x', R x x' -> sim (f x) (g x')) -> sim (mapM f l) (smapM g l').
  Proof.
    intros F H. induction F as [|x x' l l' Hx _ IH]; cbn [mapM smapM]; [apply sim_ret|].
    apply sim_bind; [apply H; exact Hx|]. intros y. apply sim_bind; [apply IH|]. intros ys. apply sim_ret.
  Qed.

  Lemma core_sw r s t : GInv r s t -> s = sw (cells s) (clos s) (base t).
  Proof. intros G. destruct s. unfold sw. cbn. rewrite <- (g_lists _ _ _ G), <- (g_dicts _ _ _ G), <- (g_out _ _ _ G). reflexivity. Qed.

  Lemma GInv_pure r s t s' b' :
    GInv r s t -> s' = sw (cells s) (clos s) b' -> cells b' = cells (base t) -> GInv r s' (with_base t b').
  Proof.
    intros G -> Hc. destruct G. constructor; cbn [sw with_base base sclos smods cur lists dicts out cells clos]; auto.
    - intros a c H. rewrite Hc. auto.
  Qed.

  (* a value-level operation of Core, run on both sides *)
  Lemma sim_lift {A} (m : M A) : pure_op m -> sim m (lift m).
  Proof.
    intros Hp r s t G HI. unfold lift, rres.
    pose proof (core_sw _ _ _ G) as Es.
    pose proof (Hp (cells s) (clos s) (base t)) as E1. rewrite <- Es in E1.
    pose proof (Hp (cells (base t)) (clos (base t)) (base t)) as E2. rewrite sw_id in E2.
    rewrite E1. destruct (m (base t)) as [a b|e l b|]; cbn [rmap] in *.
    - split; [reflexivity|]. exists r.
      assert (Hc : cells b = cells (base t)) by (inversion E2 as [E3]; rewrite E3 at 1; reflexivity).
      split; [exact (GInv_pure r s t _ b G eq_refl Hc)|]. split; [apply Fi_stable with (s := s); [exact HI|reflexivity]|].
      split; [|apply FP_base]. constructor; auto using sub_refl.
    - destruct (is_unbound e); auto.
    - exact I.
  Qed.

  Lemma sim_at_line {A} ln (m : M A) (sm : SM A) : sim m sm -> sim (at_line ln m) (sat_line ln sm).
  Proof.
    intros H r s t G HI. specialize (H r s t G HI). unfold at_line, sat_line, rres in *.
    destruct (m s) as [a s1|e l s1|].
    - destruct (sm t); try contradiction. exact H.
    - destruct (is_unbound e) eqn:Eu.
      + destruct l; cbn; rewrite Eu; exact I.
      + destruct (sm t) as [|e' l' t1|]; try contradiction. destruct H as (<- & <- & Ho).
        destruct l; cbn; rewrite Eu; auto.
    - destruct (sm t); try contradiction. exact I.
  Qed.

  Lemma out_iter_lock v d s u s' : iter_lock v d s = Ok u s' -> out s' = out s.
  Proof.
    unfold iter_lock. destruct v; try (intros H; inversion H; reflexivity).
    - destruct (nth_error (lists s) a) as [[? ?]|]; intros H; inversion H; reflexivity.
    - destruct (nth_error (dicts s) a) as [[? ?]|]; intros H; inversion H; reflexivity.
  Qed.
  Lemma iter_lock_ok v d s : exists s', iter_lock v d s = Ok tt s'.
  Proof.
    unfold iter_lock. destruct v; eauto.
    - destruct (nth_error (lists s) a) as [[? ?]|]; eauto.
    - destruct (nth_error (dicts s) a) as [[? ?]|]; eauto.
  Qed.

  Lemma sim_with_lock {A} v (m : M A) (sm : SM A) : sim m sm -> sim (with_lock v m) (swith_lock v sm).
  Proof.
    intros H r s t G HI. unfold with_lock, swith_lock.
    pose proof (sim_lift (iter_lock v true) (pure_iter_lock v true) r s t G HI) as L1. unfold rres in L1.
    destruct (iter_lock_ok v true s) as [s1 E1]. rewrite E1 in *.
    destruct (lift (iter_lock v true) t) as [u t1|?|]; try contradiction.
    destruct L1 as [_ (r1 & G1 & I1 & P1 & F1)].
    specialize (H r1 s1 t1 G1 I1). unfold rres in H.
    destruct (m s1) as [a s2|e l s2|].
    - destruct (sm t1) as [b t2|?|]; try contradiction. destruct H as [<- (r2 & G2 & I2 & P2 & F2)].
      pose proof (sim_lift (iter_lock v false) (pure_iter_lock v false) r2 s2 t2 G2 I2) as L2. unfold rres in L2.
      destruct (iter_lock_ok v false s2) as [s3 E3]. rewrite E3 in *.
      destruct (lift (iter_lock v false) t2) as [u' t3|?|]; try contradiction.
      destruct L2 as [_ (r3 & G3 & I3 & P3 & F3)]. cbn. split; [reflexivity|]. exists r3.
      split; [exact G3|]. split; [exact I3|]. split.
      + eapply PostC_trans; [exact P1|]. eapply PostC_trans; eassumption.
      + eapply FP_trans; [exact F1|]. eapply FP_trans; eassumption.
    - unfold rres. destruct (is_unbound e) eqn:Eu.
      + destruct (iter_lock v false s2); cbn; rewrite ?Eu; auto.
      + destruct (sm t1) as [|e' l' t2|]; try contradiction. destruct H as (<- & <- & Ho).
        destruct (iter_lock_ok v false s2) as [s3 E3]. rewrite E3. cbn. rewrite Eu.
        unfold lift. destruct (iter_lock_ok v false (base t2)) as [b3 E4]. rewrite E4. cbn.
        repeat split; auto. rewrite (out_iter_lock _ _ _ _ _ E3), (out_iter_lock _ _ _ _ _ E4). exact Ho.
    - destruct (sm t1); try contradiction. exact I.
  Qed.

  Lemma sim_run_block (ex : stmt -> M ctrl) (sx : sstmt -> SM ctrl) ss ss' :
    Forall2 (fun st st' => sim (ex st) (sx st')) ss ss' -> sim (run_block ex ss) (srun_block sx ss').
  Proof.
    intros F. induction F as [|st st' ss ss' H _ IH]; cbn [run_block srun_block]; [apply sim_ret|].
    apply sim_bind; [exact H|]. intros c. destruct c; try apply sim_ret. exact IH.
  Qed.

  Lemma sim_for_loop (b : value -> M ctrl) (sb : value -> SM ctrl) vs :
    (forall v, sim (b v) (sb v)) -> sim (for_loop b vs) (sfor_loop sb vs).
  Proof.
    intros H. induction vs as [|v vs IH]; cbn [for_loop sfor_loop]; [apply sim_ret|].
    apply sim_bind; [apply H|]. intros c. destruct c; try apply sim_ret; exact IH.
  Qed.

  (* truth of a value: `s <- get_state ;; if truth s x ...` against `b <~ struth x ;; if b ...` *)
  Lemma sim_truth {A} x (f : bool -> M A) (g : bool -> SM A) :
    (forall b, sim (f b) (g b)) -> sim (s <- get_state ;; f (truth s x)) (sbind (struth x) g).
  Proof.
    intros H r s t G HI.
    assert (E : (s0 <- get_state ;; f (truth s0 x)) s = bind (s0 <- get_state ;; ret (truth s0 x)) f s) by reflexivity.
    rewrite E. unfold struth. apply sim_bind; [apply sim_lift, pure_truth|exact H|exact G|exact HI].
  Qed.
  Lemma sim_truth_if {A} x (A1 A2 : M A) (B1 B2 : SM A) :
    sim A1 B1 -> sim A2 B2 ->
    sim (s <- get_state ;; if truth s x then A1 else A2) (sbind (struth x) (fun b => if b then B1 else B2)).
  Proof.
    intros H1 H2. apply (sim_truth x (fun b => if b then A1 else A2) (fun b => if b then B1 else B2)).
    intros [|]; assumption.
  Qed.
End Gen.

(* ================================================================================================================ *)
(* Part C.1: lists, frames, environments *)
Lemma fget_fset_eq fr i x : fget (fset fr i x) i = x.
Proof.
  unfold fget. revert fr. induction i as [|i IH]; intros [|h r]; cbn; auto.
Qed.
Lemma fget_fset_neq fr i j x : i <> j -> fget (fset fr i x) j = fget fr j.
Proof.
  unfold fget. revert fr j. induction i as [|i IH]; intros [|h r] [|j] H; cbn; auto; try congruence.
  - destruct j; reflexivity.
  - rewrite IH by congruence. destruct j; reflexivity.
Qed.
Lemma fget_repeat n i : fget (repeat FEmpty n) i = FEmpty.
Proof. unfold fget. revert i. induction n; intros [|i]; cbn; auto. Qed.

Lemma nth_error_upd_eq {X} (l : list X) a x : a < length l -> nth_error (upd l a x) a = Some x.
Proof. revert a. induction l as [|h t IH]; intros [|a] H; cbn in *; try lia; auto. apply IH. lia. Qed.
Lemma nth_error_upd_neq {X} (l : list X) a a' x : a <> a' -> nth_error (upd l a x) a' = nth_error l a'.
Proof. revert a a'. induction l as [|h t IH]; intros [|a] [|a'] H; cbn; auto; try congruence. Qed.
Lemma length_upd {X} (l : list X) a x : length (upd l a x) = length l.
Proof. revert a. induction l as [|h t IH]; intros [|a]; cbn; auto. Qed.

Lemma lookup_app x e1 e2 : lookup x (e1 ++ e2) = match lookup x e1 with Some a => Some a | None => lookup x e2 end.
Proof. induction e1 as [|[y a] e1 IH]; cbn; auto. destruct (String.eqb x y); auto. Qed.
Lemma lookup_In x en a : lookup x en = Some a -> In a (map snd en).
Proof.
  induction en as [|[y b] en IH]; cbn; [discriminate|]. destruct (String.eqb x y); [intros H; inversion H; auto|auto].
Qed.
Lemma lookup_nodup_inj en x y a : NoDup (map snd en) -> lookup x en = Some a -> lookup y en = Some a -> x = y.
Proof.
  induction en as [|[z b] en IH]; cbn; [discriminate|]. intros ND Hx Hy. inversion ND as [|? ? Hn ND']; subst.
  destruct (String.eqb_spec x z), (String.eqb_spec y z); subst; auto.
  - inversion Hx; subst. exfalso. apply Hn. eapply lookup_In; eauto.
  - inversion Hy; subst. exfalso. apply Hn. eapply lookup_In; eauto.
Qed.
Lemma lookup_none_notin x en : lookup x en = None <-> ~ In x (map fst en).
Proof.
  induction en as [|[y b] en IH]; cbn; [tauto|]. destruct (String.eqb_spec x y); subst.
  - split; [discriminate|]. intros H. exfalso. auto.
  - rewrite IH. split; [intros H [E|E]; auto|tauto].
Qed.

Lemma sassoc_app {V} x (l1 l2 : list (string * V)) :
  sassoc x (l1 ++ l2) = match sassoc x l1 with Some v => Some v | None => sassoc x l2 end.
Proof. induction l1 as [|[y v] l1 IH]; cbn; auto. destruct (String.eqb x y); auto. Qed.
Lemma sassoc_none {V} x (l : list (string * V)) : sassoc x l = None <-> ~ In x (map fst l).
Proof.
  induction l as [|[y b] l IH]; cbn; [tauto|]. destruct (String.eqb_spec x y); subst.
  - split; [discriminate|]. intros H. exfalso. auto.
  - rewrite IH. split; [intros H [E|E]; auto|tauto].
Qed.

Lemma sidx_lt x l i : sidx x l = Some i -> i < length l.
Proof.
  revert i. induction l as [|y l IH]; cbn; [discriminate|]. intros i. destruct (String.eqb x y).
  - intros H; inversion H; lia.
  - destruct (sidx x l); cbn; [|discriminate]. intros H; inversion H. specialize (IH _ eq_refl). lia.
Qed.
Lemma sidx_nth x l i : sidx x l = Some i -> nth_error l i = Some x.
Proof.
  revert i. induction l as [|y l IH]; cbn; [discriminate|]. intros i. destruct (String.eqb_spec x y).
  - intros H; inversion H; subst; reflexivity.
  - destruct (sidx x l); cbn; [|discriminate]. intros H; inversion H. cbn. apply IH. reflexivity.
Qed.
Lemma sidx_inj x y l i : sidx x l = Some i -> sidx y l = Some i -> x = y.
Proof. intros H1 H2. apply sidx_nth in H1. apply sidx_nth in H2. congruence. Qed.
Lemma sidx_none x l : sidx x l = None <-> ~ In x l.
Proof.
  induction l as [|y l IH]; cbn; [tauto|]. destruct (String.eqb_spec x y); subst.
  - split; [discriminate|]. intros H. exfalso. auto.
  - destruct (sidx x l); cbn.
    + split; [discriminate|]. intros H. exfalso. apply H. right. apply Decidable.not_not; [|intros C; apply IH in C; discriminate].
      unfold Decidable.decidable. destruct (in_dec string_dec x l); auto.
    + split; [|reflexivity]. intros _ [E|E]; [congruence|]. apply IH in E; auto.
Qed.
Lemma sidx_some x l : In x l -> exists i, sidx x l = Some i.
Proof. intros H. destruct (sidx x l) eqn:E; eauto. apply sidx_none in E. contradiction. Qed.

(* entries built from an indexed list of names *)
Lemma sassoc_indexed (f : string -> bool) x l k :
  sassoc x (map (fun ix : nat * string => (snd ix, (fst ix, f (snd ix)))) (indexed k l)) =
  option_map (fun i => (k + i, f x)) (sidx x l).
Proof.
  unfold indexed. revert k. induction l as [|y l IH]; intros k; cbn; [reflexivity|].
  destruct (String.eqb_spec x y); subst; cbn.
  - rewrite Nat.add_0_r. reflexivity.
  - rewrite IH. destruct (sidx x l); cbn; [|reflexivity]. do 2 f_equal. lia.
Qed.

Lemma mem_eq x l : mem x l = existsb (String.eqb x) l.
Proof. reflexivity. Qed.

Lemma sc_bound_lt sc x i k : sassoc x (sc_entries sc) = Some (i, k) -> i < sc_bound sc.
Proof.
  unfold sc_bound. induction (sc_entries sc) as [|[y [j b]] l IH]; cbn [sassoc fold_right fst snd]; [discriminate|].
  destruct (String.eqb x y).
  - intros H; inversion H; subst. lia.
  - intros H. specialize (IH H). lia.
Qed.

(* the reference interpreter's dedup keeps the same names *)
Lemma sem_dedup_In l x : In x (Sem.dedup l) <-> In x l.
Proof.
  induction l as [|y l IH]; cbn; [tauto|].
  destruct (existsb (String.eqb y) l) eqn:E.
  - rewrite IH. split; auto. intros [->|H]; auto.
    apply existsb_exists in E. destruct E as (z & Hz & Ez). apply String.eqb_eq in Ez. subst. exact Hz.
  - cbn. rewrite IH. tauto.
Qed.

(* alloc_cells: fresh consecutive cells *)
Lemma alloc_cells_spec names s :
  exists new, alloc_cells names s =
    Ok new {| lists := lists s; dicts := dicts s; cells := cells s ++ repeat None (length names); clos := clos s; out := out s |} /\
    map fst new = names /\ map snd new = seq (length (cells s)) (length names).
Proof.
  revert s. induction names as [|x names IH]; intros s; cbn [alloc_cells].
  - exists []. cbn. rewrite app_nil_r. destruct s; auto.
  - unfold bind at 1. cbn [alloc_cell].
    destruct (IH {| lists := lists s; dicts := dicts s; cells := cells s ++ [None]; clos := clos s; out := out s |})
      as (new & E & Hf & Hs).
    unfold bind. rewrite E. cbn [ret lists dicts cells clos out] in *.
    exists ((x, length (cells s)) :: new). split; [|split].
    + rewrite <- app_assoc. reflexivity.
    + cbn. rewrite Hf. reflexivity.
    + cbn. rewrite Hs. rewrite app_length. cbn. rewrite Nat.add_1_r. reflexivity.
Qed.

(* ================================================================================================================ *)
(* Part C.2: the two instances of the generic simulation: inside a frame, and across a call *)
Definition FPf (sc : scope) (t t' : sstate) : Prop :=
  forall i, i < sc_bound sc -> ~ vslot sc i -> fget (cur t') i = fget (cur t) i.
Definition FPc (t t' : sstate) : Prop := cur t' = cur t.
Definition noframe (r : rho) (s : state) (t : sstate) : Prop := True.
Definition nocells (a : nat) : Prop := False.

Lemma FrameRel_stable en sc r s t s' b : FrameRel en sc r s t -> cells s' = cells s -> FrameRel en sc r s' (with_base t b).
Proof.
  intros [A1 A2 A3 A4] E. constructor; auto.
  - rewrite E. exact A2.
  - intros x. specialize (A4 x). cbn [with_base cur]. rewrite E. exact A4.
Qed.

#[local] Instance okF en sc : GenOK (FrameRel en sc) (FPf sc).
Proof.
  constructor.
  - intros t i _ _. reflexivity.
  - intros t1 t2 t3 H1 H2 i Hb Hv. rewrite H2, H1; auto.
  - intros t b i _ _. reflexivity.
  - intros. apply FrameRel_stable with (s := s); assumption.
Qed.
#[local] Instance okC : GenOK noframe FPc.
Proof.
  constructor; unfold FPc, noframe; auto.
  intros t1 t2 t3 H1 H2. congruence.
Qed.

Notation simF en sc := (sim (FrameRel en sc) (own en sc) (FPf sc)).
Notation csim := (sim noframe nocells FPc).
Notation rresF en sc := (rres (FrameRel en sc) (own en sc) (FPf sc)).

Lemma with_base_id t : with_base t (base t) = t.
Proof. destruct t; reflexivity. Qed.

Lemma rres_ok_refl Fi O FP {Hok : GenOK Fi FP} {A} r s t (a : A) :
  GInv r s t -> Fi r s t -> rres Fi O FP r s t (Ok a s) (SOk a t).
Proof. intros G F. cbn. split; [reflexivity|]. exists r. split; [exact G|]. split; [exact F|]. split; [apply PostC_refl|apply FP_refl]. Qed.

(* the frame of a suspended caller is not disturbed by a call *)
Lemma FrameRel_after_call en sc r r' s s' t t' :
  FrameRel en sc r s t -> PostC nocells r r' s s' -> cur t' = cur t -> FrameRel en sc r' s' t'.
Proof.
  intros [A1 A2 A3 A4] [P1 P2 P3 P4] Ec. constructor; auto.
  - intros a Ha. specialize (A2 a Ha). lia.
  - intros x. specialize (A4 x). rewrite Ec. destruct (sassoc x (sc_entries sc)) as [[i [|]]|]; auto.
    + destruct A4 as (a & La & Hg & Hc). exists a. split; [exact La|]. split; [exact Hg|].
      pose proof (A2 a (lookup_In _ _ _ La)) as Hlt.
      destruct Hc as [(E1 & E2 & E3)|(c & E1 & E2)].
      * left. split; [exact E1|]. split; [rewrite P3; auto|].
        intros Hd. destruct (P4 a Hd) as [?|[?|[]]]; auto. lia.
      * right. exists c. auto.
    + destruct A4 as (a & La & Hd & Hg & Hv). exists a. split; [exact La|].
      pose proof (A2 a (lookup_In _ _ _ La)) as Hlt.
      split; [|split; [exact Hg|]].
      * intros Hd'. destruct (P4 a Hd') as [?|[?|[]]]; auto. lia.
      * intros v Hv'. apply Hv. rewrite <- P3; auto.
Qed.

Lemma csim_simF {A} en sc (m : M A) (sm : SM A) : csim m sm -> simF en sc m sm.
Proof.
  intros H r s t G F. specialize (H r s t G Logic.I). unfold rres in *.
  destruct (m s) as [a s1|e l s1|]; auto.
  destruct (sm t) as [b t1|?|]; auto. destruct H as [E (r1 & G1 & _ & P1 & F1)]. split; [exact E|].
  exists r1. split; [exact G1|]. split; [eapply FrameRel_after_call; eassumption|].
  split; [eapply PostC_weaken; [|exact P1]; intros a0 []|].
  intros i _ _. rewrite F1. reflexivity.
Qed.

(* ---- state changes --------------------------------------------------------------------------------------------- *)
(* s1 is s with cell a set to o *)
Definition cells_upd (s s1 : state) (a : nat) (o : option value) : Prop :=
  lists s1 = lists s /\ dicts s1 = dicts s /\ out s1 = out s /\ clos s1 = clos s /\
  length (cells s1) = length (cells s) /\ nth_error (cells s1) a = Some o /\
  forall a', a' <> a -> nth_error (cells s1) a' = nth_error (cells s) a'.

Lemma cells_upd_set s a v : a < length (cells s) ->
  cells_upd s {| lists := lists s; dicts := dicts s; cells := upd (cells s) a (Some v); clos := clos s; out := out s |} a (Some v).
Proof.
  intros H. unfold cells_upd. cbn. rewrite length_upd. repeat split; auto.
  - apply nth_error_upd_eq. exact H.
  - intros a' Hn. apply nth_error_upd_neq. auto.
Qed.
Lemma cells_upd_same s a o : nth_error (cells s) a = Some o -> cells_upd s s a o.
Proof. intros H. unfold cells_upd. repeat split; auto. Qed.

Lemma Forall2_impl' {X Y} (R R' : X -> Y -> Prop) l1 l2 :
  (forall a b, R a b -> R' a b) -> Forall2 R l1 l2 -> Forall2 R' l1 l2.
Proof. intros H F. induction F; constructor; auto. Qed.

Lemma clo_rel_mono r r' N N' cl scl : sub r r' -> N <= N' -> clo_rel r N cl scl -> clo_rel r' N' cl scl.
Proof.
  intros Hs Hn []. econstructor; eauto.
  - intros a Ha. specialize (cr_ebound a Ha). lia.
  - eapply Forall2_impl'; [|exact cr_copied]. intros x c (a & La & Hr). eauto.
Qed.

(* a write to a cell that is private to a frame: the global invariant does not see it *)
Lemma GInv_priv_write r s s1 t fr a o :
  GInv r s t -> cells_upd s s1 a o -> ~ dom r a -> ~ In a (map snd genv) -> GInv r s1 (with_cur t fr).
Proof.
  intros G (U1 & U2 & U3 & U4 & U5 & U6 & U7) Hd Hg. destruct G.
  constructor; cbn [with_cur base sclos smods cur]; try congruence; auto.
  - intros a' c H. destruct (g_cells0 a' c H) as (B1 & B2 & B3 & B4).
    assert (a' <> a) by (intros ->; apply Hd; exists c; exact H).
    rewrite U5, U7 by assumption. auto.
  - intros a' H. rewrite U5. auto.
  - intros x j H. destruct (g_mods0 x j H) as (a' & o' & L & E1 & E2). exists a', o'.
    assert (a' <> a) by (intros ->; apply Hg; eapply lookup_In; eauto).
    rewrite U7 by assumption. auto.
  - intros k cl scl H1 H2. rewrite U4 in H1. rewrite U5. eauto.
Qed.

(* a write through a shared cell *)
Lemma GInv_shared_write r s s1 t a c o :
  GInv r s t -> cells_upd s s1 a (Some o) -> r a c ->
  GInv r s1 (with_base t {| lists := lists (base t); dicts := dicts (base t); cells := upd (cells (base t)) c (Some o);
                           clos := clos (base t); out := out (base t) |}).
Proof.
  intros G (U1 & U2 & U3 & U4 & U5 & U6 & U7) Hr. destruct G.
  constructor; cbn [with_base base sclos smods cur lists dicts out cells clos]; try congruence; auto.
  - intros a' c' H. destruct (g_cells0 a' c' H) as (B1 & B2 & B3 & B4). rewrite U5, length_upd.
    split; [exact B1|]. split; [exact B2|]. split; [|exact B4].
    destruct (Nat.eq_dec a' a) as [->|Hn].
    + assert (c' = c) by (eapply g_fun0; eauto). subst c'. rewrite U6, nth_error_upd_eq; auto.
    + assert (c' <> c) by (intros ->; apply Hn; eapply g_inj0; eauto).
      rewrite U7, nth_error_upd_neq; auto.
  - intros a' H. rewrite U5. auto.
  - intros x j H. destruct (g_mods0 x j H) as (a' & o' & L & E1 & E2). exists a', o'.
    destruct (g_cells0 a c Hr) as (_ & _ & _ & Hg).
    assert (a' <> a) by (intros ->; apply Hg; eapply lookup_In; eauto).
    rewrite U7 by assumption. auto.
  - intros k cl scl H1 H2. rewrite U4 in H1. rewrite U5. eauto.
Qed.

Definition ext (r : rho) (a c : nat) : rho := fun a' c' => r a' c' \/ (a' = a /\ c' = c).
Lemma sub_ext r a c : sub r (ext r a c).
Proof. intros a' c' H. left. exact H. Qed.

(* a private cell becomes shared: the machine allocates a cell with the same content *)
Lemma GInv_share_new r s s1 t fr a o :
  GInv r s t -> cells_upd s s1 a o -> ~ dom r a -> ~ In a (map snd genv) -> a < length (cells s) ->
  GInv (ext r a (length (cells (base t)))) s1
       (with_cur (with_base t {| lists := lists (base t); dicts := dicts (base t); cells := cells (base t) ++ [o];
                                 clos := clos (base t); out := out (base t) |}) fr).
Proof.
  intros G (U1 & U2 & U3 & U4 & U5 & U6 & U7) Hd Hg Hlt. destruct G.
  constructor; cbn [with_cur with_base base sclos smods cur lists dicts out cells clos]; try congruence; auto.
  - intros a' c c' [H|[-> ->]] [H'|[E ->]]; eauto.
    + subst a'. exfalso. apply Hd. eexists; eauto.
    + exfalso. apply Hd. eexists; eauto.
  - intros a' a'' c [H|[-> ->]] [H'|[-> E]]; eauto.
    + subst c. destruct (g_cells0 _ _ H) as (_ & B & _). lia.
    + destruct (g_cells0 _ _ H') as (_ & B & _). lia.
  - intros a' c [H|[-> ->]].
    + destruct (g_cells0 a' c H) as (B1 & B2 & B3 & B4). rewrite U5, app_length. cbn.
      assert (a' <> a) by (intros ->; apply Hd; exists c; exact H).
      rewrite U7, nth_error_app1 by assumption. repeat split; auto. lia.
    + rewrite U5, app_length, U6, nth_error_app2, Nat.sub_diag by lia. cbn. repeat split; auto. lia.
  - intros a' H. rewrite U5. auto.
  - intros x j H. destruct (g_mods0 x j H) as (a' & o' & L & E1 & E2). exists a', o'.
    assert (a' <> a) by (intros ->; apply Hg; eapply lookup_In; eauto).
    rewrite U7 by assumption. auto.
  - intros k cl scl H1 H2. rewrite U4 in H1. rewrite U5. eapply clo_rel_mono; [apply sub_ext|reflexivity|]. eauto.
Qed.

(* a write to a module variable *)
Lemma GInv_mod_write r s s1 t x j a o :
  GInv r s t -> cells_upd s s1 a (Some o) -> sidx x mods = Some j -> lookup x genv = Some a ->
  GInv r s1 {| base := base t; sclos := sclos t; smods := upd (smods t) j (Some o); cur := cur t |}.
Proof.
  intros G (U1 & U2 & U3 & U4 & U5 & U6 & U7) Hj La. destruct G.
  constructor; cbn [base sclos smods cur]; try congruence; auto.
  - intros a' c H. destruct (g_cells0 a' c H) as (B1 & B2 & B3 & B4).
    assert (a' <> a) by (intros ->; apply B4; eapply lookup_In; eauto).
    rewrite U5, U7 by assumption. auto.
  - intros a' H. rewrite U5. auto.
  - intros y j' H. destruct (g_mods0 y j' H) as (a' & o' & L & E1 & E2).
    destruct (String.eqb_spec y x) as [->|Hn].
    + assert (j' = j) by congruence. assert (a' = a) by congruence. subst. exists a, (Some o).
      split; [exact L|]. split; [exact U6|]. apply nth_error_upd_eq. apply nth_error_Some. congruence.
    + exists a', o'. split; [exact L|].
      assert (a' <> a) by (intros ->; apply Hn; eapply lookup_nodup_inj; eauto).
      assert (j' <> j) by (intros ->; apply Hn; eapply sidx_inj; eauto).
      rewrite U7, nth_error_upd_neq; auto.
  - intros k cl scl H1 H2. rewrite U4 in H1. rewrite U5. eauto.
Qed.

(* a write to the cell of a variable visible in the current frame, mirrored in its slot *)
Lemma write_local en sc r r1 s s1 t t1 x i k a o :
  FrameRel en sc r s t -> sassoc x (sc_entries sc) = Some (i, k) -> lookup x en = Some a ->
  cells_upd s s1 a o -> sub r r1 -> (forall a', dom r1 a' -> dom r a' \/ a' = a) ->
  (forall j, j <> i -> fget (cur t1) j = fget (cur t) j) ->
  (if k then (fget (cur t1) i = FEmpty /\ o = None /\ ~ dom r1 a) \/ (exists c, fget (cur t1) i = FCell c /\ r1 a c)
   else ~ dom r1 a /\ forall v, o = Some v -> fget (cur t1) i = FVal v) ->
  FrameRel en sc r1 s1 t1 /\ PostC (own en sc) r r1 s s1 /\ FPf sc t t1.
Proof.
  intros [A1 A2 A3 A4] Ex La (U1 & U2 & U3 & U4 & U5 & U6 & U7) Hs Hdom Hfr Hslot.
  split; [|split].
  - constructor; auto.
    + intros b Hb. rewrite U5. auto.
    + intros y. pose proof (A4 y) as Hy. destruct (sassoc y (sc_entries sc)) as [[j [|]]|] eqn:Ey; auto.
      * destruct Hy as (b & Lb & Hg & Hc). exists b. split; [exact Lb|]. split; [exact Hg|].
        destruct (Nat.eq_dec b a) as [->|Hn].
        -- assert (y = x) by (eapply lookup_nodup_inj; eauto). subst y. rewrite Ex in Ey. inversion Ey; subst j k.
           destruct Hslot as [(E1 & -> & E3)|Hc']; [left; auto|right; exact Hc'].
        -- assert (j <> i) by (intros ->; apply Hn; assert (y = x) by (eapply A3; eauto); subst y; congruence).
           rewrite Hfr, U7 by assumption.
           destruct Hc as [(E1 & E2 & E3)|(c & E1 & E2)]; [left|right; exists c; auto].
           split; [exact E1|]. split; [exact E2|]. intros Hd. destruct (Hdom b Hd); auto.
      * destruct Hy as (b & Lb & Hd & Hg & Hv). exists b. split; [exact Lb|].
        destruct (Nat.eq_dec b a) as [->|Hn].
        -- assert (y = x) by (eapply lookup_nodup_inj; eauto). subst y. rewrite Ex in Ey. inversion Ey; subst j k.
           destruct Hslot as [Hd' Hv']. split; [exact Hd'|]. split; [exact Hg|].
           intros v Hv2. apply Hv'. congruence.
        -- assert (j <> i) by (intros ->; apply Hn; assert (y = x) by (eapply A3; eauto); subst y; congruence).
           rewrite Hfr, U7 by assumption. split; [|split; [exact Hg|exact Hv]].
           intros Hd'. destruct (Hdom b Hd'); auto.
  - constructor; auto.
    + lia.
    + intros a' Hlt Ho _ _. apply U7. intros ->. apply Ho. exists x, (i, k). auto.
    + intros a' Hd. destruct (Hdom a' Hd) as [?| ->]; auto. right. right. exists x, (i, k). auto.
  - intros j Hb Hv. apply Hfr. intros ->. apply Hv. exists x, k. exact Ex.
Qed.

(* ---- reading a variable ------------------------------------------------------------------------------------------ *)
Lemma sim_load en sc x v n : cvar mods sc x = Some v -> simF en sc (eval (S n) en (EVar x)) (load_var v).
Proof.
  intros Hc r s t G F. cbn [eval]. unfold cvar in Hc. pose proof (f_vars _ _ _ _ _ F x) as Hx.
  destruct (sassoc x (sc_entries sc)) as [[i [|]]|].
  - inversion Hc; subst v. destruct Hx as (a & La & Hg & [(E1 & E2 & E3)|(c & E1 & E2)]); rewrite La; unfold get_cell.
    + rewrite E2. exact Logic.I.
    + destruct (g_cells _ _ _ G a c E2) as (B1 & B2 & B3 & B4). unfold load_var. rewrite E1. unfold lift, get_cell.
      rewrite <- B3. destruct (nth_error (cells s) a) as [[w|]|]; try exact Logic.I.
      rewrite with_base_id. apply rres_ok_refl; [apply okF|exact G|exact F].
  - inversion Hc; subst v. destruct Hx as (a & La & Hd & Hg & Hv). rewrite La. unfold get_cell.
    destruct (nth_error (cells s) a) as [[w|]|] eqn:E; try exact Logic.I.
    unfold load_var. rewrite (Hv w eq_refl). apply rres_ok_refl; [apply okF|exact G|exact F].
  - destruct (mem x (sc_hidden sc)); [discriminate|]. rewrite (Hx eq_refl).
    destruct (sidx x mods) as [j|] eqn:Ej.
    + inversion Hc; subst v. destruct (g_mods _ _ _ G x j Ej) as (a & o & La & E1 & E2). rewrite La. unfold get_cell, load_var.
      rewrite E1, E2. destruct o as [w|]; [|exact Logic.I]. apply rres_ok_refl; [apply okF|exact G|exact F].
    + rewrite (genv_mods x Ej). rewrite <- mem_eq. destruct (mem x builtin_names); [|discriminate].
      inversion Hc; subst v. apply rres_ok_refl; [apply okF|exact G|exact F].
Qed.

(* ---- assigning a variable ---------------------------------------------------------------------------------------- *)
Lemma sim_store en sc x v val : cvar mods sc x = Some v ->
  simF en sc (match lookup x en with Some a => set_cell a val | None => fail Unbound end) (store_var v val).
Proof.
  intros Hc r s t G F. unfold cvar in Hc. pose proof (f_vars _ _ _ _ _ F x) as Hx.
  destruct (sassoc x (sc_entries sc)) as [[i [|]]|] eqn:Ex.
  - (* a captured local *)
    inversion Hc; subst v. destruct Hx as (a & La & Hg & Hcase). rewrite La.
    pose proof (f_bound _ _ _ _ _ F a (lookup_In _ _ _ La)) as Hlt.
    pose proof (cells_upd_set s a val Hlt) as U. unfold set_cell, rres, store_var.
    destruct Hcase as [(E1 & E2 & E3)|(c & E1 & E2)]; rewrite E1.
    + (* first assignment: the machine allocates the cell *)
      unfold sbind, lift, alloc_cell, set_slot. cbn [base with_base cur].
      split; [reflexivity|]. exists (ext r a (length (cells (base t)))).
      split; [eapply GInv_share_new; eauto|].
      eapply write_local; eauto.
      * apply sub_ext.
      * intros a' [c' [H|[-> _]]]; [left; exists c'; exact H|right; reflexivity].
      * intros j Hj. cbn [cur with_cur with_base]. apply fget_fset_neq. auto.
      * right. exists (length (cells (base t))). cbn [cur with_cur with_base]. rewrite fget_fset_eq. split; [reflexivity|]. right. auto.
    + unfold lift, set_cell. split; [reflexivity|]. exists r. split; [eapply GInv_shared_write; eauto|].
      eapply write_local; eauto.
      * apply sub_refl.
      * right. exists c. auto.
  - (* a plain local *)
    inversion Hc; subst v. destruct Hx as (a & La & Hd & Hg & Hv). rewrite La.
    pose proof (f_bound _ _ _ _ _ F a (lookup_In _ _ _ La)) as Hlt.
    pose proof (cells_upd_set s a val Hlt) as U. unfold set_cell, store_var, set_slot, rres.
    split; [reflexivity|]. exists r. split; [eapply GInv_priv_write; eauto|].
    eapply write_local; eauto.
    + apply sub_refl.
    + intros j Hj. cbn [cur with_cur]. apply fget_fset_neq. auto.
    + split; [exact Hd|]. intros w Hw. inversion Hw; subst. cbn [cur with_cur]. apply fget_fset_eq.
  - destruct (mem x (sc_hidden sc)); [discriminate|]. rewrite (Hx eq_refl).
    destruct (sidx x mods) as [j|] eqn:Ej.
    + (* a module variable *)
      inversion Hc; subst v. destruct (g_mods _ _ _ G x j Ej) as (a & o & La & E1 & E2). rewrite La.
      assert (Hlt : a < length (cells s)) by (apply nth_error_Some; congruence).
      pose proof (cells_upd_set s a val Hlt) as U. unfold set_cell, store_var, rres.
      split; [reflexivity|]. exists r. split; [eapply GInv_mod_write; eauto|].
      destruct U as (U1 & U2 & U3 & U4 & U5 & U6 & U7).
      assert (Hna : forall y e b, sassoc y (sc_entries sc) = Some e -> lookup y en = Some b -> b <> a).
      { intros y [i' k'] b Ey Ly ->. pose proof (f_vars _ _ _ _ _ F y) as Hy. rewrite Ey in Hy.
        destruct k'; [destruct Hy as (b & Lb & Hg & _)|destruct Hy as (b & Lb & _ & Hg & _)];
          apply Hg; assert (b = a) by congruence; subst b; eapply lookup_In; eauto. }
      split; [|split].
      * destruct F as [A1 A2 A3 A4]. constructor; auto.
        -- intros b Hb. cbn [cells]. rewrite length_upd. auto.
        -- intros y. specialize (A4 y). cbn [cur cells]. destruct (sassoc y (sc_entries sc)) as [[i' [|]]|] eqn:Ey; auto.
           ++ destruct A4 as (b & Lb & Hg & Hcase). exists b. split; [exact Lb|]. split; [exact Hg|].
              rewrite nth_error_upd_neq; [exact Hcase|]. intros <-. eapply Hna; eauto.
           ++ destruct A4 as (b & Lb & Hd & Hg & Hv). exists b. split; [exact Lb|]. split; [exact Hd|]. split; [exact Hg|].
              rewrite nth_error_upd_neq; [exact Hv|]. intros <-. eapply Hna; eauto.
      * constructor; auto using sub_refl.
        -- cbn [cells]. rewrite length_upd. lia.
        -- intros a' _ _ _ Hg. cbn [cells]. apply nth_error_upd_neq. intros <-. apply Hg. eapply lookup_In; eauto.
      * intros i' _ _. reflexivity.
    + rewrite (genv_mods x Ej). cbn. exact Logic.I.
Qed.

(* ================================================================================================================ *)
(* Part C.3: building a closure *)
Lemma FrameRel_ext en sc r s t s' t' : FrameRel en sc r s t -> cells s' = cells s -> cur t' = cur t -> FrameRel en sc r s' t'.
Proof.
  intros [A1 A2 A3 A4] E Ec. constructor; auto.
  - rewrite E. exact A2.
  - intros x. specialize (A4 x). rewrite Ec, E. exact A4.
Qed.

Definition pslot (sc : scope) (x : string) : nat :=
  match sassoc x (sc_entries sc) with Some (i, _) => i | None => 0 end.

Lemma capture_ok en sc r s t x i :
  GInv r s t -> FrameRel en sc r s t -> sassoc x (sc_entries sc) = Some (i, true) ->
  exists r1 t1 c a, capture_slot i t = SOk c t1 /\ lookup x en = Some a /\ r1 a c /\
    GInv r1 s t1 /\ FrameRel en sc r1 s t1 /\ PostC (own en sc) r r1 s s /\ FPf sc t t1.
Proof.
  intros G F Ex. pose proof (f_vars _ _ _ _ _ F x) as Hx. rewrite Ex in Hx.
  destruct Hx as (a & La & Hg & [(E1 & E2 & E3)|(c & E1 & E2)]).
  - pose proof (f_bound _ _ _ _ _ F a (lookup_In _ _ _ La)) as Hlt.
    pose proof (cells_upd_same s a None E2) as U.
    unfold capture_slot. rewrite E1. unfold sbind, lift, alloc_cell, set_slot, sret. cbn [base with_base cur].
    eexists (ext r a (length (cells (base t)))), _, _, a. split; [reflexivity|]. split; [exact La|].
    split; [right; auto|]. split; [eapply GInv_share_new; eauto|].
    eapply write_local; eauto.
    + apply sub_ext.
    + intros a' [c' [H|[-> _]]]; [left; exists c'; exact H|right; reflexivity].
    + intros j Hj. cbn [cur with_cur with_base]. apply fget_fset_neq. auto.
    + right. exists (length (cells (base t))). cbn [cur with_cur with_base]. rewrite fget_fset_eq. split; [reflexivity|]. right. auto.
  - unfold capture_slot. rewrite E1. exists r, t, c, a. split; [reflexivity|]. split; [exact La|]. split; [exact E2|].
    split; [exact G|]. split; [exact F|]. split; [apply PostC_refl|]. intros j _ _. reflexivity.
Qed.

Lemma capture_all en sc xs : forall r s t,
  GInv r s t -> FrameRel en sc r s t ->
  (forall x, In x xs -> exists i, sassoc x (sc_entries sc) = Some (i, true)) ->
  exists r1 t1 cs, smapM capture_slot (map (pslot sc) xs) t = SOk cs t1 /\
    Forall2 (fun x c => exists a, lookup x en = Some a /\ r1 a c) xs cs /\
    GInv r1 s t1 /\ FrameRel en sc r1 s t1 /\ PostC (own en sc) r r1 s s /\ FPf sc t t1.
Proof.
  induction xs as [|x xs IH]; intros r s t G F Hall.
  - exists r, t, []. cbn. split; [reflexivity|]. split; [constructor|]. split; [exact G|]. split; [exact F|].
    split; [apply PostC_refl|]. intros j _ _. reflexivity.
  - destruct (Hall x (or_introl eq_refl)) as [i Ex].
    destruct (capture_ok en sc r s t x i G F Ex) as (r1 & t1 & c & a & E1 & La & Hr & G1 & F1 & P1 & Q1).
    destruct (IH r1 s t1 G1 F1 (fun y Hy => Hall y (or_intror Hy))) as (r2 & t2 & cs & E2 & Hf & G2 & F2 & P2 & Q2).
    exists r2, t2, (c :: cs). cbn [map smapM]. unfold sbind at 1. unfold pslot at 1. rewrite Ex, E1.
    unfold sbind at 1. rewrite E2. cbn [sret]. split; [reflexivity|].
    split; [constructor; [exists a; split; [exact La|apply (p_sub _ _ _ _ _ P2); exact Hr]|exact Hf]|].
    split; [exact G2|]. split; [exact F2|]. split; [eapply PostC_trans; eassumption|].
    intros j Hb Hv. rewrite Q2, Q1; auto.
Qed.

Lemma indexed_cons {X} k (x : X) l : indexed k (x :: l) = (k, x) :: indexed (S k) l.
Proof. reflexivity. Qed.

Lemma parents_fst sc n P :
  map fst (map (fun jx : nat * string => (match sassoc (snd jx) (sc_entries sc) with Some (i, _) => i | None => 0 end, fst jx))
               (indexed n P)) = map (pslot sc) P.
Proof.
  revert n. induction P as [|x P IH]; intros n; [reflexivity|]. rewrite indexed_cons. cbn [map fst snd]. rewrite IH. reflexivity.
Qed.
Lemma parents_snd sc n P :
  map snd (map (fun jx : nat * string => (match sassoc (snd jx) (sc_entries sc) with Some (i, _) => i | None => 0 end, fst jx))
               (indexed n P)) = seq n (length P).
Proof.
  revert n. induction P as [|x P IH]; intros n; [reflexivity|]. rewrite indexed_cons. cbn [map fst snd length seq]. rewrite IH. reflexivity.
Qed.

Lemma fun_scope_inv sc slotnames capt free sc' parents n P :
  fun_scope sc slotnames capt free = Some (sc', parents, n) ->
  P = filter (is_local sc) (dedup free) ->
  (forall x, In x P -> exists i, sassoc x (sc_entries sc) = Some (i, true)) /\
  map fst parents = map (pslot sc) P /\ map snd parents = seq (length slotnames) (length P) /\
  n = length slotnames + length P /\
  sc' = {| sc_entries := map (fun ix => (snd ix, (fst ix, capt (snd ix)))) (indexed 0 slotnames) ++
                         map (fun jx => (snd jx, (fst jx, true))) (indexed (length slotnames) P);
           sc_hidden := map fst (sc_entries sc) ++ sc_hidden sc |}.
Proof.
  unfold fun_scope. intros H ->.
  destruct (forallb _ (filter (is_local sc) (dedup free))) eqn:Ef; [|discriminate]. inversion H; subst. clear H.
  split; [|split; [apply parents_fst|split; [apply parents_snd|auto]]].
  intros x Hx. rewrite forallb_forall in Ef. specialize (Ef x Hx).
  destruct (sassoc x (sc_entries sc)) as [[i [|]]|]; try discriminate. eauto.
Qed.

Lemma GInv_alloc_clo r s t cl scl :
  GInv r s t -> clo_rel r (length (cells s)) cl scl ->
  GInv r {| lists := lists s; dicts := dicts s; cells := cells s; clos := clos s ++ [cl]; out := out s |}
         {| base := base t; sclos := sclos t ++ [scl]; smods := smods t; cur := cur t |}.
Proof.
  intros G Hc. destruct G. constructor; cbn [lists dicts cells clos out base sclos smods cur]; auto.
  - rewrite !app_length. cbn. lia.
  - intros k cl' scl' H1 H2. destruct (Nat.lt_ge_cases k (length (clos s))) as [Hlt|Hge].
    + rewrite nth_error_app1 in H1 by assumption. rewrite nth_error_app1 in H2 by lia. eauto.
    + rewrite nth_error_app2 in H1 by assumption. rewrite nth_error_app2 in H2 by lia.
      rewrite g_clen0 in H1. destruct (k - length (sclos t)) as [|[|?]]; cbn in H1, H2; try discriminate.
      inversion H1; inversion H2; subst. exact Hc.
Qed.

Lemma erase_param_of sc k ps ps' k' :
  omapS (cparam true mods sc) k ps = Some (ps', k') -> map param_of ps' = map erase_default ps.
Proof.
  revert k ps' k'. induction ps as [|p ps IH]; intros k ps' k' H; cbn [omapS] in H.
  - inversion H. reflexivity.
  - destruct (cparam true mods sc k p) as [[p' k1]|] eqn:Ep; [|discriminate].
    destruct (omapS (cparam true mods sc) k1 ps) as [[ps1 k2]|] eqn:Er; [|discriminate]. inversion H; subst.
    cbn [map]. rewrite (IH _ _ _ Er). f_equal.
    rewrite cp_eq in Ep. destruct p as [x [d|]|x|x].
    + destruct (cexpr true mods sc k d) as [[d' ?]|]; [|discriminate]. inversion Ep. reflexivity.
    + inversion Ep. reflexivity.
    + inversion Ep. reflexivity.
    + inversion Ep. reflexivity.
Qed.

(* the closure built by the machine is related to the closure of the reference interpreter *)
Lemma sim_make_closure en sc name ps ps' dflts info body body' sc' slotnames capt free n :
  map param_of ps' = map erase_default ps ->
  NoDup (map param_name ps) ->
  (forall x, In x slotnames <-> In x (map param_name ps ++ locals_of body)) ->
  NoDup slotnames ->
  fun_scope sc slotnames capt free = Some (sc', di_parents info, n) ->
  di_names info = slotnames ->
  di_wrap info = wrap_slots slotnames (map param_name ps) capt ->
  body_compiled sc' n body body' (di_nslots info) ->
  simF en sc (alloc_clo {| c_name := name; c_params := ps; c_defaults := concat dflts; c_body := body; c_env := en |})
             (make_closure name ps' dflts info body').
Proof.
  intros Hps Hnd Hnames Hsnd Hfs Hdn Hw Hb r s t G F.
  destruct (fun_scope_inv _ _ _ _ _ _ _ _ Hfs eq_refl) as (Hall & Hpf & _ & _ & _).
  destruct (capture_all en sc _ r s t G F Hall) as (r1 & t1 & cs & E1 & Hf & G1 & F1 & P1 & Q1).
  unfold make_closure, sbind. rewrite Hpf, E1. unfold alloc_clo, salloc_clo, rres.
  split; [rewrite (g_clen _ _ _ G1); reflexivity|]. exists r1.
  split; [|split; [|split; [eapply PostC_ext; [exact P1|reflexivity]|intros i Hbi Hvi; apply Q1; assumption]]].
  - apply GInv_alloc_clo; [exact G1|].
    econstructor; cbn [c_params c_defaults c_body c_env sc_params sc_defaults sc_info sc_body sc_captured]; eauto.
    + apply (f_nodup _ _ _ _ _ F).
    + apply (f_bound _ _ _ _ _ F).
    + intros x Hl Hh. pose proof (f_vars _ _ _ _ _ F x) as Hx. unfold is_local in Hl.
      destruct (sassoc x (sc_entries sc)); [discriminate|]. auto.
  - eapply FrameRel_ext; [exact F1| |]; reflexivity.
Qed.

(* ================================================================================================================ *)
(* Part C.4: entering and leaving the scope of a comprehension *)
Lemma compr_scope_inv sc k names capt sc' vars k2 :
  compr_scope true sc k names capt = Some (sc', vars, k2) ->
  (forall x, In x names -> capt x = false) /\
  sc' = {| sc_entries := map (fun jx => (snd jx, (fst jx, capt (snd jx)))) (indexed (Nat.max k (sc_bound sc)) names) ++ sc_entries sc;
           sc_hidden := sc_hidden sc |}.
Proof.
  unfold compr_scope. cbn [andb]. destruct (existsb capt names) eqn:E; [discriminate|]. intros H. inversion H; subst.
  split; [|reflexivity]. intros x Hx. destruct (capt x) eqn:Ec; [|reflexivity].
  assert (existsb capt names = true) by (apply existsb_exists; eauto). congruence.
Qed.

Lemma compr_entries sc base names capt x :
  (forall y, In y names -> capt y = false) ->
  sassoc x (map (fun jx : nat * string => (snd jx, (fst jx, capt (snd jx)))) (indexed base names) ++ sc_entries sc) =
  match sidx x names with Some j => Some (base + j, false) | None => sassoc x (sc_entries sc) end.
Proof.
  intros Hc. rewrite sassoc_app, sassoc_indexed. destruct (sidx x names) as [j|] eqn:E; cbn [option_map]; [|reflexivity].
  rewrite Hc; [reflexivity|]. apply sidx_nth in E. eapply nth_error_In; eauto.
Qed.

Lemma lookup_new x new names :
  map fst new = names ->
  match sidx x names with
  | Some _ => exists a, lookup x new = Some a /\ In a (map snd new)
  | None => lookup x new = None
  end.
Proof.
  intros <-. destruct (sidx x (map fst new)) eqn:E.
  - destruct (lookup x new) as [a|] eqn:L; [exists a; split; [reflexivity|eapply lookup_In; eauto]|].
    apply lookup_none_notin in L. apply sidx_none in L. congruence.
  - apply lookup_none_notin. apply sidx_none. exact E.
Qed.

Lemma NoDup_app_iff' {X} (l1 l2 : list X) :
  NoDup l1 /\ NoDup l2 /\ (forall a, In a l1 -> In a l2 -> False) -> NoDup (l1 ++ l2).
Proof.
  intros (H1 & H2 & H3). induction l1 as [|x l1 IH]; cbn; [exact H2|].
  inversion H1; subst. constructor.
  - intros Hin. apply in_app_or in Hin. destruct Hin; [contradiction|]. eapply H3; [left; reflexivity|eassumption].
  - apply IH; [assumption|]. intros a Ha. apply H3. right. exact Ha.
Qed.

Definition grow (s : state) (m : nat) : state :=
  {| lists := lists s; dicts := dicts s; cells := cells s ++ repeat None m; clos := clos s; out := out s |}.

Lemma GInv_grow r s t m : GInv r s t -> GInv r (grow s m) t.
Proof.
  intros G. destruct G. constructor; cbn [grow lists dicts cells clos out]; auto.
  - intros a c H. destruct (g_cells0 a c H) as (B1 & B2 & B3 & B4). rewrite app_length, nth_error_app1 by assumption.
    repeat split; auto. lia.
  - intros a H. rewrite app_length. specialize (g_genv0 a H). lia.
  - intros x j H. destruct (g_mods0 x j H) as (a & o & L & E1 & E2). exists a, o.
    rewrite nth_error_app1 by (apply nth_error_Some; congruence). auto.
  - intros k cl scl H1 H2. eapply clo_rel_mono; [apply sub_refl| |eauto]. rewrite app_length. lia.
Qed.

Lemma nth_error_repeat_none {X} m i (x : option X) : nth_error (repeat (@None X) m) i = Some x -> x = None.
Proof. revert i. induction m; intros [|i]; cbn; try discriminate; [intros H; inversion H; reflexivity|apply IHm]. Qed.

Lemma FrameRel_enter en sc r s t new names capt base :
  GInv r s t -> FrameRel en sc r s t ->
  map fst new = names -> map snd new = seq (length (cells s)) (length names) ->
  (forall y, In y names -> capt y = false) -> sc_bound sc <= base ->
  FrameRel (new ++ en)
    {| sc_entries := map (fun jx => (snd jx, (fst jx, capt (snd jx)))) (indexed base names) ++ sc_entries sc;
       sc_hidden := sc_hidden sc |} r (grow s (length names)) t.
Proof.
  intros G [A1 A2 A3 A4] Hf Hs Hc Hb.
  assert (Hnew : forall a, In a (map snd new) -> length (cells s) <= a < length (cells s) + length names).
  { intros a Ha. rewrite Hs in Ha. apply in_seq in Ha. lia. }
  constructor; cbn [sc_entries sc_hidden grow cells].
  - rewrite map_app. apply NoDup_app_iff'. split; [rewrite Hs; apply seq_NoDup|]. split; [exact A1|].
    intros a H1 H2. specialize (Hnew a H1). specialize (A2 a H2). lia.
  - intros a Ha. rewrite map_app in Ha. apply in_app_or in Ha. rewrite app_length, repeat_length.
    destruct Ha as [Ha|Ha]; [specialize (Hnew a Ha)|specialize (A2 a Ha)]; lia.
  - intros x y i k k'. rewrite !compr_entries by assumption.
    destruct (sidx x names) as [jx|] eqn:Ex, (sidx y names) as [jy|] eqn:Ey; intros H1 H2.
    + inversion H1; inversion H2; subst. assert (jx = jy) by lia. subst. eapply sidx_inj; eauto.
    + inversion H1; subst. apply sc_bound_lt in H2. lia.
    + inversion H2; subst. apply sc_bound_lt in H1. lia.
    + eapply A3; eauto.
  - intros x. rewrite compr_entries by assumption. pose proof (lookup_new x new names Hf) as Hl.
    rewrite lookup_app. destruct (sidx x names) as [j|] eqn:Ex.
    + destruct Hl as (a & La & Hin). rewrite La. exists a. split; [reflexivity|]. specialize (Hnew a Hin).
      split; [|split].
      * intros [c Hd]. destruct (g_cells _ _ _ G a c Hd). lia.
      * intros Hg. pose proof (g_genv _ _ _ G a Hg). lia.
      * intros v Hv. rewrite nth_error_app2 in Hv by lia. apply nth_error_repeat_none in Hv. discriminate.
    + rewrite Hl. specialize (A4 x). destruct (sassoc x (sc_entries sc)) as [[i [|]]|]; auto.
      * destruct A4 as (a & La & Hg & Hcase). exists a. split; [exact La|]. split; [exact Hg|].
        rewrite nth_error_app1 by (apply A2; eapply lookup_In; eauto). exact Hcase.
      * destruct A4 as (a & La & Hd & Hg & Hv). exists a. split; [exact La|]. split; [exact Hd|]. split; [exact Hg|].
        rewrite nth_error_app1 by (apply A2; eapply lookup_In; eauto). exact Hv.
Qed.

Lemma sc_bound_app l sc : sc_bound sc <= sc_bound {| sc_entries := l ++ sc_entries sc; sc_hidden := sc_hidden sc |}.
Proof. unfold sc_bound. cbn [sc_entries]. induction l as [|e l IH]; cbn [app fold_right]; lia. Qed.

Lemma compr_exit en sc r r2 s s2 t t2 new names capt base :
  GInv r s t -> FrameRel en sc r s t ->
  map fst new = names -> map snd new = seq (length (cells s)) (length names) ->
  (forall y, In y names -> capt y = false) -> sc_bound sc <= base ->
  forall sc', sc' = {| sc_entries := map (fun jx => (snd jx, (fst jx, capt (snd jx)))) (indexed base names) ++ sc_entries sc;
                       sc_hidden := sc_hidden sc |} ->
  FrameRel (new ++ en) sc' r2 s2 t2 ->
  PostC (own (new ++ en) sc') r r2 (grow s (length names)) s2 ->
  FPf sc' t t2 ->
  FrameRel en sc r2 s2 t2 /\ PostC (own en sc) r r2 s s2 /\ FPf sc t t2.
Proof.
  intros G [A1 A2 A3 A4] Hf Hs Hc Hb sc' -> [B1 B2 B3 B4] [P1 P2 P3 P4] Q.
  cbn [grow cells] in P2, P3, P4. rewrite app_length, repeat_length in P2, P3, P4.
  assert (Hnew : forall a, In a (map snd new) -> length (cells s) <= a).
  { intros a Ha. rewrite Hs in Ha. apply in_seq in Ha. lia. }
  set (sc' := {| sc_entries := _ ++ sc_entries sc; sc_hidden := sc_hidden sc |}) in *.
  assert (Hown : forall a, own (new ++ en) sc' a ->
                 length (cells s) <= a \/ exists x e, sidx x names = None /\ sassoc x (sc_entries sc) = Some e /\ lookup x en = Some a).
  { intros a (x & e & Ex & Lx). unfold sc' in Ex. cbn [sc_entries] in Ex. rewrite compr_entries in Ex by assumption.
    rewrite lookup_app in Lx. pose proof (lookup_new x new names Hf) as Hl. destruct (sidx x names) as [j|] eqn:Ej.
    - destruct Hl as (a' & La & Hin). rewrite La in Lx. inversion Lx; subst. left. auto.
    - rewrite Hl in Lx. right. exists x, e. auto. }
  assert (Hvs : forall i, vslot sc' i -> base <= i \/ exists x k, sidx x names = None /\ sassoc x (sc_entries sc) = Some (i, k)).
  { intros i (x & k & Ex). unfold sc' in Ex. cbn [sc_entries] in Ex. rewrite compr_entries in Ex by assumption.
    destruct (sidx x names) as [j|] eqn:Ej; [inversion Ex; subst; left; lia|right; eauto]. }
  split; [|split].
  - constructor; auto.
    + intros a Ha. specialize (A2 a Ha). lia.
    + intros x. specialize (A4 x). specialize (B4 x). unfold sc' in B4. cbn [sc_entries sc_hidden] in B4.
      rewrite compr_entries in B4 by assumption. rewrite lookup_app in B4.
      pose proof (lookup_new x new names Hf) as Hl. destruct (sidx x names) as [j|] eqn:Ej.
      * (* shadowed inside the comprehension: untouched *)
        destruct (sassoc x (sc_entries sc)) as [[i k]|] eqn:Ex; [|exact A4].
        assert (Hi : fget (cur t2) i = fget (cur t) i).
        { apply Q; [pose proof (sc_bound_lt _ _ _ _ Ex); pose proof (sc_bound_app (map (fun jx : nat * string => (snd jx, (fst jx, capt (snd jx)))) (indexed base names)) sc); unfold sc'; lia|].
          intros Hv. destruct (Hvs i Hv) as [?|(y & k' & Ey & Ey')]; [pose proof (sc_bound_lt _ _ _ _ Ex); lia|].
          assert (y = x) by (eapply A3; eauto). subst y. congruence. }
        assert (Hno : forall a, lookup x en = Some a -> ~ own (new ++ en) sc' a).
        { intros a La Ho. pose proof (A2 a (lookup_In _ _ _ La)). destruct (Hown a Ho) as [?|(y & e & Ey & _ & Ly)]; [lia|].
          assert (y = x) by (exact (lookup_nodup_inj en y x a A1 Ly La)). subst y. congruence. }
        destruct k.
        -- destruct A4 as (a & La & Hg & Hcase). exists a. split; [exact La|]. split; [exact Hg|].
           pose proof (A2 a (lookup_In _ _ _ La)) as Hlt. rewrite Hi.
           destruct Hcase as [(E1 & E2 & E3)|(c & E1 & E2)]; [left|right; exists c; auto].
           split; [exact E1|]. split.
           ++ rewrite P3; auto; [rewrite nth_error_app1 by assumption; exact E2|lia].
           ++ intros Hd. destruct (P4 a Hd) as [?|[?|?]]; auto; [lia|eapply Hno; eauto].
        -- destruct A4 as (a & La & Hd & Hg & Hv). exists a. split; [exact La|].
           pose proof (A2 a (lookup_In _ _ _ La)) as Hlt. rewrite Hi.
           split; [|split; [exact Hg|]].
           ++ intros Hd'. destruct (P4 a Hd') as [?|[?|?]]; auto; [lia|eapply Hno; eauto].
           ++ intros v Hv'. apply Hv. rewrite P3 in Hv'; auto; [rewrite nth_error_app1 in Hv' by assumption; exact Hv'|lia].
      * rewrite Hl in B4. exact B4.
  - constructor; auto.
    + lia.
    + intros a Hlt Ho Hd Hg. rewrite P3; auto; [apply nth_error_app1; assumption|lia|].
      intros Ho'. destruct (Hown a Ho') as [?|(y & e & _ & Ey & Ly)]; [lia|]. apply Ho. exists y, e. auto.
    + intros a Hd. destruct (P4 a Hd) as [?|[?|Ho']]; auto; [right; left; lia|].
      destruct (Hown a Ho') as [?|(y & e & _ & Ey & Ly)]; [right; left; assumption|]. right. right. exists y, e. auto.
  - intros i Hbi Hvi. apply Q.
    + pose proof (sc_bound_app (map (fun jx : nat * string => (snd jx, (fst jx, capt (snd jx)))) (indexed base names)) sc). unfold sc'. lia.
    + intros Hv. destruct (Hvs i Hv) as [?|(y & k' & _ & Ey)]; [lia|]. apply Hvi. exists y, k'. exact Ey.
Qed.

(* evaluating `m` in the scope of a comprehension *)
Lemma sim_compr {A} en sc k names capt sc' vars k2 (m : env -> M A) (sm : SM A) :
  compr_scope true sc k names capt = Some (sc', vars, k2) ->
  (forall new, map fst new = names -> simF (new ++ en) sc' (m new) sm) ->
  simF en sc (new <- alloc_cells names ;; m new) sm.
Proof.
  intros Hcs H r s t G F. destruct (compr_scope_inv _ _ _ _ _ _ _ Hcs) as [Hc Esc].
  destruct (alloc_cells_spec names s) as (new & Ea & Hf & Hs). unfold bind. rewrite Ea. fold (grow s (length names)).
  assert (Hb : sc_bound sc <= Nat.max k (sc_bound sc)) by lia.
  pose proof (GInv_grow r s t (length names) G) as G1.
  pose proof (FrameRel_enter en sc r s t new names capt _ G F Hf Hs Hc Hb) as F1. rewrite <- Esc in F1.
  specialize (H new Hf r (grow s (length names)) t G1 F1). unfold rres in *.
  destruct (m new (grow s (length names))) as [a s2|e l s2|]; auto.
  destruct sm as [b t2|?|]; auto. destruct H as [Eab (r2 & G2 & F2 & P2 & Q2)]. split; [exact Eab|].
  exists r2. split; [exact G2|]. eapply compr_exit; eauto.
Qed.

(* ================================================================================================================ *)
(* Part C.5: targets and comprehension clauses, given the simulation of expressions *)
Lemma omapS_Forall2 {X Y} (f : nat -> X -> option (Y * nat)) l : forall k l' k',
  omapS f k l = Some (l', k') -> Forall2 (fun x x' => exists k1 k2, f k1 x = Some (x', k2)) l l'.
Proof.
  induction l as [|x l IH]; intros k l' k' H; cbn [omapS] in H.
  - inversion H. constructor.
  - destruct (f k x) as [[y k1]|] eqn:E; [|discriminate].
    destruct (omapS f k1 l) as [[ys k2]|] eqn:Er; [|discriminate]. inversion H; subst.
    constructor; [eauto|eapply IH; eauto].
Qed.

Lemma Forall2_length' {X Y} (R : X -> Y -> Prop) l l' : Forall2 R l l' -> length l = length l'.
Proof. intros F. induction F; cbn; congruence. Qed.

Section AssignSim.
  Variables (ev : env -> expr -> M value) (sev : sexpr -> SM value).
  Variables (en : env) (sc : scope).
  Hypothesis Hev : forall k e e' k', cexprT sc k e = Some (e', k') -> simF en sc (ev en e) (sev e').

  Lemma sim_assign t : forall k t' k' v,
    ctarget true mods sc k t = Some (t', k') -> simF en sc (assign ev en t v) (sassign sev t' v).
  Proof.
    induction t as [x|ts IH|a i] using target_ind'; intros k t' k' v H.
    - rewrite ct_TVar in H. destruct (cvar mods sc x) as [w|] eqn:Ec; [|discriminate]. inversion H; subst.
      cbn [assign sassign]. apply sim_store. exact Ec.
    - rewrite ct_TTuple in H. destruct (omapS (ctarget true mods sc) k ts) as [[ts' k1]|] eqn:Eo; [|discriminate].
      inversion H; subst. apply omapS_Forall2 in Eo. cbn [assign sassign].
      apply sim_bind; [apply okF|apply sim_lift; [apply okF|destruct v; pure_auto]|]. intros vs.
      rewrite <- (Forall2_length' _ _ _ Eo). destruct (Nat.eqb (length ts) (length vs)); [|apply sim_fail].
      clear H. revert vs. induction Eo as [|t0 t0' ts ts' (k1' & k2' & Ht) _ IHts]; intros vs.
      + apply sim_ret; apply okF.
      + destruct vs as [|v0 vs]; [apply sim_ret; apply okF|].
        inversion IH; subst. apply sim_bind; [apply okF|eapply H1; eauto|]. intros _. apply IHts. assumption.
    - rewrite ct_TIndex in H. destruct (cexprT sc k a) as [[a' k1]|] eqn:Ea; [|discriminate].
      destruct (cexprT sc k1 i) as [[i' k2]|] eqn:Ei; [|discriminate]. inversion H; subst. cbn [assign sassign].
      apply sim_bind; [apply okF|eapply Hev; eauto|]. intros av.
      apply sim_bind; [apply okF|eapply Hev; eauto|]. intros iv.
      apply sim_lift; [apply okF|apply pure_set_index].
  Qed.

  Definition crel (c : clause) (c' : sclause) : Prop := exists k k', cclause true mods sc k c = Some (c', k').

  Lemma sim_comp_for t t' (p : value * list value) (rest : M unit) (srest : SM unit) :
    (exists k k', ctarget true mods sc k t = Some (t', k')) -> simF en sc rest srest ->
    simF en sc
      (with_lock (fst p) ((fix go (vs : list value) : M unit :=
                             match vs with [] => ret tt | v :: vs' => assign ev en t v ;;; rest ;;; go vs' end) (snd p)))
      (swith_lock (fst p) ((fix go (vs : list value) : SM unit :=
                              match vs with [] => sret tt | v :: vs' => sassign sev t' v ;;~ srest ;;~ go vs' end) (snd p))).
  Proof.
    intros (k & k' & Ht) Hr. apply sim_with_lock; [apply okF|].
    induction (snd p) as [|v vs IHv]; [apply sim_ret; apply okF|].
    apply sim_bind; [apply okF|eapply sim_assign; eauto|]. intros _.
    apply sim_bind; [apply okF|exact Hr|]. intros _. exact IHv.
  Qed.

  Lemma sim_comp_clauses cls cls' (kk : M unit) (skk : SM unit) :
    Forall2 crel cls cls' -> simF en sc kk skk ->
    simF en sc (comp_clauses ev en cls None kk) (scomp_clauses sev cls' None skk).
  Proof.
    intros F Hk. induction F as [|c c' cls cls' (k & k' & Hc) _ IH]; cbn [comp_clauses scomp_clauses]; [exact Hk|].
    destruct c as [t e|e].
    - rewrite cc_CFor in Hc. destruct (cexprT sc k e) as [[e' k1]|] eqn:Ee; [|discriminate].
      destruct (ctarget true mods sc k1 t) as [[t' k2]|] eqn:Et; [|discriminate]. inversion Hc; subst.
      apply sim_bind; [apply okF| |].
      + apply sim_bind; [apply okF|eapply Hev; eauto|]. intros it.
        apply sim_bind; [apply okF|apply sim_lift; [apply okF|apply pure_iter_elems]|]. intros vs. apply sim_ret; apply okF.
      + intros p. apply sim_comp_for; eauto.
    - rewrite cc_CIf in Hc. destruct (cexprT sc k e) as [[e' k1]|] eqn:Ee; [|discriminate]. inversion Hc; subst.
      apply sim_bind; [apply okF|eapply Hev; eauto|]. intros cv.
      apply (sim_truth _ _ _ cv (fun b => if b then comp_clauses ev en cls None kk else ret tt)
                               (fun b => if b then scomp_clauses sev cls' None skk else sret tt)).
      intros [|]; [exact IH|apply sim_ret; apply okF].
  Qed.

  Lemma sim_comp_first t0 e0 t0' e0' r r' vs (kk : M unit) (skk : SM unit) :
    (exists k k', ctarget true mods sc k t0 = Some (t0', k')) -> Forall2 crel r r' -> simF en sc kk skk ->
    simF en sc (comp_clauses ev en (CFor t0 e0 :: r) (Some vs) kk) (scomp_clauses sev (XCFor t0' e0' :: r') (Some vs) skk).
  Proof.
    intros Ht F Hk. cbn [comp_clauses scomp_clauses].
    apply sim_bind; [apply okF|apply sim_ret; apply okF|]. intros p.
    apply sim_comp_for; [exact Ht|]. apply sim_comp_clauses; assumption.
  Qed.
End AssignSim.

(* ================================================================================================================ *)
(* Part C.6: calls: argument binding, the new frame *)
Lemma bind_params_erase ps : forall d pos named seen,
  bind_params (map erase_default ps) d pos named seen = bind_params ps d pos named seen.
Proof.
  induction ps as [|p ps IH]; intros d pos named seen; [reflexivity|].
  destruct p as [x dflt|x|x]; cbn [map erase_default bind_params].
  - destruct (if seen then [] else pos), (assoc_remove x named) as [[? ?]|]; rewrite ?IH; reflexivity.
  - rewrite IH. reflexivity.
  - rewrite IH. reflexivity.
Qed.
Lemma has_kwargs_erase ps : has_kwargs (map erase_default ps) = has_kwargs ps.
Proof.
  unfold has_kwargs. induction ps as [|p ps IH]; [reflexivity|]. cbn [map fold_right]. rewrite IH.
  destruct p; reflexivity.
Qed.
Lemma has_kwargs_In ps x : has_kwargs ps = Some x -> In x (map param_name ps).
Proof.
  unfold has_kwargs. induction ps as [|p ps IH]; cbn [fold_right map]; [discriminate|].
  destruct p as [y d|y|y]; cbn [param_name]; intros H.
  - right. apply IH. exact H.
  - right. apply IH. exact H.
  - inversion H. left. reflexivity.
Qed.
Lemma bind_params_names ps : forall d pos named seen binds p n,
  bind_params ps d pos named seen = Some (binds, p, n) -> forall b, In b binds -> In (fst b) (map param_name ps).
Proof.
  induction ps as [|q ps IH]; intros d pos named seen binds p n H b Hb; cbn [bind_params] in H.
  - inversion H; subst. contradiction.
  - destruct q as [x dflt|x|x]; cbn [map param_name].
    + destruct (if seen then [] else pos) as [|v pos'], (assoc_remove x named) as [[w named']|]; try discriminate.
      * destruct (bind_params ps d pos named' seen) as [[[b0 p0] n0]|] eqn:E; [|discriminate]. inversion H; subst.
        destruct Hb as [<-|Hb]; [left; reflexivity|right; eapply IH; eauto].
      * destruct (lookup_default x d); [|discriminate].
        destruct (bind_params ps d pos named seen) as [[[b0 p0] n0]|] eqn:E; [|discriminate]. inversion H; subst.
        destruct Hb as [<-|Hb]; [left; reflexivity|right; eapply IH; eauto].
      * destruct (bind_params ps d pos' named seen) as [[[b0 p0] n0]|] eqn:E; [|discriminate]. inversion H; subst.
        destruct Hb as [<-|Hb]; [left; reflexivity|right; eapply IH; eauto].
    + destruct (bind_params ps d [] named true) as [[[b0 p0] n0]|] eqn:E; [|discriminate]. inversion H; subst.
      destruct Hb as [<-|Hb]; [left; reflexivity|right; eapply IH; eauto].
    + destruct (bind_params ps d pos [] seen) as [[[b0 p0] n0]|] eqn:E; [|discriminate]. inversion H; subst.
      right. eapply IH; eauto.
Qed.

Lemma GInv_cur r s t fr : GInv r s t -> GInv r s (with_cur t fr).
Proof. intros []. constructor; auto. Qed.

Lemma sidx_nth_iff x l i : NoDup l -> nth_error l i = Some x -> sidx x l = Some i.
Proof.
  revert i. induction l as [|y l IH]; intros [|i] ND H; cbn in *; try discriminate.
  - inversion H; subst. rewrite String.eqb_refl. reflexivity.
  - inversion ND; subst. destruct (String.eqb_spec x y) as [->|Hn].
    + exfalso. apply H2. eapply nth_error_In; eauto.
    + rewrite (IH i H3 H). reflexivity.
Qed.

Lemma wrap_slots_In slotnames pnames capt i : NoDup slotnames ->
  In i (wrap_slots slotnames pnames capt) ->
  exists x, sidx x slotnames = Some i /\ capt x = true /\ In x pnames.
Proof.
  intros ND H. unfold wrap_slots in H. apply in_flat_map in H. destruct H as ([j x] & Hin & Hi). cbn [fst snd] in Hi.
  destruct (capt x) eqn:Ec; [|contradiction]. destruct (mem x pnames) eqn:Em; [|contradiction]. cbn in Hi.
  destruct Hi as [<-|[]]. exists x. split; [|split; [exact Ec|apply Proofs.mem_In; exact Em]].
  apply sidx_nth_iff; [exact ND|]. unfold indexed in Hin.
  assert (forall k l, In (j, x) (combine (seq k (length l)) l) -> k <= j /\ nth_error l (j - k) = Some x) as Hgen.
  { clear. intros k l. revert k. induction l as [|y l IH]; intros k H; cbn in H; [contradiction|].
    destruct H as [H|H]; [inversion H; subst; rewrite Nat.sub_diag; auto|].
    destruct (IH (S k) H) as [H1 H2]. split; [lia|]. replace (j - k) with (S (j - S k)) by lia. exact H2. }
  destruct (Hgen 0 slotnames Hin) as [_ H2]. rewrite Nat.sub_0_r in H2. exact H2.
Qed.

(* a sequence of slot stores *)
Lemma smapM_set_slots (l : list (nat * nat)) : forall t,
  exists us, smapM (fun pc => set_slot (fst pc) (FCell (snd pc))) l t =
             SOk us (with_cur t (fold_left (fun fr pc => fset fr (fst pc) (FCell (snd pc))) l (cur t))).
Proof.
  induction l as [|[i c] l IH]; intros t; cbn [smapM fold_left].
  - exists []. unfold sret. destruct t; reflexivity.
  - unfold sbind at 1. unfold set_slot at 1. cbn [fst snd].
    destruct (IH (with_cur t (fset (cur t) i (FCell c)))) as [us E]. unfold sbind. rewrite E. eexists. reflexivity.
Qed.

Lemma fold_fset_other (l : list (nat * nat)) : forall fr i, ~ In i (map fst l) ->
  fget (fold_left (fun fr pc => fset fr (fst pc) (FCell (snd pc))) l fr) i = fget fr i.
Proof.
  induction l as [|[j c] l IH]; intros fr i Hn; cbn [fold_left]; [reflexivity|]. cbn [map fst In] in Hn.
  rewrite IH by tauto. apply fget_fset_neq. cbn [fst]. intros E. apply Hn. left. exact E.
Qed.
Lemma fold_fset_in (l : list (nat * nat)) : forall fr i c, NoDup (map fst l) -> In (i, c) l ->
  fget (fold_left (fun fr pc => fset fr (fst pc) (FCell (snd pc))) l fr) i = FCell c.
Proof.
  induction l as [|[j d] l IH]; intros fr i c ND Hin; cbn [fold_left]; [contradiction|]. cbn [map fst] in ND. inversion ND; subst.
  destruct Hin as [H|H].
  - inversion H; subst. rewrite fold_fset_other by assumption. apply fget_fset_eq.
  - apply IH; assumption.
Qed.

Definition nonval (t : sstate) (i : nat) : Prop := forall v, fget (cur t) i <> FVal v.

Section Setup.
  Variables (r : rho) (s : state) (new : env) (slotnames pnames : list string) (capt : string -> bool) (m : nat).
  Hypothesis Hsnd : map snd new = seq (length (cells s)) m.
  Hypothesis Hlk : forall x i, sidx x slotnames = Some i -> exists a, lookup x new = Some a.
  Hypothesis Hpn : forall x, In x pnames -> In x slotnames.
  Hypothesis Hgenv : forall a, In a (map snd genv) -> a < length (cells s).

  Lemma new_range x a : lookup x new = Some a -> length (cells s) <= a < length (cells s) + m.
  Proof. intros H. apply lookup_In in H. rewrite Hsnd in H. apply in_seq in H. exact H. Qed.
  Lemma new_nodup : NoDup (map snd new).
  Proof. rewrite Hsnd. apply seq_NoDup. Qed.

  Definition own_ok (ph : bool) (r1 : rho) (s1 : state) (t1 : sstate) (x : string) (i a : nat) : Prop :=
    (nth_error (cells s1) a = Some None /\ fget (cur t1) i = FEmpty /\ ~ dom r1 a) \/
    (exists v, nth_error (cells s1) a = Some (Some v) /\ fget (cur t1) i = FVal v /\ ~ dom r1 a /\ In x pnames) \/
    (ph = true /\ capt x = true /\ exists c, fget (cur t1) i = FCell c /\ r1 a c).

  Record SInv (ph : bool) (r1 : rho) (s1 : state) (t1 : sstate) : Prop := {
    si_G : GInv r1 s1 t1;
    si_len : length (cells s1) = length (cells s) + m;
    si_old : forall a, a < length (cells s) -> nth_error (cells s1) a = nth_error (cells s) a;
    si_sub : sub r r1;
    si_dom : forall a, dom r1 a -> dom r a \/ length (cells s) <= a;
    si_own : forall x i, sidx x slotnames = Some i -> exists a, lookup x new = Some a /\ own_ok ph r1 s1 t1 x i a
  }.

  Lemma setup_binds bs : (forall b, In b bs -> In (fst b) pnames) -> forall r1 s1 t1, SInv false r1 s1 t1 ->
    exists us us' s2 t2,
      mapM (fun b => match lookup (fst b) new with Some a => set_cell a (snd b) | None => ret tt end) bs s1 = Ok us s2 /\
      smapM (fun b => match sidx (fst b) slotnames with Some i => set_slot i (FVal (snd b)) | None => sret tt end) bs t1 = SOk us' t2 /\
      SInv false r1 s2 t2.
  Proof.
    induction bs as [|[x v] bs IH]; intros Hb r1 s1 t1 S1.
    - exists [], [], s1, t1. cbn. auto.
    - assert (Hx : In x pnames) by (apply (Hb (x, v)); left; reflexivity).
      destruct (sidx_some x slotnames (Hpn x Hx)) as [i Ei]. destruct (si_own _ _ _ _ S1 x i Ei) as (a & La & Hok).
      pose proof (new_range x a La) as Hr.
      assert (Hlt : a < length (cells s1)) by (rewrite (si_len _ _ _ _ S1); lia).
      assert (Hd : ~ dom r1 a).
      { destruct Hok as [(_ & _ & H)|[(w & _ & _ & H & _)|(H & _)]]; auto. discriminate. }
      assert (Hg : ~ In a (map snd genv)) by (intros H; apply Hgenv in H; lia).
      set (s1' := {| lists := lists s1; dicts := dicts s1; cells := upd (cells s1) a (Some v); clos := clos s1; out := out s1 |}).
      set (t1' := with_cur t1 (fset (cur t1) i (FVal v))).
      assert (S1' : SInv false r1 s1' t1').
      { constructor.
        - eapply GInv_priv_write; [apply (si_G _ _ _ _ S1)|apply cells_upd_set; exact Hlt|exact Hd|exact Hg].
        - cbn [s1' cells]. rewrite length_upd. apply (si_len _ _ _ _ S1).
        - intros a' Ha'. cbn [s1' cells]. rewrite nth_error_upd_neq by lia. apply (si_old _ _ _ _ S1). exact Ha'.
        - apply (si_sub _ _ _ _ S1).
        - apply (si_dom _ _ _ _ S1).
        - intros y j Ej. destruct (si_own _ _ _ _ S1 y j Ej) as (b & Lb & Hoky). exists b. split; [exact Lb|].
          destruct (String.eqb_spec y x) as [->|Hn].
          + assert (j = i) by congruence. assert (b = a) by congruence. subst j b.
            right. left. exists v. cbn [s1' t1' cells cur with_cur]. rewrite nth_error_upd_eq by exact Hlt. rewrite fget_fset_eq. auto.
          + assert (b <> a) by (intros ->; apply Hn; eapply lookup_nodup_inj; [apply new_nodup| |]; eauto).
            assert (j <> i) by (intros ->; apply Hn; eapply sidx_inj; eauto).
            unfold own_ok in *. cbn [s1' t1' cells cur with_cur]. rewrite nth_error_upd_neq by auto. rewrite fget_fset_neq by auto. exact Hoky. }
      destruct (IH (fun b Hb' => Hb b (or_intror Hb')) r1 s1' t1' S1') as (us & us' & s2 & t2 & E1 & E2 & S2).
      cbn [mapM smapM fst snd]. rewrite La, Ei. unfold bind at 1. unfold set_cell at 1. fold s1'.
      unfold bind. rewrite E1. unfold sbind at 1. unfold set_slot at 1. fold t1'. unfold sbind. rewrite E2.
      eexists _, _, s2, t2. split; [reflexivity|]. split; [reflexivity|exact S2].
  Qed.

  Lemma setup_wrap ws : (forall i, In i ws -> exists x, sidx x slotnames = Some i /\ capt x = true /\ In x pnames) ->
    forall r1 s1 t1, SInv true r1 s1 t1 ->
    exists us r2 t2, smapM wrap_slot ws t1 = SOk us t2 /\ SInv true r2 s1 t2 /\
                     (forall i, In i ws \/ nonval t1 i -> nonval t2 i).
  Proof.
    induction ws as [|i ws IH]; intros Hw r1 s1 t1 S1.
    - exists [], r1, t1. cbn. split; [reflexivity|]. split; [exact S1|]. intros i [[]|H]; exact H.
    - destruct (Hw i (or_introl eq_refl)) as (x & Ei & Hc & Hx). destruct (si_own _ _ _ _ S1 x i Ei) as (a & La & Hok).
      assert (Hstep : exists r1' t1', wrap_slot i t1 = SOk tt t1' /\ SInv true r1' s1 t1' /\ nonval t1' i /\
                                      forall j, j <> i -> fget (cur t1') j = fget (cur t1) j).
      { destruct Hok as [(E1 & E2 & E3)|[(v & E1 & E2 & E3 & E4)|(_ & _ & c & E1 & E2)]].
        - exists r1, t1. unfold wrap_slot. rewrite E2. split; [reflexivity|]. split; [exact S1|]. split; [|reflexivity].
          intros v. rewrite E2. discriminate.
        - pose proof (new_range x a La) as Hr.
          assert (Hlt : a < length (cells s1)) by (rewrite (si_len _ _ _ _ S1); lia).
          assert (Hg : ~ In a (map snd genv)) by (intros H; apply Hgenv in H; lia).
          unfold wrap_slot. rewrite E2. unfold sbind, lift, alloc_cell, set_slot. cbn [base with_base cur].
          eexists (ext r1 a (length (cells (base t1)))), _. split; [reflexivity|]. split; [|split].
          + constructor.
            * eapply GInv_share_new; [apply (si_G _ _ _ _ S1)|apply cells_upd_same; exact E1|exact E3|exact Hg|exact Hlt].
            * apply (si_len _ _ _ _ S1).
            * apply (si_old _ _ _ _ S1).
            * eapply sub_trans; [apply (si_sub _ _ _ _ S1)|apply sub_ext].
            * intros a' [c' [H|[-> _]]]; [apply (si_dom _ _ _ _ S1); exists c'; exact H|right; lia].
            * intros y j Ej. destruct (si_own _ _ _ _ S1 y j Ej) as (b & Lb & Hoky). exists b. split; [exact Lb|].
              destruct (String.eqb_spec y x) as [->|Hn].
              -- assert (j = i) by congruence. assert (b = a) by congruence. subst j b.
                 right. right. split; [reflexivity|]. split; [exact Hc|]. exists (length (cells (base t1))).
                 cbn [cur with_cur with_base]. rewrite fget_fset_eq. split; [reflexivity|]. right. auto.
              -- assert (b <> a) by (intros ->; apply Hn; eapply lookup_nodup_inj; [apply new_nodup| |]; eauto).
                 assert (j <> i) by (intros ->; apply Hn; eapply sidx_inj; eauto).
                 assert (Hnd : ~ dom r1 b -> ~ dom (ext r1 a (length (cells (base t1)))) b).
                 { intros Hd [c' [H'|[E' _]]]; [apply Hd; exists c'; exact H'|congruence]. }
                 unfold own_ok in *. cbn [cur with_cur with_base]. rewrite fget_fset_neq by auto.
                 destruct Hoky as [(F1 & F2 & F3)|[(w & F1 & F2 & F3 & F4)|(F0 & F1 & c' & F2 & F3)]].
                 ++ left. auto.
                 ++ right. left. exists w. auto.
                 ++ right. right. split; [exact F0|]. split; [exact F1|]. exists c'. split; [exact F2|]. left. exact F3.
          + intros w. cbn [cur with_cur with_base]. rewrite fget_fset_eq. discriminate.
          + intros j Hj. cbn [cur with_cur with_base]. apply fget_fset_neq. auto.
        - exists r1, t1. unfold wrap_slot. rewrite E1. split; [reflexivity|]. split; [exact S1|]. split; [|reflexivity].
          intros v. rewrite E1. discriminate. }
      destruct Hstep as (r1' & t1' & E1 & S1' & Hnv & Hfr).
      destruct (IH (fun j Hj => Hw j (or_intror Hj)) r1' s1 t1' S1') as (us & r2 & t2 & E2 & S2 & Hn2).
      exists (tt :: us), r2, t2. cbn [smapM]. unfold sbind at 1. rewrite E1. unfold sbind. rewrite E2. split; [reflexivity|].
      split; [exact S2|]. intros j [[<-|Hj]|Hj].
      + apply Hn2. right. exact Hnv.
      + apply Hn2. left. exact Hj.
      + apply Hn2. right. destruct (Nat.eq_dec j i) as [->|Hne]; [exact Hnv|]. intros v. rewrite Hfr by exact Hne. apply Hj.
  Qed.
End Setup.

Lemma nth_error_repeat {X} (x : X) m k : k < m -> nth_error (repeat x m) k = Some x.
Proof. revert k. induction m; intros [|k] H; cbn; try lia; auto. apply IHm. lia. Qed.

Lemma in_combine_fst {X Y} (l1 : list X) (l2 : list Y) a : In a (map fst (combine l1 l2)) -> In a l1.
Proof.
  revert l2. induction l1 as [|x l1 IH]; intros [|y l2] H; cbn in *; try contradiction.
  destruct H as [H|H]; [left; exact H|right; eapply IH; eauto].
Qed.
Lemma NoDup_combine_fst {X Y} (l1 : list X) (l2 : list Y) : NoDup l1 -> NoDup (map fst (combine l1 l2)).
Proof.
  revert l2. induction l1 as [|x l1 IH]; intros [|y l2] ND; cbn; try constructor.
  - inversion ND; subst. intros H. apply in_combine_fst in H. contradiction.
  - inversion ND; subst. apply IH. assumption.
Qed.
Lemma combine_seq_nth {Y} (cs : list Y) n len j c : nth_error cs j = Some c -> j < len -> In (n + j, c) (combine (seq n len) cs).
Proof.
  revert n len j. induction cs as [|y cs IH]; intros n len [|j] H Hl; cbn in H; try discriminate.
  - inversion H; subst. destruct len; [lia|]. cbn. left. rewrite Nat.add_0_r. reflexivity.
  - destruct len; [lia|]. cbn. right. replace (n + S j) with (S n + j) by lia. apply IH; [exact H|lia].
Qed.
Lemma Forall2_nth {X Y} (R : X -> Y -> Prop) l1 l2 j x : Forall2 R l1 l2 -> nth_error l1 j = Some x ->
  exists y, nth_error l2 j = Some y /\ R x y.
Proof.
  intros F. revert j. induction F as [|a b l1 l2 H _ IH]; intros [|j] E; cbn in E; try discriminate.
  - inversion E; subst. exists b. auto.
  - apply IH. exact E.
Qed.

Lemma own_ok_weaken pn cp x i a r1 s1 t1 :
  own_ok pn cp false r1 s1 t1 x i a -> own_ok pn cp true r1 s1 t1 x i a.
Proof. intros [H|[H|(H & _)]]; [left; exact H|right; left; exact H|discriminate]. Qed.

(* the frame a call builds is related to the environment the reference interpreter builds *)
Lemma call_setup r s t cl scl (bs : list (string * value)) :
  GInv r s t -> clo_rel r (length (cells s)) cl scl ->
  (forall b, In b bs -> In (fst b) (map param_name (c_params cl))) ->
  exists sc' n new s1 t1 r1,
    body_compiled sc' n (c_body cl) (sc_body scl) (di_nslots (sc_info scl)) /\
    (forall B (K : env -> M B),
       (nw <- alloc_cells (Sem.dedup (map param_name (c_params cl) ++ locals_of (c_body cl))) ;;
        mapM (fun b => match lookup (fst b) nw with Some a => set_cell a (snd b) | None => ret tt end) bs ;;; K nw) s = K new s1) /\
    (forall B (K : SM B),
       (set_cur (repeat FEmpty (di_nslots (sc_info scl))) ;;~
        smapM (fun b => match sidx (fst b) (di_names (sc_info scl)) with
                        | Some i => set_slot i (FVal (snd b)) | None => sret tt end) bs ;;~
        smapM wrap_slot (di_wrap (sc_info scl)) ;;~
        smapM (fun pc => set_slot (fst pc) (FCell (snd pc))) (combine (map snd (di_parents (sc_info scl))) (sc_captured scl)) ;;~
        K) t = K t1) /\
    GInv r1 s1 t1 /\ FrameRel (new ++ c_env cl) sc' r1 s1 t1 /\
    sub r r1 /\ (forall a, dom r1 a -> dom r a \/ length (cells s) <= a) /\
    length (cells s) <= length (cells s1) /\
    (forall a, a < length (cells s) -> nth_error (cells s1) a = nth_error (cells s) a) /\
    (forall a, own (new ++ c_env cl) sc' a -> length (cells s) <= a \/ dom r a).
Proof.
  intros G [sc sc' slotnames capt free n Hps Hdf Hpnd Hnames Hsnd Hfs Hdn Hw Hb Hend Hebound Hcopied Houter] Hbs.
  set (P := filter (is_local sc) (dedup free)) in *.
  destruct (fun_scope_inv _ _ _ _ _ _ _ P Hfs eq_refl) as (Hall & Hpf & Hpsnd & Hn & Hsc').
  set (pnames := map param_name (c_params cl)) in *.
  set (names := Sem.dedup (pnames ++ locals_of (c_body cl))).
  destruct (alloc_cells_spec names s) as (new & Ea & Hf & Hs).
  set (m := length names) in *.
  assert (Hlk : forall x i, sidx x slotnames = Some i -> exists a, lookup x new = Some a).
  { intros x i Ei. assert (Hin : In x names).
    { apply sem_dedup_In. apply Hnames. apply sidx_nth in Ei. eapply nth_error_In; eauto. }
    pose proof (lookup_new x new names Hf) as Hl. destruct (sidx x names) eqn:E.
    - destruct Hl as (a & La & _). eauto.
    - apply sidx_none in E. contradiction. }
  assert (Hlkn : forall x, sidx x slotnames = None -> lookup x new = None).
  { intros x Ei. pose proof (lookup_new x new names Hf) as Hl. destruct (sidx x names) eqn:E; [|exact Hl].
    exfalso. apply sidx_none in Ei. apply Ei. apply Hnames. apply sem_dedup_In. apply sidx_nth in E. eapply nth_error_In; eauto. }
  assert (Hpn : forall x, In x pnames -> In x slotnames) by (intros x Hx; apply Hnames; apply in_or_app; left; exact Hx).
  pose proof (g_genv _ _ _ G) as Hgenv.
  set (t0 := with_cur t (repeat FEmpty (di_nslots (sc_info scl)))).
  assert (S0 : SInv r s new slotnames pnames capt m false r (grow s m) t0).
  { constructor.
    - apply GInv_cur. apply GInv_grow. exact G.
    - cbn [grow cells]. rewrite app_length, repeat_length. reflexivity.
    - intros a Ha. cbn [grow cells]. apply nth_error_app1. exact Ha.
    - apply sub_refl.
    - intros a Ha. left. exact Ha.
    - intros x i Ei. destruct (Hlk x i Ei) as [a La]. exists a. split; [exact La|]. left.
      pose proof (new_range s new m Hs x a La) as Hr. cbn [grow cells t0 cur with_cur].
      rewrite nth_error_app2 by lia. rewrite nth_error_repeat by lia. rewrite fget_repeat.
      split; [reflexivity|]. split; [reflexivity|]. intros [c Hd]. destruct (g_cells _ _ _ G a c Hd). lia. }
  destruct (setup_binds r s new slotnames pnames capt m Hs Hpn Hgenv bs Hbs r (grow s m) t0 S0)
    as (us & us' & s1 & t1 & E1 & E2 & S1).
  assert (S1' : SInv r s new slotnames pnames capt m true r s1 t1).
  { destruct S1. constructor; auto. intros x i Ei. destruct (si_own0 x i Ei) as (a & La & Hok). exists a. split; [exact La|].
    eapply own_ok_weaken; eauto. }
  destruct (setup_wrap r s new slotnames pnames capt m Hs Hgenv (di_wrap (sc_info scl))
              ltac:(rewrite Hw; intros i Hi; eapply wrap_slots_In; eauto) r s1 t1 S1')
    as (us2 & r2 & t2 & E3 & S2 & Hnv).
  destruct (smapM_set_slots (combine (map snd (di_parents (sc_info scl))) (sc_captured scl)) t2) as [us3 E4].
  set (t3 := with_cur t2 _) in E4.
  exists sc', n, new, s1, t3, r2.
  split; [exact Hb|]. split; [|split].
  - intros B K. unfold bind at 1. fold pnames. fold names. rewrite Ea. fold (grow s m). unfold bind at 1. rewrite E1. reflexivity.
  - intros B K. unfold sbind at 1. unfold set_cur at 1. fold t0. unfold sbind at 1. rewrite Hdn, E2.
    unfold sbind at 1. rewrite E3. unfold sbind at 1. rewrite E4. reflexivity.
  - destruct S2 as [G2 L2 O2 Sb2 D2 Own2].
    assert (Hcl : length (sc_captured scl) = length P) by (symmetry; eapply Forall2_length'; eauto).
    assert (Hlow : forall i, i < length slotnames -> fget (cur t3) i = fget (cur t2) i).
    { intros i Hi. unfold t3. cbn [cur with_cur]. apply fold_fset_other. intros Hin. apply in_combine_fst in Hin.
      rewrite Hpsnd in Hin. apply in_seq in Hin. lia. }
    assert (Hhigh : forall j x, nth_error P j = Some x ->
              exists a c, lookup x (c_env cl) = Some a /\ r a c /\ fget (cur t3) (length slotnames + j) = FCell c).
    { intros j x Ej. destruct (Forall2_nth _ _ _ _ _ Hcopied Ej) as (c & Ec & a & La & Hr). exists a, c.
      split; [exact La|]. split; [exact Hr|]. unfold t3. cbn [cur with_cur]. apply fold_fset_in.
      - apply NoDup_combine_fst. rewrite Hpsnd. apply seq_NoDup.
      - rewrite Hpsnd. apply combine_seq_nth; [exact Ec|]. apply nth_error_Some. congruence. }
    assert (HPnd : NoDup P) by (unfold P; apply NoDup_filter; apply Proofs.dedup_NoDup).
    assert (Hent : forall x, sassoc x (sc_entries sc') =
              match sidx x slotnames with
              | Some i => Some (i, capt x)
              | None => option_map (fun j => (length slotnames + j, true)) (sidx x P) end).
    { intros x. rewrite Hsc'. cbn [sc_entries]. rewrite sassoc_app, sassoc_indexed.
      destruct (sidx x slotnames) as [i|]; cbn [option_map]; [reflexivity|].
      rewrite (sassoc_indexed (fun _ => true)). reflexivity. }
    assert (Hnewcells : forall a, In a (map snd new) -> length (cells s) <= a < length (cells s) + m).
    { intros a Ha. rewrite Hs in Ha. apply in_seq in Ha. exact Ha. }
    split; [apply GInv_cur; exact G2|]. split; [|split; [exact Sb2|split; [exact D2|split; [lia|split; [exact O2|]]]]].
    + constructor.
      * rewrite map_app. apply NoDup_app_iff'. split; [rewrite Hs; apply seq_NoDup|]. split; [exact Hend|].
        intros a H1 H2. specialize (Hnewcells a H1). specialize (Hebound a H2). lia.
      * intros a Ha. rewrite map_app in Ha. apply in_app_or in Ha.
        destruct Ha as [Ha|Ha]; [specialize (Hnewcells a Ha)|specialize (Hebound a Ha)]; lia.
      * intros x y i k k'. rewrite !Hent. destruct (sidx x slotnames) as [ix|] eqn:Ex, (sidx y slotnames) as [iy|] eqn:Ey; intros H1 H2.
        -- inversion H1; inversion H2; subst. eapply sidx_inj; eauto.
        -- inversion H1; subst. destruct (sidx y P); cbn in H2; [|discriminate]. inversion H2. apply sidx_lt in Ex. lia.
        -- inversion H2; subst. destruct (sidx x P); cbn in H1; [|discriminate]. inversion H1. apply sidx_lt in Ey. lia.
        -- destruct (sidx x P) as [jx|] eqn:Ejx, (sidx y P) as [jy|] eqn:Ejy; cbn in H1, H2; try discriminate.
           inversion H1; inversion H2; subst. assert (jx = jy) by lia. subst. eapply sidx_inj; eauto.
      * intros x. rewrite Hent. rewrite lookup_app. destruct (sidx x slotnames) as [i|] eqn:Ei.
        -- destruct (Own2 x i Ei) as (a & La & Hok). rewrite La.
           pose proof (new_range s new m Hs x a La) as Hr.
           assert (Hg : ~ In a (map snd genv)) by (intros H; apply Hgenv in H; lia).
           rewrite (Hlow i (sidx_lt _ _ _ Ei)).
           destruct (capt x) eqn:Ec.
           ++ exists a. split; [reflexivity|]. split; [exact Hg|].
              destruct Hok as [(F1 & F2 & F3)|[(w & F1 & F2 & F3 & F4)|(_ & _ & c & F2 & F3)]].
              ** left. auto.
              ** exfalso. assert (Hin : In i (di_wrap (sc_info scl))).
                 { rewrite Hw. unfold wrap_slots. apply in_flat_map. exists (i, x). split.
                   - unfold indexed. replace i with (0 + i) by lia. apply combine_seq_nth; [apply sidx_nth; exact Ei|apply sidx_lt in Ei; exact Ei].
                   - cbn [fst snd]. rewrite Ec. assert (mem x pnames = true) by (apply Proofs.mem_In; exact F4). rewrite H. left. reflexivity. }
                 apply (Hnv i (or_introl Hin) w). exact F2.
              ** right. exists c. auto.
           ++ exists a. split; [reflexivity|].
              destruct Hok as [(F1 & F2 & F3)|[(w & F1 & F2 & F3 & F4)|(_ & F0 & _)]]; [| |congruence].
              ** split; [exact F3|]. split; [exact Hg|]. intros v Hv. congruence.
              ** split; [exact F3|]. split; [exact Hg|]. intros v Hv. congruence.
        -- rewrite (Hlkn x Ei). destruct (sidx x P) as [j|] eqn:Ej; cbn [option_map].
           ++ destruct (Hhigh j x (sidx_nth _ _ _ Ej)) as (a & c & La & Hr & Hfc). exists a. split; [exact La|].
              destruct (g_cells _ _ _ G a c Hr) as (_ & _ & _ & Hg). split; [exact Hg|]. right. exists c. split; [exact Hfc|apply Sb2; exact Hr].
           ++ rewrite Hsc'. cbn [sc_hidden]. intros Hh. unfold mem in Hh. rewrite existsb_app in Hh. apply orb_false_iff in Hh. destruct Hh as [Hh1 Hh2].
              apply Houter; [|exact Hh2]. unfold is_local. destruct (sassoc x (sc_entries sc)) eqn:Es; [|reflexivity].
              exfalso. assert (In x (map fst (sc_entries sc))).
              { destruct (in_dec string_dec x (map fst (sc_entries sc))) as [Hi|Hi]; [exact Hi|]. apply sassoc_none in Hi. congruence. }
              assert (existsb (String.eqb x) (map fst (sc_entries sc)) = true) by (apply existsb_exists; exists x; split; [assumption|apply String.eqb_refl]).
              congruence.
    + intros a (x & e & Ex & Lx). rewrite Hent in Ex. rewrite lookup_app in Lx. destruct (sidx x slotnames) as [i|] eqn:Ei.
      * destruct (Hlk x i Ei) as [a' La]. rewrite La in Lx. inversion Lx; subst. left. apply (new_range s new m Hs x a La).
      * rewrite (Hlkn x Ei) in Lx. destruct (sidx x P) as [j|] eqn:Ej; cbn in Ex; [|discriminate].
        destruct (Hhigh j x (sidx_nth _ _ _ Ej)) as (a' & c & La & Hr & _). right. exists c. congruence.
Qed.

(* ================================================================================================================ *)
(* Part D: the simulation, by induction on the fuel *)
Definition simE (n : nat) : Prop :=
  forall sc k e e' k' en, cexprT sc k e = Some (e', k') -> simF en sc (eval n en e) (seval n e').
Definition simC (n : nat) : Prop :=
  forall f pos named, csim (call n f pos named) (scall n f pos named).
Definition simX (n : nat) : Prop :=
  forall sc k st st' k' en, cstmtT sc k st = Some (st', k') -> simF en sc (exec n en st) (sexec n st').

Lemma call_finish en' sc' r r1 s s1 t t1 (X : res value) (Y : sres value) :
  sub r r1 -> (forall a, dom r1 a -> dom r a \/ length (cells s) <= a) ->
  length (cells s) <= length (cells s1) ->
  (forall a, a < length (cells s) -> nth_error (cells s1) a = nth_error (cells s) a) ->
  (forall a, own en' sc' a -> length (cells s) <= a \/ dom r a) ->
  rresF en' sc' r1 s1 t1 X Y ->
  rres noframe nocells FPc r s t X
       (match Y with SOk v t2 => SOk v (with_cur t2 (cur t)) | SFail e l t2 => SFail e l t2 | SOutOfFuel => SOutOfFuel end).
Proof.
  intros Hs Hd Hl Ho Hown H. unfold rres in *. destruct X as [v s2|e l s2|].
  - destruct Y as [w t2|?|]; try contradiction. destruct H as [<- (r2 & G2 & F2 & [P1 P2 P3 P4] & Q2)].
    split; [reflexivity|]. exists r2. split; [apply GInv_cur; exact G2|]. split; [exact Logic.I|]. split; [|reflexivity].
    constructor.
    + eapply sub_trans; eassumption.
    + lia.
    + intros a Ha _ Hda Hg. rewrite P3; auto; [lia| |].
      * intros Hown'. destruct (Hown a Hown') as [?|?]; [lia|contradiction].
      * intros Hd1. destruct (Hd a Hd1) as [?|?]; [contradiction|lia].
    + intros a Hd2. destruct (P4 a Hd2) as [H|[H|H]].
      * destruct (Hd a H); auto.
      * right. left. lia.
      * destruct (Hown a H); auto.
  - destruct (is_unbound e); auto. destruct Y; try contradiction. exact H.
  - destruct Y; try contradiction. exact Logic.I.
Qed.

Lemma call_clo_body n cl scl bs r s t :
  simE n -> simX n -> GInv r s t -> clo_rel r (length (cells s)) cl scl ->
  (forall b, In b bs -> In (fst b) (map param_name (c_params cl))) ->
  rres noframe nocells FPc r s t
    ((nw <- alloc_cells (Sem.dedup (map param_name (c_params cl) ++ locals_of (c_body cl))) ;;
      mapM (fun b => match lookup (fst b) nw with Some a => set_cell a (snd b) | None => ret tt end) bs ;;;
      match c_body cl with
      | BExpr e => eval n (nw ++ c_env cl) e
      | BStmts ss => c <- run_block (exec n (nw ++ c_env cl)) ss ;; match c with CReturn v => ret v | _ => ret VNone end
      end) s)
    ((saved <~ get_cur ;;
      set_cur (repeat FEmpty (di_nslots (sc_info scl))) ;;~
      smapM (fun b => match sidx (fst b) (di_names (sc_info scl)) with
                      | Some i => set_slot i (FVal (snd b)) | None => sret tt end) bs ;;~
      smapM wrap_slot (di_wrap (sc_info scl)) ;;~
      smapM (fun pc => set_slot (fst pc) (FCell (snd pc))) (combine (map snd (di_parents (sc_info scl))) (sc_captured scl)) ;;~
      r <~ match sc_body scl with
           | SBExpr e => seval n e
           | SBStmts ss => c <~ srun_block (sexec n) ss ;; match c with CReturn v => sret v | _ => sret VNone end
           end ;;
      set_cur saved ;;~ sret r) t).
Proof.
  intros IHe IHx G CR Hbs.
  destruct (call_setup r s t cl scl bs G CR Hbs) as (sc' & n0 & new & s1 & t1 & r1 & Hb & En & Es & G1 & F1 & Hs & Hd & Hl & Ho & Hown).
  rewrite (En _ (fun nw => match c_body cl with
      | BExpr e => eval n (nw ++ c_env cl) e
      | BStmts ss => c <- run_block (exec n (nw ++ c_env cl)) ss ;; match c with CReturn v => ret v | _ => ret VNone end
      end)).
  unfold sbind at 1. unfold get_cur at 1. rewrite Es.
  set (BN := match c_body cl with BExpr e => _ | BStmts ss => _ end).
  set (BS := match sc_body scl with SBExpr e => _ | SBStmts ss => _ end).
  assert (HB : simF (new ++ c_env cl) sc' BN BS).
  { unfold BN, BS, body_compiled in *. destruct (c_body cl) as [ss|e], (sc_body scl) as [ss'|e']; try contradiction.
    - apply sim_bind; [apply okF| |].
      + apply sim_run_block; [apply okF|]. apply omapS_Forall2 in Hb.
        eapply Forall2_impl'; [|exact Hb]. intros st st' (k1 & k2 & Hst). eapply IHx; eauto.
      + intros c. destruct c; apply sim_ret; apply okF.
    - eapply IHe; eauto. }
  specialize (HB r1 s1 t1 G1 F1).
  pose proof (call_finish _ _ r r1 s s1 t t1 _ _ Hs Hd Hl Ho Hown HB) as Hfin.
  unfold sbind at 1. destruct (BS t1) as [v t2|e l t2|]; exact Hfin.
Qed.

Lemma nodupb_NoDup l : nodupb l = true -> NoDup l.
Proof.
  unfold nodupb. intros H. apply Nat.eqb_eq in H.
  apply NoDup_incl_NoDup with (l := dedup l); [apply Proofs.dedup_NoDup|lia|].
  intros x Hx. apply (proj1 (Proofs.dedup_In l x)). exact Hx.
Qed.

Lemma pure_sorted_tail (named : list (string * value)) (ks xs : list value) :
  pure_op (st <- get_state ;;
           let reverse := match assoc_str "reverse" named with Some r => truth st r | None => false end in
           match sort_pairs_dir st reverse (combine ks xs) with
           | Some r => alloc_list (map snd r)
           | None => fail TypeErr
           end).
Proof.
  apply pure_get_state.
  - intros s0. cbv zeta. destruct (sort_pairs_dir s0 _ (combine ks xs)); pure_tac.
  - intros c k s0 s1. cbv zeta. destruct (assoc_str "reverse" named); sw_rw; reflexivity.
Qed.

Lemma pure_dstar v : pure_op (match v with
  | VDict d => kvs <- get_dict d ;; mapM (fun kv => match fst kv with VStr k => ret (k, snd kv) | _ => fail TypeErr end) kvs
  | _ => fail TypeErr end).
Proof. destruct v; pure_tac. Qed.

Lemma pure_list_acc acc v : pure_op (match acc with VList a => xs <- get_list a ;; set_list a (xs ++ [v]) | _ => ret tt end).
Proof. destruct acc; pure_tac. Qed.
Lemma pure_dict_acc acc k v : pure_op (match acc with
  | VDict a => d <- get_dict a ;; s <- get_state ;; set_dict a (dict_set s d k v)
  | _ => ret tt end).
Proof. destruct acc; pure_auto. Qed.
Lemma pure_dict_lit ps : pure_op (s <- get_state ;; alloc_dict (dict_update s [] ps)).
Proof. pure_auto. Qed.

Ltac inv_c H :=
  repeat match type of H with
         | match ?x with Some _ => _ | None => _ end = Some _ =>
             let E := fresh "E" in let p := fresh "p" in
             destruct x as [p|] eqn:E; [repeat match goal with q : (_ * _)%type |- _ => destruct q end|discriminate H]
         | (if ?b then _ else _) = Some _ => let E := fresh "E" in destruct b eqn:E; [|discriminate H]
         end;
  inversion H; subst; clear H.

Ltac sb := apply sim_bind; [apply okF| |intro].
Ltac sret_ := apply sim_ret; apply okF.
Ltac slift := apply sim_lift; [apply okF|].

Section Step.
  Variable n : nat.
  Hypothesis IHe : simE n.
  Hypothesis IHc : simC n.
  Hypothesis IHx : simX n.

  Lemma sE_list sc en k es es' k' :
    omapS (cexprT sc) k es = Some (es', k') -> simF en sc (mapM (eval n en) es) (smapM (seval n) es').
  Proof.
    intros H. apply omapS_Forall2 in H. eapply sim_mapM2; [apply okF|exact H|].
    intros e e' (k1 & k2 & He). eapply IHe; eauto.
  Qed.

  Lemma sE_kwargs sc en k (kws : list (string * expr)) kws' k' :
    omapS (fun k kv => match cexprT sc k (snd kv) with Some (v, k') => Some ((fst kv, v), k') | None => None end) k kws = Some (kws', k') ->
    simF en sc (mapM (fun kv => v <- eval n en (snd kv) ;; ret (fst kv, v)) kws)
               (smapM (fun kv => v <~ seval n (snd kv) ;; sret (fst kv, v)) kws').
  Proof.
    intros H. apply omapS_Forall2 in H. eapply sim_mapM2; [apply okF|exact H|].
    intros kv kv' (k1 & k2 & He). cbv beta in He. destruct (cexprT sc k1 (snd kv)) as [[v' k3]|] eqn:E; [|discriminate].
    inversion He; subst. cbn [fst snd]. sb; [eapply IHe; eauto|]. sret_.
  Qed.

  Lemma sE_dict sc en k (kvs : list (expr * expr)) kvs' k' :
    omapS (fun k kv => match cexprT sc k (fst kv) with
                       | Some (a, k1) => match cexprT sc k1 (snd kv) with Some (b, k2) => Some ((a, b), k2) | None => None end
                       | None => None end) k kvs = Some (kvs', k') ->
    simF en sc (mapM (fun kv => k <- eval n en (fst kv) ;; v <- eval n en (snd kv) ;; check_hashable k ;;; ret (k, v)) kvs)
               (smapM (fun kv => k <~ seval n (fst kv) ;; v <~ seval n (snd kv) ;; lift (check_hashable k) ;;~ sret (k, v)) kvs').
  Proof.
    intros H. apply omapS_Forall2 in H. eapply sim_mapM2; [apply okF|exact H|].
    intros kv kv' (k1 & k2 & He). cbv beta in He. destruct (cexprT sc k1 (fst kv)) as [[a' k3]|] eqn:E1; [|discriminate].
    destruct (cexprT sc k3 (snd kv)) as [[b' k4]|] eqn:E2; [|discriminate]. inversion He; subst. cbn [fst snd].
    sb; [eapply IHe; eauto|]. sb; [eapply IHe; eauto|]. sb; [slift; apply pure_check_hashable|]. sret_.
  Qed.

  Lemma sE_params sc en k ps ps' k' :
    omapS (cparam true mods sc) k ps = Some (ps', k') ->
    simF en sc (mapM (fun p => match p with PNormal x (Some d) => v <- eval n en d ;; ret [(x, v)] | _ => ret [] end) ps)
               (smapM (fun p => match p with SPNormal x (Some d) => v <~ seval n d ;; sret [(x, v)] | _ => sret [] end) ps').
  Proof.
    intros H. apply omapS_Forall2 in H. eapply sim_mapM2; [apply okF|exact H|].
    intros p p' (k1 & k2 & He). rewrite cp_eq in He. destruct p as [x [d|]|x|x].
    - destruct (cexprT sc k1 d) as [[d' k3]|] eqn:E; [|discriminate]. inversion He; subst. sb; [eapply IHe; eauto|]. sret_.
    - inversion He; subst. sret_.
    - inversion He; subst. sret_.
    - inversion He; subst. sret_.
  Qed.

  Lemma sE_opt sc en k o o' k' :
    copt (cexprT sc) k o = Some (o', k') ->
    simF en sc (match o with None => ret None | Some e => v <- eval n en e ;; ret (Some v) end)
               (match o' with None => sret None | Some e => v <~ seval n e ;; sret (Some v) end).
  Proof.
    unfold copt. destruct o as [e|]; intros H.
    - destruct (cexprT sc k e) as [[e' k1]|] eqn:E; [|discriminate]. inversion H; subst. sb; [eapply IHe; eauto|]. sret_.
    - inversion H; subst. sret_.
  Qed.

  Lemma sE_star sc en k o o' k' :
    copt (cexprT sc) k o = Some (o', k') ->
    simF en sc (match o with None => ret [] | Some e => v <- eval n en e ;; iter_elems v end)
               (match o' with None => sret [] | Some e => v <~ seval n e ;; lift (iter_elems v) end).
  Proof.
    unfold copt. destruct o as [e|]; intros H.
    - destruct (cexprT sc k e) as [[e' k1]|] eqn:E; [|discriminate]. inversion H; subst. sb; [eapply IHe; eauto|].
      slift. apply pure_iter_elems.
    - inversion H; subst. sret_.
  Qed.

  Lemma sE_dstar sc en k o o' k' :
    copt (cexprT sc) k o = Some (o', k') ->
    simF en sc (match o with
                | None => ret []
                | Some e => v <- eval n en e ;;
                            match v with
                            | VDict d => kvs <- get_dict d ;;
                                         mapM (fun kv => match fst kv with VStr k => ret (k, snd kv) | _ => fail TypeErr end) kvs
                            | _ => fail TypeErr end
                end)
               (match o' with
                | None => sret []
                | Some e => v <~ seval n e ;;
                            lift (match v with
                                  | VDict d => kvs <- get_dict d ;;
                                               mapM (fun kv => match fst kv with VStr k => ret (k, snd kv) | _ => fail TypeErr end) kvs
                                  | _ => fail TypeErr end)
                end).
  Proof.
    unfold copt. destruct o as [e|]; intros H.
    - destruct (cexprT sc k e) as [[e' k1]|] eqn:E; [|discriminate]. inversion H; subst. sb; [eapply IHe; eauto|].
      slift. apply pure_dstar.
    - inversion H; subst. sret_.
  Qed.

  Lemma sX_block sc en k ss ss' k' :
    omapS (cstmtT sc) k ss = Some (ss', k') -> simF en sc (run_block (exec n en) ss) (srun_block (sexec n) ss').
  Proof.
    intros H. apply omapS_Forall2 in H. apply sim_run_block; [apply okF|].
    eapply Forall2_impl'; [|exact H]. intros st st' (k1 & k2 & Hst). eapply IHx; eauto.
  Qed.

  Lemma step_expr : simE (S n).
  Proof.
    intros sc k e e' k' en H. destruct e.
    - rewrite ce_ENone in H. inv_c H. cbn [eval seval]. sret_.
    - rewrite ce_EBool in H. inv_c H. cbn [eval seval]. sret_.
    - rewrite ce_EInt in H. inv_c H. cbn [eval seval]. sret_.
    - rewrite ce_EStr in H. inv_c H. cbn [eval seval]. sret_.
    - rewrite ce_EVar in H. inv_c H. cbn [seval]. apply sim_load. assumption.
    - rewrite ce_ETuple in H. inv_c H. cbn [eval seval]. sb; [eapply sE_list; eauto|]. sret_.
    - rewrite ce_EList in H. inv_c H. cbn [eval seval]. sb; [eapply sE_list; eauto|]. slift. apply pure_alloc_list.
    - rewrite ce_EDict in H. inv_c H. cbn [eval seval]. sb; [eapply sE_dict; eauto|]. slift. apply pure_dict_lit.
    - rewrite ce_EUn in H. inv_c H. cbn [eval seval]. sb; [eapply IHe; eauto|]. slift. apply pure_unop_eval.
    - rewrite ce_EBin in H. inv_c H. cbn [eval seval]. sb; [eapply IHe; eauto|]. sb; [eapply IHe; eauto|]. slift. apply pure_binop_eval.
    - rewrite ce_EAnd in H. inv_c H. cbn [eval seval]. sb; [eapply IHe; eauto|].
      apply sim_truth_if; [apply okF|eapply IHe; eauto|sret_].
    - rewrite ce_EOr in H. inv_c H. cbn [eval seval]. sb; [eapply IHe; eauto|].
      apply sim_truth_if; [apply okF|sret_|eapply IHe; eauto].
    - rewrite ce_EIf in H. inv_c H. cbn [eval seval]. sb; [eapply IHe; eauto|].
      apply sim_truth_if; [apply okF|eapply IHe; eauto|eapply IHe; eauto].
    - rewrite ce_EIndex in H. inv_c H. cbn [eval seval]. sb; [eapply IHe; eauto|]. sb; [eapply IHe; eauto|]. slift. apply pure_index_eval.
    - rewrite ce_ESlice in H. inv_c H. cbn [eval seval]. sb; [eapply IHe; eauto|].
      sb; [eapply sE_opt; eauto|]. sb; [eapply sE_opt; eauto|]. sb; [eapply sE_opt; eauto|]. slift. apply pure_slice_eval.
    - rewrite ce_ECall in H. inv_c H. cbn [eval seval]. sb; [eapply IHe; eauto|]. sb; [eapply sE_list; eauto|].
      sb; [eapply sE_kwargs; eauto|]. sb; [eapply sE_star; eauto|]. sb; [eapply sE_dstar; eauto|].
      apply csim_simF. apply IHc.
    - rewrite ce_EMeth in H. inv_c H. cbn [eval seval]. sb; [eapply IHe; eauto|]. sb; [eapply sE_list; eauto|].
      sb; [eapply sE_kwargs; eauto|]. slift. apply pure_call_method_kw.
    - rewrite ce_ELambda in H. cbv zeta in H. inv_c H. cbn [eval seval]. sb; [eapply sE_params; eauto|].
      eapply sim_make_closure; cbn [di_parents di_names di_wrap di_nslots]; eauto.
      + eapply erase_param_of; eauto.
      + apply nodupb_NoDup. assumption.
      + intros x. cbn [locals_of]. rewrite app_nil_r. apply Proofs.dedup_In.
      + apply Proofs.dedup_NoDup.
    - rewrite ce_EListComp in H. destruct cls as [|[t0 e0|c0] r]; try discriminate. cbv zeta in H. inv_c H.
      cbn [eval seval]. sb; [eapply IHe; eauto|]. sb; [slift; apply pure_iter_elems|].
      eapply sim_compr; [eassumption|]. intros new Hf.
      sb; [slift; apply pure_alloc_list|]. sb; [|sret_].
      apply sim_with_lock; [apply okF|].
      apply sim_comp_first.
      + intros k0 e1 e1' k0' He. eapply IHe; eauto.
      + eauto.
      + eapply omapS_Forall2; eauto.
      + sb; [eapply IHe; eauto|]. slift. apply pure_list_acc.
    - rewrite ce_EDictComp in H. destruct cls as [|[t0 e0|c0] r]; try discriminate. cbv zeta in H. inv_c H.
      cbn [eval seval]. sb; [eapply IHe; eauto|]. sb; [slift; apply pure_iter_elems|].
      eapply sim_compr; [eassumption|]. intros new Hf.
      sb; [slift; apply pure_alloc_dict|]. sb; [|sret_].
      apply sim_with_lock; [apply okF|].
      apply sim_comp_first.
      + intros k0 e1' e1'' k0' He. eapply IHe; eauto.
      + eauto.
      + eapply omapS_Forall2; eauto.
      + sb; [eapply IHe; eauto|]. sb; [eapply IHe; eauto|]. sb; [slift; apply pure_check_hashable|]. slift. apply pure_dict_acc.
  Qed.

  Lemma step_stmt : simX (S n).
  Proof.
    intros sc k st st' k' en H. destruct st; cbn [cstmt] in H.
    - inv_c H. cbn [exec sexec stmt_line sstmt_line]. apply sim_at_line. sb; [eapply IHe; eauto|]. sret_.
    - inv_c H. cbn [exec sexec stmt_line sstmt_line]. apply sim_at_line. sb; [eapply IHe; eauto|].
      sb; [eapply sim_assign; [|eassumption]; intros; eapply IHe; eauto|]. sret_.
    - inv_c H. cbn [exec sexec stmt_line sstmt_line]. apply sim_at_line.
      destruct t as [x|ts|a i].
      + rewrite ct_TVar in E. destruct (cvar mods sc x) as [w|] eqn:Ec; [|discriminate]. inversion E; subst.
        sb; [eapply (IHe sc 0); rewrite ce_EVar, Ec; reflexivity|]. sb; [eapply IHe; eauto|].
        sb; [slift; apply pure_aug_result|].
        sb; [eapply sim_assign with (k := 0); [|rewrite ct_TVar, Ec; reflexivity]; intros; eapply IHe; eauto|]. sret_.
      + rewrite ct_TTuple in E. destruct (omapS (ctarget true mods sc) k ts) as [[ts' k1]|]; [|discriminate]. inversion E; subst.
        apply sim_fail.
      + rewrite ct_TIndex in E. destruct (cexprT sc k a) as [[a' k1]|] eqn:Ea; [|discriminate].
        destruct (cexprT sc k1 i) as [[i' k2]|] eqn:Ei; [|discriminate]. inversion E; subst.
        sb; [eapply IHe; eauto|]. sb; [eapply IHe; eauto|]. sb; [slift; apply pure_index_eval|]. sb; [eapply IHe; eauto|].
        sb; [slift; apply pure_aug_result|]. sb; [slift; apply pure_set_index|]. sret_.
    - inv_c H. cbn [exec sexec stmt_line sstmt_line]. apply sim_at_line. sb; [eapply IHe; eauto|].
      apply sim_truth_if; [apply okF|eapply sX_block; eauto|eapply sX_block; eauto].
    - inv_c H. cbn [exec sexec stmt_line sstmt_line]. apply sim_at_line. sb; [eapply IHe; eauto|].
      sb; [slift; apply pure_iter_elems|]. apply sim_with_lock; [apply okF|]. apply sim_for_loop; [apply okF|]. intros v.
      sb; [eapply sim_assign; [|eassumption]; intros; eapply IHe; eauto|]. eapply sX_block; eauto.
    - inv_c H. cbn [exec sexec stmt_line sstmt_line]. apply sim_at_line. sret_.
    - inv_c H. cbn [exec sexec stmt_line sstmt_line]. apply sim_at_line. sret_.
    - destruct e as [e|].
      + inv_c H. cbn [exec sexec stmt_line sstmt_line]. apply sim_at_line. sb; [eapply IHe; eauto|]. sret_.
      + inv_c H. cbn [exec sexec stmt_line sstmt_line]. apply sim_at_line. sret_.
    - inv_c H. cbn [exec sexec stmt_line sstmt_line]. apply sim_at_line. sret_.
    - cbv zeta in H. inv_c H. cbn [exec sexec stmt_line sstmt_line]. apply sim_at_line.
      sb; [eapply sE_params; eauto|].
      sb; [|sb; [cbn [assign]; apply sim_store; assumption|]; sret_].
      eapply sim_make_closure; cbn [di_parents di_names di_wrap di_nslots];
        [ eapply erase_param_of; eassumption
        | apply nodupb_NoDup; assumption
        |
        |
        | eassumption
        | reflexivity
        | reflexivity
        | cbn [body_compiled]; eassumption ].
      + intros x. cbn [locals_of]. rewrite in_app_iff. apply Proofs.def_scope_names_spec.
      + unfold def_scope_names. destruct (Proofs.collect_stmts_ok body (dedup (map param_name ps))) as (_ & _ & ND). apply ND. apply Proofs.dedup_NoDup.
  Qed.

  Lemma step_call : simC (S n).
  Proof.
    intros f pos named. destruct f; cbn [call scall]; try (apply sim_fail).
    - (* a closure *)
      intros r s t G _. unfold bind at 1. unfold sbind at 1. unfold get_clo, sget_clo.
      destruct (nth_error (clos s) c) as [cl|] eqn:Ecl.
      + destruct (nth_error (sclos t) c) as [scl|] eqn:Escl.
        2:{ exfalso. apply nth_error_None in Escl. assert (c < length (clos s)) by (apply nth_error_Some; congruence).
            rewrite (g_clen _ _ _ G) in H. lia. }
        pose proof (g_clos _ _ _ G c cl scl Ecl Escl) as CR.
        assert (Hpar : sc_params scl = map erase_default (c_params cl) /\ sc_defaults scl = c_defaults cl) by (destruct CR; auto).
        destruct Hpar as [Hp1 Hp2]. rewrite Hp1, Hp2, bind_params_erase, has_kwargs_erase.
        destruct (bind_params (c_params cl) (c_defaults cl) pos named false) as [[[binds rest_pos] rest_named]|] eqn:Eb;
          [|apply sim_fail; [exact G|exact Logic.I]].
        destruct rest_pos; [|apply sim_fail; [exact G|exact Logic.I]].
        assert (Hbn : forall b, In b binds -> In (fst b) (map param_name (c_params cl))) by (eapply bind_params_names; eauto).
        destruct (has_kwargs (c_params cl)) as [kwx|] eqn:Ek.
        * (* **kwargs: the dict is allocated first *)
          unfold bind at 1. unfold sbind at 1. unfold bind at 1. unfold sbind at 1.
          pose proof (sim_lift noframe nocells FPc (alloc_dict (map (fun kv => (VStr (fst kv), snd kv)) rest_named))
                        (pure_alloc_dict _) r s t G Logic.I) as HL. unfold rres in HL.
          destruct (alloc_dict (map (fun kv => (VStr (fst kv), snd kv)) rest_named) s) as [d s1|? ? ?|] eqn:Ed; [|discriminate Ed|discriminate Ed].
          destruct (lift (alloc_dict (map (fun kv => (VStr (fst kv), snd kv)) rest_named)) t) as [d' t1|? ? ?|]; try contradiction.
          destruct HL as [<- (r1 & G1 & _ & P1 & Q1)]. cbn [ret sret].
          eapply rres_compose; [apply okC|exact P1|exact Q1|].
          assert (CR1 : clo_rel r1 (length (cells s1)) cl scl).
          { eapply clo_rel_mono; [apply (p_sub _ _ _ _ _ P1)|apply (p_len _ _ _ _ _ P1)|exact CR]. }
          apply (call_clo_body n cl scl (binds ++ [(kwx, d)]) r1 s1 t1 IHe IHx G1 CR1).
          intros b Hb. apply in_app_or in Hb. destruct Hb as [Hb|[<-|[]]]; [auto|]. apply has_kwargs_In. exact Ek.
        * destruct rest_named; [|apply sim_fail; [exact G|exact Logic.I]].
          unfold bind at 1. unfold sbind at 1. cbn [ret sret].
          apply (call_clo_body n cl scl (binds ++ []) r s t IHe IHx G CR).
          intros b Hb. rewrite app_nil_r in Hb. auto.
      + destruct (nth_error (sclos t) c) as [scl|] eqn:Escl.
        { exfalso. apply nth_error_None in Ecl. assert (c < length (sclos t)) by (apply nth_error_Some; congruence).
          rewrite (g_clen _ _ _ G) in Ecl. lia. }
        cbn. split; [reflexivity|]. split; [reflexivity|]. apply (g_out _ _ _ G).
    - (* a builtin *)
      destruct (String.eqb b "sorted" && match named with [] => false | _ :: _ => true end).
      + destruct (forallb _ named); [|apply sim_fail].
        destruct pos as [|v [|? ?]]; try apply sim_fail.
        apply sim_bind; [apply okC|apply sim_lift; [apply okC|apply pure_iter_elems]|]. intros xs.
        apply sim_bind; [apply okC| |].
        * destruct (assoc_str "key" named) as [[]|]; try (apply sim_ret; apply okC);
            (apply sim_mapM; [apply okC|]; intros x; apply IHc).
        * intros ks. apply sim_lift; [apply okC|]. apply pure_sorted_tail.
      + apply sim_lift; [apply okC|]. apply pure_call_builtin.
  Qed.
End Step.

Theorem sim_all : forall n, simE n /\ simC n /\ simX n.
Proof.
  induction n as [|n (IHe & IHc & IHx)].
  - split; [|split].
    + intros sc k e e' k' en _ r s t _ _. exact Logic.I.
    + intros f pos named r s t _ _. exact Logic.I.
    + intros sc k st st' k' en _ r s t _ _. exact Logic.I.
  - split; [apply step_expr|split; [apply step_call|apply step_stmt]]; assumption.
Qed.

Lemma sim_block fuel sc k ss ss' k' en :
  omapS (cstmtT sc) k ss = Some (ss', k') -> simF en sc (run_block (exec fuel en) ss) (srun_block (sexec fuel) ss').
Proof. destruct (sim_all fuel) as (IHe & IHc & IHx). apply sX_block. exact IHx. Qed.

End Sim.

(* ================================================================================================================ *)
(* whole programs *)
Definition no_rho : rho := fun _ _ => False.

Lemma lookup_seq_some x names new m k : map fst new = names -> map snd new = seq k m -> In x names ->
  exists a, lookup x new = Some a /\ k <= a < k + m.
Proof.
  intros Hf Hs Hin. pose proof (lookup_new x new names Hf) as Hl. destruct (sidx x names) eqn:E.
  - destruct Hl as (a & La & Ha). exists a. split; [exact La|]. rewrite Hs in Ha. apply in_seq in Ha. exact Ha.
  - apply sidx_none in E. contradiction.
Qed.

(* The simulation theorem.  For every program the strict resolver accepts (every name resolves, no lambda
   captures a comprehension variable), the slot machine and the reference interpreter produce the same
   transcript and the same outcome with the same fuel, unless the reference run fails with `Unbound`
   (a variable read before its first assignment: the machine may then see the stale content of a
   comprehension slot, see ex_compr_stale_slot in SlotSem.v). *)
Theorem slots_sim_strict : forall fuel prog sp,
  resolve_prog_strict prog = Some sp ->
  (forall ln, snd (run_program fuel prog) <> Failed Unbound ln) ->
  run_slot_program fuel sp = run_program fuel prog.
Proof.
  intros fuel prog sp Hres Hnu. unfold resolve_prog_strict, resolve_prog_gen in Hres.
  destruct (omapS (cstmt true (module_names prog) module_scope) 0 prog) as [[body k]|] eqn:Ec; [|discriminate].
  inversion Hres; subst sp. clear Hres.
  unfold run_program in *. unfold run_slot_program. cbn [sp_body].
  set (names := Sem.dedup (body_names prog)) in *. set (mods := module_names prog) in *.
  destruct (alloc_cells_spec names empty_state) as (genv & Ea & Hf & Hs). cbn [cells empty_state length] in Hs.
  unfold bind in *. rewrite Ea in *.
  set (s0 := {| lists := lists empty_state; dicts := dicts empty_state; cells := cells empty_state ++ repeat None (length names);
                clos := clos empty_state; out := out empty_state |}) in *.
  set (t0 := init_sstate {| sp_mods := mods; sp_nslots := k; sp_body := body |}).
  assert (Hnd : NoDup (map snd genv)) by (rewrite Hs; apply seq_NoDup).
  assert (Hin : forall x, In x mods <-> In x names).
  { intros x. unfold mods, names. rewrite Proofs.module_names_spec, sem_dedup_In. tauto. }
  assert (Hgm : forall x, sidx x mods = None -> lookup x genv = None).
  { intros x E. apply lookup_none_notin. rewrite Hf. intros H. apply Hin in H. apply sidx_none in E. contradiction. }
  assert (G0 : GInv genv mods no_rho s0 t0).
  { constructor; try reflexivity; try (intros; contradiction).
    - intros a Ha. rewrite Hs in Ha. apply in_seq in Ha. cbn [s0 cells empty_state app]. rewrite repeat_length. lia.
    - intros x j Ej. assert (Hx : In x names) by (apply Hin; apply sidx_nth in Ej; eapply nth_error_In; eauto).
      destruct (lookup_seq_some x names genv _ _ Hf Hs Hx) as (a & La & Ha). exists a, None. split; [exact La|]. split.
      + cbn [s0 cells empty_state app]. apply nth_error_repeat. lia.
      + cbn [t0 init_sstate smods sp_mods]. apply nth_error_repeat. eapply sidx_lt; eauto.
    - intros c cl scl H. destruct c; discriminate. }
  assert (F0 : FrameRel genv genv module_scope no_rho s0 t0).
  { constructor.
    - exact Hnd.
    - intros a Ha. rewrite Hs in Ha. apply in_seq in Ha. cbn [s0 cells empty_state app]. rewrite repeat_length. lia.
    - intros x y i k0 k1 H. discriminate.
    - intros x. cbn. reflexivity. }
  pose proof (sim_block genv mods Hnd Hgm fuel module_scope 0 prog body k genv Ec no_rho s0 t0 G0 F0) as H.
  unfold rres in H. fold t0.
  destruct (run_block (exec fuel genv) prog s0) as [c s1|e l s1|].
  - destruct (srun_block (sexec fuel) body t0) as [c' t1|?|]; try contradiction.
    destruct H as [_ (r1 & G1 & _)]. rewrite (g_out _ _ _ _ _ G1). reflexivity.
  - destruct (is_unbound e) eqn:Eu.
    + destruct e; try discriminate. exfalso. apply (Hnu l). reflexivity.
    + destruct (srun_block (sexec fuel) body t0) as [|e' l' t1|]; try contradiction.
      destruct H as (<- & <- & Ho). rewrite Ho. reflexivity.
  - destruct (srun_block (sexec fuel) body t0); try contradiction. reflexivity.
Qed.

(* ================================================================================================================ *)
(* the strict resolver only refuses more programs: what it produces is what the compiler's resolver produces *)
Section ExprInd.
  Variables (P : expr -> Prop) (PC : clause -> Prop) (PP : param -> Prop) (PT : target -> Prop).
  Definition optP (o : option expr) : Prop := match o with Some e => P e | None => True end.
  Hypothesis HNone : P ENone.
  Hypothesis HBool : forall b, P (EBool b).
  Hypothesis HInt : forall z, P (EInt z).
  Hypothesis HStr : forall s, P (EStr s).
  Hypothesis HVar : forall x, P (EVar x).
  Hypothesis HTuple : forall es, Forall P es -> P (ETuple es).
  Hypothesis HList : forall es, Forall P es -> P (EList es).
  Hypothesis HDict : forall kvs, Forall (fun kv => P (fst kv) /\ P (snd kv)) kvs -> P (EDict kvs).
  Hypothesis HUn : forall o a, P a -> P (EUn o a).
  Hypothesis HBin : forall o a b, P a -> P b -> P (EBin o a b).
  Hypothesis HAnd : forall a b, P a -> P b -> P (EAnd a b).
  Hypothesis HOr : forall a b, P a -> P b -> P (EOr a b).
  Hypothesis HIf : forall c t f, P c -> P t -> P f -> P (EIf c t f).
  Hypothesis HIndex : forall a b, P a -> P b -> P (EIndex a b).
  Hypothesis HSlice : forall a lo hi st, P a -> optP lo -> optP hi -> optP st -> P (ESlice a lo hi st).
  Hypothesis HCall : forall f args kwargs star dstar, P f -> Forall P args -> Forall (fun kv => P (snd kv)) kwargs ->
                       optP star -> optP dstar -> P (ECall f args kwargs star dstar).
  Hypothesis HMeth : forall r m args kwargs, P r -> Forall P args -> Forall (fun kv => P (snd kv)) kwargs -> P (EMeth r m args kwargs).
  Hypothesis HLambda : forall ps body, Forall PP ps -> P body -> P (ELambda ps body).
  Hypothesis HListComp : forall e cls, P e -> Forall PC cls -> P (EListComp e cls).
  Hypothesis HDictComp : forall k v cls, P k -> P v -> Forall PC cls -> P (EDictComp k v cls).
  Hypothesis HCFor : forall t e, PT t -> P e -> PC (CFor t e).
  Hypothesis HCIf : forall e, P e -> PC (CIf e).
  Hypothesis HPNormal : forall x d, optP d -> PP (PNormal x d).
  Hypothesis HPArgs : forall x, PP (PArgs x).
  Hypothesis HPKwargs : forall x, PP (PKwargs x).
  Hypothesis HTVar : forall x, PT (TVar x).
  Hypothesis HTTuple : forall ts, Forall PT ts -> PT (TTuple ts).
  Hypothesis HTIndex : forall a i, P a -> P i -> PT (TIndex a i).

  Fixpoint expr_ind' (e : expr) : P e :=
    let fl := fix fl (l : list expr) : Forall P l :=
                match l with [] => Forall_nil _ | x :: r => Forall_cons x (expr_ind' x) (fl r) end in
    let fkw := fix fkw (l : list (string * expr)) : Forall (fun kv => P (snd kv)) l :=
                 match l with [] => Forall_nil _ | x :: r => Forall_cons x (expr_ind' (snd x)) (fkw r) end in
    let fo := fun (o : option expr) => match o return optP o with Some x => expr_ind' x | None => Logic.I end in
    let fc := fix fc (l : list clause) : Forall PC l :=
                match l with [] => Forall_nil _ | x :: r => Forall_cons x (clause_ind' x) (fc r) end in
    match e with
    | ENone => HNone | EBool b => HBool b | EInt z => HInt z | EStr s => HStr s | EVar x => HVar x
    | ETuple es => HTuple es (fl es)
    | EList es => HList es (fl es)
    | EDict kvs => HDict kvs ((fix fd (l : list (expr * expr)) : Forall (fun kv => P (fst kv) /\ P (snd kv)) l :=
                                 match l with [] => Forall_nil _
                                 | x :: r => Forall_cons x (conj (expr_ind' (fst x)) (expr_ind' (snd x))) (fd r) end) kvs)
    | EUn o a => HUn o a (expr_ind' a)
    | EBin o a b => HBin o a b (expr_ind' a) (expr_ind' b)
    | EAnd a b => HAnd a b (expr_ind' a) (expr_ind' b)
    | EOr a b => HOr a b (expr_ind' a) (expr_ind' b)
    | EIf c t f => HIf c t f (expr_ind' c) (expr_ind' t) (expr_ind' f)
    | EIndex a b => HIndex a b (expr_ind' a) (expr_ind' b)
    | ESlice a lo hi st => HSlice a lo hi st (expr_ind' a) (fo lo) (fo hi) (fo st)
    | ECall f args kwargs star dstar => HCall f args kwargs star dstar (expr_ind' f) (fl args) (fkw kwargs) (fo star) (fo dstar)
    | EMeth r m args kwargs => HMeth r m args kwargs (expr_ind' r) (fl args) (fkw kwargs)
    | ELambda ps body => HLambda ps body ((fix fp (l : list param) : Forall PP l :=
                                             match l with [] => Forall_nil _ | x :: r => Forall_cons x (param_ind' x) (fp r) end) ps)
                                 (expr_ind' body)
    | EListComp e cls => HListComp e cls (expr_ind' e) (fc cls)
    | EDictComp k v cls => HDictComp k v cls (expr_ind' k) (expr_ind' v) (fc cls)
    end
  with clause_ind' (c : clause) : PC c :=
    match c with
    | CFor t e => HCFor t e (target_ind'' t) (expr_ind' e)
    | CIf e => HCIf e (expr_ind' e)
    end
  with param_ind' (p : param) : PP p :=
    match p with
    | PNormal x d => HPNormal x d (match d return optP d with Some e => expr_ind' e | None => Logic.I end)
    | PArgs x => HPArgs x
    | PKwargs x => HPKwargs x
    end
  with target_ind'' (t : target) : PT t :=
    match t with
    | TVar x => HTVar x
    | TTuple ts => HTTuple ts ((fix ft (l : list target) : Forall PT l :=
                                  match l with [] => Forall_nil _ | x :: r => Forall_cons x (target_ind'' x) (ft r) end) ts)
    | TIndex a i => HTIndex a i (expr_ind' a) (expr_ind' i)
    end.
End ExprInd.

Section StmtInd'.
  Variable P : stmt -> Prop.
  Hypothesis H_if : forall ln c th el, Forall P th -> Forall P el -> P (SIf ln c th el).
  Hypothesis H_for : forall ln t e body, Forall P body -> P (SFor ln t e body).
  Hypothesis H_def : forall ln name ps body, Forall P body -> P (SDef ln name ps body).
  Hypothesis H_other : forall s, match s with SIf _ _ _ _ | SFor _ _ _ _ | SDef _ _ _ _ => False | _ => True end -> P s.
  Fixpoint stmt_ind' (s : stmt) : P s :=
    let G := fix G (l : list stmt) : Forall P l :=
               match l with [] => Forall_nil P | a :: r => Forall_cons a (stmt_ind' a) (G r) end in
    match s with
    | SIf ln c th el => H_if ln c th el (G th) (G el)
    | SFor ln t e body => H_for ln t e body (G body)
    | SDef ln name ps body => H_def ln name ps body (G body)
    | SExpr ln e => H_other (SExpr ln e) Logic.I
    | SAssign ln t e => H_other (SAssign ln t e) Logic.I
    | SAug ln t o e => H_other (SAug ln t o e) Logic.I
    | SBreak ln => H_other (SBreak ln) Logic.I
    | SContinue ln => H_other (SContinue ln) Logic.I
    | SReturn ln e => H_other (SReturn ln e) Logic.I
    | SPass ln => H_other (SPass ln) Logic.I
    end.
End StmtInd'.

Section StrictMono.
  Variable mods : list string.
  Notation cT := (cexpr true mods).
  Notation cF := (cexpr false mods).

  Lemma omapS_mono {X Y} (f g : scope -> nat -> X -> option (Y * nat)) l sc :
    Forall (fun x => forall sc k r, f sc k x = Some r -> g sc k x = Some r) l ->
    forall k r, omapS (f sc) k l = Some r -> omapS (g sc) k l = Some r.
  Proof.
    intros F. induction F as [|x l Hx _ IH]; intros k r H; cbn [omapS] in *; [exact H|].
    destruct (f sc k x) as [[y k1]|] eqn:E; [|discriminate]. rewrite (Hx _ _ _ E).
    destruct (omapS (f sc) k1 l) as [[ys k2]|] eqn:E2; [|discriminate]. rewrite (IH _ _ E2). exact H.
  Qed.

  Lemma kw_mono (l : list (string * expr)) sc :
    Forall (fun kv => forall sc k r, cT sc k (snd kv) = Some r -> cF sc k (snd kv) = Some r) l ->
    forall k r,
      omapS (fun k kv => match cT sc k (snd kv) with Some (v, k') => Some ((fst kv, v), k') | None => None end) k l = Some r ->
      omapS (fun k kv => match cF sc k (snd kv) with Some (v, k') => Some ((fst kv, v), k') | None => None end) k l = Some r.
  Proof.
    intros F. induction F as [|x l Hx _ IH]; intros k r H; cbn [omapS] in *; [exact H|].
    destruct (cT sc k (snd x)) as [[y k1]|] eqn:E; [|discriminate]. rewrite (Hx _ _ _ E).
    match type of H with match ?o with _ => _ end = _ => destruct o as [[ys k2]|] eqn:E2; [|discriminate] end.
    rewrite (IH _ _ E2). exact H.
  Qed.

  Lemma dict_mono (l : list (expr * expr)) sc :
    Forall (fun kv => (forall sc k r, cT sc k (fst kv) = Some r -> cF sc k (fst kv) = Some r) /\
                      (forall sc k r, cT sc k (snd kv) = Some r -> cF sc k (snd kv) = Some r)) l ->
    forall k r,
      omapS (fun k kv => match cT sc k (fst kv) with
                         | Some (a, k1) => match cT sc k1 (snd kv) with Some (b, k2) => Some ((a, b), k2) | None => None end
                         | None => None end) k l = Some r ->
      omapS (fun k kv => match cF sc k (fst kv) with
                         | Some (a, k1) => match cF sc k1 (snd kv) with Some (b, k2) => Some ((a, b), k2) | None => None end
                         | None => None end) k l = Some r.
  Proof.
    intros F. induction F as [|x l [Hx1 Hx2] _ IH]; intros k r H; cbn [omapS] in *; [exact H|].
    destruct (cT sc k (fst x)) as [[a k1]|] eqn:E; [|discriminate]. rewrite (Hx1 _ _ _ E).
    destruct (cT sc k1 (snd x)) as [[b k2]|] eqn:E1; [|discriminate]. rewrite (Hx2 _ _ _ E1).
    match type of H with match ?o with _ => _ end = _ => destruct o as [[ys k3]|] eqn:E2; [|discriminate] end.
    rewrite (IH _ _ E2). exact H.
  Qed.

  Lemma copt_mono o sc :
    match o with Some e => forall sc k r, cT sc k e = Some r -> cF sc k e = Some r | None => True end ->
    forall k r, copt (cT sc) k o = Some r -> copt (cF sc) k o = Some r.
  Proof.
    destruct o as [e|]; intros Ho k r H; cbn [copt] in *; [|exact H].
    destruct (cT sc k e) as [[e' k1]|] eqn:E; [|discriminate]. rewrite (Ho _ _ _ E). exact H.
  Qed.

  Lemma compr_scope_mono sc k names capt r :
    compr_scope true sc k names capt = Some r -> compr_scope false sc k names capt = Some r.
  Proof. unfold compr_scope. cbn [andb]. destruct (existsb capt names); [discriminate|auto]. Qed.

  Ltac conv E :=
    first [ apply compr_scope_mono in E
          | eapply omapS_mono in E; [|eassumption]
          | eapply kw_mono in E; [|eassumption]
          | eapply dict_mono in E; [|eassumption]
          | eapply copt_mono in E; [|eassumption]
          | match goal with IH : _ |- _ => apply IH in E end ].
  Ltac mono H :=
    cbv zeta in H |- *;
    repeat match type of H with
           | match ?x with Some _ => _ | None => _ end = Some _ =>
               let E := fresh "E" in
               destruct x as [?|] eqn:E; [|discriminate H];
               repeat match goal with q : (_ * _)%type |- _ => destruct q end;
               try (conv E; rewrite E)
           | (if ?b then _ else _) = Some _ => destruct b; [|discriminate H]
           end;
    exact H.

  Definition PCm (c : clause) : Prop :=
    match c with
    | CFor t e => (forall sc k r, ctarget true mods sc k t = Some r -> ctarget false mods sc k t = Some r) /\
                  (forall sc k r, cT sc k e = Some r -> cF sc k e = Some r)
    | CIf e => forall sc k r, cT sc k e = Some r -> cF sc k e = Some r
    end.
  Lemma clause_mono c : PCm c -> forall sc k r, cclause true mods sc k c = Some r -> cclause false mods sc k c = Some r.
  Proof.
    destruct c as [t e|e]; cbn [PCm].
    - intros [Ht He] sc k r Hc. rewrite cc_CFor in *. mono Hc.
    - intros He sc k r Hc. rewrite cc_CIf in *. mono Hc.
  Qed.

  Lemma strict_expr e : forall sc k r, cT sc k e = Some r -> cF sc k e = Some r.
  Proof.
    induction e using expr_ind' with
      (PC := PCm)
      (PP := fun p => forall sc k r, cparam true mods sc k p = Some r -> cparam false mods sc k p = Some r)
      (PT := fun t => forall sc k r, ctarget true mods sc k t = Some r -> ctarget false mods sc k t = Some r);
      try (intros sc0 k0 r0 Hc).
    - exact Hc.
    - exact Hc.
    - exact Hc.
    - exact Hc.
    - exact Hc.
    - rewrite ce_ETuple in *. mono Hc.
    - rewrite ce_EList in *. mono Hc.
    - rewrite ce_EDict in *. mono Hc.
    - rewrite ce_EUn in *. mono Hc.
    - rewrite ce_EBin in *. mono Hc.
    - rewrite ce_EAnd in *. mono Hc.
    - rewrite ce_EOr in *. mono Hc.
    - rewrite ce_EIf in *. mono Hc.
    - rewrite ce_EIndex in *. mono Hc.
    - rewrite ce_ESlice in *. mono Hc.
    - rewrite ce_ECall in *. mono Hc.
    - rewrite ce_EMeth in *. mono Hc.
    - rewrite ce_ELambda in *. mono Hc.
    - rewrite ce_EListComp in *. destruct cls as [|[t0 e0|c0] rr]; try discriminate.
      match goal with F : Forall _ (_ :: _) |- _ => inversion F as [|? ? Hc0 Hr0]; subst end. cbn [PCm] in Hc0. destruct Hc0 as [Ht0 He0].
      assert (Hr1 : Forall (fun c => forall sc k r, cclause true mods sc k c = Some r -> cclause false mods sc k c = Some r) rr)
        by (eapply Forall_impl; [|exact Hr0]; apply clause_mono).
      mono Hc.
    - rewrite ce_EDictComp in *. destruct cls as [|[t0 e0|c0] rr]; try discriminate.
      match goal with F : Forall _ (_ :: _) |- _ => inversion F as [|? ? Hc0 Hr0]; subst end. cbn [PCm] in Hc0. destruct Hc0 as [Ht0 He0].
      assert (Hr1 : Forall (fun c => forall sc k r, cclause true mods sc k c = Some r -> cclause false mods sc k c = Some r) rr)
        by (eapply Forall_impl; [|exact Hr0]; apply clause_mono).
      mono Hc.
    - cbn [PCm]. split; assumption.
    - auto.
    - rewrite cp_eq in *. destruct d as [d|]; [|exact Hc]. cbn [optP] in *. mono Hc.
    - exact Hc.
    - exact Hc.
    - exact Hc.
    - rewrite ct_TTuple in *. mono Hc.
    - rewrite ct_TIndex in *. mono Hc.
  Qed.
  Lemma param_mono p : forall sc k r, cparam true mods sc k p = Some r -> cparam false mods sc k p = Some r.
  Proof.
    intros sc k r H. rewrite cp_eq in *. destruct p as [x [d|]|x|x]; try exact H.
    destruct (cT sc k d) as [[d' k1]|] eqn:E; [|discriminate]. rewrite (strict_expr _ _ _ _ E). exact H.
  Qed.
  Lemma target_mono t : forall sc k r, ctarget true mods sc k t = Some r -> ctarget false mods sc k t = Some r.
  Proof.
    induction t as [x|ts IH|a i] using target_ind'; intros sc k r H.
    - exact H.
    - rewrite ct_TTuple in *. mono H.
    - rewrite ct_TIndex in *. pose proof strict_expr as Hse. mono H.
  Qed.

  Lemma strict_stmt st : forall sc k r, cstmt true mods sc k st = Some r -> cstmt false mods sc k st = Some r.
  Proof.
    pose proof strict_expr as Hse. pose proof target_mono as Htm.
    assert (Hpm : forall ps, Forall (fun p => forall sc k r, cparam true mods sc k p = Some r -> cparam false mods sc k p = Some r) ps)
      by (intros ps; apply Forall_forall; intros p _; apply param_mono).
    induction st as [ln c th el IHth IHel|ln t e body IHb|ln name ps body IHb|st Hst] using stmt_ind'; intros sc k r H.
    - cbn [cstmt] in *. mono H.
    - cbn [cstmt] in *. mono H.
    - cbn [cstmt] in *. pose proof (Hpm ps) as Hps. mono H.
    - destruct st; try contradiction; cbn [cstmt] in *; try exact H; try (mono H).
      destruct e; [mono H|exact H].
  Qed.

End StrictMono.

Lemma strict_prog prog sp : resolve_prog_strict prog = Some sp -> resolve_prog prog = Some sp.
Proof.
  unfold resolve_prog_strict, resolve_prog, resolve_prog_gen.
  destruct (omapS (cstmt true (module_names prog) module_scope) 0 prog) as [[body k]|] eqn:E; [|discriminate].
  intros H.
  assert (E' : omapS (cstmt false (module_names prog) module_scope) 0 prog = Some (body, k)).
  { eapply (omapS_mono (cstmt true (module_names prog)) (cstmt false (module_names prog))); [|exact E].
    apply Forall_forall. intros st _. apply strict_stmt. }
  rewrite E'. exact H.
Qed.

(* the simulation theorem in terms of the compiler's resolver and the boolean fragment predicate *)
Theorem slots_sim_partial : forall fuel prog sp,
  resolve_prog prog = Some sp ->
  compr_vars_uncaptured prog = true ->
  (forall ln, snd (run_program fuel prog) <> Failed Unbound ln) ->
  run_slot_program fuel sp = run_program fuel prog.
Proof.
  intros fuel prog sp Hr Hc Hnu. unfold compr_vars_uncaptured in Hc.
  destruct (resolve_prog_strict prog) as [sp'|] eqn:Es; [|discriminate].
  pose proof (strict_prog _ _ Es) as Hr'. assert (sp' = sp) by congruence. subst sp'.
  apply slots_sim_strict; assumption.
Qed.

(* The statement without the two restrictions is FALSE for this machine (which keeps the cell / the stale value
   of a comprehension variable in its frame slot, as eval/runtime/evaluator.rs does):
     forall fuel prog sp, resolve_prog prog = Some sp -> run_slot_program fuel sp = run_program fuel prog.   (slots_sim)
   The witnesses are SlotSem.ex_compr_cell_shared (a lambda captures a comprehension variable; neither run fails) and
   SlotSem.ex_compr_stale_slot (the reference fails with Unbound, the machine reads the stale slot). *)
Theorem slots_sim_refuted :
  exists fuel prog sp, resolve_prog prog = Some sp /\
    (forall ln, snd (run_program fuel prog) <> Failed Unbound ln) /\
    run_slot_program fuel sp <> run_program fuel prog.
Proof.
  exists 60, ex_compr_cell_shared.
  destruct (resolve_prog ex_compr_cell_shared) as [sp|] eqn:E; [|vm_compute in E; discriminate E].
  exists sp. split; [reflexivity|]. split.
  - rewrite ex_compr_cell_shared_ref. cbn. discriminate.
  - pose proof ex_compr_cell_shared_slots as H. unfold run_resolved in H. rewrite E in H. cbn [option_map] in H.
    injection H as H1. rewrite H1, ex_compr_cell_shared_ref. discriminate.
Qed.

Theorem slots_sim_unbound_needed :
  exists fuel prog sp, resolve_prog prog = Some sp /\ compr_vars_uncaptured prog = true /\
    run_slot_program fuel sp <> run_program fuel prog.
Proof.
  exists 60, ex_compr_stale_slot.
  destruct (resolve_prog ex_compr_stale_slot) as [sp|] eqn:E; [|vm_compute in E; discriminate E].
  exists sp. split; [reflexivity|]. split; [vm_compute; reflexivity|].
  pose proof ex_compr_stale_slot_slots as H. unfold run_resolved in H. rewrite E in H. cbn [option_map] in H.
  injection H as H1. rewrite H1, ex_compr_stale_slot_ref. discriminate.
Qed.

(* the theorem applies to the test programs of SlotSem.v *)
Example slots_sim_applies_capture_loop : compr_vars_uncaptured ex_capture_loop = true.
Proof. vm_compute. reflexivity. Qed.
Example slots_sim_applies_compr_shadow : compr_vars_uncaptured ex_compr_shadow = true.
Proof. vm_compute. reflexivity. Qed.
Example slots_sim_applies_recursion : compr_vars_uncaptured ex_recursion = true.
Proof. vm_compute. reflexivity. Qed.

(* Reproduction on the real evaluator (harness/src/bin/eval.rs, Dialect::AllOptionsInternal, unchanged /repo):
     ex_compr_cell_shared  -> transcript ["[i1,i1]"]      (reference and Python: [0, 1])
     ex_compr_stale_slot   -> transcript ["[[i2],[i2]]"]  (reference and Python: the second evaluation fails, b is unbound)
     ex_capture_loop, ex_compr_shadow, ex_recursion (without its failing last lines) -> the transcripts of the reference.
   The same two programs at module level (without the enclosing def) behave the same way: the comprehension variables then
   live in the slots of the module's own frame. *)
