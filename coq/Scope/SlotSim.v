(* C01: the slot machine of Scope/SlotSem.v simulates the reference interpreter Core/Sem.v.
   Part A: every value-level operation of Core reads and writes only lists / dicts / transcript.
   Part B: the state relation and the generic simulation lemmas.
   Part C: variables, targets, comprehension scopes, closures, calls.
   Part D: the simulation by induction on the fuel; whole programs. *)
From Coq Require Import ZArith String List Bool Arith Lia.
From SV Require Import Core.Syntax Core.Values Core.Slice Core.Sem Core.SemProofs Scope.Tree.
From SV Require Scope.Proofs.
From SV Require Import Scope.SlotSyntax Scope.SlotSem.
Import ListNotations.
Local Open Scope nat_scope.
Local Open Scope slot_scope.

(* ================================================================================================================ *)
(* Part A *)
Definition sw (c : list (option value)) (k : list closure) (s : state) : state :=
  {| lists := lists s; dicts := dicts s; cells := c; clos := k; out := out s |}.
Definition rmap {A} (f : state -> state) (r : res A) : res A :=
  match r with Ok a s => Ok a (f s) | Fail e l s => Fail e l (f s) | OutOfFuel => OutOfFuel end.
(* the operation commutes with replacing the cells and the closures *)
Definition pure_op {A} (m : M A) : Prop := forall c k s, m (sw c k s) = rmap (sw c k) (m s).

Lemma sw_id s : sw (cells s) (clos s) s = s.
Proof. destruct s; reflexivity. Qed.
Lemma sw_sw c k c' k' s : sw c k (sw c' k' s) = sw c k s.
Proof. reflexivity. Qed.

Lemma forall2b_ext {A} (f g : A -> A -> bool) l1 l2 : (forall x y, f x y = g x y) -> forall2b f l1 l2 = forall2b g l1 l2.
Proof. intros H. revert l2. induction l1 as [|x xs IH]; intros [|y ys]; cbn; auto. rewrite H, IH. reflexivity. Qed.
Lemma lex_cmp_ext {A} (f g : A -> A -> option comparison) l1 l2 : (forall x y, f x y = g x y) -> lex_cmp f l1 l2 = lex_cmp g l1 l2.
Proof. intros H. revert l2. induction l1 as [|x xs IH]; intros [|y ys]; cbn; auto. rewrite H, IH. reflexivity. Qed.
Lemma forallb_ext' {A} (f g : A -> bool) l : (forall x, f x = g x) -> forallb f l = forallb g l.
Proof. intros H. induction l; cbn; auto. rewrite H, IHl. reflexivity. Qed.
Lemma existsb_ext' {A} (f g : A -> bool) l : (forall x, f x = g x) -> existsb f l = existsb g l.
Proof. intros H. induction l; cbn; auto. rewrite H, IHl. reflexivity. Qed.

Section SwFuns.
  Variables (c : list (option value)) (k : list closure) (s : state).
  Notation s' := (sw c k s).

  Lemma truth_sw v : truth s' v = truth s v.
  Proof. destruct v; reflexivity. Qed.
  Lemma obs_of_sw n v : obs_of n s' v = obs_of n s v.
  Proof.
    revert v. induction n as [|n IH]; intros v; [reflexivity|]. destruct v; cbn [obs_of]; try reflexivity.
    - f_equal. apply map_ext. exact IH.
    - cbn [lists sw]. destruct (nth_error (lists s) a) as [[l ?]|]; [|reflexivity]. f_equal. apply map_ext. exact IH.
    - cbn [dicts sw]. destruct (nth_error (dicts s) a) as [[l ?]|]; [|reflexivity]. f_equal. apply map_ext.
      intros kv. rewrite !IH. reflexivity.
  Qed.
  Lemma veq_sw n a b : veq n s' a b = veq n s a b.
  Proof.
    revert a b. induction n as [|n IH]; intros a b; [reflexivity|]. destruct a, b; cbn [veq]; try reflexivity.
    - apply forall2b_ext. exact IH.
    - cbn [lists sw]. destruct (Nat.eqb a a0); [reflexivity|].
      destruct (nth_error (lists s) a) as [[l1 ?]|], (nth_error (lists s) a0) as [[l2 ?]|]; try reflexivity.
      apply forall2b_ext. exact IH.
    - cbn [dicts sw]. destruct (Nat.eqb a a0); [reflexivity|].
      destruct (nth_error (dicts s) a) as [[l1 ?]|], (nth_error (dicts s) a0) as [[l2 ?]|]; try reflexivity.
      f_equal. apply forallb_ext'. intros kv. apply existsb_ext'. intros kv'. rewrite !IH. reflexivity.
  Qed.
  Lemma vcmp_sw n a b : vcmp n s' a b = vcmp n s a b.
  Proof.
    revert a b. induction n as [|n IH]; intros a b; [reflexivity|]. destruct a, b; cbn [vcmp]; try reflexivity.
    - apply lex_cmp_ext. exact IH.
    - cbn [lists sw]. destruct (nth_error (lists s) a) as [[l1 ?]|], (nth_error (lists s) a0) as [[l2 ?]|]; try reflexivity.
      apply lex_cmp_ext. exact IH.
  Qed.
  Lemma veqd_sw a b : veq depth s' a b = veq depth s a b.
  Proof. apply veq_sw. Qed.
  Lemma vcmpd_sw a b : vcmp depth s' a b = vcmp depth s a b.
  Proof. apply vcmp_sw. Qed.
  Lemma obsd_sw v : obs_of depth s' v = obs_of depth s v.
  Proof. apply obs_of_sw. Qed.
  Lemma memb_sw x l : memb s' x l = memb s x l.
  Proof. induction l as [|y l IH]; cbn [memb]; [reflexivity|]. rewrite (veqd_sw x y), IH. reflexivity. Qed.
  Lemma dict_get_sw d x : dict_get s' d x = dict_get s d x.
  Proof. induction d as [|[k' v] d IH]; cbn [dict_get]; [reflexivity|]. rewrite (veqd_sw x k'), IH. reflexivity. Qed.
  Lemma dict_set_sw d x v : dict_set s' d x v = dict_set s d x v.
  Proof. induction d as [|[k' v'] d IH]; cbn [dict_set]; [reflexivity|]. rewrite (veqd_sw x k'), IH. reflexivity. Qed.
  Lemma dict_del_sw d x : dict_del s' d x = dict_del s d x.
  Proof. induction d as [|[k' v'] d IH]; cbn [dict_del]; [reflexivity|]. rewrite (veqd_sw x k'), IH. reflexivity. Qed.
  Lemma dict_update_sw kvs : forall d, dict_update s' d kvs = dict_update s d kvs.
  Proof. induction kvs as [|[k' v'] kvs IH]; intros d; cbn [dict_update]; [reflexivity|]. rewrite dict_set_sw, IH. reflexivity. Qed.
  Lemma insert_sorted_sw x l : insert_sorted s' x l = insert_sorted s x l.
  Proof. induction l as [|y l IH]; cbn [insert_sorted]; [reflexivity|]. rewrite (vcmpd_sw x y), IH. reflexivity. Qed.
  Lemma sort_values_sw l : sort_values s' l = sort_values s l.
  Proof. induction l as [|y l IH]; cbn [sort_values]; [reflexivity|]. rewrite IH. destruct (sort_values s l); [|reflexivity]. apply insert_sorted_sw. Qed.
  Lemma insert_pair_sw p l : insert_pair s' p l = insert_pair s p l.
  Proof. induction l as [|y l IH]; cbn [insert_pair]; [reflexivity|]. rewrite (vcmpd_sw (fst p) (fst y)), IH. reflexivity. Qed.
  Lemma sort_pairs_sw l : sort_pairs s' l = sort_pairs s l.
  Proof. induction l as [|y l IH]; cbn [sort_pairs]; [reflexivity|]. rewrite IH. destruct (sort_pairs s l); [|reflexivity]. apply insert_pair_sw. Qed.
  Lemma sort_pairs_dir_sw b l : sort_pairs_dir s' b l = sort_pairs_dir s b l.
  Proof. unfold sort_pairs_dir. rewrite !sort_pairs_sw. reflexivity. Qed.
  Lemma extremum_sw w l : forall b, extremum s' w b l = extremum s w b l.
  Proof. induction l as [|y l IH]; intros b; cbn [extremum]; [reflexivity|]. rewrite (vcmpd_sw y b). destruct (vcmp depth s y b); [|reflexivity]. apply IH. Qed.
  Lemma remove_first_sw x l : remove_first s' x l = remove_first s x l.
  Proof. induction l as [|y l IH]; cbn [remove_first]; [reflexivity|]. rewrite (veqd_sw x y), IH. reflexivity. Qed.
  Lemma index_of_sw x l : forall i, Sem.index_of s' x l i = Sem.index_of s x l i.
  Proof. induction l as [|y l IH]; intros i; cbn [Sem.index_of]; [reflexivity|]. rewrite (veqd_sw x y), IH. reflexivity. Qed.
  Lemma map_obs_sw l : map (obs_of depth s') l = map (obs_of depth s) l.
  Proof. apply map_ext. apply obsd_sw. Qed.
  Lemma existsb_truth_sw l : existsb (truth s') l = existsb (truth s) l.
  Proof. apply existsb_ext'. apply truth_sw. Qed.
  Lemma forallb_truth_sw l : forallb (truth s') l = forallb (truth s) l.
  Proof. apply forallb_ext'. apply truth_sw. Qed.
End SwFuns.

Ltac sw_rw :=
  repeat first
    [ rewrite truth_sw | rewrite obsd_sw | rewrite veqd_sw | rewrite vcmpd_sw | rewrite memb_sw
    | rewrite dict_get_sw | rewrite dict_set_sw | rewrite dict_del_sw | rewrite dict_update_sw
    | rewrite sort_values_sw | rewrite sort_pairs_dir_sw | rewrite extremum_sw | rewrite remove_first_sw
    | rewrite index_of_sw | rewrite map_obs_sw | rewrite existsb_truth_sw | rewrite forallb_truth_sw ].

Lemma pure_ret {A} (a : A) : pure_op (ret a).
Proof. intros c k s. reflexivity. Qed.
Lemma pure_fail {A} e : pure_op (@fail A e).
Proof. intros c k s. reflexivity. Qed.
Lemma pure_bind {A B} (m : M A) (f : A -> M B) : pure_op m -> (forall a, pure_op (f a)) -> pure_op (bind m f).
Proof.
  intros Hm Hf c k s. unfold bind. rewrite Hm. destruct (m s) as [a s1|e l s1|]; cbn [rmap]; auto. apply Hf.
Qed.
Lemma pure_get_state {B} (f : state -> M B) :
  (forall s0, pure_op (f s0)) -> (forall c k s0 s1, f (sw c k s0) s1 = f s0 s1) -> pure_op (bind get_state f).
Proof. intros H1 H2 c k s. unfold bind, get_state. rewrite H2. apply H1. Qed.
Lemma pure_mapM {A B} (f : A -> M B) l : (forall x, pure_op (f x)) -> pure_op (mapM f l).
Proof.
  intros H. induction l as [|x xs IH]; cbn [mapM]; [apply pure_ret|].
  apply pure_bind; [apply H|]. intros y. apply pure_bind; [apply IH|]. intros ys. apply pure_ret.
Qed.
Lemma pure_get_list a : pure_op (get_list a).
Proof. intros c k s. unfold get_list. cbn [lists sw]. destruct (nth_error (lists s) a) as [[? ?]|]; reflexivity. Qed.
Lemma pure_get_dict a : pure_op (get_dict a).
Proof. intros c k s. unfold get_dict. cbn [dicts sw]. destruct (nth_error (dicts s) a) as [[? ?]|]; reflexivity. Qed.
Lemma pure_set_list a l : pure_op (set_list a l).
Proof. intros c k s. unfold set_list. cbn [lists sw]. destruct (nth_error (lists s) a) as [[? [|?]]|]; reflexivity. Qed.
Lemma pure_set_dict a l : pure_op (set_dict a l).
Proof. intros c k s. unfold set_dict. cbn [dicts sw]. destruct (nth_error (dicts s) a) as [[? [|?]]|]; reflexivity. Qed.
Lemma pure_set_list_elem a l : pure_op (set_list_elem a l).
Proof. intros c k s. unfold set_list_elem. cbn [lists sw]. destruct (nth_error (lists s) a) as [[? ?]|]; reflexivity. Qed.
Lemma pure_alloc_list l : pure_op (alloc_list l).
Proof. intros c k s. reflexivity. Qed.
Lemma pure_alloc_dict l : pure_op (alloc_dict l).
Proof. intros c k s. reflexivity. Qed.
Lemma pure_emit_obs o : pure_op (emit_obs o).
Proof. intros c k s. reflexivity. Qed.
Lemma pure_iter_lock v d : pure_op (iter_lock v d).
Proof.
  intros c k s. unfold iter_lock. destruct v; try reflexivity.
  - cbn [lists sw]. destruct (nth_error (lists s) a) as [[? ?]|]; reflexivity.
  - cbn [dicts sw]. destruct (nth_error (dicts s) a) as [[? ?]|]; reflexivity.
Qed.
Lemma pure_dict_keep d l : pure_op (fun st => match nth_error (dicts st) d with
                            | Some (_, c) => Ok tt {| lists := lists st; dicts := upd (dicts st) d (l, c);
                                                      cells := cells st; clos := clos st; out := out st |}
                            | None => Fail Unsupported None st end).
Proof. intros c k s. cbn [dicts sw]. destruct (nth_error (dicts s) d) as [[? ?]|]; reflexivity. Qed.

Ltac is_bool_term c := match type of c with bool => idtac end.

(* one structural step; `get_state` continuations are discharged by destructing until the state-dependent calls are
   closed terms, then rewriting with the _sw lemmas *)
Ltac pure_leaf :=
  first [ apply pure_ret | apply pure_fail | apply pure_get_list | apply pure_get_dict | apply pure_set_list
        | apply pure_set_dict | apply pure_set_list_elem | apply pure_alloc_list | apply pure_alloc_dict
        | apply pure_emit_obs | apply pure_iter_lock | apply pure_dict_keep ].
Ltac pure_eq :=
  intros;
  repeat match goal with
         | |- context [match ?x with _ => _ end] => is_var x; destruct x
         | |- context [if ?x then _ else _] => is_var x; destruct x
         end;
  sw_rw; try reflexivity.
Ltac pure_step :=
  match goal with
  | |- pure_op (bind get_state _) => apply pure_get_state; [intro | ]
  | |- pure_op (bind _ _) => apply pure_bind; [|intro]
  | |- pure_op (mapM _ _) => apply pure_mapM; intro
  | |- pure_op (match ?x with _ => _ end) => destruct x
  | |- pure_op (if ?x then _ else _) => destruct x
  | |- pure_op (let '(_, _) := ?x in _) => destruct x
  | |- pure_op _ => pure_leaf
  end.

Lemma pure_iter_elems v : pure_op (iter_elems v).
Proof. unfold iter_elems. repeat pure_step. Qed.
Lemma pure_check_hashable v : pure_op (check_hashable v).
Proof. unfold check_hashable. repeat pure_step. Qed.
Lemma pure_as_int v : pure_op (as_int v).
Proof. unfold as_int. repeat pure_step. Qed.
Lemma pure_veqM a b : pure_op (veqM a b).
Proof. unfold veqM. apply pure_get_state; [intro; apply pure_ret|]. intros. sw_rw. reflexivity. Qed.
Lemma pure_obs_list vs : pure_op (obs_list vs).
Proof. unfold obs_list. apply pure_get_state; [intro; apply pure_ret|]. intros. sw_rw. reflexivity. Qed.
Lemma pure_lift_sres r : pure_op (lift_sres r).
Proof. unfold lift_sres. repeat pure_step. Qed.
Lemma pure_truth v : pure_op (s <- get_state ;; ret (truth s v)).
Proof. apply pure_get_state; [intro; apply pure_ret|]. intros. sw_rw. reflexivity. Qed.

Ltac pure_known :=
  first [ apply pure_iter_elems | apply pure_check_hashable | apply pure_as_int | apply pure_veqM
        | apply pure_obs_list | apply pure_lift_sres | apply pure_truth ].
Ltac pure_tac := repeat first [ pure_known | pure_step ].

Lemma pure_contains a b : pure_op (contains a b).
Proof.
  unfold contains. destruct b; try apply pure_fail.
  - destruct a; pure_tac.
  - apply pure_get_state; [intro; apply pure_ret|]. intros. sw_rw. reflexivity.
  - apply pure_bind; [apply pure_get_list|]. intros xs. apply pure_get_state; [intro; apply pure_ret|]. intros. sw_rw. reflexivity.
  - apply pure_bind; [apply pure_check_hashable|]. intros _. apply pure_bind; [apply pure_get_dict|]. intros kvs.
    apply pure_get_state; [intro; apply pure_ret|]. intros. sw_rw. reflexivity.
  - destruct a; pure_tac.
Qed.

Lemma pure_binop_eval o a b : pure_op (binop_eval o a b).
Proof.
  unfold binop_eval. destruct o;
  try (apply pure_bind; [first [apply pure_veqM | apply pure_contains]|intro; apply pure_ret]);
  try (apply pure_get_state; [intro s0; destruct (vcmp depth s0 a b); pure_tac | intros; sw_rw; reflexivity]);
  destruct a, b; pure_tac.
Qed.

Lemma pure_unop_eval o a : pure_op (unop_eval o a).
Proof.
  unfold unop_eval. destruct o, a; try apply pure_ret; try apply pure_fail;
  (apply pure_get_state; [intro; apply pure_ret|intros; sw_rw; reflexivity]).
Qed.

Lemma pure_index_eval a i : pure_op (index_eval a i).
Proof.
  unfold index_eval. destruct a; try apply pure_fail; pure_tac.
  intros; sw_rw; reflexivity.
Qed.

Lemma pure_opt_int v : pure_op (opt_int v).
Proof. unfold opt_int. pure_tac. Qed.

Lemma pure_slice_eval a lo hi st : pure_op (slice_eval a lo hi st).
Proof.
  unfold slice_eval. apply pure_bind; [apply pure_opt_int|intro]. apply pure_bind; [apply pure_opt_int|intro].
  apply pure_bind; [apply pure_opt_int|intro]. destruct a; pure_tac.
Qed.

Lemma pure_set_index a i v : pure_op (set_index a i v).
Proof.
  unfold set_index. destruct a; try apply pure_fail; pure_tac.
  intros; sw_rw; reflexivity.
Qed.
