(* Extraction of the C08 correspondence driver to OCaml (ExtrOcamlBasic only; nat stays inductive). *)
From Coq Require Import ExtrOcamlBasic.
From SV Require Import Bind.Model Bind.Spec Bind.Cases.
Extraction Language OCaml.
Extraction "bind_model.ml" run.
