(* Extraction of the C06 tie entry points to OCaml (ExtrOcamlBasic only). *)
From Coq Require Import ExtrOcamlBasic ZArith.
From SV Require Import Parse.Tokens Parse.Ast Parse.Model Parse.Grammar Parse.Print Parse.Cases.
Extraction Language OCaml.
Extraction "parse_model.ml" run_model run_grammar run_grammar_strict run_print.
