(* Extraction of the C16 correspondence driver functions to OCaml (ExtrOcamlBasic only). *)
From Coq Require Import ExtrOcamlBasic NArith.
From SV Require Import Ty.Spec Ty.Model Ty.Cases.
Extraction Language OCaml.
Extraction "ty_model.ml" run info run_nomerge.
