(* Extraction of the executable lexer model for the high-volume tie (ExtrOcamlBasic only: N, positive,
   Z stay inductive; the hand-written driver ocaml/lex_driver.ml converts to and from OCaml ints). *)
From Coq Require Import NArith List.
From SV Require Import Lex.Model.
Require Import ExtrOcamlBasic.
Extraction "lex_model.ml" lex spellings w.
