(* Extraction of the C15 correspondence driver to OCaml (ExtrOcamlBasic only: bool/option/unit/prod/list map to
   OCaml's; nat stays the unary inductive). *)
From Coq Require Import ExtrOcamlBasic Arith.
From SV Require Import Limits.Model Limits.Cases.
Extraction Language OCaml.
Extraction "limits_model.ml" run_case facts.
