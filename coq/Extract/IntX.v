(* Extraction of the C10 correspondence driver functions to OCaml (ExtrOcamlBasic only:
   bool/option/unit/prod/list/sumbool/sumor map to OCaml's; Z, N, positive, nat stay inductive). *)
From Coq Require Import ExtrOcamlBasic ZArith.
From SV Require Import Int.Model Int.Cases.
Extraction Language OCaml.
Extraction "int_model.ml" run out_eqb.
