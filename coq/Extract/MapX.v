(* Extraction of the C11 correspondence driver functions to OCaml (ExtrOcamlBasic only:
   bool/option/unit/prod/list map to OCaml's; nat stays inductive). *)
From Coq Require Import ExtrOcamlBasic List.
From SV Require Import Map.Spec Map.Model Map.Cases.
Extraction Language OCaml.
Extraction "map_model.ml" run_case spec_case thr max_ins.
