(* C20  Executable driver of the tie: the `threads` harness records, per round, the heap-level events it really
   performed (frozen module created = OAlloc, FrozenModule/OwnedFrozen handle cloned = OClone, sent through a channel
   = OSend/ORecv, dropped = ODrop, value read through a handle = OReadChunk) in the order of a global sequence counter.
   `check_trace` replays that schedule on the model: every step must be enabled (the harness stays inside the
   hypotheses of the theorems: no drop without a holder), the round must end quiescent, every read must hit live
   memory, and every thread's observations must equal those of its own operations run alone. *)
From Coq Require Import List Arith NArith Bool PeanoNat.
From SV Require Import Conc.Model.
Import ListNotations.

Definition init0 (x : cell) : val := 3 * x + 1.
Definition s0 : state := init_state (fun x => 5 * x + 2) (fun _ _ => 0).

Definition chunk_eqb (a b : chunk) : bool := Nat.eqb (fst a) (fst b) && Nat.eqb (snd a) (snd b).
Definition ev_eqb (a b : ev) : bool :=
  match a, b with
  | EvChunk c v, EvChunk c' v' => chunk_eqb c c' && Nat.eqb v v'
  | EvFrozen x v, EvFrozen x' v' => Nat.eqb x x' && Nat.eqb v v'
  | EvOnce x v, EvOnce x' v' => Nat.eqb x x' && Nat.eqb v v'
  | EvPriv x v, EvPriv x' v' => Nat.eqb x x' && Nat.eqb v v'
  | _, _ => false
  end.
Fixpoint obs_eqb (a b : list (tid * ev)) : bool :=
  match a, b with
  | [], [] => true
  | (t, e) :: a', (t', e') :: b' => Nat.eqb t t' && ev_eqb e e' && obs_eqb a' b'
  | _, _ => false
  end.

Definition is_read (e : tid * ev) : bool := match snd e with EvChunk _ _ => true | _ => false end.
Definition ev_live (e : tid * ev) : bool := match snd e with EvChunk _ v => negb (Nat.eqb v poison) | _ => true end.
Definition threads_of (tr : list (tid * op)) : list tid := nodup Nat.eq_dec (map fst tr).
Definition all_local (t : tid) (tr : list (tid * op)) : bool :=
  forallb (fun p => negb (Nat.eqb (fst p) t) || local_op (snd p)) tr.

Definition solo_ok (tr : list (tid * op)) (obs : list (tid * ev)) (t : tid) : bool :=
  if all_local t tr
  then match run init0 (proj t tr) s0 with
       | Some (_, o) => obs_eqb o (proj t obs)
       | None => false
       end
  else true.

(* index of the first step that is not enabled (diagnostics) *)
Fixpoint first_disabled (tr : list (tid * op)) (s : state) (n : nat) : option nat :=
  match tr with
  | [] => None
  | (t, o) :: tr' => match step init0 t o s with None => Some n | Some (s1, _) => first_disabled tr' s1 (S n) end
  end.

(* [accepted; quiescent; number of reads; all reads live; per-thread = solo; threads; first disabled step + 1 (0 = none)] *)
Definition check_trace (tr : list (tid * op)) : list N :=
  let fd := match first_disabled tr s0 0 with None => 0%N | Some n => N.of_nat (S n) end in
  match run init0 tr s0 with
  | None => [0; 0; 0; 0; 0; N.of_nat (length (threads_of tr)); fd]%N
  | Some (s, obs) =>
      [1; (match refs s with [] => 1 | _ => 0 end);
       N.of_nat (length (filter is_read obs));
       (if forallb ev_live obs then 1 else 0);
       (if forallb (solo_ok tr obs) (threads_of tr) then 1 else 0);
       N.of_nat (length (threads_of tr)); fd]%N
  end.

(* short constructors used by the generated case files *)
Definition A (t v : nat) : tid * op := (t, OAlloc v).
Definition C (t a b : nat) : tid * op := (t, OClone (a, b)).
Definition D (t a b : nat) : tid * op := (t, ODrop (a, b)).
Definition Sd (t a b : nat) : tid * op := (t, OSend (a, b)).
Definition Rv (t a b : nat) : tid * op := (t, ORecv (a, b)).
Definition Rd (t a b : nat) : tid * op := (t, OReadChunk (a, b)).
Definition Ob (t x : nat) : tid * op := (t, OOnceBegin x).
Definition Oe (t : nat) : tid * op := (t, OOnceEnd).
Definition Fr (t x : nat) : tid * op := (t, OReadFrozen x).
