(* C20  Interleaving model of the sharing protocols behind "frozen modules are safe to share".

   What is mirrored (the Rust names are the anchors of the property):

   * `Chunk` (values/layout/heap/allocator/alloc/chunk.rs): a reference-counted block of memory.
     `ChunkData.ref_count : AtomicU32` starts at 1 (`alloc_ref_count_1`), `Clone for Chunk` does
     `fetch_add(1)` (the overflow guard aborts the process: no step of the model), `Drop for Chunk` does
     `fetch_sub(1) == 1 => dealloc`.  `FrozenHeapRef` (heap_type.rs: an `Arc<FrozenFrozenHeap>`) follows the same
     protocol one level up (a loading module `add_reference`s the loaded module's heap = clone; dropping a
     module / an `OwnedFrozen` handle = drop), so one `chunk` of the model stands for either.
   * the per-thread chunk cache (per_thread.rs: `PER_THREAD_ALLOCATOR`, `thread_local_release` = store,
     `thread_local_alloc_at_least` = fetch, eviction in `store` / the TLS destructor = evict).
   * a heap / FrozenModule / OwnedFrozen created on one thread and dropped on another (`unsafe impl Send`,
     send.rs, heap_type.rs): `OSend` puts a held reference in transit (owned by no thread), `ORecv` takes it.
   * lazily initialised process-wide data (`GlobalsStatic`/`MethodsStatic` = `OnceLock`, `LazyLock` tables,
     the cached hash of a string `StarlarkStr.hash : AtomicU32`, `static_string.rs`): a once-cell is
     `None` (Uninit) or `Some v` (Done v); a racing initialiser is two atomic steps (`OOnceBegin` reads the
     cell and, when it is empty, computes the candidate with the deterministic initialiser `init`;
     `OOnceEnd` publishes the candidate unless another thread won the race, and observes the winner).
   * frozen data (`FrozenDef`: `AtomicFrozenAnyValueOption`/`StmtCompiledCell` are written only in
     `post_freeze`, i.e. before the module is shared): `fro` is read by `OReadFrozen`; NO step writes it.
   * thread-private data (the non-Send `Heap<'v>`/`Evaluator`): `priv t`, touched only by thread `t`.

   A schedule is an arbitrary list of (thread id, operation): `run` executes it step by step; a step whose
   precondition fails (e.g. dropping a reference the thread does not hold) is `None` - the theorems speak
   about all schedules whose steps are enabled.  Memory-model effects (orderings, torn reads, data races)
   are outside interleaving semantics and outside this model.

   No proofs in this file. *)
From Coq Require Import List Arith Bool PeanoNat.
Import ListNotations.

Definition tid := nat.
Definition val := nat.
Definition cell := nat.
(* a chunk is named by its allocating thread and that thread's allocation counter *)
Definition chunk := (nat * nat)%type.

Inductive owner := Heap (t : tid) | Cache (t : tid) | Transit.
Definition ref := (owner * chunk)%type.

Definition chunk_dec : forall a b : chunk, {a = b} + {a <> b}.
Proof. decide equality; apply Nat.eq_dec. Defined.
Definition owner_dec : forall a b : owner, {a = b} + {a <> b}.
Proof. decide equality; apply Nat.eq_dec. Defined.
Definition ref_dec : forall a b : ref, {a = b} + {a <> b}.
Proof. decide equality; [apply chunk_dec | apply owner_dec]. Defined.
Arguments chunk_dec : simpl never.
Arguments owner_dec : simpl never.
Arguments ref_dec : simpl never.

(* number of references to chunk c in the global multiset of references *)
Fixpoint count (c : chunk) (l : list ref) : nat :=
  match l with
  | [] => 0
  | r :: l' => (if chunk_dec (snd r) c then 1 else 0) + count c l'
  end.

Fixpoint remove1 (r : ref) (l : list ref) : list ref :=
  match l with
  | [] => []
  | x :: l' => if ref_dec x r then l' else x :: remove1 r l'
  end.

Definition updc {A} (f : chunk -> A) (c : chunk) (v : A) : chunk -> A :=
  fun c' => if chunk_dec c' c then v else f c'.
Definition updn {A} (f : nat -> A) (n : nat) (v : A) : nat -> A :=
  fun n' => if Nat.eq_dec n' n then v else f n'.

(* observations *)
Inductive ev :=
| EvChunk (c : chunk) (v : val)     (* a read of chunk memory *)
| EvFrozen (x : cell) (v : val)
| EvOnce (x : cell) (v : val)
| EvPriv (a : nat) (v : val).

Definition poison : val := 219.  (* 0xDB: what a read of freed memory returns *)

Record state := mkS {
  refs : list ref;                 (* every reference in existence, with its owner *)
  rc : chunk -> nat;               (* ChunkData.ref_count *)
  mem : chunk -> option val;       (* Some v = live with contents v; None = not allocated / freed *)
  nextid : tid -> nat;
  once : cell -> option val;       (* Uninit | Done v *)
  pend : tid -> option (cell * val);   (* candidate of a racing initialiser *)
  priv : tid -> nat -> val;        (* thread-private memory *)
  fro : cell -> val                (* frozen memory *)
}.

Definition set_refs l s := mkS l (rc s) (mem s) (nextid s) (once s) (pend s) (priv s) (fro s).
Definition set_pend p s := mkS (refs s) (rc s) (mem s) (nextid s) (once s) p (priv s) (fro s).
Definition set_once o s := mkS (refs s) (rc s) (mem s) (nextid s) o (pend s) (priv s) (fro s).
Definition set_priv p s := mkS (refs s) (rc s) (mem s) (nextid s) (once s) (pend s) p (fro s).

(* Chunk::alloc_at_least: ref_count = 1, the allocating thread holds the only reference *)
Definition do_alloc (t : tid) (v : val) (s : state) : state :=
  let c := (t, nextid s t) in
  mkS ((Heap t, c) :: refs s) (updc (rc s) c 1) (updc (mem s) c (Some v))
      (updn (nextid s) t (S (nextid s t))) (once s) (pend s) (priv s) (fro s).

(* Clone for Chunk: fetch_add(1) *)
Definition raw_incr (c : chunk) (s : state) : state :=
  mkS (refs s) (updc (rc s) c (S (rc s c))) (mem s) (nextid s) (once s) (pend s) (priv s) (fro s).

(* Drop for Chunk: fetch_sub(1) == 1 => dealloc (with the poisoning hook the memory is overwritten) *)
Definition raw_decr (c : chunk) (s : state) : state :=
  let n := pred (rc s c) in
  mkS (refs s) (updc (rc s) c n)
      (match n with 0 => updc (mem s) c None | S _ => mem s end)
      (nextid s) (once s) (pend s) (priv s) (fro s).

Definition acquire (o : owner) (c : chunk) (s : state) : state := set_refs ((o, c) :: refs s) s.
Definition release (o : owner) (c : chunk) (s : state) : state := set_refs (remove1 (o, c) (refs s)) s.

Definition holds (s : state) (o : owner) (c : chunk) := in_dec ref_dec (o, c) (refs s).

(* a reference changes owner; the count is untouched *)
Definition move (o1 o2 : owner) (c : chunk) (s : state) : option (state * list ev) :=
  if holds s o1 c then Some (acquire o2 c (release o1 c s), []) else None.

Inductive op :=
| OAlloc (v : val)
| OClone (c : chunk)
| ODrop (c : chunk)
| OCacheStore (c : chunk)
| OCacheFetch (c : chunk)
| OCacheEvict (c : chunk)
| OSend (c : chunk)
| ORecv (c : chunk)
| OReadChunk (c : chunk)
| OReadFrozen (x : cell)
| OOnceBegin (x : cell)
| OOnceEnd
| OPrivWrite (a : nat) (v : val)
| OPrivRead (a : nat).

Section Step.
  (* the deterministic initialiser of the once-cells (the body of `Globals::standard`, of a methods table, the hash
     function of a string ...) *)
  Variable init : cell -> val.

  Definition step (t : tid) (o : op) (s : state) : option (state * list ev) :=
    match o with
    | OAlloc v => Some (do_alloc t v s, [])
    | OClone c => if holds s (Heap t) c then Some (raw_incr c (acquire (Heap t) c s), []) else None
    | ODrop c => if holds s (Heap t) c then Some (raw_decr c (release (Heap t) c s), []) else None
    | OCacheStore c => move (Heap t) (Cache t) c s
    | OCacheFetch c => move (Cache t) (Heap t) c s
    | OCacheEvict c => if holds s (Cache t) c then Some (raw_decr c (release (Cache t) c s), []) else None
    | OSend c => move (Heap t) Transit c s
    | ORecv c => move Transit (Heap t) c s
    | OReadChunk c =>
        if holds s (Heap t) c
        then Some (s, [EvChunk c (match mem s c with Some v => v | None => poison end)])
        else None
    | OReadFrozen x => Some (s, [EvFrozen x (fro s x)])
    | OOnceBegin x =>
        Some (set_pend (updn (pend s) t (Some (x, match once s x with Some v => v | None => init x end))) s, [])
    | OOnceEnd =>
        match pend s t with
        | None => Some (s, [])
        | Some (x, v) =>
            match once s x with
            | Some w => Some (set_pend (updn (pend s) t None) s, [EvOnce x w])       (* another thread won *)
            | None => Some (set_once (updn (once s) x (Some v)) (set_pend (updn (pend s) t None) s), [EvOnce x v])
            end
        end
    | OPrivWrite a v => Some (set_priv (updn (priv s) t (updn (priv s t) a v)) s, [])
    | OPrivRead a => Some (s, [EvPriv a (priv s t a)])
    end.

  (* a schedule: an arbitrary list of (thread, operation) *)
  Fixpoint run (tr : list (tid * op)) (s : state) : option (state * list (tid * ev)) :=
    match tr with
    | [] => Some (s, [])
    | (t, o) :: tr' =>
        match step t o s with
        | None => None
        | Some (s1, ob) =>
            match run tr' s1 with
            | None => None
            | Some (s2, obs) => Some (s2, map (pair t) ob ++ obs)
            end
        end
    end.
End Step.

Definition by_thread {A} (t : tid) (p : tid * A) : bool := Nat.eqb (fst p) t.
(* the operations of thread t in a schedule / the observations of thread t *)
Definition proj {A} (t : tid) (l : list (tid * A)) : list (tid * A) := filter (by_thread t) l.

Definition init_state (f : cell -> val) (p : tid -> nat -> val) : state :=
  mkS [] (fun _ => 0) (fun _ => None) (fun _ => 0) (fun _ => None) (fun _ => None) p f.

(* operations a thread can perform without the cooperation of another thread (everything except receiving) *)
Definition local_op (o : op) : bool := match o with ORecv _ => false | _ => true end.

(* the unguarded decrement: what a `drop` without a matching holder (a double drop) does *)
Definition unguarded_drop (c : chunk) (s : state) : state := raw_decr c s.

(* ---- the decrement of `Drop for Chunk` split into its two halves --------------------------------------------
   `Drop for Chunk` is ONE atomic read-modify-write (`fetch_sub(1) == 1 => dealloc`, the step `ODrop`).  A non-atomic
   implementation (`n = ref_count.load(); if n == 1 { dealloc } else { ref_count.store(n - 1) }`) is two steps of a
   thread, and steps of other threads can be scheduled between them.  The extended step relation below adds exactly
   these two half steps to the model, to show (Proofs.v, Properties/C20.v) that the atomicity is load-bearing:
   adjacent halves are the atomic drop, but one `OClone` of another thread between them (the thread that built the
   heap carving the next heap out of the cached remainder of the same chunk, `split_at_offset`) breaks
   count = holders. *)

(* the store half: `raw_decr` with the count loaded earlier in place of the current count *)
Definition raw_store_decr (c : chunk) (n : nat) (s : state) : state :=
  let m := pred n in
  mkS (refs s) (updc (rc s) c m)
      (match m with 0 => updc (mem s) c None | S _ => mem s end)
      (nextid s) (once s) (pend s) (priv s) (fro s).

Inductive xop :=
| XAtomic (o : op)        (* any operation of the model: one atomic step *)
| XDecLoad (c : chunk)    (* first half of a non-atomic drop: read the count *)
| XDecStore.              (* second half: give up the reference, write count - 1 / free when the loaded count was 1 *)

(* the model state + the count each thread has loaded and not yet written back *)
Definition xstate := (state * (tid -> option (chunk * nat)))%type.
Definition no_loads : tid -> option (chunk * nat) := fun _ => None.

Section XStep.
  Variable init : cell -> val.

  Definition xstep (t : tid) (xo : xop) (xs : xstate) : option (xstate * list ev) :=
    let (s, ld) := xs in
    match xo with
    | XAtomic o => match step init t o s with Some (s', ob) => Some ((s', ld), ob) | None => None end
    | XDecLoad c =>
        match ld t with
        | Some _ => None
        | None => if holds s (Heap t) c then Some ((s, updn ld t (Some (c, rc s c))), []) else None
        end
    | XDecStore =>
        match ld t with
        | None => None
        | Some (c, n) =>
            if holds s (Heap t) c
            then Some ((raw_store_decr c n (release (Heap t) c s), updn ld t None), [])
            else None
        end
    end.

  Fixpoint xrun (tr : list (tid * xop)) (xs : xstate) : option (xstate * list (tid * ev)) :=
    match tr with
    | [] => Some (xs, [])
    | (t, o) :: tr' =>
        match xstep t o xs with
        | None => None
        | Some (xs1, ob) =>
            match xrun tr' xs1 with
            | None => None
            | Some (xs2, obs) => Some (xs2, map (pair t) ob ++ obs)
            end
        end
    end.
End XStep.

(* references owned by thread t (its heaps and its cache) *)
Definition owner_is (t : tid) (o : owner) : bool :=
  match o with Heap t' => Nat.eqb t' t | Cache t' => Nat.eqb t' t | Transit => false end.
Definition mine (t : tid) (l : list ref) : list ref := filter (fun r => owner_is t (fst r)) l.

(* ---- once-cells whose candidate value depends on the initialising thread -------------------------------------
   A cell inside a FROZEN shared value that is filled on first use (`OnceLock::set` from `get_or_init_ty`, reached from
   `export_as(variable_name)` on every top-level assignment, also of a frozen value loaded from another module) is a
   once-cell whose candidate is computed by the calling thread from ITS OWN data (the name of its variable).  The step
   relation below is `step` with a per-thread initialiser `initT t`; `step` itself is the case where the initialiser
   does not depend on the thread (`Globals::standard`, a methods table, the hash of a string: the same value whoever
   computes it).  Proofs.v / Properties/C20.v separate the two situations: thread-independent initialisers are
   unobservable (per-thread transcript = alone transcript, every schedule), thread-dependent ones are observable. *)
Section TStep.
  Variable initT : tid -> cell -> val.

  Definition tstep (t : tid) (o : op) (s : state) : option (state * list ev) := step (initT t) t o s.

  Fixpoint trun (tr : list (tid * op)) (s : state) : option (state * list (tid * ev)) :=
    match tr with
    | [] => Some (s, [])
    | (t, o) :: tr' =>
        match tstep t o s with
        | None => None
        | Some (s1, ob) =>
            match trun tr' s1 with
            | None => None
            | Some (s2, obs) => Some (s2, map (pair t) ob ++ obs)
            end
        end
    end.
End TStep.

(* the condition: whoever initialises computes the same value *)
Definition thread_independent (initT : tid -> cell -> val) : Prop := forall t1 t2 x, initT t1 x = initT t2 x.
