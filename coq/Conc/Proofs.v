(* C20  Proofs about the interleaving model (Conc/Model.v): the reference-count invariant, no use after free,
   no leak at quiescence, single value of once-cells, commutation of frozen reads, and per-thread
   transcripts = sequential transcripts, for ALL schedules (induction over `run`). *)
From Coq Require Import List Arith Bool PeanoNat Lia.
From SV Require Import Conc.Model.
Import ListNotations.

(* ------------------------------------------------------------------------------------------------ *)
(* multiset lemmas *)

Lemma count_cons : forall c r l, count c (r :: l) = (if chunk_dec (snd r) c then 1 else 0) + count c l.
Proof. reflexivity. Qed.

Lemma count_in_pos : forall o c l, In (o, c) l -> count c l > 0.
Proof.
  induction l as [|r l IH]; simpl; intros H; [contradiction|].
  destruct H as [H|H].
  - subst r; simpl. destruct (chunk_dec c c); [lia|congruence].
  - specialize (IH H). lia.
Qed.

Lemma count_pos_in : forall c l, count c l > 0 -> exists o, In (o, c) l.
Proof.
  induction l as [|[o c'] l IH]; simpl; intros H; [lia|].
  destruct (chunk_dec c' c) as [e|n].
  - subst. exists o. now left.
  - destruct IH as [o' Ho']; [lia|]. exists o'. now right.
Qed.

Lemma count_zero : forall c l, (forall o, ~ In (o, c) l) -> count c l = 0.
Proof.
  intros c l H. destruct (count c l) eqn:E; [reflexivity|].
  destruct (count_pos_in c l) as [o Ho]; [lia|]. exfalso; exact (H o Ho).
Qed.

Lemma count_remove1_same : forall o c l, In (o, c) l -> count c l = S (count c (remove1 (o, c) l)).
Proof.
  induction l as [|r l IH]; simpl; intros H; [contradiction|].
  destruct (ref_dec r (o, c)) as [e|n].
  - subst r; simpl. destruct (chunk_dec c c); [lia|congruence].
  - destruct H as [H|H]; [congruence|]. simpl. rewrite (IH H). lia.
Qed.

Lemma count_remove1_other : forall o c c' l, c' <> c -> count c' (remove1 (o, c) l) = count c' l.
Proof.
  induction l as [|r l IH]; simpl; intros H; [reflexivity|].
  destruct (ref_dec r (o, c)) as [e|n].
  - subst r; simpl. destruct (chunk_dec c c'); [congruence|lia].
  - simpl. rewrite (IH H). reflexivity.
Qed.

Lemma in_remove1_sub : forall r x l, In x (remove1 r l) -> In x l.
Proof.
  induction l as [|y l IH]; simpl; intros H; [contradiction|].
  destruct (ref_dec y r); [now right|]. destruct H as [H|H]; [now left|right; auto].
Qed.

Lemma in_remove1_other : forall r x l, x <> r -> In x l -> In x (remove1 r l).
Proof.
  induction l as [|y l IH]; simpl; intros Hn H; [contradiction|].
  destruct (ref_dec y r) as [e|n].
  - destruct H as [H|H]; [congruence|exact H].
  - destruct H as [H|H]; [now left|right; auto].
Qed.

Lemma mine_cons : forall t r l, mine t (r :: l) = if owner_is t (fst r) then r :: mine t l else mine t l.
Proof. reflexivity. Qed.

Lemma mine_in : forall t r l, In r (mine t l) <-> In r l /\ owner_is t (fst r) = true.
Proof. intros. unfold mine. apply filter_In. Qed.

Lemma mine_remove1_mine : forall t r l, owner_is t (fst r) = true -> mine t (remove1 r l) = remove1 r (mine t l).
Proof.
  induction l as [|y l IH]; simpl; intros H; [reflexivity|].
  destruct (ref_dec y r) as [e|n].
  - subst y. rewrite H. simpl. destruct (ref_dec r r); [reflexivity|congruence].
  - simpl. destruct (owner_is t (fst y)) eqn:E.
    + simpl. destruct (ref_dec y r); [congruence|]. now rewrite IH.
    + now apply IH.
Qed.

Lemma mine_remove1_other : forall t r l, owner_is t (fst r) = false -> mine t (remove1 r l) = mine t l.
Proof.
  induction l as [|y l IH]; simpl; intros H; [reflexivity|].
  destruct (ref_dec y r) as [e|n].
  - subst y. now rewrite H.
  - simpl. destruct (owner_is t (fst y)); [now rewrite IH|now apply IH].
Qed.

Lemma owner_is_heap : forall t, owner_is t (Heap t) = true.
Proof. intros; simpl; apply Nat.eqb_refl. Qed.
Lemma owner_is_cache : forall t, owner_is t (Cache t) = true.
Proof. intros; simpl; apply Nat.eqb_refl. Qed.
Lemma owner_is_heap_other : forall t t', t' <> t -> owner_is t (Heap t') = false.
Proof. intros; simpl; now apply Nat.eqb_neq. Qed.
Lemma owner_is_cache_other : forall t t', t' <> t -> owner_is t (Cache t') = false.
Proof. intros; simpl; now apply Nat.eqb_neq. Qed.

Lemma updc_same : forall A (f : chunk -> A) c v, updc f c v c = v.
Proof. intros; unfold updc. destruct (chunk_dec c c); [reflexivity|congruence]. Qed.
Lemma updc_other : forall A (f : chunk -> A) c c' v, c' <> c -> updc f c v c' = f c'.
Proof. intros; unfold updc. destruct (chunk_dec c' c); [congruence|reflexivity]. Qed.
Lemma updn_same : forall A (f : nat -> A) n v, updn f n v n = v.
Proof. intros; unfold updn. destruct (Nat.eq_dec n n); [reflexivity|congruence]. Qed.
Lemma updn_other : forall A (f : nat -> A) n n' v, n' <> n -> updn f n v n' = f n'.
Proof. intros; unfold updn. destruct (Nat.eq_dec n' n); [congruence|reflexivity]. Qed.

(* ------------------------------------------------------------------------------------------------ *)
(* the invariant *)

Section Inv.
  Variable init : cell -> val.

  Record Inv (s : state) : Prop := {
    inv_rc : forall c, rc s c = count c (refs s);
    inv_live : forall c, mem s c = None <-> rc s c = 0;
    inv_fresh : forall o t n, In (o, (t, n)) (refs s) -> n < nextid s t;
    inv_once : forall x v, once s x = Some v -> v = init x;
    inv_pend : forall t x v, pend s t = Some (x, v) -> v = init x
  }.

  Lemma inv_init : forall f p, Inv (init_state f p).
  Proof.
    intros; constructor; simpl; intros; try discriminate; try contradiction; try reflexivity.
    split; reflexivity.
  Qed.

  Lemma inv_holder_live : forall s o c, Inv s -> In (o, c) (refs s) -> mem s c <> None.
  Proof.
    intros s o c I H E. apply (inv_live s I) in E. rewrite (inv_rc s I) in E.
    pose proof (count_in_pos o c _ H). lia.
  Qed.

  Lemma inv_alloc : forall s t v, Inv s -> Inv (do_alloc t v s).
  Proof.
    intros s t v I. set (c := (t, nextid s t)).
    assert (Hz : count c (refs s) = 0).
    { apply count_zero. intros o H. apply (inv_fresh s I) in H. lia. }
    constructor; unfold do_alloc; simpl; fold c.
    - intros c'. destruct (chunk_dec c c') as [e|n].
      + subst c'. rewrite updc_same. lia.
      + rewrite updc_other by congruence. simpl. apply (inv_rc s I).
    - intros c'. destruct (chunk_dec c' c) as [e|n].
      + subst c'. rewrite !updc_same. split; intros; [discriminate|lia].
      + rewrite !updc_other by assumption. apply (inv_live s I).
    - intros o t' n [H|H].
      + inversion H; subst. rewrite updn_same. lia.
      + apply (inv_fresh s I) in H. destruct (Nat.eq_dec t' t) as [e|ne].
        * subst. rewrite updn_same. lia.
        * rewrite updn_other by assumption. exact H.
    - apply (inv_once s I).
    - apply (inv_pend s I).
  Qed.

  Lemma inv_clone : forall s o o' c, Inv s -> In (o', c) (refs s) -> Inv (raw_incr c (acquire o c s)).
  Proof.
    intros s o o' c I H. constructor; unfold raw_incr, acquire, set_refs; simpl.
    - intros c'. destruct (chunk_dec c c') as [e|n].
      + subst c'. rewrite updc_same. rewrite (inv_rc s I). lia.
      + rewrite updc_other by congruence. simpl. apply (inv_rc s I).
    - intros c'. destruct (chunk_dec c' c) as [e|n].
      + subst c'. rewrite updc_same. split; intros E; [|lia].
        exfalso. exact (inv_holder_live s o' c I H E).
      + rewrite updc_other by assumption. apply (inv_live s I).
    - intros o1 t n [E|E]; [inversion E; subst; apply (inv_fresh s I) in H; exact H | apply (inv_fresh s I) in E; exact E].
    - apply (inv_once s I).
    - apply (inv_pend s I).
  Qed.

  Lemma inv_drop : forall s o c, Inv s -> In (o, c) (refs s) -> Inv (raw_decr c (release o c s)).
  Proof.
    intros s o c I H.
    pose proof (count_remove1_same o c _ H) as Hc.
    constructor; unfold raw_decr, release, set_refs; simpl.
    - intros c'. destruct (chunk_dec c' c) as [e|n].
      + subst c'. rewrite updc_same. rewrite (inv_rc s I). lia.
      + rewrite updc_other by assumption. rewrite count_remove1_other by assumption. apply (inv_rc s I).
    - intros c'. destruct (chunk_dec c' c) as [e|n].
      + subst c'. rewrite updc_same. destruct (pred (rc s c)) eqn:E.
        * rewrite updc_same. split; reflexivity.
        * split; intros E2; [|lia]. exfalso. exact (inv_holder_live s o c I H E2).
      + rewrite updc_other by assumption. destruct (pred (rc s c)).
        * rewrite updc_other by assumption. apply (inv_live s I).
        * apply (inv_live s I).
    - intros o1 t n E. apply in_remove1_sub in E. apply (inv_fresh s I) in E. exact E.
    - apply (inv_once s I).
    - apply (inv_pend s I).
  Qed.

  Lemma inv_move : forall s o1 o2 c, Inv s -> In (o1, c) (refs s) -> Inv (acquire o2 c (release o1 c s)).
  Proof.
    intros s o1 o2 c I H.
    pose proof (count_remove1_same o1 c _ H) as Hc.
    constructor; unfold acquire, release, set_refs; simpl.
    - intros c'. destruct (chunk_dec c c') as [e|n].
      + subst c'. rewrite (inv_rc s I). lia.
      + simpl. rewrite count_remove1_other by congruence. apply (inv_rc s I).
    - apply (inv_live s I).
    - intros o t n [E|E].
      + inversion E; subst. apply (inv_fresh s I) in H. exact H.
      + apply in_remove1_sub in E. apply (inv_fresh s I) in E. exact E.
    - apply (inv_once s I).
    - apply (inv_pend s I).
  Qed.

  Lemma move_some : forall o1 o2 c s s' ob, move o1 o2 c s = Some (s', ob) ->
    In (o1, c) (refs s) /\ s' = acquire o2 c (release o1 c s) /\ ob = [].
  Proof.
    unfold move; intros. destruct (holds s o1 c); [|discriminate]. inversion H; auto.
  Qed.

  Lemma step_inv : forall t o s s' ob, Inv s -> step init t o s = Some (s', ob) -> Inv s'.
  Proof.
    intros t o s s' ob I H. destruct o; simpl in H.
    - inversion H; subst. now apply inv_alloc.
    - destruct (holds s (Heap t) c); [|discriminate]. inversion H; subst. eapply inv_clone; eauto.
    - destruct (holds s (Heap t) c); [|discriminate]. inversion H; subst. now apply inv_drop.
    - apply move_some in H. destruct H as (Hi & -> & _). now apply inv_move.
    - apply move_some in H. destruct H as (Hi & -> & _). now apply inv_move.
    - destruct (holds s (Cache t) c); [|discriminate]. inversion H; subst. now apply inv_drop.
    - apply move_some in H. destruct H as (Hi & -> & _). now apply inv_move.
    - apply move_some in H. destruct H as (Hi & -> & _). now apply inv_move.
    - destruct (holds s (Heap t) c); [|discriminate]. inversion H; subst. exact I.
    - inversion H; subst. exact I.
    - inversion H; subst. constructor; simpl; try apply I.
      intros t' x' v' E. destruct (Nat.eq_dec t' t) as [e|n].
      + subst. rewrite updn_same in E. inversion E; subst.
        destruct (once s x') eqn:Eo; [apply (inv_once s I) in Eo; exact Eo|reflexivity].
      + rewrite updn_other in E by assumption. apply (inv_pend s I) in E. exact E.
    - destruct (pend s t) as [[x v]|] eqn:Ep; [|inversion H; subst; exact I].
      assert (Hpend : forall t' x' v', updn (pend s) t None t' = Some (x', v') -> v' = init x').
      { intros t' x' v' E. destruct (Nat.eq_dec t' t) as [e|n].
        - subst. rewrite updn_same in E. discriminate.
        - rewrite updn_other in E by assumption. apply (inv_pend s I) in E. exact E. }
      destruct (once s x) eqn:Eo; inversion H; subst.
      + constructor; simpl; try apply I. exact Hpend.
      + constructor; simpl; try apply I; [|exact Hpend].
        intros x' v' E. destruct (Nat.eq_dec x' x) as [e|n].
        * subst. rewrite updn_same in E. inversion E; subst. apply (inv_pend s I) in Ep. exact Ep.
        * rewrite updn_other in E by assumption. apply (inv_once s I) in E. exact E.
    - inversion H; subst. constructor; simpl; apply I.
    - inversion H; subst. exact I.
  Qed.

  Lemma run_inv : forall tr s s' obs, Inv s -> run init tr s = Some (s', obs) -> Inv s'.
  Proof.
    induction tr as [|[t o] tr IH]; simpl; intros s s' obs I H.
    - inversion H; subst; exact I.
    - destruct (step init t o s) as [[s1 ob]|] eqn:E; [|discriminate].
      destruct (run init tr s1) as [[s2 obs2]|] eqn:E2; [|discriminate].
      inversion H; subst. eapply IH; [|exact E2]. eapply step_inv; eauto.
  Qed.

  (* ---------------------------------------------------------------------------------------------- *)
  (* headline lemmas about memory *)

  Lemma rc_inv : forall tr s s' obs, Inv s -> run init tr s = Some (s', obs) ->
    forall c, rc s' c = count c (refs s').
  Proof. intros. apply inv_rc. eapply run_inv; eauto. Qed.

  (* a chunk that has a holder (thread heap, cache or in transit) is live; equivalently a freed chunk has no holder;
     a read by a holder returns the stored contents, never the poison of freed memory *)
  Lemma no_use_after_free : forall tr s s' obs, Inv s -> run init tr s = Some (s', obs) ->
    (forall o c, In (o, c) (refs s') -> exists v, mem s' c = Some v) /\
    (forall c, mem s' c = None -> forall o, ~ In (o, c) (refs s')) /\
    (forall t c s'' ob, step init t (OReadChunk c) s' = Some (s'', ob) ->
       exists v, mem s' c = Some v /\ ob = [EvChunk c v] /\ s'' = s').
  Proof.
    intros tr s s' obs I H. assert (I' : Inv s') by (eapply run_inv; eauto).
    assert (A : forall o c, In (o, c) (refs s') -> exists v, mem s' c = Some v).
    { intros o c Hin. pose proof (inv_holder_live s' o c I' Hin). destruct (mem s' c) as [v|]; [eauto|congruence]. }
    split; [exact A|]. split.
    - intros c E o Hin. destruct (A o c Hin) as [v Hv]. congruence.
    - intros t c s'' ob Hs. simpl in Hs. destruct (holds s' (Heap t) c) as [Hin|]; [|discriminate].
      destruct (A _ _ Hin) as [v Hv]. exists v. rewrite Hv in Hs. inversion Hs; subst. auto.
  Qed.

  (* the step that frees a chunk leaves no holder behind *)
  Lemma freed_without_holder : forall s t o s' ob c, Inv s -> step init t o s = Some (s', ob) ->
    mem s c <> None -> mem s' c = None -> forall o', ~ In (o', c) (refs s').
  Proof.
    intros s t o s' ob c I H _ E o' Hin. assert (I' : Inv s') by (eapply step_inv; eauto).
    exact (inv_holder_live s' o' c I' Hin E).
  Qed.

  (* quiescence: every heap dropped, every cache flushed, nothing in transit => all memory has been returned *)
  Lemma no_leak_at_quiescence : forall tr s s' obs, Inv s -> run init tr s = Some (s', obs) ->
    refs s' = [] -> forall c, mem s' c = None /\ rc s' c = 0.
  Proof.
    intros tr s s' obs I H E c. assert (I' : Inv s') by (eapply run_inv; eauto).
    assert (R : rc s' c = 0) by (rewrite (inv_rc s' I'), E; reflexivity).
    split; [apply (inv_live s' I'); exact R|exact R].
  Qed.

  (* ---------------------------------------------------------------------------------------------- *)
  (* once-cells *)

  Lemma step_once_obs : forall t o s s' ob x v, Inv s -> step init t o s = Some (s', ob) ->
    In (EvOnce x v) ob -> v = init x.
  Proof.
    intros t o s s' ob x v I H Hin. destruct o; simpl in H;
      try (inversion H; subst; simpl in Hin; now intuition discriminate);
      try (destruct (holds s _ c); [|discriminate]; inversion H; subst; simpl in Hin; now intuition discriminate);
      try (apply move_some in H; destruct H as (_ & _ & ->); now inversion Hin).
    destruct (pend s t) as [[x' v']|] eqn:Ep; [|inversion H; subst; inversion Hin].
    destruct (once s x') eqn:Eo; inversion H; subst; simpl in Hin; destruct Hin as [E|[]]; inversion E; subst.
    - apply (inv_once s I) in Eo. exact Eo.
    - apply (inv_pend s I) in Ep. exact Ep.
  Qed.

  Lemma run_once_obs : forall tr s s' obs t x v, Inv s -> run init tr s = Some (s', obs) ->
    In (t, EvOnce x v) obs -> v = init x.
  Proof.
    induction tr as [|[t0 o] tr IH]; simpl; intros s s' obs t x v I H Hin.
    - inversion H; subst. inversion Hin.
    - destruct (step init t0 o s) as [[s1 ob]|] eqn:E; [|discriminate].
      destruct (run init tr s1) as [[s2 obs2]|] eqn:E2; [|discriminate].
      inversion H; subst. apply in_app_or in Hin. destruct Hin as [Hin|Hin].
      + apply in_map_iff in Hin. destruct Hin as [e [He Hin]]. inversion He; subst.
        eapply step_once_obs; eauto.
      + eapply IH; [|exact E2|exact Hin]. eapply step_inv; eauto.
  Qed.

  (* under every interleaving of racing initialisers all observers of a once-cell see the same value *)
  Lemma once_single_value : forall tr s s' obs t1 t2 x v1 v2, Inv s -> run init tr s = Some (s', obs) ->
    In (t1, EvOnce x v1) obs -> In (t2, EvOnce x v2) obs -> v1 = v2 /\ v1 = init x.
  Proof.
    intros. assert (v1 = init x) by (eapply run_once_obs; eauto).
    assert (v2 = init x) by (eapply run_once_obs; eauto). split; congruence.
  Qed.

  (* a cell that is Done stays Done with the same value *)
  Lemma once_stable : forall t o s s' ob x v, step init t o s = Some (s', ob) -> once s x = Some v -> once s' x = Some v.
  Proof.
    intros t o s s' ob x v H E. destruct o; simpl in H;
      try (inversion H; subst; exact E);
      try (destruct (holds s _ c); [|discriminate]; inversion H; subst; exact E);
      try (apply move_some in H; destruct H as (_ & -> & _); exact E).
    destruct (pend s t) as [[x' v']|]; [|inversion H; subst; exact E].
    destruct (once s x') eqn:Eo; inversion H; subst; simpl; [exact E|].
    destruct (Nat.eq_dec x x'); [subst; congruence|]. rewrite updn_other by assumption. exact E.
  Qed.

  (* ---------------------------------------------------------------------------------------------- *)
  (* frozen data: never written; reads commute with everything *)

  Lemma frozen_never_written : forall t o s s' ob, step init t o s = Some (s', ob) -> forall x, fro s' x = fro s x.
  Proof.
    intros t o s s' ob H x. destruct o; simpl in H;
      try (inversion H; subst; reflexivity);
      try (destruct (holds s _ c); [|discriminate]; inversion H; subst; reflexivity);
      try (apply move_some in H; destruct H as (_ & -> & _); reflexivity).
    destruct (pend s t) as [[x' v']|]; [|inversion H; subst; reflexivity].
    destruct (once s x'); inversion H; subst; reflexivity.
  Qed.

  Lemma run_frozen_never_written : forall tr s s' obs, run init tr s = Some (s', obs) -> forall x, fro s' x = fro s x.
  Proof.
    induction tr as [|[t o] tr IH]; simpl; intros s s' obs H x.
    - inversion H; subst; reflexivity.
    - destruct (step init t o s) as [[s1 ob]|] eqn:E; [|discriminate].
      destruct (run init tr s1) as [[s2 obs2]|] eqn:E2; [|discriminate].
      inversion H; subst. rewrite (IH _ _ _ E2 x). eapply frozen_never_written; eauto.
  Qed.

  (* a read of a frozen cell does not change the state and observes the same value before and after ANY other step
     of ANY thread: the two orders give the same final state and the same observations *)
  Lemma frozen_read_commutes : forall s t1 x t2 o2 s2 ob2, step init t2 o2 s = Some (s2, ob2) ->
    step init t1 (OReadFrozen x) s = Some (s, [EvFrozen x (fro s x)]) /\
    step init t1 (OReadFrozen x) s2 = Some (s2, [EvFrozen x (fro s x)]).
  Proof.
    intros. split; [reflexivity|]. simpl. now rewrite (frozen_never_written _ _ _ _ _ H x).
  Qed.

  (* pointwise equality of states (the maps are functions) *)
  Definition state_eqv (a b : state) : Prop :=
    refs a = refs b /\ (forall c, rc a c = rc b c) /\ (forall c, mem a c = mem b c) /\
    (forall t, nextid a t = nextid b t) /\ (forall x, once a x = once b x) /\ (forall t, pend a t = pend b t) /\
    (forall t n, priv a t n = priv b t n) /\ (forall x, fro a x = fro b x).

  Definition private_op (o : op) : bool :=
    match o with OReadFrozen _ | OPrivWrite _ _ | OPrivRead _ => true | _ => false end.

  (* steps of two different threads that only read frozen cells or touch their own private data commute *)
  Lemma private_steps_commute : forall s t1 t2 o1 o2 s1 ob1 s12 ob2, t1 <> t2 ->
    private_op o1 = true -> private_op o2 = true ->
    step init t1 o1 s = Some (s1, ob1) -> step init t2 o2 s1 = Some (s12, ob2) ->
    exists s2 s21, step init t2 o2 s = Some (s2, ob2) /\ step init t1 o1 s2 = Some (s21, ob1) /\ state_eqv s12 s21.
  Proof.
    intros s t1 t2 o1 o2 s1 ob1 s12 ob2 Hne P1 P2 H1 H2.
    assert (Hne' : t2 <> t1) by congruence.
    destruct o1; try discriminate; destruct o2; try discriminate; simpl in *;
      inversion H1; subst; clear H1; inversion H2; subst; clear H2; simpl;
      try rewrite updn_other by assumption;
      eexists; eexists; (split; [reflexivity|]); simpl;
      try rewrite updn_other by assumption;
      (split; [reflexivity|]);
      unfold state_eqv; simpl; repeat split; try reflexivity.
    intros t n. unfold updn. destruct (Nat.eq_dec t t2), (Nat.eq_dec t t1); subst; try reflexivity. congruence.
  Qed.

  (* ---------------------------------------------------------------------------------------------- *)
  (* per-thread transcripts: the concurrent run simulates, thread by thread, the run of that thread alone *)

  Ltac step_cases H :=
    match type of H with
    | step _ ?t ?o ?s = Some _ =>
        destruct o; simpl in H;
        try (apply move_some in H; destruct H as (?Hh & -> & ->));
        try (match type of H with
             | (if holds ?s0 ?o0 ?c0 then _ else _) = _ => destruct (holds s0 o0 c0) as [?Hh|]; [|discriminate]
             end);
        try (match type of H with
             | match pend ?s0 ?t0 with _ => _ end = _ =>
                 let x := fresh "x" in let v := fresh "v" in
                 destruct (pend s0 t0) as [[x v]|] eqn:?Ep; [destruct (once s0 x) eqn:?Eo|]
             end);
        try (inversion H; subst; clear H)
    end.

  Definition mine_after (t : tid) (o : op) (n : nat) (m : list ref) : list ref :=
    match o with
    | OAlloc _ => (Heap t, (t, n)) :: m
    | OClone c => (Heap t, c) :: m
    | ODrop c => remove1 (Heap t, c) m
    | OCacheStore c => (Cache t, c) :: remove1 (Heap t, c) m
    | OCacheFetch c => (Heap t, c) :: remove1 (Cache t, c) m
    | OCacheEvict c => remove1 (Cache t, c) m
    | OSend c => remove1 (Heap t, c) m
    | ORecv c => (Heap t, c) :: m
    | _ => m
    end.

  Lemma step_mine_own : forall t o s s' ob, step init t o s = Some (s', ob) ->
    mine t (refs s') = mine_after t o (nextid s t) (mine t (refs s)).
  Proof.
    intros t o s s' ob H. step_cases H; simpl; try reflexivity;
      rewrite ?mine_cons; simpl fst; rewrite ?owner_is_heap, ?owner_is_cache;
      rewrite ?mine_remove1_mine by (simpl; apply Nat.eqb_refl); rewrite ?Nat.eqb_refl; try reflexivity.
    (* ORecv: the reference comes out of transit *)
    rewrite mine_remove1_other by reflexivity. reflexivity.
  Qed.

  Lemma step_frame_other : forall t t' o s s' ob, t' <> t -> step init t' o s = Some (s', ob) ->
    mine t (refs s') = mine t (refs s) /\ nextid s' t = nextid s t /\ pend s' t = pend s t /\
    (forall a, priv s' t a = priv s t a).
  Proof.
    intros t t' o s s' ob Hne H.
    pose proof (owner_is_heap_other t t' Hne) as Oh. pose proof (owner_is_cache_other t t' Hne) as Oc.
    assert (Hne' : t <> t') by congruence.
    assert (Eb : (t' =? t) = false) by (now apply Nat.eqb_neq).
    step_cases H; simpl; rewrite ?mine_cons; simpl fst; rewrite ?Oh, ?Oc; simpl; rewrite ?Eb;
      rewrite ?mine_remove1_other by (simpl; assumption || reflexivity);
      rewrite ?updn_other by assumption; auto.
  Qed.

  Lemma step_next_own : forall t o s s' ob, step init t o s = Some (s', ob) ->
    nextid s' t = match o with OAlloc _ => S (nextid s t) | _ => nextid s t end.
  Proof. intros t o s s' ob H. step_cases H; simpl; rewrite ?updn_same; reflexivity. Qed.

  Lemma once_val : forall s x, Inv s -> match once s x with Some v => v | None => init x end = init x.
  Proof. intros s x I. destruct (once s x) eqn:E; [apply (inv_once s I x); exact E|reflexivity]. Qed.

  Lemma step_pend_own : forall t o s s' ob, Inv s -> step init t o s = Some (s', ob) ->
    pend s' t = match o with OOnceBegin x => Some (x, init x) | OOnceEnd => None | _ => pend s t end.
  Proof.
    intros t o s s' ob I H. step_cases H; simpl; rewrite ?updn_same; try reflexivity.
    - now rewrite once_val.
    - exact Ep.
  Qed.

  Lemma step_priv_own : forall t o s s' ob, step init t o s = Some (s', ob) ->
    forall a, priv s' t a = match o with OPrivWrite a0 v => updn (priv s t) a0 v a | _ => priv s t a end.
  Proof. intros t o s s' ob H a. step_cases H; simpl; rewrite ?updn_same; reflexivity. Qed.

  Lemma step_mem_cases : forall t o s s' ob, step init t o s = Some (s', ob) -> forall c,
    mem s' c = mem s c \/ mem s' c = None \/
    (exists v, o = OAlloc v /\ c = (t, nextid s t) /\ mem s' c = Some v).
  Proof.
    intros t o s s' ob H c0. step_cases H; simpl; auto.
    - destruct (chunk_dec c0 (t, nextid s t)) as [e|n].
      + subst. right; right. exists v. rewrite updc_same. auto.
      + left. now rewrite updc_other.
    - destruct (pred (rc s c)); auto. destruct (chunk_dec c0 c) as [e|n].
      + subst. right; left. apply updc_same.
      + left. now rewrite updc_other.
    - destruct (pred (rc s c)); auto. destruct (chunk_dec c0 c) as [e|n].
      + subst. right; left. apply updc_same.
      + left. now rewrite updc_other.
  Qed.

  Lemma inv_unalloc : forall s t n, Inv s -> nextid s t <= n -> mem s (t, n) = None.
  Proof.
    intros s t n I H. apply (inv_live s I). rewrite (inv_rc s I). apply count_zero.
    intros o Hin. apply (inv_fresh s I) in Hin. lia.
  Qed.

  Record Sim (t : tid) (s1 s2 : state) : Prop := {
    sim_i1 : Inv s1;
    sim_i2 : Inv s2;
    sim_mine : mine t (refs s1) = mine t (refs s2);
    sim_mem : forall c, mem s1 c <> None -> mem s2 c <> None -> mem s1 c = mem s2 c;
    sim_next : nextid s1 t = nextid s2 t;
    sim_next_le : forall t', nextid s2 t' <= nextid s1 t';
    sim_pend : pend s1 t = pend s2 t;
    sim_priv : forall a, priv s1 t a = priv s2 t a;
    sim_fro : forall x, fro s1 x = fro s2 x
  }.

  Lemma sim_refl : forall t s, Inv s -> Sim t s s.
  Proof. intros; constructor; auto. Qed.

  Lemma sim_held : forall t s1 s2 o c, Sim t s1 s2 -> owner_is t o = true ->
    In (o, c) (refs s1) -> In (o, c) (refs s2).
  Proof.
    intros t s1 s2 o c S Ho H. assert (A : In (o, c) (mine t (refs s1))) by (apply mine_in; auto).
    rewrite (sim_mine _ _ _ S) in A. apply mine_in in A. tauto.
  Qed.

  Lemma step_next_mono : forall t o s s' ob t', step init t o s = Some (s', ob) -> nextid s t' <= nextid s' t'.
  Proof.
    intros t o s s' ob t' H. step_cases H; simpl; auto.
    unfold updn. destruct (Nat.eq_dec t' t); subst; lia.
  Qed.

  (* a step of another thread does not disturb the relation *)
  Lemma sim_other_step : forall t t' o s1 s2 s1' ob, t' <> t -> Sim t s1 s2 ->
    step init t' o s1 = Some (s1', ob) -> Sim t s1' s2.
  Proof.
    intros t t' o s1 s2 s1' ob Hne S H.
    destruct (step_frame_other t t' o s1 s1' ob Hne H) as (Fm & Fn & Fp & Fv).
    assert (I1' : Inv s1') by (eapply step_inv; [apply (sim_i1 _ _ _ S)|exact H]).
    constructor; try (apply S).
    - exact I1'.
    - rewrite Fm. apply S.
    - intros c L1 L2. destruct (step_mem_cases _ _ _ _ _ H c) as [E|[E|(v & -> & -> & E)]].
      + rewrite E in *. now apply (sim_mem _ _ _ S).
      + congruence.
      + exfalso. apply L2. apply inv_unalloc; [apply S|apply (sim_next_le _ _ _ S)].
    - rewrite Fn. apply S.
    - intros t0. pose proof (sim_next_le _ _ _ S t0). pose proof (step_next_mono _ _ _ _ _ t0 H). lia.
    - rewrite Fp. apply S.
    - intros a. rewrite Fv. apply S.
    - intros x. rewrite (frozen_never_written _ _ _ _ _ H x). apply S.
  Qed.

  (* a local step of the thread itself is enabled in the solo run too and makes the same observation *)
  Lemma own_step_enabled : forall t o s1 s2 s1' ob, Sim t s1 s2 -> local_op o = true ->
    step init t o s1 = Some (s1', ob) -> exists s2', step init t o s2 = Some (s2', ob).
  Proof.
    intros t o s1 s2 s1' ob S L H.
    pose proof (sim_i1 _ _ _ S) as I1. pose proof (sim_i2 _ _ _ S) as I2.
    pose proof (owner_is_heap t) as Oh. pose proof (owner_is_cache t) as Oc.
    destruct o; simpl in L; try discriminate; simpl in H |- *;
      try (eexists; reflexivity);
      try (unfold move in *);
      try (match type of H with
           | (if holds ?s0 ?o0 ?c0 then _ else _) = _ =>
               destruct (holds s0 o0 c0) as [Hh|]; [|discriminate];
               destruct (holds s2 o0 c0) as [Hh2|Hn2]; [|exfalso; apply Hn2; eapply sim_held; eauto]
           end); try (inversion H; subst; eexists; reflexivity).
    - (* OReadChunk *)
      inversion H; subst. eexists. f_equal. f_equal. f_equal. f_equal.
      rewrite (sim_mem _ _ _ S c); [reflexivity| |].
      + eapply inv_holder_live; eauto.
      + eapply inv_holder_live; eauto.
    - (* OReadFrozen *)
      inversion H; subst. rewrite (sim_fro _ _ _ S). eexists; reflexivity.
    - (* OOnceEnd *)
      rewrite <- (sim_pend _ _ _ S). destruct (pend s1 t) as [[x v]|] eqn:Ep.
      + pose proof (inv_pend s1 I1 _ _ _ Ep) as Ev. subst v.
        destruct (once s1 x) eqn:E1; inversion H; subst.
        * pose proof (inv_once s1 I1 _ _ E1); subst.
          destruct (once s2 x) eqn:E2; [pose proof (inv_once s2 I2 _ _ E2); subst|]; eexists; reflexivity.
        * destruct (once s2 x) eqn:E2; [pose proof (inv_once s2 I2 _ _ E2); subst|]; eexists; reflexivity.
      + inversion H; subst. eexists; reflexivity.
    - (* OPrivRead *)
      inversion H; subst. rewrite (sim_priv _ _ _ S). eexists; reflexivity.
  Qed.

  Lemma sim_own_step : forall t o s1 s2 s1' ob, Sim t s1 s2 -> local_op o = true ->
    step init t o s1 = Some (s1', ob) -> exists s2', step init t o s2 = Some (s2', ob) /\ Sim t s1' s2'.
  Proof.
    intros t o s1 s2 s1' ob S L H.
    destruct (own_step_enabled t o s1 s2 s1' ob S L H) as [s2' H2]. exists s2'. split; [exact H2|].
    pose proof (sim_i1 _ _ _ S) as I1. pose proof (sim_i2 _ _ _ S) as I2.
    assert (I1' : Inv s1') by (eapply step_inv; [exact I1|exact H]).
    assert (I2' : Inv s2') by (eapply step_inv; [exact I2|exact H2]).
    constructor; auto.
    - rewrite (step_mine_own _ _ _ _ _ H), (step_mine_own _ _ _ _ _ H2), (sim_mine _ _ _ S), (sim_next _ _ _ S). reflexivity.
    - intros c L1 L2.
      destruct (step_mem_cases _ _ _ _ _ H c) as [E1|[E1|(v1 & Eo1 & Ec1 & E1)]]; [|congruence|];
      destruct (step_mem_cases _ _ _ _ _ H2 c) as [E2|[E2|(v2 & Eo2 & Ec2 & E2)]]; try congruence.
      + rewrite E1, E2 in *. now apply (sim_mem _ _ _ S).
      + exfalso. apply L1. rewrite E1. subst c. rewrite <- (sim_next _ _ _ S). apply inv_unalloc; auto.
      + exfalso. apply L2. rewrite E2. subst c. rewrite (sim_next _ _ _ S). apply inv_unalloc; auto.
    - rewrite (step_next_own _ _ _ _ _ H), (step_next_own _ _ _ _ _ H2), (sim_next _ _ _ S). reflexivity.
    - intros t0. destruct (Nat.eq_dec t0 t) as [e|n].
      + subst t0. rewrite (step_next_own _ _ _ _ _ H), (step_next_own _ _ _ _ _ H2), (sim_next _ _ _ S). lia.
      + assert (n' : t <> t0) by congruence.
        destruct (step_frame_other t0 t o s1 s1' ob n' H) as (_ & F1 & _).
        destruct (step_frame_other t0 t o s2 s2' ob n' H2) as (_ & F2 & _).
        rewrite F1, F2. apply S.
    - rewrite (step_pend_own _ _ _ _ _ I1 H), (step_pend_own _ _ _ _ _ I2 H2), (sim_pend _ _ _ S). reflexivity.
    - intros a. rewrite (step_priv_own _ _ _ _ _ H), (step_priv_own _ _ _ _ _ H2).
      destruct o; try apply S. unfold updn. destruct (Nat.eq_dec a a0); [reflexivity|apply S].
    - intros x. rewrite (frozen_never_written _ _ _ _ _ H x), (frozen_never_written _ _ _ _ _ H2 x). apply S.
  Qed.

  Definition local_ops (t : tid) (tr : list (tid * op)) : Prop :=
    forall o, In (t, o) tr -> local_op o = true.

  Lemma filter_map_same : forall t (ob : list ev), filter (by_thread t) (map (pair t) ob) = map (pair t) ob.
  Proof.
    induction ob as [|e ob IHo]; simpl; [reflexivity|].
    unfold by_thread in *. simpl fst. rewrite Nat.eqb_refl. now rewrite IHo.
  Qed.

  Lemma filter_map_other : forall t t0 (ob : list ev), t0 <> t -> filter (by_thread t) (map (pair t0) ob) = [].
  Proof.
    induction ob as [|e ob IHo]; simpl; intros Hne; [reflexivity|].
    unfold by_thread in *. simpl fst. apply Nat.eqb_neq in Hne. rewrite Hne. apply IHo. now apply Nat.eqb_neq.
  Qed.

  Lemma sim_run : forall t tr s1 s2 s1' obs, Sim t s1 s2 -> local_ops t tr ->
    run init tr s1 = Some (s1', obs) ->
    exists s2', run init (proj t tr) s2 = Some (s2', proj t obs) /\ Sim t s1' s2'.
  Proof.
    induction tr as [|[t0 o] tr IH]; simpl; intros s1 s2 s1' obs S L H.
    - inversion H; subst. exists s2. split; [reflexivity|exact S].
    - destruct (step init t0 o s1) as [[s1a ob]|] eqn:E; [|discriminate].
      destruct (run init tr s1a) as [[s1b obs1]|] eqn:E2; [|discriminate].
      inversion H; subst; clear H.
      assert (L' : local_ops t tr) by (intros o' Hin; apply L; now right).
      unfold proj at 1. simpl. unfold by_thread at 1. simpl fst.
      destruct (Nat.eqb t0 t) eqn:Et.
      + apply Nat.eqb_eq in Et. subst t0.
        destruct (sim_own_step t o s1 s2 s1a ob S (L o (or_introl eq_refl)) E) as (s2a & H2 & S').
        destruct (IH s1a s2a s1' obs1 S' L' E2) as (s2b & R & S'').
        exists s2b. split; [|exact S'']. simpl. rewrite H2. fold (proj t tr). rewrite R.
        f_equal. f_equal. unfold proj. rewrite filter_app. f_equal.
        symmetry. apply filter_map_same.
      + apply Nat.eqb_neq in Et.
        assert (S' : Sim t s1a s2) by (eapply sim_other_step; eauto).
        destruct (IH s1a s2 s1' obs1 S' L' E2) as (s2b & R & S'').
        exists s2b. split; [|exact S'']. fold (proj t tr). rewrite R. f_equal. f_equal.
        unfold proj. rewrite filter_app.
        rewrite (filter_map_other t t0 ob Et). reflexivity.
  Qed.

  (* For every schedule: the operations of thread t, run alone from the same initial state, are all enabled and
     yield exactly the observations thread t made in the concurrent run (its transcript). *)
  Lemma concurrent_eq_sequential : forall tr s s' obs t, Inv s -> local_ops t tr ->
    run init tr s = Some (s', obs) ->
    exists s'', run init (proj t tr) s = Some (s'', proj t obs).
  Proof.
    intros tr s s' obs t I L H.
    destruct (sim_run t tr s s s' obs (sim_refl t s I) L H) as (s2 & R & _). eauto.
  Qed.
End Inv.

(* ------------------------------------------------------------------------------------------------ *)
(* the atomicity of the decrement (Model.v: xstep) *)

(* the extended relation is conservative: a schedule of atomic steps runs exactly as in the model *)
Lemma xrun_atomic : forall init tr s s' obs ld, run init tr s = Some (s', obs) ->
  xrun init (map (fun p => (fst p, XAtomic (snd p))) tr) (s, ld) = Some ((s', ld), obs).
Proof.
  induction tr as [|[t o] tr IH]; simpl; intros s s' obs ld H.
  - inversion H; subst. reflexivity.
  - destruct (step init t o s) as [[s1 ob]|] eqn:E; [|discriminate].
    destruct (run init tr s1) as [[s2 obs2]|] eqn:R; [|discriminate].
    inversion H; subst. rewrite (IH _ _ _ ld R). reflexivity.
Qed.

(* the two halves of a non-atomic decrement, scheduled next to each other, ARE the atomic drop: same enabledness, same
   final state, same (empty) observation - for every state *)
Lemma xdec_adjacent_is_drop : forall init t c s ld s' ob, ld t = None ->
  step init t (ODrop c) s = Some (s', ob) ->
  exists ld', xrun init [(t, XDecLoad c); (t, XDecStore)] (s, ld) = Some ((s', ld'), map (pair t) ob) /\ forall t', ld' t' = ld t'.
Proof.
  intros init t c s ld s' ob Hl H. simpl in H.
  destruct (holds s (Heap t) c) eqn:Hh; [|discriminate]. inversion H; subst; clear H.
  cbn [xrun xstep]. rewrite Hl, Hh. cbn [xrun xstep]. rewrite updn_same, Hh.
  eexists. split; [reflexivity|].
  intros t'. unfold updn. destruct (Nat.eq_dec t' t); [subst; symmetry; exact Hl|].
  destruct (Nat.eq_dec t' t); [contradiction|reflexivity].
Qed.

Lemma xdec_adjacent_enabled_iff : forall init t c s ld, ld t = None ->
  (step init t (ODrop c) s = None <-> xrun init [(t, XDecLoad c); (t, XDecStore)] (s, ld) = None).
Proof.
  intros init t c s ld Hl. cbn [xrun xstep step]. rewrite Hl.
  destruct (holds s (Heap t) c) eqn:Hh.
  - cbn [xrun xstep]. rewrite updn_same, Hh. split; discriminate.
  - split; reflexivity.
Qed.

(* ------------------------------------------------------------------------------------------------ *)
(* once-cells with a per-thread initialiser (Model.v: tstep / trun) *)

Lemma step_init_ext : forall f g t o s, (forall x, f x = g x) -> step f t o s = step g t o s.
Proof. intros f g t o s E. destruct o; simpl; try reflexivity. rewrite (E x). reflexivity. Qed.

Lemma trun_independent_is_run : forall initT f, (forall t x, initT t x = f x) ->
  forall tr s, trun initT tr s = run f tr s.
Proof.
  intros initT f E. induction tr as [|[t o] tr IH]; simpl; intros s; [reflexivity|].
  unfold tstep. rewrite (step_init_ext (initT t) f t o s (E t)).
  destruct (step f t o s) as [[s1 ob]|]; [|reflexivity]. rewrite IH. reflexivity.
Qed.

(* a once-cell whose initial value does not depend on the initialising thread is unobservable: for every schedule,
   the operations of thread t run alone give exactly t's observations in the concurrent run *)
Lemma once_thread_independent_unobservable : forall initT tr s s' obs t, thread_independent initT ->
  Inv (initT t) s -> local_ops t tr ->
  trun initT tr s = Some (s', obs) ->
  exists s'', trun initT (proj t tr) s = Some (s'', proj t obs).
Proof.
  intros initT tr s s' obs t TI I L H.
  assert (E : forall t' x, initT t' x = initT t x) by (intros; apply TI).
  rewrite (trun_independent_is_run initT (initT t) E) in H.
  destruct (concurrent_eq_sequential (initT t) tr s s' obs t I L H) as (s'' & R).
  exists s''. rewrite (trun_independent_is_run initT (initT t) E). exact R.
Qed.

(* ... whereas a once-cell whose candidate depends on the initialiser IS observable: from any state in which the cell is
   still empty, let t1 initialise first and then t2; t2 observes t1's value, alone it observes its own *)
Lemma once_thread_dependent_observable : forall initT t1 t2 x s, once s x = None -> initT t1 x <> initT t2 x ->
  exists s' s'',
    trun initT [(t1, OOnceBegin x); (t1, OOnceEnd); (t2, OOnceBegin x); (t2, OOnceEnd)] s
      = Some (s', [(t1, EvOnce x (initT t1 x)); (t2, EvOnce x (initT t1 x))]) /\
    trun initT (proj t2 [(t1, OOnceBegin x); (t1, OOnceEnd); (t2, OOnceBegin x); (t2, OOnceEnd)]) s
      = Some (s'', [(t2, EvOnce x (initT t2 x))]) /\
    proj t2 [(t1, EvOnce x (initT t1 x)); (t2, EvOnce x (initT t1 x))] <> [(t2, EvOnce x (initT t2 x))].
Proof.
  intros initT t1 t2 x s On Hne.
  assert (Ht : t1 <> t2) by (intros ->; apply Hne; reflexivity).
  assert (Eb : Nat.eqb t1 t2 = false) by (apply Nat.eqb_neq; exact Ht).
  eexists. eexists. split; [|split].
  - cbn [trun tstep step]. rewrite On. cbn [set_pend pend once]. rewrite updn_same.
    rewrite On. cbn [trun tstep step set_pend set_once pend once map app]. rewrite updn_same.
    cbn [trun tstep step set_pend set_once pend once map app]. rewrite !updn_same.
    cbn [map app]. reflexivity.
  - unfold proj. cbn [filter]. unfold by_thread. cbn [fst]. rewrite Eb, Nat.eqb_refl.
    cbn [trun tstep step]. rewrite On. cbn [set_pend pend once]. rewrite updn_same. rewrite On.
    cbn [map app]. reflexivity.
  - unfold proj. cbn [filter]. unfold by_thread. cbn [fst]. rewrite Eb, Nat.eqb_refl.
    intros E. inversion E. apply Hne. assumption.
Qed.
