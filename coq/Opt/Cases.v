(* C02: a concrete instance of the IR semantics (world = transcript) used by the examples of Properties/C02.v
   and by the white-box comparison driver: the model optimiser run on concrete IR terms. *)
From Coq Require Import ZArith String List Bool.
From SV Require Import Extracted.OptC Opt.Model Opt.Sem.
Import ListNotations.
Open Scope string_scope.

Definition W0 := list value.                         (* transcript, most recent first *)

Definition fn_emit : nat := 2%nat.
Definition fn_fail : nat := 3%nat.
Definition fn_opaque : nat := 4%nat.
Definition fn_str : nat := 5%nat.                    (* marked speculative_exec_safe *)

Definition ops0 : ops := {|
  o_un := fun _ _ => CErr "unsupported operand";
  o_bin := fun _ _ _ => CErr "unsupported operands";
  o_slice := fun _ _ _ _ => CErr "unsupported slice";
  o_spec := fun p => if Nat.eqb p fn_str
                     then Some (fun vs => match vs with
                                          | [VStr s] => CV (VStr s)
                                          | [VBool true] => CV (VStr "True") | [VBool false] => CV (VStr "False")
                                          | [VNone] => CV (VStr "None")
                                          | _ => CErr "str: unsupported" end)
                     else None;
  o_pct := fun _ => false
|}.

Definition prim0 (p : nat) (vs : list value) (w : W0) : res W0 value :=
  if Nat.eqb p fn_emit then match vs with [v] => Ok VNone (v :: w) | _ => Err "emit: arity" w end
  else if Nat.eqb p fn_fail then Err "fail" w
  else if Nat.eqb p fn_opaque then match vs with [v] => Ok v w | _ => Err "opaque: arity" w end
  else Err "unknown native function" w.

Definition heap_un0 (o : un) (v : value) (w : W0) : res W0 value := Err "unsupported operand" w.
Definition heap_bin0 (o : bop) (a b : value) (w : W0) : res W0 value :=
  match o, a, b with
  | Add, VList x, VList y => Ok (VList (x ++ y)) w
  | ArrayIndex, VList l, VInt i => match nth_error l (Z.to_nat i) with Some v => Ok v w | None => Err "Index out of bound" w end
  | _, _, _ => Err "unsupported operands" w
  end.
Definition heap_slice0 (a lo hi st : value) (w : W0) : res W0 value := Err "unsupported slice" w.
Definition dict_check0 (vs : list value) : option string := None.
Definition ref_truth0 (w : W0) (r : nat) : bool := true.
Definition ref_iter0 (w : W0) (r : nat) : option (list value) := None.
Definition set_index0 (a i v : value) (w : W0) : res W0 unit := Err "unsupported assignment" w.

Definition eval0 (defs : nat -> option (nat * expr)) (mods : frame) (fuel : nat) (fr : frame) (e : expr) (w : W0) :=
  eval W0 ops0 prim0 heap_un0 heap_bin0 heap_slice0 dict_check0 ref_truth0 defs mods fuel fr e w.

Definition exec0 (defs : nat -> option (nat * expr)) (fuel : nat) (ss : list stmt) (s : state W0) :=
  exec_block W0 ops0 prim0 heap_un0 heap_bin0 heap_slice0 dict_check0 ref_truth0 ref_iter0 set_index0 defs fuel ss s.

(* an instance in which building a dict fails the way it does in Starlark: a key that is (or contains) a list or a dict is
   not hashable; a key that occurs twice in a display is refused.  vs = k1; v1; k2; v2 ... *)
Fixpoint hashable (v : value) : bool :=
  match v with
  | VList _ | VFList _ | VDict _ | VRef _ => false
  | VTuple l => (fix go (l : list value) : bool := match l with [] => true | x :: t => hashable x && go t end) l
  | _ => true
  end.

Definition scalar_eqb (a b : value) : bool :=
  match a, b with
  | VNone, VNone => true | VBool x, VBool y => Bool.eqb x y | VInt x, VInt y => Z.eqb x y | VStr x, VStr y => String.eqb x y
  | _, _ => false
  end.

Fixpoint dict_check1_go (seen : list value) (vs : list value) : option string :=
  match vs with
  | k :: _ :: rest =>
      if negb (hashable k) then Some ("Value of type `" ++ type_of k ++ "` is not hashable")
      else if existsb (scalar_eqb k) seen then Some "Dictionary key repeated"
      else dict_check1_go (k :: seen) rest
  | _ => None
  end.
Definition dict_check1 : list value -> option string := dict_check1_go [].

Definition eval1 (defs : nat -> option (nat * expr)) (mods : frame) (fuel : nat) (fr : frame) (e : expr) (w : W0) :=
  eval W0 ops0 prim0 heap_un0 heap_bin0 heap_slice0 dict_check1 ref_truth0 defs mods fuel fr e w.

Definition no_defs : nat -> option (nat * expr) := fun _ => None.
Definition no_frozen : nat -> option value := fun _ => None.

Definition optimize0 (defs : nat -> option (nat * expr)) (pc : nat) (e : expr) : expr :=
  optimize ops0 defs pc no_frozen e.
Definition optimize_stmts0 (defs : nat -> option (nat * expr)) (pc : nat) (ss : list stmt) : list stmt :=
  optimize_stmts ops0 defs pc no_frozen iterable_empty_excludes_str ss.

Definition emit (e : expr) : expr := Call (Value (VPrim fn_emit)) [e].
Definition st0 (locals mods : frame) : state W0 := {| locals := locals; modules := mods; world := [] |}.

(* an instance whose slice with all bounds absent is the identity on strings (as in Starlark) *)
Definition ops1 : ops := {|
  o_un := o_un ops0; o_bin := o_bin ops0;
  o_slice := fun a lo hi st => match a, lo, hi, st with
                               | VStr s, VNone, VNone, VNone => CV (VStr s)
                               | _, _, _, _ => CErr "unsupported slice" end;
  o_spec := o_spec ops0; o_pct := o_pct ops0
|}.
