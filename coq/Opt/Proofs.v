(* C02: soundness of the optimiser model (Opt/Model.v) w.r.t. the IR semantics (Opt/Sem.v). *)
From Coq Require Import ZArith String List Bool Lia.
From SV Require Import Extracted.OptC Opt.Model Opt.Sem.
Import ListNotations.
Open Scope string_scope.

(* induction principle for the nested inductive `expr` *)
Section ExprInd.
  Variable P : expr -> Prop.
  Hypothesis HValue : forall v, P (Value v).
  Hypothesis HLocal : forall i, P (Local i).
  Hypothesis HModule : forall i, P (Module i).
  Hypothesis HTuple : forall xs, Forall P xs -> P (Tuple xs).
  Hypothesis HList : forall xs, Forall P xs -> P (List xs).
  Hypothesis HDict : forall xs, Forall P xs -> P (Dict xs).
  Hypothesis HIf : forall c t f, P c -> P t -> P f -> P (If c t f).
  Hypothesis HSlice : forall a b c d, P a -> P b -> P c -> P d -> P (Slice a b c d).
  Hypothesis HB1 : forall o x, P x -> P (Builtin1 o x).
  Hypothesis HLog : forall o l r, P l -> P r -> P (LogicalBinOp o l r).
  Hypothesis HSeq : forall l r, P l -> P r -> P (Seq l r).
  Hypothesis HB2 : forall o l r, P l -> P r -> P (Builtin2 o l r).
  Hypothesis HCall : forall f args, P f -> Forall P args -> P (Call f args).
  Hypothesis HInl : forall x, P x -> P (Inlined x).

  Fixpoint expr_ind' (e : expr) : P e :=
    let all := fix all (l : list expr) : Forall P l :=
      match l with [] => Forall_nil P | x :: t => Forall_cons x (expr_ind' x) (all t) end in
    match e with
    | Value v => HValue v | Local i => HLocal i | Module i => HModule i
    | Tuple xs => HTuple xs (all xs) | List xs => HList xs (all xs) | Dict xs => HDict xs (all xs)
    | If c t f => HIf c t f (expr_ind' c) (expr_ind' t) (expr_ind' f)
    | Slice a b c d => HSlice a b c d (expr_ind' a) (expr_ind' b) (expr_ind' c) (expr_ind' d)
    | Builtin1 o x => HB1 o x (expr_ind' x)
    | LogicalBinOp o l r => HLog o l r (expr_ind' l) (expr_ind' r)
    | Seq l r => HSeq l r (expr_ind' l) (expr_ind' r)
    | Builtin2 o l r => HB2 o l r (expr_ind' l) (expr_ind' r)
    | Call f args => HCall f args (expr_ind' f) (all args)
    | Inlined x => HInl x (expr_ind' x)
    end.
End ExprInd.

Section Proofs.
  Variable W : Type.
  Variable OP : ops.
  Variable prim : nat -> list value -> W -> res W value.
  Variable heap_un : un -> value -> W -> res W value.
  Variable heap_bin : bop -> value -> value -> W -> res W value.
  Variable heap_slice : value -> value -> value -> value -> W -> res W value.
  Variable dict_check : list value -> option string.
  Variable ref_truth : W -> nat -> bool.
  Variable ref_iter : W -> nat -> option (list value).
  Variable set_index : value -> value -> value -> W -> res W unit.
  Variable defs : nat -> option (nat * expr).
  Variable mods : frame.

  Notation eval := (eval W OP prim heap_un heap_bin heap_slice dict_check ref_truth defs mods).
  Notation truth := (truth W ref_truth).
  Notation bin_eval := (bin_eval W OP heap_bin ref_truth).
  Notation un_eval := (un_eval W OP heap_un heap_bin ref_truth).
  Notation slice_eval := (slice_eval W OP heap_slice).
  Notation prim_sem := (prim_sem W OP prim).
  Notation mk_dict := (mk_dict W dict_check).
  Notation RV := (res W value).

  (* ---- unfolding equations ------------------------------------------------------------------------- *)
  Lemma eval_Value fuel fr v w : eval fuel fr (Value v) w = Ok v w.
  Proof. destruct fuel; reflexivity. Qed.
  Lemma eval_Local fuel fr i w : eval fuel fr (Local i) w = read_slot W "Local variable" fr i w.
  Proof. destruct fuel; reflexivity. Qed.
  Lemma eval_Module fuel fr i w : eval fuel fr (Module i) w = read_slot W "Module variable" mods i w.
  Proof. destruct fuel; reflexivity. Qed.
  Lemma eval_Tuple fuel fr xs w :
    eval fuel fr (Tuple xs) w = bind W (mapM W (eval fuel fr) xs) (fun vs w => Ok (VTuple vs) w) w.
  Proof. destruct fuel; reflexivity. Qed.
  Lemma eval_List fuel fr xs w :
    eval fuel fr (List xs) w = bind W (mapM W (eval fuel fr) xs) (fun vs w => Ok (VList vs) w) w.
  Proof. destruct fuel; reflexivity. Qed.
  Lemma eval_Dict fuel fr xs w : eval fuel fr (Dict xs) w = bind W (mapM W (eval fuel fr) xs) mk_dict w.
  Proof. destruct fuel; reflexivity. Qed.
  Lemma eval_If fuel fr c t f w :
    eval fuel fr (If c t f) w =
    bind W (eval fuel fr c) (fun cv w => if truth w cv then eval fuel fr t w else eval fuel fr f w) w.
  Proof. destruct fuel; reflexivity. Qed.
  Lemma eval_Slice fuel fr a lo hi st w :
    eval fuel fr (Slice a lo hi st) w =
    bind W (eval fuel fr a) (fun av => bind W (eval fuel fr lo) (fun lv => bind W (eval fuel fr hi) (fun hv =>
      bind W (eval fuel fr st) (fun sv => slice_eval av lv hv sv)))) w.
  Proof. destruct fuel; reflexivity. Qed.
  Lemma eval_B1 fuel fr o x w : eval fuel fr (Builtin1 o x) w = bind W (eval fuel fr x) (un_eval o) w.
  Proof. destruct fuel; reflexivity. Qed.
  Lemma eval_Log fuel fr o l r w :
    eval fuel fr (LogicalBinOp o l r) w =
    bind W (eval fuel fr l) (fun lv w =>
      match o with
      | And => if truth w lv then eval fuel fr r w else Ok lv w
      | Or => if truth w lv then Ok lv w else eval fuel fr r w
      end) w.
  Proof. destruct fuel; reflexivity. Qed.
  Lemma eval_Seq fuel fr l r w : eval fuel fr (Seq l r) w = bind W (eval fuel fr l) (fun _ => eval fuel fr r) w.
  Proof. destruct fuel; reflexivity. Qed.
  Lemma eval_B2 fuel fr o l r w :
    eval fuel fr (Builtin2 o l r) w =
    bind W (eval fuel fr l) (fun lv => bind W (eval fuel fr r) (fun rv => bin_eval o lv rv)) w.
  Proof. destruct fuel; reflexivity. Qed.

  Definition apply_fn (fuel : nat) (fv : value) (vs : list value) : W -> RV :=
    match fv with
    | VPrim p => prim_sem p vs
    | VDef d =>
        match defs d with
        | Some (np, body) =>
            if Nat.eqb np (List.length vs)
            then match fuel with
                 | O => fun _ => OutOfFuel
                 | S k => eval k (map Some vs) body
                 end
            else fun w => Err "Wrong number of arguments" w
        | None => fun w => Err "Unknown def" w
        end
    | _ => fun w => Err "Not callable" w
    end.

  Lemma eval_Call fuel fr f args w :
    eval fuel fr (Call f args) w =
    bind W (eval fuel fr f) (fun fv => bind W (mapM W (eval fuel fr) args) (fun vs => apply_fn fuel fv vs)) w.
  Proof. destruct fuel; reflexivity. Qed.
  Lemma eval_Inlined_S k fr x w : eval (S k) fr (Inlined x) w = eval k fr x w.
  Proof. reflexivity. Qed.
  Lemma eval_Inlined_O fr x w : eval O fr (Inlined x) w = OutOfFuel.
  Proof. reflexivity. Qed.

  (* ---- congruence ------------------------------------------------------------------------------------ *)
  Lemma bind_ext {A B} (m1 m2 : W -> res W A) (f1 f2 : A -> W -> res W B) w :
    (forall w, m1 w = m2 w) -> (forall a w, f1 a w = f2 a w) -> bind W m1 f1 w = bind W m2 f2 w.
  Proof. intros H1 H2. unfold bind. rewrite H1. destruct (m2 w); auto. Qed.

  Lemma mapM_ext {A B} (f g : A -> W -> res W B) l :
    Forall (fun x => forall w, f x w = g x w) l -> forall w, mapM W f l w = mapM W g l w.
  Proof.
    induction 1 as [|x t Hx Ht IH]; intros w; simpl; auto.
    rewrite Hx. destruct (g x w); auto. rewrite IH. reflexivity.
  Qed.

  Lemma mapM_map {A B C} (h : C -> A) (f : A -> W -> res W B) l w :
    mapM W f (map h l) w = mapM W (fun x => f (h x)) l w.
  Proof.
    revert w; induction l as [|x t IH]; intros w; simpl; auto.
    destruct (f (h x) w); auto. rewrite IH. reflexivity.
  Qed.

  (* ---- frozen values ----------------------------------------------------------------------------------- *)
  Lemma truth_frozen w v : frozenb v = true -> truth w v = truth0 v.
  Proof. destruct v; simpl; intros; try reflexivity; discriminate. Qed.

  Lemma truth_notref w v : (forall r, v <> VRef r) -> truth w v = truth0 v.
  Proof. destruct v; simpl; intros H; try reflexivity. exfalso; eapply H; eauto. Qed.

  Lemma as_value_some e v : as_value e = Some v -> e = Value v /\ frozenb v = true.
  Proof.
    destruct e; simpl; try discriminate. destruct (frozenb v0) eqn:E; try discriminate.
    intros H; inversion H; subst; auto.
  Qed.

  Lemma as_builtin_value_some e v : as_builtin_value e = Some v -> e = Value v /\ frozenb v = true.
  Proof.
    unfold as_builtin_value. destruct (as_value e) eqn:E; try discriminate.
    destruct (is_builtin v0); try discriminate. intros H; inversion H; subst. apply as_value_some; auto.
  Qed.

  Lemma all_values_some xs vs :
    all_values xs = Some vs -> xs = map Value vs /\ forallb frozenb vs = true.
  Proof.
    revert vs; induction xs as [|x t IH]; simpl; intros vs H.
    - inversion H; subst; auto.
    - destruct (as_value x) eqn:Ex; try discriminate. destruct (all_values t) eqn:Et; try discriminate.
      inversion H; subst. apply as_value_some in Ex as [-> Hf]. destruct (IH _ eq_refl) as [-> Hfs].
      simpl. rewrite Hf, Hfs. auto.
  Qed.

  Lemma mapM_values fuel fr vs w : mapM W (eval fuel fr) (map Value vs) w = Ok vs w.
  Proof.
    revert w; induction vs as [|v t IH]; intros w; simpl; auto.
    rewrite eval_Value. rewrite IH. reflexivity.
  Qed.

  (* ---- try_value / try_cres: the folded expression evaluates to the compile-time result, in every state -- *)
  Lemma try_value_sound v e : try_value v = Some e -> forall fuel fr w, eval fuel fr e w = Ok v w.
  Proof.
    unfold try_value. destruct (frozenb v) eqn:F.
    - intros H; inversion H; subst. intros. apply eval_Value.
    - destruct v; try discriminate. destruct (forallb frozenb l); try discriminate.
      intros H; inversion H; subst. intros. rewrite eval_List. unfold bind. rewrite mapM_values. reflexivity.
  Qed.

  Lemma try_cres_sound c e : try_cres c = Some e -> forall fuel fr w, eval fuel fr e w = lift W c w.
  Proof.
    destruct c; simpl; try discriminate. intros H fuel fr w. eapply try_value_sound in H. apply H.
  Qed.

  (* ---- purity ------------------------------------------------------------------------------------------- *)
  Definition pure_ok (e : expr) : Prop :=
    forall fuel fr w, exists v, eval fuel fr e w = Ok v w /\ (forall r, v <> VRef r \/ True).

  Lemma mapM_pure fuel fr xs :
    Forall (fun x => forall w, exists v, eval fuel fr x w = Ok v w) xs ->
    forall w, exists vs, mapM W (eval fuel fr) xs w = Ok vs w /\ List.length vs = List.length xs.
  Proof.
    induction 1 as [|x t Hx Ht IH]; intros w; simpl.
    - exists []; auto.
    - destruct (Hx w) as [v Hv]. rewrite Hv. destruct (IH w) as [vs [Hvs Hl]]. rewrite Hvs.
      exists (v :: vs); simpl; auto.
  Qed.

  (* C02_pure_infallible_sound, part 1 *)
  Lemma pure_infallible_eval e :
    is_pure_infallible e = true -> forall fuel fr w, exists v, eval fuel fr e w = Ok v w.
  Proof.
    induction e using expr_ind'; simpl; intros Hp fuel fr w; try discriminate.
    - eexists; apply eval_Value.
    - (* Tuple *)
      assert (Hall : Forall (fun x => forall w, exists v, eval fuel fr x w = Ok v w) xs).
      { induction H as [|x t Hx Ht IH]; constructor.
        - apply andb_true_iff in Hp as [Hp1 _]. intros w'. apply Hx; auto.
        - apply IH. apply andb_true_iff in Hp as [_ Hp2]. exact Hp2. }
      destruct (mapM_pure fuel fr xs Hall w) as [vs [Hvs _]].
      rewrite eval_Tuple. unfold bind. rewrite Hvs. eauto.
    - (* List *)
      assert (Hall : Forall (fun x => forall w, exists v, eval fuel fr x w = Ok v w) xs).
      { induction H as [|x t Hx Ht IH]; constructor.
        - apply andb_true_iff in Hp as [Hp1 _]. intros w'. apply Hx; auto.
        - apply IH. apply andb_true_iff in Hp as [_ Hp2]. exact Hp2. }
      destruct (mapM_pure fuel fr xs Hall w) as [vs [Hvs _]].
      rewrite eval_List. unfold bind. rewrite Hvs. eauto.
    - (* Dict *)
      destruct xs; try discriminate. rewrite eval_Dict. unfold bind. simpl. eauto.
    - (* If *)
      apply andb_true_iff in Hp as [Hp Hf]. apply andb_true_iff in Hp as [Hc Ht].
      rewrite eval_If. unfold bind. destruct (IHe1 Hc fuel fr w) as [cv Hcv]. rewrite Hcv.
      destruct (truth w cv); [apply IHe2 | apply IHe3]; auto.
    - (* Builtin1 *)
      destruct o; try discriminate; rewrite eval_B1; unfold bind;
        destruct (IHe Hp fuel fr w) as [v Hv]; rewrite Hv; simpl; eauto.
    - (* LogicalBinOp *)
      apply andb_true_iff in Hp as [Hl Hr]. rewrite eval_Log. unfold bind.
      destruct (IHe1 Hl fuel fr w) as [lv Hlv]. rewrite Hlv.
      destruct o; destruct (truth w lv); eauto.
    - (* Seq *)
      apply andb_true_iff in Hp as [Hl Hr]. rewrite eval_Seq. unfold bind.
      destruct (IHe1 Hl fuel fr w) as [lv Hlv]. rewrite Hlv. apply IHe2; auto.
    - (* Call: type(x) *)
      destruct e; try discriminate. destruct v; try discriminate.
      destruct args as [|x [|? ?]]; try discriminate.
      apply andb_true_iff in Hp as [Hp1 Hp2]. apply Nat.eqb_eq in Hp1. subst p.
      inversion H as [|? ? Hx _]; subst.
      rewrite eval_Call. unfold bind. rewrite eval_Value. simpl.
      destruct (Hx Hp2 fuel fr w) as [v Hv]. rewrite Hv. unfold Sem.prim_sem. simpl. eauto.
  Qed.

  Lemma all_pure_mapM xs :
    all_pure_infallible xs = true ->
    forall fuel fr w, exists vs, mapM W (eval fuel fr) xs w = Ok vs w /\ List.length vs = List.length xs.
  Proof.
    intros H fuel fr. apply mapM_pure. unfold all_pure_infallible in H. rewrite forallb_forall in H.
    apply Forall_forall. intros x Hx w. apply pure_infallible_eval. auto.
  Qed.

  (* C02_pure_infallible_sound, part 2: the predicted truth value *)
  Lemma to_bool_sound e : forall b,
    is_pure_infallible_to_bool e = Some b ->
    forall fuel fr w, exists v, eval fuel fr e w = Ok v w /\ truth w v = b.
  Proof.
    induction e using expr_ind'; simpl; intros b Hb fuel fr w; try discriminate.
    - destruct (frozenb v) eqn:F; try discriminate. inversion Hb; subst.
      exists v. rewrite eval_Value. split; auto. apply truth_frozen; auto.
    - destruct (all_pure_infallible xs) eqn:Ha; try discriminate. inversion Hb; subst.
      destruct (all_pure_mapM xs Ha fuel fr w) as [vs [Hvs Hl]].
      rewrite eval_Tuple. unfold bind. rewrite Hvs. eexists; split; eauto. simpl.
      destruct xs, vs; simpl in *; try discriminate; auto.
    - destruct (all_pure_infallible xs) eqn:Ha; try discriminate. inversion Hb; subst.
      destruct (all_pure_mapM xs Ha fuel fr w) as [vs [Hvs Hl]].
      rewrite eval_List. unfold bind. rewrite Hvs. eexists; split; eauto. simpl.
      destruct xs, vs; simpl in *; try discriminate; auto.
    - destruct xs; try discriminate. inversion Hb; subst. rewrite eval_Dict. unfold bind. simpl. eauto.
    - destruct o; try discriminate.
      destruct (is_pure_infallible_to_bool e) eqn:E; try discriminate. inversion Hb; subst.
      destruct (IHe _ eq_refl fuel fr w) as [v [Hv Ht]].
      rewrite eval_B1. unfold bind. rewrite Hv. simpl. eexists; split; eauto. simpl. rewrite Ht. reflexivity.
    - rewrite eval_Log. unfold bind.
      destruct (is_pure_infallible_to_bool e1) as [b1|] eqn:E1.
      + destruct (IHe1 _ eq_refl fuel fr w) as [v1 [Hv1 Ht1]]. rewrite Hv1. rewrite Ht1.
        destruct o, b1; try (inversion Hb; subst; eexists; split; eauto; fail).
        * apply IHe2; auto.
        * apply IHe2; auto.
      + destruct o; discriminate.
  Qed.

  (* ---- seq, logical_bin_op, not -------------------------------------------------------------------------- *)
  Lemma seq_sound l r fuel fr w : eval fuel fr (seq_c l r) w = eval fuel fr (Seq l r) w.
  Proof.
    unfold seq_c. destruct (is_pure_infallible l) eqn:E; auto.
    rewrite eval_Seq. unfold bind. destruct (pure_infallible_eval l E fuel fr w) as [v Hv]. rewrite Hv. reflexivity.
  Qed.

  Lemma logical_bin_op_sound op l r fuel fr w :
    eval fuel fr (logical_bin_op op l r) w = eval fuel fr (LogicalBinOp op l r) w.
  Proof.
    unfold logical_bin_op. destruct (is_pure_infallible_to_bool l) as [lv|] eqn:E; auto.
    destruct (to_bool_sound l lv E fuel fr w) as [v [Hv Ht]].
    rewrite eval_Log. unfold bind. rewrite Hv, Ht.
    destruct op, lv; simpl; auto.
  Qed.

  Lemma definitely_bool e : is_definitely_bool e = true ->
    forall fuel fr w v w', eval fuel fr e w = Ok v w' -> exists b, v = VBool b.
  Proof.
    destruct e; simpl; try discriminate; intros Hd fuel fr w v' w' He.
    - destruct v; try discriminate. rewrite eval_Value in He. inversion He; eauto.
    - rewrite eval_B1 in He. unfold bind in He. destruct (eval fuel fr e w); try discriminate.
      destruct o; try discriminate; simpl in He; inversion He; eauto.
    - rewrite eval_B2 in He. unfold bind in He. destruct (eval fuel fr e1 w); try discriminate.
      destruct (eval fuel fr e2 w0); try discriminate.
      unfold Sem.bin_eval in He.
      assert (Hb : is_bool_op o = true) by (destruct o; try discriminate; reflexivity).
      destruct (frozenb a && frozenb a0).
      + unfold pure_bin in He. destruct (pure_bin0 OP o a a0); simpl in He; try discriminate.
        rewrite Hb in He. simpl in He. inversion He; eauto.
      + unfold boolify in He. rewrite Hb in He. destruct (heap_bin o a a0 w1); try discriminate.
        inversion He; eauto.
  Qed.

  Lemma not_sound e fuel fr w : eval fuel fr (not_c e) w = eval fuel fr (Builtin1 Not e) w.
  Proof.
    destruct e; simpl; auto.
    - destruct (frozenb v) eqn:F; auto. rewrite eval_B1. unfold bind. rewrite !eval_Value. simpl.
      rewrite truth_frozen; auto.
    - destruct o; auto. destruct (is_definitely_bool e) eqn:D; auto.
      rewrite !eval_B1. unfold bind. rewrite eval_B1. unfold bind.
      destruct (eval fuel fr e w) eqn:He; auto. simpl.
      destruct (definitely_bool e D _ _ _ _ _ He) as [b ->]. simpl. rewrite negb_involutive. reflexivity.
  Qed.

  (* ---- ExprCompiledBool::new ----------------------------------------------------------------------------- *)
  Definition truth_equiv (r1 r2 : RV) : Prop :=
    match r1, r2 with
    | Ok v1 w1, Ok v2 w2 => w1 = w2 /\ truth w1 v1 = truth w2 v2
    | Err m1 w1, Err m2 w2 => m1 = m2 /\ w1 = w2
    | OutOfFuel, OutOfFuel => True
    | _, _ => False
    end.

  Lemma truth_equiv_refl r : truth_equiv r r.
  Proof. destruct r; simpl; auto. Qed.

  Definition bool_ok (e : expr) (b : bexpr) : Prop :=
    match b with
    | BConst c => forall fuel fr w, exists v, eval fuel fr e w = Ok v w /\ truth w v = c
    | BExpr e' => forall fuel fr w, truth_equiv (eval fuel fr e' w) (eval fuel fr e w)
    end.

  Lemma bool_ok_into e b : bool_ok e b ->
    forall fuel fr w, truth_equiv (eval fuel fr (b_into_expr b) w) (eval fuel fr e w).
  Proof.
    destruct b; simpl; intros H fuel fr w; auto.
    destruct (H fuel fr w) as [v [Hv Ht]]. rewrite Hv, eval_Value. simpl. split; auto.
  Qed.

  Lemma bool_new_sound e : bool_ok e (bool_new e).
  Proof.
    Ltac bn_generic :=
      cbn [bool_new];
      match goal with |- bool_ok ?e (match ?x with _ => _ end) => destruct x eqn:E end;
      [ simpl; intros; eapply to_bool_sound; eauto | simpl; intros; apply truth_equiv_refl ].
    induction e using expr_ind'.
    - bn_generic.
    - bn_generic.
    - bn_generic.
    - bn_generic.
    - bn_generic.
    - bn_generic.
    - bn_generic.
    - bn_generic.
    - (* Builtin1 *)
      cbn [bool_new]. destruct (is_pure_infallible_to_bool (Builtin1 o e)) eqn:E.
      { simpl. intros. eapply to_bool_sound; eauto. }
      destruct o; try (simpl; intros; apply truth_equiv_refl).
      destruct (bool_new e) as [c|e'] eqn:B; simpl in *.
      + intros fuel fr w. destruct (IHe fuel fr w) as [v [Hv Ht]].
        rewrite eval_B1. unfold bind. rewrite Hv. simpl. eexists; split; eauto. simpl. rewrite Ht. reflexivity.
      + intros fuel fr w. rewrite !eval_B1. unfold bind. specialize (IHe fuel fr w).
        destruct (eval fuel fr e' w), (eval fuel fr e w); simpl in *; try contradiction; auto.
        destruct IHe as [-> Ht]. split; auto. simpl. rewrite Ht. reflexivity.
    - (* LogicalBinOp *)
      cbn [bool_new]. destruct (is_pure_infallible_to_bool (LogicalBinOp o e1 e2)) eqn:E.
      { simpl. intros. eapply to_bool_sound; eauto. }
      pose proof (bool_ok_into _ _ IHe1) as I1. pose proof (bool_ok_into _ _ IHe2) as I2.
      destruct (bool_new e1) as [c1|e1'] eqn:B1; destruct (bool_new e2) as [c2|e2'] eqn:B2; simpl in IHe1, IHe2; simpl b_const;
        simpl b_into_expr in *.
      + (* const, const *)
        destruct o, c1; simpl; intros fuel fr w; rewrite eval_Log; unfold bind;
          destruct (IHe1 fuel fr w) as [v1 [Hv1 Ht1]]; rewrite Hv1, Ht1; eauto.
      + (* const, expr *)
        destruct o, c1; simpl; intros fuel fr w; rewrite eval_Log; unfold bind;
          destruct (IHe1 fuel fr w) as [v1 [Hv1 Ht1]]; rewrite Hv1, Ht1; eauto.
      + (* expr, const *)
        destruct o, c2; simpl; intros fuel fr w; try rewrite seq_sound; try rewrite eval_Seq; rewrite eval_Log; unfold bind;
          specialize (IHe1 fuel fr w); try rewrite eval_Value;
          destruct (eval fuel fr e1' w) as [v1' w1'| |], (eval fuel fr e1 w) as [v1 w1| |]; simpl in *; try contradiction; auto;
          destruct IHe1 as [-> Ht]; try rewrite eval_Value;
          destruct (IHe2 fuel fr w1) as [v2 [Hv2 Ht2]]; try rewrite Hv2;
          destruct (truth w1 v1) eqn:T1; simpl; rewrite ?Ht2, ?Ht, ?T1; auto.
      + (* expr, expr *)
        destruct o; simpl; intros fuel fr w; rewrite !eval_Log; unfold bind;
          specialize (IHe1 fuel fr w);
          destruct (eval fuel fr e1' w) as [v1' w1'| |], (eval fuel fr e1 w) as [v1 w1| |]; simpl in *; try contradiction; auto;
          destruct IHe1 as [-> Ht]; rewrite Ht; destruct (truth w1 v1) eqn:T1; simpl; auto; try apply IHe2;
          try (split; [reflexivity | congruence]).
    - bn_generic.
    - bn_generic.
    - bn_generic.
    - bn_generic.
  Qed.

  (* ---- if_expr ------------------------------------------------------------------------------------------- *)
  Lemma if_cond_equiv c c' t f fuel fr w :
    (forall fuel fr w, truth_equiv (eval fuel fr c' w) (eval fuel fr c w)) ->
    eval fuel fr (If c' t f) w = eval fuel fr (If c t f) w.
  Proof.
    intros H. rewrite !eval_If. unfold bind. specialize (H fuel fr w).
    destruct (eval fuel fr c' w), (eval fuel fr c w); simpl in H; try contradiction; auto.
    - destruct H as [-> Ht]. rewrite Ht. reflexivity.
    - destruct H as [-> ->]. reflexivity.
  Qed.

  Lemma if_expr_n_sound n : forall c t f fuel fr w,
    eval fuel fr (if_expr_n n c t f) w = eval fuel fr (If c t f) w.
  Proof.
    induction n as [|n IH]; intros c t f fuel fr w; simpl;
      pose proof (bool_new_sound c) as Hb; destruct (bool_new c) as [b|c'] eqn:B; simpl in Hb.
    - destruct (Hb fuel fr w) as [v [Hv Ht]]. rewrite eval_If. unfold bind. rewrite Hv, Ht. destruct b; auto.
    - apply if_cond_equiv; auto.
    - destruct (Hb fuel fr w) as [v [Hv Ht]]. rewrite eval_If. unfold bind. rewrite Hv, Ht. destruct b; auto.
    - rewrite <- (if_cond_equiv c c' t f fuel fr w Hb).
      destruct c'; auto.
      + (* Not *) destruct o; auto. rewrite IH. rewrite !eval_If. unfold bind. rewrite eval_B1. unfold bind.
        destruct (eval fuel fr c' w); auto. simpl. destruct (truth w0 a); reflexivity.
      + (* Seq *) rewrite seq_sound. rewrite eval_Seq, eval_If. unfold bind. rewrite eval_Seq. unfold bind.
        destruct (eval fuel fr c'1 w); auto. rewrite IH. rewrite eval_If. unfold bind. reflexivity.
  Qed.

  Lemma if_expr_sound c t f fuel fr w : eval fuel fr (if_expr c t f) w = eval fuel fr (If c t f) w.
  Proof. apply if_expr_n_sound. Qed.

  (* ---- folding of operators ------------------------------------------------------------------------------ *)
  Lemma type_is_sound x t fuel fr w : eval fuel fr (type_is x t) w = eval fuel fr (Builtin1 (TypeIs t) x) w.
  Proof.
    unfold type_is. destruct (as_value x) eqn:E; auto. apply as_value_some in E as [-> F].
    rewrite eval_B1. unfold bind. rewrite !eval_Value. reflexivity.
  Qed.

  Lemma bin_eval_frozen o a b w : frozenb a = true -> frozenb b = true -> bin_eval o a b w = lift W (pure_bin OP o a b) w.
  Proof. intros Fa Fb. unfold Sem.bin_eval. rewrite Fa, Fb. reflexivity. Qed.

  Lemma as_type_some e x : as_type e = Some x -> e = Call (Value (VPrim fn_type)) [x].
  Proof.
    destruct e; simpl; try discriminate. destruct e; try discriminate. destruct v; try discriminate.
    destruct args as [|a [|? ?]]; try discriminate. destruct (Nat.eqb p fn_type) eqn:E; try discriminate.
    apply Nat.eqb_eq in E. subst. intros H; inversion H; reflexivity.
  Qed.

  Lemma eval_type_call x fuel fr w :
    eval fuel fr (Call (Value (VPrim fn_type)) [x]) w =
    bind W (eval fuel fr x) (fun v w => Ok (VStr (type_of v)) w) w.
  Proof.
    rewrite eval_Call. unfold bind. rewrite eval_Value. simpl. destruct (eval fuel fr x w); auto.
  Qed.

  Lemma try_eval_type_is_sound l r e fuel fr w :
    try_eval_type_is l r = Some e ->
    eval fuel fr e w = eval fuel fr (Builtin2 Equals l r) w /\ eval fuel fr e w = eval fuel fr (Builtin2 Equals r l) w.
  Proof.
    unfold try_eval_type_is. destruct (as_type l) eqn:El; try discriminate.
    destruct (as_value r) eqn:Er; try discriminate. destruct v; try discriminate.
    intros H; inversion H; subst. apply as_type_some in El. apply as_value_some in Er as [-> _]. subst l.
    rewrite type_is_sound.
    assert (HT : eval fuel fr (Call (Value (VPrim fn_type)) [e0]) w =
                 bind W (eval fuel fr e0) (fun v w => Ok (VStr (type_of v)) w) w) by apply eval_type_call.
    rewrite eval_B1, !eval_B2. unfold bind in *. rewrite ?eval_Value. rewrite !HT.
    destruct (eval fuel fr e0 w) as [a w0| |]; auto. rewrite ?eval_Value. simpl.
    rewrite !bin_eval_frozen by reflexivity. unfold pure_bin. simpl. rewrite String.eqb_sym.
    destruct (String.eqb s (type_of a)); auto.
  Qed.

  Lemma equals_sound l r fuel fr w : eval fuel fr (equals OP l r) w = eval fuel fr (Builtin2 Equals l r) w.
  Proof.
    unfold equals.
    destruct (match as_value l, as_value r with
              | Some a, Some b => match pure_bin OP Equals a b with CV (VBool x) => Some (Value (VBool x)) | _ => None end
              | _, _ => None end) eqn:E.
    - destruct (as_value l) eqn:El; try discriminate. destruct (as_value r) eqn:Er; try discriminate.
      apply as_value_some in El as [-> Fl]. apply as_value_some in Er as [-> Fr].
      destruct (pure_bin OP Equals v v0) eqn:Ep; try discriminate. destruct v1; try discriminate.
      inversion E; subst. rewrite eval_B2. unfold bind. rewrite !eval_Value.
      rewrite bin_eval_frozen by auto. rewrite Ep. reflexivity.
    - destruct (try_eval_type_is l r) eqn:T1.
      + apply (try_eval_type_is_sound _ _ _ fuel fr w) in T1. destruct T1 as [T1a _]. exact T1a.
      + destruct (try_eval_type_is r l) eqn:T2; auto.
        apply (try_eval_type_is_sound _ _ _ fuel fr w) in T2. destruct T2 as [_ T2b]. exact T2b.
  Qed.

  Lemma percent_s_one_sound fmt arg fuel fr w :
    eval fuel fr (percent_s_one OP fmt arg) w = eval fuel fr (Builtin2 Percent (Value (VStr fmt)) arg) w.
  Proof.
    unfold percent_s_one.
    destruct (match as_value arg with
              | Some v => match pure_bin OP Percent (VStr fmt) v with CV (VStr s) => Some (Value (VStr s)) | _ => None end
              | None => None end) eqn:E.
    - destruct (as_value arg) eqn:Ea; try discriminate. apply as_value_some in Ea as [-> Fa].
      destruct (pure_bin OP Percent (VStr fmt) v) eqn:Ep; try discriminate. destruct v0; try discriminate.
      inversion E; subst. rewrite eval_B2. unfold bind. rewrite !eval_Value.
      rewrite bin_eval_frozen by auto. rewrite Ep. reflexivity.
    - rewrite eval_B1, eval_B2. unfold bind. rewrite eval_Value. destruct (eval fuel fr arg w); auto.
  Qed.

  Lemma percent_sound l r fuel fr w : eval fuel fr (percent OP l r) w = eval fuel fr (Builtin2 Percent l r) w.
  Proof.
    unfold percent. destruct (as_value l) eqn:E; auto. destruct v; auto.
    destruct (o_pct OP s); auto. apply as_value_some in E as [-> _]. apply percent_s_one_sound.
  Qed.

  Lemma index_sound a i fuel fr w : eval fuel fr (index OP a i) w = eval fuel fr (Builtin2 ArrayIndex a i) w.
  Proof.
    unfold index.
    destruct (match as_builtin_value a, as_value i with
              | Some av, Some iv => try_cres (pure_bin OP ArrayIndex av iv) | _, _ => None end) eqn:E; auto.
    destruct (as_builtin_value a) eqn:Ea; try discriminate. destruct (as_value i) eqn:Ei; try discriminate.
    apply as_builtin_value_some in Ea as [-> Fa]. apply as_value_some in Ei as [-> Fi].
    rewrite (try_cres_sound _ _ E). rewrite eval_B2. unfold bind. rewrite !eval_Value.
    rewrite bin_eval_frozen by auto. reflexivity.
  Qed.

  (* C02_fold_bin_sound is a corollary: folding happens only through try_cres of the compile-time result *)
  Lemma bin_op_sound op l r fuel fr w : eval fuel fr (bin_op OP op l r) w = eval fuel fr (Builtin2 op l r) w.
  Proof.
    unfold bin_op.
    destruct (match as_builtin_value l, as_builtin_value r with
              | Some a, Some b => try_cres (pure_bin OP op a b) | _, _ => None end) eqn:E.
    - destruct (as_builtin_value l) eqn:El; try discriminate. destruct (as_builtin_value r) eqn:Er; try discriminate.
      apply as_builtin_value_some in El as [-> Fl]. apply as_builtin_value_some in Er as [-> Fr].
      rewrite (try_cres_sound _ _ E). rewrite eval_B2. unfold bind. rewrite !eval_Value.
      rewrite bin_eval_frozen by auto. reflexivity.
    - destruct op; try reflexivity; [apply equals_sound | apply percent_sound | apply index_sound].
  Qed.

  Lemma fold_bin_sound op a b : frozenb a = true -> frozenb b = true ->
    (forall e', try_cres (pure_bin OP op a b) = Some e' ->
       forall fuel fr w, eval fuel fr e' w = eval fuel fr (Builtin2 op (Value a) (Value b)) w) /\
    (forall m, pure_bin OP op a b = CErr m ->
       forall fuel fr w, eval fuel fr (bin_op OP op (Value a) (Value b)) w = Err m w).
  Proof.
    intros Fa Fb. split.
    - intros e' H fuel fr w. rewrite (try_cres_sound _ _ H).
      rewrite eval_B2. unfold bind. rewrite !eval_Value. rewrite bin_eval_frozen by assumption. reflexivity.
    - intros m H fuel fr w. rewrite bin_op_sound. rewrite eval_B2. unfold bind. rewrite !eval_Value.
      rewrite bin_eval_frozen by assumption. rewrite H. reflexivity.
  Qed.

  Lemma un_op_sound op x fuel fr w : eval fuel fr (un_op OP op x) w = eval fuel fr (Builtin1 op x) w.
  Proof.
    unfold un_op.
    destruct (match as_builtin_value x with Some v => try_cres (pure_un OP op v) | None => None end) eqn:E.
    - destruct (as_builtin_value x) eqn:Ex; try discriminate. apply as_builtin_value_some in Ex as [-> Fx].
      rewrite (try_cres_sound _ _ E). rewrite eval_B1. unfold bind. rewrite eval_Value.
      destruct op; simpl; try (unfold Sem.un_eval; rewrite Fx; reflexivity).
      + rewrite truth_frozen; auto.
      + reflexivity.
      + rewrite bin_eval_frozen by auto. reflexivity.
    - destruct op; try reflexivity; [apply not_sound | apply type_is_sound | ].
      rewrite percent_s_one_sound. rewrite eval_B1, eval_B2. unfold bind. rewrite eval_Value.
      destruct (eval fuel fr x w); auto.
  Qed.

  Lemma slice_sound a lo hi st fuel fr w :
    eval fuel fr (slice_c OP a lo hi st) w = eval fuel fr (Slice a lo hi st) w.
  Proof.
    unfold slice_c.
    destruct (match as_builtin_value a, as_value lo, as_value hi, as_value st with
              | Some av, Some l, Some h, Some s => try_cres (pure_slice OP av l h s)
              | _, _, _, _ => None end) eqn:E; auto.
    destruct (as_builtin_value a) eqn:Ea; try discriminate. destruct (as_value lo) eqn:El; try discriminate.
    destruct (as_value hi) eqn:Eh; try discriminate. destruct (as_value st) eqn:Es; try discriminate.
    apply as_builtin_value_some in Ea as [-> Fa]. apply as_value_some in El as [-> Fl].
    apply as_value_some in Eh as [-> Fh]. apply as_value_some in Es as [-> Fs].
    rewrite (try_cres_sound _ _ E). rewrite eval_Slice. unfold bind. rewrite !eval_Value.
    unfold Sem.slice_eval. rewrite Fa, Fl, Fh, Fs. reflexivity.
  Qed.

  Lemma tuple_c_sound xs fuel fr w : eval fuel fr (tuple_c xs) w = eval fuel fr (Tuple xs) w.
  Proof.
    unfold tuple_c. destruct (all_values xs) eqn:E; auto. apply all_values_some in E as [-> _].
    rewrite eval_Value, eval_Tuple. unfold bind. rewrite mapM_values. reflexivity.
  Qed.

  Lemma eval_call_prim1 p a fuel fr w :
    eval fuel fr (Call (Value (VPrim p)) [a]) w = bind W (eval fuel fr a) (fun v => prim_sem p [v]) w.
  Proof. rewrite eval_Call. unfold bind. rewrite eval_Value. simpl. destruct (eval fuel fr a w); auto. Qed.

  Lemma len_c_sound a fuel fr w : eval fuel fr (len_c a) w = eval fuel fr (Call (Value (VPrim fn_len)) [a]) w.
  Proof.
    unfold len_c. destruct (match as_value a with Some v => len_of v | None => None end) eqn:E; auto.
    destruct (as_value a) eqn:Ea; try discriminate. apply as_value_some in Ea as [-> Fa].
    rewrite eval_call_prim1. unfold bind. rewrite !eval_Value. unfold Sem.prim_sem. simpl. rewrite Fa, E. reflexivity.
  Qed.

  Lemma typ_c_sound a fuel fr w : eval fuel fr (typ_c a) w = eval fuel fr (Call (Value (VPrim fn_type)) [a]) w.
  Proof.
    unfold typ_c. rewrite eval_type_call. unfold bind.
    destruct a; try (rewrite eval_type_call; reflexivity).
    - destruct (frozenb v); [rewrite !eval_Value; reflexivity | rewrite eval_type_call; reflexivity].
    - destruct (all_pure_infallible xs) eqn:A; [|rewrite eval_type_call; reflexivity].
      destruct (all_pure_mapM xs A fuel fr w) as [vs [Hvs _]]. rewrite eval_Tuple. unfold bind. rewrite Hvs, eval_Value. reflexivity.
    - destruct (all_pure_infallible xs) eqn:A; [|rewrite eval_type_call; reflexivity].
      destruct (all_pure_mapM xs A fuel fr w) as [vs [Hvs _]]. rewrite eval_List. unfold bind. rewrite Hvs, eval_Value. reflexivity.
    - destruct kvs; [|rewrite eval_type_call; reflexivity]. rewrite eval_Dict, eval_Value. reflexivity.
    - destruct o; try (rewrite eval_type_call; reflexivity);
        (destruct (is_pure_infallible a) eqn:Pa; [|rewrite eval_type_call; reflexivity]);
        rewrite eval_B1; unfold bind; destruct (pure_infallible_eval a Pa fuel fr w) as [v Hv]; rewrite Hv, eval_Value; reflexivity.
  Qed.

  Lemma try_spec_exec_sound f args e fuel fr w :
    try_spec_exec OP f args = Some e -> eval fuel fr e w = eval fuel fr (Call f args) w.
  Proof.
    unfold try_spec_exec. destruct (as_value f) eqn:Ef; try discriminate. destruct v; try discriminate.
    destruct (all_values args) eqn:Ea; try discriminate.
    destruct (Nat.eqb p fn_len || Nat.eqb p fn_type) eqn:Ep; try discriminate.
    destruct (o_spec OP p) eqn:Es; try discriminate. intros H.
    apply as_value_some in Ef as [-> _]. apply all_values_some in Ea as [-> Fa].
    apply orb_false_iff in Ep as [E1 E2].
    rewrite (try_cres_sound _ _ H). rewrite eval_Call. unfold bind. rewrite eval_Value, mapM_values. simpl.
    unfold Sem.prim_sem. rewrite E1, E2, Es, Fa. reflexivity.
  Qed.

  Lemma call_other_sound f args fuel fr w :
    eval fuel fr (call_other OP f args) w = eval fuel fr (Call f args) w.
  Proof.
    unfold call_other.
    assert (D : eval fuel fr (match try_spec_exec OP f args with Some e => e | None => Call f args end) w =
                eval fuel fr (Call f args) w).
    { destruct (try_spec_exec OP f args) eqn:E; auto. eapply try_spec_exec_sound; eauto. }
    destruct f; auto. destruct v; auto. destruct args as [|a [|? ?]]; auto.
    destruct (Nat.eqb p fn_len) eqn:E1.
    - apply Nat.eqb_eq in E1. subst. apply len_c_sound.
    - destruct (Nat.eqb p fn_type) eqn:E2; auto. apply Nat.eqb_eq in E2. subst. apply typ_c_sound.
  Qed.

  (* ---- inlining ------------------------------------------------------------------------------------------ *)
  Variable param_count : nat.

  Definition params_assigned (fr : frame) : Prop :=
    forall l, (l < param_count)%nat -> exists v, nth_error fr l = Some (Some v).

  Definition args_vals (fr : frame) (args : list expr) (vs : list value) : Prop :=
    Forall2 (fun a v => forall fuel w, eval fuel fr a w = Ok v w) args vs.

  Lemma inline_args_vals fr args :
    params_assigned fr -> forallb (inline_arg_ok param_count) args = true -> exists vs, args_vals fr args vs.
  Proof.
    intros HP. induction args as [|a t IH]; simpl; intros H.
    - exists []. constructor.
    - apply andb_true_iff in H as [Ha Ht]. destruct (IH Ht) as [vs Hvs].
      destruct a; simpl in Ha; try discriminate.
      + exists (v :: vs). constructor; auto. intros. apply eval_Value.
      + apply Nat.ltb_lt in Ha. destruct (HP _ Ha) as [v Hv]. exists (v :: vs). constructor; auto.
        intros. rewrite eval_Local. unfold read_slot. rewrite Hv. reflexivity.
  Qed.

  Lemma args_vals_mapM fr args vs : args_vals fr args vs -> forall fuel w, mapM W (eval fuel fr) args w = Ok vs w.
  Proof.
    induction 1 as [|a v t vs Ha Ht IH]; intros fuel w; simpl; auto. rewrite Ha, IH. reflexivity.
  Qed.

  Lemma args_vals_nth fr args vs : args_vals fr args vs ->
    forall l, (l < List.length vs)%nat ->
    forall fuel w, eval fuel fr (nth l args (Value VNone)) w = read_slot W "Local variable" (map Some vs) l w.
  Proof.
    induction 1 as [|a v t vs Ha Ht IH]; intros l Hl fuel w; simpl in *; try lia.
    destruct l; simpl.
    - rewrite Ha. reflexivity.
    - apply IH. lia.
  Qed.

  Lemma safe_all pc xs :
    (fix all (l : list expr) : bool := match l with [] => true | x :: t => is_safe_to_inline pc x && all t end) xs
    = forallb (is_safe_to_inline pc) xs.
  Proof. induction xs; simpl; auto; rewrite IHxs; reflexivity. Qed.

  Lemma Forall_safe (P : expr -> Prop) pc xs :
    Forall (fun b => is_safe_to_inline pc b = true -> P b) xs -> forallb (is_safe_to_inline pc) xs = true -> Forall P xs.
  Proof.
    induction 1; simpl; intros H'; constructor; apply andb_true_iff in H' as [? ?]; auto.
  Qed.

  Lemma inline_body_sound fr callf args vs :
    (forall f a fuel w, eval fuel fr (callf f a) w = eval fuel fr (Call f a) w) ->
    args_vals fr args vs ->
    forall b, is_safe_to_inline (List.length vs) b = true ->
    forall fuel w, eval fuel fr (inline_body OP callf args b) w = eval fuel (map Some vs) b w.
  Proof.
    intros Hcall Hav. set (np := List.length vs).
    induction b using expr_ind'; simpl; intros Hs fuel w; try discriminate.
    - rewrite !eval_Value. reflexivity.
    - apply Nat.ltb_lt in Hs. rewrite eval_Local. apply (args_vals_nth _ _ _ Hav); auto.
    - (* Tuple *) rewrite safe_all in Hs. rewrite tuple_c_sound, !eval_Tuple. apply bind_ext; auto.
      intros w'. rewrite mapM_map. apply mapM_ext.
      eapply Forall_impl; [|eapply (Forall_safe _ _ _ H Hs)]. simpl. auto.
    - (* List *) rewrite safe_all in Hs. rewrite !eval_List. apply bind_ext; auto.
      intros w'. rewrite mapM_map. apply mapM_ext.
      eapply Forall_impl; [|eapply (Forall_safe _ _ _ H Hs)]. simpl. auto.
    - (* Dict *) rewrite safe_all in Hs. rewrite !eval_Dict. apply bind_ext; auto.
      intros w'. rewrite mapM_map. apply mapM_ext.
      eapply Forall_impl; [|eapply (Forall_safe _ _ _ H Hs)]. simpl. auto.
    - (* If *) apply andb_true_iff in Hs as [Hs H3]. apply andb_true_iff in Hs as [H1 H2].
      rewrite if_expr_sound, !eval_If. apply bind_ext; auto.
      intros a w'. destruct (truth w' a); auto.
    - (* Slice *) apply andb_true_iff in Hs as [Hs H4]. apply andb_true_iff in Hs as [Hs H3]. apply andb_true_iff in Hs as [H1 H2].
      rewrite !eval_Slice. apply bind_ext; auto. intros; apply bind_ext; auto. intros; apply bind_ext; auto.
      intros; apply bind_ext; auto.
    - (* Builtin1 *) rewrite un_op_sound, !eval_B1. apply bind_ext; auto.
    - (* LogicalBinOp *) apply andb_true_iff in Hs as [H1 H2]. rewrite logical_bin_op_sound, !eval_Log.
      apply bind_ext; auto. intros a w'. destruct o; destruct (truth w' a); auto.
    - (* Seq *) apply andb_true_iff in Hs as [H1 H2]. rewrite seq_sound, !eval_Seq. apply bind_ext; auto.
    - (* Builtin2 *) apply andb_true_iff in Hs as [H1 H2]. rewrite bin_op_sound, !eval_B2.
      apply bind_ext; auto. intros; apply bind_ext; auto.
    - (* Call *) apply andb_true_iff in Hs as [H1 H2]. rewrite safe_all in H2. rewrite Hcall, !eval_Call.
      apply bind_ext; auto. intros fv w'. apply bind_ext; auto.
      intros w''. rewrite mapM_map. apply mapM_ext.
      eapply Forall_impl; [|eapply (Forall_safe _ _ _ H H2)]. simpl. auto.
  Qed.

  Lemma Forall2_length' {A B} (R : A -> B -> Prop) l1 l2 : Forall2 R l1 l2 -> List.length l1 = List.length l2.
  Proof. induction 1; simpl; auto. Qed.

  (* C02_inline_sound *)
  Lemma call_n_sound fr : params_assigned fr ->
    forall n f args fuel w, eval fuel fr (call_n OP defs param_count n f args) w = eval fuel fr (Call f args) w.
  Proof.
    intros HP. induction n as [|n IH]; intros f args fuel w; simpl.
    - apply call_other_sound.
    - destruct (as_value f) eqn:Ef; try apply call_other_sound. destruct v; try apply call_other_sound.
      destruct (defs d) as [[np body]|] eqn:Ed; try apply call_other_sound.
      destruct (is_safe_to_inline np body && Nat.eqb np (List.length args) && forallb (inline_arg_ok param_count) args) eqn:G;
        try apply call_other_sound.
      apply andb_true_iff in G as [G G3]. apply andb_true_iff in G as [G1 G2]. apply Nat.eqb_eq in G2.
      apply as_value_some in Ef as [-> _].
      destruct (inline_args_vals fr args HP G3) as [vs Hvs].
      pose proof (Forall2_length' _ _ _ Hvs) as Hlen.
      rewrite eval_Call. unfold bind. rewrite eval_Value. rewrite (args_vals_mapM _ _ _ Hvs). simpl.
      rewrite Ed. assert (E : Nat.eqb np (List.length vs) = true) by (apply Nat.eqb_eq; congruence). rewrite E.
      destruct fuel as [|k]; [reflexivity|].
      rewrite eval_Inlined_S. apply inline_body_sound; auto. rewrite <- Hlen, <- G2. exact G1.
  Qed.

  (* ---- the headline: optimize ------------------------------------------------------------------------------ *)
  Variable frozen_slot : nat -> option value.
  Hypothesis frozen_slot_ok : forall s v, frozen_slot s = Some v -> nth_error mods s = Some (Some v).

  Theorem optimize_sound fr : params_assigned fr ->
    forall e fuel w, eval fuel fr (optimize OP defs param_count frozen_slot e) w = eval fuel fr e w.
  Proof.
    intros HP. induction e using expr_ind'; simpl; intros fuel w; auto.
    - (* Module *) destruct (frozen_slot i) eqn:E; auto. destruct (frozenb v); auto.
      rewrite eval_Value, eval_Module. unfold read_slot. rewrite (frozen_slot_ok _ _ E). reflexivity.
    - rewrite tuple_c_sound, !eval_Tuple. apply bind_ext; auto. intros w'. rewrite mapM_map. apply mapM_ext.
      eapply Forall_impl; [|exact H]. simpl. auto.
    - rewrite !eval_List. apply bind_ext; auto. intros w'. rewrite mapM_map. apply mapM_ext.
      eapply Forall_impl; [|exact H]. simpl. auto.
    - rewrite !eval_Dict. apply bind_ext; auto. intros w'. rewrite mapM_map. apply mapM_ext.
      eapply Forall_impl; [|exact H]. simpl. auto.
    - rewrite if_expr_sound, !eval_If. apply bind_ext; auto. intros a w'. destruct (truth w' a); auto.
    - rewrite slice_sound, !eval_Slice. apply bind_ext; auto. intros; apply bind_ext; auto.
      intros; apply bind_ext; auto. intros; apply bind_ext; auto.
    - rewrite un_op_sound, !eval_B1. apply bind_ext; auto.
    - rewrite logical_bin_op_sound, !eval_Log. apply bind_ext; auto. intros a w'. destruct o; destruct (truth w' a); auto.
    - rewrite seq_sound, !eval_Seq. apply bind_ext; auto.
    - rewrite bin_op_sound, !eval_B2. apply bind_ext; auto. intros; apply bind_ext; auto.
    - unfold call_c. rewrite call_n_sound by auto. rewrite !eval_Call. apply bind_ext; auto.
      intros fv w'. apply bind_ext; auto. intros w''. rewrite mapM_map. apply mapM_ext.
      eapply Forall_impl; [|exact H]. simpl. auto.
    - destruct fuel; [reflexivity|]. rewrite !eval_Inlined_S. apply IHe.
  Qed.
End Proofs.

(* ======================================================================================================== *)
(* statements *)
Section StmtInd.
  Variable P : stmt -> Prop.
  Hypothesis HRet : forall e, P (Return e).
  Hypothesis HExpr : forall e, P (Expr e).
  Hypothesis HAssign : forall t e, P (Assign t e).
  Hypothesis HIf : forall c t f, Forall P t -> Forall P f -> P (IfS c t f).
  Hypothesis HFor : forall t o body, Forall P body -> P (For t o body).
  Hypothesis HBreak : P Break.
  Hypothesis HContinue : P Continue.
  Fixpoint stmt_ind' (s : stmt) : P s :=
    let all := fix all (l : list stmt) : Forall P l :=
      match l with [] => Forall_nil P | x :: t => Forall_cons x (stmt_ind' x) (all t) end in
    match s with
    | Return e => HRet e | Expr e => HExpr e | Assign t e => HAssign t e
    | IfS c t f => HIf c t f (all t) (all f)
    | For t o body => HFor t o body (all body)
    | Break => HBreak | Continue => HContinue
    end.
End StmtInd.

Section StmtProofs.
  Variable W : Type.
  Variable OP : ops.
  Variable prim : nat -> list value -> W -> res W value.
  Variable heap_un : un -> value -> W -> res W value.
  Variable heap_bin : bop -> value -> value -> W -> res W value.
  Variable heap_slice : value -> value -> value -> value -> W -> res W value.
  Variable dict_check : list value -> option string.
  Variable ref_truth : W -> nat -> bool.
  Variable ref_iter : W -> nat -> option (list value).
  Variable set_index : value -> value -> value -> W -> res W unit.
  Variable defs : nat -> option (nat * expr).
  Variable param_count : nat.
  Variable frozen_slot : nat -> option value.

  Notation exec := (exec W OP prim heap_un heap_bin heap_slice dict_check ref_truth ref_iter set_index defs).
  Notation eval_in := (eval_in W OP prim heap_un heap_bin heap_slice dict_check ref_truth defs).
  Notation assign := (assign W OP prim heap_un heap_bin heap_slice dict_check ref_truth set_index defs).
  Notation truth := (truth W ref_truth).
  Notation run_block := (run_block W).
  Notation state := (state W).
  Notation opt := (optimize OP defs param_count frozen_slot).

  Lemma blk_eq fuel ss : forall s,
    (fix blk (ss : list stmt) (s : state) : sres W :=
       match ss with
       | [] => SNormal s
       | x :: r => match exec fuel x s with SNormal s' => blk r s' | o => o end
       end) ss s = run_block (exec fuel) ss s.
  Proof. induction ss as [|x r IH]; intros s; simpl; auto; destruct (exec fuel x s); auto. Qed.

  Fixpoint for_loop (fuel : nat) (t : target) (body : list stmt) (vs : list value) (s : state) : sres W :=
    match vs with
    | [] => SNormal s
    | x :: r =>
        match assign fuel t x s with
        | SNormal s1 =>
            match run_block (exec fuel) body s1 with
            | SNormal s2 | SContinue s2 => for_loop fuel t body r s2
            | SBreak s2 => SNormal s2
            | o => o
            end
        | o => o
        end
    end.

  Lemma exec_IfS fuel c t f s :
    exec fuel (IfS c t f) s =
    match eval_in fuel s c with
    | Ok v w => if truth w v then run_block (exec fuel) t (with_world W s w) else run_block (exec fuel) f (with_world W s w)
    | Err m w => SErr m (with_world W s w)
    | OutOfFuel => SOutOfFuel
    end.
  Proof. simpl. destruct (eval_in fuel s c); auto; try (destruct (truth w a); apply blk_eq). Qed.

  Lemma exec_For fuel t over body s :
    exec fuel (For t over body) s =
    match eval_in fuel s over with
    | Ok v w => match iter_elems W ref_iter w v with
                | None => SErr "Operation `(iter)` not supported" (with_world W s w)
                | Some vs => for_loop fuel t body vs (with_world W s w)
                end
    | Err m w => SErr m (with_world W s w)
    | OutOfFuel => SOutOfFuel
    end.
  Proof.
    simpl. destruct (eval_in fuel s over); auto. destruct (iter_elems W ref_iter w a); auto.
    generalize (with_world W s w). induction l as [|x r IH]; intros s0; simpl; auto.
    destruct (assign fuel t x s0); auto. rewrite blk_eq.
    destruct (run_block (exec fuel) body s1); auto.
  Qed.

  Lemma exec_Expr fuel e s :
    exec fuel (Expr e) s = match eval_in fuel s e with
                           | Ok _ w => SNormal (with_world W s w) | Err m w => SErr m (with_world W s w) | OutOfFuel => SOutOfFuel end.
  Proof. reflexivity. Qed.

  Lemma run_block_app fuel l r s :
    run_block (exec fuel) (l ++ r) s = match run_block (exec fuel) l s with SNormal s' => run_block (exec fuel) r s' | o => o end.
  Proof. revert s; induction l as [|x t IH]; intros s; simpl; auto. destruct (exec fuel x s); auto. Qed.

  Lemma terminal_not_normal fuel l : is_terminal l = true -> forall s s', run_block (exec fuel) l s <> SNormal s'.
  Proof.
    unfold is_terminal. destruct (rev l) as [|x t] eqn:E; try discriminate.
    assert (L : l = (rev t ++ [x])%list) by (rewrite <- (rev_involutive l), E; reflexivity).
    intros Hx s s'. subst l. rewrite run_block_app.
    destruct (run_block (exec fuel) (rev t) s); try discriminate.
    destruct x; try discriminate; simpl; try discriminate.
    destruct (eval_in fuel s0 e); discriminate.
  Qed.

  Lemma extend_sound fuel l r s : run_block (exec fuel) (extend l r) s = run_block (exec fuel) (l ++ r) s.
  Proof.
    unfold extend. destruct (is_terminal l) eqn:T; auto. rewrite run_block_app.
    pose proof (terminal_not_normal fuel l T s) as H.
    destruct (run_block (exec fuel) l s); auto. exfalso; eapply H; eauto.
  Qed.

  Lemma with_world_id (s : state) : with_world W s (world W s) = s.
  Proof. destruct s; reflexivity. Qed.
  Lemma with_world_twice (s : state) w1 w2 : with_world W (with_world W s w1) w2 = with_world W s w2.
  Proof. reflexivity. Qed.
  Lemma eval_in_with_world fuel (s : state) w e :
    eval_in fuel (with_world W s w) e =
    eval W OP prim heap_un heap_bin heap_slice dict_check ref_truth defs (modules W s) fuel (locals W s) e w.
  Proof. reflexivity. Qed.

  (* ---- StmtsCompiled::expr / if_stmt ------------------------------------------------------------------------ *)
  Notation evm := (eval W OP prim heap_un heap_bin heap_slice dict_check ref_truth defs).

  Definition lift_r (s : state) (r : res W value) : sres W :=
    match r with Ok _ w => SNormal (with_world W s w) | Err m w => SErr m (with_world W s w) | OutOfFuel => SOutOfFuel end.

  Lemma exec_Expr' fuel e s : exec fuel (Expr e) s = lift_r s (evm (modules W s) fuel (locals W s) e (world W s)).
  Proof. reflexivity. Qed.

  Lemma run_block_one fuel x s : run_block (exec fuel) [x] s = exec fuel x s.
  Proof. simpl. destruct (exec fuel x s); reflexivity. Qed.

  Definition expr_s_ok (g : expr -> list stmt) : Prop :=
    forall e fuel s, run_block (exec fuel) (g e) s = exec fuel (Expr e) s.

  Lemma exprs_effect fuel g xs :
    (forall x, List.In x xs -> forall s0, run_block (exec fuel) (g x) s0 = exec fuel (Expr x) s0) ->
    forall pre s,
    run_block (exec fuel) (fold_left (fun a x => extend a (g x)) xs pre) s =
    match run_block (exec fuel) pre s with
    | SNormal s1 =>
        match mapM W (evm (modules W s1) fuel (locals W s1)) xs (world W s1) with
        | Ok _ w' => SNormal (with_world W s1 w') | Err m w' => SErr m (with_world W s1 w') | OutOfFuel => SOutOfFuel end
    | o => o
    end.
  Proof.
    induction xs as [|x t IH]; intros Hg pre s; simpl.
    - destruct (run_block (exec fuel) pre s); auto. rewrite with_world_id. reflexivity.
    - rewrite IH by (intros; apply Hg; simpl; auto). rewrite extend_sound, run_block_app.
      destruct (run_block (exec fuel) pre s) as [s1| | | | |]; auto.
      rewrite Hg by (simpl; auto). rewrite exec_Expr'.
      destruct (evm (modules W s1) fuel (locals W s1) x (world W s1)) as [v w1| |]; simpl; auto.
      destruct (mapM W (evm (modules W s1) fuel (locals W s1)) t w1); auto.
  Qed.

  Lemma if_stmt_n_sound g : expr_s_ok g ->
    forall n c t f fuel s, run_block (exec fuel) (if_stmt_n g n c t f) s = exec fuel (IfS c t f) s.
  Proof.
    intros Hg.
    assert (Plain : forall c' t f fuel s,
              run_block (exec fuel) (match t, f with [], [] => g c' | _, _ => [IfS c' t f] end) s = exec fuel (IfS c' t f) s).
    { intros c' t f fuel s. destruct t, f; try apply run_block_one.
      rewrite Hg, exec_IfS, exec_Expr'. unfold Sem.eval_in.
      destruct (evm (modules W s) fuel (locals W s) c' (world W s)); simpl; auto. destruct (truth w a); reflexivity. }
    assert (Equiv : forall c c' t f fuel s,
              (forall fuel fr w, truth_equiv W ref_truth (evm (modules W s) fuel fr c' w) (evm (modules W s) fuel fr c w)) ->
              exec fuel (IfS c' t f) s = exec fuel (IfS c t f) s).
    { intros c c' t f fuel s H. rewrite !exec_IfS. unfold Sem.eval_in. specialize (H fuel (locals W s) (world W s)).
      destruct (evm (modules W s) fuel (locals W s) c' (world W s)), (evm (modules W s) fuel (locals W s) c (world W s));
        simpl in H; try contradiction; auto.
      - destruct H as [-> Ht]. rewrite Ht. reflexivity.
      - destruct H as [-> ->]. reflexivity. }
    induction n as [|n IH]; intros c t f fuel s; cbn [if_stmt_n];
      pose proof (bool_new_sound W OP prim heap_un heap_bin heap_slice dict_check ref_truth defs (modules W s) c) as Hb;
      destruct (bool_new c) as [b|c'] eqn:B; simpl in Hb.
    - destruct (Hb fuel (locals W s) (world W s)) as [v [Hv Ht]]. rewrite exec_IfS. unfold Sem.eval_in. rewrite Hv, Ht.
      rewrite with_world_id. destruct b; reflexivity.
    - rewrite Plain. apply Equiv; auto.
    - destruct (Hb fuel (locals W s) (world W s)) as [v [Hv Ht]]. rewrite exec_IfS. unfold Sem.eval_in. rewrite Hv, Ht.
      rewrite with_world_id. destruct b; reflexivity.
    - rewrite <- (Equiv c c' t f fuel s Hb).
      destruct c'; try apply Plain.
      + destruct o; try apply Plain. rewrite IH. rewrite !exec_IfS. unfold Sem.eval_in.
        rewrite (eval_B1 W OP prim heap_un heap_bin heap_slice dict_check ref_truth defs). unfold bind.
        destruct (evm (modules W s) fuel (locals W s) c' (world W s)); auto. simpl. destruct (truth w a); reflexivity.
      + rewrite extend_sound, run_block_app. rewrite Hg, exec_Expr'. rewrite exec_IfS. unfold Sem.eval_in.
        rewrite (eval_Seq W OP prim heap_un heap_bin heap_slice dict_check ref_truth defs). unfold bind.
        destruct (evm (modules W s) fuel (locals W s) c'1 (world W s)); simpl; auto.
        rewrite IH. rewrite exec_IfS. reflexivity.
  Qed.

  Lemma pure_stmt fuel e s : is_pure_infallible e = true -> exec fuel (Expr e) s = SNormal s.
  Proof.
    intros H. rewrite exec_Expr'.
    destruct (pure_infallible_eval W OP prim heap_un heap_bin heap_slice dict_check ref_truth defs (modules W s) e H fuel (locals W s) (world W s))
      as [v Hv]. rewrite Hv. simpl. rewrite with_world_id. reflexivity.
  Qed.

  Lemma expr_stmt_n_sound n : expr_s_ok (expr_stmt_n n).
  Proof.
    induction n as [|n IH]; intros e fuel s; cbn [expr_stmt_n]; destruct (is_pure_infallible e) eqn:P;
      try (cbn [run_block Sem.run_block]; symmetry; apply pure_stmt; assumption).
    - apply run_block_one.
    - assert (Dflt : run_block (exec fuel) (match as_type e with Some t => expr_stmt_n n t | None => [Expr e] end) s
                     = exec fuel (Expr e) s).
      { destruct (as_type e) eqn:T; [|apply run_block_one]. apply as_type_some in T. subst e.
        rewrite IH, !exec_Expr'. rewrite (eval_type_call W OP prim heap_un heap_bin heap_slice dict_check ref_truth defs).
        unfold bind. destruct (evm (modules W s) fuel (locals W s) e0 (world W s)); reflexivity. }
      destruct e; try exact Dflt.
      + (* Tuple *)
        rewrite (exprs_effect fuel (expr_stmt_n n) xs) by (intros; apply IH). simpl.
        unfold Sem.eval_in. rewrite (eval_Tuple W OP prim heap_un heap_bin heap_slice dict_check ref_truth defs). unfold bind.
        destruct (mapM W (evm (modules W s) fuel (locals W s)) xs (world W s)); reflexivity.
      + (* List *)
        rewrite (exprs_effect fuel (expr_stmt_n n) xs) by (intros; apply IH). simpl.
        unfold Sem.eval_in. rewrite (eval_List W OP prim heap_un heap_bin heap_slice dict_check ref_truth defs). unfold bind.
        destruct (mapM W (evm (modules W s) fuel (locals W s)) xs (world W s)); reflexivity.
      + (* Builtin1 *)
        destruct o; try exact Dflt; rewrite IH, !exec_Expr';
          rewrite (eval_B1 W OP prim heap_un heap_bin heap_slice dict_check ref_truth defs); unfold bind;
          destruct (evm (modules W s) fuel (locals W s) e (world W s)); reflexivity.
      + (* LogicalBinOp *)
        destruct o; rewrite (if_stmt_n_sound _ IH); rewrite exec_IfS, exec_Expr'; unfold Sem.eval_in;
          rewrite (eval_Log W OP prim heap_un heap_bin heap_slice dict_check ref_truth defs); unfold bind;
          destruct (evm (modules W s) fuel (locals W s) e1 (world W s)); simpl; auto;
          destruct (truth w a); simpl; auto; rewrite IH, exec_Expr'; reflexivity.
  Qed.

  Lemma expr_stmt_sound e fuel s : run_block (exec fuel) (expr_stmt e) s = exec fuel (Expr e) s.
  Proof. apply expr_stmt_n_sound. Qed.

  Lemma if_stmt_sound c t f fuel s : run_block (exec fuel) (if_stmt c t f) s = exec fuel (IfS c t f) s.
  Proof. apply if_stmt_n_sound. intros e fuel' s'. apply expr_stmt_sound. Qed.

  (* ---- invariants: parameters stay assigned, frozen module slots keep their value ------------------------ *)
  Definition Inv (s : state) : Prop :=
    params_assigned param_count (locals W s) /\
    (forall i v, frozen_slot i = Some v -> nth_error (modules W s) i = Some (Some v)).

  Definition res_inv (r : sres W) : Prop :=
    match r with
    | SNormal s | SBreak s | SContinue s | SReturn _ s | SErr _ s => Inv s
    | SOutOfFuel => True
    end.

  Lemma inv_with_world s w : Inv s -> Inv (with_world W s w).
  Proof. intros H; exact H. Qed.

  Lemma opt_e s : Inv s -> forall e fuel w,
    evm (modules W s) fuel (locals W s) (opt e) w = evm (modules W s) fuel (locals W s) e w.
  Proof. intros [H1 H2] e fuel w. apply optimize_sound; auto. Qed.

  Lemma opt_e_in s e fuel : Inv s -> eval_in fuel s (opt e) = eval_in fuel s e.
  Proof. intros H. unfold Sem.eval_in. apply opt_e; auto. Qed.

  Lemma nth_error_upd {A} (l : list A) i j x :
    nth_error (upd l i x) j = if Nat.eqb i j then (match nth_error l j with Some _ => Some x | None => None end) else nth_error l j.
  Proof.
    revert i j; induction l as [|h t IH]; intros i j; simpl.
    - destruct (Nat.eqb i j); destruct j; reflexivity.
    - destruct i, j; simpl; auto.
  Qed.

  Lemma assign_inv fuel t v s : Inv s -> target_ok frozen_slot t = true -> res_inv (assign fuel t v s).
  Proof.
    intros [H1 H2] Ht. destruct t; simpl.
    - split; simpl; auto. intros l Hl. destruct (H1 l Hl) as [x Hx]. rewrite nth_error_upd.
      destruct (Nat.eqb i l); eauto. rewrite Hx. eauto.
    - split; simpl; auto. intros j x Hj. rewrite nth_error_upd. destruct (Nat.eqb i j) eqn:E; auto.
      apply Nat.eqb_eq in E. subst. simpl in Ht. rewrite Hj in Ht. discriminate.
    - destruct (eval_in fuel s a); simpl; auto; try (split; auto).
      destruct (eval_in fuel (with_world W s w) i); simpl; auto; try (split; auto).
      destruct (set_index a0 a1 v w0); simpl; auto; split; auto.
  Qed.

  Lemma assign_opt fuel t v s : Inv s -> assign fuel (optimize_target OP defs param_count frozen_slot t) v s = assign fuel t v s.
  Proof.
    intros H. destruct t; simpl; auto. rewrite opt_e_in by auto.
    destruct (eval_in fuel s a); auto. rewrite opt_e_in by (apply inv_with_world; auto). reflexivity.
  Qed.

  Lemma empty_iter_sound e : is_iterable_empty_with true e = true ->
    forall mods fuel fr w, exists v, evm mods fuel fr e w = Ok v w /\ iter_elems W ref_iter w v = Some [].
  Proof.
    intros H mods fuel fr w.
    destruct e; try (simpl in H; discriminate).
    - (* Value *)
      unfold is_iterable_empty_with in H. destruct (as_builtin_value (Value v)) eqn:E; try discriminate.
      apply as_builtin_value_some in E as [E F]. inversion E; subst v0.
      rewrite (eval_Value W OP prim heap_un heap_bin heap_slice dict_check ref_truth defs). exists v. split; auto.
      apply andb_true_iff in H as [H1 H2].
      destruct v; simpl in *; try discriminate; destruct l; simpl in *; try discriminate; auto.
    - destruct xs; try discriminate. rewrite (eval_Tuple W OP prim heap_un heap_bin heap_slice dict_check ref_truth defs).
      unfold bind. simpl. eauto.
    - destruct xs; try discriminate. rewrite (eval_List W OP prim heap_un heap_bin heap_slice dict_check ref_truth defs).
      unfold bind. simpl. eauto.
    - destruct kvs; try discriminate. rewrite (eval_Dict W OP prim heap_un heap_bin heap_slice dict_check ref_truth defs).
      unfold bind. simpl. eauto.
  Qed.

  Notation ostmt := (optimize_stmt OP defs param_count frozen_slot true).
  Notation oblock := (optimize_block OP defs param_count frozen_slot true).

  Definition stmt_sound (st : stmt) : Prop :=
    stmt_ok frozen_slot st = true -> forall fuel s, Inv s ->
    run_block (exec fuel) (ostmt st) s = exec fuel st s /\ res_inv (exec fuel st s).

  Lemma block_inv fuel ss : Forall stmt_sound ss -> forallb (stmt_ok frozen_slot) ss = true ->
    forall s, Inv s -> res_inv (run_block (exec fuel) ss s).
  Proof.
    induction 1 as [|x t Hx Ht IH]; simpl; intros Hok s HI; auto.
    apply andb_true_iff in Hok as [Ho1 Ho2]. destruct (Hx Ho1 fuel s HI) as [_ Hr].
    destruct (exec fuel x s); simpl in *; auto.
  Qed.

  Lemma block_sound fuel ss : Forall stmt_sound ss -> forallb (stmt_ok frozen_slot) ss = true ->
    forall acc s, (forall s1, run_block (exec fuel) acc s = SNormal s1 -> Inv s1) ->
    run_block (exec fuel) (oblock ss acc) s =
    match run_block (exec fuel) acc s with SNormal s1 => run_block (exec fuel) ss s1 | o => o end.
  Proof.
    induction 1 as [|x t Hx Ht IH]; simpl; intros Hok acc s HI.
    - destruct (run_block (exec fuel) acc s); auto.
    - apply andb_true_iff in Hok as [Ho1 Ho2].
      destruct (is_terminal acc) eqn:T.
      + pose proof (terminal_not_normal fuel acc T s) as N.
        destruct (run_block (exec fuel) acc s); auto. exfalso; eapply N; eauto.
      + rewrite IH; auto.
        * rewrite extend_sound, run_block_app.
          destruct (run_block (exec fuel) acc s) as [s1| | | | |] eqn:Ra; auto.
          destruct (Hx Ho1 fuel s1 (HI _ eq_refl)) as [Hs _]. rewrite Hs.
          destruct (exec fuel x s1); auto.
        * intros s2. rewrite extend_sound, run_block_app.
          destruct (run_block (exec fuel) acc s) as [s1| | | | |] eqn:Ra; try discriminate.
          destruct (Hx Ho1 fuel s1 (HI _ eq_refl)) as [Hs Hr]. rewrite Hs. intros E. rewrite E in Hr. exact Hr.
  Qed.

  Lemma opt_block_eq ss : forall acc,
    (fix ob (ss : list stmt) (acc : list stmt) : list stmt :=
       match ss with
       | [] => acc
       | s :: r => if is_terminal acc then acc else ob r (extend acc (ostmt s))
       end) ss acc = oblock ss acc.
  Proof. induction ss as [|x r IH]; intros acc; simpl; auto; destruct (is_terminal acc); auto. Qed.

  Lemma block_sound0 fuel ss : Forall stmt_sound ss -> forallb (stmt_ok frozen_slot) ss = true ->
    forall s, Inv s -> run_block (exec fuel) (oblock ss []) s = run_block (exec fuel) ss s.
  Proof.
    intros H Hok s HI. rewrite block_sound; auto. simpl. intros s1 E. inversion E; subst; auto.
  Qed.

  Lemma for_loop_sound fuel t body body' : target_ok frozen_slot t = true ->
    (forall s, Inv s -> run_block (exec fuel) body' s = run_block (exec fuel) body s /\ res_inv (run_block (exec fuel) body s)) ->
    forall vs s, Inv s ->
    for_loop fuel (optimize_target OP defs param_count frozen_slot t) body' vs s = for_loop fuel t body vs s /\
    res_inv (for_loop fuel t body vs s).
  Proof.
    intros Ht Hb. induction vs as [|x r IH]; intros s HI; simpl; auto.
    rewrite assign_opt by auto. pose proof (assign_inv fuel t x s HI Ht) as Ha.
    destruct (assign fuel t x s) as [s1| | | | |]; simpl in Ha; auto.
    destruct (Hb s1 Ha) as [Hb1 Hb2]. rewrite Hb1.
    destruct (run_block (exec fuel) body s1); simpl in Hb2; auto.
  Qed.

  Theorem optimize_stmt_sound st : stmt_sound st.
  Proof.
    induction st using stmt_ind'; intros Hok fuel s HI.
    - (* Return *) cbn [optimize_stmt]. rewrite run_block_one. simpl. rewrite opt_e_in by auto.
      split; auto. destruct (eval_in fuel s e); simpl; auto.
    - (* Expr *) cbn [optimize_stmt]. rewrite expr_stmt_sound. simpl. rewrite opt_e_in by auto.
      split; auto. destruct (eval_in fuel s e); simpl; auto.
    - (* Assign *) cbn [optimize_stmt]. rewrite run_block_one. simpl. rewrite opt_e_in by auto.
      simpl in Hok. destruct (eval_in fuel s e); simpl; auto.
      rewrite assign_opt by (apply inv_with_world; auto). split; auto. apply assign_inv; auto.
    - (* IfS *) cbn [optimize_stmt]. rewrite !opt_block_eq. rewrite if_stmt_sound. rewrite !exec_IfS.
      rewrite opt_e_in by auto. simpl in Hok. apply andb_true_iff in Hok as [Ho1 Ho2].
      destruct (eval_in fuel s c); simpl; auto.
      destruct (truth w a).
      + rewrite block_sound0; auto. split; auto. apply block_inv; auto.
      + rewrite block_sound0; auto. split; auto. apply block_inv; auto.
    - (* For *) cbn [optimize_stmt]. rewrite opt_block_eq. simpl in Hok. apply andb_true_iff in Hok as [Ho1 Ho2].
      assert (HB : forall s, Inv s ->
                run_block (exec fuel) (oblock body []) s = run_block (exec fuel) body s /\
                res_inv (run_block (exec fuel) body s)).
      { intros s0 H0. split; [apply block_sound0 | apply block_inv]; auto. }
      assert (Full : run_block (exec fuel) [For (optimize_target OP defs param_count frozen_slot t) (opt o) (oblock body [])] s
                     = exec fuel (For t o body) s /\ res_inv (exec fuel (For t o body) s)).
      { rewrite run_block_one, !exec_For. rewrite opt_e_in by auto.
        destruct (eval_in fuel s o); simpl; auto.
        destruct (iter_elems W ref_iter w a); simpl; auto.
        apply for_loop_sound; auto. }
      unfold for_stmt_with. destruct (is_iterable_empty_with true (opt o)) eqn:E; auto.
      destruct Full as [_ Fr]. split; auto. rewrite exec_For. rewrite <- opt_e_in by auto. unfold Sem.eval_in.
      destruct (empty_iter_sound _ E (modules W s) fuel (locals W s) (world W s)) as [v [Hv Hi]].
      rewrite Hv, Hi. simpl. rewrite with_world_id. reflexivity.
    - split; simpl; auto.
    - split; simpl; auto.
  Qed.

  (* C02_optimize_stmts_sound *)
  Theorem optimize_stmts_sound ss : forallb (stmt_ok frozen_slot) ss = true -> forall fuel s, Inv s ->
    run_block (exec fuel) (optimize_stmts OP defs param_count frozen_slot true ss) s = run_block (exec fuel) ss s.
  Proof.
    intros Hok fuel s HI. apply block_sound0; auto. apply Forall_forall. intros x _. apply optimize_stmt_sound.
  Qed.

  (* the code's guard, as read from the Rust text *)
  Lemma excl_true : iterable_empty_excludes_str = true.
  Proof. reflexivity. Qed.

  Theorem optimize_stmts_sound_real ss : forallb (stmt_ok frozen_slot) ss = true -> forall fuel s, Inv s ->
    run_block (exec fuel) (optimize_stmts OP defs param_count frozen_slot iterable_empty_excludes_str ss) s = run_block (exec fuel) ss s.
  Proof. rewrite excl_true. apply optimize_stmts_sound. Qed.
End StmtProofs.

(* ======================================================================================================== *)
(* substitution of a module slot by its (frozen) value; opacifying rewrite *)
Section FreezeProofs.
  Variable W : Type.
  Variable OP : ops.
  Variable prim : nat -> list value -> W -> res W value.
  Variable heap_un : un -> value -> W -> res W value.
  Variable heap_bin : bop -> value -> value -> W -> res W value.
  Variable heap_slice : value -> value -> value -> value -> W -> res W value.
  Variable dict_check : list value -> option string.
  Variable ref_truth : W -> nat -> bool.
  Variable defs : nat -> option (nat * expr).
  Variable mods : frame.
  Notation eval := (eval W OP prim heap_un heap_bin heap_slice dict_check ref_truth defs mods).

  Lemma subst_slot_sound sl v : nth_error mods sl = Some (Some v) ->
    forall e fuel fr w, eval fuel fr (subst_slot sl v e) w = eval fuel fr e w.
  Proof.
    intros Hs. induction e using expr_ind'; simpl; intros fuel fr w; auto.
    - destruct (Nat.eqb sl i) eqn:E; auto. apply Nat.eqb_eq in E. subst.
      rewrite (eval_Value W OP), (eval_Module W OP). unfold read_slot. rewrite Hs. reflexivity.
    - rewrite !(eval_Tuple W OP). apply bind_ext; auto. intros w'. rewrite mapM_map. apply mapM_ext.
      eapply Forall_impl; [|exact H]. simpl. auto.
    - rewrite !(eval_List W OP). apply bind_ext; auto. intros w'. rewrite mapM_map. apply mapM_ext.
      eapply Forall_impl; [|exact H]. simpl. auto.
    - rewrite !(eval_Dict W OP). apply bind_ext; auto. intros w'. rewrite mapM_map. apply mapM_ext.
      eapply Forall_impl; [|exact H]. simpl. auto.
    - rewrite !(eval_If W OP). apply bind_ext; auto. intros a w'. destruct (truth W ref_truth w' a); auto.
    - rewrite !(eval_Slice W OP). apply bind_ext; auto. intros; apply bind_ext; auto.
      intros; apply bind_ext; auto. intros; apply bind_ext; auto.
    - rewrite !(eval_B1 W OP). apply bind_ext; auto.
    - rewrite !(eval_Log W OP). apply bind_ext; auto. intros a w'. destruct o; destruct (truth W ref_truth w' a); auto.
    - rewrite !(eval_Seq W OP). apply bind_ext; auto.
    - rewrite !(eval_B2 W OP). apply bind_ext; auto. intros; apply bind_ext; auto.
    - rewrite !(eval_Call W OP). apply bind_ext; auto.
      intros fv w'. apply bind_ext; auto. intros w''. rewrite mapM_map. apply mapM_ext.
      eapply Forall_impl; [|exact H]. simpl. auto.
    - destruct fuel; [reflexivity|]. rewrite !(eval_Inlined_S W OP). apply IHe.
  Qed.

  (* expr.rs expr_ident: a module variable is replaced by its current value only when the binding is assigned at
     most once; the replacement is unobservable as long as the slot holds that value *)
  Lemma ident_module_sound amo cur sl :
    (forall v, cur = Some v -> nth_error mods sl = Some (Some v)) ->
    forall fuel fr w, eval fuel fr (ident_module amo cur sl) w = eval fuel fr (Module sl) w.
  Proof.
    intros H fuel fr w. unfold ident_module. destruct amo; auto. destruct cur as [v|]; auto.
    destruct (frozenb v); auto. rewrite (eval_Value W OP), (eval_Module W OP). unfold read_slot.
    rewrite (H v eq_refl). reflexivity.
  Qed.

  (* the opacifying rewrite c |-> opaque(c): `opaque` is a native identity function *)
  Lemma opacify_call_sound p : (forall v w, prim p [v] w = Ok v w) ->
    p <> fn_len -> p <> fn_type -> o_spec OP p = None ->
    forall e fuel fr w, eval fuel fr (Call (Value (VPrim p)) [e]) w = eval fuel fr e w.
  Proof.
    intros Hid H1 H2 H3 e fuel fr w. rewrite (eval_call_prim1 W OP). unfold bind.
    destruct (eval fuel fr e w); auto. unfold prim_sem.
    apply Nat.eqb_neq in H1. apply Nat.eqb_neq in H2. rewrite H1, H2, H3. apply Hid.
  Qed.

  Lemma opacify_sound p : (forall v w, prim p [v] w = Ok v w) ->
    p <> fn_len -> p <> fn_type -> o_spec OP p = None ->
    forall e fuel fr w, eval fuel fr (opacify p e) w = eval fuel fr e w.
  Proof.
    intros Hid H1 H2 H3. induction e using expr_ind'; simpl; intros fuel fr w; auto.
    - apply opacify_call_sound; auto.
    - rewrite !(eval_Tuple W OP). apply bind_ext; auto. intros w'. rewrite mapM_map. apply mapM_ext.
      eapply Forall_impl; [|exact H]. simpl. auto.
    - rewrite !(eval_List W OP). apply bind_ext; auto. intros w'. rewrite mapM_map. apply mapM_ext.
      eapply Forall_impl; [|exact H]. simpl. auto.
    - rewrite !(eval_Dict W OP). apply bind_ext; auto. intros w'. rewrite mapM_map. apply mapM_ext.
      eapply Forall_impl; [|exact H]. simpl. auto.
    - rewrite !(eval_If W OP). apply bind_ext; auto. intros a w'. destruct (truth W ref_truth w' a); auto.
    - rewrite !(eval_Slice W OP). apply bind_ext; auto. intros; apply bind_ext; auto.
      intros; apply bind_ext; auto. intros; apply bind_ext; auto.
    - rewrite !(eval_B1 W OP). apply bind_ext; auto.
    - rewrite !(eval_Log W OP). apply bind_ext; auto. intros a w'. destruct o; destruct (truth W ref_truth w' a); auto.
    - rewrite !(eval_Seq W OP). apply bind_ext; auto.
    - rewrite !(eval_B2 W OP). apply bind_ext; auto. intros; apply bind_ext; auto.
    - rewrite !(eval_Call W OP). apply bind_ext.
      + intros w'. destruct e; auto.
      + intros fv w'. apply bind_ext; auto. intros w''. rewrite mapM_map. apply mapM_ext.
        eapply Forall_impl; [|exact H]. simpl. auto.
    - destruct fuel; [reflexivity|]. rewrite !(eval_Inlined_S W OP). apply IHe.
  Qed.
End FreezeProofs.

(* ======================================================================================================== *)
(* the "cell" opacifying rewrite over MiniStar SOURCE (coq/Core): e |-> (e,)[0] evaluates exactly like e, with two
   more units of fuel (value, failure, store and transcript) *)
From SV Require Core.Syntax Core.Values Core.Sem.

Definition ministar_cell (e : SV.Core.Syntax.expr) : SV.Core.Syntax.expr :=
  SV.Core.Syntax.EIndex (SV.Core.Syntax.ETuple [e]) (SV.Core.Syntax.EInt 0%Z).

Lemma ministar_cell_sound n en e s :
  SV.Core.Sem.eval (S (S n)) en (ministar_cell e) s = SV.Core.Sem.eval n en e s.
Proof.
  unfold ministar_cell. cbn [SV.Core.Sem.eval]. unfold SV.Core.Values.bind. cbn [SV.Core.Values.mapM].
  unfold SV.Core.Values.bind.
  destruct (SV.Core.Sem.eval n en e s) as [v s'| |]; try reflexivity.
Qed.
