(* C02 IModel: the compile-time optimiser of starlark-rust (eval/compiler/{expr,expr_bool,stmt,call,def_inline}.rs)
   as executable Gallina, branch by branch.  NO proofs in this file.

   Values.  `Value(FrozenValue)` of the Rust IR holds only frozen values; here `frozenb v` is that invariant
   (no fresh container, no reference to a mutable object anywhere inside) and `as_value` only recognises
   a constant when it holds.  Fresh containers built by displays are by-value (`VList`, `VDict`); objects with
   identity that live in the (abstract) run-time world are `VRef`.

   Operations on frozen operands are pure functions (`pure_un`, `pure_bin`, `pure_slice`): the scalar part is
   concrete, everything else is delegated to the parameter record `ops` (any state-independent semantics).
   Compile-time folding = running exactly these functions, and folding only when the result is `CV v`. *)
From Coq Require Import ZArith String List Bool.
From SV Require Import Extracted.OptC.
Import ListNotations.
Open Scope Z_scope.
Open Scope string_scope.

Inductive value :=
| VNone | VBool (b : bool) | VInt (z : Z) | VStr (s : string)
| VTuple (l : list value)
| VList (l : list value)            (* fresh (mutable in reality) list, by value *)
| VFList (l : list value)           (* frozen list constant *)
| VDict (l : list value)            (* fresh dict: k1; v1; k2; v2 ... *)
| VPrim (p : nat)                   (* native function *)
| VDef (d : nat)                    (* frozen def *)
| VOpaque (n : nat)                 (* frozen value of a non-builtin type (struct, record, enum ...) *)
| VRef (r : nat).                   (* reference to a mutable object of the run-time world *)

(* FrozenValue invariant *)
Fixpoint frozenb (v : value) : bool :=
  match v with
  | VTuple l | VFList l => (fix go (l : list value) : bool := match l with [] => true | x :: t => frozenb x && go t end) l
  | VList _ | VDict _ | VRef _ => false
  | _ => true
  end.

(* Value::is_builtin (values/layout/value.rs) *)
Definition is_builtin (v : value) : bool :=
  match v with VOpaque _ => false | _ => true end.

Definition type_of (v : value) : string :=
  match v with
  | VNone => "NoneType" | VBool _ => "bool" | VInt _ => "int" | VStr _ => "string" | VTuple _ => "tuple"
  | VList _ | VFList _ => "list" | VDict _ => "dict" | VPrim _ => "function" | VDef _ => "function"
  | VOpaque _ => "opaque" | VRef _ => "ref"
  end.

(* truth of a value that is not a reference *)
Definition truth0 (v : value) : bool :=
  match v with
  | VNone => false | VBool b => b | VInt z => negb (Z.eqb z 0) | VStr s => negb (String.eqb s "")
  | VTuple l | VList l | VFList l | VDict l => match l with [] => false | _ => true end
  | _ => true
  end.

(* Value::length on builtin values *)
Definition len_of (v : value) : option Z :=
  match v with
  | VStr s => Some (Z.of_nat (String.length s))
  | VTuple l | VList l | VFList l => Some (Z.of_nat (List.length l))
  | VDict l => Some (Z.of_nat (List.length l) / 2)
  | _ => None
  end.

(* result of a compile-time (= state independent) evaluation *)
Inductive cres := CV (v : value) | CErr (m : string).

Inductive un := Minus | Plus | BitNot | Not | TypeIs (t : string) | PercentSOne (fmt : string).
Inductive cmp := Lt | Gt | Le | Ge.
Inductive bop := Equals | In | Sub | Add | Mul | Percent | FloorDiv | BitAnd | BitOr | BitXor | Shl | Shr
               | Compare (c : cmp) | ArrayIndex.
Inductive lop := And | Or.

(* the part of the operator semantics on frozen operands that is not modelled concretely: any pure functions *)
Record ops := {
  o_un : un -> value -> cres;
  o_bin : bop -> value -> value -> cres;
  o_slice : value -> value -> value -> value -> cres;
  o_spec : nat -> option (list value -> cres);     (* Some = marked speculative_exec_safe, with its pure meaning *)
  o_pct : string -> bool                            (* parse_percent_s_one succeeds on this format *)
}.

Definition cmp_apply (c : cmp) (o : comparison) : bool :=
  match c, o with
  | Lt, Datatypes.Lt => true | Gt, Datatypes.Gt => true
  | Le, Datatypes.Gt => false | Le, _ => true
  | Ge, Datatypes.Lt => false | Ge, _ => true
  | _, _ => false
  end.

Definition pure_bin0 (O : ops) (o : bop) (a b : value) : cres :=
  match o, a, b with
  | Equals, VStr x, VStr y => CV (VBool (String.eqb x y))
  | Equals, VInt x, VInt y => CV (VBool (Z.eqb x y))
  | Equals, VBool x, VBool y => CV (VBool (Bool.eqb x y))
  | Equals, VNone, VNone => CV (VBool true)
  | Compare c, VInt x, VInt y => CV (VBool (cmp_apply c (Z.compare x y)))
  | Sub, VInt x, VInt y => CV (VInt (x - y))
  | Add, VInt x, VInt y => CV (VInt (x + y))
  | Add, VStr x, VStr y => CV (VStr (x ++ y))
  | Add, VTuple x, VTuple y => CV (VTuple (x ++ y))
  | Add, VFList x, VFList y => CV (VList (x ++ y))           (* a fresh list *)
  | Mul, VInt x, VInt y => CV (VInt (x * y))
  | FloorDiv, VInt x, VInt y => if Z.eqb y 0 then CErr "Integer division by zero" else CV (VInt (x / y))
  | Percent, VInt x, VInt y => if Z.eqb y 0 then CErr "Integer modulo by zero" else CV (VInt (x mod y))
  | BitAnd, VInt x, VInt y => CV (VInt (Z.land x y))
  | BitOr, VInt x, VInt y => CV (VInt (Z.lor x y))
  | BitXor, VInt x, VInt y => CV (VInt (Z.lxor x y))
  | Shl, VInt x, VInt y => if Z.ltb y 0 then CErr "Negative shift count" else CV (VInt (Z.shiftl x y))
  | Shr, VInt x, VInt y => if Z.ltb y 0 then CErr "Negative shift count" else CV (VInt (Z.shiftr x y))
  | ArrayIndex, (VTuple l | VFList l), VInt i =>
      let n := Z.of_nat (List.length l) in
      let j := if Z.ltb i 0 then i + n else i in
      if Z.leb 0 j && Z.ltb j n then match nth_error l (Z.to_nat j) with Some v => CV v | None => CErr "Index out of bound" end
      else CErr "Index out of bound"
  | _, _, _ => o_bin O o a b
  end.

(* Builtin2::eval: `equals`, `compare`, `is_in` return a Rust bool that is wrapped by Value::new_bool *)
Definition is_bool_op (o : bop) : bool :=
  match o with Equals | In | Compare _ => true | _ => false end.

Definition pure_bin (O : ops) (o : bop) (a b : value) : cres :=
  match pure_bin0 O o a b with
  | CV v => if is_bool_op o then CV (VBool (truth0 v)) else CV v
  | CErr m => CErr m
  end.

Definition pure_un (O : ops) (o : un) (v : value) : cres :=
  match o, v with
  | Minus, VInt z => CV (VInt (- z))
  | Plus, VInt z => CV (VInt z)
  | BitNot, VInt z => CV (VInt (Z.lnot z))
  | Not, _ => CV (VBool (negb (truth0 v)))
  | TypeIs t, _ => CV (VBool (String.eqb (type_of v) t))
  | PercentSOne fmt, _ => pure_bin O Percent (VStr fmt) v     (* by definition of the specialised instruction *)
  | _, _ => o_un O o v
  end.

Definition pure_slice (O : ops) (a lo hi st : value) : cres := o_slice O a lo hi st.

(* ---- the IR (ExprCompiled / StmtCompiled) ----------------------------------------------------------- *)
Inductive expr :=
| Value (v : value)
| Local (i : nat)
| Module (i : nat)
| Tuple (xs : list expr)
| List (xs : list expr)
| Dict (kvs : list expr)                       (* k1; v1; k2; v2 ... evaluated left to right *)
| If (c t f : expr)
| Slice (a lo hi st : expr)                    (* an absent bound is `Value VNone` *)
| Builtin1 (o : un) (x : expr)
| LogicalBinOp (o : lop) (l r : expr)
| Seq (l r : expr)
| Builtin2 (o : bop) (l r : expr)
| Call (f : expr) (args : list expr)
| Inlined (e : expr).                          (* body of an inlined call: the span records the inlined frame *)

Inductive target := TLocal (i : nat) | TModule (i : nat) | TIndex (a i : expr).

Inductive stmt :=
| Return (e : expr) | Expr (e : expr) | Assign (t : target) (e : expr)
| IfS (c : expr) (t f : list stmt)
| For (t : target) (over : expr) (body : list stmt)
| Break | Continue.

(* the opacifying rewrite on the IR: every constant c becomes opaque(c), `opaque` = native function p *)
Fixpoint opacify (p : nat) (e : expr) : expr :=
  match e with
  | Value v => Call (Value (VPrim p)) [Value v]
  | Local _ | Module _ => e
  | Tuple xs => Tuple (map (opacify p) xs)
  | List xs => List (map (opacify p) xs)
  | Dict xs => Dict (map (opacify p) xs)
  | If c t f => If (opacify p c) (opacify p t) (opacify p f)
  | Slice a b c d => Slice (opacify p a) (opacify p b) (opacify p c) (opacify p d)
  | Builtin1 op x => Builtin1 op (opacify p x)
  | LogicalBinOp op l r => LogicalBinOp op (opacify p l) (opacify p r)
  | Seq l r => Seq (opacify p l) (opacify p r)
  | Builtin2 op l r => Builtin2 op (opacify p l) (opacify p r)
  | Call f args => Call (match f with Value _ => f | _ => opacify p f end) (map (opacify p) args)
  | Inlined x => Inlined (opacify p x)
  end.

(* native functions with a fixed meaning: Constants::get().fn_len / fn_type *)
Definition fn_len : nat := 0%nat.
Definition fn_type : nat := 1%nat.

(* ExprCompiled::as_value: a constant (the FrozenValue invariant is the guard) *)
Definition as_value (e : expr) : option value :=
  match e with Value v => if frozenb v then Some v else None | _ => None end.

(* ExprCompiled::as_builtin_value *)
Definition as_builtin_value (e : expr) : option value :=
  match as_value e with Some v => if is_builtin v then Some v else None | None => None end.

(* CallCompiled::as_type: `type(x)` *)
Definition as_type (e : expr) : option expr :=
  match e with
  | Call (Value (VPrim p)) [x] => if Nat.eqb p fn_type then Some x else None
  | _ => None
  end.

(* ExprCompiled::is_pure_infallible (+ CallCompiled::is_pure_infallible) *)
Fixpoint is_pure_infallible (e : expr) : bool :=
  match e with
  | Value _ => true
  | List xs | Tuple xs => (fix all (l : list expr) : bool := match l with [] => true | x :: t => is_pure_infallible x && all t end) xs
  | Dict xs => match xs with [] => true | _ => false end
  | Builtin1 Not x => is_pure_infallible x
  | Builtin1 (TypeIs _) x => is_pure_infallible x
  | Seq x y => is_pure_infallible x && is_pure_infallible y
  | LogicalBinOp _ x y => is_pure_infallible x && is_pure_infallible y
  | If c x y => is_pure_infallible c && is_pure_infallible x && is_pure_infallible y
  | Call (Value (VPrim p)) [x] => Nat.eqb p fn_type && is_pure_infallible x
  | _ => false
  end.

Definition all_pure_infallible (xs : list expr) : bool := forallb is_pure_infallible xs.

(* ExprCompiled::is_pure_infallible_to_bool *)
Fixpoint is_pure_infallible_to_bool (e : expr) : option bool :=
  match e with
  | Value v => if frozenb v then Some (truth0 v) else None
  | List xs | Tuple xs => if all_pure_infallible xs then Some (match xs with [] => false | _ => true end) else None
  | Dict [] => Some false
  | Builtin1 Not x => option_map negb (is_pure_infallible_to_bool x)
  | LogicalBinOp op x y =>
      match op, is_pure_infallible_to_bool x, is_pure_infallible_to_bool y with
      | And, Some true, y' => y'
      | Or, Some false, y' => y'
      | And, Some false, _ => Some false
      | Or, Some true, _ => Some true
      | _, None, _ => None
      end
  | _ => None
  end.

(* NOT the code: is_pure_infallible_to_bool with the dict arm written the way the list/tuple arm is written ("the entries are
   pure and infallible, so the truth value is `number of entries <> 0`").  The code restricts its dict arm to the EMPTY display
   (`ExprCompiled::Dict(xs) if xs.is_empty() => Some(false)`, presence read from the Rust text: OptC.to_bool_dict_only_empty).
   This variant is kept to show that the restriction is necessary (C02_dict_to_bool_guard_necessary): evaluating the entries
   of `{[]: 1}` or `{"a": 1, "a": 2}` has no effect and cannot fail, BUILDING the dict fails (unhashable / repeated key), and a
   condition folded from the shape of the display loses that failure. *)
Definition to_bool_dict_by_entries (e : expr) : option bool :=
  match e with
  | Dict (_ :: _ as xs) => if all_pure_infallible xs then Some true else None
  | _ => is_pure_infallible_to_bool e
  end.

(* the smart constructors that consume the prediction, over an arbitrary predictor `tb`
   (with tb := is_pure_infallible_to_bool: logical_bin_op, and the constant cases of if_expr) *)
Definition logical_bin_op_with (tb : expr -> option bool) (op : lop) (l r : expr) : expr :=
  match tb l with
  | Some lv => if Bool.eqb lv (match op with Or => true | And => false end) then l else r
  | None => LogicalBinOp op l r
  end.

Definition if_expr_with (tb : expr -> option bool) (c t f : expr) : expr :=
  match tb c with Some true => t | Some false => f | None => If c t f end.

(* ExprCompiled::is_definitely_bool *)
Definition is_definitely_bool (e : expr) : bool :=
  match e with
  | Value (VBool _) => true
  | Builtin1 Not _ | Builtin1 (TypeIs _) _ => true
  | Builtin2 In _ _ | Builtin2 Equals _ _ | Builtin2 (Compare _) _ _ => true
  | _ => false
  end.

(* ExprCompiled::is_iterable_empty: an empty display, or a builtin constant whose length() is Ok(0).
   `excl` = the guard `!v.is_str()`: the empty STRING has length 0 but is not iterable; without the guard a `for` over it
   is removed although executing it fails (C02_for_stmt_string_guard_necessary).  Whether the code has the guard is
   read from the Rust text by the translator (Extracted/OptC.v). *)
Definition is_iterable_empty_with (excl : bool) (e : expr) : bool :=
  match e with
  | List [] | Tuple [] | Dict [] => true
  | _ => match as_builtin_value e with
         | Some v => (if excl then match v with VStr _ => false | _ => true end else true) &&
                     match len_of v with Some 0%Z => true | _ => false end
         | None => false
         end
  end.

Definition is_iterable_empty : expr -> bool := is_iterable_empty_with iterable_empty_excludes_str.

(* ---- smart constructors ------------------------------------------------------------------------------ *)
(* ExprCompiled::try_value: turn a compile-time result into an expression, or discard it *)
Definition try_value (v : value) : option expr :=
  if frozenb v then Some (Value v)
  else match v with
       | VList l => if forallb frozenb l then Some (List (map Value l)) else None
       | _ => None
       end.

Definition try_cres (c : cres) : option expr :=
  match c with CV v => try_value v | CErr _ => None end.

(* ExprCompiled::tuple *)
Fixpoint all_values (xs : list expr) : option (list value) :=
  match xs with
  | [] => Some []
  | x :: t => match as_value x, all_values t with Some v, Some vs => Some (v :: vs) | _, _ => None end
  end.

Definition tuple_c (xs : list expr) : expr :=
  match all_values xs with Some vs => Value (VTuple vs) | None => Tuple xs end.

(* ExprCompiled::not *)
Definition not_c (e : expr) : expr :=
  match e with
  | Value v => if frozenb v then Value (VBool (negb (truth0 v))) else Builtin1 Not e
  | Builtin1 Not e' => if is_definitely_bool e' then e' else Builtin1 Not e
  | _ => Builtin1 Not e
  end.

(* ExprCompiled::logical_bin_op *)
Definition logical_bin_op (op : lop) (l r : expr) : expr :=
  match is_pure_infallible_to_bool l with
  | Some lv => if Bool.eqb lv (match op with Or => true | And => false end) then l else r
  | None => LogicalBinOp op l r
  end.

(* ExprCompiled::seq *)
Definition seq_c (l r : expr) : expr := if is_pure_infallible l then r else Seq l r.

(* ExprCompiledBool::new: an expression of which only the truth is needed *)
Inductive bexpr := BConst (b : bool) | BExpr (e : expr).
Definition b_into_expr (b : bexpr) : expr := match b with BConst b => Value (VBool b) | BExpr e => e end.
Definition b_const (b : bexpr) : option bool := match b with BConst b => Some b | BExpr _ => None end.

Fixpoint bool_new (e : expr) : bexpr :=
  match is_pure_infallible_to_bool e with
  | Some b => BConst b
  | None =>
    match e with
    | Builtin1 Not x =>
        let x' := bool_new x in
        match b_const x' with Some b => BConst (negb b) | None => BExpr (Builtin1 Not (b_into_expr x')) end
    | LogicalBinOp op x y =>
        let x' := bool_new x in let y' := bool_new y in
        match op, b_const x', b_const y' with
        | And, Some false, _ => BConst false
        | Or, Some true, _ => BConst true
        | And, Some true, _ => y'
        | Or, Some false, _ => y'
        | And, None, Some true => x'
        | Or, None, Some false => x'
        | And, None, Some false => BExpr (seq_c (b_into_expr x') (Value (VBool false)))
        | Or, None, Some true => BExpr (seq_c (b_into_expr x') (Value (VBool true)))
        | op, None, None => BExpr (LogicalBinOp op (b_into_expr x') (b_into_expr y'))
        end
    | _ => BExpr e
    end
  end.

(* ExprCompiled::if_expr; the recursion of the code is on the (smaller) condition, `n` bounds it *)
Fixpoint if_expr_n (n : nat) (c t f : expr) : expr :=
  match bool_new c with
  | BConst true => t
  | BConst false => f
  | BExpr c' =>
    match n with
    | O => If c' t f
    | S n =>
      match c' with
      | Builtin1 Not c'' => if_expr_n n c'' f t
      | Seq x c'' => seq_c x (if_expr_n n c'' t f)
      | _ => If c' t f
      end
    end
  end.

Fixpoint esize (e : expr) : nat :=
  match e with
  | If c t f => S (esize c + esize t + esize f)
  | Builtin1 _ x | Inlined x => S (esize x)
  | LogicalBinOp _ l r | Seq l r | Builtin2 _ l r => S (esize l + esize r)
  | _ => 1%nat
  end.

Definition if_expr (c t f : expr) : expr := if_expr_n (esize c) c t f.

(* ExprCompiled::type_is *)
Definition type_is (x : expr) (t : string) : expr :=
  match as_value x with
  | Some v => Value (VBool (String.eqb (type_of v) t))
  | None => Builtin1 (TypeIs t) x
  end.

(* try_eval_type_is: `type(x) == "t"` *)
Definition try_eval_type_is (l r : expr) : option expr :=
  match as_type l, as_value r with
  | Some x, Some (VStr t) => Some (type_is x t)
  | _, _ => None
  end.

Section WithOps.
  Variable OP : ops.

  (* ExprCompiled::equals *)
  Definition equals (l r : expr) : expr :=
    match (match as_value l, as_value r with
           | Some a, Some b => match pure_bin OP Equals a b with CV (VBool x) => Some (Value (VBool x)) | _ => None end
           | _, _ => None end) with
    | Some e => e
    | None =>
      match try_eval_type_is l r with
      | Some e => e
      | None => match try_eval_type_is r l with
                | Some e => e
                | None => Builtin2 Equals l r
                end
      end
    end.

  (* ExprCompiled::percent_s_one *)
  Definition percent_s_one (fmt : string) (arg : expr) : expr :=
    match (match as_value arg with
           | Some v => match pure_bin OP Percent (VStr fmt) v with CV (VStr s) => Some (Value (VStr s)) | _ => None end
           | None => None end) with
    | Some e => e
    | None => Builtin1 (PercentSOne fmt) arg
    end.

  (* ExprCompiled::percent *)
  Definition percent (l r : expr) : expr :=
    match as_value l with
    | Some (VStr s) => if o_pct OP s then percent_s_one s r else Builtin2 Percent l r
    | _ => Builtin2 Percent l r
    end.

  (* ExprCompiled::index *)
  Definition index (a i : expr) : expr :=
    match (match as_builtin_value a, as_value i with
           | Some av, Some iv => try_cres (pure_bin OP ArrayIndex av iv)
           | _, _ => None end) with
    | Some e => e
    | None => Builtin2 ArrayIndex a i
    end.

  (* ExprCompiled::bin_op (ExprCompiled::add, the fusion of two list displays, allocates one list instead of three:
     it is outside this model and covered by the metamorphic tie only) *)
  Definition bin_op (op : bop) (l r : expr) : expr :=
    match (match as_builtin_value l, as_builtin_value r with
           | Some a, Some b => try_cres (pure_bin OP op a b)
           | _, _ => None end) with
    | Some e => e
    | None =>
      match op with
      | Percent => percent l r
      | Equals => equals l r
      | ArrayIndex => index l r
      | _ => Builtin2 op l r
      end
    end.

  (* ExprCompiled::un_op *)
  Definition un_op (op : un) (x : expr) : expr :=
    match (match as_builtin_value x with
           | Some v => try_cres (pure_un OP op v)
           | None => None end) with
    | Some e => e
    | None =>
      match op with
      | PercentSOne fmt => percent_s_one fmt x
      | TypeIs t => type_is x t
      | Not => not_c x
      | _ => Builtin1 op x
      end
    end.

  (* ExprCompiled::slice *)
  Definition slice_c (a lo hi st : expr) : expr :=
    match (match as_builtin_value a, as_value lo, as_value hi, as_value st with
           | Some av, Some l, Some h, Some s => try_cres (pure_slice OP av l h s)
           | _, _, _, _ => None end) with
    | Some e => e
    | None => Slice a lo hi st
    end.

  (* ExprCompiled::slice AS WRITTEN in expr.rs (the bounds are Option<expr> there): `start.as_ref().map(|e| e.as_value())`
     is an Option<Option<value>>, and the pattern `Some(start)` also matches a bound that is present but NOT a constant,
     which is then handed to slice() as an ABSENT bound.  So with a constant receiver and all three bounds written the
     slice is folded ignoring every non-constant bound (C02_slice_as_written_refuted: a finding).  `slice_c` above is the
     intended guard: every present bound must be a constant. *)
  Definition slice_as_written (a : expr) (lo hi st : option expr) : expr :=
    let ex (x : option expr) := match x with Some e => e | None => Value VNone end in
    let ov (x : option value) := match x with Some v => v | None => VNone end in
    let dflt := Slice a (ex lo) (ex hi) (ex st) in
    match as_builtin_value a, option_map as_value lo, option_map as_value hi, option_map as_value st with
    | Some av, Some l, Some h, Some s =>
        match try_cres (pure_slice OP av (ov l) (ov h) (ov s)) with Some e => e | None => dflt end
    | _, _, _, _ => dflt
    end.

  (* ExprCompiled::len *)
  Definition len_c (arg : expr) : expr :=
    match (match as_value arg with Some v => len_of v | None => None end) with
    | Some n => Value (VInt n)
    | None => Call (Value (VPrim fn_len)) [arg]
    end.

  (* ExprCompiled::typ *)
  Definition typ_c (v : expr) : expr :=
    let dflt := Call (Value (VPrim fn_type)) [v] in
    match v with
    | Value x => if frozenb x then Value (VStr (type_of x)) else dflt
    | Tuple xs => if all_pure_infallible xs then Value (VStr "tuple") else dflt
    | List xs => if all_pure_infallible xs then Value (VStr "list") else dflt
    | Dict [] => Value (VStr "dict")
    | Builtin1 Not x | Builtin1 (TypeIs _) x => if is_pure_infallible x then Value (VStr "bool") else dflt
    | _ => dflt
    end.

  (* ---- inlining (call.rs try_inline, def_inline.rs) --------------------------------------------------- *)
  (* frozen defs whose body is `return e`: parameter count and e *)
  Variable defs : nat -> option (nat * expr).
  (* OptCtx.param_count: parameter slots of the function being compiled (0 at module level) *)
  Variable param_count : nat.

  (* IsSafeToInlineExpr (without the size cut-off, which only makes the real guard stricter) *)
  Fixpoint is_safe_to_inline (pc : nat) (e : expr) : bool :=
    match e with
    | Value _ => true
    | Module _ | Inlined _ => false
    | Local l => Nat.ltb l pc
    | Call f args => is_safe_to_inline pc f &&
        (fix all (l : list expr) : bool := match l with [] => true | x :: t => is_safe_to_inline pc x && all t end) args
    | Slice a b c d => is_safe_to_inline pc a && is_safe_to_inline pc b && is_safe_to_inline pc c && is_safe_to_inline pc d
    | Builtin2 _ a b | LogicalBinOp _ a b | Seq a b => is_safe_to_inline pc a && is_safe_to_inline pc b
    | Builtin1 _ a => is_safe_to_inline pc a
    | Tuple xs | List xs | Dict xs =>
        (fix all (l : list expr) : bool := match l with [] => true | x :: t => is_safe_to_inline pc x && all t end) xs
    | If c t f => is_safe_to_inline pc c && is_safe_to_inline pc t && is_safe_to_inline pc f
    end.

  (* the argument guard of try_inline (expr_to_value): a constant, or a parameter slot of the caller, which is
     definitely assigned *)
  Definition inline_arg_ok (a : expr) : bool :=
    match a with
    | Value v => frozenb v
    | Local l => Nat.ltb l param_count
    | _ => false
    end.

  (* try_spec_exec *)
  Definition try_spec_exec (f : expr) (args : list expr) : option expr :=
    match as_value f, all_values args with
    | Some (VPrim p), Some vs =>
        if Nat.eqb p fn_len || Nat.eqb p fn_type then None else
        match o_spec OP p with
        | Some g => try_cres (g vs)
        | None => None
        end
    | _, _ => None
    end.

  (* InlineDefCallSite::inline: substitute the arguments for the parameter slots, re-applying the smart
     constructors; `callf` is CallCompiled::call *)
  Section InlineBody.
    Variable callf : expr -> list expr -> expr.
    Variable args : list expr.
    Fixpoint inline_body (b : expr) : expr :=
      match b with
      | Value _ => b
      | Local l => nth l args (Value VNone)
      | If c t f' => if_expr (inline_body c) (inline_body t) (inline_body f')
      | LogicalBinOp op l r => logical_bin_op op (inline_body l) (inline_body r)
      | List xs => List (map inline_body xs)
      | Tuple xs => tuple_c (map inline_body xs)
      | Dict xs => Dict (map inline_body xs)
      | Builtin2 op l r => bin_op op (inline_body l) (inline_body r)
      | Builtin1 op x => un_op op (inline_body x)
      | Slice a b c d2 => Slice (inline_body a) (inline_body b) (inline_body c) (inline_body d2)
      | Seq a b2 => seq_c (inline_body a) (inline_body b2)
      | Call g gs => callf (inline_body g) (map inline_body gs)
      | Module _ | Inlined _ => b
      end.
  End InlineBody.

  (* CallCompiled::call without inlining: len / type / speculative execution *)
  Definition call_other (f : expr) (args : list expr) : expr :=
    let dflt := Call f args in
    match f, args with
    | Value (VPrim p), [a] =>
        if Nat.eqb p fn_len then len_c a
        else if Nat.eqb p fn_type then typ_c a
        else match try_spec_exec f args with Some e => e | None => dflt end
    | _, _ => match try_spec_exec f args with Some e => e | None => dflt end
    end.

  (* CallCompiled::call with try_inline first; `n` bounds the nesting of inlined calls *)
  Fixpoint call_n (n : nat) (f : expr) (args : list expr) {struct n} : expr :=
    match n with
    | O => call_other f args
    | S n' =>
      match as_value f with
      | Some (VDef d) =>
          match defs d with
          | Some (np, body) =>
              if is_safe_to_inline np body && Nat.eqb np (List.length args) && forallb inline_arg_ok args
              then Inlined (inline_body (call_n n') args body)
              else call_other f args
          | None => call_other f args
          end
      | _ => call_other f args
      end
    end.

  Definition inline_depth : nat := 8%nat.
  Definition call_c (f : expr) (args : list expr) : expr := call_n inline_depth f args.

  (* post-freeze substitution (expr.rs optimize, ExprCompiled::Module): the frozen module's slot, if set *)
  Variable frozen_slot : nat -> option value.

  (* IrSpanned<ExprCompiled>::optimize *)
  Fixpoint optimize (e : expr) : expr :=
    match e with
    | Value _ | Local _ => e
    | Module s => match frozen_slot s with Some v => if frozenb v then Value v else e | None => e end
    | Tuple xs => tuple_c (map optimize xs)
    | List xs => List (map optimize xs)
    | Dict xs => Dict (map optimize xs)
    | If c t f => if_expr (optimize c) (optimize t) (optimize f)
    | Slice a b c d => slice_c (optimize a) (optimize b) (optimize c) (optimize d)
    | Builtin1 op x => un_op op (optimize x)
    | LogicalBinOp op l r => logical_bin_op op (optimize l) (optimize r)
    | Seq l r => seq_c (optimize l) (optimize r)
    | Builtin2 op l r => bin_op op (optimize l) (optimize r)
    | Call f args => call_c (optimize f) (map optimize args)
    | Inlined x => Inlined (optimize x)
    end.

  (* ---- statements (stmt.rs) ---------------------------------------------------------------------------- *)
  Definition is_terminal (ss : list stmt) : bool :=
    match rev ss with
    | (Break | Continue | Return _) :: _ => true
    | _ => false
    end.

  (* StmtsCompiled::extend *)
  Definition extend (l r : list stmt) : list stmt := if is_terminal l then l else l ++ r.

  (* StmtsCompiled::if_stmt with the recursion of StmtsCompiled::expr folded in through `expr_s` *)
  Section IfStmt.
    Variable expr_s : expr -> list stmt.
    Fixpoint if_stmt_n (n : nat) (c : expr) (t f : list stmt) : list stmt :=
      match bool_new c with
      | BConst true => t
      | BConst false => f
      | BExpr c' =>
        let plain := match t, f with [], [] => expr_s c' | _, _ => [IfS c' t f] end in
        match n with
        | O => plain
        | S n =>
          match c' with
          | Builtin1 Not c'' => if_stmt_n n c'' f t
          | Seq x c'' => extend (expr_s x) (if_stmt_n n c'' t f)
          | _ => plain
          end
        end
      end.
  End IfStmt.

  (* StmtsCompiled::expr; `n` bounds the recursion (expression size) *)
  Fixpoint expr_stmt_n (n : nat) (e : expr) : list stmt :=
    if is_pure_infallible e then [] else
    match n with
    | O => [Expr e]
    | S n =>
      match e with
      | List xs | Tuple xs => fold_left (fun acc x => extend acc (expr_stmt_n n x)) xs []
      | Builtin1 Not x | Builtin1 (TypeIs _) x => expr_stmt_n n x
      | LogicalBinOp And x y => if_stmt_n (expr_stmt_n n) n x (expr_stmt_n n y) []
      | LogicalBinOp Or x y => if_stmt_n (expr_stmt_n n) n x [] (expr_stmt_n n y)
      | _ => match as_type e with
             | Some t => expr_stmt_n n t
             | None => [Expr e]
             end
      end
    end.

  Fixpoint esize_full (e : expr) : nat :=
    match e with
    | Tuple xs | List xs | Dict xs => S (fold_right (fun x a => esize_full x + a)%nat O xs)
    | If c t f => S (esize_full c + esize_full t + esize_full f)
    | Slice a b c d => S (esize_full a + esize_full b + esize_full c + esize_full d)
    | Builtin1 _ x | Inlined x => S (esize_full x)
    | LogicalBinOp _ l r | Seq l r | Builtin2 _ l r => S (esize_full l + esize_full r)
    | Call f args => S (esize_full f + fold_right (fun x a => esize_full x + a)%nat O args)
    | _ => 1%nat
    end.

  Definition expr_stmt (e : expr) : list stmt := expr_stmt_n (esize_full e) e.
  Definition if_stmt (c : expr) (t f : list stmt) : list stmt := if_stmt_n expr_stmt (esize c) c t f.

  (* StmtsCompiled::for_stmt *)
  Definition for_stmt_with (excl : bool) (t : target) (over : expr) (body : list stmt) : list stmt :=
    if is_iterable_empty_with excl over then [] else [For t over body].
  Definition for_stmt : target -> expr -> list stmt -> list stmt := for_stmt_with iterable_empty_excludes_str.

  Definition optimize_target (t : target) : target :=
    match t with
    | TIndex a i => TIndex (optimize a) (optimize i)
    | _ => t
    end.

  (* IrSpanned<StmtCompiled>::optimize / StmtsCompiled::optimize; `excl` = is_iterable_empty's string guard *)
  Section OptStmts.
    Variable excl : bool.
    Fixpoint optimize_stmt (s : stmt) : list stmt :=
      let opt_block := fix ob (ss : list stmt) (acc : list stmt) : list stmt :=
        match ss with
        | [] => acc
        | s :: r => if is_terminal acc then acc else ob r (extend acc (optimize_stmt s))
        end in
      match s with
      | Return e => [Return (optimize e)]
      | Expr e => expr_stmt (optimize e)
      | Assign t e => [Assign (optimize_target t) (optimize e)]
      | IfS c t f => if_stmt (optimize c) (opt_block t []) (opt_block f [])
      | For t over body =>
          for_stmt_with excl (optimize_target t) (optimize over) (opt_block body [])
      | Break => [Break]
      | Continue => [Continue]
      end.

    Fixpoint optimize_block (ss : list stmt) (acc : list stmt) : list stmt :=
      match ss with
      | [] => acc
      | s :: r => if is_terminal acc then acc else optimize_block r (extend acc (optimize_stmt s))
      end.

    Definition optimize_stmts (ss : list stmt) : list stmt := optimize_block ss [].
  End OptStmts.

  (* ---- pre-freeze inlining of module constants (expr.rs expr_ident) --------------------------------- *)
  (* binding facts of scope.rs: AssignCount of the binding of slot s; current content of the slot *)
  Definition ident_module (assign_at_most_once : bool) (cur : option value) (s : nat) : expr :=
    if assign_at_most_once then
      match cur with
      | Some v => if frozenb v then Value v else Module s
      | None => Module s
      end
    else Module s.

  (* substitution of one module slot by a constant in an expression / statements *)
  Fixpoint subst_slot (s : nat) (v : value) (e : expr) : expr :=
    match e with
    | Module s' => if Nat.eqb s s' then Value v else e
    | Value _ | Local _ => e
    | Tuple xs => Tuple (map (subst_slot s v) xs)
    | List xs => List (map (subst_slot s v) xs)
    | Dict xs => Dict (map (subst_slot s v) xs)
    | If c t f => If (subst_slot s v c) (subst_slot s v t) (subst_slot s v f)
    | Slice a b c d => Slice (subst_slot s v a) (subst_slot s v b) (subst_slot s v c) (subst_slot s v d)
    | Builtin1 op x => Builtin1 op (subst_slot s v x)
    | LogicalBinOp op l r => LogicalBinOp op (subst_slot s v l) (subst_slot s v r)
    | Seq l r => Seq (subst_slot s v l) (subst_slot s v r)
    | Builtin2 op l r => Builtin2 op (subst_slot s v l) (subst_slot s v r)
    | Call f args => Call (subst_slot s v f) (map (subst_slot s v) args)
    | Inlined x => Inlined (subst_slot s v x)
    end.

  Definition subst_target (s : nat) (v : value) (t : target) : target :=
    match t with TIndex a i => TIndex (subst_slot s v a) (subst_slot s v i) | _ => t end.

  Fixpoint subst_stmt (s : nat) (v : value) (st : stmt) : stmt :=
    match st with
    | Return e => Return (subst_slot s v e)
    | Expr e => Expr (subst_slot s v e)
    | Assign t e => Assign (subst_target s v t) (subst_slot s v e)
    | IfS c t f => IfS (subst_slot s v c) (map (subst_stmt s v) t) (map (subst_stmt s v) f)
    | For t over body => For (subst_target s v t) (subst_slot s v over) (map (subst_stmt s v) body)
    | Break => Break | Continue => Continue
    end.

  (* the statements never assign module slot s (AssignCount::AtMostOnce and already assigned) *)
  Fixpoint assigns_slot (s : nat) (st : stmt) : bool :=
    match st with
    | Assign (TModule s') _ => Nat.eqb s s'
    | IfS _ t f => existsb (assigns_slot s) t || existsb (assigns_slot s) f
    | For t _ body => (match t with TModule s' => Nat.eqb s s' | _ => false end) || existsb (assigns_slot s) body
    | _ => false
    end.

  (* the statements never assign a module slot that the frozen module provides (pre-freeze: there is none;
     post-freeze: def bodies cannot assign module variables at all) *)
  Definition target_ok (t : target) : bool :=
    match t with TModule i => match frozen_slot i with None => true | Some _ => false end | _ => true end.
  Fixpoint stmt_ok (st : stmt) : bool :=
    match st with
    | Assign t _ => target_ok t
    | IfS _ t f => forallb stmt_ok t && forallb stmt_ok f
    | For t _ body => target_ok t && forallb stmt_ok body
    | _ => true
    end.
End WithOps.
