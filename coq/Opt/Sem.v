(* C02: big-step semantics of the optimiser's IR (Opt/Model.v) over a store (frame of local slots, module slots)
   and an ABSTRACT run-time world W (heap of mutable objects + transcript) in an error monad.

   Calls of native functions are arbitrary functions of the world (`prim`): they may emit to the transcript,
   fail with any message, mutate any object.  Operators on non-frozen operands are arbitrary too (`heap_*`).
   Local and module slots may be unassigned (error).  Fuel is consumed only by calls of defs (and by the
   `Inlined` marker that stands for the frame of an inlined call), so that `eval fuel` of an expression and of
   its optimised form can be compared at the SAME fuel. *)
From Coq Require Import ZArith String List Bool.
From SV Require Import Opt.Model.
Import ListNotations.
Open Scope string_scope.

Section Sem.
  Variable W : Type.

  Inductive res (A : Type) := Ok (a : A) (w : W) | Err (m : string) (w : W) | OutOfFuel.
  Arguments Ok {A}. Arguments Err {A}. Arguments OutOfFuel {A}.

  Definition bind {A B} (m : W -> res A) (f : A -> W -> res B) : W -> res B :=
    fun w => match m w with Ok a w' => f a w' | Err e w' => Err e w' | OutOfFuel => OutOfFuel end.

  Definition mapM {A B} (f : A -> W -> res B) : list A -> W -> res (list B) :=
    fix go (l : list A) (w : W) : res (list B) :=
      match l with
      | [] => Ok [] w
      | x :: t => match f x w with
                  | Ok y w1 => match go t w1 with Ok ys w2 => Ok (y :: ys) w2 | Err e w2 => Err e w2 | OutOfFuel => OutOfFuel end
                  | Err e w1 => Err e w1
                  | OutOfFuel => OutOfFuel
                  end
      end.

  (* ---- parameters: everything the optimiser does not know --------------------------------------------- *)
  Variable OP : ops.                                              (* pure meaning of operators on frozen operands *)
  Variable prim : nat -> list value -> W -> res value.           (* native functions: arbitrary effects *)
  Variable heap_un : un -> value -> W -> res value.              (* operators on non-frozen operands *)
  Variable heap_bin : bop -> value -> value -> W -> res value.
  Variable heap_slice : value -> value -> value -> value -> W -> res value.
  Variable dict_check : list value -> option string.             (* unhashable / repeated key *)
  Variable ref_truth : W -> nat -> bool.
  Variable ref_iter : W -> nat -> option (list value).
  Variable set_index : value -> value -> value -> W -> res unit.
  Variable defs : nat -> option (nat * expr).                    (* frozen defs `def f(p0..pn-1): return e` *)

  Definition lift (c : cres) : W -> res value :=
    fun w => match c with CV v => Ok v w | CErr m => Err m w end.

  Definition truth (w : W) (v : value) : bool :=
    match v with VRef r => ref_truth w r | _ => truth0 v end.

  (* Builtin2::eval wraps the Rust bool of equals / compare / is_in by Value::new_bool *)
  Definition boolify (o : bop) (r : res value) : res value :=
    if is_bool_op o then match r with Ok v w => Ok (VBool (truth w v)) w | r => r end else r.

  Definition bin_eval (o : bop) (a b : value) : W -> res value :=
    if frozenb a && frozenb b then lift (pure_bin OP o a b) else fun w => boolify o (heap_bin o a b w).

  Definition un_eval (o : un) (v : value) : W -> res value :=
    match o with
    | Not => fun w => Ok (VBool (negb (truth w v))) w
    | TypeIs t => fun w => Ok (VBool (String.eqb (type_of v) t)) w
    | PercentSOne fmt => bin_eval Percent (VStr fmt) v            (* by definition of the specialised instruction *)
    | _ => if frozenb v then lift (pure_un OP o v) else heap_un o v
    end.

  Definition slice_eval (a lo hi st : value) : W -> res value :=
    if frozenb a && frozenb lo && frozenb hi && frozenb st then lift (pure_slice OP a lo hi st) else heap_slice a lo hi st.

  (* native functions; len and type have their fixed meaning, functions marked speculative_exec_safe are pure
     on frozen arguments (that is what the marking asserts) *)
  Definition prim_sem (p : nat) (vs : list value) : W -> res value :=
    if Nat.eqb p fn_len then
      match vs with
      | [v] => match (if frozenb v then len_of v else None) with
               | Some n => fun w => Ok (VInt n) w
               | None => prim p vs
               end
      | _ => prim p vs
      end
    else if Nat.eqb p fn_type then
      match vs with
      | [v] => fun w => Ok (VStr (type_of v)) w
      | _ => prim p vs
      end
    else match o_spec OP p with
         | Some g => if forallb frozenb vs then lift (g vs) else prim p vs
         | None => prim p vs
         end.

  Definition frame := list (option value).

  Definition read_slot (what : string) (fr : frame) (i : nat) : W -> res value :=
    fun w => match nth_error fr i with
             | Some (Some v) => Ok v w
             | _ => Err (what ++ " referenced before assignment") w
             end.

  Definition mk_dict (vs : list value) : W -> res value :=
    fun w => match vs with
             | [] => Ok (VDict []) w
             | _ => match dict_check vs with None => Ok (VDict vs) w | Some m => Err m w end
             end.

  Section Eval.
    Variable mods : frame.

    Fixpoint eval (fuel : nat) : frame -> expr -> W -> res value :=
      fun fr =>
      fix ev (e : expr) : W -> res value :=
        match e with
        | Value v => fun w => Ok v w
        | Local i => read_slot "Local variable" fr i
        | Module i => read_slot "Module variable" mods i
        | Tuple xs => bind (mapM ev xs) (fun vs w => Ok (VTuple vs) w)
        | List xs => bind (mapM ev xs) (fun vs w => Ok (VList vs) w)
        | Dict xs => bind (mapM ev xs) mk_dict
        | If c t f => bind (ev c) (fun cv w => if truth w cv then ev t w else ev f w)
        | Slice a lo hi st =>
            bind (ev a) (fun av => bind (ev lo) (fun lv => bind (ev hi) (fun hv => bind (ev st) (fun sv =>
              slice_eval av lv hv sv))))
        | Builtin1 o x => bind (ev x) (un_eval o)
        | LogicalBinOp o l r =>
            bind (ev l) (fun lv w =>
              match o with
              | And => if truth w lv then ev r w else Ok lv w
              | Or => if truth w lv then Ok lv w else ev r w
              end)
        | Seq l r => bind (ev l) (fun _ => ev r)
        | Builtin2 o l r => bind (ev l) (fun lv => bind (ev r) (fun rv => bin_eval o lv rv))
        | Call f args =>
            bind (ev f) (fun fv => bind (mapM ev args) (fun vs =>
              match fv with
              | VPrim p => prim_sem p vs
              | VDef d =>
                  match defs d with
                  | Some (np, body) =>
                      if Nat.eqb np (List.length vs)
                      then match fuel with
                           | O => fun _ => OutOfFuel
                           | S k => eval k (map Some vs) body
                           end
                      else fun w => Err "Wrong number of arguments" w
                  | None => fun w => Err "Unknown def" w
                  end
              | _ => fun w => Err "Not callable" w
              end))
        | Inlined x => match fuel with O => fun _ => OutOfFuel | S k => eval k fr x end
        end.
  End Eval.

  (* ---- statements -------------------------------------------------------------------------------------- *)
  Record state := { locals : frame; modules : frame; world : W }.

  Inductive sres :=
  | SNormal (s : state) | SBreak (s : state) | SContinue (s : state) | SReturn (v : value) (s : state)
  | SErr (m : string) (s : state) | SOutOfFuel.

  Fixpoint upd {A} (l : list A) (i : nat) (x : A) : list A :=
    match l, i with
    | [], _ => []
    | _ :: t, O => x :: t
    | h :: t, S i => h :: upd t i x
    end.

  Definition with_world (s : state) (w : W) : state := {| locals := locals s; modules := modules s; world := w |}.

  Definition eval_in (fuel : nat) (s : state) (e : expr) : res value := eval (modules s) fuel (locals s) e (world s).

  Definition assign (fuel : nat) (t : target) (v : value) (s : state) : sres :=
    match t with
    | TLocal i => SNormal {| locals := upd (locals s) i (Some v); modules := modules s; world := world s |}
    | TModule i => SNormal {| locals := locals s; modules := upd (modules s) i (Some v); world := world s |}
    | TIndex a i =>
        match eval_in fuel s a with
        | Ok av w1 =>
            match eval_in fuel (with_world s w1) i with
            | Ok iv w2 => match set_index av iv v w2 with
                          | Ok _ w3 => SNormal (with_world s w3)
                          | Err m w3 => SErr m (with_world s w3)
                          | OutOfFuel => SOutOfFuel
                          end
            | Err m w2 => SErr m (with_world s w2)
            | OutOfFuel => SOutOfFuel
            end
        | Err m w1 => SErr m (with_world s w1)
        | OutOfFuel => SOutOfFuel
        end
    end.

  (* the elements a `for` visits; None = not iterable (strings are NOT iterable in Starlark) *)
  Definition iter_elems (w : W) (v : value) : option (list value) :=
    match v with
    | VTuple l | VList l | VFList l => Some l
    | VDict l => Some ((fix keys (l : list value) : list value :=
                          match l with k :: _ :: r => k :: keys r | _ => [] end) l)
    | VRef r => ref_iter w r
    | _ => None
    end.

  Section Block.
    Variable ex : stmt -> state -> sres.
    Fixpoint run_block (ss : list stmt) (s : state) : sres :=
      match ss with
      | [] => SNormal s
      | st :: r => match ex st s with SNormal s' => run_block r s' | o => o end
      end.
  End Block.

  Fixpoint exec (fuel : nat) (st : stmt) (s : state) {struct st} : sres :=
    let block := fix blk (ss : list stmt) (s : state) : sres :=
      match ss with
      | [] => SNormal s
      | x :: r => match exec fuel x s with SNormal s' => blk r s' | o => o end
      end in
    match st with
    | Return e => match eval_in fuel s e with
                  | Ok v w => SReturn v (with_world s w) | Err m w => SErr m (with_world s w) | OutOfFuel => SOutOfFuel end
    | Expr e => match eval_in fuel s e with
                | Ok _ w => SNormal (with_world s w) | Err m w => SErr m (with_world s w) | OutOfFuel => SOutOfFuel end
    | Assign t e => match eval_in fuel s e with
                    | Ok v w => assign fuel t v (with_world s w)
                    | Err m w => SErr m (with_world s w) | OutOfFuel => SOutOfFuel end
    | IfS c t f => match eval_in fuel s c with
                   | Ok v w => if truth w v then block t (with_world s w) else block f (with_world s w)
                   | Err m w => SErr m (with_world s w) | OutOfFuel => SOutOfFuel end
    | For t over body =>
        match eval_in fuel s over with
        | Ok v w =>
            match iter_elems w v with
            | None => SErr "Operation `(iter)` not supported" (with_world s w)
            | Some vs =>
                (fix loop (vs : list value) (s : state) : sres :=
                   match vs with
                   | [] => SNormal s
                   | x :: r =>
                       match assign fuel t x s with
                       | SNormal s1 =>
                           match block body s1 with
                           | SNormal s2 | SContinue s2 => loop r s2
                           | SBreak s2 => SNormal s2
                           | o => o
                           end
                       | o => o
                       end
                   end) vs (with_world s w)
            end
        | Err m w => SErr m (with_world s w) | OutOfFuel => SOutOfFuel
        end
    | Break => SBreak s
    | Continue => SContinue s
    end.

  Definition exec_block (fuel : nat) : list stmt -> state -> sres := run_block (exec fuel).
End Sem.

Arguments Ok {W A}. Arguments Err {W A}. Arguments OutOfFuel {W A}.
Arguments SNormal {W}. Arguments SBreak {W}. Arguments SContinue {W}. Arguments SReturn {W}.
Arguments SErr {W}. Arguments SOutOfFuel {W}.
