(* C07: proofs about the evaluator-state model (EvalState/Model.v) and about MiniStar (Core/Sem.v). *)
From Coq Require Import ZArith List Bool Lia Arith.
From SV Require Import EvalState.Model.
Import ListNotations.

(* ====================================================================================================== *)
(* Part A: the bracket discipline                                                                         *)
(* ====================================================================================================== *)

Lemma set_nth_length {A} (l : list A) i x : length (set_nth l i x) = length l.
Proof. revert i; induction l as [|h t IH]; intros [|i]; cbn; auto. Qed.

Lemma firstn_set_nth {A} (l : list A) i x : firstn i (set_nth l i x) = firstn i l.
Proof. revert i; induction l as [|h t IH]; intros [|i]; cbn; auto. f_equal. apply IH. Qed.

Lemma firstn_S_set_nth {A} (l : list A) i x :
  (i < length l)%nat -> firstn (S i) (set_nth l i x) = firstn i l ++ [x].
Proof.
  revert i; induction l as [|h t IH]; intros [|i] H; cbn in *; try lia; auto.
  f_equal. apply IH. lia.
Qed.

Lemma firstn_le_eq {A} (l1 l2 : list A) i j :
  (i <= j)%nat -> firstn j l1 = firstn j l2 -> firstn i l1 = firstn i l2.
Proof.
  intros H E. rewrite <- (Nat.min_l i j H). rewrite <- !firstn_firstn. rewrite E. reflexivity.
Qed.

Ltac proj := cbn [count slots frames current_frame alloca_top def_info guards depth repr_set json_set fst snd
                  with_count with_frames with_guards with_def_info pop].
Ltac proj_in H := cbn [count slots frames current_frame alloca_top def_info guards depth repr_set json_set fst snd
                       with_count with_frames with_guards with_def_info pop] in H.

Ltac proj_all := cbn [count slots frames current_frame alloca_top def_info guards depth repr_set json_set fst snd
                      with_count with_frames with_guards with_def_info pop] in *.

(* everything a later evaluation can observe is as before: only slots at index >= count may differ *)
Definition restores (s s' : st) : Prop :=
  count s' = count s /\ frames s' = frames s /\ current_frame s' = current_frame s /\
  alloca_top s' = alloca_top s /\ def_info s' = def_info s /\ guards s' = guards s /\
  length (slots s') = length (slots s) /\ firstn (count s) (slots s') = firstn (count s) (slots s).

Lemma restores_refl s : restores s s.
Proof. repeat split. Qed.

Lemma restores_trans s1 s2 s3 : restores s1 s2 -> restores s2 s3 -> restores s1 s3.
Proof.
  intros (A1 & A2 & A3 & A4 & A5 & A6 & A7 & A8) (B1 & B2 & B3 & B4 & B5 & B6 & B7 & B8).
  unfold restores. rewrite B1, B2, B3, B4, B5, B6, B7. repeat split; try assumption.
  rewrite A1 in B8. rewrite B8. exact A8.
Qed.

Lemma put_depth_back g d : put_depth (put_depth g d) (depth g) = g.
Proof. destruct g; reflexivity. Qed.

Lemma put_guard_set_back w g p :
  put_guard_set w (put_guard_set w g (guard_set w g ++ [p]))
                (removelast (guard_set w (put_guard_set w g (guard_set w g ++ [p])))) = g.
Proof. destruct w, g; cbn; rewrite removelast_last; reflexivity. Qed.

Theorem run_restores mx t : forall s, restores s (snd (run mx t s)).
Proof.
  induction t as [ok tag | a IHa b IHb | a IHa | sp a IHa | f sp a IHa | fp w a IHa | a IHa | w p a IHa cyc IHc]; intros s; cbn [run].
  - destruct ok; apply restores_refl.
  - specialize (IHa s). destruct (run mx a s) as [r s1]. cbn [snd] in IHa. destruct r.
    + eapply restores_trans; [exact IHa | apply IHb].
    + exact IHa.
  - specialize (IHa s). destruct (run mx a s) as [r s1]. exact IHa.
  - specialize (IHa s). destruct (run mx a s) as [r s1]. exact IHa.
  - unfold with_call_stack, push. destruct (Nat.leb (length (slots s)) (count s)) eqn:L; [apply restores_refl|].
    match goal with |- context [run mx a ?s1] => specialize (IHa s1); destruct (run mx a s1) as [r s2] end.
    cbn [snd] in *. destruct IHa as (A1 & A2 & A3 & A4 & A5 & A6 & A7 & A8). proj_in A1; proj_in A2; proj_in A3; proj_in A4; proj_in A5; proj_in A6; proj_in A7; proj_in A8.
    unfold restores, pop, with_count; proj. rewrite A1. repeat split; try assumption.
    + rewrite A7. apply set_nth_length.
    + rewrite <- (firstn_set_nth (slots s) (count s) {| fn_id := f; call_span := sp |}).
      apply (firstn_le_eq _ _ (count s) (S (count s))); [lia | exact A8].
  - unfold alloca_frame.
    match goal with |- context [run mx a ?s1] => specialize (IHa s1); destruct (run mx a s1) as [r s2] end.
    cbn [snd] in *. destruct IHa as (A1 & A2 & A3 & A4 & A5 & A6 & A7 & A8). proj_in A1; proj_in A2; proj_in A3; proj_in A4; proj_in A5; proj_in A6; proj_in A7; proj_in A8.
    unfold restores, with_frames; proj. rewrite A2. cbn. repeat split; assumption.
  - unfold stack_guard. destruct (Nat.leb mx (depth (guards s))); [apply restores_refl|].
    match goal with |- context [run mx a ?s1] => specialize (IHa s1); destruct (run mx a s1) as [r s2] end.
    cbn [snd] in *. destruct IHa as (A1 & A2 & A3 & A4 & A5 & A6 & A7 & A8). proj_in A1; proj_in A2; proj_in A3; proj_in A4; proj_in A5; proj_in A6; proj_in A7; proj_in A8.
    unfold restores, with_guards; proj. repeat split; try assumption.
    rewrite A6. apply put_depth_back.
  - unfold ptr_guard. destruct (memZ p (guard_set w (guards s))); [apply IHc|].
    match goal with |- context [run mx a ?s1] => specialize (IHa s1); destruct (run mx a s1) as [r s2] end.
    cbn [snd] in *. destruct IHa as (A1 & A2 & A3 & A4 & A5 & A6 & A7 & A8). proj_in A1; proj_in A2; proj_in A3; proj_in A4; proj_in A5; proj_in A6; proj_in A7; proj_in A8.
    unfold restores, with_guards; proj. repeat split; try assumption.
    rewrite A6. apply put_guard_set_back.
Qed.

(* C07_bracket_restores *)
Theorem bracket_restores : forall mx tree st,
  let (r, st') := run mx tree st in
  count st' = count st /\ frames st' = frames st /\ current_frame st' = current_frame st /\ guards st' = guards st.
Proof.
  intros mx t s. pose proof (run_restores mx t s) as H. destruct (run mx t s) as [r s']. cbn [snd] in H.
  destruct H as (A1 & A2 & A3 & A4 & A5 & A6 & A7 & A8). repeat split; assumption.
Qed.

(* ---- outcomes do not depend on stale slots ---------------------------------------------------------- *)
Definition equiv (s1 s2 : st) : Prop :=
  count s1 = count s2 /\ live s1 = live s2 /\ length (slots s1) = length (slots s2) /\
  frames s1 = frames s2 /\ current_frame s1 = current_frame s2 /\ alloca_top s1 = alloca_top s2 /\
  def_info s1 = def_info s2 /\ guards s1 = guards s2.

Lemma equiv_refl s : equiv s s.
Proof. repeat split. Qed.

Lemma restores_equiv s s' : restores s s' -> equiv s' s.
Proof.
  intros (A1 & A2 & A3 & A4 & A5 & A6 & A7 & A8). unfold equiv, live. rewrite A1. repeat split; assumption.
Qed.

Lemma equiv_trans a b c : equiv a b -> equiv b c -> equiv a c.
Proof.
  intros (A1 & A2 & A3 & A4 & A5 & A6 & A7 & A8) (B1 & B2 & B3 & B4 & B5 & B6 & B7 & B8).
  unfold equiv. repeat split; etransitivity; eassumption.
Qed.

Lemma equiv_sym a b : equiv a b -> equiv b a.
Proof. intros (A1 & A2 & A3 & A4 & A5 & A6 & A7 & A8). unfold equiv. repeat split; symmetry; assumption. Qed.

Lemma equiv_push f sp s1 s2 : equiv s1 s2 ->
  match push f sp s1, push f sp s2 with
  | None, None => True
  | Some a, Some b => equiv a b
  | _, _ => False
  end.
Proof.
  intros (A1 & A2 & A3 & A4 & A5 & A6 & A7 & A8). unfold push. rewrite <- A1, <- A3.
  destruct (Nat.leb (length (slots s1)) (count s1)) eqn:L; [exact I|].
  apply Nat.leb_gt in L.
  unfold equiv, live, with_count; proj. repeat split; try assumption.
  - rewrite !firstn_S_set_nth by lia. unfold live in A2. rewrite <- A1 in A2. rewrite A2. reflexivity.
  - rewrite !set_nth_length. exact A3.
Qed.

Lemma equiv_pop s1 s2 : equiv s1 s2 -> equiv (pop s1) (pop s2).
Proof.
  intros (A1 & A2 & A3 & A4 & A5 & A6 & A7 & A8). unfold equiv, live, pop, with_count in *; proj. rewrite <- A1.
  repeat split; try assumption.
  apply (firstn_le_eq _ _ (pred (count s1)) (count s1)); [lia|]. rewrite A1 at 2. exact A2.
Qed.

Lemma equiv_diag s1 s2 : equiv s1 s2 -> diagnostic_frames s1 = diagnostic_frames s2.
Proof. intros (A1 & A2 & _). unfold diagnostic_frames. unfold live in A2. rewrite A2. reflexivity. Qed.

Theorem run_equiv mx t : forall s1 s2, equiv s1 s2 ->
  fst (run mx t s1) = fst (run mx t s2) /\ equiv (snd (run mx t s1)) (snd (run mx t s2)).
Proof.
  induction t as [ok tag | a IHa b IHb | a IHa | sp a IHa | f sp a IHa | fp w a IHa | a IHa | w p a IHa cyc IHc];
    intros s1 s2 E; cbn [run].
  - destruct ok; cbn; auto.
  - destruct (IHa s1 s2 E) as [R Q]. destruct (run mx a s1) as [r1 t1], (run mx a s2) as [r2 t2]. proj_in R; proj_in Q. subst r2.
    destruct r1; [apply IHb; exact Q | cbn; auto].
  - destruct (IHa s1 s2 E) as [R Q]. destruct (run mx a s1) as [r1 t1], (run mx a s2) as [r2 t2]. proj_all. auto.
  - destruct (IHa s1 s2 E) as [R Q]. destruct (run mx a s1) as [r1 t1], (run mx a s2) as [r2 t2]. proj_all. subst r2.
    rewrite (equiv_diag _ _ Q). auto.
  - unfold with_call_stack. pose proof (equiv_push f sp s1 s2 E) as P.
    destruct (push f sp s1) as [p1|], (push f sp s2) as [p2|]; try contradiction; [|cbn; auto].
    destruct (IHa p1 p2 P) as [R Q]. destruct (run mx a p1) as [r1 t1], (run mx a p2) as [r2 t2]. proj_all. subst r2.
    rewrite (equiv_diag _ _ Q). split; [reflexivity | apply equiv_pop; exact Q].
  - unfold alloca_frame.
    destruct E as (A1 & A2 & A3 & A4 & A5 & A6 & A7 & A8).
    match goal with |- context [run mx a ?x] => match goal with |- context [snd (let (_, _) := run mx a ?y in _)] =>
      idtac end end.
    assert (P : equiv (with_frames s1 (current_frame s1 :: frames s1) fp (alloca_top s1 + w))
                      (with_frames s2 (current_frame s2 :: frames s2) fp (alloca_top s2 + w))).
    { unfold equiv, live, with_frames; proj. rewrite A4, A5, A6. repeat split; assumption. }
    destruct (IHa _ _ P) as [R Q].
    destruct (run mx a (with_frames s1 (current_frame s1 :: frames s1) fp (alloca_top s1 + w))) as [r1 t1],
             (run mx a (with_frames s2 (current_frame s2 :: frames s2) fp (alloca_top s2 + w))) as [r2 t2].
    proj_all. split; [exact R|].
    destruct Q as (B1 & B2 & B3 & B4 & B5 & B6 & B7 & B8).
    unfold equiv, live, with_frames in * ; proj_all. rewrite B4, A5, A6. repeat split; assumption.
  - unfold stack_guard. destruct E as (A1 & A2 & A3 & A4 & A5 & A6 & A7 & A8). rewrite <- A8.
    destruct (Nat.leb mx (depth (guards s1))).
    { cbn. split; [reflexivity|]. unfold equiv. repeat split; assumption. }
    assert (P : equiv (with_guards s1 (put_depth (guards s1) (S (depth (guards s1)))))
                      (with_guards s2 (put_depth (guards s1) (S (depth (guards s1)))))).
    { unfold equiv, live, with_guards; proj. repeat split; assumption. }
    destruct (IHa _ _ P) as [R Q].
    destruct (run mx a (with_guards s1 (put_depth (guards s1) (S (depth (guards s1)))))) as [r1 t1],
             (run mx a (with_guards s2 (put_depth (guards s1) (S (depth (guards s1)))))) as [r2 t2].
    proj_all. split; [exact R|].
    destruct Q as (B1 & B2 & B3 & B4 & B5 & B6 & B7 & B8).
    unfold equiv, live, with_guards in * ; proj_all. rewrite B8. repeat split; assumption.
  - unfold ptr_guard. pose proof E as E'. destruct E as (A1 & A2 & A3 & A4 & A5 & A6 & A7 & A8). rewrite <- A8.
    destruct (memZ p (guard_set w (guards s1))); [apply IHc; exact E'|].
    assert (P : equiv (with_guards s1 (put_guard_set w (guards s1) (guard_set w (guards s1) ++ [p])))
                      (with_guards s2 (put_guard_set w (guards s1) (guard_set w (guards s1) ++ [p])))).
    { unfold equiv, live, with_guards; proj. repeat split; assumption. }
    destruct (IHa _ _ P) as [R Q].
    destruct (run mx a (with_guards s1 (put_guard_set w (guards s1) (guard_set w (guards s1) ++ [p])))) as [r1 t1],
             (run mx a (with_guards s2 (put_guard_set w (guards s1) (guard_set w (guards s1) ++ [p])))) as [r2 t2].
    proj_all. split; [exact R|].
    destruct Q as (B1 & B2 & B3 & B4 & B5 & B6 & B7 & B8).
    unfold equiv, live, with_guards in * ; proj_all. rewrite B8. repeat split; assumption.
Qed.

(* C07_probe_independent: whatever ran before (any tree, any failing leaves), an unrelated computation gives the
   same outcome from the state left behind as from the state before *)
Theorem probe_independent : forall mx failing probe st,
  let st' := snd (run mx failing st) in
  fst (run mx probe st') = fst (run mx probe st) /\ equiv (snd (run mx probe st')) (snd (run mx probe st)).
Proof.
  intros mx failing probe s. cbn zeta. apply run_equiv. apply restores_equiv. apply run_restores.
Qed.

(* ---- whole evaluations on one evaluator -------------------------------------------------------------- *)
Lemma enter_module_some mx info t s : (count s < length (slots s))%nat ->
  exists r s', enter_module mx info t s = Some (r, s') /\ restores s s'.
Proof.
  intros H. unfold enter_module, eval_module, push. cbn [with_def_info count slots].
  destruct (Nat.leb (length (slots s)) (count s)) eqn:L; [apply Nat.leb_le in L; lia|].
  match goal with |- context [run mx t ?s1] => pose proof (run_restores mx t s1) as R; destruct (run mx t s1) as [r s2] end.
  exists r. eexists. split; [reflexivity|].
  cbn [snd] in R. destruct R as (A1 & A2 & A3 & A4 & A5 & A6 & A7 & A8). proj_in A1; proj_in A2; proj_in A3; proj_in A4; proj_in A5; proj_in A6; proj_in A7; proj_in A8.
  unfold restores, with_def_info, pop, with_count; proj. rewrite A1. repeat split; try assumption.
  - rewrite A7. apply set_nth_length.
  - rewrite <- (firstn_set_nth (slots s) (count s) {| fn_id := 0; call_span := None |}).
    apply (firstn_le_eq _ _ (count s) (S (count s))); [lia | exact A8].
Qed.

Lemma enter_module_equiv mx info t s1 s2 : equiv s1 s2 ->
  match enter_module mx info t s1, enter_module mx info t s2 with
  | Some (r1, t1), Some (r2, t2) => r1 = r2 /\ equiv t1 t2
  | None, None => True
  | _, _ => False
  end.
Proof.
  intros E. unfold enter_module, eval_module.
  assert (E' : equiv (with_def_info s1 info) (with_def_info s2 info)).
  { destruct E as (A1 & A2 & A3 & A4 & A5 & A6 & A7 & A8). unfold equiv, live, with_def_info in *; proj. repeat split; assumption. }
  pose proof (equiv_push 0%Z None _ _ E') as P.
  destruct (push 0%Z None (with_def_info s1 info)) as [p1|], (push 0%Z None (with_def_info s2 info)) as [p2|]; try contradiction; [|exact I].
  destruct (run_equiv mx t p1 p2 P) as [R Q]. destruct (run mx t p1) as [r1 t1], (run mx t p2) as [r2 t2]. proj_in R; proj_in Q.
  split; [exact R|]. apply equiv_pop in Q.
  destruct E as (A1 & A2 & A3 & A4 & A5 & A6 & A7 & A8). destruct Q as (B1 & B2 & B3 & B4 & B5 & B6 & B7 & B8).
  unfold equiv, live, with_def_info in * ; proj_all. repeat split; assumption.
Qed.

Section History.
  Variable mx : nat.
  Fixpoint run_history (hist : list (Z * tree)) (s : st) : option st :=
    match hist with
    | [] => Some s
    | (i, t) :: r => match enter_module mx i t s with Some (_, s') => run_history r s' | None => None end
    end.
End History.

(* after ANY sequence of evaluations (each an arbitrary tree in which any subset of leaves fails) on one idle
   evaluator: the call stack is empty again and a probe evaluation has the same outcome as on a fresh evaluator *)
Theorem history_recovers : forall mx cap hist info probe, (0 < cap)%nat ->
  exists s', run_history mx hist (idle cap) = Some s' /\ count s' = 0%nat /\ frames s' = [] /\
             guards s' = guards (idle cap) /\
             option_map fst (enter_module mx info probe s') = option_map fst (enter_module mx info probe (idle cap)).
Proof.
  intros mx cap hist info probe Hc.
  assert (G : forall hist s, restores (idle cap) s -> exists s', run_history mx hist s = Some s' /\ restores (idle cap) s').
  { induction hist0 as [|[i t] r IH]; intros s R; cbn [run_history]; [eauto|].
    assert (L : (count s < length (slots s))%nat).
    { destruct R as (A1 & _ & _ & _ & _ & _ & A7 & _). rewrite A1, A7. cbn. rewrite repeat_length. exact Hc. }
    destruct (enter_module_some mx i t s L) as (r0 & s1 & E1 & R1). rewrite E1. apply IH.
    eapply restores_trans; eassumption. }
  destruct (G hist (idle cap) (restores_refl _)) as (s' & E & R). exists s'. split; [exact E|].
  pose proof R as (A1 & A2 & A3 & A4 & A5 & A6 & A7 & A8). repeat split; try assumption.
  pose proof (enter_module_equiv mx info probe s' (idle cap) (restores_equiv _ _ R)) as Q.
  destruct (enter_module mx info probe s') as [[r1 t1]|], (enter_module mx info probe (idle cap)) as [[r2 t2]|]; cbn; try contradiction; auto.
  destruct Q as [-> _]. reflexivity.
Qed.

(* ---- located errors ------------------------------------------------------------------------------------ *)
(* `covered t`: every error that can leave t was produced below some instruction wrapper *)
Fixpoint covered (t : tree) : bool :=
  match t with
  | Leaf ok _ => ok
  | Seq a b => covered a && covered b
  | Catch _ => true
  | Instr _ _ => true
  | Call _ _ _ => false              (* the overflow error of push is created outside any instruction of the callee *)
  | Frame _ _ a => covered a
  | StackGuard _ => false            (* TooManyRecursionLevel is created by the guard itself *)
  | PtrGuard _ _ a c => covered a && covered c
  end.

Definition has_span (r : res) : Prop := match r with ROk => True | RErr e => espan e <> None end.

Lemma set_span_has sp e : espan (set_span sp e) <> None.
Proof. unfold set_span; cbn. destruct (espan e); discriminate. Qed.

Theorem covered_has_span mx t : covered t = true -> forall s, has_span (fst (run mx t s)).
Proof.
  induction t as [ok tag | a IHa b IHb | a IHa | sp a IHa | f sp a IHa | fp w a IHa | a IHa | w p a IHa cyc IHc];
    cbn [covered]; intros C s; cbn [run]; try discriminate.
  - subst ok. exact I.
  - apply andb_true_iff in C. destruct C as [Ca Cb]. specialize (IHa Ca s). destruct (run mx a s) as [r s1]. cbn in IHa.
    destruct r; [apply IHb; exact Cb | exact IHa].
  - destruct (run mx a s). exact I.
  - destruct (run mx a s) as [r s1]. destruct r; cbn; [exact I|]. apply set_span_has.
  - unfold alloca_frame. match goal with |- context [run mx a ?x] => specialize (IHa C x); destruct (run mx a x) as [r s1] end. exact IHa.
  - apply andb_true_iff in C. destruct C as [Ca Cc]. unfold ptr_guard. destruct (memZ p (guard_set w (guards s))); [apply IHc; exact Cc|].
    match goal with |- context [run mx a ?x] => specialize (IHa Ca x); destruct (run mx a x) as [r s1] end. exact IHa.
Qed.

(* the error of a failing instruction carries its span and the chain of active calls at that point *)
Theorem instr_error_located mx sp tag s :
  run mx (Instr sp (Leaf false tag)) s = (RErr {| kind := EUser tag; espan := Some sp; estack := skipn 1 (live s) |}, s)
  \/ (skipn 1 (live s) = [] /\ run mx (Instr sp (Leaf false tag)) s = (RErr {| kind := EUser tag; espan := Some sp; estack := [] |}, s)).
Proof. left. reflexivity. Qed.

(* a call instruction whose callee body fails at an instruction: span of the inner instruction, stack = outer chain + callee *)
Theorem call_error_stack mx f sp isp tag fp w s : (count s < length (slots s))%nat ->
  fst (run mx (Instr sp (Call f (Some sp) (Frame fp w (Instr isp (Leaf false tag))))) s) =
  RErr {| kind := EUser tag; espan := Some isp;
          estack := skipn 1 (live s ++ [{| fn_id := f; call_span := Some sp |}]) |}.
Proof.
  intros H. cbn [run]. unfold with_call_stack, push. destruct (Nat.leb (length (slots s)) (count s)) eqn:L; [apply Nat.leb_le in L; lia|].
  unfold alloca_frame. cbn [run fst snd map_err]. proj. unfold diagnostic_frames. proj.
  rewrite firstn_S_set_nth by exact H. cbn [Init.Nat.pred]. rewrite firstn_set_nth. fold (live s).
  unfold set_call_stack, set_span; cbn [espan estack kind].
  destruct (live s) as [|x [|y l]]; reflexivity.
Qed.

(* ====================================================================================================== *)
(* Part B: MiniStar (Core/Sem.v) - builtin totality and located failures                                  *)
(* ====================================================================================================== *)
From Coq Require Import String.
From SV Require Import Core.Syntax Core.Values Core.Slice Core.Sem.
Open Scope string_scope.

(* a computation that never runs out of fuel (it does not consume any) *)
Definition total {A} (m : M A) : Prop := forall s, m s <> OutOfFuel.

Lemma total_ret {A} (a : A) : total (ret a).
Proof. intros s; discriminate. Qed.
Lemma total_fail {A} e : total (@fail A e).
Proof. intros s; discriminate. Qed.
Lemma total_bind {A B} (m : M A) (f : A -> M B) : total m -> (forall a, total (f a)) -> total (bind m f).
Proof.
  intros Hm Hf s. unfold bind. specialize (Hm s). destruct (m s) as [a s'|e l s'|]; [apply Hf | discriminate | contradiction].
Qed.
Lemma total_get_state : total get_state.
Proof. intros s; discriminate. Qed.
Lemma total_get_list a : total (get_list a).
Proof. intros s; unfold get_list. destruct (nth_error (lists s) a) as [[? ?]|]; discriminate. Qed.
Lemma total_get_dict a : total (get_dict a).
Proof. intros s; unfold get_dict. destruct (nth_error (dicts s) a) as [[? ?]|]; discriminate. Qed.
Lemma total_set_list a l : total (set_list a l).
Proof. intros s; unfold set_list. destruct (nth_error (lists s) a) as [[? [|?]]|]; discriminate. Qed.
Lemma total_set_dict a l : total (set_dict a l).
Proof. intros s; unfold set_dict. destruct (nth_error (dicts s) a) as [[? [|?]]|]; discriminate. Qed.
Lemma total_alloc_list l : total (alloc_list l).
Proof. intros s; discriminate. Qed.
Lemma total_alloc_dict l : total (alloc_dict l).
Proof. intros s; discriminate. Qed.
Lemma total_emit_obs o : total (emit_obs o).
Proof. intros s; discriminate. Qed.
Lemma total_check_hashable k : total (check_hashable k).
Proof. unfold check_hashable. destruct (hashable depth k); [apply total_ret | apply total_fail]. Qed.
Lemma total_iter_elems v : total (iter_elems v).
Proof.
  destruct v; cbn [iter_elems]; try apply total_ret; try apply total_fail; try apply total_get_list.
  apply total_bind; [apply total_get_dict | intros; apply total_ret].
Qed.
Lemma total_mapM {A B} (f : A -> M B) l : (forall x, total (f x)) -> total (mapM f l).
Proof.
  intros H. induction l as [|x xs IH]; cbn [mapM]; [apply total_ret|].
  apply total_bind; [apply H|]. intros y. apply total_bind; [apply IH|]. intros ys. apply total_ret.
Qed.
Lemma total_obs_list vs : total (obs_list vs).
Proof. intros s; discriminate. Qed.
Lemma total_lift_sres r : total (lift_sres r).
Proof. destruct r as [e|[x|z|b| |l|l]]; cbn [lift_sres]; try apply total_ret; try apply total_fail; apply total_alloc_list. Qed.
Lemma total_str_of v : total (str_of v).
Proof.
  unfold str_of. apply total_bind; [apply total_obs_list|]. intros os.
  destruct (str_obs (hd ONone os)); [apply total_ret | apply total_fail].
Qed.

Ltac total_step :=
  match goal with
  | |- total (bind _ _) => apply total_bind; [|intro]
  | |- total (ret _) => apply total_ret
  | |- total (fail _) => apply total_fail
  | |- total get_state => apply total_get_state
  | |- total (get_list _) => apply total_get_list
  | |- total (get_dict _) => apply total_get_dict
  | |- total (set_list _ _) => apply total_set_list
  | |- total (set_dict _ _) => apply total_set_dict
  | |- total (alloc_list _) => apply total_alloc_list
  | |- total (alloc_dict _) => apply total_alloc_dict
  | |- total (emit_obs _) => apply total_emit_obs
  | |- total (check_hashable _) => apply total_check_hashable
  | |- total (iter_elems _) => apply total_iter_elems
  | |- total (str_of _) => apply total_str_of
  | |- total (obs_list _) => apply total_obs_list
  | |- total (lift_sres _) => apply total_lift_sres
  | |- total (mapM _ _) => apply total_mapM; intro
  | |- total (let _ := _ in _) => cbv zeta
  | |- total (match ?x with _ => _ end) => destruct x
  | |- total (if ?x then _ else _) => destruct x
  end.

(* C07_builtin_total: EVERY name, EVERY argument list, EVERY keyword list, EVERY store *)
Theorem builtin_total : forall b args kwargs s, call_builtin b args kwargs s <> OutOfFuel.
Proof.
  intros b args kwargs. change (total (call_builtin b args kwargs)). unfold call_builtin.
  destruct kwargs; [|apply total_fail].
  repeat total_step.
Qed.

Theorem method_total : forall recv m args s, call_method recv m args s <> OutOfFuel.
Proof.
  intros recv m args. change (total (call_method recv m args)). unfold call_method.
  repeat total_step.
Qed.

(* so a call of a builtin without keyword arguments needs exactly one unit of fuel, whatever the arguments
   (sorted(xs, key=f) calls f and so needs the fuel of those calls) *)
Corollary call_builtin_value_total : forall n b pos s, call (S n) (VBuiltin b) pos [] s <> OutOfFuel.
Proof. intros. cbn [call]. rewrite andb_false_r. apply builtin_total. Qed.

(* ---- exact rejection conditions ------------------------------------------------------------------------ *)
Definition measurable (s : state) (a : value) : Prop :=
  match a with
  | VStr _ | VTuple _ | VRange _ _ _ => True
  | VList l => (l < List.length (lists s))%nat
  | VDict d => (d < List.length (dicts s))%nat
  | _ => False
  end.

Lemma nth_error_some_lt {A} (l : list A) i : (exists x, nth_error l i = Some x) <-> (i < List.length l)%nat.
Proof.
  split.
  - intros [x H]. apply nth_error_Some. rewrite H. discriminate.
  - intros H. apply nth_error_Some in H. destruct (nth_error l i); [eauto | contradiction].
Qed.

(* len(args) succeeds exactly on one argument that has a length; otherwise Arity (wrong count) or TypeErr *)
Theorem len_accepts_iff : forall args s,
  (exists v s', call_builtin "len" args [] s = Ok v s') <-> exists a, args = [a] /\ measurable s a.
Proof.
  intros args s. cbn [call_builtin]. change (String.eqb "len" "len") with true. cbv iota.
  split.
  - intros (v & s' & H). destruct args as [|a r]; [discriminate|].
    destruct a; destruct r as [|b0 r]; cbn in H; try discriminate; (eexists; split; [reflexivity|]); cbn; auto.
    + unfold bind, get_list in H. apply nth_error_some_lt. destruct (nth_error (lists s) a) as [[xs c]|]; [eauto | discriminate].
    + unfold bind, get_dict in H. apply nth_error_some_lt. destruct (nth_error (dicts s) a) as [[xs c]|]; [eauto | discriminate].
  - intros (a & -> & Hm). destruct a; cbn in Hm |- *; try contradiction; eauto.
    + apply nth_error_some_lt in Hm. destruct Hm as [[xs c] E]. unfold bind, get_list. rewrite E. eauto.
    + apply nth_error_some_lt in Hm. destruct Hm as [[xs c] E]. unfold bind, get_dict. rewrite E. eauto.
Qed.

Theorem len_arity_iff : forall args s,
  (exists s', call_builtin "len" args [] s = Fail Arity None s') <-> List.length args <> 1%nat.
Proof.
  intros args s. cbn [call_builtin]. change (String.eqb "len" "len") with true. cbv iota.
  split.
  - intros (s' & H). destruct args as [|a r]; [cbn; discriminate|]. destruct r as [|b r]; [|cbn; discriminate].
    exfalso. destruct a; cbn in H; try discriminate.
    + unfold bind, get_list in H. destruct (nth_error (lists s) a) as [[xs c]|]; discriminate.
    + unfold bind, get_dict in H. destruct (nth_error (dicts s) a) as [[xs c]|]; discriminate.
  - intros H. destruct args as [|a [|b r]]; cbn in H; try congruence; [eexists; reflexivity|].
    destruct a; eexists; reflexivity.
Qed.

(* range(args) succeeds exactly on 1..3 integers with a non-zero step *)
Theorem range_accepts_iff : forall args s,
  (exists v s', call_builtin "range" args [] s = Ok v s') <->
  (exists n, args = [VInt n]) \/ (exists a n, args = [VInt a; VInt n]) \/
  (exists a n st, args = [VInt a; VInt n; VInt st] /\ st <> 0%Z).
Proof.
  intros args s. cbn [call_builtin]. change (String.eqb "range" "len") with false. change (String.eqb "range" "range") with true. cbv iota.
  split.
  - intros (v & s' & H).
    destruct args as [|[| | z1 | | | | | | | ] [|[| | z2 | | | | | | | ] [|[| | z3 | | | | | | | ] [|? ?]]]]; try discriminate; eauto.
    right; right. exists z1, z2, z3. split; [reflexivity|]. intros ->. cbn in H. discriminate.
  - intros [[n ->] | [(a & n & ->) | (a & n & st & -> & Hst)]]; cbn; eauto.
    destruct (Z.eqb_spec st 0); [contradiction|]. eauto.
Qed.

(* list.pop: rejected arguments (the list itself must not be locked by an iteration) *)
Theorem list_pop_accepts_iff : forall l xs c args s, nth_error (lists s) l = Some (xs, c) ->
  ((exists v s', call_method (VList l) "pop" args s = Ok v s') <->
   c = O /\ ((args = [] /\ xs <> []) \/
             (exists i, args = [VInt i] /\ (- Z.of_nat (List.length xs) <= i < Z.of_nat (List.length xs))%Z))).
Proof.
  intros l xs c args s E. cbn [call_method]. unfold bind at 1. unfold get_list at 1. rewrite E.
  change (String.eqb "pop" "append") with false. change (String.eqb "pop" "extend") with false.
  change (String.eqb "pop" "insert") with false. change (String.eqb "pop" "pop") with true. cbv iota.
  assert (SL : forall ys, (exists s', set_list l ys s = Ok tt s') <-> c = O).
  { intros ys. unfold set_list. rewrite E. destruct c; split; intros H; try discriminate; eauto. destruct H; discriminate. }
  assert (SLF : forall ys, c <> O -> exists e ln s', set_list l ys s = Fail e ln s').
  { intros ys H. unfold set_list. rewrite E. destruct c; [contradiction|eauto]. }
  split.
  - intros (v & s' & H). destruct args as [|a r].
    + destruct (rev xs) as [|last r] eqn:R; [discriminate|].
      unfold bind in H. destruct (set_list l (rev r) s) as [u s1|e ln s1|] eqn:S1; try discriminate.
      split; [apply (SL (rev r)); destruct u; eauto|]. left. split; [reflexivity|]. intros ->. discriminate.
    + destruct a; destruct r as [|b0 r]; cbv beta iota in H; try discriminate.
      destruct (convert_index z (Z.of_nat (List.length xs))) as [k|] eqn:C; [|discriminate].
      destruct (nth_error xs (Z.to_nat k)) as [x|] eqn:N; [|discriminate].
      unfold bind in H. destruct (set_list l (remove_at xs (Z.to_nat k)) s) as [u s1|e ln s1|] eqn:S1; try discriminate.
      split; [apply (SL (remove_at xs (Z.to_nat k))); destruct u; eauto|]. right. exists z. split; [reflexivity|].
      unfold convert_index in C. cbv zeta in C.
      destruct (z <? 0)%Z eqn:Z0; destruct ((_ <? 0)%Z || (_ <=? _)%Z)%bool eqn:B; try discriminate;
        apply orb_false_iff in B; destruct B as [B1 B2]; apply Z.ltb_ge in B1; apply Z.leb_gt in B2;
        [apply Z.ltb_lt in Z0 | apply Z.ltb_ge in Z0]; lia.
  - intros [-> [[-> Hx] | (i & -> & Hi)]].
    + destruct (rev xs) as [|last r] eqn:R.
      { exfalso. apply Hx. rewrite <- (rev_involutive xs), R. reflexivity. }
      destruct (proj2 (SL (rev r)) eq_refl) as [s1 S1]. unfold bind. rewrite S1. eauto.
    + assert (C : exists k, convert_index i (Z.of_nat (List.length xs)) = Some k /\ (0 <= k < Z.of_nat (List.length xs))%Z).
      { unfold convert_index. cbv zeta. destruct (i <? 0)%Z eqn:Z0; [apply Z.ltb_lt in Z0 | apply Z.ltb_ge in Z0].
        - exists (Z.of_nat (List.length xs) + i)%Z.
          destruct ((_ <? 0)%Z || (_ <=? _)%Z)%bool eqn:B; [|split; [reflexivity|lia]].
          apply orb_true_iff in B. destruct B as [B|B]; [apply Z.ltb_lt in B | apply Z.leb_le in B]; lia.
        - exists i. destruct ((_ <? 0)%Z || (_ <=? _)%Z)%bool eqn:B; [|split; [reflexivity|lia]].
          apply orb_true_iff in B. destruct B as [B|B]; [apply Z.ltb_lt in B | apply Z.leb_le in B]; lia. }
      destruct C as (k & C & Hk). rewrite C.
      destruct (nth_error xs (Z.to_nat k)) as [x|] eqn:N.
      * destruct (proj2 (SL (remove_at xs (Z.to_nat k))) eq_refl) as [s1 S1]. unfold bind. rewrite S1. eauto.
      * exfalso. apply nth_error_None in N. lia.
Qed.

(* ---- every failure of a statement / program is located ------------------------------------------------- *)
(* FULL statement:
     forall fuel prog tr e l, run_program fuel prog = (tr, Failed e l) ->
       exists ln, l = Some ln /\ In ln (all nested statement lines of prog)
   It is proved in EvalState/Lines.v (`run_program_error_has_line`, `run_program_error_line_in`) with the invariant
   "every closure in the store has a body whose lines are lines of prog" carried through eval/call/exec.
   Kept here: the weaker facts that the failure always carries a line (at_line attaches the line of the innermost
   statement; nothing ever removes it), and that for a failure raised directly by a statement's own expression
   evaluation - with no line attached yet - the line is that statement's. *)
Lemma at_line_some {A} ln (m : M A) s e l s' : at_line ln m s = Fail e l s' -> exists k, l = Some k.
Proof.
  unfold at_line. destruct (m s) as [a s1|e1 [k|] s1|]; intros H; inversion H; subst; eauto.
Qed.

Lemma at_line_own {A} ln (m : M A) s e s1 : m s = Fail e None s1 -> at_line ln m s = Fail e (Some ln) s1.
Proof. intros H. unfold at_line. rewrite H. reflexivity. Qed.

Theorem exec_error_has_line_partial : forall n en st s e l s',
  exec n en st s = Fail e l s' -> exists ln, l = Some ln.
Proof.
  intros n en st s e l s' H. destruct n as [|n]; [discriminate|].
  cbn [exec] in H. eapply at_line_some. exact H.
Qed.

Lemma run_block_error_has_line ex ss : (forall st s e l s', ex st s = Fail e l s' -> exists ln, l = Some ln) ->
  forall s e l s', run_block ex ss s = Fail e l s' -> exists ln, l = Some ln.
Proof.
  intros Hex. induction ss as [|st r IH]; intros s e l s' H; cbn [run_block] in H; [discriminate|].
  unfold bind in H. destruct (ex st s) as [c s1|e1 l1 s1|] eqn:E; try discriminate.
  - destruct c; try discriminate; eauto.
  - inversion H; subst. eapply Hex. exact E.
Qed.

Lemma alloc_cells_ok names : forall s, exists g s', alloc_cells names s = Ok g s'.
Proof.
  induction names as [|x t IH]; intros s; cbn [alloc_cells]; [unfold ret; eauto|].
  unfold bind, alloc_cell.
  match goal with |- context [alloc_cells t ?s1] => destruct (IH s1) as (g & s' & E); rewrite E end.
  unfold ret. eauto.
Qed.

Theorem run_program_error_has_line_partial : forall fuel prog tr e l,
  run_program fuel prog = (tr, Failed e l) -> exists ln, l = Some ln.
Proof.
  intros fuel prog tr e l H. unfold run_program in H.
  destruct (bind (alloc_cells (dedup (body_names prog))) (fun globals => run_block (exec fuel globals) prog) empty_state)
    as [c s1|e1 l1 s1|] eqn:E; inversion H; subst.
  unfold bind in E. destruct (alloc_cells (dedup (body_names prog)) empty_state) as [g s0|e0 l0 s0|] eqn:A.
  - eapply run_block_error_has_line; [|exact E]. intros st s e2 l2 s2. apply exec_error_has_line_partial.
  - exfalso. destruct (alloc_cells_ok (dedup (body_names prog)) empty_state) as (g & s2 & E2). congruence.
  - discriminate.
Qed.

(* the line is the statement's own when the failure comes from the statement itself (e.g. a failing builtin call) *)
Theorem exec_expr_stmt_own_line : forall n en ln ex s e s1,
  eval n en ex s = Fail e None s1 -> exec (S n) en (SExpr ln ex) s = Fail e (Some ln) s1.
Proof.
  intros n en ln ex s e s1 H. cbn [exec stmt_line]. apply at_line_own. unfold bind. rewrite H. reflexivity.
Qed.
