(* C07: executable comparison driver used by the tie. The model is run on the nest of calls of a generated
   failure program; the check compares (is_err, span, function ids of the recorded call stack, count afterwards,
   "bookkeeping restored") with what the implementation reports (error span line, frame names, call_stack_count()). *)
From Coq Require Import ZArith NArith List Bool.
From SV Require Import EvalState.Model.
Import ListNotations.
Open Scope Z_scope.

(* evaluator::DEFAULT_STACK_SIZE *)
Definition cap : nat := 50.

Definition restored_b (s : st) : bool :=
  Nat.eqb (count s) 0 && match frames s with [] => true | _ => false end && Z.eqb (current_frame s) 0 &&
  Nat.eqb (alloca_top s) 0 && Z.eqb (def_info s) 0 && Nat.eqb (depth (guards s)) 0 &&
  match repr_set (guards s), json_set (guards s) with [], [] => true | _, _ => false end.

Definition kind_code (k : ekind) : Z := match k with EUser t => t | EStackOverflow => -1 | ETooManyRecursion => -2 end.

(* (1 = error / 0 = ok / 2 = cannot enter, span or error kind code when no span, fn ids of the recorded stack, count after, restored) *)
Definition case_result (t : tree) : Z * Z * list Z * N * Z :=
  match enter_module max_recursion_debug 1 t (idle cap) with
  | Some (r, s') =>
      let ok := if restored_b s' then 1 else 0 in
      match r with
      | ROk => (0, 0, [], N.of_nat (count s'), ok)
      | RErr e => (1, match espan e with Some x => x | None => kind_code (kind e) end, map fn_id (estack e), N.of_nat (count s'), ok)
      end
  | None => (2, 0, [], 0%N, 0)
  end.

(* n nested user calls below the module frame, the innermost body succeeds *)
Fixpoint call_nest (n : nat) : tree :=
  match n with
  | O => Instr 7 (Leaf true 0)
  | S n => Instr 8 (Call (Z.of_nat (S n)) (Some 8) (Frame (Z.of_nat (S n)) 4 (call_nest n)))
  end.
Definition nest_result (n : N) : Z * Z * list Z * N * Z := case_result (Frame 0 4 (call_nest (N.to_nat n))).
